// Package c08 drives the real lang/step and lang/service code (step streams,
// service records, transaction records, and the packs that carry a profile) and
// records what it did for Trace_Profile.tla to judge.  The harness only records:
// projections use the standard library (reflect, encoding/binary via core) and
// the shape projection of valgen, never golib helpers.
//
// One history = one byte stream: items are written back to back into one
// DataOutputX (event W per item: kind, tag, every field as a leaf, the fields
// the real writer's bytes depend on, the item's own bytes), the stream is
// optionally produced a second time by ToBytesStep (event Whole) and carried
// through a pack (event Carry), and is then read item by item (event R: kind,
// every field of the object read, the cursor = length - Available()); objects the
// reader handed back are projected again after the later reads (event Again).
//
// Generator `retain`: one history = several streams.  All of them are encoded first
// (by every encoder entry point: the writers into a DataOutputX, ToBytesStep,
// TxRecord.ToBytes, SetProfile of the carrier packs), each output is KEPT by the
// driver as it was handed back (event Keep), and only then are the kept outputs
// looked at (event Peek: what they hold now) and decoded straight from the kept
// memory, in a random order; finally the decoded objects are projected once more.
package c08

import (
	"bytes"
	"fmt"
	"math"
	"math/rand"
	"reflect"
	"sort"

	gio "github.com/whatap/golib/io"
	"github.com/whatap/golib/lang/pack"
	"github.com/whatap/golib/lang/service"
	"github.com/whatap/golib/lang/step"
	"github.com/whatap/golib/lang/value"

	"verifharness/core"
	"verifharness/valgen"
)

func init() { core.Register("c08", Run) }

// ------------------------------------------------------------------- kinds

type kindDef struct {
	fam  string // step | service | tx
	name string
	mk   func() interface{}
}

var stepKinds = []kindDef{
	{"step", "MethodStepX", func() interface{} { return step.NewMethodStepX() }},
	{"step", "SqlStepX", func() interface{} { return step.NewSqlStepX() }},
	{"step", "ResultSetStep", func() interface{} { return step.NewResultSetStep() }},
	{"step", "SocketStep", func() interface{} { return step.NewSocketStep() }},
	{"step", "HttpcStepX", func() interface{} { return step.NewHttpcStepX() }},
	{"step", "ActiveStackStep", func() interface{} { return step.NewActiveStackStep() }},
	{"step", "MessageStep", func() interface{} { return step.NewMessageStep() }},
	{"step", "SecureMsgStep", func() interface{} { return step.NewSecureMsgStep() }},
	{"step", "DBCStep", func() interface{} { return step.NewDBCStep() }},
	{"step", "MessageStepX", func() interface{} { return step.NewMessageStepX() }},
}

var serviceKinds = []kindDef{
	{"service", "WasService", func() interface{} { return service.NewWasService() }},
	{"service", "AppService", func() interface{} { return service.NewAppService() }},
	{"service", "WasService2", func() interface{} { return service.NewWasService2() }},
}

// SqlStep_3 has a writer and a reader but is not a step.Step (its IsTrue/SetTrue take a byte) and reports
// the tag of SqlStepX: it cannot be given to WriteStep.  Its body codec is driven bare (no tag byte).
var bareKinds = []kindDef{
	{"bare", "SqlStep_3", func() interface{} { return step.NewSqlStep_3() }},
}

var txKind = kindDef{"tx", "TxRecord", func() interface{} { return service.NewTxRecord() }}

func allKinds() []kindDef {
	out := append([]kindDef{}, stepKinds...)
	out = append(out, bareKinds...)
	out = append(out, serviceKinds...)
	return append(out, txKind)
}

func kindByName(n string) kindDef {
	for _, k := range allKinds() {
		if k.name == n {
			return k
		}
	}
	panic("c08: unknown kind " + n)
}

func typeName(p interface{}) string {
	if p == nil {
		return "nil"
	}
	v := reflect.ValueOf(p)
	if v.Kind() == reflect.Ptr {
		if v.IsNil() {
			return "nil"
		}
		return v.Elem().Type().Name()
	}
	return v.Type().Name()
}

// ------------------------------------------------------------ field access

type fld struct {
	name string
	v    reflect.Value
	kind string // i u b s y a m
}

var tMapValue = reflect.TypeOf((*value.MapValue)(nil))

func kindOf(v reflect.Value) string {
	switch v.Kind() {
	case reflect.Int, reflect.Int8, reflect.Int16, reflect.Int32, reflect.Int64:
		return "i"
	case reflect.Uint8, reflect.Uint16, reflect.Uint32:
		return "u"
	case reflect.Bool:
		return "b"
	case reflect.String:
		return "s"
	case reflect.Slice:
		switch v.Type().Elem().Kind() {
		case reflect.Uint8:
			return "y"
		case reflect.Int32:
			return "a"
		}
	case reflect.Ptr:
		if v.Type() == tMapValue {
			return "m"
		}
	}
	return ""
}

// fieldsOf flattens the struct breadth first: a field of an embedded struct
// keeps its own name unless a shallower field has it already; then it is
// qualified with the name of the struct that declares it ("AbstractStep.Opt").
func fieldsOf(p interface{}) []fld {
	var out []fld
	seen := map[string]bool{}
	cur := []reflect.Value{reflect.ValueOf(p).Elem()}
	for len(cur) > 0 {
		var next []reflect.Value
		for _, sv := range cur {
			for i := 0; i < sv.NumField(); i++ {
				sf := sv.Type().Field(i)
				if sf.Anonymous && sf.Type.Kind() == reflect.Struct {
					next = append(next, sv.Field(i))
					continue
				}
				k := kindOf(sv.Field(i))
				if k == "" || !sv.Field(i).CanSet() {
					continue
				}
				n := sf.Name
				if seen[n] {
					n = sv.Type().Name() + "." + n
				}
				seen[n] = true
				out = append(out, fld{n, sv.Field(i), k})
			}
		}
		cur = next
	}
	return out
}

type obj = map[string]interface{}

func leaf(k string, v interface{}) obj { return obj{"k": k, "v": v} }

// item is one object with the shapes of its map fields (nil = the field is nil)
type item struct {
	def  kindDef
	p    interface{}
	maps map[string]*valgen.Node
	// real: the named map fields no longer have a shape the generator knows (the object was filled by the reader, or
	// the map was changed in place through its own mutators): they are projected through the map's public
	// enumeration, like on the read side
	real map[string]bool
}

func (it *item) isReal(f string) bool { return it.real[f] }
func (it *item) setReal(f string) {
	if it.real == nil {
		it.real = map[string]bool{}
	}
	it.real[f] = true
}

// setRealAll: the object was filled by the reader
func (it *item) setRealAll() {
	for _, f := range fieldsOf(it.p) {
		if f.kind == "m" {
			it.setReal(f.name)
		}
	}
}

func pairsOf(n *valgen.Node) interface{} {
	if n == nil {
		return []interface{}{}
	}
	return valgen.Proj(n).(obj)["v"]
}

// projW: the leaves of the object about to be written (map fields from their shapes)
func (it *item) projW() obj {
	m := obj{}
	for _, f := range fieldsOf(it.p) {
		switch f.kind {
		case "i":
			m[f.name] = leaf("i", core.W8(f.v.Int()))
		case "u":
			m[f.name] = leaf("i", core.W8(int64(f.v.Uint())))
		case "b":
			m[f.name] = leaf("b", f.v.Bool())
		case "s":
			m[f.name] = leaf("s", core.Str(f.v.String()))
		case "y":
			m[f.name] = leaf("s", core.Cp(f.v.Bytes()))
		case "a":
			o := make([]core.Bytes, f.v.Len())
			for i := range o {
				o[i] = core.W8(f.v.Index(i).Int())
			}
			m[f.name] = leaf("a", o)
		case "m":
			if it.isReal(f.name) {
				if f.v.IsNil() {
					m[f.name] = obj{"k": "m", "has": false, "v": []interface{}{}}
				} else {
					pr := valgen.ProjReal(f.v.Interface().(*value.MapValue)).(obj)
					m[f.name] = obj{"k": "m", "has": true, "v": pr["v"]}
				}
				continue
			}
			n := it.maps[f.name]
			m[f.name] = obj{"k": "m", "has": n != nil, "v": pairsOf(n)}
		}
	}
	return m
}

// projR: the leaves of an object that was read (map fields from the real value)
func projR(p interface{}) obj {
	m := obj{}
	for _, f := range fieldsOf(p) {
		switch f.kind {
		case "i":
			m[f.name] = leaf("i", core.W8(f.v.Int()))
		case "u":
			m[f.name] = leaf("i", core.W8(int64(f.v.Uint())))
		case "b":
			m[f.name] = leaf("b", f.v.Bool())
		case "s":
			m[f.name] = leaf("s", core.Str(f.v.String()))
		case "y":
			m[f.name] = leaf("s", core.Cp(f.v.Bytes()))
		case "a":
			o := make([]core.Bytes, f.v.Len())
			for i := range o {
				o[i] = core.W8(f.v.Index(i).Int())
			}
			m[f.name] = leaf("a", o)
		case "m":
			if f.v.IsNil() {
				m[f.name] = obj{"k": "m", "has": false, "v": []interface{}{}}
			} else {
				pr := valgen.ProjReal(f.v.Interface().(*value.MapValue)).(obj)
				m[f.name] = obj{"k": "m", "has": true, "v": pr["v"]}
			}
		}
	}
	return m
}

// ------------------------------------------------------------ real codec calls

func tagOf(it *item) int {
	switch x := it.p.(type) {
	case step.Step:
		return int(x.GetStepType())
	case service.Service:
		return int(x.GetServiceType())
	case *service.TxRecord:
		return 10 // the version byte of a transaction record
	}
	return -1 // bare body: no tag
}

func writeItem(out *gio.DataOutputX, it *item) {
	switch x := it.p.(type) {
	case step.Step:
		step.WriteStep(out, x)
	case service.Service:
		service.ToBytes(x, out)
	case *service.TxRecord:
		x.Write(out)
	case *step.SqlStep_3:
		x.Write(out)
	default:
		panic("c08: writeItem")
	}
}

func readItem(fam string, in *gio.DataInputX) interface{} {
	switch fam {
	case "step":
		return step.ReadStep(in)
	case "service":
		return service.ToObject(in)
	case "tx":
		return service.NewTxRecord().Read(in)
	case "bare":
		p := step.NewSqlStep_3()
		p.Read(in)
		return p
	}
	panic("c08: readItem")
}

func encode(it *item) (b []byte, msg string) {
	msg = core.Guard(func() {
		o := gio.NewDataOutputX()
		writeItem(o, it)
		b = append([]byte(nil), o.ToByteArray()...)
	})
	return
}

// freshCopy builds a NEW object of the item's type through its constructor and gives it the item's exported field
// values (slices and maps are shared, never modified through the copy): the content of the item without whatever
// unexported state the item itself has gathered in earlier calls.
func freshCopy(it *item) *item {
	c := &item{def: it.def, p: it.def.mk(), maps: it.maps, real: it.real}
	src, dst := fieldsOf(it.p), fieldsOf(c.p)
	for i := range src {
		dst[i].v.Set(src[i].v)
	}
	return c
}

// carried: the fields the bytes of the real writer depend on AT THIS CONTENT: a fresh object with the item's content is
// written, then once more per field with that one field changed.  (Fresh objects: a writer that answers from something
// it remembered in an earlier call must not make a field look as if it were not on the wire.)
func carried(it *item) []string {
	out := []string{}
	base, bmsg := encode(freshCopy(it))
	n := len(fieldsOf(it.p))
	for i := 0; i < n; i++ {
		c := freshCopy(it)
		f := fieldsOf(c.p)[i]
		switch f.kind {
		case "i":
			f.v.SetInt(f.v.Int() ^ 1)
		case "u":
			f.v.SetUint(f.v.Uint() ^ 1)
		case "b":
			f.v.SetBool(!f.v.Bool())
		case "s":
			f.v.SetString(f.v.String() + "~")
		case "y":
			f.v.SetBytes(append(append([]byte{}, f.v.Bytes()...), 0x7e))
		case "a":
			n := f.v.Len()
			s := reflect.MakeSlice(f.v.Type(), n+1, n+1)
			reflect.Copy(s, f.v)
			s.Index(n).SetInt(1)
			f.v.Set(s)
		case "m":
			n := valgen.Map()
			if src := it.maps[f.name]; src != nil && !it.isReal(f.name) {
				n.Keys = append(n.Keys, src.Keys...)
				n.Items = append(n.Items, src.Items...)
			}
			n.Put([]byte("~probe~"), valgen.Text([]byte("x")))
			f.v.Set(reflect.ValueOf(valgen.Build(n).(*value.MapValue)))
		}
		b, msg := encode(c)
		if msg != bmsg || !bytes.Equal(b, base) {
			out = append(out, f.name)
		}
	}
	sort.Strings(out)
	return out
}

// ------------------------------------------------------------ value source

func boundaries(bits int, unsigned bool) []int64 {
	if unsigned {
		return []int64{0, 1, 2, 127, 128, 254, 255}
	}
	b := []int64{0, 1, -1, 2, 127, 128, -128, -129, 255, 256, 32767, 32768, -32768, -32769, 1 << 23, 1<<23 - 1, -(1 << 23), -(1 << 23) - 1,
		math.MaxInt32, math.MinInt32}
	if bits > 32 {
		b = append(b, math.MaxInt32+1, math.MinInt32-1, 1<<32-1, 1<<32, 1<<39-1, 1<<39, -(1 << 39), -(1<<39)-1,
			1<<47, 1<<55, math.MaxInt64, math.MinInt64, math.MaxInt64-1, math.MinInt64+1, 1234567890123, -987654321098)
	}
	return b
}

func trunc(v int64, bits int) int64 {
	if bits >= 64 {
		return v
	}
	sh := uint(64 - bits)
	return (v << sh) >> sh
}

func randInt(r *rand.Rand, bits int) int64 {
	switch r.Intn(6) {
	case 0, 1:
		b := boundaries(bits, false)
		return b[r.Intn(len(b))]
	case 2:
		return int64(r.Intn(11) - 5)
	case 3:
		return trunc(-int64(r.Uint64()>>uint(1+r.Intn(63))), bits)
	default:
		return trunc(int64(r.Uint64()>>uint(1+r.Intn(63))), bits)
	}
}

func textLen(r *rand.Rand, big bool) int {
	switch r.Intn(10) {
	case 0:
		return 0
	case 1:
		return 1
	case 2:
		return []int{252, 253, 254, 255, 256, 257}[r.Intn(6)]
	case 3:
		if big && r.Intn(3) == 0 {
			return []int{65534, 65535, 65536, 65537}[r.Intn(4)]
		}
		return r.Intn(300)
	}
	return r.Intn(20)
}

func stackLen(r *rand.Rand, big bool) int {
	switch r.Intn(10) {
	case 0, 1:
		return 0
	case 2:
		return 1
	case 3:
		if big {
			return []int{127, 128, 255, 256, 1000}[r.Intn(5)]
		}
		return []int{127, 128}[r.Intn(2)]
	}
	return 1 + r.Intn(8)
}

// shapedBytes: byte strings of the LENGTHS and FORMS that mean something to code handling such a field (addresses of 4
// and 16 bytes incl. the IPv4-mapped / IPv4-compatible / unspecified / loopback forms, the lengths next to them,
// leading / trailing zero bytes, printable forms): a writer that normalises, shortens or trims what it is given does
// not return "the same step".  Content extremes alone do not reach these.
func shapedBytes() [][]byte {
	v4 := []byte{10, 1, 2, 3}
	cat := func(parts ...[]byte) []byte {
		var o []byte
		for _, p := range parts {
			o = append(o, p...)
		}
		return o
	}
	z := func(n int) []byte { return make([]byte, n) }
	ff := func(n int) []byte { return bytes.Repeat([]byte{0xff}, n) }
	return [][]byte{
		v4, {0, 0, 0, 0}, {127, 0, 0, 1}, {255, 255, 255, 255}, {224, 0, 0, 1}, {0, 0, 0, 1}, {1, 0, 0, 0},
		cat(z(10), ff(2), v4),                   // ::ffff:10.1.2.3 (IPv4-mapped)
		cat(z(10), ff(2), z(4)),                 // ::ffff:0.0.0.0
		cat(z(10), ff(2), ff(4)),                // ::ffff:255.255.255.255
		cat(z(10), ff(2), []byte{127, 0, 0, 1}), // ::ffff:127.0.0.1
		cat(z(12), v4),                          // ::10.1.2.3 (IPv4-compatible)
		z(16),                                   // ::
		cat(z(15), []byte{1}),                   // ::1
		cat([]byte{0x20, 0x01, 0x0d, 0xb8}, z(11), []byte{1}),                              // 2001:db8::1
		cat([]byte{0xfe, 0x80}, z(6), []byte{2, 0x1b, 0x21, 0xff, 0xfe, 0x3c, 0x4d, 0x5e}), // link local
		cat([]byte{0, 0x64, 0xff, 0x9b}, z(8), v4),                                         // 64:ff9b::10.1.2.3 (NAT64)
		ff(16),
		cat(z(9), ff(2), v4),  // 15 bytes: one short of the mapped form
		cat(z(11), ff(2), v4), // 17 bytes: one more
		cat(z(10), ff(2), v4, z(1)),
		z(3), z(5), z(6), z(8), z(12), z(15), z(17), z(20), z(32),
		{0, 0, 7}, {7, 0, 0}, {0}, {0, 0}, {0xff}, {0x80}, {0x7f},
		[]byte("10.1.2.3"), []byte("::ffff:10.1.2.3"), []byte(" x "), []byte("x\x00"), {0xef, 0xbb, 0xbf, 'x'},
	}
}

// shapedTexts: texts a writer could be tempted to tidy up (white space at the ends, letter case, NUL bytes, bytes that
// are not UTF-8, composed / decomposed letters, a byte order mark, paths and URLs that have a shorter equal form,
// numbers with a sign or leading zeros, the words for nothing).
func shapedTexts() []string {
	return []string{
		" lead", "trail ", "  both  ", "\tx\n", "x\r\n", "\n", " ", "UPPER", "MiXeD", "lower",
		"a\x00b", "\x00", "x\x00\x00", "\x00x", "\xff\xfe", "\xc3", "x\xed\xa0\x80y", "\u00e9", "e\u0301", "\ufeffx", "x\ufeff", "\u200bx",
		"http://Host.Example:80/a/../b//c/./d?x=1&y=%20#frag", "HTTP://h/", "/a//b/./c/", "/a/b/../c", "a%20b", "a+b", "a?b#c", "/", "//",
		"007", "-0", "+1", "1e3", "0x10", "0", "1", "-1", "null", "nil", "NULL", "<nil>", "undefined", "true", "false", "NaN",
		"select * from T where a=? /* c */", "SELECT  1", "a;b", "'q'", "\"q\"", "\\", "a\\nb", "%s%d", "{}", "[]",
	}
}

// a map shape with n distinct non-empty keys; values of every type code
func mapShape(r *rand.Rand, n int, depth int) *valgen.Node {
	m := valgen.Map()
	budget := 40
	o := &valgen.Opts{MaxWidth: 4, MaxBlob: 300, Budget: &budget}
	for i := 0; i < n; i++ {
		var k []byte
		if r.Intn(3) == 0 {
			k = []byte(fmt.Sprintf("k%d_%s", i, valgen.RandText(r, r.Intn(6))))
		} else {
			k = []byte(fmt.Sprintf("key%03d", i))
		}
		var v *valgen.Node
		if n > 40 {
			v = valgen.RandOf(r, []byte{valgen.TText, valgen.TDecimal, valgen.TBool, valgen.TNull}[r.Intn(4)], 0, o)
		} else {
			budget = 12
			v = valgen.Rand(r, depth, o)
		}
		m.Put(k, v)
	}
	return m
}

func setMap(it *item, f fld, n *valgen.Node) {
	if it.maps == nil {
		it.maps = map[string]*valgen.Node{}
	}
	it.maps[f.name] = n
	delete(it.real, f.name)
	if n == nil {
		f.v.Set(reflect.Zero(f.v.Type()))
	} else {
		f.v.Set(reflect.ValueOf(valgen.Build(n).(*value.MapValue)))
	}
}

// fill gives every field a random value
func fill(r *rand.Rand, it *item, big bool) {
	for _, f := range fieldsOf(it.p) {
		setRandom(r, it, f, big)
	}
	// the interesting points of the fields that select optional sections
	switch x := it.p.(type) {
	case *step.HttpcStepX:
		x.Version = []byte{2, 2, 2, 1, 1, 0, 3, 255}[r.Intn(8)]
	case *step.SqlStep_3:
		if r.Intn(4) > 0 {
			x.Opt = byte(r.Intn(8))
		}
	case *service.TxRecord:
		if r.Intn(3) == 0 {
			x.Mtid = 0
		}
		if r.Intn(3) == 0 {
			x.McallerPcode = 0
		}
		switch r.Intn(4) {
		case 0:
			x.Error = 0
		case 1:
			x.ErrorLevel = 0
		case 2:
			x.ErrorLevel = []byte{service.INFO, service.WARNING, service.FATAL}[r.Intn(3)]
		}
	}
}

func setRandom(r *rand.Rand, it *item, f fld, big bool) {
	switch f.kind {
	case "i":
		f.v.SetInt(randInt(r, f.v.Type().Bits()))
	case "u":
		if r.Intn(2) == 0 {
			b := boundaries(8, true)
			f.v.SetUint(uint64(b[r.Intn(len(b))]))
		} else {
			f.v.SetUint(uint64(r.Intn(256)))
		}
	case "b":
		f.v.SetBool(r.Intn(2) == 1)
	case "s":
		if r.Intn(6) == 0 {
			sh := shapedTexts()
			f.v.SetString(sh[r.Intn(len(sh))])
			return
		}
		f.v.SetString(string(valgen.RandText(r, textLen(r, big))))
	case "y":
		if r.Intn(4) == 0 {
			sh := shapedBytes()
			f.v.SetBytes(append([]byte{}, sh[r.Intn(len(sh))]...))
			return
		}
		n := textLen(r, big)
		if n == 0 && r.Intn(2) == 0 {
			f.v.Set(reflect.Zero(f.v.Type()))
		} else {
			f.v.SetBytes(valgen.RandBytes(r, n))
		}
	case "a":
		n := stackLen(r, big)
		if n == 0 && r.Intn(2) == 0 {
			f.v.Set(reflect.Zero(f.v.Type()))
			return
		}
		a := make([]int32, n)
		for i := range a {
			a[i] = int32(randInt(r, 32))
		}
		f.v.Set(reflect.ValueOf(a))
	case "m":
		switch r.Intn(5) {
		case 0:
			setMap(it, f, nil)
		case 1:
			setMap(it, f, valgen.Map())
		default:
			setMap(it, f, mapShape(r, 1+r.Intn(4), 1))
		}
	}
}

func newItem(r *rand.Rand, def kindDef, big bool) *item {
	it := &item{def: def, p: def.mk()}
	fill(r, it, big)
	return it
}

func fieldByName(it *item, name string) (fld, bool) {
	for _, f := range fieldsOf(it.p) {
		if f.name == name {
			return f, true
		}
	}
	return fld{}, false
}

// ------------------------------------------------------------ one history

// a carrier is a pack that holds a profile: hold = SetProfile on a new pack (the pack keeps what ToBytesStep
// handed back), take = the pack is written, read back, and the steps blob taken out.  Between the two the pack
// waits (in the real agent: in a queue) while other profiles are encoded.
type carrier struct {
	name string
	hold func(r *rand.Rand, steps []step.Step) interface{}
	take func(p interface{}, bypass *int) (out []byte, info string)
}

func (c *carrier) run(r *rand.Rand, steps []step.Step, bypass *int) ([]byte, string) {
	return c.take(c.hold(r, steps), bypass)
}

func headerFill(r *rand.Rand, p pack.Pack) {
	p.SetPCODE(randInt(r, 64))
	p.SetOID(int32(randInt(r, 32)))
	if r.Intn(2) == 0 {
		p.SetOKIND(int32(randInt(r, 32)))
		p.SetONODE(int32(randInt(r, 32)))
	}
	p.SetTime(randInt(r, 64))
}

var carriers = []carrier{
	{"ProfileStepSplitPack", func(r *rand.Rand, steps []step.Step) interface{} {
		p := pack.NewProfileStepSplitPack()
		headerFill(r, p)
		p.Txid = randInt(r, 64)
		p.Inx = int(randInt(r, 32))
		p.SetProfile(steps)
		return p
	}, func(p interface{}, _ *int) ([]byte, string) {
		// the pack factory (lang/pack, C03) does not know this type: its own reader is called directly
		in := gio.NewDataInputX(pack.ToBytesPack(p.(*pack.ProfileStepSplitPack)))
		in.ReadShort()
		q := pack.NewProfileStepSplitPack()
		q.Read(in)
		return q.Steps, ""
	}},
	{"ErrorSnapPack1", func(r *rand.Rand, steps []step.Step) interface{} {
		p := pack.NewErrorSnapPack1()
		headerFill(r, p)
		p.Seq = randInt(r, 64)
		p.SetProfile(steps)
		st := make([]int32, r.Intn(5))
		for i := range st {
			st[i] = int32(randInt(r, 32))
		}
		p.SetStack(st)
		p.AppendType = byte(r.Intn(256))
		p.AppendHash = int32(randInt(r, 32))
		return p
	}, func(p interface{}, _ *int) ([]byte, string) {
		q := pack.ToPack(pack.ToBytesPack(p.(*pack.ErrorSnapPack1)))
		return q.(*pack.ErrorSnapPack1).Profile, ""
	}},
	{"ProfilePack", func(r *rand.Rand, steps []step.Step) interface{} {
		p := pack.NewProfilePack()
		headerFill(r, p)
		tx := &item{def: txKind, p: txKind.mk()}
		fill(r, tx, false)
		p.Transaction = tx.p.(*service.TxRecord)
		p.SetProfile(steps)
		return p
	}, func(p interface{}, bypass *int) ([]byte, string) {
		b := pack.ToBytesPack(p.(*pack.ProfilePack))
		// the pack's own reader first (lang/pack belongs to C03: ProfilePack.Read reads a
		// Service where a TxRecord was written); if it cannot read its own bytes the blob is
		// taken out with the documented layout: type, header, transaction record, steps blob
		var got []byte
		ok := false
		if msg := core.Guard(func() {
			q := pack.ToPack(b).(*pack.ProfilePack)
			got, ok = q.Steps, true
		}); msg == "" && ok {
			return got, ""
		}
		*bypass++
		in := gio.NewDataInputX(b)
		in.ReadShort()
		q := pack.NewProfilePack()
		q.AbstractPack.Read(in)
		service.NewTxRecord().Read(in)
		return in.ReadBlob(), "ProfilePack.Read bypassed"
	}},
}

type hist struct {
	c      *core.Ctx
	t      *core.Trace
	gen    string
	cas    int
	bypass *int
	// generators of objects.go
	steer   map[string]bool // open known findings to steer around
	nsteer  *int
	aliased *int
}

// stream writes the items back to back, optionally re-produces the stream with
// ToBytesStep / carries it through a pack, reads it back item by item, and
// records every call.
func (h *hist) stream(r *rand.Rand, items []*item, whole bool, car *carrier, extra core.Ev) {
	h.t.Reset(h.gen, h.cas, extra)
	out := gio.NewDataOutputX()
	prev := 0
	var kinds []string
	for _, it := range items {
		w := it.projW()
		if msg := core.Guard(func() { writeItem(out, it) }); msg != "" {
			h.t.Emit(core.Ev{"ev": "Panic", "in": "write", "kind": it.def.name, "msg": msg})
			return
		}
		all := out.ToByteArray()
		b := core.Cp(all[prev:])
		prev = len(all)
		h.t.Emit(core.Ev{"ev": "W", "fam": it.def.fam, "kind": it.def.name, "tag": tagOf(it), "w": w,
			"carried": carried(it), "bytes": b, "size": out.Size()})
		h.c.Count(fmt.Sprintf("%s|%x", it.def.name, []byte(b)), len(b) >= 2)
		kinds = append(kinds, it.def.name)
	}
	data := append([]byte(nil), out.ToByteArray()...)
	var steps []step.Step
	if whole || car != nil {
		for _, it := range items {
			steps = append(steps, it.p.(step.Step))
		}
	}
	if whole {
		var wb []byte
		if msg := core.Guard(func() { wb = step.ToBytesStep(steps) }); msg != "" {
			h.t.Emit(core.Ev{"ev": "Panic", "in": "ToBytesStep", "msg": msg})
			return
		}
		h.t.Emit(core.Ev{"ev": "Whole", "via": "ToBytesStep", "bytes": core.Cp(wb)})
		data = append([]byte(nil), wb...)
	}
	if car != nil {
		var cb []byte
		info := ""
		if msg := core.Guard(func() { cb, info = car.run(r, steps, h.bypass) }); msg != "" {
			h.t.Emit(core.Ev{"ev": "Panic", "in": "carrier " + car.name, "msg": msg})
			return
		}
		h.t.Emit(core.Ev{"ev": "Carry", "pack": car.name, "out": core.Cp(cb), "info": info})
		data = append([]byte(nil), cb...)
	}
	in := gio.NewDataInputX(data)
	var objs []interface{}
	for i, it := range items {
		var got interface{}
		if msg := core.Guard(func() { got = readItem(it.def.fam, in) }); msg != "" {
			h.t.Emit(core.Ev{"ev": "Panic", "in": "read", "index": i + 1, "kind": it.def.name, "msg": msg})
			return
		}
		h.t.Emit(core.Ev{"ev": "R", "kind": typeName(got), "r": projAny(got), "cur": len(data) - int(in.Available())})
		objs = append(objs, got)
	}
	// the objects the reader handed back, looked at again after all the later reads (a few of them)
	if !h.again(r, objs, 6) {
		return
	}
	h.t.Emit(core.Ev{"ev": "End", "n": len(items), "len": len(data)})
	if len(items) > 1 {
		h.c.Sample(obj{"gen": h.gen, "case": h.cas, "kinds": kinds, "stream_bytes": len(data)})
	}
}

func projAny(got interface{}) obj {
	if typeName(got) == "nil" {
		return obj{}
	}
	return projR(got)
}

// again looks at (at most max of) the objects the reader handed back so far in this history once more: event Again
// j (the running number of the object in the history) kind r.
func (h *hist) again(r *rand.Rand, objs []interface{}, max int) bool {
	idx := r.Perm(len(objs))
	if len(idx) > max {
		idx = idx[:max]
	}
	sort.Ints(idx)
	for _, j := range idx {
		var rr obj
		if msg := core.Guard(func() { rr = projAny(objs[j]) }); msg != "" {
			h.t.Emit(core.Ev{"ev": "Panic", "in": "again", "index": j + 1, "msg": msg})
			return false
		}
		h.t.Emit(core.Ev{"ev": "Again", "j": j + 1, "kind": typeName(objs[j]), "r": rr})
	}
	return true
}

// ------------------------------------------------------------ kept outputs

// keptStream is one encoded stream with everything the code handed back for it; the caller (this driver) keeps
// all of it, untouched and uncopied, while other streams are encoded and decoded.
type keptStream struct {
	items []*item
	evs   []core.Ev        // the events of its encoding (emitted by the history in stream order)
	out   *gio.DataOutputX // the output the items were written into
	whole []byte           // the slice ToBytesStep returned (step streams)
	parts [][]byte         // the slices TxRecord.ToBytes returned, one per record (tx streams)
	car   *carrier         // the pack SetProfile stored the stream in (step streams, optional)
	pk    interface{}
	views []string
	fail  bool
}

// encodeKept runs every encoder entry point on the items of ks and keeps what they hand back.
func (ks *keptStream) encodeKept(r *rand.Rand, c *core.Ctx) {
	emit := func(e core.Ev) { ks.evs = append(ks.evs, e) }
	ks.out = gio.NewDataOutputX()
	prev := 0
	fam := ks.items[0].def.fam
	for _, it := range ks.items {
		w := it.projW()
		if msg := core.Guard(func() { writeItem(ks.out, it) }); msg != "" {
			emit(core.Ev{"ev": "Panic", "in": "write", "kind": it.def.name, "msg": msg})
			ks.fail = true
			return
		}
		all := ks.out.ToByteArray()
		b := core.Cp(all[prev:])
		prev = len(all)
		emit(core.Ev{"ev": "W", "fam": it.def.fam, "kind": it.def.name, "tag": tagOf(it), "w": w,
			"carried": carried(it), "bytes": b, "size": ks.out.Size()})
		c.Count(fmt.Sprintf("%s|%x", it.def.name, []byte(b)), len(b) >= 2)
	}
	ks.views = []string{"DataOutputX"}
	switch fam {
	case "step":
		var steps []step.Step
		for _, it := range ks.items {
			steps = append(steps, it.p.(step.Step))
		}
		if msg := core.Guard(func() { ks.whole = step.ToBytesStep(steps) }); msg != "" {
			emit(core.Ev{"ev": "Panic", "in": "ToBytesStep", "msg": msg})
			ks.fail = true
			return
		}
		emit(core.Ev{"ev": "Whole", "via": "ToBytesStep", "bytes": core.Cp(ks.whole)})
		ks.views = append(ks.views, "ToBytesStep")
		if ks.car != nil {
			if msg := core.Guard(func() { ks.pk = ks.car.hold(r, steps) }); msg != "" {
				emit(core.Ev{"ev": "Panic", "in": "SetProfile " + ks.car.name, "msg": msg})
				ks.fail = true
				return
			}
			ks.views = append(ks.views, "pack")
		}
	case "tx":
		for _, it := range ks.items {
			var b []byte
			if msg := core.Guard(func() { b = it.p.(*service.TxRecord).ToBytes() }); msg != "" {
				emit(core.Ev{"ev": "Panic", "in": "TxRecord.ToBytes", "msg": msg})
				ks.fail = true
				return
			}
			ks.parts = append(ks.parts, b)
		}
		emit(core.Ev{"ev": "Whole", "via": "TxRecord.ToBytes", "bytes": core.Cp(bytes.Join(ks.parts, nil))})
		ks.views = append(ks.views, "TxRecord.ToBytes")
	}
}

// view: what the kept output holds NOW
func (ks *keptStream) view(v string, bypass *int) (b []byte, info string, msg string) {
	msg = core.Guard(func() {
		switch v {
		case "DataOutputX":
			b = ks.out.ToByteArray()
		case "ToBytesStep":
			b = ks.whole
		case "TxRecord.ToBytes":
			b = bytes.Join(ks.parts, nil)
		case "pack":
			b, info = ks.car.take(ks.pk, bypass)
		}
	})
	return
}

// retain: several streams are encoded one after the other (or at the same time by one goroutine each), every
// output kept by the caller; only then are the kept outputs looked at and decoded, in a random order, straight from
// the kept memory; at the end the objects the reader handed back are looked at once more.
func (h *hist) retain(r *rand.Rand, streams []*keptStream, par bool, extra core.Ev) {
	h.t.Reset(h.gen, h.cas, extra)
	if par {
		done := make(chan int, len(streams))
		rs := make([]*rand.Rand, len(streams))
		for k := range streams {
			rs[k] = rand.New(rand.NewSource(r.Int63()))
		}
		for k := range streams {
			go func(k int) {
				defer func() { done <- k }()
				if msg := core.Guard(func() { streams[k].encodeKept(rs[k], h.c) }); msg != "" {
					streams[k].evs = append(streams[k].evs, core.Ev{"ev": "Panic", "in": "encode", "msg": msg})
					streams[k].fail = true
				}
			}(k)
		}
		for range streams {
			<-done
		}
	}
	total := 0
	for k, ks := range streams {
		if !par {
			ks.encodeKept(r, h.c)
		}
		for _, e := range ks.evs {
			h.t.Emit(e)
		}
		if ks.fail {
			return
		}
		h.t.Emit(core.Ev{"ev": "Keep", "h": k + 1})
		total += len(ks.items)
	}
	type look struct {
		k int
		v string
	}
	var looks []look
	for k, ks := range streams {
		for _, v := range ks.views {
			looks = append(looks, look{k, v})
		}
	}
	r.Shuffle(len(looks), func(i, j int) { looks[i], looks[j] = looks[j], looks[i] })
	// the encoder goes on serving other callers while the kept outputs are decoded: further encodings whose
	// outputs nobody looks at (stimulus only; like the probes of `carried` they are not events)
	noise := func() {
		core.Guard(func() {
			var st []step.Step
			for i, n := 0, 1+r.Intn(6); i < n; i++ {
				st = append(st, newItem(r, stepKinds[r.Intn(len(stepKinds))], false).p.(step.Step))
			}
			step.ToBytesStep(st)
			newItem(r, txKind, false).p.(*service.TxRecord).ToBytes()
			if r.Intn(2) == 0 {
				carriers[r.Intn(len(carriers))].hold(r, st)
			}
		})
	}
	var objs []interface{}
	for _, lk := range looks {
		if r.Intn(2) == 0 {
			noise()
		}
		ks := streams[lk.k]
		data, info, msg := ks.view(lk.v, h.bypass)
		if msg != "" {
			h.t.Emit(core.Ev{"ev": "Panic", "in": "view " + lk.v, "msg": msg})
			return
		}
		via := lk.v
		if via == "pack" {
			via = "pack " + ks.car.name
		}
		h.t.Emit(core.Ev{"ev": "Peek", "h": lk.k + 1, "via": via, "bytes": core.Cp(data), "info": info})
		in := gio.NewDataInputX(data) // the kept memory itself, not a copy
		for i, it := range ks.items {
			var got interface{}
			if lk.v == "TxRecord.ToBytes" {
				// TxRecord.ToObject on the kept slice of this record: it gets exactly the record's own bytes and
				// shows no cursor (event RO)
				if msg := core.Guard(func() { got = service.NewTxRecord().ToObject(ks.parts[i]) }); msg != "" {
					h.t.Emit(core.Ev{"ev": "Panic", "in": "ToObject", "index": i + 1, "kind": it.def.name, "msg": msg})
					return
				}
				h.t.Emit(core.Ev{"ev": "RO", "kind": typeName(got), "r": projAny(got)})
				objs = append(objs, got)
				continue
			}
			if msg := core.Guard(func() { got = readItem(it.def.fam, in) }); msg != "" {
				h.t.Emit(core.Ev{"ev": "Panic", "in": "read", "index": i + 1, "kind": it.def.name, "msg": msg})
				return
			}
			h.t.Emit(core.Ev{"ev": "R", "kind": typeName(got), "r": projAny(got), "cur": len(data) - int(in.Available())})
			objs = append(objs, got)
			if r.Intn(8) == 0 {
				noise()
			}
		}
		h.t.Emit(core.Ev{"ev": "End", "n": len(ks.items), "len": len(data)})
	}
	if !h.again(r, objs, 40) {
		return
	}
	h.c.Sample(obj{"gen": h.gen, "case": h.cas, "kept_streams": len(streams), "items": total, "looks": len(looks), "parallel": par})
}

// ------------------------------------------------------------ generators

// values a field is driven through by the `field` generator
func gridValues(r *rand.Rand, it *item, f fld, th bool) []func() {
	var out []func()
	switch f.kind {
	case "i":
		for _, v := range boundaries(f.v.Type().Bits(), false) {
			v := v
			out = append(out, func() { f.v.SetInt(v) })
		}
	case "u":
		for _, v := range boundaries(8, true) {
			v := v
			out = append(out, func() { f.v.SetUint(uint64(v)) })
		}
	case "b":
		out = append(out, func() { f.v.SetBool(false) }, func() { f.v.SetBool(true) })
	case "s", "y":
		lens := []int{0, 1, 2, 3, 4, 5, 6, 8, 12, 15, 16, 17, 20, 32, 64, 252, 253, 254, 255, 256}
		if th {
			lens = append(lens, 65534, 65535, 65536, 70000)
		}
		for _, n := range lens {
			n := n
			if f.kind == "s" {
				out = append(out, func() { f.v.SetString(string(valgen.RandText(r, n))) })
			} else {
				out = append(out, func() { f.v.SetBytes(valgen.RandBytes(r, n)) })
			}
		}
		if f.kind == "y" {
			out = append(out, func() { f.v.Set(reflect.Zero(f.v.Type())) })
			for _, b := range shapedBytes() {
				b := b
				out = append(out, func() { f.v.SetBytes(append([]byte{}, b...)) })
			}
		} else {
			for _, t := range shapedTexts() {
				t := t
				out = append(out, func() { f.v.SetString(t) })
			}
		}
	case "a":
		// forms a writer could tidy up: equal entries, zeros at the ends, descending / ascending runs
		for _, a := range [][]int32{{5, 5, 5}, {0, 0, 0}, {0, 0, 7}, {7, 0, 0}, {0}, {3, 2, 1}, {1, 2, 3}, {1, 2, 1, 2}, {-1, -1}} {
			a := a
			out = append(out, func() { f.v.Set(reflect.ValueOf(append([]int32{}, a...))) })
		}
		lens := []int{-1, 0, 1, 2, 3, 127, 128}
		if th {
			lens = append(lens, 255, 256, 1000, 32767)
		}
		for _, n := range lens {
			n := n
			out = append(out, func() {
				if n < 0 {
					f.v.Set(reflect.Zero(f.v.Type()))
					return
				}
				a := make([]int32, n)
				b := boundaries(32, false)
				for i := range a {
					a[i] = int32(b[(i*7+n)%len(b)])
				}
				f.v.Set(reflect.ValueOf(a))
			})
		}
	case "m":
		ns := []int{-1, 0, 1, 2, 5, 40}
		if _, isTx := it.p.(*service.TxRecord); isTx {
			ns = append(ns, 254, 255)
		} else if th {
			ns = append(ns, 255, 256, 300)
		}
		for _, n := range ns {
			n := n
			out = append(out, func() {
				if n < 0 {
					setMap(it, f, nil)
				} else {
					setMap(it, f, mapShape(r, n, 2))
				}
			})
		}
	}
	return out
}

// enable makes every optional section of the object present (unless `except`
// is the field that controls it)
func enable(it *item, except string) {
	switch x := it.p.(type) {
	case *step.HttpcStepX:
		if except != "Version" {
			x.Version = 2
		}
	case *step.SqlStep_3:
		if except != "Opt" {
			x.Opt |= 7
		}
	case *service.TxRecord:
		if except != "Mtid" && x.Mtid == 0 {
			x.Mtid = -77
		}
		if except != "McallerPcode" && x.McallerPcode == 0 {
			x.McallerPcode = 1 << 40
		}
	}
}

func setAll(it *item, r *rand.Rand, mode int) {
	for _, f := range fieldsOf(it.p) {
		switch f.kind {
		case "i":
			bits := f.v.Type().Bits()
			switch mode {
			case 0:
				f.v.SetInt(0)
			case 1:
				f.v.SetInt(trunc(math.MinInt64>>uint(64-bits), bits))
			case 2:
				f.v.SetInt(int64(uint64(math.MaxInt64) >> uint(64-bits)))
			}
		case "u":
			f.v.SetUint([]uint64{0, 128, 255}[mode])
		case "b":
			f.v.SetBool(mode == 2)
		case "s":
			f.v.SetString([]string{"", "a", string(valgen.RandText(r, 254))}[mode])
		case "y":
			f.v.SetBytes([][]byte{nil, {0}, valgen.RandBytes(r, 255)}[mode])
		case "a":
			f.v.Set(reflect.ValueOf([][]int32{nil, {math.MinInt32}, {math.MaxInt32, 0, -1}}[mode]))
		case "m":
			switch mode {
			case 0:
				setMap(it, f, nil)
			case 1:
				setMap(it, f, valgen.Map())
			case 2:
				setMap(it, f, mapShape(r, 3, 1))
			}
		}
	}
}

func Run(c *core.Ctx) error {
	th := c.Thorough()
	c.Rule = "items = steps of the 11 step types (9 factory types, SqlStep_3, MessageStepX; every version byte / option flag), the 3 service record types and transaction records, " +
		"built through golib's constructors with every exported field set (boundary values of the field's width, text/blob lengths 0..6, 8, 12, 15..17, 20, 32, 64 and around 253..256, byte strings and texts of the forms code could tidy up (4- and 16-byte addresses incl. the IPv4-mapped form, zero bytes and white space at the ends, NUL, non-UTF-8, letter case), stacks of 0..128 entries, attribute / custom-field maps of 0..255 entries over all value type codes); " +
		"each item is written into a stream of 1..60 items by the real writer and read back by the real reader; generator retain: 2..8 streams of 1..12 items encoded by every encoder entry point before any is decoded, " +
		"every output handed back kept and looked at again after the later encodings and decodings; non-trivial = written form of >= 2 bytes; distinct by (kind, written bytes)"
	bypass := 0
	grid := c.Trace("c08_grid", "Trace_Profile")
	rnd := c.Trace("c08_rand", "Trace_Profile")

	// ---- registry: what the factories create for every tag
	if c.Want("registry", 0) {
		grid.Reset("registry", 0, nil)
		n := 0
		for t := 0; t < 256; t++ {
			var s step.Step
			kind, rep := "nil", -1
			msg := core.Guard(func() { s = step.CreateStep(byte(t)) })
			if msg == "" && s != nil {
				kind, rep = typeName(s), int(s.GetStepType())
			}
			grid.Emit(core.Ev{"ev": "Create", "fam": "step", "tag": t, "kind": kind, "reports": rep})
			var sv service.Service
			kind, rep = "nil", -1
			msg = core.Guard(func() { sv = service.CreateService(byte(t)) })
			if msg == "" && sv != nil {
				kind, rep = typeName(sv), int(sv.GetServiceType())
			}
			grid.Emit(core.Ev{"ev": "Create", "fam": "service", "tag": t, "kind": kind, "reports": rep})
			n += 2
		}
		// every step / service type reports a tag the factory maps back to the same type
		for _, k := range append(append([]kindDef{}, stepKinds...), serviceKinds...) {
			if k.fam == "bare" {
				continue
			}
			p := k.mk()
			tag := tagOf(&item{def: k, p: p})
			back := "nil"
			core.Guard(func() {
				if k.fam == "step" {
					back = typeName(step.CreateStep(byte(tag)))
				} else {
					back = typeName(service.CreateService(byte(tag)))
				}
			})
			grid.Emit(core.Ev{"ev": "TagOf", "fam": k.fam, "kind": k.name, "tag": tag, "back": back})
			n++
		}
		grid.Emit(core.Ev{"ev": "End0", "n": n})
		c.Count("registry", true)
	}

	// ---- field: every field of every kind through the boundary values of its type
	cas := 0
	for _, k := range allKinds() {
		probe := &item{def: k, p: k.mk()}
		for _, pf := range fieldsOf(probe.p) {
			cas++
			if !c.Want("field", cas) {
				continue
			}
			r := c.Rng("field", cas)
			var items []*item
			nvals := len(gridValues(r, probe, pf, th))
			for vi := 0; vi < nvals; vi++ {
				it := newItem(r, k, false)
				enable(it, pf.name)
				f, _ := fieldByName(it, pf.name)
				gridValues(r, it, f, th)[vi]()
				items = append(items, it)
			}
			// a closing item of another kind of the same family: whatever the last item left unread shows
			items = append(items, newItem(r, k, false))
			h := &hist{c: c, t: grid, gen: "field", cas: cas, bypass: &bypass}
			h.stream(r, items, false, nil, core.Ev{"kind": k.name, "field": pf.name})
		}
	}

	// ---- flags: every version / option-flag / presence combination
	flagCase := func(cas int, build func(r *rand.Rand) []*item) {
		if !c.Want("flags", cas) {
			return
		}
		r := c.Rng("flags", cas)
		h := &hist{c: c, t: grid, gen: "flags", cas: cas, bypass: &bypass}
		h.stream(r, build(r), false, nil, nil)
	}
	flagCase(0, func(r *rand.Rand) []*item {
		var items []*item
		for _, ver := range []byte{0, 1, 2, 3, 4, 10, 128, 255} {
			for mode := 0; mode < 3; mode++ {
				it := &item{def: kindByName("HttpcStepX"), p: step.NewHttpcStepXVersion(ver)}
				setAll(it, r, mode)
				it.p.(*step.HttpcStepX).Version = ver
				items = append(items, it)
			}
			it := newItem(r, kindByName("HttpcStepX"), false)
			it.p.(*step.HttpcStepX).Version = ver
			items = append(items, it)
		}
		return items
	})
	flagCase(1, func(r *rand.Rand) []*item {
		var items []*item
		for _, n := range []int{-1, 0, 1, 3, -1, 12} {
			for mode := 0; mode < 3; mode++ {
				it := &item{def: kindByName("MessageStepX"), p: step.NewMessageStepX()}
				setAll(it, r, mode)
				f, _ := fieldByName(it, "Attr")
				if n < 0 {
					setMap(it, f, nil)
				} else {
					setMap(it, f, mapShape(r, n, 2))
				}
				items = append(items, it)
			}
		}
		return items
	})
	flagCase(2, func(r *rand.Rand) []*item {
		var items []*item
		opts := []byte{0, 1, 2, 3, 4, 5, 6, 7, 8, 9, 10, 12, 15, 16, 0x80, 0x81, 0x82, 0x84, 0xf8, 0xff}
		for _, o := range opts {
			for mode := 0; mode < 4; mode++ {
				var it *item
				if mode < 3 {
					it = &item{def: kindByName("SqlStep_3"), p: step.NewSqlStep_3()}
					setAll(it, r, mode)
				} else {
					it = newItem(r, kindByName("SqlStep_3"), false)
				}
				it.p.(*step.SqlStep_3).Opt = o
				items = append(items, it)
			}
		}
		return items
	})
	flagCase(3, func(r *rand.Rand) []*item { // every kind at its all-zero / all-minimum / all-maximum point
		var items []*item
		for mode := 0; mode < 3; mode++ {
			for _, k := range stepKinds {
				it := &item{def: k, p: k.mk()}
				setAll(it, r, mode)
				items = append(items, it)
			}
		}
		return items
	})
	flagCase(4, func(r *rand.Rand) []*item {
		var items []*item
		for mode := 0; mode < 3; mode++ {
			for _, k := range serviceKinds {
				it := &item{def: k, p: k.mk()}
				setAll(it, r, mode)
				items = append(items, it)
			}
		}
		return items
	})
	flagCase(5, func(r *rand.Rand) []*item {
		var items []*item
		for mode := 0; mode < 3; mode++ {
			it := &item{def: txKind, p: txKind.mk()}
			setAll(it, r, mode)
			items = append(items, it)
		}
		return items
	})

	// ---- onehot: per kind one history.  For every field two items in which ONLY that field is away from its zero
	// value (a small value with every optional section off, an extreme one with every section on), then items whose
	// fields all hold the same value: whether a field comes back must not depend on what the OTHER fields hold
	// (a writer that sends a field only beside a non-zero neighbour, or only when it differs from one).
	for ki, k := range allKinds() {
		if !c.Want("onehot", ki) {
			continue
		}
		r := c.Rng("onehot", ki)
		var items []*item
		nf := len(fieldsOf(k.mk()))
		for fi := 0; fi < nf; fi++ {
			for form := 0; form < 2; form++ {
				it := &item{def: k, p: k.mk()}
				setAll(it, r, 0)
				f := fieldsOf(it.p)[fi]
				if form == 1 {
					enable(it, f.name)
				}
				switch f.kind {
				case "i":
					f.v.SetInt([]int64{1, trunc(math.MinInt64>>uint(64-f.v.Type().Bits()), f.v.Type().Bits())}[form])
				case "u":
					f.v.SetUint([]uint64{1, 255}[form])
				case "b":
					f.v.SetBool(true)
				case "s":
					f.v.SetString([]string{"x", string(valgen.RandText(r, 40))}[form])
				case "y":
					f.v.SetBytes([][]byte{{1}, valgen.RandBytes(r, 16)}[form])
				case "a":
					f.v.Set(reflect.ValueOf([][]int32{{1}, {math.MinInt32, 0, math.MaxInt32}}[form]))
				case "m":
					setMap(it, f, mapShape(r, 1+2*form, 1))
				}
				items = append(items, it)
			}
		}
		for _, v := range []int64{7, -1, 0x0101010101010101} {
			for form := 0; form < 2; form++ {
				it := &item{def: k, p: k.mk()}
				setAll(it, r, 0)
				for _, f := range fieldsOf(it.p) {
					switch f.kind {
					case "i":
						f.v.SetInt(trunc(v, f.v.Type().Bits()))
					case "u":
						f.v.SetUint(uint64(v) & 0xff)
					case "b":
						f.v.SetBool(v&1 == 1)
					case "s":
						f.v.SetString(fmt.Sprint(v))
					case "y":
						f.v.SetBytes([]byte{byte(v)})
					case "a":
						f.v.Set(reflect.ValueOf([]int32{int32(v)}))
					}
				}
				if form == 1 {
					enable(it, "")
				}
				items = append(items, it)
			}
		}
		h := &hist{c: c, t: grid, gen: "onehot", cas: ki, bypass: &bypass}
		h.stream(r, items, false, nil, core.Ev{"kind": k.name})
	}

	// ---- txopt: every combination of the optional groups of a transaction record
	{
		type combo struct {
			mtid          int64
			mdepth        int32
			mcaller       int64
			pcode         int64
			callerNonzero bool
			nfields       int
			err           int64
			level         byte
		}
		var combos []combo
		mtids := []int64{0, 5, -7, math.MinInt64}
		pcodes := []int64{0, 1, -1234567890123}
		nfs := []int{-1, 0, 1, 3}
		errs := []int64{0, 1, -1, math.MinInt64}
		levels := []byte{0, service.INFO, service.WARNING, service.FATAL, 255}
		i := 0
		for _, mt := range mtids {
			for _, md := range []bool{false, true} {
				for _, pc := range pcodes {
					for _, cn := range []bool{false, true} {
						for _, nf := range nfs {
							els := [][2]int{{i % 4, (i / 4) % 5}}
							if th {
								els = nil
								for a := 0; a < 4; a++ {
									for b := 0; b < 5; b++ {
										els = append(els, [2]int{a, b})
									}
								}
							}
							for _, el := range els {
								cb := combo{mtid: mt, pcode: pc, callerNonzero: cn, nfields: nf, err: errs[el[0]], level: levels[el[1]]}
								if md {
									cb.mdepth, cb.mcaller = 3, -9
								}
								combos = append(combos, cb)
							}
							i++
						}
					}
				}
			}
		}
		const per = 16
		for cas := 0; cas*per < len(combos); cas++ {
			if !c.Want("txopt", cas) {
				continue
			}
			r := c.Rng("txopt", cas)
			var items []*item
			for j := cas * per; j < (cas+1)*per && j < len(combos); j++ {
				cb := combos[j]
				it := newItem(r, txKind, false)
				x := it.p.(*service.TxRecord)
				x.Mtid, x.Mdepth, x.Mcaller, x.McallerPcode, x.Error, x.ErrorLevel = cb.mtid, cb.mdepth, cb.mcaller, cb.pcode, cb.err, cb.level
				if !cb.callerNonzero {
					x.McallerOkind, x.McallerOid, x.McallerSpec, x.McallerUrl, x.MthisSpec = 0, 0, 0, 0, 0
				} else {
					x.McallerOkind, x.McallerOid, x.McallerSpec, x.McallerUrl, x.MthisSpec = 1, -2, math.MaxInt32, math.MinInt32, 77
				}
				f, _ := fieldByName(it, "Fields")
				if cb.nfields < 0 {
					setMap(it, f, nil)
				} else {
					setMap(it, f, mapShape(r, cb.nfields, 1))
				}
				items = append(items, it)
			}
			h := &hist{c: c, t: grid, gen: "txopt", cas: cas, bypass: &bypass}
			h.stream(r, items, false, nil, nil)
		}
	}

	// ---- rand: random streams of 1..60 steps over all step types and versions
	for cas := 0; cas < c.Pick(40, 700); cas++ {
		if !c.Want("rand", cas) {
			continue
		}
		r := c.Rng("rand", cas)
		n := 1 + r.Intn(60)
		big := th && cas%10 == 0
		if big {
			n = 1 + r.Intn(8)
		}
		var items []*item
		for i := 0; i < n; i++ {
			items = append(items, newItem(r, stepKinds[r.Intn(len(stepKinds))], big))
		}
		h := &hist{c: c, t: rnd, gen: "rand", cas: cas, bypass: &bypass}
		h.stream(r, items, true, nil, nil)
	}
	// ---- records: random streams of service records / of transaction records
	for cas := 0; cas < c.Pick(16, 300); cas++ {
		if !c.Want("records", cas) {
			continue
		}
		r := c.Rng("records", cas)
		var items []*item
		if cas%3 == 0 {
			for i, n := 0, 1+r.Intn(20); i < n; i++ {
				items = append(items, newItem(r, serviceKinds[r.Intn(3)], false))
			}
		} else if cas%3 == 2 {
			for i, n := 0, 1+r.Intn(20); i < n; i++ {
				items = append(items, newItem(r, bareKinds[0], false))
			}
		} else {
			for i, n := 0, 1+r.Intn(10); i < n; i++ {
				items = append(items, newItem(r, txKind, th && cas%30 == 1))
			}
		}
		h := &hist{c: c, t: rnd, gen: "records", cas: cas, bypass: &bypass}
		h.stream(r, items, false, nil, nil)
	}
	// ---- carrier: step streams through the packs that carry a profile
	for cas := 0; cas < c.Pick(12, 150); cas++ {
		if !c.Want("carrier", cas) {
			continue
		}
		r := c.Rng("carrier", cas)
		var items []*item
		for i, n := 0, 1+r.Intn(20); i < n; i++ {
			items = append(items, newItem(r, stepKinds[r.Intn(len(stepKinds))], false))
		}
		h := &hist{c: c, t: rnd, gen: "carrier", cas: cas, bypass: &bypass}
		h.stream(r, items, true, &carriers[cas%len(carriers)], nil)
	}
	// ---- retain: 2..6 streams encoded before any is decoded; everything handed back is kept and looked at later
	keep := c.Trace("c08_keep", "Trace_Profile")
	nret := c.Pick(24, 400)
	for i := 0; i < nret; i++ {
		// the histories encoded by concurrent goroutines (cas%4 == 3) come last in the trace: what they show may depend
		// on the schedule, and the runner looks at the rejections in trace order
		cas := i/3*4 + i%3
		if i >= nret/4*3 {
			cas = (i-nret/4*3)*4 + 3
		}
		if !c.Want("retain", cas) {
			continue
		}
		r := c.Rng("retain", cas)
		nk := 2 + r.Intn(c.Pick(4, 7))
		par := cas%4 == 3
		var streams []*keptStream
		var shape []*item // cas%4 == 1: every stream has the kinds of the first (equal or nearly equal lengths)
		for k := 0; k < nk; k++ {
			ks := &keptStream{}
			fam := "step"
			if cas%4 != 0 {
				fam = []string{"step", "step", "step", "step", "step", "tx", "tx", "service", "bare"}[r.Intn(9)]
			}
			n := 1 + r.Intn(12)
			if r.Intn(4) == 0 {
				n = 1
			}
			if cas%4 == 1 && shape != nil {
				for _, it := range shape {
					ks.items = append(ks.items, newItem(r, it.def, false))
				}
			} else {
				for i := 0; i < n; i++ {
					// cas%4 == 2: the same object may stand in several streams, or twice in one
					if cas%4 == 2 && r.Intn(3) == 0 {
						var pool []*item
						for _, e := range streams {
							pool = append(pool, e.items...)
						}
						pool = append(pool, ks.items...)
						var same []*item
						for _, e := range pool {
							if e.def.fam == fam {
								same = append(same, e)
							}
						}
						if len(same) > 0 {
							ks.items = append(ks.items, same[r.Intn(len(same))])
							continue
						}
					}
					switch fam {
					case "step":
						ks.items = append(ks.items, newItem(r, stepKinds[r.Intn(len(stepKinds))], false))
					case "tx":
						ks.items = append(ks.items, newItem(r, txKind, false))
					case "service":
						ks.items = append(ks.items, newItem(r, serviceKinds[r.Intn(3)], false))
					default:
						ks.items = append(ks.items, newItem(r, bareKinds[0], false))
					}
				}
				if shape == nil {
					shape = ks.items
				}
			}
			if ks.items[0].def.fam == "step" && r.Intn(2) == 0 {
				ks.car = &carriers[r.Intn(len(carriers))]
			}
			streams = append(streams, ks)
		}
		h := &hist{c: c, t: keep, gen: "retain", cas: cas, bypass: &bypass}
		h.retain(r, streams, par, core.Ev{"streams": nk, "parallel": par, "nondet": par})
	}
	// ---- the objects (objects.go): written, changed, written again; readers called on objects that hold something
	objt := c.Trace("c08_obj", "Trace_Profile")
	steer := openFindings(c)
	nsteer, aliased := 0, 0
	oh := func(gen string, cas int) *hist {
		return &hist{c: c, t: objt, gen: gen, cas: cas, bypass: &bypass, steer: steer, nsteer: &nsteer, aliased: &aliased}
	}
	kinds := allKinds()
	for cas := 0; cas < c.Pick(2, 12)*len(kinds); cas++ {
		if !c.Want("rewrite", cas) {
			continue
		}
		v := cas / len(kinds)
		oh("rewrite", cas).rewrite(c.Rng("rewrite", cas), kinds[cas%len(kinds)], v%2 == 1, th && v%6 == 5)
	}
	for cas := 0; cas < c.Pick(36, 480); cas++ {
		if !c.Want("reuse", cas) {
			continue
		}
		r := c.Rng("reuse", cas)
		fam := []string{"step", "tx", "bare", "tx", "step", "service"}[cas%6]
		oh("reuse", cas).reuse(r, fam, 3+r.Intn(4), cas%6 == 3)
	}
	for cas := 0; cas < c.Pick(9, 120); cas++ {
		if !c.Want("packreuse", cas) {
			continue
		}
		r := c.Rng("packreuse", cas)
		oh("packreuse", cas).packreuse(r, cas%len(carriers), 3+r.Intn(3))
	}
	// the witness of the open known findings of reuseFinding (only on request)
	if c.OnlyGen == "kf_reuse" {
		for cas, k := range []string{"TxRecord", "HttpcStepX", "MessageStepX", "SqlStep_3"} {
			if c.Want("kf_reuse", cas) {
				oh("kf_reuse", cas).kfReuse(c.Rng("kf_reuse", cas), kindByName(k))
			}
		}
	}
	c.SetExtra("profilepack_read_bypassed", bypass)
	c.SetExtra("receivers_steered_around_open_findings", nsteer)
	c.SetExtra("pack_reader_filled_an_object_handed_back_before", aliased)
	return nil
}
