package c08

// The objects items are written from and read into (spec actions New / Mut / ObjIs / ReadInto / Another).
//
// Generator `rewrite`: ONE object is written, changed through every exported field (assignment), every public setter
// and the public mutators of its map fields, and written again after every change -- all into one stream, every W
// carrying the object's content of that moment (and its running number `o`, so that the spec checks it against the
// content it tracks for the object).  The stream is read back by the real reader; a second stream of the same objects
// is then read INTO objects that already hold a decode.
//
// Generator `reuse`: the reader's receiver.  Streams of the same kinds with every optional section present, then absent,
// then mixed, are decoded into receivers that already hold something: an earlier decode of the same type, or the
// caller's own object (Step.Read / Service.Read behind the tag byte, TxRecord.Read / ToObject, SqlStep_3.Read).
//
// Generator `packreuse`: the same for the packs that carry a profile: ONE pack object is given to Read again and again
// (ProfilePack: the transaction record it hands back and the step stream; ProfileStepSplitPack, ErrorSnapPack1: the
// step stream).
//
// Open known findings (ids in c.Args["kf"]) steer `reuse` / `rewrite` around exactly their signature; generator
// `kf_reuse` is their witness.

import (
	"fmt"
	"math/rand"
	"reflect"
	"sort"
	"strings"

	gio "github.com/whatap/golib/io"
	"github.com/whatap/golib/lang/pack"
	"github.com/whatap/golib/lang/service"
	"github.com/whatap/golib/lang/step"
	"github.com/whatap/golib/lang/value"

	"verifharness/core"
	"verifharness/valgen"
)

// kinds whose reader takes optional sections, and the id of the finding "its Read leaves the fields of a section that
// is absent from the stream as the receiver held them"
var reuseFinding = map[string]string{
	"TxRecord":     "C08-reuse-txrecord",
	"HttpcStepX":   "C08-reuse-httpcstepx",
	"MessageStepX": "C08-reuse-messagestepx",
	"SqlStep_3":    "C08-reuse-sqlstep3",
}

func openFindings(c *core.Ctx) map[string]bool {
	m := map[string]bool{}
	for _, id := range strings.Split(c.Args["kf"], "+") {
		if id != "" {
			m[id] = true
		}
	}
	return m
}

// ------------------------------------------------------------ one session

// session: one history over the objects the caller holds.
type session struct {
	h     *hist
	r     *rand.Rand
	objs  []interface{}         // running number - 1 -> the object
	items map[interface{}]*item // the object -> what the driver knows about it (shapes of its maps)
	num   map[interface{}]int   // the object -> its running number
	cur   []*item               // the items of the stream at hand, in written order
	pres  []bool                // ... whether all optional sections were present when each was written
	data  []byte                // the stream at hand
	out   *gio.DataOutputX      // ... when the items go into one DataOutputX
	own   bool                  // every item is encoded by an entry point that hands back a slice of its own
	fail  bool
	steer map[string]bool
	nste  *int
}

func newSession(h *hist, r *rand.Rand, own bool, extra core.Ev) *session {
	h.t.Reset(h.gen, h.cas, extra)
	return &session{h: h, r: r, items: map[interface{}]*item{}, num: map[interface{}]int{}, own: own, out: gio.NewDataOutputX(),
		steer: h.steer, nste: h.nsteer}
}

func (s *session) panicEv(in string, msg string, more core.Ev) {
	e := core.Ev{"ev": "Panic", "in": in, "msg": msg}
	for k, v := range more {
		e[k] = v
	}
	s.h.t.Emit(e)
	s.fail = true
}

func (s *session) register(p interface{}, it *item) int {
	s.objs = append(s.objs, p)
	s.num[p] = len(s.objs)
	if it != nil {
		s.items[p] = it
	}
	return len(s.objs)
}

// newObj: the caller built an object
func (s *session) newObj(it *item) int {
	j := s.register(it.p, it)
	s.h.t.Emit(core.Ev{"ev": "New", "j": j, "kind": it.def.name, "w": it.projW()})
	return j
}

// mut: the caller changes object j
func (s *session) mut(j int, how string, fs []string, apply func()) bool {
	it := s.items[s.objs[j-1]]
	if msg := core.Guard(apply); msg != "" {
		s.panicEv("mutator "+how, msg, core.Ev{"kind": it.def.name})
		return false
	}
	s.h.t.Emit(core.Ev{"ev": "Mut", "j": j, "how": how, "fs": fs, "w": it.projW()})
	return true
}

// encodeOwn: the item's bytes through an entry point that hands back a slice of its own
func encodeOwn(it *item) []byte {
	switch x := it.p.(type) {
	case step.Step:
		return step.ToBytesStep([]step.Step{x})
	case *service.TxRecord:
		return x.ToBytes()
	}
	o := gio.NewDataOutputX()
	writeItem(o, it)
	return o.ToByteArray()
}

// write: object j is given to the real writer
func (s *session) write(j int) bool {
	it := s.items[s.objs[j-1]]
	w := it.projW()
	var b []byte
	msg := core.Guard(func() {
		if s.own {
			b = core.Cp(encodeOwn(it))
			s.data = append(s.data, b...)
		} else {
			prev := len(s.data)
			writeItem(s.out, it)
			s.data = append([]byte(nil), s.out.ToByteArray()...)
			b = core.Cp(s.data[prev:])
		}
	})
	if msg != "" {
		s.panicEv("write", msg, core.Ev{"kind": it.def.name})
		return false
	}
	s.h.t.Emit(core.Ev{"ev": "W", "fam": it.def.fam, "kind": it.def.name, "tag": tagOf(it), "w": w, "o": j,
		"carried": carried(it), "bytes": core.Bytes(b), "size": len(s.data)})
	s.h.c.Count(fmt.Sprintf("%s|%x", it.def.name, b), len(b) >= 2)
	s.cur = append(s.cur, it)
	s.pres = append(s.pres, allPresent(it))
	return true
}

// readOn calls the real reader of family fam ON the object p (behind the tag byte, as ReadStep / ToObject do)
func readOn(fam string, in *gio.DataInputX, p interface{}) {
	switch fam {
	case "step":
		in.ReadByte()
		p.(step.Step).Read(in)
	case "service":
		in.ReadByte()
		p.(service.Service).Read(in)
	case "tx":
		p.(*service.TxRecord).Read(in)
	case "bare":
		p.(*step.SqlStep_3).Read(in)
	default:
		panic("c08: readOn")
	}
}

// readAll reads the stream at hand item by item; recv(i, kind) = the running number of the object the reader is to be
// called on, or 0 for the factory / a new object.
func (s *session) readAll(recv func(i int, it *item) int) bool {
	in := gio.NewDataInputX(s.data)
	for i, it := range s.cur {
		j := 0
		if recv != nil {
			j = recv(i, it)
		}
		var got interface{}
		msg := core.Guard(func() {
			if j > 0 {
				got = s.objs[j-1]
				readOn(it.def.fam, in, got)
			} else {
				got = readItem(it.def.fam, in)
			}
		})
		if msg != "" {
			s.panicEv("read", msg, core.Ev{"index": i + 1, "kind": it.def.name, "into": j})
			return false
		}
		e := core.Ev{"ev": "R", "kind": typeName(got), "r": projAny(got), "cur": len(s.data) - int(in.Available())}
		if j > 0 {
			e["into"] = j
			if k := s.items[got]; k != nil {
				k.setRealAll() // from now on the object holds what the reader gave it
			}
		} else if typeName(got) != "nil" {
			s.register(got, readerItem(got))
		} else {
			s.register(got, nil)
		}
		s.h.t.Emit(e)
	}
	s.h.t.Emit(core.Ev{"ev": "End", "n": len(s.cur), "len": len(s.data)})
	return true
}

func (s *session) another() {
	s.h.t.Emit(core.Ev{"ev": "Another"})
	s.cur, s.pres, s.data, s.out = nil, nil, nil, gio.NewDataOutputX()
}

// again: the objects of the history looked at once more
func (s *session) again(max int) bool {
	idx := s.r.Perm(len(s.objs))
	if len(idx) > max {
		idx = idx[:max]
	}
	sort.Ints(idx)
	for _, j := range idx {
		var rr obj
		if msg := core.Guard(func() { rr = projAny(s.objs[j]) }); msg != "" {
			s.panicEv("again", msg, core.Ev{"index": j + 1})
			return false
		}
		s.h.t.Emit(core.Ev{"ev": "Again", "j": j + 1, "kind": typeName(s.objs[j]), "r": rr})
	}
	return true
}

// readerItem: what the driver knows about an object the reader handed back
func readerItem(p interface{}) *item {
	it := &item{def: kindByName(typeName(p)), p: p}
	it.setRealAll()
	return it
}

// held: the running numbers of the objects of Go type kind
func (s *session) held(kind string) []int {
	var out []int
	for j, p := range s.objs {
		if typeName(p) == kind {
			out = append(out, j+1)
		}
	}
	return out
}

// ------------------------------------------------------------ optional sections

// sections makes every optional section of the object present / absent, or (mode 2) each one by a coin
func sections(r *rand.Rand, it *item, mode int) {
	on := func() bool {
		switch mode {
		case 0:
			return true
		case 1:
			return false
		}
		return r.Intn(2) == 0
	}
	switch x := it.p.(type) {
	case *step.HttpcStepX:
		if on() {
			x.Version = 2
		} else {
			x.Version = []byte{0, 1, 3, 255}[r.Intn(4)]
		}
	case *step.SqlStep_3:
		x.Opt &^= 7
		for _, b := range []byte{1, 2, 4} {
			if on() {
				x.Opt |= b
			}
		}
	case *step.MessageStepX:
		f, _ := fieldByName(it, "Attr")
		if on() {
			setMap(it, f, mapShape(r, 1+r.Intn(3), 1))
		} else {
			setMap(it, f, nil)
		}
	case *service.TxRecord:
		if on() {
			if x.Mtid == 0 {
				x.Mtid = -77
			}
		} else {
			x.Mtid = 0
		}
		if on() {
			if x.McallerPcode == 0 {
				x.McallerPcode = 1 << 40
			}
		} else {
			x.McallerPcode = 0
		}
		f, _ := fieldByName(it, "Fields")
		if on() {
			setMap(it, f, mapShape(r, 1+r.Intn(3), 1))
		} else if r.Intn(2) == 0 {
			setMap(it, f, nil)
		} else {
			setMap(it, f, valgen.Map())
		}
	}
}

// allPresent: every optional section of the item is present in what the writer will produce
func allPresent(it *item) bool {
	switch x := it.p.(type) {
	case *step.HttpcStepX:
		return x.Version == 2
	case *step.SqlStep_3:
		return x.Opt&7 == 7
	case *step.MessageStepX:
		return x.Attr != nil && x.Attr.Size() > 0
	case *service.TxRecord:
		return x.Mtid != 0 && x.McallerPcode != 0 && x.Fields != nil && x.Fields.Size() > 0
	}
	return true
}

// nonDefault gives every field of the sections a value that is not the field's default (so that a receiver holding
// them shows what a reader leaves behind)
func nonDefault(r *rand.Rand, it *item) {
	for _, f := range fieldsOf(it.p) {
		switch f.kind {
		case "i":
			if f.v.Int() == 0 {
				f.v.SetInt(1 + int64(r.Intn(100)))
			}
		case "u":
			if f.v.Uint() == 0 && f.name != "Version" && f.name != "Opt" {
				f.v.SetUint(1 + uint64(r.Intn(200)))
			}
		case "s":
			if f.v.Len() == 0 {
				f.v.SetString("x" + string(valgen.RandText(r, r.Intn(4))))
			}
		case "y":
			if f.v.Len() == 0 {
				f.v.SetBytes([]byte{byte(1 + r.Intn(255))})
			}
		case "a":
			if f.v.Len() == 0 {
				f.v.Set(reflect.ValueOf([]int32{int32(1 + r.Intn(9))}))
			}
		}
	}
}

// ------------------------------------------------------------ mutators

type mutator struct {
	how   string
	fs    []string
	apply func()
}

// setterField: the exported field a public setter of the step / record types stands for
var setterField = map[string]string{"SetStartTime": "StartTime", "SetParent": "Parent", "SetIndex": "Index", "SetDrop": "Drop",
	"SetTrue": "Opt", "SetCtr": "Ctr"}

// setters: every public method Set*(one integer / bool argument) of the object, found by reflection
func setters(r *rand.Rand, it *item) []mutator {
	var out []mutator
	v := reflect.ValueOf(it.p)
	// a setter promoted from an embedded struct sets that struct's field, which the outer type may shadow: every field of
	// that (unqualified) name counts as touched
	names := map[string][]string{}
	for _, f := range fieldsOf(it.p) {
		b := f.name[strings.LastIndex(f.name, ".")+1:]
		names[b] = append(names[b], f.name)
	}
	for i := 0; i < v.NumMethod(); i++ {
		m := v.Type().Method(i)
		if !strings.HasPrefix(m.Name, "Set") || m.Type.NumIn() != 2 || m.Type.NumOut() != 0 {
			continue
		}
		fn := setterField[m.Name]
		if fn == "" {
			fn = strings.TrimPrefix(m.Name, "Set")
		}
		if len(names[fn]) == 0 {
			continue
		}
		at := m.Type.In(1)
		var args []reflect.Value
		switch at.Kind() {
		case reflect.Bool:
			args = []reflect.Value{reflect.ValueOf(true), reflect.ValueOf(false)}
		case reflect.Int, reflect.Int32, reflect.Int64, reflect.Uint8:
			for _, x := range []int64{1, 2, 4, int64(r.Intn(128)), randInt(r, 31) & 0x7fffffff} {
				a := reflect.New(at).Elem()
				if at.Kind() == reflect.Uint8 {
					a.SetUint(uint64(x) & 0xff)
				} else {
					a.SetInt(trunc(x, at.Bits()))
				}
				args = append(args, a)
			}
		default:
			continue
		}
		meth := v.Method(i)
		for _, a := range args {
			a := a
			out = append(out, mutator{how: m.Name, fs: names[fn], apply: func() { meth.Call([]reflect.Value{a}) }})
		}
	}
	return out
}

// mapMutators: the public mutators of the map held in field f, called on the map in place
func mapMutators(r *rand.Rand, it *item, f fld) []mutator {
	var out []mutator
	mv := func() *value.MapValue { return f.v.Interface().(*value.MapValue) }
	in := func(how string, apply func(m *value.MapValue)) {
		out = append(out, mutator{how: how, fs: []string{f.name}, apply: func() {
			if f.v.IsNil() {
				setMap(it, f, valgen.Map())
			}
			it.setReal(f.name)
			apply(mv())
		}})
	}
	key := func(i int) string { return fmt.Sprintf("mut%d_%s", i, valgen.RandText(r, r.Intn(4))) }
	k1, k2, k3 := key(1), key(2), key(3)
	budget := 8
	o := &valgen.Opts{MaxWidth: 3, MaxBlob: 40, Budget: &budget}
	in("Put", func(m *value.MapValue) { m.Put(k1, valgen.Build(valgen.Rand(r, 1, o))) })
	in("PutString", func(m *value.MapValue) { m.PutString(k2, string(valgen.RandText(r, 1+r.Intn(8)))) })
	in("PutLong", func(m *value.MapValue) { m.PutLong(k3, randInt(r, 64)) })
	in("Put", func(m *value.MapValue) { m.Put(k1, valgen.Build(valgen.Text(valgen.RandText(r, 1+r.Intn(8))))) }) // a key it has
	in("PutString", func(m *value.MapValue) { m.PutString(k2, "") })
	in("Clear", func(m *value.MapValue) { m.Clear() })
	in("Put", func(m *value.MapValue) { m.Put(k3, valgen.Build(valgen.Decimal(randInt(r, 64)))) })
	return out
}

// ------------------------------------------------------------ generators

func famKinds(fam string) []kindDef {
	switch fam {
	case "step":
		return stepKinds
	case "service":
		return serviceKinds
	case "tx":
		return []kindDef{txKind}
	}
	return bareKinds
}

// rewrite: see the head of the file.  variant: own = every item through an entry point that hands back its own slice.
func (h *hist) rewrite(r *rand.Rand, k kindDef, own bool, big bool) {
	s := newSession(h, r, own, core.Ev{"kind": k.name, "own": own})
	main := newItem(r, k, false)
	enable(main, "")
	jm := s.newObj(main)
	// a companion of the same family stands between the writes of the main object now and then
	comp := newItem(r, famKinds(k.fam)[r.Intn(len(famKinds(k.fam)))], false)
	jc := s.newObj(comp)
	step1 := func(m mutator) bool { return s.mut(jm, m.how, m.fs, m.apply) && s.write(jm) }
	if !s.write(jm) || !s.write(jm) { // twice as it is
		return
	}
	fs := fieldsOf(main.p)
	// a change that certainly is one
	for _, f := range fs {
		if f.kind == "i" {
			f := f
			if !step1(mutator{how: "assign", fs: []string{f.name}, apply: func() { f.v.SetInt(trunc(f.v.Int()+1, f.v.Type().Bits())) }}) {
				return
			}
			break
		}
	}
	// every exported field, by assignment (twice: away from the first value and on to a third)
	order := append(r.Perm(len(fs)), r.Perm(len(fs))...)
	for n, i := range order {
		f := fs[i]
		m := mutator{how: "assign", fs: []string{f.name}, apply: func() { setRandom(r, main, f, big) }}
		if !step1(m) {
			return
		}
		if n == len(fs)-1 {
			// the second pass starts with every section present again
			var ctl []string
			for _, c := range []string{"Version", "Opt", "Mtid", "McallerPcode"} {
				if _, ok := fieldByName(main, c); ok {
					ctl = append(ctl, c)
				}
			}
			if len(ctl) > 0 && !step1(mutator{how: "assign", fs: ctl, apply: func() { enable(main, "") }}) {
				return
			}
		}
		if r.Intn(6) == 0 {
			cf := fieldsOf(comp.p)
			g := cf[r.Intn(len(cf))]
			if !s.mut(jc, "assign", []string{g.name}, func() { setRandom(r, comp, g, false) }) || !s.write(jc) {
				return
			}
		}
	}
	// every public setter
	for _, m := range setters(r, main) {
		if !step1(m) {
			return
		}
	}
	// the maps, changed in place
	for _, f := range fs {
		if f.kind != "m" {
			continue
		}
		for _, m := range mapMutators(r, main, f) {
			if !step1(m) {
				return
			}
		}
	}
	if !s.readAll(nil) {
		return
	}
	// a second stream: the two objects again as they are now, then changed once more; read INTO objects the first
	// decode handed back (and into the written objects themselves)
	s.another()
	if !s.write(jm) || !s.write(jc) {
		return
	}
	f := fs[r.Intn(len(fs))]
	if !step1(mutator{how: "assign", fs: []string{f.name}, apply: func() { setRandom(r, main, f, false) }}) {
		return
	}
	used := map[int]bool{}
	if !s.readAll(func(i int, it *item) int {
		c := s.held(it.def.name)
		if len(c) == 0 || s.steered(i, it) {
			return 0
		}
		j := c[r.Intn(len(c))]
		if used[j] {
			return 0
		}
		used[j] = true
		return j
	}) {
		return
	}
	// the objects that were read into are written once more: they are what the reader made of them
	s.another()
	n := 0
	for j := range used {
		if s.items[s.objs[j-1]] != nil && n < 3 {
			if !s.write(j) {
				return
			}
			n++
		}
	}
	if n == 0 && !s.write(jm) {
		return
	}
	if !s.readAll(nil) {
		return
	}
	s.again(8)
	h.c.Sample(obj{"gen": h.gen, "case": h.cas, "kind": k.name, "objects": len(s.objs)})
}

// steered: reading this item into a held receiver is the signature of an open known finding
func (s *session) steered(i int, it *item) bool {
	id := reuseFinding[it.def.name]
	if id != "" && s.steer[id] && !s.pres[i] {
		if s.nste != nil {
			*s.nste++
		}
		return true
	}
	return false
}

// reuse: see the head of the file
func (h *hist) reuse(r *rand.Rand, fam string, rounds int, viaToObject bool) {
	s := newSession(h, r, false, core.Ev{"fam": fam, "rounds": rounds})
	kinds := famKinds(fam)
	n := 1 + r.Intn(6)
	var defs []kindDef
	for i := 0; i < n; i++ {
		// the kinds with optional sections more often
		d := kinds[r.Intn(len(kinds))]
		if r.Intn(2) == 0 {
			for _, c := range kinds {
				if reuseFinding[c.name] != "" && r.Intn(2) == 0 {
					d = c
				}
			}
		}
		defs = append(defs, d)
	}
	for round := 0; round < rounds; round++ {
		if round > 0 {
			s.another()
		}
		var written []int
		for _, d := range defs {
			it := newItem(r, d, false)
			nonDefault(r, it)
			sections(r, it, []int{0, 1, 2, 0, 1, 2}[round%6])
			j := s.newObj(it)
			if !s.write(j) {
				return
			}
			written = append(written, j)
		}
		used := map[int]bool{}
		for _, j := range written {
			used[j] = true // never into an object that stands in the stream being read: its W is judged by content of then
		}
		recv := func(i int, it *item) int {
			if round == 0 && r.Intn(3) > 0 {
				return 0
			}
			if s.steered(i, it) {
				return 0
			}
			var c []int
			for _, j := range s.held(it.def.name) {
				if !used[j] {
					c = append(c, j)
				}
			}
			if len(c) == 0 || r.Intn(8) == 0 {
				return 0
			}
			j := c[r.Intn(len(c))]
			used[j] = true
			return j
		}
		if fam == "tx" && viaToObject {
			if !s.readToObject(recv) {
				return
			}
		} else if !s.readAll(recv) {
			return
		}
	}
	s.again(12)
	h.c.Sample(obj{"gen": h.gen, "case": h.cas, "fam": fam, "rounds": rounds, "objects": len(s.objs)})
}

// readToObject: TxRecord.ToObject(b) on exactly the record's own bytes (event RO: no cursor)
func (s *session) readToObject(recv func(i int, it *item) int) bool {
	in := gio.NewDataInputX(s.data)
	for i, it := range s.cur {
		// the record's own bytes: version byte + blob, cut out with the documented framing
		var own []byte
		core.Guard(func() {
			p0 := len(s.data) - int(in.Available())
			in.ReadByte()
			in.ReadBlob()
			own = append([]byte(nil), s.data[p0:len(s.data)-int(in.Available())]...)
		})
		j := recv(i, it)
		var got *service.TxRecord
		msg := core.Guard(func() {
			if j > 0 {
				got = s.objs[j-1].(*service.TxRecord).ToObject(own)
			} else {
				got = service.NewTxRecord().ToObject(own)
			}
		})
		if msg != "" {
			s.panicEv("ToObject", msg, core.Ev{"index": i + 1, "into": j})
			return false
		}
		e := core.Ev{"ev": "RO", "kind": typeName(got), "r": projAny(got)}
		if j > 0 {
			e["into"] = j
			if k := s.items[s.objs[j-1]]; k != nil {
				k.setRealAll()
			}
		} else {
			s.register(got, readerItem(got))
		}
		s.h.t.Emit(e)
	}
	s.h.t.Emit(core.Ev{"ev": "End", "n": len(s.cur), "len": len(s.data)})
	return true
}

// packreuse: ONE pack object of the carrier's type is given to Read again and again.
func (h *hist) packreuse(r *rand.Rand, which int, rounds int) {
	car := carriers[which]
	s := newSession(h, r, false, core.Ev{"pack": car.name, "rounds": rounds})
	var recvP *pack.ProfilePack
	var recvS *pack.ProfileStepSplitPack
	var recvE *pack.ErrorSnapPack1
	switch car.name {
	case "ProfilePack":
		recvP = pack.NewProfilePack()
		if r.Intn(2) == 0 { // a pack the caller has used itself before
			tx := newItem(r, txKind, false)
			sections(r, tx, 0)
			recvP.Transaction = tx.p.(*service.TxRecord)
			s.newObj(tx)
		}
	case "ProfileStepSplitPack":
		recvS = pack.NewProfileStepSplitPack()
	default:
		recvE = pack.NewErrorSnapPack1()
	}
	var src interface{}
	for round := 0; round < rounds; round++ {
		if round > 0 {
			s.another()
		}
		var steps []step.Step
		var stepItems []*item
		for i, n := 0, 1+r.Intn(6); i < n; i++ {
			it := newItem(r, stepKinds[r.Intn(len(stepKinds))], false)
			stepItems = append(stepItems, it)
			steps = append(steps, it.p.(step.Step))
		}
		var tx *item
		// the sending side: a new pack per round, or (every other history) ONE pack whose profile is set again
		if msg := core.Guard(func() {
			if src == nil || h.cas/len(carriers)%2 == 0 {
				src = car.hold(r, steps)
				return
			}
			switch p := src.(type) {
			case *pack.ProfilePack:
				p.SetProfile(steps)
			case *pack.ProfileStepSplitPack:
				p.SetProfile(steps)
			case *pack.ErrorSnapPack1:
				p.SetProfile(steps)
			}
		}); msg != "" {
			s.panicEv("SetProfile "+car.name, msg, nil)
			return
		}
		var wire []byte
		var got []byte
		msg := core.Guard(func() {
			switch car.name {
			case "ProfilePack":
				p := src.(*pack.ProfilePack)
				tx = &item{def: txKind, p: txKind.mk()}
				fill(r, tx, false)
				nonDefault(r, tx)
				sections(r, tx, []int{0, 1, 2, 0, 1, 2}[round%6])
				p.Transaction = tx.p.(*service.TxRecord)
				wire = pack.ToBytesPack(p)
			case "ProfileStepSplitPack":
				wire = pack.ToBytesPack(src.(*pack.ProfileStepSplitPack))
			default:
				wire = pack.ToBytesPack(src.(*pack.ErrorSnapPack1))
			}
		})
		if msg != "" {
			s.panicEv("write "+car.name, msg, nil)
			return
		}
		// the pack's reader, on the receiver of the history
		msg = core.Guard(func() {
			in := gio.NewDataInputX(wire)
			in.ReadShort()
			switch car.name {
			case "ProfilePack":
				recvP.Read(in)
				got = recvP.Steps
			case "ProfileStepSplitPack":
				recvS.Read(in)
				got = recvS.Steps
			default:
				recvE.Read(in)
				got = recvE.Profile
			}
		})
		if msg != "" {
			s.panicEv("read "+car.name, msg, nil)
			return
		}
		if tx != nil {
			// the transaction record the pack carried: written by the real writer (W), handed back by the pack's reader (RO)
			j := s.newObj(tx)
			if !s.write(j) {
				return
			}
			t := recvP.Transaction
			e := core.Ev{"ev": "RO", "kind": typeName(t), "r": projAny(t), "via": "ProfilePack.Read"}
			if t != nil {
				if k, ok := s.num[t]; ok {
					e["into"] = k // the pack's reader filled an object the caller knows already
					if it := s.items[t]; it != nil {
						it.setRealAll()
					}
					*h.aliased++
				} else {
					s.register(t, readerItem(t))
				}
			} else {
				s.register(nil, nil)
			}
			s.h.t.Emit(e)
			s.h.t.Emit(core.Ev{"ev": "End", "n": 1, "len": len(s.data)})
			s.another()
		}
		// the step stream the pack carried
		for _, it := range stepItems {
			if !s.write(s.newObj(it)) {
				return
			}
		}
		s.h.t.Emit(core.Ev{"ev": "Carry", "pack": car.name, "out": core.Cp(got), "info": "the receiver of the history"})
		s.data = append([]byte(nil), got...)
		if !s.readAll(nil) {
			return
		}
	}
	s.again(10)
	h.c.Sample(obj{"gen": h.gen, "case": h.cas, "pack": car.name, "rounds": rounds})
}

// kfReuse: the witness of the findings in reuseFinding: an item WITH its optional sections is read into a new object,
// then an item of the same type WITHOUT them is read into that object.
func (h *hist) kfReuse(r *rand.Rand, k kindDef) {
	s := newSession(h, r, false, core.Ev{"kind": k.name})
	a := newItem(r, k, false)
	nonDefault(r, a)
	sections(r, a, 0)
	if !s.write(s.newObj(a)) || !s.readAll(nil) {
		return
	}
	first := len(s.objs)
	s.another()
	b := newItem(r, k, false)
	nonDefault(r, b)
	sections(r, b, 1)
	if !s.write(s.newObj(b)) {
		return
	}
	s.readAll(func(int, *item) int { return first })
}
