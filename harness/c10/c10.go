package c10

import (
	"os"
	"path/filepath"

	"verifharness/core"
)

func init() { core.Register("c10", Run) }

func repoDir() string {
	if r := os.Getenv("VERIF_REPO"); r != "" {
		return r
	}
	return "/repo"
}

func Run(c *core.Ctx) error {
	tab, err := Extract(repoDir())
	if err != nil {
		return err
	}
	if err := WriteTable(tab, filepath.Join(c.OutDir, "locktable.json")); err != nil {
		return err
	}
	return nil
}
