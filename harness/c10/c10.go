// Package c10 is the driver of property C10: the shared collections of golib
// (util/hmap, util/list LinkedList, util/queue) are linearizable, race-free
// between point operations and never self-deadlock.
//
//	(always)   the lock table is extracted from the working tree (extract.go)
//	           and written to locktable.json: the JSON constant of
//	           spec/LockDiscipline.tla
//	footprint  which public methods park on the instance lock (static.go)
//	watchdog   every public method, in every state its helper paths depend on,
//	           returns and leaves the lock free (static.go)
//	lin        concurrent invocation/response histories of point operations
//	           (conc.go: shapes mix / duel / grow / block), judged by
//	           Trace_Linearize; args types=A+B,ops=m1+m2,cases=n direct the
//	           generator at the point operations TLC found to be made of
//	           several critical sections
//	race       [race-detector build, mode=race] the same programs unstamped;
//	           race reports become Race events (race.go)
//	racepair   [race-detector build] two goroutines hammering one pair of
//	           public methods each (args pairs=Type:a:b+...) through hot keys,
//	           fresh keys (growth) and a bound in force (eviction): the runner
//	           asks for the pairs TLC predicted to race on the extracted table,
//	           and (Type:a:b:dead) for the pairs it predicted to wait for each
//	           other on one instance (a hang is a Pair event with out=timeout)
//
// The harness only records; TLC judges.
package c10

import (
	"fmt"
	"os"
	"path/filepath"
	"sort"
	"strconv"
	"strings"
	"sync"
	"sync/atomic"
	"syscall"
	"time"

	"verifharness/core"
)

func init() { core.Register("c10", Run) }

func repoDir() string {
	if r := os.Getenv("VERIF_REPO"); r != "" {
		return r
	}
	return "/repo"
}

func Run(c *core.Ctx) error {
	var must []string
	for tn := range ctors {
		must = append(must, tn)
	}
	tab, err := Extract(repoDir(), must...)
	if err != nil {
		return err
	}
	if err := WriteTable(tab, filepath.Join(c.OutDir, "locktable.json")); err != nil {
		return err
	}
	nm, ns, unl := 0, 0, map[string][]string{}
	for tn, ti := range tab.Types {
		for mn, m := range ti.Methods {
			nm++
			ns += len(m.Steps)
			if m.Pub && !takes(tab, tn, mn, 8) {
				unl[tn] = append(unl[tn], mn)
			}
		}
		sort.Strings(unl[tn])
	}
	c.SetExtra("lock_table", map[string]interface{}{"types": len(tab.Types), "methods": nm, "steps": ns,
		"public_methods_that_never_take_the_instance_lock": unl,
		"lock_carrying_helper_types_that_are_not_collections_of_the_property": tab.Skipped})
	c.Rule = "a footprint / watchdog case counts per (type, public method, variant); a concurrent history counts when at least two goroutines ran and at least one call mutated the collection"
	for tn := range tab.Types {
		if ctors[tn] == nil {
			return fmt.Errorf("the table has a lock-carrying type %s the driver cannot construct", tn)
		}
	}
	for tn := range ctors { // a type that lost its (recognisable) lock field would silently leave the model
		if tab.Types[tn] == nil {
			return fmt.Errorf("collection type %s is not in the extracted table: no field of type sync.Mutex / *sync.Cond found in it", tn)
		}
	}
	curTab = tab
	directedOps = nil
	for _, n := range strings.Split(c.Args["ops"], "+") {
		if n != "" {
			directedOps = append(directedOps, n)
		}
	}
	switch c.Args["mode"] {
	case "table":
		c.Rule = ""
		return nil
	case "race":
		c.Rule = ""
		raceMode = true
		if !RaceBuild {
			return fmt.Errorf("mode=race needs the race-detector build of the harness")
		}
		if newRaceLog() == nil { // the race runtime reads GORACE at start-up: set it and start again
			exe, err := os.Executable()
			if err != nil {
				return err
			}
			os.Setenv("GORACE", "log_path="+filepath.Join(c.OutDir, "racelog")+" halt_on_error=0 atexit_sleep_ms=0 exitcode=0")
			return syscall.Exec(exe, os.Args, os.Environ())
		}
		if err := runRaceHistories(c, tab); err != nil {
			return err
		}
		return runRacePairs(c, tab)
	}
	if err := runFootprint(c, tab); err != nil {
		return err
	}
	if err := runWatchdog(c, tab); err != nil {
		return err
	}
	if err := runLin(c); err != nil {
		return err
	}
	return runGate(c)
}

// takes: does method m of type tn (transitively, through same-receiver calls) take the instance lock
func takes(tab *Table, tn, m string, d int) bool {
	ti := tab.Types[tn]
	mi := ti.Methods[m]
	if mi == nil || d == 0 {
		return false
	}
	for _, s := range mi.Steps {
		if s.O == "" && (s.K == "acq" || (s.K == "call" && s.A == "" && takes(tab, tn, s.B, d-1))) {
			return true
		}
	}
	return false
}

// ---------------------------------------------------------------- histories

const caseStride = 100000

// histories per collection source: stamped (TLC validates ~30 000 events/s) / under the race detector
func cases(c *core.Ctx, gen string) int {
	if n, err := strconv.Atoi(c.Args["cases"]); err == nil && n > 0 { // directed effort (args types=A+B,cases=n)
		return n
	}
	if gen == "race" {
		return c.Pick(40, 800)
	}
	return c.Pick(120, 2500)
}

// history (source si, number n) -> case id; the pool is shared by 8 consecutive cases
func forEachCase(c *core.Ctx, gen string, f func(cas int, src source, fresh func() *cobj, prog *program)) {
	srcs := sources()
	only := map[string]bool{}
	for _, tn := range strings.Split(c.Args["types"], "+") {
		if tn != "" {
			only[tn] = true
		}
	}
	// directed effort may be given a wall-clock budget per type (args budget_ms=n): slow calls
	// (a dequeue that waits a millisecond on an empty queue) then simply get fewer histories
	budget, _ := strconv.Atoi(c.Args["budget_ms"])
	for si, src := range srcs {
		if len(only) > 0 && !only[src.Type] {
			continue
		}
		began := time.Now()
		ncases := cases(c, gen)
		if gen == "lin" && c.Args["cases"] == "" && src.New(c.Rng("pool", si*caseStride), 0)().Herd {
			ncases *= herdMult
		}
		for n := 0; n < ncases; n++ {
			if budget > 0 && c.OnlyCase < 0 && time.Since(began) > time.Duration(budget)*time.Millisecond {
				break
			}
			cas := si*caseStride + n
			if !c.Want(gen, cas) {
				continue
			}
			variant := n / 8
			fresh := src.New(c.Rng("pool", si*caseStride+variant), variant)
			prog := genProgram(c.Rng("prog", cas), fresh())
			f(cas, src, fresh, prog)
		}
	}
}

func nontrivial(p *program) bool {
	if len(p.Threads) < 2 {
		return false
	}
	for _, t := range p.Threads {
		for _, op := range t {
			if mutators[op.Name] {
				return true
			}
		}
	}
	return false
}

func progKey(co *cobj, p *program) string {
	return fmt.Sprintf("%s|%s|%d|%d|%v|%v|%v", co.Type, co.Ctor, p.Max, p.Procs, p.Step, p.Prefix, p.Threads)
}

func resetHdr(co *cobj, p *program) core.Ev {
	h := core.Ev{"t": co.Type, "ctor": co.Ctor, "nondet": true, "max": p.Max, "shape": p.Shape, "procs": p.Procs, "step": p.Step}
	for k, v := range co.Hdr {
		h[k] = v
	}
	if co.Pool != nil {
		h["pool"] = co.Pool
	}
	return h
}

// one fixed history (binding self-test): every answer in it is pinned
func runSelf(c *core.Ctx, t *core.Trace) {
	const gen = "self"
	if !c.Want(gen, 0) {
		return
	}
	var src source
	for _, s := range sources() {
		if s.Type == "IntKeyLinkedMap" {
			src = s
		}
	}
	co := src.New(c.Rng("pool", 0), 0)()
	prog := &program{Prefix: []pop{{Name: "Put", K: 1, V: 1}, {Name: "Put", K: 1, V: 2}, {Name: "Size", K: 1, V: 0}, {Name: "Get", K: 1, V: 0}, {Name: "Put", K: 2, V: 3}},
		Threads: [][]pop{{{Name: "Size", K: 1, V: 0}, {Name: "Get", K: 2, V: 0}}, {{Name: "ContainsKey", K: 1, V: 0}, {Name: "IsEmpty", K: 1, V: 0}}}}
	t.Reset(gen, 0, resetHdr(co, prog))
	log, _, finished := runProgram(co, prog, true, c.Rng("yield", 0))
	for _, e := range log {
		t.Emit(e)
	}
	var fin core.Ev
	if msg, back := bounded(func() { fin = co.Final() }); !finished || !back || msg != "" {
		t.Emit(core.Ev{"ev": "Timeout", "after": watchdog.String(), "o": "Final", "msg": msg})
		return
	}
	fin["ev"] = "Final"
	t.Emit(fin)
	c.Count("self", true)
}

func runLin(c *core.Ctx) error {
	const gen = "lin"
	t0 := c.Trace("lin0", "Trace_Linearize")
	runSelf(c, t0)
	runForced(c, t0)
	if !c.WantGen(gen) {
		return nil
	}
	traces := map[int]*core.Trace{0: t0}
	overlap := 0
	shapes := map[string]int{}
	hung := map[int]int{} // histories that never came back, per collection type
	forEachCase(c, gen, func(cas int, src source, fresh func() *cobj, prog *program) {
		co := fresh()
		if !co.Lin {
			return
		}
		if hung[cas/caseStride] >= 2 { // the hang is on record; each further one would only add a watchdog period
			return
		}
		shapes[prog.Shape]++
		grp := cas / caseStride / 5 // five collection types per trace file
		t := traces[grp]
		if t == nil {
			t = c.Trace(fmt.Sprintf("lin%d", grp), "Trace_Linearize")
			traces[grp] = t
		}
		// one execution per history; when a single history is re-run (triage, replay) the same
		// program is executed many times on fresh instances, every execution a history of its
		// own: which interleaving an execution meets is not in the harness's hands, and TLC
		// judges them all
		rounds := 1
		if c.OnlyGen == gen && c.OnlyCase >= 0 {
			rounds = 24000 / (prog.calls() + 10) // 400 executions of a short program, 100 of a long one
			if rounds > 400 {
				rounds = 400
			}
		}
		var log []core.Ev
		for round := 0; round < rounds; round++ {
			if round > 0 {
				co = fresh()
			}
			hdr := resetHdr(co, prog)
			hdr["round"] = round
			t.Reset(gen, cas, hdr)
			var finished bool
			log, _, finished = runProgram(co, prog, true, c.Rng("yield", cas+round*7919*caseStride))
			open, ov := map[int]bool{}, false
			for _, e := range log {
				switch e["ev"] {
				case "Inv":
					if len(open) > 0 {
						ov = true
					}
					open[e["p"].(int)] = true
				case "Ret":
					delete(open, e["p"].(int))
				}
				t.Emit(e)
			}
			if ov {
				overlap++
			}
			if !finished {
				hung[cas/caseStride]++
				t.Emit(core.Ev{"ev": "Timeout", "after": historyWatchdog.String()})
				break
			} else if len(open) == 0 {
				var fin core.Ev
				if msg, back := bounded(func() { fin = co.Final() }); !back { // the lock stayed taken after the last call
					hung[cas/caseStride]++
					t.Emit(core.Ev{"ev": "Timeout", "after": watchdog.String(), "o": "Final"})
					break
				} else if msg != "" {
					t.Emit(core.Ev{"ev": "Panic", "p": 0, "o": "Final", "msg": msg})
				} else {
					fin["ev"] = "Final"
					t.Emit(fin)
				}
			}
		}
		c.Count(progKey(co, prog), nontrivial(prog))
		if cas%caseStride == 0 {
			c.Sample(map[string]interface{}{"gen": gen, "case": cas, "type": co.Type, "threads": len(prog.Threads), "calls": prog.calls(), "log_head": head(log, 6)})
		}
	})
	c.SetExtra("lin_histories_with_overlapping_calls", overlap)
	c.SetExtra("lin_histories_by_shape", shapes)
	return nil
}

// forced: a bounded queue kept full while one goroutine forces elements in and
// another reads the size: a forced put evicts and appends; a size read between
// the two is an answer no sequential execution gives.
func runForced(c *core.Ctx, t *core.Trace) {
	const gen = "forced"
	if !c.WantGen(gen) {
		return
	}
	for cas := 0; cas < c.Pick(600, 3000); cas++ {
		if !c.Want(gen, cas) {
			continue
		}
		capacity := 1 + cas%3
		co := newQueueObj(capacity)
		prog := &program{}
		id := 0
		for i := 0; i < capacity; i++ {
			id++
			prog.Prefix = append(prog.Prefix, pop{Name: "QPut", K: id, V: 0})
		}
		var a, b []pop
		for i := 0; i < 6; i++ {
			id++
			a = append(a, pop{Name: "QPutForce", K: id, V: 0})
			b = append(b, pop{Name: "Size", K: 0, V: 0})
		}
		prog.Threads = [][]pop{a, b}
		if cas%2 == 1 {
			var d []pop
			for i := 0; i < 4; i++ {
				id++
				d = append(d, pop{Name: "QPutForce", K: id, V: 0})
			}
			prog.Threads = append(prog.Threads, d)
		}
		t.Reset(gen, cas, resetHdr(co, prog))
		log, _, finished := runProgram(co, prog, true, c.Rng("yield", cas))
		for _, e := range log {
			t.Emit(e)
		}
		if !finished {
			t.Emit(core.Ev{"ev": "Timeout", "after": historyWatchdog.String()})
			break
		} else {
			var fin core.Ev
			if msg, back := bounded(func() { fin = co.Final() }); !back || msg != "" {
				t.Emit(core.Ev{"ev": "Timeout", "after": watchdog.String(), "o": "Final", "msg": msg})
				break
			}
			fin["ev"] = "Final"
			t.Emit(fin)
		}
		c.Count(progKey(co, prog), true)
	}
}

func head(es []core.Ev, n int) []core.Ev {
	if len(es) > n {
		return es[:n]
	}
	return es
}

// emitRaces turns the new race reports into events of the current history.
func emitRaces(t *core.Trace, rl *raceLog, typ string) (int, error) {
	if rl == nil {
		return 0, nil
	}
	reps, err := rl.next()
	if err != nil {
		return 0, err
	}
	for _, r := range reps {
		if r.OuterT[0] == "" || r.OuterT[1] == "" {
			return 0, fmt.Errorf("the race detector reported a race that does not lie between two golib collection calls (harness defect?):\n%s", r.Text)
		}
		t.Emit(core.Ev{"ev": "Race", "t": typ, "a": r.OuterM[0], "b": r.OuterM[1], "ta": r.OuterT[0], "tb": r.OuterT[1],
			"ia": r.Inner[0], "ib": r.Inner[1], "ka": r.Kind[0], "kb": r.Kind[1]})
	}
	return len(reps), nil
}

func runRaceHistories(c *core.Ctx, tab *Table) error {
	const gen = "race"
	if !c.WantGen(gen) {
		return nil
	}
	t := c.Trace("race", "Trace_LockDiscipline")
	rl := newRaceLog()
	if rl == nil {
		return fmt.Errorf("mode=race needs GORACE=log_path=...")
	}
	var ferr error
	races := 0
	hung := map[int]int{}
	forEachCase(c, gen, func(cas int, src source, fresh func() *cobj, prog *program) {
		if ferr != nil || hung[cas/caseStride] >= 2 {
			return
		}
		co := fresh()
		t.Reset(gen, cas, core.Ev{"t": co.Type, "ctor": co.Ctor, "nondet": true})
		// one execution per history; when a single history is re-run (triage, replay) the same
		// program is executed on fresh instances until the detector speaks or 30 executions passed
		rounds := 1
		if c.OnlyGen == gen && c.OnlyCase >= 0 {
			rounds = 30
		}
		for round := 0; round < rounds && ferr == nil; round++ {
			if round > 0 {
				co = fresh()
			}
			log, panics, finished := runProgram(co, prog, false, c.Rng("yield", cas*64+round))
			for _, e := range log { // only Panic records in this mode
				t.Emit(e)
			}
			if !finished {
				hung[cas/caseStride]++
				t.Emit(core.Ev{"ev": "Timeout", "after": historyWatchdog.String()})
			}
			t.Emit(core.Ev{"ev": "Ran", "t": co.Type, "threads": len(prog.Threads), "calls": prog.calls(), "panics": panics, "round": round})
			n, err := emitRaces(t, rl, co.Type)
			if err != nil {
				ferr = err
			}
			races += n
			if n > 0 || panics > 0 || !finished {
				break
			}
		}
		t.Emit(core.Ev{"ev": "Done"})
		c.Count(progKey(co, prog), nontrivial(prog))
	})
	c.SetExtra("race_reports_in_random_histories", races)
	return ferr
}

// the directed pairs: args pairs=Type:a:b+Type:a:b
func runRacePairs(c *core.Ctx, tab *Table) error {
	const gen = "racepair"
	spec := c.Args["pairs"]
	if spec == "" || !c.WantGen(gen) {
		return nil
	}
	t := c.Trace("racepair", "Trace_LockDiscipline")
	rl := newRaceLog()
	if rl == nil {
		return fmt.Errorf("mode=race needs GORACE=log_path=...")
	}
	rl.next() // whatever the random histories left unread belongs to them
	timeouts := 0
	for cas, ps := range strings.Split(spec, "+") {
		if !c.Want(gen, cas) {
			continue
		}
		f := strings.Split(ps, ":")
		if (len(f) != 3 && !(len(f) == 4 && f[3] == "dead")) || tab.Types[f[0]] == nil {
			return fmt.Errorf("bad pair %q", ps)
		}
		tn, a, b := f[0], f[1], f[2]
		dead := len(f) == 4 // a pair TLC predicts to wait for each other: what is looked for is the hang, not a race report
		t.Reset(gen, cas, core.Ev{"t": tn, "nondet": true})
		out, found := "returned", 0
		for round := 0; round < 6 && (found == 0 || dead) && out == "returned"; round++ {
			var err error
			if out, err = hammer(tn, a, b, round); err != nil {
				return err
			}
			if out == "timeout" {
				timeouts++
			}
			t.Emit(core.Ev{"ev": "Pair", "t": tn, "a": a, "b": b, "out": out, "round": round, "regime": round % 3})
			if found, err = emitRaces(t, rl, tn); err != nil {
				return err
			}
		}
		t.Emit(core.Ev{"ev": "Done"})
		c.Count("pair|"+ps, true)
		if timeouts >= 4 { // hangs have been recorded; the remaining pairs would only add waiting
			break
		}
	}
	return nil
}

// hammer: two goroutines on one fresh instance, one calling a, the other b,
// with nothing between them but the instance's own synchronisation.  A method
// reaches its helper paths only in the right state and with the right keys, so
// the rounds go through three regimes:
//
//	0  populated, hot keys 1..7 (hits, misses, updates)
//	1  populated, 400 fresh keys in the same order on both sides: the table
//	   grows through several thresholds (re-hash), the other side looks up /
//	   removes what was just inserted
//	2  bound in force and reached (SetMax / capacity 3), fresh and hot keys
//	   alternating: eviction, refusal
func hammer(tn, a, b string, regime int) (string, error) {
	var obj interface{}
	var err error
	n, key := 60, func(i int) int { return 1 + i%(populated+2) }
	switch regime % 3 {
	case 1:
		n, key = 400, func(i int) int { return populated + 1 + i }
	case 2:
		var ok bool
		if obj, ok, err = newFull(tn); err != nil {
			return "", err
		} else if ok {
			key = func(i int) int {
				if i%2 == 0 {
					return 100 + i
				}
				return 1 + i%(populated+2)
			}
		}
	}
	if obj == nil {
		if obj, err = newPopulated(tn); err != nil {
			return "", err
		}
	}
	var wg sync.WaitGroup
	start := make(chan struct{})
	var pmu sync.Mutex
	panicked := false
	// A side that is through with its list goes through it again until the other side is through
	// with its first pass too (at most 40 times): a reader must still be reading when the writer
	// reaches the call that re-hashes or evicts, however late the scheduler starts the writer.
	// The flags are written once, at the end of a first pass, and synchronise nothing before that.
	var through [2]int32
	for side, m := range []string{a, b} {
		reps, k, passes := n, key, 40
		if waitsWhenEmpty(tn, m) {
			reps, k = 2, func(i int) int { return 1 + i }
		}
		if blocksWhenEmpty(tn, m) {
			passes = 1
		}
		calls := make([]func(), reps)
		for i := range calls {
			if calls[i], err = caller(obj, tn, m, k(i)); err != nil {
				return "", err
			}
		}
		wg.Add(1)
		go func(side int) {
			defer wg.Done()
			<-start
			for pass := 0; pass < passes; pass++ {
				for _, call := range calls {
					if msg := core.Guard(call); msg != "" {
						pmu.Lock()
						panicked = true
						pmu.Unlock()
						atomic.StoreInt32(&through[side], 1)
						return
					}
				}
				atomic.StoreInt32(&through[side], 1)
				if atomic.LoadInt32(&through[1-side]) == 1 {
					return
				}
			}
		}(side)
	}
	close(start)
	done := make(chan struct{})
	go func() { wg.Wait(); close(done) }()
	select {
	case <-done:
	case <-time.After(historyWatchdog):
		return "timeout", nil
	}
	pmu.Lock()
	defer pmu.Unlock()
	if panicked {
		return "panicked", nil
	}
	return "returned", nil
}
