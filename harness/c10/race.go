package c10

// The race detector as an observation channel.  The race-detector build of the
// harness runs with GORACE=log_path=<prefix> halt_on_error=0; the runtime
// appends each report to <prefix>.<pid> from the goroutine that trips it, so
// after a history's goroutines are joined the new tail of that file holds the
// reports of that history.  Each report is reduced to the two golib call
// chains involved: the outermost golib collection method of each stack (the
// public operation the harness called) and the innermost one (where the access
// is).  Whether a pair is a defect is the specification's decision.

import (
	"fmt"
	"os"
	"regexp"
	"strings"
)

type raceReport struct {
	OuterT, OuterM [2]string // outermost golib collection frame: type, method
	Inner          [2]string // innermost golib collection frame "Type.method"
	Kind           [2]string // read | write
	Text           string
}

var golibFrame = regexp.MustCompile(`github\.com/whatap/golib/util/(?:hmap|list|queue)\.\(\*(\w+)\)\.(\w+)`)
var accessHdr = regexp.MustCompile(`^(?:Previous )?(?i:(atomic )?(read|write)) at 0x[0-9a-f]+ by `)

// raceLog reads the reports appended since the last call.
type raceLog struct {
	path string
	off  int64
}

func newRaceLog() *raceLog {
	// GORACE="log_path=/x/race halt_on_error=0": the runtime writes /x/race.<pid>
	for _, f := range strings.Fields(os.Getenv("GORACE")) {
		if strings.HasPrefix(f, "log_path=") {
			return &raceLog{path: fmt.Sprintf("%s.%d", strings.TrimPrefix(f, "log_path="), os.Getpid())}
		}
	}
	return nil
}

func (l *raceLog) next() ([]raceReport, error) {
	b, err := os.ReadFile(l.path)
	if err != nil {
		if os.IsNotExist(err) {
			return nil, nil
		}
		return nil, err
	}
	if int64(len(b)) <= l.off {
		return nil, nil
	}
	txt := string(b[l.off:])
	// only complete reports (terminated by the closing rule) are consumed
	const rule = "=================="
	var out []raceReport
	consumed := 0
	for {
		i := strings.Index(txt[consumed:], rule)
		if i < 0 {
			break
		}
		j := strings.Index(txt[consumed+i+len(rule):], rule)
		if j < 0 {
			break
		}
		body := txt[consumed+i+len(rule) : consumed+i+len(rule)+j]
		consumed += i + len(rule) + j + len(rule)
		if strings.Contains(body, "DATA RACE") {
			out = append(out, parseRace(body))
		}
	}
	l.off += int64(consumed)
	return out, nil
}

func parseRace(body string) raceReport {
	r := raceReport{Text: body}
	sec := -1
	for _, ln := range strings.Split(body, "\n") {
		if m := accessHdr.FindStringSubmatch(ln); m != nil {
			sec++
			if sec < 2 {
				r.Kind[sec] = strings.ToLower(m[2])
			}
			continue
		}
		if strings.TrimSpace(ln) == "" {
			continue
		}
		if !strings.HasPrefix(ln, "  ") { // "Goroutine N created at:" and the like end the access sections
			if sec >= 1 {
				sec = 2
			}
			continue
		}
		if sec < 0 || sec > 1 || strings.HasPrefix(ln, "      ") {
			continue
		}
		if m := golibFrame.FindStringSubmatch(ln); m != nil {
			if r.Inner[sec] == "" {
				r.Inner[sec] = m[1] + "." + m[2]
			}
			r.OuterT[sec], r.OuterM[sec] = m[1], m[2] // frames are listed innermost first: the last one wins
		}
	}
	return r
}
