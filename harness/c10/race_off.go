//go:build !race

package c10

// RaceBuild reports whether this binary was built with the race detector.
const RaceBuild = false
