package c10

// Every lock-carrying collection type of the table as a real object, and a way
// to call ANY of its public methods by name with synthesised arguments
// (reflection): the footprint, watchdog and directed-pair generators go through
// every public method the compiled type has, not through a hand-written list.

import (
	"fmt"
	"reflect"
	"sort"
	"sync"
	"sync/atomic"
	"time"
	"unsafe"

	gio "github.com/whatap/golib/io"
	"github.com/whatap/golib/util/hmap"
	"github.com/whatap/golib/util/list"
	"github.com/whatap/golib/util/queue"
)

// lkey is the LinkedKey used for LinkedMap / LinkedSet.
type lkey struct{ id int }

func (a lkey) Hash() uint { return uint(a.id % 2) } // two chains
func (a lkey) Equals(o hmap.LinkedKey) bool {
	b, ok := o.(lkey)
	return ok && b.id == a.id
}

// constructors of the real types, by the type name of the table
var ctors = map[string]func() interface{}{
	"IntFloatLinkedMap":   func() interface{} { return hmap.NewIntFloatLinkedMap() },
	"IntIntLinkedMap":     func() interface{} { return hmap.NewIntIntLinkedMap() },
	"IntIntMap":           func() interface{} { return hmap.NewIntIntMapDefault() },
	"IntKeyLinkedMap":     func() interface{} { return hmap.NewIntKeyLinkedMapDefault() },
	"IntKeyMap":           func() interface{} { return hmap.NewIntKeyMapDefault() },
	"IntLinkedSet":        func() interface{} { return hmap.NewIntLinkedSet() },
	"IntSet":              func() interface{} { return hmap.NewIntSet() },
	"LinkedMap":           func() interface{} { return hmap.NewLinkedMapDefault() },
	"LinkedSet":           func() interface{} { return hmap.NewLinkedSet() },
	"LongFloatLinkedMap":  func() interface{} { return hmap.NewLongFloatLinkedMap() },
	"LongKeyLinkedMap":    func() interface{} { return hmap.NewLongKeyLinkedMapDefault() },
	"LongLongLinkedMap":   func() interface{} { return hmap.NewLongLongLinkedMapDefault() },
	"StringIntLinkedMap":  func() interface{} { return hmap.NewStringIntLinkedMap() },
	"StringKeyLinkedMap":  func() interface{} { return hmap.NewStringKeyLinkedMap() },
	"StringLinkedSet":     func() interface{} { return hmap.NewStringLinkedSet() },
	"StringLongLinkedMap": func() interface{} { return hmap.NewStringLongLinkedMap() },
	"StringSet":           func() interface{} { return hmap.NewStringSet() },
	"LinkedList":          func() interface{} { return list.NewLinkedList() },
	"RequestQueue":        func() interface{} { return queue.NewRequestQueue(0) },
	"RequestDoubleQueue":  func() interface{} { return queue.NewRequestDoubleQueue(0, 0) },
}

// the queues take their bound at construction
var boundedCtors = map[string]func(n int) interface{}{
	"RequestQueue":       func(n int) interface{} { return queue.NewRequestQueue(n) },
	"RequestDoubleQueue": func(n int) interface{} { return queue.NewRequestDoubleQueue(n, n) },
}

// the bound of a "full" instance
const bound = 3

// newFull builds an instance whose bound (SetMax / capacity) is in force and
// reached: the next insertion of a new element takes the eviction / refusal
// path.  ok = false: the type has no bound.
func newFull(name string) (obj interface{}, ok bool, err error) {
	if mk := boundedCtors[name]; mk != nil {
		obj = mk(bound)
	} else {
		mk := ctors[name]
		if mk == nil {
			return nil, false, fmt.Errorf("no constructor registered for table type %s", name)
		}
		obj = mk()
		sm := reflect.ValueOf(obj).MethodByName("SetMax")
		if !sm.IsValid() || sm.Type().NumIn() != 1 || sm.Type().In(0).Kind() != reflect.Int {
			return nil, false, nil
		}
		sm.Call([]reflect.Value{reflect.ValueOf(bound)})
	}
	if err := fill(obj, name, bound); err != nil {
		return nil, false, err
	}
	return obj, true, nil
}

// fill inserts the elements 1..n (both lanes of the double queue)
func fill(obj interface{}, name string, n int) error {
	v := reflect.ValueOf(obj)
	var ins reflect.Value
	for _, m := range inserters {
		if x := v.MethodByName(m); x.IsValid() {
			ins = x
			break
		}
	}
	if !ins.IsValid() {
		return fmt.Errorf("%s: no inserting method among %v", name, inserters)
	}
	for i := 1; i <= n; i++ {
		args, err := synthArgs(obj, name, ins.Type(), i)
		if err != nil {
			return err
		}
		if err := setupCall(name, ins, args); err != nil {
			return err
		}
	}
	if m := v.MethodByName("Put2"); m.IsValid() {
		for i := 1; i <= n; i++ {
			args, _ := synthArgs(obj, name, m.Type(), 10+i)
			if err := setupCall(name, m, args); err != nil {
				return err
			}
		}
	}
	return nil
}

// setupCall: an insertion that builds the state a generator starts from, made on a goroutine of its
// own under the watchdog: a populating insertion that does not come back is a driver error after the
// watchdog period (exit 2), never a driver that waits for ever.
func setupCall(name string, m reflect.Value, args []reflect.Value) error {
	done := make(chan struct{})
	var err error
	go func() {
		defer close(done)
		defer func() {
			if r := recover(); r != nil {
				err = fmt.Errorf("%s: populating call panicked: %v", name, r)
			}
		}()
		m.Call(args)
	}()
	select {
	case <-done:
		return err
	case <-time.After(watchdog):
		return fmt.Errorf("%s: a populating insertion with an ordinary key did not come back within %v (lock left taken by an earlier insertion?)", name, watchdog)
	}
}

// the methods that insert one element, tried in this order when populating
var inserters = []string{"Put", "Add", "Put1"}

const populated = 5 // elements of a populated instance: keys 1..5

// newPopulated builds a fresh instance of the named type holding 5 elements.
func newPopulated(name string) (interface{}, error) { return newSized(name, populated) }

// a batch argument (a slice of values, another collection to merge) comes in two sizes: a handful of
// elements, and -- every fourth call -- more elements than the default table has buckets (101), all of
// them fresh, so that ONE batch call takes the receiver through two re-hash thresholds (75, 152):
// whatever a batch method does "once for the whole batch" depends on the batch's length
const bigBatch = 160

func batchLen(i int) int {
	if i%4 == 0 {
		return bigBatch
	}
	return 3
}

// newSized builds a fresh instance of the named type holding the elements 1..n.
func newSized(name string, n int) (interface{}, error) {
	mk := ctors[name]
	if mk == nil {
		return nil, fmt.Errorf("no constructor registered for table type %s", name)
	}
	obj := mk()
	v := reflect.ValueOf(obj)
	var ins reflect.Value
	for _, n := range inserters {
		if m := v.MethodByName(n); m.IsValid() {
			ins = m
			break
		}
	}
	if !ins.IsValid() {
		return nil, fmt.Errorf("%s: no inserting method among %v", name, inserters)
	}
	for i := 1; i <= n; i++ {
		args, err := synthArgs(obj, name, ins.Type(), i)
		if err != nil {
			return nil, err
		}
		if err := setupCall(name, ins, args); err != nil {
			return nil, err
		}
	}
	if m := v.MethodByName("Put2"); m.IsValid() { // the double queue: both lanes
		for i := 1; i <= 2; i++ {
			args, _ := synthArgs(obj, name, m.Type(), 10+i)
			if err := setupCall(name, m, args); err != nil {
				return nil, err
			}
		}
	}
	return obj, nil
}

// publicMethods lists the exported methods of the compiled type, sorted.
func publicMethods(obj interface{}) []string {
	t := reflect.TypeOf(obj)
	var out []string
	for i := 0; i < t.NumMethod(); i++ {
		out = append(out, t.Method(i).Name)
	}
	sort.Strings(out)
	return out
}

// synthArgs builds arguments for a method of obj; i varies keys and values
// (keys 1..5 exist in a populated instance).
func synthArgs(obj interface{}, tname string, ft reflect.Type, i int, peer ...interface{}) ([]reflect.Value, error) {
	var args []reflect.Value
	for a := 0; a < ft.NumIn(); a++ {
		pt := ft.In(a)
		v, err := synth(obj, tname, pt, i, peer...)
		if err != nil {
			return nil, err
		}
		args = append(args, v)
	}
	return args, nil
}

var linkedKeyType = reflect.TypeOf((*hmap.LinkedKey)(nil)).Elem()

// synthMode != 0: the unusual argument values (watchdog states zero / neg / none): 1 = 0, "", nil
// interface values, empty slices; 2 = -1, "", nil slices; 3 = the instance's own NONE sentinel (the
// exported field NONE where the type has one, else 0), "", nil.  Pointers (a sink, the wire form, a
// node, a peer) and comparators stay what they are in the ordinary states.
var synthMode int

func noneOf(obj interface{}, pt reflect.Type) (v reflect.Value) {
	v = reflect.Zero(pt)
	defer func() { recover() }()
	if f := reflect.ValueOf(obj).Elem().FieldByName("NONE"); f.IsValid() && f.Type().ConvertibleTo(pt) {
		switch f.Kind() {
		case reflect.Int, reflect.Int32, reflect.Int64, reflect.Float32, reflect.Float64:
			v = f.Convert(pt)
		}
	}
	return v
}

func synthSpecial(obj interface{}, tname string, pt reflect.Type, i int) (reflect.Value, bool) {
	switch pt.Kind() {
	case reflect.Int, reflect.Int32, reflect.Int64, reflect.Int16, reflect.Int8, reflect.Float32, reflect.Float64:
		switch synthMode {
		case 2:
			return reflect.ValueOf(-1).Convert(pt), true
		case 3:
			return noneOf(obj, pt), true
		}
		return reflect.Zero(pt), true
	case reflect.Bool, reflect.String, reflect.Interface:
		return reflect.Zero(pt), true
	case reflect.Slice:
		if synthMode == 2 {
			return reflect.Zero(pt), true
		}
		s := reflect.MakeSlice(pt, 0, 2)
		if synthMode == 3 {
			if e, ok := synthSpecial(obj, tname, pt.Elem(), i); ok {
				s = reflect.Append(s, e, e)
			}
		}
		return s, true
	}
	return reflect.Value{}, false
}

func synth(obj interface{}, tname string, pt reflect.Type, i int, peer ...interface{}) (reflect.Value, error) {
	if synthMode != 0 {
		if v, ok := synthSpecial(obj, tname, pt, i); ok {
			return v, nil
		}
	}
	switch pt.Kind() {
	case reflect.Int, reflect.Int32, reflect.Int64, reflect.Int16, reflect.Int8:
		return reflect.ValueOf(i).Convert(pt), nil
	case reflect.Float32, reflect.Float64:
		return reflect.ValueOf(float64(i)).Convert(pt), nil
	case reflect.Bool:
		return reflect.ValueOf(true), nil
	case reflect.String:
		return reflect.ValueOf(fmt.Sprintf("k%d", i)).Convert(pt), nil
	case reflect.Interface:
		if pt == linkedKeyType {
			return reflect.ValueOf(lkey{i}).Convert(pt), nil
		}
		if pt.NumMethod() == 0 {
			x := reflect.New(pt).Elem()
			x.Set(reflect.ValueOf(i * 10))
			return x, nil
		}
	case reflect.Func: // a comparator: func(a, b K) bool, "less" on the natural order where there is one
		return reflect.MakeFunc(pt, func(in []reflect.Value) []reflect.Value {
			res := false
			if len(in) == 2 {
				switch in[0].Kind() {
				case reflect.Int, reflect.Int32, reflect.Int64:
					res = in[0].Int() < in[1].Int()
				case reflect.String:
					res = in[0].String() < in[1].String()
				case reflect.Interface:
					a, ok1 := in[0].Interface().(lkey)
					b, ok2 := in[1].Interface().(lkey)
					res = ok1 && ok2 && a.id < b.id
				}
			}
			out := make([]reflect.Value, pt.NumOut())
			for k := range out {
				out[k] = reflect.Zero(pt.Out(k))
			}
			if len(out) == 1 && pt.Out(0).Kind() == reflect.Bool {
				out[0] = reflect.ValueOf(res)
			}
			return out
		}), nil
	case reflect.Slice:
		ks := []int{i, i + 1, 9}
		if batchLen(i) > 3 { // fresh elements, more of them than the default table has buckets
			ks = ks[:0]
			for j := 0; j < bigBatch; j++ {
				ks = append(ks, 1000+i*200+j)
			}
		}
		s := reflect.MakeSlice(pt, 0, len(ks))
		for _, k := range ks {
			e, err := synth(obj, tname, pt.Elem(), k)
			if err != nil {
				return reflect.Value{}, err
			}
			s = reflect.Append(s, e)
		}
		return s, nil
	case reflect.Ptr:
		switch pt.Elem().Name() {
		case "DataOutputX":
			return reflect.ValueOf(gio.NewDataOutputX()), nil
		case "DataInputX": // what the same object writes
			w := reflect.ValueOf(obj).MethodByName("ToBytes")
			if !w.IsValid() {
				return reflect.Value{}, fmt.Errorf("%s takes a DataInputX but has no ToBytes", tname)
			}
			dout := gio.NewDataOutputX()
			w.Call([]reflect.Value{reflect.ValueOf(dout)})
			return reflect.ValueOf(gio.NewDataInputX(dout.ToByteArray())), nil
		case "LinkedListEntity": // a node of this list
			g := reflect.ValueOf(obj).MethodByName("GetFirst")
			if g.IsValid() {
				return g.Call(nil)[0], nil
			}
		}
		if pt == reflect.TypeOf(obj) { // another collection of the same type (PutAll): the given peer, else a fresh one
			if len(peer) > 0 && peer[0] != nil {
				return reflect.ValueOf(peer[0]), nil
			}
			n := populated
			if batchLen(i) > 3 {
				n = bigBatch
			}
			other, err := newSized(tname, n)
			if err != nil {
				return reflect.Value{}, err
			}
			return reflect.ValueOf(other), nil
		}
	}
	return reflect.Value{}, fmt.Errorf("%s: cannot synthesise an argument of type %s", tname, pt)
}

// takesPeer: the method has a parameter of the receiver's own type (PutAll(other *T))
func takesPeer(obj interface{}, method string) bool {
	m := reflect.ValueOf(obj).MethodByName(method)
	if !m.IsValid() {
		return false
	}
	for a := 0; a < m.Type().NumIn(); a++ {
		if m.Type().In(a) == reflect.TypeOf(obj) {
			return true
		}
	}
	return false
}

// caller returns a closure performing one call of the named public method;
// peer (optional): the instance handed in where the method takes another
// collection of the receiver's type -- obj itself for x.m(x).
func caller(obj interface{}, tname, method string, i int, peer ...interface{}) (func(), error) {
	m := reflect.ValueOf(obj).MethodByName(method)
	if !m.IsValid() {
		return nil, fmt.Errorf("%s has no method %s", tname, method)
	}
	args, err := synthArgs(obj, tname, m.Type(), i, peer...)
	if err != nil {
		return nil, err
	}
	return func() { m.Call(args) }, nil
}

// ---------------------------------------------------------------- the lock, from outside

// extLock is the instance lock seen from outside: the harness takes it (in
// exclusive or, for a readers-writer lock, in shared mode) and reads off the
// lock's own words whether another goroutine is committed to waiting for it.
// Positive evidence, no timing involved.  Layout assumed (checked by
// lockLayoutOK before first use): sync.Mutex = {state int32; sema uint32} with
// the waiter count in state >> 3; sync.RWMutex = {w Mutex; writerSem,
// readerSem uint32; readerCount, readerWait int32} with readerCount lowered
// by 1<<30 while a writer holds or has announced the lock.
type extLock struct {
	mu *sync.Mutex
	rw *sync.RWMutex
}

const rwMaxReaders = 1 << 30

func (l *extLock) modes() []string {
	switch {
	case l == nil:
		return []string{"none"}
	case l.rw != nil:
		return []string{"excl", "shared"}
	}
	return []string{"excl"}
}

func (l *extLock) lock(mode string) {
	switch {
	case l == nil:
	case l.rw != nil && mode == "shared":
		l.rw.RLock()
	case l.rw != nil:
		l.rw.Lock()
	default:
		l.mu.Lock()
	}
}

func (l *extLock) unlock(mode string) {
	switch {
	case l == nil:
	case l.rw != nil && mode == "shared":
		l.rw.RUnlock()
	case l.rw != nil:
		l.rw.Unlock()
	default:
		l.mu.Unlock()
	}
}

func rwReaderCount(rw *sync.RWMutex) int32 {
	return atomic.LoadInt32((*int32)(unsafe.Add(unsafe.Pointer(rw), 16)))
}

// parked: how many goroutines are committed to waiting for the lock the
// harness holds in the given mode
func (l *extLock) parked(mode string) int {
	switch {
	case l == nil:
		return 0
	case l.rw != nil && mode == "shared": // a writer took w, announced itself and waits for the readers to leave
		if rwReaderCount(l.rw) < 0 {
			return 1
		}
		return 0
	case l.rw != nil: // writers queue on w (held by us), readers have counted themselves in and wait for readerSem
		n := waiters((*sync.Mutex)(unsafe.Pointer(l.rw)))
		if rc := rwReaderCount(l.rw) + rwMaxReaders; rc > 0 {
			n += int(rc)
		}
		return n
	}
	return waiters(l.mu)
}

var layoutChecked, layoutErr = false, error(nil)

// lockLayoutOK exercises a sync.RWMutex of its own the way the footprint does
// and checks that the words read by parked() say what they are assumed to say.
func lockLayoutOK() error {
	if layoutChecked {
		return layoutErr
	}
	layoutChecked = true
	if unsafe.Sizeof(sync.RWMutex{}) != 24 || unsafe.Sizeof(sync.Mutex{}) != 8 {
		layoutErr = fmt.Errorf("sync.RWMutex / sync.Mutex do not have the assumed layout (sizes %d / %d)", unsafe.Sizeof(sync.RWMutex{}), unsafe.Sizeof(sync.Mutex{}))
		return layoutErr
	}
	wait := func(f func() bool) bool {
		for i := 0; i < 40000; i++ {
			if f() {
				return true
			}
			time.Sleep(100 * time.Microsecond)
		}
		return false
	}
	rw := &sync.RWMutex{}
	l := &extLock{rw: rw}
	done := make(chan struct{}, 4)
	l.lock("excl")
	ok := l.parked("excl") == 0
	go func() { rw.RLock(); rw.RUnlock(); done <- struct{}{} }()
	ok = ok && wait(func() bool { return l.parked("excl") == 1 })
	go func() { rw.Lock(); rw.Unlock(); done <- struct{}{} }()
	ok = ok && wait(func() bool { return l.parked("excl") == 2 })
	l.unlock("excl")
	<-done
	<-done
	l.lock("shared")
	ok = ok && l.parked("shared") == 0
	go func() { rw.RLock(); rw.RUnlock(); done <- struct{}{} }()
	<-done // a second reader is not kept out
	ok = ok && l.parked("shared") == 0
	go func() { rw.Lock(); rw.Unlock(); done <- struct{}{} }()
	ok = ok && wait(func() bool { return l.parked("shared") == 1 })
	l.unlock("shared")
	<-done
	if !ok {
		layoutErr = fmt.Errorf("sync.RWMutex does not keep its reader / writer counts where this harness reads them (Go version?)")
	}
	return layoutErr
}

// lockOf reaches the unexported lock of the object at the relative path
// (field names; empty = obj itself) using the table's knowledge of which
// field is the lock.  Test-only: reflect + unsafe.  nil: the type has no lock
// field of a kind the table knows -- nothing can be held from outside, the
// calls are then made with nothing held (footprint mode "none").
func lockOf(tab *Table, tname string, obj interface{}, path []string) (*extLock, error) {
	v := reflect.ValueOf(obj).Elem()
	ti := tab.Types[tname]
	for _, f := range path {
		fv := v.FieldByName(f)
		if !fv.IsValid() {
			return nil, fmt.Errorf("%s has no field %s", tname, f)
		}
		sub := ""
		for _, s := range ti.Sub {
			if s[0] == f {
				sub = s[1]
			}
		}
		if sub == "" {
			return nil, fmt.Errorf("%s.%s is not a sub-object of the table", tname, f)
		}
		if fv.Kind() == reflect.Ptr {
			fv = fv.Elem()
		}
		v, ti, tname = fv, tab.Types[sub], sub
	}
	if ti.Lock == "" {
		return nil, nil
	}
	lf := v.FieldByName(ti.Lock)
	if !lf.IsValid() || !lf.CanAddr() {
		return nil, fmt.Errorf("%s: lock field %q not reachable", tname, ti.Lock)
	}
	p := unsafe.Pointer(lf.UnsafeAddr())
	switch lf.Type().String() {
	case "sync.Mutex":
		return &extLock{mu: (*sync.Mutex)(p)}, nil
	case "*sync.Mutex":
		return &extLock{mu: *(**sync.Mutex)(p)}, nil
	case "sync.RWMutex":
		return &extLock{rw: (*sync.RWMutex)(p)}, lockLayoutOK()
	case "*sync.RWMutex":
		return &extLock{rw: *(**sync.RWMutex)(p)}, lockLayoutOK()
	case "*sync.Cond":
		c := *(**sync.Cond)(p)
		if c == nil {
			return nil, fmt.Errorf("%s: nil condition variable", tname)
		}
		switch lk := c.L.(type) {
		case *sync.Mutex:
			return &extLock{mu: lk}, nil
		case *sync.RWMutex:
			return &extLock{rw: lk}, lockLayoutOK()
		}
		return nil, nil // a Locker of a kind that cannot be held from here
	}
	return nil, nil
}

// waiters reads how many goroutines are queued on the mutex (sync.Mutex keeps
// the count in the upper bits of its first word: state >> 3).  A goroutine
// counted here is parked on THIS lock: positive evidence, no timing involved.
func waiters(mu *sync.Mutex) int {
	return int(atomic.LoadInt32((*int32)(unsafe.Pointer(mu))) >> 3)
}
