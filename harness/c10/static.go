package c10

// Binding of the extracted lock table to behaviour.
//
//	footprint  each public method of each type is called on a populated
//	           instance while this goroutine holds the instance lock (or the
//	           lock of a sub-object): the call parks on that lock iff the
//	           table says the method takes it.  A readers-writer lock is held
//	           twice: in exclusive mode (every method that takes it in either
//	           mode parks) and in shared mode (exactly the methods that take
//	           it in exclusive mode park).  A type whose lock is of no kind
//	           the table knows is called with nothing held (mode "none").
//	watchdog   each public method of each type is called in every state its
//	           helper paths depend on (populated / empty / growing through
//	           the re-hash thresholds / bound in force and reached, with
//	           existing and with fresh keys): returned | panicked | timeout;
//	           afterwards Size() (or another lock-taking call) must still
//	           come back: a method that returned but kept the lock shows here.
//	           A method that takes another instance of its own type
//	           (PutAll(other)) is also handed its own receiver (x.m(x)) and
//	           run crosswise on two instances from two goroutines (a.m(b)
//	           against b.m2(a), for every such m2).
//
// Both go through the methods the COMPILED type has (reflection); the list is
// logged ("Methods") and must equal the table's.

import (
	"fmt"
	"runtime"
	"sort"
	"sync/atomic"
	"time"

	"verifharness/core"
)

// how long a single call may take before it counts as not returning.  The
// calls take microseconds; the margin only has to beat scheduler stalls of a
// loaded machine (a stall that does trip it does not reproduce in the triage
// re-run and ends as a machinery failure, never as a violation).
var watchdog = 4 * time.Second

// run f on its own goroutine under the watchdog
func guarded(f func()) string {
	done := make(chan string, 1)
	go func() { done <- core.Guard(f) }()
	select {
	case msg := <-done:
		if msg != "" {
			return "panicked"
		}
		return "returned"
	case <-time.After(watchdog):
		return "timeout"
	}
}

// bounded runs f on its own goroutine under the watchdog: ok = false when it did
// not come back (the goroutine is left behind, parked).  Every call on a real
// structure that is not itself the subject of a generator goes through this, so
// that a lock left taken by an earlier call ends as a recorded event or a quick
// driver error, never as a driver that waits for ever.
func bounded(f func()) (msg string, ok bool) {
	done := make(chan string, 1)
	go func() { done <- core.Guard(f) }()
	select {
	case msg = <-done:
		return msg, true
	case <-time.After(watchdog):
		return "", false
	}
}

func typeNames(tab *Table) []string {
	var ns []string
	for n := range tab.Types {
		ns = append(ns, n)
	}
	sort.Strings(ns)
	return ns
}

func emitMethods(t *core.Trace, tn string, obj interface{}) []string {
	ms := publicMethods(obj)
	t.Emit(core.Ev{"ev": "Methods", "t": tn, "ms": ms})
	return ms
}

// probe is the call made after a method under test to see that the instance
// lock is free again: a public method the table says takes the lock.
func probeMethod(ti *TypeInfo) string {
	for _, m := range []string{"Size", "Clear"} {
		if mi := ti.Methods[m]; mi != nil {
			return m
		}
	}
	return ""
}

func runFootprint(c *core.Ctx, tab *Table) error {
	const gen = "footprint"
	if !c.WantGen(gen) {
		return nil
	}
	t := c.Trace("footprint", "Trace_LockDiscipline")
	for cas, tn := range typeNames(tab) {
		if !c.Want(gen, cas) {
			continue
		}
		ti := tab.Types[tn]
		probe, err := newPopulated(tn)
		if err != nil {
			return err
		}
		t.Reset(gen, cas, core.Ev{"t": tn})
		ms := emitMethods(t, tn, probe)
		paths := [][]string{{}}
		for _, s := range ti.Sub {
			paths = append(paths, []string{s[0]})
		}
		for _, path := range paths {
			held, err := lockOf(tab, tn, probe, path)
			if err != nil {
				return err
			}
			for _, mode := range held.modes() {
				for _, m := range ms {
					obj, err := newPopulated(tn)
					if err != nil {
						return err
					}
					call, err := caller(obj, tn, m, 2)
					if err != nil {
						return err
					}
					mu, err := lockOf(tab, tn, obj, path)
					if err != nil {
						return err
					}
					mu.lock(mode)
					done := make(chan string, 1)
					go func() { done <- core.Guard(call) }()
					blocked, decided := false, false
					start := time.Now()
					var first string
					for !decided {
						select {
						case first = <-done:
							decided = true
						default:
							if mu.parked(mode) > 0 {
								blocked, decided = true, true
							} else if time.Since(start) > 3*watchdog {
								mu.unlock(mode)
								return fmt.Errorf("footprint %s.%s (lock %v held in mode %s): neither returned nor parked on the lock within %v", tn, m, path, mode, 3*watchdog)
							} else {
								time.Sleep(100 * time.Microsecond)
							}
						}
					}
					mu.unlock(mode)
					after := "returned"
					if blocked {
						select {
						case first = <-done:
						case <-time.After(watchdog):
							after = "timeout"
						}
					}
					if after == "returned" && first != "" {
						after = "panicked"
					}
					pp := path
					if pp == nil {
						pp = []string{}
					}
					t.Emit(core.Ev{"ev": "Footprint", "t": tn, "m": m, "p": pp, "mode": mode, "blocked": blocked, "after": after})
					c.Count(fmt.Sprintf("fp|%s|%s|%v|%s", tn, m, path, mode), true)
				}
			}
		}
		t.Emit(core.Ev{"ev": "Done"})
	}
	return nil
}

// The states in which every public method is exercised by the watchdog.  A
// method's helper paths depend on the state it meets: the eviction branch runs
// only on an instance whose bound is in force and reached and only for a NEW
// key, the re-hash only when an insertion crosses the threshold, the unlinking
// only when the key is there.
//
//	populated  5 elements, one call with an existing key
//	empty      no element, one call
//	growing    5 elements, then 170 calls with fresh keys (an inserting method
//	           crosses the default threshold twice; a removing one misses)
//	full       bound 3 in force and reached (SetMax / queue capacity), then 12
//	           calls alternating fresh and existing keys
//	self       (methods taking another instance of the receiver's type) 5
//	           elements, one call handed the receiver itself: x.m(x)
//	cross      (the same methods) two instances of 5 elements and two
//	           goroutines, a.m(b) against b.m2(a), crossRounds times in lockstep
//	           rounds (up to 4 attempts on fresh instances), for every such
//	           method m2 from m on (event field "with")
//	zero / neg / none   5 elements, ONE call whose arguments are the unusual
//	           values (zero: 0, "", nil interface values, empty slices; neg: -1,
//	           "", nil slices; none: the instance's own NONE sentinel / null
//	           value, "", nil), followed like every other state by Size() under
//	           the watchdog: an early-return path that forgets the lock shows as
//	           a probe that does not come back
var wdVariants = []string{"populated", "empty", "growing", "full", "self", "cross", "zero", "neg", "none"}

var specialMode = map[string]int{"zero": 1, "neg": 2, "none": 3}

const crossRounds = 3000

// cross runs a.m1(b) on one goroutine against b.m2(a) on another, round by
// round (a spin barrier before each call, so that the two calls of a round
// begin within nanoseconds of each other), under the watchdog.  A side stops
// after crossRounds calls or after a quarter of the watchdog period, whichever
// comes first: on a stalled machine the sequence gets shorter, it never runs
// into the watchdog by its length.
func cross(tn, m1, m2 string) (string, error) {
	a, err := newPopulated(tn)
	if err != nil {
		return "", err
	}
	b, err := newPopulated(tn)
	if err != nil {
		return "", err
	}
	c1, err := caller(a, tn, m1, 2, b)
	if err != nil {
		return "", err
	}
	c2, err := caller(b, tn, m2, 2, a)
	if err != nil {
		return "", err
	}
	round := make([]int32, crossRounds)
	res := make(chan string, 2)
	began := time.Now()
	for _, call := range []func(){c1, c2} {
		call := call
		go func() {
			out := "returned"
			for i := 0; i < crossRounds; i++ {
				if i%64 == 63 && time.Since(began) > watchdog/4 {
					break
				}
				atomic.AddInt32(&round[i], 1)
				for spins := 0; atomic.LoadInt32(&round[i]) < 2 && spins < 1<<16; spins++ {
					if spins%256 == 255 {
						runtime.Gosched()
					}
				}
				if core.Guard(call) != "" {
					out = "panicked"
				}
			}
			res <- out
		}()
	}
	out := "returned"
	deadline := time.After(watchdog)
	for i := 0; i < 2; i++ {
		select {
		case o := <-res:
			if o != "returned" {
				out = o
			}
		case <-deadline:
			return "timeout", nil
		}
	}
	return out, nil
}

func wdKeys(variant string) []int {
	switch variant {
	case "growing":
		ks := make([]int, 170)
		for i := range ks {
			ks[i] = populated + 1 + i
		}
		return ks
	case "full":
		return []int{9, 1, 10, 2, 11, 3, 12, 12, 1, 13, 14, 2}
	}
	return []int{2}
}

// guardedAll runs the calls one after the other on one goroutine under the
// watchdog; a panicking call does not stop the sequence.
func guardedAll(calls []func()) string {
	done := make(chan string, 1)
	go func() {
		out := "returned"
		for _, f := range calls {
			if core.Guard(f) != "" {
				out = "panicked"
			}
		}
		done <- out
	}()
	select {
	case out := <-done:
		return out
	case <-time.After(watchdog):
		return "timeout"
	}
}

func runWatchdog(c *core.Ctx, tab *Table) error {
	const gen = "watchdog"
	if !c.WantGen(gen) {
		return nil
	}
	t := c.Trace("watchdog", "Trace_LockDiscipline")
	for cas, tn := range typeNames(tab) {
		if !c.Want(gen, cas) {
			continue
		}
		ti := tab.Types[tn]
		first, err := newPopulated(tn)
		if err != nil {
			return err
		}
		t.Reset(gen, cas, core.Ev{"t": tn, "nondet": true})
		ms := emitMethods(t, tn, first)
		pm := probeMethod(ti)
		timeouts := 0 // a type that hangs again and again has said what it has to say
		leaks := 0    // ... and so has one whose lock stayed taken after a call with unusual arguments
		for _, m := range ms {
			for vi, variant := range wdVariants {
				if vi > 0 && (timeouts >= 6 || (specialMode[variant] > 0 && leaks >= 3)) {
					continue
				}
				var obj interface{}
				switch variant {
				case "populated", "growing", "zero", "neg", "none":
					if obj, err = newPopulated(tn); err != nil {
						return err
					}
				case "empty":
					obj = ctors[tn]()
					if blocksWhenEmpty(tn, m) {
						continue
					}
				case "full":
					var ok bool
					if obj, ok, err = newFull(tn); err != nil {
						return err
					} else if !ok {
						continue
					}
				case "self":
					if !takesPeer(first, m) {
						continue
					}
					if obj, err = newPopulated(tn); err != nil {
						return err
					}
				case "cross":
					if !takesPeer(first, m) {
						continue
					}
					for _, m2 := range ms {
						if m2 < m || !takesPeer(first, m2) || timeouts >= 6 {
							continue
						}
						// the two calls wait for each other only when they really overlap: a few
						// attempts on fresh instances (each bounded in time), until one hangs
						var out string
						for attempt := 0; attempt < 4 && out != "timeout"; attempt++ {
							if out, err = cross(tn, m, m2); err != nil {
								return err
							}
						}
						if out == "timeout" {
							timeouts++
						}
						t.Emit(core.Ev{"ev": "Outcome", "t": tn, "m": m, "with": m2, "out": out, "on": variant, "calls": 2 * crossRounds, "attempts": 4})
						c.Count(fmt.Sprintf("wd|%s|%s|%s|%s", tn, m, variant, m2), true)
					}
					continue
				}
				keys := wdKeys(variant)
				if waitsWhenEmpty(tn, m) { // one call, while there is something to take
					keys = keys[:1]
				}
				var calls []func()
				for _, k := range keys {
					var peer interface{}
					if variant == "self" {
						peer = obj
					}
					synthMode = specialMode[variant]
					call, err := caller(obj, tn, m, k, peer)
					synthMode = 0
					if err != nil {
						calls = nil
						if vi == 0 {
							return err
						}
						break // arguments that need content (a node of the list, the wire form)
					}
					calls = append(calls, call)
				}
				if calls == nil {
					continue
				}
				out := guardedAll(calls)
				ev := core.Ev{"ev": "Outcome", "t": tn, "m": m, "out": out, "on": variant, "calls": len(calls)}
				if out == "timeout" {
					timeouts++
				} else if pm != "" {
					p, err := caller(obj, tn, pm, 1)
					if err != nil {
						return err
					}
					ev["then"] = guarded(p)
					ev["probe"] = pm
					if ev["then"] == "timeout" {
						leaks++
					}
				}
				t.Emit(ev)
				c.Count(fmt.Sprintf("wd|%s|%s|%s", tn, m, variant), true)
				if len(ms) > 0 && m == ms[0] && vi == 0 && cas < 2 {
					c.Sample(ev)
				}
			}
		}
		t.Emit(core.Ev{"ev": "Done"})
	}
	return nil
}

// blocksWhenEmpty: the blocking dequeue waits for an element by design.
func blocksWhenEmpty(tn, m string) bool {
	return (tn == "RequestQueue" || tn == "RequestDoubleQueue") && m == "Get"
}

// waitsWhenEmpty: the dequeues that wait (for ever, or for the time given as
// argument) when there is nothing to take.
func waitsWhenEmpty(tn, m string) bool {
	return (tn == "RequestQueue" || tn == "RequestDoubleQueue") && (m == "Get" || m == "GetTimeout")
}
