package c10

// Gated histories (generator "gate"): the user-supplied functions the API
// calls are gates INTO an operation.
//
// A few public calls of the collections run caller code in the middle of their
// work: the request queue hands a refused element to its Failed handler (Put on
// a full queue) and every evicted element to its Overflowed handler (PutForce
// on a full queue); every Sort runs the caller's comparator O(n log n) times.
// Whatever such a call has done to the instance when it calls out, and whatever
// it goes on to do afterwards, it is ONE operation: a point operation of
// another goroutine that is issued while the caller's function runs must either
// wait for the instance lock until the call is over, or -- if the call has let
// go of the lock -- fit into the sequential model as if the call were atomic.
//
// The overlap is deterministic, not a matter of luck: the function handed to
// the collection (handler / comparator), at its n-th invocation, releases a
// second goroutine B that performs its next point operation on the same
// instance, and stays inside until B's operation has RETURNED or B is seen
// PARKED on the instance lock (waiter count of the lock word, read from
// outside: positive evidence, no timing) -- or, as a fallback that can only
// lose the overlap, a short time has passed.  Everything is recorded as in the
// other concurrent histories (Inv / Ret stamped from one atomic counter, the
// result in the Inv record) and judged by Trace_Linearize; the handlers also
// record WHAT they were handed (fields drop / fail of the call they ran in):
// a forced put drops exactly the oldest elements, a refused put fails exactly
// its own element.
//
// Sites (every one the API has): RequestQueue.Overflowed, RequestQueue.Failed
// (the double queue's handler fields are unexported and have no setter: they
// cannot be installed), Sort(comparator) of every hash collection that has
// one.  The comparator is built here (reflection over the raw object): the
// natural order of the keys or its reverse -- the pools of harness/c09 and
// harness/c12 rank their keys by that order, so it is the "asc" / "desc" of
// LinkedDict.Sort.

import (
	"fmt"
	"math/rand"
	"reflect"
	"runtime"
	"sort"
	"strconv"
	"strings"
	"sync"
	"sync/atomic"
	"time"
	"unsafe"

	"github.com/whatap/golib/util/queue"

	"verifharness/core"
)

// the table of the current run (the lock field of each type)
var curTab *Table

func goid() int64 {
	var buf [64]byte
	s := string(buf[:runtime.Stack(buf[:], false)])
	s = strings.TrimPrefix(s, "goroutine ")
	if i := strings.IndexByte(s, ' '); i > 0 {
		n, _ := strconv.ParseInt(s[:i], 10, 64)
		return n
	}
	return -1
}

type gateRec struct {
	g    int64
	site string
	elem []int
}

// gate is where the handlers / comparators of one instance report to.
type gate struct {
	mu    sync.Mutex
	recs  []gateRec
	enter func(site string) // set by the runner: called on every invocation of a user-supplied function
}

func (g *gate) note(site string, elem []int) {
	me := goid()
	g.mu.Lock()
	g.recs = append(g.recs, gateRec{me, site, elem})
	f := g.enter
	g.mu.Unlock()
	if f != nil {
		f(site)
	}
}

// take removes and returns what the handlers recorded on the calling goroutine
func (g *gate) take() (drop, fail []int) {
	me := goid()
	drop, fail = []int{}, []int{}
	g.mu.Lock()
	defer g.mu.Unlock()
	keep := g.recs[:0]
	for _, r := range g.recs {
		switch {
		case r.g != me:
			keep = append(keep, r)
		case r.site == "Overflowed":
			drop = append(drop, r.elem...)
		case r.site == "Failed":
			fail = append(fail, r.elem...)
		}
	}
	g.recs = keep
	return
}

// the single queue with both handlers installed
func newGatedQueueObj(capacity int) *cobj {
	co := newQueueObj(capacity)
	q := co.Raw.(*queue.RequestQueue)
	g := &gate{}
	co.Gate = g
	q.Overflowed = func(o interface{}) { g.note("Overflowed", elemOf(o)) }
	q.Failed = func(o interface{}) { g.note("Failed", elemOf(o)) }
	inner := co.Call
	co.Call = func(op pop) Ev {
		res := inner(op)
		switch op.Name {
		case "QPut":
			_, res["fail"] = g.take()
		case "QPutForce":
			res["drop"], _ = g.take()
		}
		return res
	}
	return co
}

// sortRaw calls Sort of the raw collection with a comparator built here: the natural order of the
// keys ("asc") or its reverse ("desc"); every invocation of the comparator reports to the gate.
func sortRaw(co *cobj, dir string) Ev {
	m := reflect.ValueOf(co.Raw).MethodByName("Sort")
	if !m.IsValid() || m.Type().NumIn() != 1 || m.Type().In(0).Kind() != reflect.Func {
		panic("c10: " + co.Type + " has no Sort(comparator)")
	}
	ft := m.Type().In(0)
	id := func(v reflect.Value) int { // keys behind an interface (LinkedKey): harness/c09 names them lk<id>#<hash>
		s := fmt.Sprint(v.Interface())
		n := 0
		fmt.Sscanf(s, "lk%d#", &n)
		return n
	}
	cmp := reflect.MakeFunc(ft, func(in []reflect.Value) []reflect.Value {
		if co.Gate != nil {
			co.Gate.note("cmp", nil)
		}
		less := false
		switch in[0].Kind() {
		case reflect.Int, reflect.Int32, reflect.Int64:
			less = in[0].Int() < in[1].Int()
		case reflect.String:
			less = in[0].String() < in[1].String()
		default:
			less = id(in[0]) < id(in[1])
		}
		if dir == "desc" {
			switch in[0].Kind() {
			case reflect.Int, reflect.Int32, reflect.Int64:
				less = in[0].Int() > in[1].Int()
			case reflect.String:
				less = in[0].String() > in[1].String()
			default:
				less = id(in[0]) > id(in[1])
			}
		}
		return []reflect.Value{reflect.ValueOf(less)}
	})
	m.Call([]reflect.Value{cmp})
	return Ev{"dir": dir}
}

func hasSort(co *cobj) bool {
	if co.Raw == nil {
		return false
	}
	m := reflect.ValueOf(co.Raw).MethodByName("Sort")
	return m.IsValid() && m.Type().NumIn() == 1 && m.Type().In(0).Kind() == reflect.Func && m.Type().In(0).NumIn() == 2
}

// lockWaiters: how many goroutines are queued on the instance lock right now (0 when the lock cannot be read)
func lockWaiters(l *extLock) int {
	switch {
	case l == nil:
		return 0
	case l.rw != nil:
		rc := rwReaderCount(l.rw)
		if rc >= 0 {
			return 0
		}
		return waiters((*sync.Mutex)(unsafe.Pointer(l.rw))) + int(rc+rwMaxReaders)
	}
	return waiters(l.mu)
}

// gated is one gated history: prefix (sequential), then call A on this goroutine while goroutine B
// performs bs[i] from inside the (at+i)-th invocation of A's user-supplied function.
type gated struct {
	Site   string
	Prefix []pop
	A      pop
	Bs     []pop
	At     int
}

func (g *gated) calls() int { return len(g.Prefix) + 1 + len(g.Bs) }

// how long a user-supplied function stays inside when B neither returns nor is seen parked
// (a lock that cannot be read from outside): only the overlap depends on it
const gateFallback = 50 * time.Millisecond

func runGated(co *cobj, gp *gated) (log []Ev, inside int, finished bool) {
	type raw struct {
		t0, t1 int64
		th     int
		op     pop
		res    Ev
		msg    string
	}
	var clock int64
	var raws []raw
	var bmu sync.Mutex
	var braws []raw
	do := func(th int, op pop) raw {
		x := raw{th: th, op: op}
		x.t0 = atomic.AddInt64(&clock, 1)
		x.msg = core.Guard(func() { x.res = co.Call(op) })
		x.t1 = atomic.AddInt64(&clock, 1)
		return x
	}
	for _, op := range gp.Prefix {
		var x raw
		if _, back := bounded(func() { x = do(0, op) }); !back { // an earlier call left the lock taken
			return nil, 0, false
		}
		raws = append(raws, x)
		if x.msg != "" {
			goto merge
		}
	}
	{
		var lk *extLock
		if curTab != nil && co.Raw != nil && curTab.Types[co.Type] != nil {
			lk, _ = lockOf(curTab, co.Type, co.Raw, nil)
		}
		req := make(chan pop)
		done := make(chan struct{}, len(gp.Bs)+1)
		var started int32
		var wg sync.WaitGroup
		wg.Add(1)
		go func() {
			defer wg.Done()
			for op := range req {
				atomic.AddInt32(&started, 1)
				x := do(1, op)
				bmu.Lock()
				braws = append(braws, x)
				bmu.Unlock()
				done <- struct{}{}
			}
		}()
		me := goid()
		n, fired, outstanding := 0, 0, 0
		if co.Gate != nil {
			co.Gate.mu.Lock()
			co.Gate.enter = func(site string) {
				if goid() != me { // a function invoked by B's own call
					return
				}
				n++
				if site != gp.Site || n < gp.At || fired >= len(gp.Bs) || outstanding > 0 {
					return
				}
				want := atomic.LoadInt32(&started) + 1
				req <- gp.Bs[fired]
				fired++
				outstanding++
				deadline := time.Now().Add(gateFallback)
				if lk != nil {
					deadline = time.Now().Add(2 * time.Second)
				}
				for spins := 0; ; spins++ {
					select {
					case <-done: // B's operation returned while A is inside its user-supplied function
						outstanding--
						inside++
						return
					default:
					}
					if atomic.LoadInt32(&started) >= want && lockWaiters(lk) > 0 { // B waits for the instance lock
						return
					}
					if time.Now().After(deadline) {
						return
					}
					if spins < 200 {
						runtime.Gosched()
					} else {
						time.Sleep(20 * time.Microsecond)
					}
				}
			}
			co.Gate.mu.Unlock()
		}
		x := do(0, gp.A)
		raws = append(raws, x)
		if co.Gate != nil {
			co.Gate.mu.Lock()
			co.Gate.enter = nil
			co.Gate.mu.Unlock()
		}
		// B's operation that was still waiting for the lock, then (without overlap) the ones no invocation released
		waitB := func() bool {
			for outstanding > 0 {
				select {
				case <-done:
					outstanding--
				case <-time.After(historyWatchdog):
					return false
				}
			}
			return true
		}
		ok := waitB()
		for ok && x.msg == "" && fired < len(gp.Bs) {
			select {
			case req <- gp.Bs[fired]:
				fired++
				outstanding++
				ok = waitB()
			case <-time.After(historyWatchdog):
				ok = false
			}
		}
		if !ok {
			return nil, inside, false // B never came back: its log is not read
		}
		close(req)
		wg.Wait()
		raws = append(raws, braws...)
	}
merge:
	type rec struct {
		stamp int64
		ev    Ev
	}
	var all []rec
	for _, x := range raws {
		inv := Ev{"ev": "Inv", "p": x.th, "o": x.op.Name, "k": x.op.K, "v": x.op.V}
		if x.msg == "" {
			for k, v := range x.res {
				inv[k] = v
			}
		}
		all = append(all, rec{x.t0, inv})
		if x.msg != "" {
			msg := x.msg
			if len(msg) > 160 {
				msg = msg[:160]
			}
			all = append(all, rec{x.t1, Ev{"ev": "Panic", "p": x.th, "o": x.op.Name, "msg": msg}})
		} else {
			all = append(all, rec{x.t1, Ev{"ev": "Ret", "p": x.th, "o": x.op.Name}})
		}
	}
	sort.SliceStable(all, func(i, j int) bool { return all[i].stamp < all[j].stamp })
	for _, x := range all {
		log = append(log, x.ev)
	}
	return log, inside, true
}

// the gated histories of one case id: site s of source si, number n
func gatedCase(r *rand.Rand, co *cobj, site string) *gated {
	gp := &gated{Site: site, At: 1}
	switch site {
	case "Overflowed", "Failed":
		id := 0
		next := func(name string) pop { id++; return pop{Name: name, K: id} }
		// some traffic first, then exactly full
		for i, n := 0, r.Intn(3); i < n; i++ {
			gp.Prefix = append(gp.Prefix, next([]string{"QPut", "QPutForce", "QGetNoWait"}[r.Intn(3)]))
		}
		gp.Prefix = append(gp.Prefix, pop{Name: "Clear"})
		for i := 0; i < co.Cap; i++ {
			gp.Prefix = append(gp.Prefix, next("QPut"))
		}
		if site == "Overflowed" {
			gp.A = next("QPutForce")
		} else {
			gp.A = next("QPut")
		}
		for i, n := 0, 1+r.Intn(2); i < n; i++ {
			gp.Bs = append(gp.Bs, next([]string{"QPut", "QPut", "QPutForce", "QGetNoWait", "Size", "Size", "Clear"}[r.Intn(7)]))
		}
	case "cmp":
		ins := ""
		for _, n := range []string{"Put", "PutLast", "Add", "AddLast", "Unipoint", "PutFirst"} {
			if co.has(n) {
				ins = n
				break
			}
		}
		present := 2 + r.Intn(2) // of the small pool
		if co.NK > 8 {
			present = 4 + r.Intn(12)
		}
		if present > co.NK {
			present = co.NK
		}
		perm := r.Perm(co.NK)
		for i := 0; i < present && ins != ""; i++ {
			gp.Prefix = append(gp.Prefix, pop{Name: ins, K: 1 + perm[i], V: 1 + r.Intn(3)})
		}
		gp.A = pop{Name: "Sort", Dir: []string{"asc", "desc"}[r.Intn(2)]}
		gp.At = 1 + r.Intn(3)
		if co.NK > 8 {
			gp.At = 1 + r.Intn(2*present)
		}
		for i, n := 0, 1+r.Intn(2); i < n; i++ {
			var name string
			for name == "" || blockingOps[name] || name == "Sort" {
				name = pickOp(r, co)
			}
			k := 1 + perm[r.Intn(present)] // mostly a present key, often a new one
			if present < co.NK && r.Intn(2) == 0 {
				k = 1 + perm[present+r.Intn(co.NK-present)]
			}
			gp.Bs = append(gp.Bs, pop{Name: name, K: k, V: 1 + r.Intn(3)})
		}
	}
	return gp
}

func runGate(c *core.Ctx) error {
	const gen = "gate"
	if !c.WantGen(gen) {
		return nil
	}
	t := c.Trace("gate", "Trace_Linearize")
	type site struct {
		name string
		si   int
		src  *source
	}
	var sites []site
	srcs := sources()
	for si := range srcs {
		src := &srcs[si]
		if src.Type == "RequestQueue" {
			sites = append(sites, site{"Overflowed", si, nil}, site{"Failed", si, nil})
			continue
		}
		if co := src.New(c.Rng("pool", si*caseStride), 0)(); co.Lin && hasSort(co) {
			sites = append(sites, site{"cmp", si, src})
		}
	}
	per := c.Pick(40, 400)
	if n, err := strconv.Atoi(c.Args["gatecases"]); err == nil && n > 0 {
		per = n
	}
	insideBySite := map[string]int{}
	bySite := map[string]int{}
	only := map[string]bool{}
	for _, tn := range strings.Split(c.Args["types"], "+") {
		if tn != "" {
			only[tn] = true
		}
	}
	for k, s := range sites {
		if len(only) > 0 && !only[srcs[s.si].Type] {
			continue
		}
		n := per
		if s.src == nil {
			n = 3 * per
		}
		for i := 0; i < n; i++ {
			cas := k*caseStride + i
			if !c.Want(gen, cas) {
				continue
			}
			r := c.Rng(gen, cas)
			var co *cobj
			if s.src == nil {
				co = newGatedQueueObj(1 + i%3)
			} else {
				variant := i % 4
				co = s.src.New(c.Rng("pool", s.si*caseStride+variant), variant)()
				co.Gate = &gate{}
			}
			gp := gatedCase(r, co, s.name)
			prog := &program{Shape: "gate:" + s.name}
			hdr := resetHdr(co, prog)
			hdr["at"] = gp.At
			t.Reset(gen, cas, hdr)
			log, inside, finished := runGated(co, gp)
			for _, e := range log {
				t.Emit(e)
			}
			panicked := false
			for _, e := range log {
				if e["ev"] == "Panic" {
					panicked = true
				}
			}
			if !finished {
				t.Emit(core.Ev{"ev": "Timeout", "after": historyWatchdog.String()})
			} else if !panicked {
				var fin core.Ev
				if msg, back := bounded(func() { fin = co.Final() }); !back {
					t.Emit(core.Ev{"ev": "Timeout", "after": watchdog.String(), "o": "Final"})
				} else if msg != "" {
					t.Emit(core.Ev{"ev": "Panic", "p": 0, "o": "Final", "msg": msg})
				} else {
					fin["ev"] = "Final"
					t.Emit(fin)
				}
			}
			insideBySite[s.name] += inside
			bySite[s.name]++
			c.Count(fmt.Sprintf("gate|%s|%s|%s|%d|%v|%v|%v", co.Type, co.Ctor, s.name, gp.At, gp.Prefix, gp.A, gp.Bs), true)
			if i == 0 {
				c.Sample(map[string]interface{}{"gen": gen, "case": cas, "type": co.Type, "site": s.name, "calls": gp.calls(), "log_head": head(log, 8)})
			}
		}
	}
	c.SetExtra("gated_histories_by_callback_site", bySite)
	c.SetExtra("gated_operations_that_returned_while_the_callback_was_running", insideBySite)
	return nil
}
