package c10

// The lock table: a go/ast pass over golib's util/hmap, util/list, util/queue
// (standard library only, no type checker) that turns every method of every
// lock-carrying collection type into a straight-line list of steps
//
//	acq / rel            the method takes / releases the instance lock
//	                     (Lock + deferred Unlock; Cond.Wait = rel, acq, both
//	                     marked a = "wait")
//	call  a b            it calls method b of the same receiver (a = "") or of
//	                     the sub-object held in field a (a lock-carrying type)
//	acc   r w            it reads the receiver fields r and writes the fields w;
//	                     for a field holding a reference (slice, pointer, map)
//	                     "f" is the field itself and "f*" what it refers to
//
// in source order (arguments before the call, right-hand sides before the
// assignment, deferred calls at the end in LIFO order; branches and loops are
// flattened: every statement is taken once).  The table is re-derived from the
// working tree on every run and handed to TLC as a JSON constant
// (spec/LockDiscipline.tla); its two code-visible consequences -- which calls
// block while the instance lock is held elsewhere, which calls never return --
// are bound to behaviour by the footprint and watchdog generators.

import (
	"encoding/json"
	"fmt"
	"go/ast"
	"go/parser"
	"go/token"
	"os"
	"path/filepath"
	"sort"
	"strings"
)

// Step is one step of a method body.  Consecutive accesses (nothing but
// accesses between them) are one step carrying the sets of fields read and
// written: their order and multiplicity do not matter to a lock discipline.
type Step struct {
	K string   `json:"k"` // acq | rel | call | acc
	A string   `json:"a"` // call: sub-object field ("" = same receiver); acq / rel: "wait" inside Cond.Wait
	B string   `json:"b"` // call: method name
	R []string `json:"r"` // acc: fields read (sorted)
	W []string `json:"w"` // acc: fields written (sorted)
}

// Method is one method of a lock-carrying type.
type Method struct {
	Pub    bool     `json:"pub"`
	Steps  []Step   `json:"steps"`
	Params []string `json:"params"` // parameter types as written (information)
	Pos    string   `json:"pos"`
}

// TypeInfo is one lock-carrying collection type.
type TypeInfo struct {
	Pkg     string             `json:"pkg"`
	File    string             `json:"file"`
	Lock    string             `json:"lock"`     // name of the lock field
	Kind    string             `json:"lockkind"` // mutex | cond
	Fields  []string           `json:"fields"`
	Sub     [][]string         `json:"sub"` // [field, type] for fields holding another table type
	Methods map[string]*Method `json:"methods"`
	Pubs    []string           `json:"pubs"` // the public methods, sorted (gives pairs an order)
	ref     map[string]bool    // fields that hold a reference (pointer, slice, map, func, chan, interface)
}

// Table is the whole extraction.
type Table struct {
	Types map[string]*TypeInfo `json:"types"`
}

// anchored says whether a source file belongs to the property's anchors.
func anchored(pkg, file string) bool {
	switch pkg {
	case "hmap":
		return true
	case "list":
		return file == "LinkedList.go"
	case "queue":
		return file == "RequestQueue.go" || file == "RequestDoubleQueue.go"
	}
	return false
}

func typeName(e ast.Expr) string {
	switch t := e.(type) {
	case *ast.StarExpr:
		return typeName(t.X)
	case *ast.SelectorExpr:
		return t.Sel.Name
	case *ast.Ident:
		return t.Name
	}
	return ""
}

func typeString(e ast.Expr) string {
	switch t := e.(type) {
	case *ast.StarExpr:
		return "*" + typeString(t.X)
	case *ast.SelectorExpr:
		return typeString(t.X) + "." + t.Sel.Name
	case *ast.Ident:
		return t.Name
	case *ast.ArrayType:
		return "[]" + typeString(t.Elt)
	case *ast.InterfaceType:
		return "interface{}"
	case *ast.FuncType:
		var ps []string
		if t.Params != nil {
			for _, f := range t.Params.List {
				n := len(f.Names)
				if n == 0 {
					n = 1
				}
				for i := 0; i < n; i++ {
					ps = append(ps, typeString(f.Type))
				}
			}
		}
		return "func(" + strings.Join(ps, ",") + ")"
	case *ast.Ellipsis:
		return "..." + typeString(t.Elt)
	case *ast.MapType:
		return "map[" + typeString(t.Key) + "]" + typeString(t.Value)
	}
	return fmt.Sprintf("%T", e)
}

func lockKind(e ast.Expr) string {
	s := typeString(e)
	switch s {
	case "sync.Mutex", "*sync.Mutex", "sync.RWMutex", "*sync.RWMutex":
		return "mutex"
	case "*sync.Cond", "sync.Cond":
		return "cond"
	}
	return ""
}

// refKind: a field of this declared type holds a reference: what it refers to
// (the bucket array behind a slice header, the node behind a pointer) is other
// memory than the field itself.  Named types count as values (conservative:
// an access below such a field is an access of the field).
func refKind(e ast.Expr) bool {
	switch t := e.(type) {
	case *ast.StarExpr, *ast.MapType, *ast.ChanType, *ast.FuncType, *ast.InterfaceType:
		return true
	case *ast.ArrayType:
		return t.Len == nil
	}
	return false
}

// Extract parses the three packages under repo and builds the table.
func Extract(repo string) (*Table, error) {
	tab := &Table{Types: map[string]*TypeInfo{}}
	fset := token.NewFileSet()
	type fdecl struct {
		pkg, file string
		d         *ast.FuncDecl
	}
	var funcs []fdecl
	fieldType := map[string]map[string]string{} // type -> field -> named type
	for _, pkg := range []string{"hmap", "list", "queue"} {
		dir := filepath.Join(repo, "util", pkg)
		ents, err := os.ReadDir(dir)
		if err != nil {
			return nil, err
		}
		for _, en := range ents {
			name := en.Name()
			if !strings.HasSuffix(name, ".go") || strings.HasSuffix(name, "_test.go") {
				continue
			}
			f, err := parser.ParseFile(fset, filepath.Join(dir, name), nil, 0)
			if err != nil {
				return nil, err
			}
			for _, d := range f.Decls {
				switch x := d.(type) {
				case *ast.GenDecl:
					for _, sp := range x.Specs {
						ts, ok := sp.(*ast.TypeSpec)
						if !ok {
							continue
						}
						st, ok := ts.Type.(*ast.StructType)
						if !ok {
							continue
						}
						ti := &TypeInfo{Pkg: pkg, File: "util/" + pkg + "/" + name, Methods: map[string]*Method{}, Sub: [][]string{}, Fields: []string{}, ref: map[string]bool{}}
						ft := map[string]string{}
						for _, fl := range st.Fields.List {
							for _, fn := range fl.Names {
								if k := lockKind(fl.Type); k != "" && ti.Lock == "" {
									ti.Lock, ti.Kind = fn.Name, k
									continue
								}
								ti.Fields = append(ti.Fields, fn.Name)
								ti.ref[fn.Name] = refKind(fl.Type)
								switch fl.Type.(type) {
								case *ast.StarExpr, *ast.SelectorExpr, *ast.Ident:
									ft[fn.Name] = typeName(fl.Type)
								}
							}
						}
						if ti.Lock != "" && anchored(pkg, name) {
							if _, dup := tab.Types[ts.Name.Name]; dup {
								return nil, fmt.Errorf("two lock-carrying types named %s", ts.Name.Name)
							}
							tab.Types[ts.Name.Name] = ti
							fieldType[ts.Name.Name] = ft
						}
					}
				case *ast.FuncDecl:
					if x.Recv != nil && x.Body != nil {
						funcs = append(funcs, fdecl{pkg, name, x})
					}
				}
			}
		}
	}
	// sub-objects: fields whose type is another table type
	for tn, ti := range tab.Types {
		var fs []string
		for f := range fieldType[tn] {
			fs = append(fs, f)
		}
		sort.Strings(fs)
		for _, f := range fs {
			if _, ok := tab.Types[fieldType[tn][f]]; ok {
				ti.Sub = append(ti.Sub, []string{f, fieldType[tn][f]})
			}
		}
	}
	// method names per type first (a call this.X() is a method call only if X is a method)
	meths := map[string]map[string]bool{}
	for _, fd := range funcs {
		tn := typeName(fd.d.Recv.List[0].Type)
		if _, ok := tab.Types[tn]; !ok {
			continue
		}
		if meths[tn] == nil {
			meths[tn] = map[string]bool{}
		}
		meths[tn][fd.d.Name.Name] = true
	}
	for _, fd := range funcs {
		tn := typeName(fd.d.Recv.List[0].Type)
		ti, ok := tab.Types[tn]
		if !ok {
			continue
		}
		recv := ""
		if len(fd.d.Recv.List[0].Names) > 0 {
			recv = fd.d.Recv.List[0].Names[0].Name
		}
		w := &walker{ti: ti, recv: recv, meths: meths[tn], sub: map[string]string{}}
		for _, s := range ti.Sub {
			w.sub[s[0]] = s[1]
		}
		w.block(fd.d.Body)
		for i := len(w.deferred) - 1; i >= 0; i-- {
			w.deferred[i]()
		}
		m := &Method{Pub: ast.IsExported(fd.d.Name.Name), Steps: w.steps, Params: []string{},
			Pos: fmt.Sprintf("%s:%d", ti.File, fset.Position(fd.d.Pos()).Line)}
		if m.Steps == nil {
			m.Steps = []Step{}
		}
		for _, p := range fd.d.Type.Params.List {
			n := len(p.Names)
			if n == 0 {
				n = 1
			}
			for i := 0; i < n; i++ {
				m.Params = append(m.Params, typeString(p.Type))
			}
		}
		ti.Methods[fd.d.Name.Name] = m
	}
	for _, ti := range tab.Types {
		ti.Pubs = []string{}
		for n, m := range ti.Methods {
			if m.Pub {
				ti.Pubs = append(ti.Pubs, n)
			}
		}
		sort.Strings(ti.Pubs)
	}
	return tab, nil
}

type walker struct {
	ti       *TypeInfo
	recv     string
	meths    map[string]bool
	sub      map[string]string
	steps    []Step
	deferred []func()
}

func (w *walker) emit(s Step) {
	if s.R == nil {
		s.R = []string{}
	}
	if s.W == nil {
		s.W = []string{}
	}
	w.steps = append(w.steps, s)
}

func addSorted(xs []string, x string) []string {
	for _, y := range xs {
		if y == x {
			return xs
		}
	}
	xs = append(xs, x)
	sort.Strings(xs)
	return xs
}

// acc records one access; it is merged into the access step it directly follows
func (w *walker) acc(f string, write bool) {
	if n := len(w.steps); n == 0 || w.steps[n-1].K != "acc" {
		w.emit(Step{K: "acc"})
	}
	s := &w.steps[len(w.steps)-1]
	if write {
		s.W = addSorted(s.W, f)
	} else {
		s.R = addSorted(s.R, f)
	}
}

func (w *walker) isRecv(e ast.Expr) bool {
	id, ok := e.(*ast.Ident)
	return ok && w.recv != "" && id.Name == w.recv
}

// rootField: e is recv.f, recv.f.x.y, recv.f[i], recv.f[i].x ... -> f; deep says
// that e is something below the field (an element, a field of the node), not
// the field itself
func (w *walker) rootField(e ast.Expr) (f string, deep bool, ok bool) {
	for {
		switch t := e.(type) {
		case *ast.SelectorExpr:
			if w.isRecv(t.X) {
				return t.Sel.Name, deep, true
			}
			e = t.X
		case *ast.IndexExpr:
			e = t.X
		case *ast.StarExpr:
			e = t.X
		case *ast.ParenExpr:
			e = t.X
			continue
		case *ast.SliceExpr:
			e = t.X
		default:
			return "", false, false
		}
		deep = true
	}
}

// touch records an access of field f (deep: of what f refers to).  For a
// reference field the two are different memory: reading len(recv.table) and
// writing recv.table[i] do not conflict, replacing recv.table conflicts with
// both.  "f*" stands for everything reachable from f.
func (w *walker) touch(f string, deep, write bool) {
	if f == w.ti.Lock {
		return
	}
	if deep && w.ti.ref[f] {
		w.acc(f, false)
		w.acc(f+"*", write)
		return
	}
	w.acc(f, write)
}

// inner walks the index / slice-bound expressions inside a chain rooted at the receiver
func (w *walker) inner(e ast.Expr) {
	for {
		switch t := e.(type) {
		case *ast.SelectorExpr:
			e = t.X
		case *ast.IndexExpr:
			w.expr(t.Index)
			e = t.X
		case *ast.StarExpr:
			e = t.X
		case *ast.ParenExpr:
			e = t.X
		case *ast.SliceExpr:
			w.expr(t.Low)
			w.expr(t.High)
			w.expr(t.Max)
			e = t.X
		default:
			return
		}
	}
}

// lockCall recognises recv.lock.M() and recv.lock.L.M()
func (w *walker) lockCall(c *ast.CallExpr) string {
	sel, ok := c.Fun.(*ast.SelectorExpr)
	if !ok {
		return ""
	}
	x := sel.X
	if s2, ok := x.(*ast.SelectorExpr); ok && s2.Sel.Name == "L" {
		x = s2.X
	}
	s3, ok := x.(*ast.SelectorExpr)
	if !ok || !w.isRecv(s3.X) || s3.Sel.Name != w.ti.Lock {
		return ""
	}
	return sel.Sel.Name
}

func (w *walker) block(b *ast.BlockStmt) {
	if b == nil {
		return
	}
	for _, s := range b.List {
		w.stmt(s)
	}
}

func (w *walker) stmt(s ast.Stmt) {
	switch t := s.(type) {
	case nil:
	case *ast.BlockStmt:
		w.block(t)
	case *ast.ExprStmt:
		w.expr(t.X)
	case *ast.DeferStmt:
		c := t.Call
		for _, a := range c.Args { // arguments are evaluated now
			w.expr(a)
		}
		w.deferred = append(w.deferred, func() { w.call(c, false) })
	case *ast.GoStmt:
		w.call(t.Call, true)
	case *ast.AssignStmt:
		for _, r := range t.Rhs {
			w.expr(r)
		}
		for _, l := range t.Lhs {
			w.lhs(l, t.Tok != token.ASSIGN && t.Tok != token.DEFINE)
		}
	case *ast.IncDecStmt:
		w.lhs(t.X, true)
	case *ast.ReturnStmt:
		for _, r := range t.Results {
			w.expr(r)
		}
	case *ast.IfStmt:
		w.stmt(t.Init)
		w.expr(t.Cond)
		w.block(t.Body)
		w.stmt(t.Else)
	case *ast.ForStmt:
		w.stmt(t.Init)
		w.expr(t.Cond)
		w.block(t.Body)
		w.stmt(t.Post)
	case *ast.RangeStmt:
		if f, _, ok := w.rootField(t.X); ok && !w.meths[f] { // ranging over a field reads what it holds
			w.inner(t.X)
			w.touch(f, true, false)
		} else {
			w.expr(t.X)
		}
		if t.Tok == token.ASSIGN {
			if t.Key != nil {
				w.lhs(t.Key, false)
			}
			if t.Value != nil {
				w.lhs(t.Value, false)
			}
		}
		w.block(t.Body)
	case *ast.SwitchStmt:
		w.stmt(t.Init)
		w.expr(t.Tag)
		w.block(t.Body)
	case *ast.TypeSwitchStmt:
		w.stmt(t.Init)
		w.stmt(t.Assign)
		w.block(t.Body)
	case *ast.CaseClause:
		for _, e := range t.List {
			w.expr(e)
		}
		for _, b := range t.Body {
			w.stmt(b)
		}
	case *ast.SelectStmt:
		w.block(t.Body)
	case *ast.CommClause:
		w.stmt(t.Comm)
		for _, b := range t.Body {
			w.stmt(b)
		}
	case *ast.SendStmt:
		w.expr(t.Chan)
		w.expr(t.Value)
	case *ast.LabeledStmt:
		w.stmt(t.Stmt)
	case *ast.DeclStmt:
		if gd, ok := t.Decl.(*ast.GenDecl); ok {
			for _, sp := range gd.Specs {
				if vs, ok := sp.(*ast.ValueSpec); ok {
					for _, v := range vs.Values {
						w.expr(v)
					}
				}
			}
		}
	}
}

// lhs: an assignment target; also reads the target when rw (+=, ++)
func (w *walker) lhs(e ast.Expr, rw bool) {
	if f, deep, ok := w.rootField(e); ok {
		w.inner(e) // index expressions and the like inside the target are reads
		if rw {
			w.touch(f, deep, false)
		}
		w.touch(f, deep, true)
		return
	}
	// a target that is not rooted at the receiver: only its sub-expressions matter
	switch t := e.(type) {
	case *ast.SelectorExpr:
		w.expr(t.X)
	case *ast.IndexExpr:
		w.expr(t.Index)
		w.expr(t.X)
	case *ast.StarExpr:
		w.expr(t.X)
	}
}

func (w *walker) call(c *ast.CallExpr, argsToo bool) {
	if argsToo {
		for _, a := range c.Args {
			w.expr(a)
		}
	}
	if lm := w.lockCall(c); lm != "" {
		switch lm {
		case "Lock", "RLock":
			w.emit(Step{K: "acq"})
		case "Unlock", "RUnlock":
			w.emit(Step{K: "rel"})
		case "Wait": // gives the lock up while waiting and takes it again: ONE operation by design
			w.emit(Step{K: "rel", A: "wait"})
			w.emit(Step{K: "acq", A: "wait"})
		}
		return
	}
	if sel, ok := c.Fun.(*ast.SelectorExpr); ok {
		if w.isRecv(sel.X) {
			if w.meths[sel.Sel.Name] {
				w.emit(Step{K: "call", B: sel.Sel.Name})
			} else { // a func-typed field
				w.acc(sel.Sel.Name, false)
			}
			return
		}
		if s2, ok := sel.X.(*ast.SelectorExpr); ok && w.isRecv(s2.X) {
			if _, isSub := w.sub[s2.Sel.Name]; isSub {
				w.acc(s2.Sel.Name, false)
				w.emit(Step{K: "call", A: s2.Sel.Name, B: sel.Sel.Name})
				return
			}
		}
		w.expr(sel.X)
		return
	}
	w.expr(c.Fun)
}

func (w *walker) expr(e ast.Expr) {
	switch t := e.(type) {
	case nil:
	case *ast.CallExpr:
		w.call(t, true)
	case *ast.SelectorExpr:
		if w.isRecv(t.X) {
			if t.Sel.Name != w.ti.Lock && !w.meths[t.Sel.Name] {
				w.acc(t.Sel.Name, false)
			}
			return
		}
		if w.chain(e) {
			return
		}
		w.expr(t.X)
	case *ast.IndexExpr:
		if w.chain(e) {
			return
		}
		w.expr(t.X)
		w.expr(t.Index)
	case *ast.SliceExpr:
		if w.chain(e) {
			return
		}
		w.expr(t.X)
		w.expr(t.Low)
		w.expr(t.High)
		w.expr(t.Max)
	case *ast.StarExpr:
		if w.chain(e) {
			return
		}
		w.expr(t.X)
	case *ast.UnaryExpr:
		w.expr(t.X)
	case *ast.BinaryExpr:
		w.expr(t.X)
		w.expr(t.Y)
	case *ast.ParenExpr:
		w.expr(t.X)
	case *ast.TypeAssertExpr:
		w.expr(t.X)
	case *ast.KeyValueExpr:
		w.expr(t.Value)
	case *ast.CompositeLit:
		for _, el := range t.Elts {
			w.expr(el)
		}
	case *ast.FuncLit:
		w.block(t.Body)
	}
}

// chain: e is an expression below a receiver field (recv.f.x, recv.f[i] ...): a read of it
func (w *walker) chain(e ast.Expr) bool {
	f, deep, ok := w.rootField(e)
	if !ok || w.meths[f] {
		return false
	}
	w.inner(e)
	w.touch(f, deep, false)
	return true
}

// WriteTable writes the table as one JSON object (the TLC constant) to path.
func WriteTable(tab *Table, path string) error {
	b, err := json.Marshal(tab)
	if err != nil {
		return err
	}
	return os.WriteFile(path, append(b, '\n'), 0o644)
}
