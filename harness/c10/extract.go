package c10

// The lock table: a go/ast pass over golib's util/hmap, util/list, util/queue
// (standard library only, no type checker) that turns every method of every
// lock-carrying collection type into a straight-line list of steps
//
//	exit                 a return statement the walk reaches with the receiver's lock
//	                     taken by an explicit Lock, not yet given back and no Unlock
//	                     deferred (the one path-sensitive part of the pass: the count
//	                     of explicit Lock / Unlock calls is followed through branches,
//	                     the smaller count kept where paths join): the method may end
//	                     at this step
//	acq / rel            the method takes / releases the instance lock
//	                     (Lock + deferred Unlock; Cond.Wait = rel, acq, both
//	                     marked a = "wait")
//	call  a b            it calls method b of the same receiver (a = "") or of
//	                     the sub-object held in field a (a lock-carrying type)
//	cb    b              it runs caller code: calls the func-typed field b of the
//	                     receiver (a handler) or its func-typed parameter b
//	                     (a comparator), or hands that parameter to a function
//	                     outside the type (sort.Sort(...{compare: c})), a = "escapes"
//	acc   r w            it reads the receiver fields r and writes the fields w;
//	                     for a field holding a reference (slice, pointer, map)
//	                     "f" is the field itself and "f*" what it refers to
//
// in source order (arguments before the call, right-hand sides before the
// assignment, deferred calls at the end in LIFO order; branches and loops are
// flattened: every statement is taken once).  The table is re-derived from the
// working tree on every run and handed to TLC as a JSON constant
// (spec/LockDiscipline.tla); its two code-visible consequences -- which calls
// block while the instance lock is held elsewhere, which calls never return --
// are bound to behaviour by the footprint and watchdog generators.

import (
	"encoding/json"
	"fmt"
	"go/ast"
	"go/parser"
	"go/token"
	"os"
	"path/filepath"
	"sort"
	"strings"
)

// Step is one step of a method body.  Consecutive accesses (nothing but
// accesses between them) are one step carrying the sets of fields read and
// written: their order and multiplicity do not matter to a lock discipline.
type Step struct {
	K string   `json:"k"` // acq | rel | call | acc | cb
	A string   `json:"a"` // call: sub-object field ("" = the object itself); acq / rel: "" exclusive, "shared" (RLock / RUnlock), "wait" inside Cond.Wait
	B string   `json:"b"` // call: method name
	O string   `json:"o"` // the instance the step is about: "" the receiver, else the PEER instance bound to the parameter of this name
	R []string `json:"r"` // acc: fields read (sorted)
	W []string `json:"w"` // acc: fields written (sorted)
}

// Method is one method of a lock-carrying type.
type Method struct {
	Pub    bool     `json:"pub"`
	Steps  []Step   `json:"steps"`
	Params []string `json:"params"` // parameter types as written (information)
	Peers  [][]string `json:"peers"` // [parameter, type]: parameters that hold an instance of a table type (PutAll(other *T))
	Pos    string   `json:"pos"`
}

// TypeInfo is one lock-carrying collection type.
type TypeInfo struct {
	Pkg     string             `json:"pkg"`
	File    string             `json:"file"`
	Lock    string             `json:"lock"`     // name of the lock field
	Kind    string             `json:"lockkind"` // mutex | rwmutex | cond | locker (a field of another type used as a lock) | none
	Fields  []string           `json:"fields"`
	Sub     [][]string         `json:"sub"` // [field, type] for fields holding another table type
	Methods map[string]*Method `json:"methods"`
	Pubs    []string           `json:"pubs"` // the public methods, sorted (gives pairs an order)
	ref     map[string]bool    // fields that hold a reference (pointer, slice, map, func, chan, interface)
	ptr     map[string]bool    // ... a pointer (what it refers to is a node)
	name    string
}

// Table is the whole extraction.
type Table struct {
	Types   map[string]*TypeInfo `json:"types"`
	Skipped []string             `json:"skipped"` // lock-carrying struct types of the anchored files that are not collections of the property (helpers)
}

// anchored says whether a source file belongs to the property's anchors.
func anchored(pkg, file string) bool {
	switch pkg {
	case "hmap":
		return true
	case "list":
		return file == "LinkedList.go"
	case "queue":
		return file == "RequestQueue.go" || file == "RequestDoubleQueue.go"
	}
	return false
}

func typeName(e ast.Expr) string {
	switch t := e.(type) {
	case *ast.StarExpr:
		return typeName(t.X)
	case *ast.SelectorExpr:
		return t.Sel.Name
	case *ast.Ident:
		return t.Name
	}
	return ""
}

func typeString(e ast.Expr) string {
	switch t := e.(type) {
	case *ast.StarExpr:
		return "*" + typeString(t.X)
	case *ast.SelectorExpr:
		return typeString(t.X) + "." + t.Sel.Name
	case *ast.Ident:
		return t.Name
	case *ast.ArrayType:
		return "[]" + typeString(t.Elt)
	case *ast.InterfaceType:
		return "interface{}"
	case *ast.FuncType:
		var ps []string
		if t.Params != nil {
			for _, f := range t.Params.List {
				n := len(f.Names)
				if n == 0 {
					n = 1
				}
				for i := 0; i < n; i++ {
					ps = append(ps, typeString(f.Type))
				}
			}
		}
		return "func(" + strings.Join(ps, ",") + ")"
	case *ast.Ellipsis:
		return "..." + typeString(t.Elt)
	case *ast.MapType:
		return "map[" + typeString(t.Key) + "]" + typeString(t.Value)
	}
	return fmt.Sprintf("%T", e)
}

func lockKind(e ast.Expr) string {
	s := typeString(e)
	switch s {
	case "sync.Mutex", "*sync.Mutex":
		return "mutex"
	case "sync.RWMutex", "*sync.RWMutex":
		return "rwmutex"
	case "*sync.Cond", "sync.Cond":
		return "cond"
	}
	return ""
}

// refKind: a field of this declared type holds a reference: what it refers to
// (the bucket array behind a slice header, the node behind a pointer) is other
// memory than the field itself.  Named types count as values (conservative:
// an access below such a field is an access of the field).
func refKind(e ast.Expr) bool {
	switch t := e.(type) {
	case *ast.StarExpr, *ast.MapType, *ast.ChanType, *ast.FuncType, *ast.InterfaceType:
		return true
	case *ast.ArrayType:
		return t.Len == nil
	}
	return false
}

// Extract parses the three packages under repo and builds the table: every
// anchored struct type that carries a lock field of a known kind, and every
// type named in must (the collection types of the property) whatever it
// carries -- a collection whose lock is of a kind this pass does not know, or
// that has none, stays in the model as a type that takes no lock (every one of
// its accesses is then unprotected, which TLC reports and the race-detector
// build has to confirm or refute).
func Extract(repo string, must ...string) (*Table, error) {
	need := map[string]bool{}
	for _, n := range must {
		need[n] = true
	}
	structs := map[string]bool{} // every struct type of the three packages (node types among them)
	tab := &Table{Types: map[string]*TypeInfo{}, Skipped: []string{}}
	fset := token.NewFileSet()
	type fdecl struct {
		pkg, file string
		d         *ast.FuncDecl
	}
	var funcs []fdecl
	fieldType := map[string]map[string]string{} // type -> field -> named type
	for _, pkg := range []string{"hmap", "list", "queue"} {
		dir := filepath.Join(repo, "util", pkg)
		ents, err := os.ReadDir(dir)
		if err != nil {
			return nil, err
		}
		for _, en := range ents {
			name := en.Name()
			if !strings.HasSuffix(name, ".go") || strings.HasSuffix(name, "_test.go") {
				continue
			}
			f, err := parser.ParseFile(fset, filepath.Join(dir, name), nil, 0)
			if err != nil {
				return nil, err
			}
			for _, d := range f.Decls {
				switch x := d.(type) {
				case *ast.GenDecl:
					for _, sp := range x.Specs {
						ts, ok := sp.(*ast.TypeSpec)
						if !ok {
							continue
						}
						st, ok := ts.Type.(*ast.StructType)
						if !ok {
							continue
						}
						structs[ts.Name.Name] = true
						ti := &TypeInfo{Pkg: pkg, File: "util/" + pkg + "/" + name, Methods: map[string]*Method{}, Sub: [][]string{}, Fields: []string{}, ref: map[string]bool{}, ptr: map[string]bool{}, name: ts.Name.Name}
						ft := map[string]string{}
						for _, fl := range st.Fields.List {
							for _, fn := range fl.Names {
								if k := lockKind(fl.Type); k != "" && ti.Lock == "" {
									ti.Lock, ti.Kind = fn.Name, k
									continue
								}
								ti.Fields = append(ti.Fields, fn.Name)
								ti.ref[fn.Name] = refKind(fl.Type)
								_, ti.ptr[fn.Name] = fl.Type.(*ast.StarExpr)
								switch fl.Type.(type) {
								case *ast.StarExpr, *ast.SelectorExpr, *ast.Ident:
									ft[fn.Name] = typeName(fl.Type)
								}
							}
						}
						if ti.Lock == "" {
							ti.Kind = "none"
						}
						if ti.Lock != "" && len(need) > 0 && !need[ts.Name.Name] && anchored(pkg, name) {
							tab.Skipped = append(tab.Skipped, ts.Name.Name)
							continue
						}
						if (ti.Lock != "" || need[ts.Name.Name]) && anchored(pkg, name) {
							if _, dup := tab.Types[ts.Name.Name]; dup {
								return nil, fmt.Errorf("two lock-carrying types named %s", ts.Name.Name)
							}
							tab.Types[ts.Name.Name] = ti
							fieldType[ts.Name.Name] = ft
						}
					}
				case *ast.FuncDecl:
					if x.Recv != nil && x.Body != nil {
						funcs = append(funcs, fdecl{pkg, name, x})
					}
				}
			}
		}
	}
	// a collection of the property whose lock is of no kind known by type: the field its methods call
	// Lock / Unlock / RLock / RUnlock on is taken for its lock (kind "locker": a lock by its use; it
	// cannot be held or read from outside, so the footprint of such a type is taken with nothing held)
	for _, fd := range funcs {
		ti := tab.Types[typeName(fd.d.Recv.List[0].Type)]
		if ti == nil || ti.Lock != "" || len(fd.d.Recv.List[0].Names) == 0 {
			continue
		}
		recv := fd.d.Recv.List[0].Names[0].Name
		ast.Inspect(fd.d.Body, func(n ast.Node) bool {
			call, ok := n.(*ast.CallExpr)
			if !ok || ti.Lock != "" {
				return ti.Lock == ""
			}
			sel, ok := call.Fun.(*ast.SelectorExpr)
			if !ok {
				return true
			}
			switch sel.Sel.Name {
			case "Lock", "Unlock", "RLock", "RUnlock":
			default:
				return true
			}
			if f, ok := sel.X.(*ast.SelectorExpr); ok {
				if id, ok := f.X.(*ast.Ident); ok && id.Name == recv {
					for i, name := range ti.Fields {
						if name == f.Sel.Name {
							ti.Lock, ti.Kind = name, "locker"
							ti.Fields = append(ti.Fields[:i:i], ti.Fields[i+1:]...)
							delete(fieldType[ti.name], name)
							break
						}
					}
				}
			}
			return true
		})
	}
	// sub-objects: fields whose type is another table type
	for tn, ti := range tab.Types {
		var fs []string
		for f := range fieldType[tn] {
			fs = append(fs, f)
		}
		sort.Strings(fs)
		for _, f := range fs {
			if _, ok := tab.Types[fieldType[tn][f]]; ok {
				ti.Sub = append(ti.Sub, []string{f, fieldType[tn][f]})
			}
		}
	}
	// method names per type first (a call this.X() is a method call only if X is a method)
	meths := map[string]map[string]bool{}
	for _, fd := range funcs {
		tn := typeName(fd.d.Recv.List[0].Type)
		if _, ok := tab.Types[tn]; !ok {
			continue
		}
		if meths[tn] == nil {
			meths[tn] = map[string]bool{}
		}
		meths[tn][fd.d.Name.Name] = true
	}
	for _, fd := range funcs {
		tn := typeName(fd.d.Recv.List[0].Type)
		ti, ok := tab.Types[tn]
		if !ok {
			continue
		}
		recv := ""
		if len(fd.d.Recv.List[0].Names) > 0 {
			recv = fd.d.Recv.List[0].Names[0].Name
		}
		w := &walker{tab: tab, ti: ti, recv: recv, meths: meths, sub: map[string]string{}, locals: map[string]lkind{}, peers: map[string]string{}, cbs: map[string]bool{}}
		for _, s := range ti.Sub {
			w.sub[s[0]] = s[1]
		}
		peers := [][]string{}
		for _, p := range fd.d.Type.Params.List {
			if _, isFunc := p.Type.(*ast.FuncType); isFunc {
				for _, pn := range p.Names {
					w.cbs[pn.Name] = true
				}
			}
			pt := typeName(p.Type)
			_, isPtr := p.Type.(*ast.StarExpr)
			_, isId := p.Type.(*ast.Ident)
			if _, qualified := p.Type.(*ast.SelectorExpr); qualified {
				continue
			}
			if st, ok := p.Type.(*ast.StarExpr); ok {
				if _, qualified := st.X.(*ast.SelectorExpr); qualified {
					continue
				}
			}
			for _, pn := range p.Names {
				switch {
				case (isPtr || isId) && tab.Types[pt] != nil: // another instance of a collection type
					w.locals[pn.Name] = lkind{peer: true, obj: pn.Name}
					w.peers[pn.Name] = pt
					peers = append(peers, []string{pn.Name, pt})
				case isPtr && structs[pt]: // a node of the instance (an entry, a list node)
					w.locals[pn.Name] = lkind{node: true}
				}
			}
		}
		w.taint(fd.d.Body)
		w.block(fd.d.Body)
		w.atEnd = true
		for i := len(w.deferred) - 1; i >= 0; i-- {
			w.deferred[i]()
		}
		m := &Method{Pub: ast.IsExported(fd.d.Name.Name), Steps: w.steps, Params: []string{}, Peers: peers,
			Pos: fmt.Sprintf("%s:%d", ti.File, fset.Position(fd.d.Pos()).Line)}
		if m.Steps == nil {
			m.Steps = []Step{}
		}
		for _, p := range fd.d.Type.Params.List {
			n := len(p.Names)
			if n == 0 {
				n = 1
			}
			for i := 0; i < n; i++ {
				m.Params = append(m.Params, typeString(p.Type))
			}
		}
		ti.Methods[fd.d.Name.Name] = m
	}
	for _, ti := range tab.Types {
		ti.Pubs = []string{}
		for n, m := range ti.Methods {
			if m.Pub {
				ti.Pubs = append(ti.Pubs, n)
			}
		}
		sort.Strings(ti.Pubs)
	}
	return tab, nil
}

// lkind: what a local variable or parameter of a method is known to hold
// (flow-insensitive: whatever ANY assignment in the body gives it)
//
//	alias f   a copy of the reference field f (tab := recv.table): what lies
//	          below it is what lies below recv.f
//	node      a pointer into the instance's memory (e := tab[i]; e = e.next;
//	          a parameter of a node type; what a same-receiver helper returned)
//	peer      another instance of a table type (a parameter other *T, or a
//	          copy of it); obj names that parameter
//
// obj != "": the memory belongs to the instance bound to parameter obj
type lkind struct {
	alias string
	node  bool
	peer  bool
	obj   string
}

func (k lkind) known() bool { return k.alias != "" || k.node || k.peer }

type walker struct {
	tab      *Table
	ti       *TypeInfo
	recv     string
	meths    map[string]map[string]bool // type -> method names
	sub      map[string]string
	locals   map[string]lkind
	peers    map[string]string // peer parameter -> its table type
	cbs      map[string]bool   // func-typed parameters: caller code
	steps    []Step
	deferred []func()
	// path-sensitive bookkeeping of the receiver's own lock (see stmt / ReturnStmt): how often the
	// path walked so far has taken it and not given it back by an explicit Unlock, and how many
	// Unlocks have been deferred.  Branches are walked from the state at their head; where paths
	// join, the smaller count is kept (never predicts a leak that only one of the joined paths has).
	heldX  int
	defRel int
	atEnd  bool // the deferred calls are being replayed at the end of the body
}

func (w *walker) emit(s Step) {
	if s.R == nil {
		s.R = []string{}
	}
	if s.W == nil {
		s.W = []string{}
	}
	w.steps = append(w.steps, s)
}

func addSorted(xs []string, x string) []string {
	for _, y := range xs {
		if y == x {
			return xs
		}
	}
	xs = append(xs, x)
	sort.Strings(xs)
	return xs
}

// acc records one access of location loc of the instance obj ("" = the
// receiver); it is merged into the access step it directly follows (same obj)
func (w *walker) acc(obj, loc string, write bool) {
	if n := len(w.steps); n == 0 || w.steps[n-1].K != "acc" || w.steps[n-1].O != obj {
		w.emit(Step{K: "acc", O: obj})
	}
	s := &w.steps[len(w.steps)-1]
	if write {
		s.W = addSorted(s.W, loc)
	} else {
		s.R = addSorted(s.R, loc)
	}
}

func (w *walker) isRecv(e ast.Expr) bool {
	id, ok := e.(*ast.Ident)
	return ok && w.recv != "" && id.Name == w.recv
}

// typeOf: the table type of the instance obj
func (w *walker) typeOf(obj string) *TypeInfo {
	if obj == "" {
		return w.ti
	}
	return w.tab.Types[w.peers[obj]]
}

func (w *walker) methsOf(obj string) map[string]bool {
	if obj == "" {
		return w.meths[w.ti.name]
	}
	return w.meths[w.peers[obj]]
}

// instance: e is the receiver or a peer (parameter / local copy of it) -> obj
func (w *walker) instance(e ast.Expr) (obj string, ok bool) {
	if p, isP := e.(*ast.ParenExpr); isP {
		return w.instance(p.X)
	}
	if w.isRecv(e) {
		return "", true
	}
	if id, isId := e.(*ast.Ident); isId {
		if k := w.locals[id.Name]; k.peer {
			return k.obj, true
		}
	}
	return "", false
}

// kindOf: what the value of e is known to be (see lkind)
func (w *walker) kindOf(e ast.Expr) lkind {
	switch t := e.(type) {
	case *ast.Ident:
		return w.locals[t.Name]
	case *ast.ParenExpr:
		return w.kindOf(t.X)
	case *ast.TypeAssertExpr:
		return w.kindOf(t.X)
	case *ast.StarExpr:
		if k := w.kindOf(t.X); k.known() && !k.peer {
			return lkind{node: true, obj: k.obj}
		}
	case *ast.UnaryExpr:
		if t.Op == token.AND {
			if k := w.kindOf(t.X); k.known() && !k.peer {
				return lkind{node: true, obj: k.obj}
			}
			if s, ok := t.X.(*ast.SelectorExpr); ok { // &recv.f: points into the instance
				if obj, ok := w.instance(s.X); ok && !w.methsOf(obj)[s.Sel.Name] {
					return lkind{node: true, obj: obj}
				}
			}
		}
	case *ast.SelectorExpr:
		if obj, ok := w.instance(t.X); ok {
			ti := w.typeOf(obj)
			f := t.Sel.Name
			if ti == nil || w.methsOf(obj)[f] || f == ti.Lock {
				return lkind{}
			}
			if ti.ref[f] {
				return lkind{alias: f, obj: obj}
			}
			return lkind{}
		}
		if k := w.kindOf(t.X); k.known() && !k.peer {
			return lkind{node: true, obj: k.obj}
		}
	case *ast.IndexExpr:
		if k := w.kindOf(t.X); k.known() && !k.peer {
			return lkind{node: true, obj: k.obj}
		}
	case *ast.SliceExpr:
		if k := w.kindOf(t.X); k.known() && !k.peer {
			return k
		}
	case *ast.CallExpr: // what a method of the instance returns may point into it
		if s, ok := t.Fun.(*ast.SelectorExpr); ok {
			if obj, ok := w.instance(s.X); ok && w.methsOf(obj)[s.Sel.Name] {
				return lkind{node: true, obj: obj}
			}
		}
	}
	return lkind{}
}

// taint: the flow-insensitive pre-pass that classifies the locals of a body
func (w *walker) taint(body *ast.BlockStmt) {
	set := func(lhs ast.Expr, k lkind) bool {
		id, ok := lhs.(*ast.Ident)
		if !ok || id.Name == "_" || id.Name == w.recv || !k.known() {
			return false
		}
		if old := w.locals[id.Name]; old.known() {
			if old == k || old.node || old.peer { // node absorbs; a peer stays a peer
				return false
			}
			if old.alias != "" && k.alias != "" && old != k { // two different fields: just "instance memory"
				w.locals[id.Name] = lkind{node: true, obj: old.obj}
				return true
			}
			if !k.node {
				return false
			}
		}
		w.locals[id.Name] = k
		return true
	}
	for round := 0; round < 6; round++ {
		changed := false
		ast.Inspect(body, func(n ast.Node) bool {
			switch t := n.(type) {
			case *ast.AssignStmt:
				if len(t.Lhs) == len(t.Rhs) {
					for i := range t.Lhs {
						if set(t.Lhs[i], w.kindOf(t.Rhs[i])) {
							changed = true
						}
					}
				} else if len(t.Rhs) == 1 && len(t.Lhs) > 0 {
					if set(t.Lhs[0], w.kindOf(t.Rhs[0])) {
						changed = true
					}
				}
			case *ast.RangeStmt:
				if k := w.kindOf(t.X); k.known() && !k.peer && t.Value != nil {
					if set(t.Value, lkind{node: true, obj: k.obj}) {
						changed = true
					}
				}
			case *ast.ValueSpec:
				for i, n := range t.Names {
					if i < len(t.Values) && set(n, w.kindOf(t.Values[i])) {
						changed = true
					}
				}
			}
			return true
		})
		if !changed {
			break
		}
	}
}

// path handles an expression that is a chain of selectors / indexes / derefs
// rooted at the receiver, at a peer or at a local known to hold instance
// memory: every prefix is a read, the whole expression a read or (write) a
// write (rw: both).  Locations:
//
//	f      the receiver field f itself (for a field of a value type also
//	       everything inside it)
//	f*     the elements behind the slice / map field f
//	*.n    field n of SOME node of the instance (everything reached through a
//	       pointer: entries, list nodes; one summary location per field name)
//	*[]    an element of some nested slice
//
// Returns false when e is not such a chain (the caller walks its parts).
func (w *walker) path(e ast.Expr, write, rw bool) bool {
	var chain []ast.Expr
	cur := e
	var root *ast.Ident
	for root == nil {
		switch t := cur.(type) {
		case *ast.SelectorExpr:
			chain = append(chain, t)
			cur = t.X
		case *ast.IndexExpr:
			chain = append(chain, t)
			cur = t.X
		case *ast.SliceExpr:
			chain = append(chain, t)
			cur = t.X
		case *ast.StarExpr:
			chain = append(chain, t)
			cur = t.X
		case *ast.ParenExpr:
			cur = t.X
		case *ast.TypeAssertExpr:
			cur = t.X
		case *ast.Ident:
			root = t
		default:
			return false
		}
	}
	const (
		sInst = iota
		sValue
		sSlice
		sNode
	)
	st, obj, fld := -1, "", ""
	after := func(f string) {
		ti := w.typeOf(obj)
		fld = f
		switch {
		case ti == nil || !ti.ref[f]:
			st = sValue
		case ti.ptr[f]:
			st = sNode
		default:
			st = sSlice
		}
	}
	if o, ok := w.instance(root); ok {
		st, obj = sInst, o
	} else if k := w.locals[root.Name]; k.alias != "" {
		obj = k.obj
		after(k.alias)
	} else if k.node {
		st, obj = sNode, k.obj
	} else {
		return false
	}
	if len(chain) == 0 {
		return false
	}
	if st == sInst { // recv.lock..., recv.Method: not memory of the collection
		if s, ok := chain[len(chain)-1].(*ast.SelectorExpr); ok {
			ti := w.typeOf(obj)
			if ti == nil || w.methsOf(obj)[s.Sel.Name] {
				return false
			}
			if ti.Lock != "" && s.Sel.Name == ti.Lock {
				return true
			}
		}
	}
	for i := len(chain) - 1; i >= 0; i-- { // index expressions and slice bounds inside the chain are reads of their own
		switch t := chain[i].(type) {
		case *ast.IndexExpr:
			w.expr(t.Index)
		case *ast.SliceExpr:
			w.expr(t.Low)
			w.expr(t.High)
			w.expr(t.Max)
		}
	}
	for i := len(chain) - 1; i >= 0; i-- {
		loc := ""
		switch st {
		case sInst:
			s, ok := chain[i].(*ast.SelectorExpr)
			if !ok { // *recv
				continue
			}
			loc = s.Sel.Name
			after(loc)
		case sValue:
			loc = fld
		case sSlice:
			loc = fld + "*"
			if _, isSl := chain[i].(*ast.SliceExpr); !isSl {
				st = sNode
			}
		case sNode:
			switch t := chain[i].(type) {
			case *ast.SelectorExpr:
				loc = "*." + t.Sel.Name
			case *ast.IndexExpr, *ast.SliceExpr:
				loc = "*[]"
			}
		}
		if loc == "" {
			continue
		}
		if i == 0 && write {
			if rw {
				w.acc(obj, loc, false)
			}
			w.acc(obj, loc, true)
		} else {
			w.acc(obj, loc, false)
		}
	}
	return true
}

// lockCall recognises x.lock.M() and x.lock.L.M() for x the receiver or a peer
func (w *walker) lockCall(c *ast.CallExpr) (m, obj string) {
	sel, ok := c.Fun.(*ast.SelectorExpr)
	if !ok {
		return "", ""
	}
	x := sel.X
	if s2, ok := x.(*ast.SelectorExpr); ok && s2.Sel.Name == "L" {
		x = s2.X
	}
	s3, ok := x.(*ast.SelectorExpr)
	if !ok {
		return "", ""
	}
	o, isInst := w.instance(s3.X)
	if !isInst {
		return "", ""
	}
	if ti := w.typeOf(o); ti == nil || ti.Lock == "" || s3.Sel.Name != ti.Lock {
		return "", ""
	}
	return sel.Sel.Name, o
}

func (w *walker) block(b *ast.BlockStmt) {
	if b == nil {
		return
	}
	for _, s := range b.List {
		w.stmt(s)
	}
}

func (w *walker) stmt(s ast.Stmt) {
	switch t := s.(type) {
	case nil:
	case *ast.BlockStmt:
		w.block(t)
	case *ast.ExprStmt:
		w.expr(t.X)
	case *ast.DeferStmt:
		c := t.Call
		for _, a := range c.Args { // arguments are evaluated now
			w.expr(a)
		}
		if lm, obj := w.lockCall(c); obj == "" && (lm == "Unlock" || lm == "RUnlock") {
			w.defRel++
		}
		w.deferred = append(w.deferred, func() { w.call(c, false) })
	case *ast.GoStmt:
		w.call(t.Call, true)
	case *ast.AssignStmt:
		for _, r := range t.Rhs {
			w.expr(r)
		}
		for _, l := range t.Lhs {
			w.lhs(l, t.Tok != token.ASSIGN && t.Tok != token.DEFINE)
		}
	case *ast.IncDecStmt:
		w.lhs(t.X, true)
	case *ast.ReturnStmt:
		for _, r := range t.Results {
			w.expr(r)
		}
		// a return reached, along the path walked, with the receiver's lock taken by an explicit Lock,
		// not given back by an explicit Unlock and no Unlock deferred: the method MAY end here (step
		// "exit"; TLC explores both going on and ending, and judges NoLeak).  Emitted only where no
		// release is deferred, so that ending the frame at this step skips nothing that would run.
		if w.heldX > 0 && w.defRel == 0 {
			w.emit(Step{K: "exit"})
		}
	case *ast.IfStmt:
		w.stmt(t.Init)
		w.expr(t.Cond)
		h0 := w.heldX
		w.block(t.Body)
		hb, tb := w.heldX, terminates(t.Body)
		w.heldX = h0
		w.stmt(t.Else)
		he, te := w.heldX, t.Else != nil && terminates(t.Else)
		switch {
		case tb && te: // what follows is reached from neither; keep the head's state
			w.heldX = h0
		case tb:
			w.heldX = he
		case te:
			w.heldX = hb
		default:
			w.heldX = minInt(hb, he)
		}
	case *ast.ForStmt:
		w.stmt(t.Init)
		w.expr(t.Cond)
		h0 := w.heldX
		w.block(t.Body)
		w.stmt(t.Post)
		w.heldX = minInt(h0, w.heldX)
	case *ast.RangeStmt:
		w.expr(t.X)
		if k := w.kindOf(t.X); k.alias != "" { // ranging over a slice / map field reads its elements
			if ti := w.typeOf(k.obj); ti != nil && !ti.ptr[k.alias] {
				w.acc(k.obj, k.alias+"*", false)
			}
		} else if k.node {
			w.acc(k.obj, "*[]", false)
		}
		if t.Tok == token.ASSIGN {
			if t.Key != nil {
				w.lhs(t.Key, false)
			}
			if t.Value != nil {
				w.lhs(t.Value, false)
			}
		}
		h0 := w.heldX
		w.block(t.Body)
		w.heldX = minInt(h0, w.heldX)
	case *ast.SwitchStmt:
		w.stmt(t.Init)
		w.expr(t.Tag)
		w.clauses(t.Body)
	case *ast.TypeSwitchStmt:
		w.stmt(t.Init)
		w.stmt(t.Assign)
		w.clauses(t.Body)
	case *ast.CaseClause:
		for _, e := range t.List {
			w.expr(e)
		}
		for _, b := range t.Body {
			w.stmt(b)
		}
	case *ast.SelectStmt:
		w.clauses(t.Body)
	case *ast.CommClause:
		w.stmt(t.Comm)
		for _, b := range t.Body {
			w.stmt(b)
		}
	case *ast.SendStmt:
		w.expr(t.Chan)
		w.expr(t.Value)
	case *ast.LabeledStmt:
		w.stmt(t.Stmt)
	case *ast.DeclStmt:
		if gd, ok := t.Decl.(*ast.GenDecl); ok {
			for _, sp := range gd.Specs {
				if vs, ok := sp.(*ast.ValueSpec); ok {
					for _, v := range vs.Values {
						w.expr(v)
					}
				}
			}
		}
	}
}

// clauses walks the clauses of a switch / select, each from the state at the head; afterwards the
// smallest count any clause that does not end in a return leaves (or the head's: no clause taken).
func (w *walker) clauses(b *ast.BlockStmt) {
	if b == nil {
		return
	}
	h0 := w.heldX
	out := h0
	for _, cl := range b.List {
		w.heldX = h0
		w.stmt(cl)
		var body []ast.Stmt
		switch c := cl.(type) {
		case *ast.CaseClause:
			body = c.Body
		case *ast.CommClause:
			body = c.Body
		}
		if !terminatesList(body) {
			out = minInt(out, w.heldX)
		}
	}
	w.heldX = out
}

func minInt(a, b int) int {
	if a < b {
		return a
	}
	return b
}

// terminates: control never leaves the statement by falling through (it ends in a return or a
// panic, or in an if / else whose two arms both do)
func terminates(s ast.Stmt) bool {
	switch t := s.(type) {
	case *ast.BlockStmt:
		return t != nil && terminatesList(t.List)
	case *ast.ReturnStmt:
		return true
	case *ast.ExprStmt:
		if c, ok := t.X.(*ast.CallExpr); ok {
			if id, ok := c.Fun.(*ast.Ident); ok && id.Name == "panic" {
				return true
			}
		}
	case *ast.IfStmt:
		return t.Else != nil && terminates(t.Body) && terminates(t.Else)
	}
	return false
}

func terminatesList(l []ast.Stmt) bool { return len(l) > 0 && terminates(l[len(l)-1]) }

// lhs: an assignment target; also reads the target when rw (+=, ++)
func (w *walker) lhs(e ast.Expr, rw bool) {
	if w.path(e, true, rw) {
		return
	}
	// a target that is not instance memory: only its sub-expressions matter
	switch t := e.(type) {
	case *ast.SelectorExpr:
		w.expr(t.X)
	case *ast.IndexExpr:
		w.expr(t.Index)
		w.expr(t.X)
	case *ast.StarExpr:
		w.expr(t.X)
	case *ast.ParenExpr:
		w.lhs(t.X, rw)
	}
}

func (w *walker) call(c *ast.CallExpr, argsToo bool) {
	if argsToo {
		for _, a := range c.Args {
			w.expr(a)
		}
	}
	if lm, obj := w.lockCall(c); lm != "" {
		if obj == "" && !w.atEnd {
			switch lm {
			case "Lock", "RLock":
				w.heldX++
			case "Unlock", "RUnlock":
				w.heldX--
			}
		}
		switch lm {
		case "Lock":
			w.emit(Step{K: "acq", O: obj})
		case "Unlock":
			w.emit(Step{K: "rel", O: obj})
		case "RLock": // shared: other holders in shared mode are not excluded
			w.emit(Step{K: "acq", A: "shared", O: obj})
		case "RUnlock":
			w.emit(Step{K: "rel", A: "shared", O: obj})
		case "Wait": // gives the lock up while waiting and takes it again: ONE operation by design
			w.emit(Step{K: "rel", A: "wait", O: obj})
			w.emit(Step{K: "acq", A: "wait", O: obj})
		}
		return
	}
	if sel, ok := c.Fun.(*ast.SelectorExpr); ok {
		if obj, isInst := w.instance(sel.X); isInst {
			if w.methsOf(obj)[sel.Sel.Name] {
				w.emit(Step{K: "call", B: sel.Sel.Name, O: obj})
			} else if ti := w.typeOf(obj); ti != nil && sel.Sel.Name != ti.Lock { // a func-typed field: caller code runs here
				w.acc(obj, sel.Sel.Name, false)
				w.emit(Step{K: "cb", B: sel.Sel.Name, O: obj})
			}
			return
		}
		// a method of a sub-object (a field holding another table type), named directly or through a local copy
		if s2, ok := sel.X.(*ast.SelectorExpr); ok && w.isRecv(s2.X) {
			if _, isSub := w.sub[s2.Sel.Name]; isSub {
				w.acc("", s2.Sel.Name, false)
				w.emit(Step{K: "call", A: s2.Sel.Name, B: sel.Sel.Name})
				return
			}
		}
		if k := w.kindOf(sel.X); k.alias != "" && k.obj == "" {
			if _, isSub := w.sub[k.alias]; isSub {
				w.expr(sel.X)
				w.emit(Step{K: "call", A: k.alias, B: sel.Sel.Name})
				return
			}
		}
		w.expr(sel.X)
		if cb := w.mentionsCb(c); cb != "" { // a function outside the type is handed the caller's function: it may run it
			w.emit(Step{K: "cb", A: "escapes", B: cb})
		}
		return
	}
	if id, ok := c.Fun.(*ast.Ident); ok && w.cbs[id.Name] { // the caller's function itself
		w.emit(Step{K: "cb", B: id.Name})
		return
	}
	w.expr(c.Fun)
	if cb := w.mentionsCb(c); cb != "" {
		w.emit(Step{K: "cb", A: "escapes", B: cb})
	}
}

// mentionsCb: a func-typed parameter of the method occurs among the arguments of the call (directly or inside a
// composite literal)
func (w *walker) mentionsCb(c *ast.CallExpr) string {
	found := ""
	for _, a := range c.Args {
		ast.Inspect(a, func(n ast.Node) bool {
			if id, ok := n.(*ast.Ident); ok && w.cbs[id.Name] && found == "" {
				found = id.Name
			}
			return found == ""
		})
	}
	return found
}

func (w *walker) expr(e ast.Expr) {
	switch t := e.(type) {
	case nil:
	case *ast.CallExpr:
		w.call(t, true)
	case *ast.SelectorExpr:
		if w.path(e, false, false) {
			return
		}
		w.expr(t.X)
	case *ast.IndexExpr:
		if w.path(e, false, false) {
			return
		}
		w.expr(t.X)
		w.expr(t.Index)
	case *ast.SliceExpr:
		if w.path(e, false, false) {
			return
		}
		w.expr(t.X)
		w.expr(t.Low)
		w.expr(t.High)
		w.expr(t.Max)
	case *ast.StarExpr:
		if w.path(e, false, false) {
			return
		}
		w.expr(t.X)
	case *ast.UnaryExpr:
		w.expr(t.X)
	case *ast.BinaryExpr:
		w.expr(t.X)
		w.expr(t.Y)
	case *ast.ParenExpr:
		w.expr(t.X)
	case *ast.TypeAssertExpr:
		w.expr(t.X)
	case *ast.KeyValueExpr:
		w.expr(t.Value)
	case *ast.CompositeLit:
		for _, el := range t.Elts {
			w.expr(el)
		}
	case *ast.FuncLit:
		w.block(t.Body)
	}
}

// WriteTable writes the table as one JSON object (the TLC constant) to path.
func WriteTable(tab *Table, path string) error {
	b, err := json.Marshal(tab)
	if err != nil {
		return err
	}
	return os.WriteFile(path, append(b, '\n'), 0o644)
}
