package c10

// Concurrent histories of point operations on one shared instance.
//
// A program is a few calls made by goroutine 0 alone (the prefix) followed by
// 2-4 goroutines x 3-6 calls started together, over the three hot keys of a
// pool whose keys share a hash bucket.  The same program (seed, gen, case) is
// executed in two ways:
//
//	stamped    (plain build, gen "lin")  every call is bracketed by an Inv and a
//	           Ret record appended to ONE mutex-protected log; the Inv record is
//	           completed with the call's projected result.  Trace_Linearize
//	           accepts the history iff TLC finds linearization points.
//	unstamped  (race build, gen "race")  no log, no synchronisation between the
//	           goroutines except the start barrier and the instance's own lock:
//	           whatever the race detector reports is turned into Race events.
//
// The real objects are reached through the adapters of harness/c09 (thirteen
// linked types) and harness/c12 (four plain types); the list and the queue
// have small adapters here.  The harness only records; TLC judges.

import (
	"fmt"
	"math/rand"
	"runtime"
	"sort"
	"sync"
	"sync/atomic"
	"time"

	"github.com/whatap/golib/util/list"
	"github.com/whatap/golib/util/queue"

	"verifharness/c09"
	"verifharness/c12"
	"verifharness/core"
	"verifharness/hmapx"
)

type Ev = core.Ev

// pop is one planned call.
type pop struct {
	Name string
	K, V int
}

// cobj is one real collection behind the point-operation face.
type cobj struct {
	Type   string
	Ctor   string
	Hdr    Ev              // conventions of the type for the Reset event
	Names  []string        // the point operations it offers (event names)
	Call   func(op pop) Ev // performs the call, returns the projected result fields
	SetMax func(n int)     // nil: no bound
	Final  func() Ev       // full content after the history (single-threaded)
	Unique bool            // elements are unique per call (list, queue)
	NK     int             // hot keys 1..NK
	Lin    bool            // judged for linearizability (false: race observation only)
	Pool   []string        // human readable
}

func (o *cobj) has(n string) bool {
	for _, x := range o.Names {
		if x == n {
			return true
		}
	}
	return false
}

type sizer interface{ Size() int }

// the point operations of the hash collections, by event name
var dictPointOps = []string{"Put", "PutFirst", "PutLast", "Add", "AddFirst", "AddLast", "AddNoOver", "AddIfExist", "Unipoint",
	"Get", "GetLRU", "ContainsKey", "Contains", "HasKey", "GetFirstKey", "GetLastKey", "GetFirstValue", "GetLastValue",
	"Remove", "RemoveFirst", "RemoveLast", "Clear", "IsEmpty"}

var mutators = map[string]bool{"Put": true, "PutFirst": true, "PutLast": true, "Add": true, "AddFirst": true, "AddLast": true,
	"AddNoOver": true, "AddIfExist": true, "Unipoint": true, "Remove": true, "RemoveFirst": true, "RemoveLast": true, "Clear": true,
	"GetLRU": true, "LAddFirst": true, "LAddLast": true, "LAdd": true, "QPut": true, "QPutForce": true, "QGetNoWait": true, "QGetTimeout": true,
	"QPut1": true, "QPut2": true, "QPutForce1": true, "QPutForce2": true}
var sizeOps = map[string]bool{"Size": true, "IsEmpty": true, "Size1": true, "Size2": true}

// ctor variants for the types that take (capacity, load factor): a one-bucket
// table re-hashes on nearly every insertion
var linCtors = []c09.Ctor{{Default: true}, {Cap: 1, LF: 0.75}, {Cap: 2, LF: 1}}

// collection sources: each yields, for a random source, a factory of fresh objects
type source struct {
	Type string
	New  func(r *rand.Rand, variant int) func() *cobj
}

func sources() []source {
	var out []source
	for _, td := range c09.Types {
		td := td
		out = append(out, source{td.Name, func(r *rand.Rand, variant int) func() *cobj {
			ct := c09.Ctor{Default: true}
			if td.HasCtor {
				ct = linCtors[variant%len(linCtors)]
			}
			fresh := td.New(r, 3, ct, true)
			return func() *cobj {
				o := fresh()
				co := &cobj{Type: o.Type, Ctor: ct.String(), NK: o.N, Lin: true, Hdr: Ev{"plain": false}}
				for k, v := range o.Hdr {
					co.Hdr[k] = v
				}
				for _, n := range dictPointOps {
					if o.Has(n) {
						co.Names = append(co.Names, n)
					}
				}
				co.Names = append(co.Names, "Size")
				sz := o.Raw.(sizer)
				co.Call = func(op pop) Ev {
					if op.Name == "Size" {
						return Ev{"n": sz.Size()}
					}
					return o.Ops[op.Name](hmapx.Op{Name: op.Name, K: op.K, V: op.V})
				}
				if o.Has("SetMax") {
					co.SetMax = func(n int) { o.Ops["SetMax"](hmapx.Op{Name: "SetMax", V: n}) }
				}
				co.Final = func() Ev { return o.Proj() }
				return co
			}
		}})
	}
	plainNone := map[string][]int{"IntIntMap": {0}, "IntKeyMap": {}, "IntSet": {0}, "StringSet": {}}
	for _, td := range c12.Types {
		td := td
		out = append(out, source{td.Name, func(r *rand.Rand, variant int) func() *cobj {
			ct := c12.Ctor{Default: true}
			if td.HasCtor {
				lc := linCtors[variant%len(linCtors)]
				ct = c12.Ctor{Default: lc.Default, Cap: lc.Cap, LF: lc.LF}
			}
			fresh := td.New(r, 3, ct, true)
			return func() *cobj {
				o := fresh()
				co := &cobj{Type: o.Type, Ctor: ct.String(), NK: o.N, Lin: true, Pool: o.Pool,
					Hdr: Ev{"plain": true, "set": o.Set, "none": plainNone[o.Type], "rej": o.Type == "StringSet", "ek": o.EK}}
				for _, n := range dictPointOps {
					if o.Has(n) {
						co.Names = append(co.Names, n)
					}
				}
				co.Names = append(co.Names, "Size")
				co.Call = func(op pop) Ev {
					if op.Name == "Size" {
						return Ev{"n": o.Size()}
					}
					return o.Ops[op.Name](c12.Op{Name: op.Name, K: op.K, V: op.V})
				}
				co.Final = func() Ev {
					ks, vs := o.Proj()
					return Ev{"bagk": hmapx.NZ(ks), "bagv": hmapx.NZ(vs)}
				}
				return co
			}
		}})
	}
	out = append(out, source{"LinkedList", func(r *rand.Rand, variant int) func() *cobj { return newListObj }})
	out = append(out, source{"RequestQueue", func(r *rand.Rand, variant int) func() *cobj {
		capacity := []int{0, 2, 0, 3}[variant%4]
		return func() *cobj { return newQueueObj(capacity) }
	}})
	out = append(out, source{"RequestDoubleQueue", func(r *rand.Rand, variant int) func() *cobj {
		capacity := []int{0, 2}[variant%2]
		return func() *cobj { return newDoubleQueueObj(capacity) }
	}})
	return out
}

func elemOf(x interface{}) []int {
	switch v := x.(type) {
	case nil:
		return []int{}
	case int:
		return []int{v}
	}
	return []int{-999999}
}

// the list as a deque of unique elements (the set-flavoured LinkedDict: the
// value stored under an element is the element)
func newListObj() *cobj {
	l := list.NewLinkedList()
	co := &cobj{Type: "LinkedList", Ctor: "default", Unique: true, Lin: true,
		Hdr:   Ev{"plain": false, "set": true, "none": []int{}, "rej": false, "ek": 0},
		Names: []string{"LAddFirst", "LAddLast", "LAdd", "RemoveFirst", "RemoveLast", "Clear", "Size", "Touch"}}
	co.Call = func(op pop) Ev {
		switch op.Name {
		case "LAddFirst":
			l.AddFirst(op.K)
		case "LAddLast":
			l.AddLast(op.K)
		case "LAdd":
			return Ev{"b": l.Add(op.K)}
		case "RemoveFirst":
			return Ev{"ret": elemOf(l.RemoveFirst())}
		case "RemoveLast":
			return Ev{"ret": elemOf(l.RemoveLast())}
		case "Clear":
			l.Clear()
		case "Size":
			return Ev{"n": l.Size()}
		case "Touch": // the node handles: only that the calls are safe to make
			_ = l.GetFirst()
			_ = l.GetLast()
		}
		return Ev{}
	}
	co.Final = func() Ev {
		arr := []int{}
		for _, x := range l.ToArray() {
			arr = append(arr, elemOf(x)...)
		}
		return Ev{"keys": arr, "vals": arr}
	}
	return co
}

// the single queue as a bounded deque of unique elements: a refused plain put
// leaves it alone, a forced put evicts from the head (LinkedDict with a bound)
func newQueueObj(capacity int) *cobj {
	q := queue.NewRequestQueue(capacity)
	co := &cobj{Type: "RequestQueue", Ctor: fmt.Sprintf("cap=%d", capacity), Unique: true, Lin: true,
		Hdr:   Ev{"plain": false, "set": true, "none": []int{}, "rej": false, "ek": 0, "max": capacity},
		Names: []string{"QPut", "QPutForce", "QGetNoWait", "QGetTimeout", "Clear", "Size"}}
	co.Call = func(op pop) Ev {
		switch op.Name {
		case "QPut":
			return Ev{"ok": q.Put(op.K)}
		case "QPutForce":
			return Ev{"ok": q.PutForce(op.K)}
		case "QGetNoWait":
			return Ev{"ret": elemOf(q.GetNoWait())}
		case "QGetTimeout":
			return Ev{"ret": elemOf(q.GetTimeout(1))}
		case "Clear":
			q.Clear()
		case "Size":
			return Ev{"n": q.Size()}
		}
		return Ev{}
	}
	co.Final = func() Ev {
		n := q.Size()
		arr := []int{}
		for i := 0; i < 1000; i++ {
			x := q.GetNoWait()
			if x == nil {
				break
			}
			arr = append(arr, elemOf(x)...)
		}
		return Ev{"n": n, "keys": arr, "vals": arr}
	}
	return co
}

// the double queue: its linearizability is judged by C11 (Trace_ReqQueue); here
// it only runs under the race detector
func newDoubleQueueObj(capacity int) *cobj {
	q := queue.NewRequestDoubleQueue(capacity, capacity)
	co := &cobj{Type: "RequestDoubleQueue", Ctor: fmt.Sprintf("cap=%d", capacity), Unique: true, Lin: false,
		Hdr:   Ev{"plain": false, "set": true, "none": []int{}, "rej": false, "ek": 0, "max": capacity},
		Names: []string{"QPut1", "QPut2", "QPutForce1", "QPutForce2", "QGetNoWait", "QGetTimeout", "Clear", "Size", "Size1", "Size2"}}
	co.Call = func(op pop) Ev {
		switch op.Name {
		case "QPut1":
			q.Put1(op.K)
		case "QPut2":
			q.Put2(op.K)
		case "QPutForce1":
			q.PutForce1(op.K)
		case "QPutForce2":
			q.PutForce2(op.K)
		case "QGetNoWait":
			q.GetNoWait()
		case "QGetTimeout":
			q.GetTimeout(1)
		case "Clear":
			q.Clear()
		case "Size":
			q.Size()
		case "Size1":
			q.Size1()
		case "Size2":
			q.Size2()
		}
		return Ev{}
	}
	co.Final = func() Ev { return Ev{"n": q.Size()} }
	return co
}

// ---------------------------------------------------------------- programs

type program struct {
	Max     int
	Prefix  []pop
	Threads [][]pop
}

func (p *program) calls() int {
	n := len(p.Prefix)
	for _, t := range p.Threads {
		n += len(t)
	}
	return n
}

func pickOp(r *rand.Rand, co *cobj) string {
	for {
		n := co.Names[r.Intn(len(co.Names))]
		x := r.Intn(100)
		switch {
		case n == "Clear":
			if x < 12 {
				return n
			}
		case sizeOps[n]:
			if x < 60 {
				return n
			}
		case mutators[n]:
			return n
		default:
			if x < 45 {
				return n
			}
		}
	}
}

func genProgram(r *rand.Rand, co *cobj) *program {
	p := &program{}
	if co.SetMax != nil && r.Intn(3) == 0 {
		p.Max = 1 + r.Intn(2)
	}
	uniq := 0
	mk := func(th int) pop {
		op := pop{Name: pickOp(r, co)}
		if co.Unique {
			uniq++
			op.K = uniq
		} else {
			op.K = 1 + r.Intn(co.NK)
			op.V = 1 + r.Intn(3)
		}
		return op
	}
	for i, n := 0, r.Intn(4); i < n; i++ {
		p.Prefix = append(p.Prefix, mk(0))
	}
	nt := 2 + r.Intn(3)
	for t := 0; t < nt; t++ {
		var ops []pop
		for i, n := 0, 3+r.Intn(4); i < n; i++ {
			ops = append(ops, mk(t))
		}
		p.Threads = append(p.Threads, ops)
	}
	return p
}

// how long a whole history may take
var historyWatchdog = 15 * time.Second

// runProgram executes the program on co.  stamped: every call is bracketed by
// two stamps drawn from ONE atomic counter (before the call, after the return)
// and recorded in the calling goroutine's own log; the logs are merged by stamp
// afterwards, so "Ret of A before Inv of B" in the history means A really
// returned before B began.  Unstamped: nothing is recorded while the goroutines
// run.  Returns the merged log, the number of panics and whether every goroutine
// came back (if not, the log is not read: its writers may still be running).
func runProgram(co *cobj, p *program, stamped bool, r *rand.Rand) (log []Ev, panics int, finished bool) {
	type rec struct {
		stamp int64
		ev    Ev
	}
	var clock int64
	logs := make([][]rec, len(p.Threads)+1) // last: the prefix
	npan := make([]int, len(p.Threads)+1)
	yields := make([][]bool, len(p.Threads))
	for t := range p.Threads {
		yields[t] = make([]bool, len(p.Threads[t]))
		for i := range yields[t] {
			yields[t][i] = r.Intn(3) == 0
		}
	}
	do := func(slot, th int, op pop) bool {
		var inv Ev
		if stamped {
			inv = Ev{"ev": "Inv", "p": th, "o": op.Name, "k": op.K, "v": op.V}
			logs[slot] = append(logs[slot], rec{atomic.AddInt64(&clock, 1), inv})
		}
		var res Ev
		msg := core.Guard(func() { res = co.Call(op) })
		var st int64 // unstamped: no atomic either (it would order the goroutines for the race detector)
		if stamped {
			st = atomic.AddInt64(&clock, 1)
		}
		if msg != "" {
			npan[slot]++
			if len(msg) > 160 {
				msg = msg[:160]
			}
			logs[slot] = append(logs[slot], rec{st, Ev{"ev": "Panic", "p": th, "o": op.Name, "msg": msg}})
			return false
		}
		if stamped {
			for k, v := range res {
				inv[k] = v
			}
			logs[slot] = append(logs[slot], rec{st, Ev{"ev": "Ret", "p": th, "o": op.Name}})
		}
		return true
	}
	merge := func() []Ev {
		var all []rec
		for _, l := range logs {
			all = append(all, l...)
		}
		sort.Slice(all, func(i, j int) bool { return all[i].stamp < all[j].stamp })
		out := make([]Ev, len(all))
		for i, x := range all {
			out[i] = x.ev
		}
		for _, n := range npan {
			panics += n
		}
		return out
	}
	if p.Max > 0 {
		co.SetMax(p.Max)
	}
	for _, op := range p.Prefix {
		if !do(len(p.Threads), 0, op) {
			return merge(), panics, true
		}
	}
	start := make(chan struct{})
	var wg sync.WaitGroup
	var arrived int32
	nth := int32(len(p.Threads))
	for t := range p.Threads {
		wg.Add(1)
		go func(t int) {
			defer wg.Done()
			<-start
			// spin barrier: the goroutines leave it together, each on its own processor
			atomic.AddInt32(&arrived, 1)
			for spins := 0; atomic.LoadInt32(&arrived) < nth && spins < 1<<22; spins++ {
				if spins%1024 == 1023 {
					runtime.Gosched()
				}
			}
			for i, op := range p.Threads[t] {
				if yields[t][i] {
					runtime.Gosched()
				}
				if !do(t, t, op) {
					return
				}
			}
		}(t)
	}
	close(start)
	done := make(chan struct{})
	go func() { wg.Wait(); close(done) }()
	select {
	case <-done:
		return merge(), panics, true
	case <-time.After(historyWatchdog):
		return nil, 0, false
	}
}
