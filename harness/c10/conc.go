package c10

// Concurrent histories of point operations on one shared instance.
//
// A program is a few calls made by goroutine 0 alone (the prefix) followed by
// 2-4 goroutines started together.  Four shapes (genProgram):
//
//	mix    3-6 random point operations per goroutine over the three hot keys
//	       of a pool whose keys share a hash bucket
//	duel   a populated instance and 5-9 calls per goroutine drawn mostly from
//	       a palette of one or two operations: the same destructive operation
//	       meets itself (remove-last x remove-last, put k x remove k ...); an
//	       operation that is not ONE critical section shows here
//	grow   (hash collections) a pool of 84 keys, a prefix that fills the
//	       default table to just below its threshold, then insertions of
//	       fresh keys (the table re-hashes) against lookups / removals
//	block  (queues) consumers in the BLOCKING dequeue, several at a time, and
//	       producers that put later and fewer elements than there are waiters
//
// Every call may be preceded by a yield or a short sleep, and each history
// runs with its own GOMAXPROCS (all, 1, 2, 4): with one processor goroutines
// change only at yields, sleeps and blocking calls, which walks through the
// operation-level interleavings; with many the calls really overlap.  Timing
// only decides which interleaving is observed, never a verdict.
//
// The same program (seed, gen, case) is executed in two ways:
//
//	stamped    (plain build, gen "lin")  every call is bracketed by an Inv and a
//	           Ret record appended to ONE mutex-protected log; the Inv record is
//	           completed with the call's projected result.  Trace_Linearize
//	           accepts the history iff TLC finds linearization points.
//	unstamped  (race build, gen "race")  no log, no synchronisation between the
//	           goroutines except the start barrier and the instance's own lock:
//	           whatever the race detector reports is turned into Race events.
//
// The real objects are reached through the adapters of harness/c09 (thirteen
// linked types) and harness/c12 (four plain types); the list and the queue
// have small adapters here.  The harness only records; TLC judges.

import (
	"fmt"
	"math/rand"
	"runtime"
	"sort"
	"sync"
	"sync/atomic"
	"time"

	"github.com/whatap/golib/util/list"
	"github.com/whatap/golib/util/queue"

	"verifharness/c09"
	"verifharness/c12"
	"verifharness/core"
	"verifharness/hmapx"
)

type Ev = core.Ev

// pop is one planned call.
type pop struct {
	Name  string
	K, V  int
	Pause int // microseconds to sleep before the call (0: none): steers the schedule only
	N     int // batch operations (PutAll): the number of elements handed over, starting at key K (cyclically through the pool)
	Dir   string // Sort: the comparator ("asc" | "desc" on the natural order of the keys)
}

// cobj is one real collection behind the point-operation face.
type cobj struct {
	Type   string
	Ctor   string
	Hdr    Ev                     // conventions of the type for the Reset event
	Names  []string               // the point operations it offers (event names)
	Call   func(op pop) Ev        // performs the call, returns the projected result fields
	Bind   func(op pop) func() Ev // optional: the same call with everything looked up beforehand
	SetMax func(n int)            // nil: no bound
	Final  func() Ev              // full content after the history (single-threaded)
	Unique bool                   // elements are unique per call (list, queue)
	NK     int                    // hot keys 1..NK
	Lin    bool                   // judged for linearizability (false: race observation only)
	Pool   []string               // human readable
	Cap    int                    // queues: the capacity (0 = unbounded)
	Puts   []string               // queues: the plain enqueue operations
	Get    string                 // queues: the blocking dequeue
	Batch  []string               // batch operations (PutAll): in the race-detector programs only (a batch is not ONE atomic call)
	Raw    interface{}            // the real collection (its lock is read from outside by the gated histories)
	Gate   *gate                  // where the user-supplied functions of the calls of this object report to (gate.go)
	Herd   bool                   // queues: every history is of shape "herd" (genHerd)
}

func (o *cobj) has(n string) bool {
	for _, x := range o.Names {
		if x == n {
			return true
		}
	}
	return false
}

type sizer interface{ Size() int }

// the point operations of the hash collections, by event name
var dictPointOps = []string{"Put", "PutFirst", "PutLast", "Add", "AddFirst", "AddLast", "AddNoOver", "AddIfExist", "Unipoint",
	"Get", "GetLRU", "ContainsKey", "Contains", "HasKey", "GetFirstKey", "GetLastKey", "GetFirstValue", "GetLastValue",
	"Remove", "RemoveFirst", "RemoveLast", "Clear", "IsEmpty"}

var mutators = map[string]bool{"Put": true, "PutFirst": true, "PutLast": true, "Add": true, "AddFirst": true, "AddLast": true,
	"AddNoOver": true, "AddIfExist": true, "Unipoint": true, "Remove": true, "RemoveFirst": true, "RemoveLast": true, "Clear": true,
	"GetLRU": true, "LAddFirst": true, "LAddLast": true, "LAdd": true, "QPut": true, "QPutForce": true, "QGetNoWait": true, "QGetTimeout": true, "QGet": true,
	"DPut1": true, "DPut2": true, "DPutForce1": true, "DPutForce2": true, "DGetNoWait": true, "DGetTimeout": true, "DGet": true,
	"PutAll": true, "Sort": true}
var sizeOps = map[string]bool{"Size": true, "IsEmpty": true, "Size1": true, "Size2": true}

// the blocking dequeues: only in programs built so that every such call is served (shape "block")
var blockingOps = map[string]bool{"QGet": true, "DGet": true}

// operations that insert (used to populate), that remove one element without waiting
var insertOps = map[string]bool{"Put": true, "PutFirst": true, "PutLast": true, "Add": true, "AddFirst": true, "AddLast": true, "Unipoint": true,
	"LAddFirst": true, "LAddLast": true, "LAdd": true, "QPut": true, "DPut1": true, "DPut2": true}

// pool size of the "grow" shape: the default table (101 buckets, load factor 0.75) re-hashes at the 75th entry
const growPool = 84

// ctor variants for the types that take (capacity, load factor): a one-bucket
// table re-hashes on nearly every insertion
var linCtors = []c09.Ctor{{Default: true}, {Cap: 1, LF: 0.75}, {Cap: 2, LF: 1}}

// collection sources: each yields, for a random source, a factory of fresh objects
type source struct {
	Type string
	New  func(r *rand.Rand, variant int) func() *cobj
}

func sources() []source {
	var out []source
	for _, td := range c09.Types {
		td := td
		out = append(out, source{td.Name, func(r *rand.Rand, variant int) func() *cobj {
			ct := c09.Ctor{Default: true}
			if td.HasCtor {
				ct = linCtors[variant%len(linCtors)]
			}
			fresh := td.New(r, 3, ct, true)
			if variant%4 == 3 { // the big pool on the default table (shape "grow")
				ct = c09.Ctor{Default: true}
				fresh = td.New(r, growPool, ct, false)
			}
			return func() *cobj {
				o := fresh()
				co := &cobj{Type: o.Type, Ctor: ct.String(), NK: o.N, Lin: true, Hdr: Ev{"plain": false}}
				for k, v := range o.Hdr {
					co.Hdr[k] = v
				}
				for _, n := range dictPointOps {
					if o.Has(n) {
						co.Names = append(co.Names, n)
					}
				}
				co.Names = append(co.Names, "Size")
				co.Raw = o.Raw
				sz := o.Raw.(sizer)
				co.Call = func(op pop) Ev {
					if op.Name == "Size" {
						return Ev{"n": sz.Size()}
					}
					if op.Name == "Sort" { // with a comparator of this harness (gate.go)
						return sortRaw(co, op.Dir)
					}
					return o.Ops[op.Name](hmapx.Op{Name: op.Name, K: op.K, V: op.V})
				}
				co.Bind = func(op pop) func() Ev {
					f, x := o.Ops[op.Name], hmapx.Op{Name: op.Name, K: op.K, V: op.V}
					if op.Name == "Size" || f == nil {
						return nil
					}
					return func() Ev { return f(x) }
				}
				if o.Has("SetMax") {
					co.SetMax = func(n int) { o.Ops["SetMax"](hmapx.Op{Name: "SetMax", V: n}) }
				}
				co.Final = func() Ev { return o.Proj() }
				return co
			}
		}})
	}
	plainNone := map[string][]int{"IntIntMap": {0}, "IntKeyMap": {}, "IntSet": {0}, "StringSet": {}}
	for _, td := range c12.Types {
		td := td
		out = append(out, source{td.Name, func(r *rand.Rand, variant int) func() *cobj {
			ct := c12.Ctor{Default: true}
			if td.HasCtor {
				lc := linCtors[variant%len(linCtors)]
				ct = c12.Ctor{Default: lc.Default, Cap: lc.Cap, LF: lc.LF}
			}
			fresh := td.New(r, 3, ct, c12.PoolOpt{Small: true})
			if variant%4 == 3 {
				ct = c12.Ctor{Default: true}
				fresh = td.New(r, growPool, ct, c12.PoolOpt{})
			}
			return func() *cobj {
				o := fresh(ct)
				co := &cobj{Type: o.Type, Ctor: ct.String(), NK: o.N, Lin: true, Pool: o.Pool,
					Hdr: Ev{"plain": true, "set": o.Set, "none": plainNone[o.Type], "rej": o.Type == "StringSet", "ek": o.EK}}
				for _, n := range dictPointOps {
					if o.Has(n) {
						co.Names = append(co.Names, n)
					}
				}
				co.Names = append(co.Names, "Size")
				if o.Has("PutAll") {
					co.Batch = []string{"PutAll"}
				}
				if o.Raw != nil {
					co.Raw = o.Raw()
				}
				co.Call = func(op pop) Ev {
					if op.Name == "Size" {
						return Ev{"n": o.Size()}
					}
					if op.Name == "Sort" { // with a comparator of this harness (gate.go)
						return sortRaw(co, op.Dir)
					}
					x := c12.Op{Name: op.Name, K: op.K, V: op.V}
					for j := 0; j < op.N; j++ {
						x.Ks = append(x.Ks, 1+(op.K-1+j)%o.N)
						x.Vs = append(x.Vs, op.V)
					}
					return o.Ops[op.Name](x)
				}
				co.Bind = func(op pop) func() Ev {
					f, x := o.Ops[op.Name], c12.Op{Name: op.Name, K: op.K, V: op.V}
					if op.Name == "Size" || f == nil || op.N > 0 || op.Dir != "" {
						return nil
					}
					return func() Ev { return f(x) }
				}
				co.Final = func() Ev {
					ks, vs := o.Proj()
					return Ev{"bagk": hmapx.NZ(ks), "bagv": hmapx.NZ(vs)}
				}
				return co
			}
		}})
	}
	out = append(out, source{"LinkedList", func(r *rand.Rand, variant int) func() *cobj { return newListObj }})
	out = append(out, source{"RequestQueue", func(r *rand.Rand, variant int) func() *cobj {
		capacity := []int{0, 2, 0, 3}[variant%4]
		return func() *cobj { return newQueueObj(capacity) }
	}})
	out = append(out, source{"RequestDoubleQueue", func(r *rand.Rand, variant int) func() *cobj {
		capacity := []int{0, 2}[variant%2]
		return func() *cobj { return newDoubleQueueObj(capacity) }
	}})
	// the same two queues once more, every history of shape "herd": several consumers parked in the BLOCKING
	// dequeue before the first element arrives, then fewer elements per wake-up than waiters (appended last: the
	// case numbers of the sources above stay what they were)
	if !raceMode && len(directedOps) == 0 {
		out = append(out, source{"RequestQueue", func(r *rand.Rand, variant int) func() *cobj {
			return func() *cobj { co := newQueueObj(0); co.Herd = true; return co }
		}})
		out = append(out, source{"RequestDoubleQueue", func(r *rand.Rand, variant int) func() *cobj {
			return func() *cobj { co := newDoubleQueueObj(0); co.Herd = true; return co }
		}})
	}
	return out
}

// stamped histories of the herd sources: this many times the usual number of cases (short, cheap histories)
const herdMult = 4

func elemOf(x interface{}) []int {
	switch v := x.(type) {
	case nil:
		return []int{}
	case int:
		return []int{v}
	}
	return []int{-999999}
}

// the list as a deque of unique elements (the set-flavoured LinkedDict: the
// value stored under an element is the element)
func newListObj() *cobj {
	l := list.NewLinkedList()
	co := &cobj{Type: "LinkedList", Ctor: "default", Unique: true, Lin: true,
		Hdr:   Ev{"plain": false, "set": true, "none": []int{}, "rej": false, "ek": 0},
		Names: []string{"LAddFirst", "LAddLast", "LAdd", "RemoveFirst", "RemoveLast", "Clear", "Size", "Touch"}}
	co.Call = func(op pop) Ev {
		switch op.Name {
		case "LAddFirst":
			l.AddFirst(op.K)
		case "LAddLast":
			l.AddLast(op.K)
		case "LAdd":
			return Ev{"b": l.Add(op.K)}
		case "RemoveFirst":
			return Ev{"ret": elemOf(l.RemoveFirst())}
		case "RemoveLast":
			return Ev{"ret": elemOf(l.RemoveLast())}
		case "Clear":
			l.Clear()
		case "Size":
			return Ev{"n": l.Size()}
		case "Touch": // the node handles: only that the calls are safe to make
			_ = l.GetFirst()
			_ = l.GetLast()
		}
		return Ev{}
	}
	co.Bind = func(op pop) func() Ev {
		switch op.Name {
		case "RemoveFirst":
			return func() Ev { return Ev{"ret": elemOf(l.RemoveFirst())} }
		case "RemoveLast":
			return func() Ev { return Ev{"ret": elemOf(l.RemoveLast())} }
		}
		return nil
	}
	co.Final = func() Ev {
		arr := []int{}
		for _, x := range l.ToArray() {
			arr = append(arr, elemOf(x)...)
		}
		return Ev{"keys": arr, "vals": arr}
	}
	return co
}

// the single queue as a bounded deque of unique elements: a refused plain put
// leaves it alone, a forced put evicts from the head (LinkedDict with a bound);
// the blocking dequeue takes the head once there is one
func newQueueObj(capacity int) *cobj {
	q := queue.NewRequestQueue(capacity)
	co := &cobj{Type: "RequestQueue", Ctor: fmt.Sprintf("cap=%d", capacity), Unique: true, Lin: true, Cap: capacity,
		Hdr:   Ev{"plain": false, "set": true, "none": []int{}, "rej": false, "ek": 0, "max": capacity},
		Names: []string{"QPut", "QPutForce", "QGetNoWait", "QGetTimeout", "QGet", "Clear", "Size"},
		Puts:  []string{"QPut"}, Get: "QGet", Raw: q}
	co.Call = func(op pop) Ev {
		switch op.Name {
		case "QPut":
			return Ev{"ok": q.Put(op.K)}
		case "QPutForce":
			return Ev{"ok": q.PutForce(op.K)}
		case "QGetNoWait":
			return Ev{"ret": elemOf(q.GetNoWait())}
		case "QGetTimeout":
			return Ev{"ret": elemOf(q.GetTimeout(1))}
		case "QGet":
			return Ev{"ret": elemOf(q.Get())}
		case "Clear":
			q.Clear()
		case "Size":
			return Ev{"n": q.Size()}
		}
		return Ev{}
	}
	co.Final = func() Ev {
		n := q.Size()
		arr := []int{}
		for i := 0; i < 1000; i++ {
			x := q.GetNoWait()
			if x == nil {
				break
			}
			arr = append(arr, elemOf(x)...)
		}
		return Ev{"n": n, "keys": arr, "vals": arr}
	}
	return co
}

// the double queue: two lanes of unique elements, each with its own bound; a
// dequeue serves lane 1 first.  In the dictionary of the specification the
// value stored under an element is its lane.
func newDoubleQueueObj(capacity int) *cobj {
	q := queue.NewRequestDoubleQueue(capacity, capacity)
	co := &cobj{Type: "RequestDoubleQueue", Ctor: fmt.Sprintf("cap=%d", capacity), Unique: true, Lin: true, Cap: capacity,
		Hdr:   Ev{"plain": false, "set": false, "none": []int{}, "rej": false, "ek": 0, "max": 0, "cap": []int{capacity, capacity}},
		Names: []string{"DPut1", "DPut2", "DPutForce1", "DPutForce2", "DGetNoWait", "DGetTimeout", "DGet", "Clear", "Size", "Size1", "Size2"},
		Puts:  []string{"DPut1", "DPut2"}, Get: "DGet"}
	co.Call = func(op pop) Ev {
		switch op.Name {
		case "DPut1":
			return Ev{"ok": q.Put1(op.K)}
		case "DPut2":
			return Ev{"ok": q.Put2(op.K)}
		case "DPutForce1":
			return Ev{"ok": q.PutForce1(op.K)}
		case "DPutForce2":
			return Ev{"ok": q.PutForce2(op.K)}
		case "DGetNoWait":
			return Ev{"ret": elemOf(q.GetNoWait())}
		case "DGetTimeout":
			return Ev{"ret": elemOf(q.GetTimeout(1))}
		case "DGet":
			return Ev{"ret": elemOf(q.Get())}
		case "Clear":
			q.Clear()
		case "Size":
			return Ev{"n": q.Size()}
		case "Size1":
			return Ev{"n": q.Size1()}
		case "Size2":
			return Ev{"n": q.Size2()}
		}
		return Ev{}
	}
	co.Final = func() Ev {
		n := q.Size()
		l1, l2 := []int{}, []int{}
		for i := 0; i < 1000; i++ {
			first := q.Size1() > 0
			x := q.GetNoWait()
			if x == nil {
				break
			}
			if first {
				l1 = append(l1, elemOf(x)...)
			} else {
				l2 = append(l2, elemOf(x)...)
			}
		}
		return Ev{"n": n, "lane1": l1, "lane2": l2}
	}
	return co
}

// ---------------------------------------------------------------- programs

type program struct {
	Shape   string
	Step    bool // lockstep: the goroutines wait for each other before every call (see runProgram)
	Procs   int  // GOMAXPROCS while the history runs (0: leave it alone)
	Max     int
	Prefix  []pop
	Threads [][]pop
}

func (p *program) calls() int {
	n := len(p.Prefix)
	for _, t := range p.Threads {
		n += len(t)
	}
	return n
}

func pickOp(r *rand.Rand, co *cobj) string {
	for {
		n := co.Names[r.Intn(len(co.Names))]
		x := r.Intn(100)
		switch {
		case blockingOps[n]: // only in shape "block"
		case n == "Clear":
			if x < 12 {
				return n
			}
		case sizeOps[n]:
			if x < 60 {
				return n
			}
		case mutators[n]:
			return n
		default:
			if x < 45 {
				return n
			}
		}
	}
}

func (o *cobj) among(set map[string]bool) []string {
	var out []string
	for _, n := range o.Names {
		if set[n] {
			out = append(out, n)
		}
	}
	return out
}

// directed effort (args ops=A+B, golib method names): every history is a duel
// over the point operations that go through these methods
var directedOps []string

// event name of a point operation -> the golib method it calls (where they differ)
var methodOf = map[string]string{"LAddFirst": "AddFirst", "LAddLast": "AddLast", "LAdd": "Add", "Touch": "GetFirst",
	"QPut": "Put", "QPutForce": "PutForce", "QGetNoWait": "GetNoWait", "QGetTimeout": "GetTimeout", "QGet": "Get",
	"DPut1": "Put1", "DPut2": "Put2", "DPutForce1": "PutForce1", "DPutForce2": "PutForce2",
	"DGetNoWait": "GetNoWait", "DGetTimeout": "GetTimeout", "DGet": "Get"}

func directed(co *cobj) []string {
	var out []string
	for _, n := range co.Names {
		m := methodOf[n]
		if m == "" {
			m = n
		}
		for _, d := range directedOps {
			if d == m && !blockingOps[n] {
				out = append(out, n)
			}
		}
	}
	return out
}

var lookupOps = map[string]bool{"Get": true, "GetLRU": true, "ContainsKey": true, "Contains": true, "HasKey": true, "Remove": true}

func genProgram(r *rand.Rand, co *cobj) *program {
	p := &program{Procs: []int{0, 0, 1, 2, 4}[r.Intn(5)]}
	uniq := 0
	mk := func(name string) pop {
		op := pop{Name: name}
		if co.Unique {
			uniq++
			op.K = uniq
		} else {
			op.K = 1 + r.Intn(co.NK)
			op.V = 1 + r.Intn(3)
		}
		return op
	}
	x := r.Intn(10)
	switch {
	case len(directedOps) > 0:
		genDuel(r, co, p, mk)
	case co.Herd:
		p.Procs = 0
		genHerd(r, co, p, mk)
	case !co.Unique && co.NK >= growPool/2:
		genGrow(r, co, p)
	case co.Get != "" && co.Cap == 0 && x < 4:
		genBlock(r, co, p, mk)
	case x < 7:
		genDuel(r, co, p, mk)
	default:
		p.Shape = "mix"
		if co.SetMax != nil && r.Intn(3) == 0 {
			p.Max = 1 + r.Intn(2)
		}
		for i, n := 0, r.Intn(4); i < n; i++ {
			p.Prefix = append(p.Prefix, mk(pickOp(r, co)))
		}
		nt := 2 + r.Intn(3)
		for t := 0; t < nt; t++ {
			var ops []pop
			for i, n := 0, 3+r.Intn(4); i < n; i++ {
				ops = append(ops, mk(pickOp(r, co)))
			}
			p.Threads = append(p.Threads, ops)
		}
	}
	// race-detector programs: ONE goroutine also issues batch calls (PutAll), small ones and ones longer than the
	// default table has buckets (what a batch method does "once for the whole batch" depends on its length)
	if raceMode && len(co.Batch) > 0 && len(p.Threads) > 0 && r.Intn(3) > 0 {
		t := r.Intn(len(p.Threads))
		for i, n := 0, 1+r.Intn(2); i < n && len(p.Threads[t]) > 0; i++ {
			b := pop{Name: co.Batch[r.Intn(len(co.Batch))], K: 1 + r.Intn(co.NK), V: 1 + r.Intn(3), N: 3}
			if r.Intn(3) > 0 {
				b.N = 110 + r.Intn(90)
			}
			p.Threads[t][r.Intn(len(p.Threads[t]))] = b
		}
	}
	return p
}

// raceMode: the programs are generated for the race-detector build (batch calls among them)
var raceMode bool

// duel: a populated instance; the goroutines issue mostly the same one or two
// operations, for the hash collections mostly on one key.
func genDuel(r *rand.Rand, co *cobj, p *program, mk func(string) pop) {
	p.Shape = "duel"
	p.Step = r.Intn(3) > 0
	if co.SetMax != nil && r.Intn(3) == 0 {
		p.Max = 1 + r.Intn(2)
	}
	ins := co.among(insertOps)
	if co.Unique {
		n := 4 + r.Intn(8)
		if r.Intn(2) == 0 { // enough for every goroutine to find something to take until its last call
			n = 24 + r.Intn(16)
		}
		for i := 0; i < n && len(ins) > 0; i++ {
			p.Prefix = append(p.Prefix, mk(ins[r.Intn(len(ins))]))
		}
	} else {
		for k := 1; k <= co.NK && len(ins) > 0; k++ {
			if r.Intn(5) > 0 {
				op := mk(ins[r.Intn(len(ins))])
				op.K = k
				p.Prefix = append(p.Prefix, op)
			}
		}
	}
	palette := []string{pickOp(r, co)}
	if r.Intn(5) < 2 {
		palette = append(palette, pickOp(r, co))
	}
	if d := directed(co); len(d) > 0 {
		palette = d
		p.Procs = 0
	}
	focus := 1 + r.Intn(co.NK+1)
	nt := 2 + r.Intn(3)
	for t := 0; t < nt; t++ {
		var ops []pop
		for i, n := 0, 5+r.Intn(5); i < n; i++ {
			name := palette[r.Intn(len(palette))]
			if r.Intn(8) == 0 {
				name = pickOp(r, co)
			}
			op := mk(name)
			if !co.Unique && focus <= co.NK && r.Intn(5) < 3 {
				op.K = focus
			}
			ops = append(ops, op)
		}
		p.Threads = append(p.Threads, ops)
	}
}

// grow: the prefix fills the default table to just below its threshold; then
// fresh keys go in (the table re-hashes) while present keys are looked up,
// touched and removed.
func genGrow(r *rand.Rand, co *cobj, p *program) {
	p.Shape = "grow"
	ins := ""
	for _, n := range []string{"Put", "Add", "PutLast", "AddLast", "Unipoint", "PutFirst", "AddFirst"} {
		if co.has(n) {
			ins = n
			break
		}
	}
	look := co.among(lookupOps)
	t0 := co.NK - 13 + r.Intn(4) // 71..74 of 84
	if t0 < 1 {
		t0 = 1
	}
	for k := 1; k <= t0 && ins != ""; k++ {
		p.Prefix = append(p.Prefix, pop{Name: ins, K: k, V: 1 + r.Intn(3)})
	}
	next := t0 + 1
	nt := 2 + r.Intn(3)
	for t := 0; t < nt; t++ {
		var ops []pop
		for i, n := 0, 5+r.Intn(5); i < n; i++ {
			switch {
			case ins != "" && next <= co.NK && (r.Intn(2) == 0 || len(look) == 0):
				ops = append(ops, pop{Name: ins, K: next, V: 1 + r.Intn(3)})
				next++
			case len(look) > 0:
				ops = append(ops, pop{Name: look[r.Intn(len(look))], K: 1 + r.Intn(next-1), V: 1})
			default:
				ops = append(ops, pop{Name: "Size", K: 1})
			}
		}
		p.Threads = append(p.Threads, ops)
	}
}

// block: consumers in the blocking dequeue of an unbounded queue, producers
// that never dequeue and together put at least as many elements as there are
// blocking calls (so every one of them is served, whatever the schedule); the
// producers start late and pause between puts, so that several consumers wait
// at once and one put wakes more waiters than it brings elements.
func genBlock(r *rand.Rand, co *cobj, p *program, mk func(string) pop) {
	p.Shape = "block"
	put := func() pop { return mk(co.Puts[r.Intn(len(co.Puts))]) }
	if r.Intn(4) == 0 {
		p.Prefix = append(p.Prefix, put())
	}
	nc := 2 + r.Intn(2)
	np := 1
	if nc == 2 {
		np += r.Intn(2)
	}
	gets := 0
	for t := 0; t < nc; t++ {
		var ops []pop
		for i, n := 0, 1+r.Intn(3); i < n; i++ {
			switch x := r.Intn(8); {
			case x < 6 || i == 0:
				ops = append(ops, mk(co.Get))
				gets++
			case x == 6:
				ops = append(ops, mk("Size"))
			default:
				ops = append(ops, put())
			}
		}
		p.Threads = append(p.Threads, ops)
	}
	prod := make([][]pop, np)
	for i, n := 0, gets+r.Intn(2); i < n; i++ {
		t := i % np
		op := put()
		if len(prod[t]) == 0 {
			if r.Intn(5) > 0 {
				op.Pause = 100 + r.Intn(300)
			}
		} else if r.Intn(5) < 3 {
			op.Pause = 1 + r.Intn(200)
		}
		prod[t] = append(prod[t], op)
		if r.Intn(3) == 0 {
			prod[t] = append(prod[t], mk("Size"))
		}
	}
	p.Threads = append(p.Threads, prod...)
}

// herd: 2-3 consumers, each in ONE (sometimes two) blocking dequeues and nothing else, all parked on the
// empty unbounded queue before the single producer (which starts late) brings the first element; the
// producer then puts one element at a time -- every put wakes ALL waiters for ONE element -- with a pause
// between the puts, so that the waiters that found nothing are parked again before the next one; in all
// at least as many elements as there are dequeues of any kind (every blocking call is served whatever the
// schedule).  Sometimes a further goroutine takes without waiting (it may answer "nothing"; a blocking
// dequeue may not: the model gives it no linearization point on an empty queue).
func genHerd(r *rand.Rand, co *cobj, p *program, mk func(string) pop) {
	p.Shape = "herd"
	put := func() pop { return mk(co.Puts[r.Intn(len(co.Puts))]) }
	if r.Intn(3) > 0 {
		// churn: three consumers, each in 4-10 blocking dequeues back to back, and one producer that brings exactly
		// as many elements one after the other, yielding in between: the queue is empty most of the time, a consumer
		// that comes back with an element re-enters while the others are being woken for the next one
		g := 4 + r.Intn(7)
		for t := 0; t < 3; t++ {
			var ops []pop
			for i := 0; i < g; i++ {
				ops = append(ops, mk(co.Get))
			}
			p.Threads = append(p.Threads, ops)
		}
		var prod []pop
		for i := 0; i < 3*g; i++ {
			op := put()
			op.Pause = -1 - r.Intn(3) // that many yields
			prod = append(prod, op)
		}
		p.Threads = append(p.Threads, prod)
		return
	}
	nc := 2 + r.Intn(2) // the trace specification has four processes: 2-3 consumers, the producer, sometimes a taker
	takes := 0
	for t := 0; t < nc; t++ {
		ops := []pop{mk(co.Get)}
		takes++
		if r.Intn(4) == 0 {
			ops = append(ops, mk(co.Get))
			takes++
		}
		p.Threads = append(p.Threads, ops)
	}
	if nc == 2 && r.Intn(3) == 0 {
		var ops []pop
		for i, n := 0, 1+r.Intn(2); i < n; i++ {
			op := mk(co.Get[:1] + "GetNoWait")
			op.Pause = 150 + r.Intn(400)
			ops = append(ops, op)
			takes++
		}
		p.Threads = append(p.Threads, ops)
	}
	var prod []pop
	for i, n := 0, takes+r.Intn(2); i < n; i++ {
		op := put()
		switch {
		case i == 0:
			op.Pause = 150 + r.Intn(350)
		case r.Intn(4) > 0:
			op.Pause = 20 + r.Intn(200)
		}
		prod = append(prod, op)
	}
	p.Threads = append(p.Threads, prod)
}

// how long a whole history may take
var historyWatchdog = 15 * time.Second

// runProgram executes the program on co.  stamped: every call is bracketed by
// two stamps drawn from ONE atomic counter (before the call, after the return)
// and recorded in the calling goroutine's own log; the logs are merged by stamp
// afterwards, so "Ret of A before Inv of B" in the history means A really
// returned before B began.  Unstamped: nothing is recorded while the goroutines
// run.  Returns the merged log, the number of panics and whether every goroutine
// came back (if not, the log is not read: its writers may still be running).
func runProgram(co *cobj, p *program, stamped bool, r *rand.Rand) (log []Ev, panics int, finished bool) {
	type rec struct {
		stamp int64
		ev    Ev
	}
	// what a goroutine keeps of one call while the history runs: as little as
	// possible (two stamps and the projected result), so that the time between
	// two calls is not dominated by the recording; events are built afterwards
	type raw struct {
		t0, t1 int64
		th     int
		op     pop
		res    Ev
		msg    string
	}
	var clock int64
	var arrived int32
	nth := int32(len(p.Threads))
	// lockstep: before its i-th call a goroutine waits (spinning, for a bounded
	// time) until the others are about to make their i-th call too, so that the
	// calls of one round start within nanoseconds of each other -- the calls of a
	// history last a few hundred nanoseconds each, and goroutines that merely
	// start together drift apart after the first.  Harness-side only.
	var round []int32
	var need []int32
	if p.Step {
		for _, ops := range p.Threads {
			for i := range ops {
				if i >= len(need) {
					need = append(need, 0)
				}
				need[i]++
			}
		}
		round = make([]int32, len(need))
	}
	start := make(chan struct{})
	raws := make([][]raw, len(p.Threads)+1) // last: the prefix
	for t := range p.Threads {
		raws[t] = make([]raw, 0, len(p.Threads[t]))
	}
	raws[len(p.Threads)] = make([]raw, 0, len(p.Prefix))
	// before a call: nothing (half of them), a yield, a short or a longer sleep
	delays := make([][]int, len(p.Threads))
	for t := range p.Threads {
		delays[t] = make([]int, len(p.Threads[t]))
		for i := range delays[t] {
			x := r.Intn(8)
			if (p.Shape == "duel" && r.Intn(4) > 0) || p.Shape == "herd" { // a duel is about calls that meet: mostly back to back
				x = 0
			}
			switch {
			case x < 4:
			case x < 6:
				delays[t][i] = -1
			case x == 6:
				delays[t][i] = 1 + r.Intn(60)
			default:
				delays[t][i] = 50 + r.Intn(200)
			}
			if d := p.Threads[t][i].Pause; d != 0 {
				delays[t][i] = d
			}
		}
	}
	if p.Procs > 0 {
		prev := runtime.GOMAXPROCS(p.Procs)
		defer runtime.GOMAXPROCS(prev)
	}
	// the calls are bound before the goroutines start (no name lookup between
	// two calls); a goroutine runs its list in one loop under ONE recover: a
	// panic ends it, as before, and is recorded for the call that raised it
	bind := func(op pop) func() Ev {
		if co.Bind != nil {
			if f := co.Bind(op); f != nil {
				return f
			}
		}
		return func() Ev { return co.Call(op) }
	}
	runList := func(slot, th int, ops []pop, dl []int) (ok bool) {
		calls := make([]func() Ev, len(ops))
		for i, op := range ops {
			calls[i] = bind(op)
			raws[slot] = append(raws[slot], raw{th: th, op: op})
		}
		rs := raws[slot]
		if slot < len(p.Threads) { // the barrier: the goroutines leave it together, each on its own processor
			<-start
			atomic.AddInt32(&arrived, 1)
			for spins := 0; atomic.LoadInt32(&arrived) < nth && spins < 1<<22; spins++ {
				if spins%1024 == 1023 {
					runtime.Gosched()
				}
			}
		}
		cur := 0
		defer func() {
			if r := recover(); r != nil {
				msg := fmt.Sprint(r)
				if msg == "" {
					msg = "panic"
				}
				rs[cur].msg = msg
				if stamped {
					rs[cur].t1 = atomic.AddInt64(&clock, 1)
				}
				raws[slot] = rs[:cur+1]
				ok = false
			}
		}()
		for i, call := range calls {
			cur = i
			if round != nil && dl != nil {
				atomic.AddInt32(&round[i], 1)
				for spins := 0; atomic.LoadInt32(&round[i]) < need[i] && spins < 1<<16; spins++ {
					if spins%256 == 255 {
						runtime.Gosched()
					}
				}
			} else if dl != nil {
				if d := dl[i]; d < 0 {
					for ; d < 0; d++ {
						runtime.Gosched()
					}
				} else if d > 0 {
					time.Sleep(time.Duration(d) * time.Microsecond)
				}
			}
			if stamped { // unstamped: no atomic either (it would order the goroutines for the race detector)
				rs[i].t0 = atomic.AddInt64(&clock, 1)
				rs[i].res = call()
				rs[i].t1 = atomic.AddInt64(&clock, 1)
			} else {
				call()
			}
		}
		return true
	}
	merge := func() []Ev {
		var all []rec
		for _, l := range raws {
			for _, x := range l {
				if stamped {
					inv := Ev{"ev": "Inv", "p": x.th, "o": x.op.Name, "k": x.op.K, "v": x.op.V}
					if x.msg == "" {
						for k, v := range x.res {
							inv[k] = v
						}
					}
					all = append(all, rec{x.t0, inv})
				}
				if x.msg != "" {
					panics++
					msg := x.msg
					if len(msg) > 160 {
						msg = msg[:160]
					}
					all = append(all, rec{x.t1, Ev{"ev": "Panic", "p": x.th, "o": x.op.Name, "msg": msg}})
				} else if stamped {
					all = append(all, rec{x.t1, Ev{"ev": "Ret", "p": x.th, "o": x.op.Name}})
				}
			}
		}
		sort.SliceStable(all, func(i, j int) bool { return all[i].stamp < all[j].stamp })
		out := make([]Ev, len(all))
		for i, x := range all {
			out[i] = x.ev
		}
		return out
	}
	// the prefix runs on a goroutine of its own under the single-call watchdog: a call of the prefix
	// that leaves the instance lock taken parks the next one for ever -- the history then ends as one
	// that did not come back (Timeout), like a hang among the concurrent goroutines
	pre := make(chan bool, 1)
	go func() {
		if p.Max > 0 {
			co.SetMax(p.Max)
		}
		pre <- runList(len(p.Threads), 0, p.Prefix, nil)
	}()
	select {
	case ok := <-pre:
		if !ok {
			log = merge()
			return log, panics, true
		}
	case <-time.After(watchdog + time.Duration(len(p.Prefix))*time.Millisecond):
		return nil, 0, false
	}
	var wg sync.WaitGroup
	for t := range p.Threads {
		wg.Add(1)
		go func(t int) {
			defer wg.Done()
			runList(t, t, p.Threads[t], delays[t])
		}(t)
	}
	close(start)
	done := make(chan struct{})
	go func() { wg.Wait(); close(done) }()
	select {
	case <-done:
		log = merge()
		return log, panics, true
	case <-time.After(historyWatchdog):
		return nil, 0, false
	}
}
