package c16

import "strconv"

// mapConfig is a config.Config over a map of integer settings (standard library only):
// a key that is absent resolves to the default the caller passes.
type mapConfig struct{ m map[string]int }

func (c *mapConfig) ApplyDefault()       {}
func (c *mapConfig) GetConfFile() string { return "" }
func (c *mapConfig) Destroy()            {}
func (c *mapConfig) GetKeys() []string {
	ks := []string{}
	for k := range c.m {
		ks = append(ks, k)
	}
	return ks
}
func (c *mapConfig) GetValue(key string) string { return c.GetValueDef(key, "") }
func (c *mapConfig) GetValueDef(key, def string) string {
	if v, ok := c.m[key]; ok {
		return strconv.Itoa(v)
	}
	return def
}
func (c *mapConfig) GetBoolean(key string, def bool) bool { return def }
func (c *mapConfig) GetInt(key string, def int) int32 {
	if v, ok := c.m[key]; ok {
		return int32(v)
	}
	return int32(def)
}
func (c *mapConfig) GetIntSet(key, def, deli string) []int32 { return nil }
func (c *mapConfig) GetLong(key string, def int64) int64 {
	if v, ok := c.m[key]; ok {
		return int64(v)
	}
	return def
}
func (c *mapConfig) GetStringArray(key string, def string, deli string) []string { return nil }
func (c *mapConfig) GetStringHashSet(key, def, deli string) []int32              { return nil }
func (c *mapConfig) GetStringHashCodeSet(key, def, deli string) []int32          { return nil }
func (c *mapConfig) GetFloat(key string, def float32) float32                    { return def }
func (c *mapConfig) SetValues(v *map[string]string)                              {}
func (c *mapConfig) ToString() string                                            { return "mapConfig" }
func (c *mapConfig) String() string                                              { return "mapConfig" }
