// Package c16 drives the real log-sink zip sender of golib (logsink/zip
// ZipSendProxyThread) and records, for Trace_ZipSender.tla to judge, every
// record handed to it, every step of the goroutine that owns its buffer (the
// verif hooks report them to the TcpClient the harness passes in, and a
// blocking report holds the goroutine there: the hooks are the scheduler's
// gates) and every pack the client receives: its count, status byte, Records
// as they are, Records gunzipped with compress/gzip, and what golib's own
// decoder reads back from it.  Retained packs are read again later (Peek).
//
//	self      one fixed gated history (binding self-test)
//	cex       the schedules of TLC's design counterexamples: retain an uncompressed
//	          pack and append into the reset buffer (worker path and SendDirect),
//	          stop with records still queued, create without settings, apply an
//	          empty configuration
//	gated     random histories in queue mode, the worker stepped hook by hook
//	direct    random histories without a worker: Append and SendDirect calls
//	defaults  a sender created WITHOUT settings, driven so that each of the four
//	          built-in settings decides something observable
//	reconf    the waiting time in force changes while the worker runs (long <-> short,
//	          named or absent = built-in), each change followed by a batch that only
//	          the worker's idle time-out can flush; the harness's reference clock
//	          (Tick events) tells TLC how long that took
//	api       senders created through the PUBLIC GetInstance (one child process per
//	          history: the instance is process-wide) with every kind of context
//	          option, stopped through every function that then stops it, settings
//	          delivered by ApplyConfig or through a ConfigObserver
//	free      queue mode, nothing held: a producer, a SendDirect caller and the
//	          worker run concurrently (second trace; timing dependent)
//
// Records that the pack layer cannot encode (built without the constructor: no
// tag map; a nil pointer) are mixed into the random histories.
//
// The harness only records.  Record times are virtual (the sender compares
// record times with each other, never with the clock); the one place where real
// time is part of the property -- the worker's timed wait on an idle queue --
// is measured in periods of a reference clock of the same process (Tick).
package c16

import (
	"bufio"
	"bytes"
	"compress/gzip"
	"context"
	"encoding/json"
	"errors"
	"fmt"
	"io"
	"math/rand"
	"os"
	"os/exec"
	"path/filepath"
	"runtime"
	"sort"
	"strconv"
	"strings"
	"sync"
	"sync/atomic"
	"syscall"
	"time"

	"github.com/whatap/golib/config"
	gio "github.com/whatap/golib/io"
	"github.com/whatap/golib/lang/pack"
	"github.com/whatap/golib/logsink/zip"
	wnet "github.com/whatap/golib/net"
	"github.com/whatap/golib/util/compressutil"

	"verifharness/core"
)

func init() { core.Register("c16", Run) }

// waitMax bounds every wait FOR the worker to reach its next step (never an ordering);
// reaching it is reported as a harness problem (exit 2), never as a violation.
const waitMax = 120 * time.Second

// The reference clock (Trace_ZipSender.cfg: MinPeriod, IdleSlack): after releasing the worker into its timed
// wait the harness sleeps full periods of max(waiting time in force, minPeriod) and logs a Tick after each
// one that the worker has not answered; it never logs more than idleSlack+1 of them.
const (
	minPeriod = 20 // ms
	idleSlack = 60
)

// ---------------------------------------------------------------- records

type rec struct {
	id   int
	time int64
	clen int
	p    *pack.LogSinkPack
	enc  []byte
	ok   bool // the pack layer can encode it
}

// kinds of record
const (
	kGood    = 0
	kNoTags  = 1 // built as a literal, without the constructor: no tag map
	kNilPack = 2 // a nil pointer
)

func content(id, n int) string {
	b := make([]byte, n)
	for i := range b {
		b[i] = byte('a' + (id*7+i)%26)
	}
	if n > 0 {
		b[0] = byte('A' + id%26)
	}
	return string(b)
}

func build(id int, tm int64, clen int, tags bool) *pack.LogSinkPack {
	p := pack.NewLogSinkPack()
	p.Pcode = int64(1000 + id%3)
	p.Oid = int32(id * 31)
	p.Time = tm
	p.Category = "app"
	p.Line = int64(id)
	p.Content = content(id, clen)
	if tags {
		p.Tags.PutString("host", "h"+strconv.Itoa(id%4))
	}
	return p
}

func buildKind(id int, tm int64, clen int, kind int) *pack.LogSinkPack {
	switch kind {
	case kNoTags:
		p := &pack.LogSinkPack{Category: "app", Line: int64(id), Content: content(id, clen)}
		p.Pcode = int64(1000 + id%3)
		p.Time = tm
		return p
	case kNilPack:
		return nil
	}
	return build(id, tm, clen, id%5 == 0)
}

// newRecKind: the record handed to the sender and, from an identical twin, the bytes the pack layer writes for
// it -- or the fact that the pack layer cannot write it (ok = false, no bytes)
func newRecKind(id int, tm int64, clen int, kind int) *rec {
	twin := buildKind(id, tm, clen, kind)
	var enc []byte
	msg := core.Guard(func() { enc = pack.WritePack(gio.NewDataOutputX(), twin).ToByteArray() })
	if msg != "" {
		return &rec{id: id, time: tm, clen: 0, p: buildKind(id, tm, clen, kind), enc: []byte{}, ok: false}
	}
	return &rec{id: id, time: tm, clen: clen, p: buildKind(id, tm, clen, kind), enc: enc, ok: true}
}

func newRec(id int, tm int64, clen int) *rec { return newRecKind(id, tm, clen, kGood) }

// a record whose encoding has exactly n bytes (n >= the empty record's size)
func recOfSize(id int, tm int64, n int) *rec {
	r := newRec(id, tm, 0)
	if len(r.enc) >= n {
		return r
	}
	c := n - len(r.enc)
	for try := 0; try < 8; try++ {
		r = newRec(id, tm, c)
		if len(r.enc) == n {
			return r
		}
		c -= len(r.enc) - n
		if c < 0 {
			c = 0
		}
	}
	return r
}

func (r *rec) ev() core.Ev {
	return core.Ev{"id": r.id, "time": r.time, "clen": r.clen, "bytes": core.Cp(r.enc), "ok": r.ok}
}

// ---------------------------------------------------------------- one history

type settings struct{ maxBuf, maxWait, zipMin, qCap int64 }

func (s settings) ev() core.Ev {
	return core.Ev{"maxBuf": s.maxBuf, "maxWait": s.maxWait, "zipMin": s.zipMin, "qCap": s.qCap}
}

type kept struct {
	idx int
	p   *pack.ZipPack
}

type hist struct {
	c    *core.Ctx
	t    *sink
	s    *zip.ZipSendProxyThread
	mode string // "queue" | "direct"

	gated     atomic.Bool
	inflight  atomic.Int32
	wgid      atomic.Int64
	arrived   chan string
	resume    chan struct{}
	done      chan struct{}
	newLogged chan struct{}
	parkedAt  string // harness side: where the worker is held ("" = not held)

	mu       sync.Mutex
	recs     map[*pack.LogSinkPack]*rec
	npacks   int
	retained []kept
	keepMode int // 0 consume, 1 retain, 2 mixed
	nrefused int
	failErr  bool // the client reports an error for some packs
	nextID   int
	err      error

	ctxk    string            // what was passed as context at creation: "none" | "ctx" | "both"
	via     string            // the way this history stops the sender
	stops   map[string]func() // via -> the function that makes the stop request
	deliver func(m map[string]int) // how a configuration reaches the sender (nil: ApplyConfig is called)
	nilUsed bool              // the one nil-pointer record of the history has been made
	overrun bool              // a timed wait of the worker outlasted the reference clock's slack
}

func gid() int64 {
	var buf [64]byte
	n := runtime.Stack(buf[:], false)
	// "goroutine 123 [running]:..."
	s := buf[10:n]
	i := bytes.IndexByte(s, ' ')
	if i < 0 {
		return -1
	}
	v, _ := strconv.ParseInt(string(s[:i]), 10, 64)
	return v
}

func clamp(v int64) int64 {
	if v > 1<<30 || v < -(1<<30) {
		return -999
	}
	return v
}

func stEv(st zip.VerifState, withQ bool) core.Ev {
	e := core.Ev{"blen": st.BufLen, "count": st.Count, "ft": clamp(st.FirstTime),
		"obs": settings{int64(st.MaxBuf), st.MaxWait, int64(st.ZipMin), int64(st.QueueSize)}.ev()}
	if withQ && st.QueueLen >= 0 {
		e["qlen"] = st.QueueLen
	}
	return e
}

var pointEv = map[string]string{"exit": "Exit", "stop": "StopSeen", "poll": "Poll", "take": "Take", "idle": "Idle",
	"append": "Append", "reset": "Cleared"}

func (h *hist) isWorker() bool { return h.wgid.Load() == gid() }

// park holds the worker (and only the worker) at a reported step while the history is gated
func (h *hist) park(point string) {
	if h.gated.Load() && h.isWorker() {
		h.arrived <- point
		<-h.resume
	}
}

// VerifStep implements zip.VerifObserver
func (h *hist) VerifStep(point string, p *pack.LogSinkPack, st zip.VerifState) {
	<-h.newLogged
	switch point {
	case "exit", "stop", "poll", "take", "idle":
		if h.wgid.Load() == 0 {
			h.wgid.Store(gid())
		}
	}
	name, ok := pointEv[point]
	if !ok {
		name = "Alien"
	}
	quiet := h.inflight.Load() == 0 && (h.gated.Load() || h.mode == "direct")
	e := core.Ev{"ev": name, "st": stEv(st, quiet)}
	if p != nil || point == "take" || point == "append" {
		h.mu.Lock()
		r := h.recs[p]
		h.mu.Unlock()
		if r != nil {
			e["id"] = r.id
		} else {
			e["id"] = -1
		}
	}
	h.t.Emit(e)
	if point == "exit" {
		close(h.done)
		return
	}
	h.park(point)
}

func (h *hist) Connect() error { return nil }
func (h *hist) Close() error   { return nil }
func (h *hist) Send(p pack.Pack, opts ...wnet.TcpClientOption) error {
	return h.SendFlush(p, false, opts...)
}

func gunzip(b []byte) ([]byte, bool) {
	r, err := gzip.NewReader(bytes.NewReader(b))
	if err != nil {
		return nil, false
	}
	out, err := io.ReadAll(r)
	if err != nil {
		return nil, false
	}
	return out, true
}

// what golib's own decoder reads back from the pack (after golib's own decompression when flagged)
func decode(n int, status byte, raw []byte) (dec [][]int64, ok bool) {
	dec = [][]int64{}
	msg := core.Guard(func() {
		payload := raw
		if status == pack.ZIPPED {
			var err error
			payload, err = compressutil.UnZip(raw)
			if err != nil {
				panic(err)
			}
		}
		zp := pack.NewZipPack()
		zp.RecordCount = n
		zp.Records = payload
		items := zp.GetRecords()
		for _, it := range items {
			lp, isLog := it.(*pack.LogSinkPack)
			if !isLog {
				panic("not a LogSinkPack")
			}
			dec = append(dec, []int64{lp.Line, clamp(lp.Time), int64(len(lp.Content))})
		}
	})
	return dec, msg == ""
}

// SendFlush implements net.TcpClient: the hand-over
func (h *hist) SendFlush(p pack.Pack, flush bool, opts ...wnet.TcpClientOption) error {
	zp, isZip := p.(*pack.ZipPack)
	if !isZip {
		h.t.Emit(core.Ev{"ev": "Alien", "ptype": int(p.GetPackType())})
		return nil
	}
	h.mu.Lock()
	h.npacks++
	idx := h.npacks
	keep := h.keepMode == 1 || (h.keepMode == 2 && (idx*2654435761>>7)%2 == 0)
	raw := core.Cp(zp.Records)
	payload, okz := []byte(raw), true
	if zp.Status == pack.ZIPPED {
		payload, okz = gunzip(raw)
	}
	if !okz {
		payload = []byte{}
	}
	dec, dok := decode(zp.RecordCount, zp.Status, raw)
	h.t.Emit(core.Ev{"ev": "Send", "n": zp.RecordCount, "status": int(zp.Status), "raw": raw, "payload": core.Bytes(payload),
		"dec": dec, "decok": dok, "keep": keep, "flush": flush})
	if keep {
		h.retained = append(h.retained, kept{idx, zp})
	}
	fail := h.failErr && idx%3 == 0
	h.mu.Unlock()
	h.park("send")
	if fail {
		return errors.New("harness: the client reports a failed send")
	}
	return nil
}

func (h *hist) peek(k kept) {
	h.t.Emit(core.Ev{"ev": "Peek", "i": k.idx, "n": k.p.RecordCount, "status": int(k.p.Status), "raw": core.Cp(k.p.Records)})
}

// peekLast reads the most recent retained packs again (only while nobody can be writing)
func (h *hist) peekLast(n int) {
	h.mu.Lock()
	ks := append([]kept{}, h.retained...)
	h.mu.Unlock()
	for i := len(ks) - n; i < len(ks); i++ {
		if i >= 0 {
			h.peek(ks[i])
		}
	}
}

func (h *hist) fail(err error) {
	if h.err == nil {
		h.err = err
	}
}

func (h *hist) waitArrive() string {
	tm := time.NewTimer(waitMax)
	defer tm.Stop()
	select {
	case p := <-h.arrived:
		h.parkedAt = p
		return p
	case <-h.done:
		h.parkedAt = ""
		return "exit"
	case <-tm.C:
		h.fail(fmt.Errorf("worker did not reach its next step within %v", waitMax))
		h.parkedAt = ""
		return "hang"
	}
}

// waitArriveTicking: the worker was released into its timed wait with waiting time w in force.  While it
// has not reported, every further FULL period of max(w, minPeriod) ms is logged as a Tick (the timer of a period
// is started after the previous Tick was logged, so k Ticks mean at least k periods).  Load delays the harness's
// timers and the worker's alike; when the whole process is starved the reference clock stands still too.
func (h *hist) waitArriveTicking(w int64) string {
	period := w
	if period < minPeriod {
		period = minPeriod
	}
	limit := time.NewTimer(waitMax)
	defer limit.Stop()
	for n := 0; ; {
		var tick <-chan time.Time
		var tm *time.Timer
		if n <= idleSlack {
			tm = time.NewTimer(time.Duration(period) * time.Millisecond)
			tick = tm.C
		}
		select {
		case p := <-h.arrived:
			if tm != nil {
				tm.Stop()
			}
			h.parkedAt = p
			return p
		case <-h.done:
			if tm != nil {
				tm.Stop()
			}
			h.parkedAt = ""
			return "exit"
		case <-tick:
			n++
			h.t.Emit(core.Ev{"ev": "Tick", "p": period})
			if n > idleSlack && !h.overrun {
				h.overrun = true
				// the history is refused with this Tick.  Only to end it: a worker that waits without a time limit
				// comes back when something is queued
				h.add(h.mk(1, 1))
			}
		case <-limit.C:
			h.fail(fmt.Errorf("worker did not reach its next step within %v", waitMax))
			h.parkedAt = ""
			return "hang"
		}
	}
}

// release lets the held worker go on; from "poll" it enters its timed wait and the reference clock runs
// (w = the waiting time in force)
func (h *hist) release() (ticking bool, w int64) {
	if h.parkedAt == "poll" {
		w = h.s.SettingsForVerif().MaxWait // the worker is held: nobody writes the settings now
		ticking = true                     // a waiting time <= 0 is a wait of no length: periods of minPeriod
	}
	h.resume <- struct{}{}
	return ticking, w
}

// step lets the held worker run to its next reported step
func (h *hist) step() string {
	if h.parkedAt == "" {
		return ""
	}
	if ticking, w := h.release(); ticking {
		return h.waitArriveTicking(w)
	}
	return h.waitArrive()
}

func (h *hist) guard(what string, f func()) {
	if msg := core.Guard(f); msg != "" {
		h.t.Emit(core.Ev{"ev": "Panic", "in": what, "msg": msg})
	}
}

func (h *hist) mk(tm int64, clen int) *rec {
	h.nextID++
	r := newRec(h.nextID, tm, clen)
	h.reg(r)
	return r
}

// mkAny: mostly ordinary records; now and then one the pack layer cannot encode (at most one nil pointer per
// history: the hooks identify a record by its pointer)
func (h *hist) mkAny(rng *rand.Rand, tm int64, clen int) *rec {
	kind := kGood
	if rng.Intn(8) == 0 {
		kind = kNoTags
		if !h.nilUsed && rng.Intn(3) == 0 {
			kind = kNilPack
			h.nilUsed = true
		}
	}
	h.nextID++
	return h.reg(newRecKind(h.nextID, tm, clen, kind))
}

func (h *hist) reg(r *rec) *rec {
	h.mu.Lock()
	h.recs[r.p] = r
	h.mu.Unlock()
	return r
}

func (h *hist) mkSize(tm int64, n int) *rec {
	h.nextID++
	return h.reg(recOfSize(h.nextID, tm, n))
}

// create the sender; given=false: no settings (the built-in ones)
func (h *hist) create(mode string, given bool, s settings, gated bool) {
	h.mode = mode
	h.gated.Store(gated && mode == "queue")
	h.guard("New", func() {
		if given {
			h.s = zip.NewZipSendProxyThreadForVerif(h, mode == "queue", s.maxBuf, s.maxWait, s.zipMin, s.qCap)
		} else {
			h.s = zip.NewZipSendProxyThreadForVerif(h, mode == "queue")
		}
	})
	h.ctxk, h.via = "none", "own"
	h.stops = map[string]func(){"own": func() { h.s.StopForVerif() }}
	h.created(mode, given, s)
}

// created: the sender exists (h.s); hook the queue's refusal callback, log New, wait for the held worker
func (h *hist) created(mode string, given bool, s settings) {
	if h.s == nil {
		h.fail(errors.New("sender not created"))
		return
	}
	if mode == "queue" {
		h.s.Queue.Failed = func(v interface{}) {
			id := -1
			if p, ok := v.(*pack.LogSinkPack); ok {
				h.mu.Lock()
				if r := h.recs[p]; r != nil {
					id = r.id
				}
				h.nrefused++
				h.mu.Unlock()
			}
			h.t.Emit(core.Ev{"ev": "Refused", "id": id})
		}
	}
	// the worker reports nothing (and so reads no setting) before New is logged: no race in reading them here
	obs := stEv(h.s.SettingsForVerif(), false)["obs"]
	h.t.Emit(core.Ev{"ev": "New", "mode": mode, "given": given, "s": s.ev(), "ctx": h.ctxk, "obs": obs})
	close(h.newLogged)
	if h.gated.Load() {
		h.waitArrive()
	}
}

func (h *hist) add(r *rec) {
	h.t.Emit(core.Ev{"ev": "Add", "r": r.ev()})
	h.guard("Add", func() { h.s.Add(r.p) })
}

// addInflight releases the held worker and adds while it runs (only when the queue certainly has room)
func (h *hist) addInflight(r *rec) string {
	h.inflight.Store(1)
	ticking, w := h.release()
	h.add(r)
	var p string
	if ticking {
		p = h.waitArriveTicking(w)
	} else {
		p = h.waitArrive()
	}
	h.inflight.Store(0)
	return p
}

func (h *hist) appendCall(r *rec) {
	h.t.Emit(core.Ev{"ev": "AppendCall", "r": r.ev()})
	h.guard("Append", func() { h.s.Append(r.p) })
	h.t.Emit(core.Ev{"ev": "AppendRet"})
}

func (h *hist) sendDirect(rs []*rec) {
	evs := []core.Ev{}
	ps := []*pack.LogSinkPack{}
	for _, r := range rs {
		evs = append(evs, r.ev())
		ps = append(ps, r.p)
	}
	h.t.Emit(core.Ev{"ev": "DirectBegin", "rs": evs})
	if msg := core.Guard(func() { h.s.SendDirect(ps) }); msg != "" {
		h.t.Emit(core.Ev{"ev": "DirectPanic", "msg": msg}) // the call gave up and told its caller
	} else {
		h.t.Emit(core.Ev{"ev": "DirectEnd"})
	}
}

func (h *hist) stop() {
	h.t.Emit(core.Ev{"ev": "StopCall", "via": h.via})
	h.stops[h.via]()
	h.t.Emit(core.Ev{"ev": "StopRet"})
	if h.parkedAt != "" {
		h.t.Emit(core.Ev{"ev": "Sync"})
	}
}

var confKeys = map[string]string{"logsink_queue_size": "qCap", "max_wait_time": "maxWait", "max_buffer_size": "maxBuf",
	"logsink_zip_min_size": "zipMin"}

func (h *hist) applyConfig(m map[string]int) {
	g := core.Ev{"x": 0}
	for k, v := range m {
		g[confKeys[k]] = v
	}
	h.guard("ApplyConfig", func() {
		if h.deliver != nil {
			h.deliver(m)
		} else {
			h.s.ApplyConfig(&mapConfig{m})
		}
	})
	obs := stEv(h.s.SettingsForVerif(), false)["obs"]
	h.t.Emit(core.Ev{"ev": "ApplyConfig", "g": g, "obs": obs})
}

// finish: stop if needed, let the worker run out, read every retained pack again, End
func (h *hist) finish(stopped bool) {
	if h.s == nil {
		return
	}
	if h.mode == "queue" {
		if h.overrun && !stopped && h.parkedAt == "poll" {
			// the history is already refused (a timed wait outlasted the reference clock); spare the next one:
			// with a record queued the wait returns at once
			h.add(h.mk(1, 1))
		}
		if !stopped {
			h.stop()
		}
		// a held worker is stepped to the select that has to see the stop request.  One that goes past it ("poll"
		// again) has already been reported; it is then ended through the sender's own cancel function.
		missed := false
		for i := 0; i < 8 && h.parkedAt != "" && !missed; i++ {
			switch h.step() {
			case "poll":
				missed = true
			case "stop", "exit", "hang", "":
				i = 8
			}
		}
		if missed {
			h.s.StopForVerif()
		}
		h.gated.Store(false)
		if h.parkedAt != "" {
			h.parkedAt = ""
			h.resume <- struct{}{}
		}
		tm := time.NewTimer(20 * time.Second)
		select {
		case <-h.done:
		case <-tm.C:
			// not a judgement (the log tells TLC what the worker did after the stop request): only a way to end the history
			h.s.StopForVerif()
			tm.Reset(waitMax)
			select {
			case <-h.done:
			case <-tm.C:
				h.fail(fmt.Errorf("worker did not return within %v of the stop request", waitMax))
			}
		}
		tm.Stop()
	}
	h.mu.Lock()
	ks := append([]kept{}, h.retained...)
	np, nr := h.npacks, h.nrefused
	h.mu.Unlock()
	if len(ks) > 40 {
		ks = ks[len(ks)-40:]
	}
	for _, k := range ks {
		h.peek(k)
	}
	h.t.Emit(core.Ev{"ev": "End", "npacks": np, "nrefused": nr})
}

func newHist(c *core.Ctx, t *sink, gen string, cas int, nondet bool) *hist {
	h := &hist{c: c, t: t, arrived: make(chan string, 4), resume: make(chan struct{}), done: make(chan struct{}), newLogged: make(chan struct{}),
		recs: map[*pack.LogSinkPack]*rec{}}
	extra := core.Ev{}
	if nondet {
		extra["nondet"] = true
	}
	t.Reset(gen, cas, extra)
	return h
}

// ---------------------------------------------------------------- generators

// runToPoll steps the held worker until it is about to wait on the queue again (or returned)
func (h *hist) runToPoll() string {
	for i := 0; i < 64; i++ {
		p := h.step()
		if p == "poll" || p == "exit" || p == "hang" || p == "" || p == "stop" {
			return p
		}
		h.peekLast(2)
	}
	return h.parkedAt
}

func selfHistory(c *core.Ctx, t *sink, gen string, cas int) error {
	h := newHist(c, t, gen, cas, false)
	h.keepMode = 1
	base := len(newRec(1, 1, 0).enc)
	h.create("queue", true, settings{int64(2*base + 10), 20, int64(2*base + 10), 2}, true)
	if h.err != nil {
		return h.err
	}
	r1, r2, r3 := h.mk(1, 0), h.mk(3, 4), h.mk(4, 200)
	h.add(r1)
	h.add(r2)
	h.add(r3)     // refused: the queue holds 2
	h.runToPoll() // take r1, append
	h.runToPoll() // take r2, append
	h.runToPoll() // idle: flush (2 records, zipped)
	r4 := h.mk(9, 1)
	h.add(r4)
	h.runToPoll()
	h.add(h.mk(40, 2)) // 31 later than r4: due by time
	h.runToPoll()
	h.add(h.mk(41, 600)) // due by size
	h.runToPoll()
	h.sendDirect([]*rec{h.mk(50, 0), h.mk(50, 3), h.mk(50, 300)})
	h.add(h.mk(60, 1))
	h.add(h.mk(61, 2))
	h.finish(false)
	t.Count(fmt.Sprintf("%s/%d", gen, cas), true)
	return h.err
}

// the schedules of the design counterexamples
func cexHistory(c *core.Ctx, t *sink, cas int) error {
	h := newHist(c, t, "cex", cas, false)
	h.keepMode = 1
	big := int64(1 << 20)
	switch cas {
	case 0: // worker path: retain an uncompressed pack, then append into the reset buffer
		h.create("queue", true, settings{big, 15, big, 0}, true)
		if h.err != nil {
			return h.err
		}
		h.add(h.mk(1, 12))
		h.runToPoll()
		h.runToPoll() // idle: pack 1 handed over uncompressed and retained
		h.add(h.mk(2, 12))
		h.runToPoll() // written over the bytes pack 1 still points at (as found)
		h.peekLast(1)
		h.add(h.mk(3, 5))
		h.runToPoll()
		h.finish(false)
	case 1: // SendDirect: the call-local buffer is reused between its packs
		h.create("direct", true, settings{1, 15, big, 0}, false)
		if h.err != nil {
			return h.err
		}
		h.sendDirect([]*rec{h.mk(1, 10), h.mk(1, 10), h.mk(1, 3)})
		h.finish(false)
	case 2: // stop with records still queued
		h.create("queue", true, settings{big, 15, 0, 0}, true)
		if h.err != nil {
			return h.err
		}
		h.add(h.mk(1, 3))
		h.runToPoll()
		h.add(h.mk(2, 4))
		h.add(h.mk(3, 5))
		h.stop()
		h.finish(true)
	case 3: // creation without settings
		h.create("queue", false, settings{}, true)
		if h.err != nil {
			return h.err
		}
		h.add(h.mk(1, 3))
		h.stop()
		h.finish(true)
	case 4: // a configuration that names nothing / one thing
		h.create("direct", true, settings{1, 1, 1, 1}, false)
		if h.err != nil {
			return h.err
		}
		h.applyConfig(map[string]int{})
		h.applyConfig(map[string]int{"max_buffer_size": 77})
		h.appendCall(h.mk(1, 100))
		h.finish(false)
	}
	t.Count(fmt.Sprintf("cex/%d", cas), true)
	return h.err
}

// thresholds placed on and next to sizes that will really occur
func pickSettings(rng *rand.Rand, base int) settings {
	bufs := []int64{-1, 0, 1, int64(base), int64(base) + 1, int64(2 * base), int64(2*base) + 7, int64(3*base) + 40, int64(4 * base), int64(5*base) + 3,
		200, 400, 1000, 1 << 20, 1 << 20}
	waits := []int64{-5, 0, 1, 3, 8, 15}
	zips := []int64{-1, 0, 1, int64(base) - 1, int64(base), int64(base) + 1, int64(2*base) + 3, 100, 101, 400, 1 << 20}
	caps := []int64{-1, 0, 1, 2, 3, 6}
	return settings{bufs[rng.Intn(len(bufs))], waits[rng.Intn(len(waits))], zips[rng.Intn(len(zips))], caps[rng.Intn(len(caps))]}
}

func pickClen(rng *rand.Rand) int {
	switch rng.Intn(6) {
	case 0:
		return 0
	case 1:
		return rng.Intn(4)
	case 2:
		return 40 + rng.Intn(80)
	case 3:
		return 250 + rng.Intn(10) // around the long-text length prefix
	default:
		return rng.Intn(30)
	}
}

func pickConfig(rng *rand.Rand, base int) map[string]int {
	m := map[string]int{}
	s := pickSettings(rng, base)
	if rng.Intn(2) == 0 {
		m["max_buffer_size"] = int(s.maxBuf)
	}
	if rng.Intn(2) == 0 {
		m["max_wait_time"] = int(s.maxWait)
	}
	if rng.Intn(2) == 0 {
		m["logsink_zip_min_size"] = int(s.zipMin)
	}
	if rng.Intn(3) == 0 {
		m["logsink_queue_size"] = int(s.qCap)
	}
	return m
}

func gatedHistory(c *core.Ctx, t *sink, cas int) error {
	rng := c.Rng("gated", cas)
	h := newHist(c, t, "gated", cas, false)
	h.keepMode = rng.Intn(3)
	h.failErr = rng.Intn(3) == 0
	base := len(newRec(1, 1, 0).enc)
	s := pickSettings(rng, base)
	h.create("queue", true, s, true)
	if h.err != nil {
		return h.err
	}
	nrec := gatedOps(h, rng, s, 15+rng.Intn(c.Pick(45, 90)))
	t.Count(fmt.Sprintf("gated/%d/%d/%d/%d/%d", s.maxBuf, s.maxWait, s.zipMin, s.qCap, nrec), nrec >= 2)
	if cas < 2 {
		t.Sample(map[string]interface{}{"gen": "gated", "case": cas, "settings": s.ev(), "records": nrec, "keep_mode": h.keepMode})
	}
	return h.err
}

// gatedOps: a random history on a sender whose worker is held at its first "poll": adds while the worker is held
// and while it waits, single steps and runs of steps, SendDirect, configuration updates, the stop request (through
// h.via) anywhere in the second half, re-reading retained packs; ends the history.  cur = the settings in force.
func gatedOps(h *hist, rng *rand.Rand, cur settings, nops int) (nrec int) {
	base := len(newRec(1, 1, 0).enc)
	qlen := 0 // records certainly still queued at most (upper bound kept by the harness for in-flight adds)
	now := int64(1 + rng.Intn(3))
	stopped := false
	for i := 0; i < nops && h.err == nil && h.parkedAt != "" && !h.overrun; i++ {
		switch k := rng.Intn(24); {
		case k >= 20: // let the worker run several steps
			for j := 0; j < 2+rng.Intn(4) && h.parkedAt != "" && h.err == nil; j++ {
				if p := h.step(); p == "take" && qlen > 0 {
					qlen--
				}
				h.peekLast(1)
			}
		case k < 5 && !stopped: // add while the worker is held
			if rng.Intn(4) > 0 {
				now += int64(rng.Intn(7))
			} else if now > 3 && rng.Intn(3) == 0 {
				now -= int64(rng.Intn(3)) // record times need not be monotone
			}
			h.add(h.mkAny(rng, now, pickClen(rng)))
			nrec++
			qlen++
		case k < 7 && !stopped && h.parkedAt == "poll" && (cur.qCap <= 0 || int64(qlen)+1 < cur.qCap):
			// add while the worker is inside its timed wait
			now += int64(rng.Intn(5))
			h.addInflight(h.mkAny(rng, now, pickClen(rng)))
			nrec++
			qlen++
		case k < 16:
			before := h.parkedAt
			p := h.step()
			if p == "take" && qlen > 0 {
				qlen--
			}
			if before == "append" || p == "append" || p == "reset" {
				h.peekLast(2)
			}
		case k == 16:
			h.sendDirect(mkBatch(h, rng, now))
		case k == 17 && !stopped:
			m := pickConfig(rng, base)
			if _, ok := m["max_wait_time"]; !ok {
				// an absent key means the built-in 5 s, and every expiry of the worker's timed wait would really take
				// that long: here the key is always named (absent keys: reconf, direct mode and cex/4)
				m["max_wait_time"] = 1 + rng.Intn(12)
			}
			h.applyConfig(m)
			if v, ok := m["logsink_queue_size"]; ok {
				cur.qCap = int64(v)
			} else {
				cur.qCap = 1000
			}
		case k == 18 && !stopped && i > nops/2:
			h.stop()
			stopped = true
		default:
			h.peekLast(3)
		}
	}
	h.finish(stopped)
	return nrec
}

// ---- the stop request meets a sender that holds records in its buffer AND in its queue
//
// What is emitted after the stop request must continue the order: the buffered (older) records first, the queued
// (newer) ones behind them, wherever the limits in force cut the packs.  The worker is at its wait or in the
// middle of taking / appending a record when the request is made; a SendDirect call may come in between; some
// queued records cannot be encoded.
func stopmixHistory(c *core.Ctx, t *sink, cas int) error {
	rng := c.Rng("stopmix", cas)
	h := newHist(c, t, "stopmix", cas, false)
	h.keepMode = rng.Intn(3)
	h.failErr = rng.Intn(4) == 0
	base := len(newRec(1, 1, 0).enc)
	big := int64(1 << 20)
	bufs := []int64{big, big, big, int64(3*base) + 40, int64(2*base) + 7, int64(5*base) + 3, 400, 0}
	waits := []int64{15, 8, 3, 15, 0, -5, 1}
	zips := []int64{0, int64(base), int64(2*base) + 3, 100, big}
	caps := []int64{0, 0, -1, 6, 8}
	s := settings{bufs[rng.Intn(len(bufs))], waits[rng.Intn(len(waits))], zips[rng.Intn(len(zips))], caps[rng.Intn(len(caps))]}
	h.create("queue", true, s, true)
	if h.err != nil {
		return h.err
	}
	now := int64(1 + rng.Intn(5))
	nrec := 0
	small := func() int { return rng.Intn(6) }
	// 1. the buffer: records of one time (no limit of time is reached), each taken and appended before the next
	for j := 0; j < 1+rng.Intn(3) && h.parkedAt == "poll" && h.err == nil; j++ {
		h.add(h.mk(now, small()))
		nrec++
		h.runToPoll()
	}
	// 2. the queue: newer records (one of them may be impossible to encode)
	nq := 1 + rng.Intn(4)
	for j := 0; j < nq; j++ {
		if rng.Intn(3) == 0 {
			now += int64(rng.Intn(4))
		}
		if rng.Intn(6) == 0 {
			h.add(h.mkAny(rng, now, pickClen(rng)))
		} else {
			h.add(h.mk(now, pickClen(rng)))
		}
		nrec++
	}
	// 3. where the worker is when the request is made: at its wait, or 1..2 steps into the first queued record
	for j := rng.Intn(3); j > 0 && h.parkedAt != "" && h.err == nil; j-- {
		if p := h.step(); p == "take" {
			nq--
		}
	}
	if rng.Intn(5) == 0 {
		h.sendDirect(mkBatch(h, rng, now))
	}
	st := h.s.SettingsForVerif() // the worker is held
	both := st.BufLen > 0 && st.QueueLen > 0
	h.stop()
	// 4. the drain, hook by hook (retained packs are read again while the next records are appended) or in one go
	if rng.Intn(2) == 0 {
		for j := 0; j < 40 && h.parkedAt != "" && h.err == nil; j++ {
			if p := h.step(); p == "poll" || p == "hang" {
				break // (a worker that missed the request: reported; finish ends it)
			}
			h.peekLast(2)
		}
	}
	h.finish(true)
	t.Count(fmt.Sprintf("stopmix/%d/%d/%d/%d/%d/%d", s.maxBuf, s.maxWait, s.zipMin, st.BufLen, st.QueueLen, nrec), both)
	if cas < 1 {
		t.Sample(map[string]interface{}{"gen": "stopmix", "case": cas, "settings": s.ev(), "buffered_bytes_at_stop": st.BufLen, "queued_at_stop": st.QueueLen})
	}
	return h.err
}

// ---- the waiting time in force changes while the worker runs

// toPoll steps the held worker until it is held at "poll" again; the caller makes sure that the queue is not
// empty when a long waiting time is in force (the timed wait then returns at once)
func (h *hist) drainHeld(qlen int) {
	for ; qlen > 0 && h.err == nil && h.parkedAt != "" && !h.overrun; qlen-- {
		h.runToPoll()
	}
}

func reconfHistory(c *core.Ctx, t *sink, cas int) error {
	rng := c.Rng("reconf", cas)
	h := newHist(c, t, "reconf", cas, false)
	h.keepMode = rng.Intn(3)
	base := len(newRec(1, 1, 0).enc)
	big := int64(1 << 20)
	short := func() int64 { return int64(3 + rng.Intn(10)) }
	long := func() int64 { return int64(2000 + rng.Intn(3000)) }
	zips := []int64{0, int64(base), int64(2*base) + 3, 100, big}
	var cur settings
	switch cas % 3 {
	case 0: // created the way an application does: the built-in 5 s are in force
		cur = settings{65536, 5000, 100, 1000}
		h.create("queue", false, settings{}, true)
	case 1:
		cur = settings{big, long(), zips[rng.Intn(len(zips))], 0}
		h.create("queue", true, cur, true)
	default:
		cur = settings{big, short(), zips[rng.Intn(len(zips))], 0}
		h.create("queue", true, cur, true)
	}
	if h.err != nil {
		return h.err
	}
	now := int64(5)
	nph := 3 + rng.Intn(c.Pick(3, 6))
	nrec, nidle := 0, 0
	for ph := 0; ph < nph && h.err == nil && h.parkedAt == "poll" && !h.overrun; ph++ {
		// here the worker is held at "poll" and the queue is empty
		m := map[string]int{}
		switch {
		case ph < nph-1 && cur.maxWait < 1000 && rng.Intn(4) == 0:
			cur.maxWait = int64(-rng.Intn(3) * (1 + rng.Intn(4))) // 0 (two in three) or negative: a wait of no length
			m["max_wait_time"] = int(cur.maxWait)
		case ph == nph-1 || cur.maxWait >= 1000 || rng.Intn(3) > 0:
			cur.maxWait = short()
			m["max_wait_time"] = int(cur.maxWait)
		case rng.Intn(3) == 0:
			cur.maxWait = 5000 // not named: the built-in one
		default:
			cur.maxWait = long()
			m["max_wait_time"] = int(cur.maxWait)
		}
		if rng.Intn(2) == 0 {
			m["max_buffer_size"] = int(big)
		}
		if rng.Intn(2) == 0 {
			m["logsink_zip_min_size"] = int(zips[rng.Intn(len(zips))])
		}
		// the update arrives while the worker is at its "poll" step, or in the middle of handling a record
		n := 1 + rng.Intn(3)
		now += int64(rng.Intn(3))
		mid := rng.Intn(3) == 0
		if mid {
			h.add(h.mkAny(rng, now, pickClen(rng)))
			nrec++
			for j := 0; j < 1+rng.Intn(2); j++ { // "take", "append"
				h.step()
			}
			n--
		}
		h.applyConfig(m)
		if mid && h.parkedAt != "poll" { // (a record that cannot be encoded is dealt with in one step)
			h.runToPoll()
		}
		// a batch of records of the same time: neither the size nor the record times make it due
		for j := 0; j < n; j++ {
			h.add(h.mkAny(rng, now, pickClen(rng)))
			nrec++
		}
		h.drainHeld(n)
		if cur.maxWait < 1000 && h.parkedAt == "poll" {
			h.runToPoll() // nothing queued: only the expiry of the timed wait flushes the batch
			nidle++
		}
		h.peekLast(2)
	}
	h.finish(false)
	t.Count(fmt.Sprintf("reconf/%d/%d/%d", cas%3, nph, nrec), nidle >= 1)
	return h.err
}

// ---- every way the public API offers to create and to stop a sender

type ctxKey struct{}

// apiHistory runs in a process of its own: GetInstance creates THE instance of the process.
func apiHistory(c *core.Ctx, t *sink, cas int) error {
	rng := c.Rng("api", cas)
	h := newHist(c, t, "api", cas, false)
	h.keepMode = rng.Intn(3)
	h.failErr = rng.Intn(4) == 0
	h.mode = "queue"
	h.gated.Store(true)
	root, rootCancel := context.WithCancel(context.Background())
	defer rootCancel()
	opts := []zip.ZipSendProxyThreadOption{zip.WithTcpClient(h), zip.WithUseQueue()}
	h.stops = map[string]func(){"own": func() { h.s.StopForVerif() }}
	h.ctxk = "none"
	switch cas % 5 {
	case 0: // no context
	case 1: // a context and its cancel function
		ctx, cancel := context.WithCancel(root)
		opts = append(opts, zip.WithContext(ctx, cancel))
		h.ctxk, h.stops["given"], h.stops["parent"] = "both", func() { cancel() }, func() { rootCancel() }
	case 2: // a context alone: its owner keeps the cancel function
		ctx, cancel := context.WithCancel(root)
		opts = append(opts, zip.WithContext(ctx, nil))
		h.ctxk, h.stops["parent"] = "ctx", func() { cancel() }
	case 3: // a context derived twice (far deadline, value), alone: an ancestor is cancelled
		mid, midCancel := context.WithTimeout(root, time.Hour)
		defer midCancel()
		ctx := context.WithValue(mid, ctxKey{}, cas)
		opts = append(opts, zip.WithContext(ctx, nil))
		h.ctxk, h.stops["parent"] = "ctx", func() { rootCancel() }
	case 4: // a context with a far deadline and its cancel function
		ctx, cancel := context.WithTimeout(root, time.Hour)
		opts = append(opts, zip.WithContext(ctx, cancel))
		h.ctxk, h.stops["given"], h.stops["parent"] = "both", func() { cancel() }, func() { rootCancel() }
	}
	vias := []string{}
	for v := range h.stops {
		vias = append(vias, v)
	}
	sort.Strings(vias)
	sort.SliceStable(vias, func(i, j int) bool { return vias[i] == "parent" && vias[j] != "parent" }) // the context's owner first
	h.via = vias[(cas/5)%len(vias)]
	if (cas/5)%2 == 1 { // the configuration reaches the sender through an observer it registered with
		obs := config.NewConfigObserver()
		opts = append(opts, zip.WithConfigObserver(obs))
		h.deliver = func(m map[string]int) { obs.Run(&mapConfig{m}) }
	}
	h.guard("New", func() { h.s = zip.GetInstance(opts...) })
	h.created("queue", false, settings{})
	if h.err != nil {
		return h.err
	}
	// the built-in 5 s are in force: a short waiting time is configured before the worker waits for the first time
	base := len(newRec(1, 1, 0).enc)
	m := pickConfig(rng, base)
	m["max_wait_time"] = 3 + rng.Intn(10)
	h.applyConfig(m)
	cur := settings{qCap: 1000}
	if v, ok := m["logsink_queue_size"]; ok {
		cur.qCap = int64(v)
	}
	nrec := gatedOps(h, rng, cur, 12+rng.Intn(c.Pick(30, 60)))
	t.Count(fmt.Sprintf("api/%d/%s/%d", cas%5, h.via, nrec), true)
	return h.err
}

func mkBatch(h *hist, rng *rand.Rand, now int64) []*rec {
	n := rng.Intn(5)
	rs := []*rec{}
	for j := 0; j < n; j++ {
		rs = append(rs, h.mkAny(rng, now, pickClen(rng)))
	}
	return rs
}

func directHistory(c *core.Ctx, t *sink, cas int) error {
	rng := c.Rng("direct", cas)
	h := newHist(c, t, "direct", cas, false)
	h.keepMode = rng.Intn(3)
	h.failErr = rng.Intn(3) == 0
	base := len(newRec(1, 1, 0).enc)
	s := pickSettings(rng, base)
	h.create("direct", true, s, false)
	if h.err != nil {
		return h.err
	}
	now := int64(1 + rng.Intn(3))
	nops := 6 + rng.Intn(c.Pick(14, 30))
	nrec := 0
	for i := 0; i < nops; i++ {
		switch k := rng.Intn(10); {
		case k < 6:
			now += int64(rng.Intn(7))
			h.appendCall(h.mkAny(rng, now, pickClen(rng)))
			nrec++
			h.peekLast(2)
		case k < 8:
			b := mkBatch(h, rng, now)
			nrec += len(b)
			h.sendDirect(b)
		case k == 8:
			h.applyConfig(pickConfig(rng, base))
		default:
			h.peekLast(3)
		}
	}
	h.finish(false)
	t.Count(fmt.Sprintf("direct/%d/%d/%d/%d", s.maxBuf, s.maxWait, s.zipMin, nrec), nrec >= 2)
	return h.err
}

// a sender created without settings: each built-in setting decides something observable
func defaultsHistory(c *core.Ctx, t *sink, cas int) error {
	h := newHist(c, t, "defaults", cas, false)
	h.keepMode = 1
	switch cas {
	case 0, 2: // 5 s of record time; (2) a queue of 1000
		h.create("queue", false, settings{}, true)
		if h.err != nil {
			return h.err
		}
		n := 7
		if cas == 2 {
			n = 1001 // the last one does not fit into a queue of 1000
		}
		for i := 0; i < n; i++ {
			tm := int64(10)
			if i == 3 {
				tm = 5009 // 4999 after the first: not yet due
			}
			if i == 4 {
				tm = 5010 // 5000 after the first: due
			}
			h.add(h.mk(tm, 2))
		}
		for i := 0; i < 5; i++ {
			h.runToPoll()
		}
		h.stop() // the rest is drained
		h.finish(true)
	case 1: // 64 KiB and compress-from-100, through Append and SendDirect
		h.create("direct", false, settings{}, false)
		if h.err != nil {
			return h.err
		}
		h.sendDirect([]*rec{h.mkSize(7, 99)})
		h.sendDirect([]*rec{h.mkSize(7, 100)})
		for i := 0; i < 7; i++ {
			h.appendCall(h.mkSize(20, 8192))
		}
		h.appendCall(h.mkSize(20, 8191)) // 65535 bytes: not due
		h.appendCall(h.mkSize(20, 60))   // now it is
		h.appendCall(h.mkSize(30, 65536))
		h.appendCall(h.mkSize(31, 70))
		h.appendCall(h.mkSize(5031, 70)) // 5000 after the first
		h.finish(false)
	}
	t.Count(fmt.Sprintf("defaults/%d", cas), true)
	return h.err
}

// nothing held: producer, SendDirect caller and worker run concurrently
func freeHistory(c *core.Ctx, t *sink, cas int) error {
	rng := c.Rng("free", cas)
	h := newHist(c, t, "free", cas, true)
	h.keepMode = rng.Intn(3)
	base := len(newRec(1, 1, 0).enc)
	s := pickSettings(rng, base)
	s.qCap = []int64{0, -1, 100000}[rng.Intn(3)] // a full queue's refusal cannot be ordered against the worker
	s.maxWait = []int64{5, 9, 20}[rng.Intn(3)]   // a non-positive wait makes the free worker spin
	h.create("queue", true, s, false)
	if h.err != nil {
		return h.err
	}
	nrec := 8 + rng.Intn(c.Pick(30, 120))
	var rs []*rec
	now := int64(1)
	for i := 0; i < nrec; i++ {
		now += int64(rng.Intn(6))
		rs = append(rs, h.mkAny(rng, now, pickClen(rng)))
	}
	var batches [][]*rec
	for i := 0; i < 1+rng.Intn(3); i++ {
		batches = append(batches, mkBatch(h, rng, now))
	}
	pauses := make([]int, nrec)
	for i := range pauses {
		pauses[i] = rng.Intn(12)
	}
	var wg sync.WaitGroup
	wg.Add(2)
	go func() {
		defer wg.Done()
		for i, r := range rs {
			h.add(r)
			switch {
			case pauses[i] == 0:
				time.Sleep(time.Duration(s.maxWait+2) * time.Millisecond) // long enough for an idle flush, usually
			case pauses[i] < 4:
				runtime.Gosched()
			case pauses[i] == 4:
				time.Sleep(200 * time.Microsecond)
			}
		}
	}()
	go func() {
		defer wg.Done()
		for _, b := range batches {
			time.Sleep(300 * time.Microsecond)
			h.sendDirect(b)
		}
	}()
	wg.Wait()
	h.finish(false)
	t.Count(fmt.Sprintf("free/%d/%d/%d/%d", s.maxBuf, s.maxWait, s.zipMin, nrec), true)
	return h.err
}

// ---------------------------------------------------------------- driver

// sink is where a history's events go in the process that runs it: one line per event, written at once (no
// buffer), so that whatever was recorded before a crash of the process is on disk.  Counts and samples travel
// the same way (lines "_count" / "_sample": the supervising process takes them out again).
type sink struct {
	mu   sync.Mutex
	f    *os.File
	seed int64
	tier string
}

func (t *sink) Emit(ev core.Ev) {
	b, err := json.Marshal(ev)
	if err != nil {
		panic(err)
	}
	t.mu.Lock()
	defer t.mu.Unlock()
	t.f.Write(append(b, '\n'))
}

func (t *sink) Reset(gen string, cas int, extra core.Ev) {
	ev := core.Ev{"ev": "Reset", "gen": gen, "case": cas, "seed": t.seed, "tier": t.tier}
	for k, v := range extra {
		ev[k] = v
	}
	t.Emit(ev)
}

func (t *sink) Count(key string, nontrivial bool) {
	t.Emit(core.Ev{"ev": "_count", "key": key, "nt": nontrivial})
}
func (t *sink) Sample(s interface{}) { t.Emit(core.Ev{"ev": "_sample", "s": s}) }

type genDef struct {
	name  string
	n     int
	chunk int // histories per process (api: 1, GetInstance creates THE instance of the process)
	free  bool
	f     func(c *core.Ctx, t *sink, cas int) error
}

func gens(c *core.Ctx) []genDef {
	return []genDef{
		{"self", 1, 1, false, func(c *core.Ctx, t *sink, cas int) error { return selfHistory(c, t, "self", cas) }},
		{"cex", 5, 5, false, cexHistory},
		{"gated", c.Pick(120, 1000), 40, false, gatedHistory},
		{"stopmix", c.Pick(40, 300), 40, false, stopmixHistory},
		{"direct", c.Pick(60, 500), 60, false, directHistory},
		{"defaults", c.Pick(2, 3), 3, false, defaultsHistory},
		{"reconf", c.Pick(12, 90), 15, false, reconfHistory},
		{"api", c.Pick(15, 60), 1, false, apiHistory},
		{"free", c.Pick(16, 150), 40, true, freeHistory},
	}
}

const childEnv = "VERIF_C16_CHILD" // "gen:lo:hi": this process runs histories lo..hi-1 of gen and writes events.ndjson

// runChild: the histories themselves (real senders live in this process)
func runChild(c *core.Ctx, what string) error {
	parts := strings.Split(what, ":")
	if len(parts) != 3 {
		return fmt.Errorf("bad %s=%q", childEnv, what)
	}
	lo, _ := strconv.Atoi(parts[1])
	hi, _ := strconv.Atoi(parts[2])
	f, err := os.Create(filepath.Join(c.OutDir, "events.ndjson"))
	if err != nil {
		return err
	}
	defer f.Close()
	t := &sink{f: f, seed: c.Seed, tier: c.Tier}
	for _, g := range gens(c) {
		if g.name != parts[0] {
			continue
		}
		for cas := lo; cas < hi; cas++ {
			if err := g.f(c, t, cas); err != nil {
				return fmt.Errorf("%s/%d: %v", g.name, cas, err)
			}
		}
		return nil
	}
	return fmt.Errorf("no generator %q", parts[0])
}

// crashOfSender: the output of a process that died.  A Go panic / fatal error whose crashing goroutine was started
// by golib and whose innermost non-runtime frame is golib code is behaviour of the code under test (the sender's
// worker took the process down): (one-line description, true).  Anything else is a failure of the harness.
func crashOfSender(out string) (string, bool) {
	i := strings.Index(out, "panic: ")
	if j := strings.Index(out, "fatal error: "); i < 0 || (j >= 0 && j < i) {
		i = j
	}
	if i < 0 {
		return "", false
	}
	msg := strings.SplitN(out[i:], "\n", 2)[0]
	k := strings.Index(out[i:], "\ngoroutine ")
	if k < 0 {
		return "", false
	}
	block := out[i+k+1:]
	if e := strings.Index(block, "\n\n"); e >= 0 {
		block = block[:e]
	}
	if !strings.Contains(block, "[running]") || !strings.Contains(block, "\ncreated by github.com/whatap/golib/") {
		return "", false
	}
	for _, ln := range strings.Split(block, "\n")[1:] {
		if ln == "" || ln[0] == '\t' || strings.HasPrefix(ln, "panic(") || strings.HasPrefix(ln, "runtime.") || strings.HasPrefix(ln, "runtime/") {
			continue
		}
		if strings.HasPrefix(ln, "github.com/whatap/golib/") {
			if len(msg) > 200 {
				msg = msg[:200]
			}
			if k := strings.LastIndex(ln, "("); k > 0 {
				ln = ln[:k]
			}
			return msg + " at " + ln, true
		}
		return "", false
	}
	return "", false
}

// runChunk runs histories lo..hi-1 of g in a process of their own and copies what that process recorded into t.
// A process that the sender's own goroutine took down (crashOfSender) is recorded: the history it was in ends
// with an event Crash (the specification has no action for it), and next = the history to go on with.
func runChunk(c *core.Ctx, t *core.Trace, g genDef, lo, hi int) (next int, err error) {
	exe, err := os.Executable()
	if err != nil {
		return hi, err
	}
	sub := filepath.Join(c.OutDir, fmt.Sprintf("run-%s-%d", g.name, lo))
	if err := os.MkdirAll(sub, 0o755); err != nil {
		return hi, err
	}
	args := []string{"-tier", c.Tier, "-seed", strconv.FormatInt(c.Seed, 10), "-out", sub}
	if len(c.Args) > 0 {
		kv := []string{}
		for k, v := range c.Args {
			kv = append(kv, k+"="+v)
		}
		sort.Strings(kv)
		args = append(args, "-args", strings.Join(kv, ","))
	}
	ctx, cancel := context.WithTimeout(context.Background(), 20*time.Minute)
	defer cancel()
	cmd := exec.CommandContext(ctx, exe, append(args, "c16")...)
	cmd.Dir = sub
	cmd.Env = append(os.Environ(), fmt.Sprintf("%s=%s:%d:%d", childEnv, g.name, lo, hi))
	cmd.SysProcAttr = &syscall.SysProcAttr{Pdeathsig: syscall.SIGKILL}
	out, runErr := cmd.CombinedOutput()
	crash, crashed := "", false
	if runErr != nil {
		if crash, crashed = crashOfSender(string(out)); !crashed {
			if len(out) > 4000 {
				out = out[len(out)-4000:]
			}
			return hi, fmt.Errorf("the process running histories %d..%d failed (not through a goroutine of the sender): %v: %s", lo, hi-1, runErr, out)
		}
	}
	f, err := os.Open(filepath.Join(sub, "events.ndjson"))
	if err != nil {
		return hi, err
	}
	defer f.Close()
	sc := bufio.NewScanner(f)
	sc.Buffer(make([]byte, 1<<20), 1<<28)
	n, last := 0, -1
	for sc.Scan() {
		raw := map[string]json.RawMessage{}
		if err := json.Unmarshal(sc.Bytes(), &raw); err != nil {
			if crashed {
				break // the line being written when the process died
			}
			return hi, fmt.Errorf("recorded events of %s/%d..: %v", g.name, lo, err)
		}
		var name string
		json.Unmarshal(raw["ev"], &name)
		switch name {
		case "_count":
			var key string
			var nt bool
			json.Unmarshal(raw["key"], &key)
			json.Unmarshal(raw["nt"], &nt)
			c.Count(key, nt)
			continue
		case "_sample":
			var v interface{}
			json.Unmarshal(raw["s"], &v)
			c.Sample(v)
			continue
		case "Reset":
			var cas int
			json.Unmarshal(raw["case"], &cas)
			last = cas
		}
		ev := core.Ev{}
		for k, v := range raw {
			ev[k] = v
		}
		ev["ev"] = name
		t.Emit(ev)
		n++
	}
	if err := sc.Err(); err != nil {
		return hi, err
	}
	if crashed {
		if last < 0 {
			return hi, fmt.Errorf("the process running %s/%d.. died before its first history: %s", g.name, lo, crash)
		}
		t.Emit(core.Ev{"ev": "Crash", "msg": crash})
		c.Count(fmt.Sprintf("crash/%s/%d", g.name, last), true)
		os.RemoveAll(sub)
		return last + 1, nil
	}
	if n == 0 {
		return hi, errors.New("child process wrote no events")
	}
	os.RemoveAll(sub)
	return hi, nil
}

func Run(c *core.Ctx) error {
	if what := os.Getenv(childEnv); what != "" {
		return runChild(c, what)
	}
	c.Rule = "one history = one fresh sender (verif constructor) with settings drawn on and next to sizes that really occur " +
		"(buffer -1..1 MiB, wait -5..15, zip threshold -1..1 MiB, queue -1..6, or none = built-in), records of 0..260 content bytes with " +
		"virtual times, a client that consumes / retains / mixes and sometimes reports an error; queue mode stepped hook by hook " +
		"(adds while held and while the worker waits, SendDirect, configuration updates, stop anywhere), direct mode (Append, SendDirect), " +
		"free-running concurrent runs; about one record in eight cannot be encoded by the pack layer (no tag map, nil pointer); " +
		"stopmix: the stop request arrives while the buffer holds 1..3 records AND 1..4 newer ones are queued (the worker at its wait, or in the middle of " +
		"taking / appending one), drained hook by hook; " +
		"reconf: waiting time switched between 0 / negative, 3..12 ms and 1.5..5 s (named or absent) while the worker runs, each switch followed by a batch only the idle " +
		"time-out flushes, timed by the reference clock; api: public GetInstance in a process of its own, context none / alone / with cancel function / derived, " +
		"stopped by own / given cancel function or the context's owner, configuration by ApplyConfig or ConfigObserver; " +
		"histories run in child processes (a process the sender's worker takes down is recorded as event Crash); " +
		"non-trivial = at least 2 records (reconf: at least one idle flush; stopmix: buffer and queue both non-empty at the stop request); distinct by (settings, number of records)"
	tg := c.Trace("c16_gate", "Trace_ZipSender")
	tf := c.Trace("c16_free", "Trace_ZipSender")
	for _, g := range gens(c) {
		if !c.WantGen(g.name) {
			continue
		}
		t := tg
		if g.free {
			t = tf
		}
		lo, n := 0, g.n
		if c.OnlyGen == g.name && c.OnlyCase >= 0 {
			lo, n = c.OnlyCase, c.OnlyCase+1
		}
		for lo < n {
			hi := lo + g.chunk
			if hi > n {
				hi = n
			}
			next, err := runChunk(c, t, g, lo, hi)
			if err != nil {
				return fmt.Errorf("%s: %v", g.name, err)
			}
			if next < hi {
				hi = next // a crash: go on behind the history it happened in
			}
			lo = hi
		}
	}
	return nil
}
