package c19

// Histories of gen "conc": the helpers are functions of the instant alone UNDER CONCURRENT USE.
//
// The exported helpers all go through one process-wide DateTimeHelper, and agents call them from
// many goroutines.  Every other generator of this driver is single-threaded (the sweep is parallel,
// but every worker looks at its own days and nothing of it is recorded), so anything the helpers
// keep in the shared object or at package level while they compute (a scratch buffer, a "last
// answer" field, a lazily built table row) is never touched by two callers at once.  Here 4 x
// GOMAXPROCS (at least 32) goroutines call every exported helper, GetYmdTime and FormatTime / Parse
// (each goroutine on DateFormat values of its OWN -- sharing one DateFormat value is outside the
// property, sharing the package is not) on a list of instants, each goroutine in an order of its
// own, for many rounds.  Half of the goroutines walk "instant by instant, every helper", the other
// half hammer ONE helper over all instants (two callers inside the same function is what a shared
// scratch value needs), and one more goroutine forces collections (each stops the world: running
// goroutines are descheduled wherever they are).
//
// Recorded per instant: what each helper returned before the goroutines started, and EVERY DISTINCT
// value any call returned during the concurrent phase.  One Obs event carries the first record; every
// further distinct value of a helper becomes one more Obs event of the same instant with that
// helper's field replaced (field "slot" names it).  FormatTime / Parse: one Prs event per distinct
// (text, result, error).  TLC judges each event against Helpers(t) / Format(p, t) / the round-trip
// law exactly like the events of the sequential generators.  The Go side only deduplicates.
// How many calls overlap depends on the scheduler: load can only lose detection.

import (
	"fmt"
	"math/rand"
	"runtime"
	"strconv"
	"sync"
	"sync/atomic"
	"time"

	"github.com/whatap/golib/util/dateutil"

	"verifharness/core"
)

const nSlots = 11 // ymd dt ts ymdhms hms hm wd du mu fu ytime

var slotNames = []string{"ymd", "dt", "ts", "ymdhms", "hms", "hm", "wd", "du", "mu", "fu", "yt"}

func callSlot(h int, t int64, ds string) string {
	switch h {
	case 0:
		return dateutil.YYYYMMDD(t)
	case 1:
		return dateutil.DateTime(t)
	case 2:
		return dateutil.TimeStamp(t)
	case 3:
		return dateutil.Ymdhms(t)
	case 4:
		return dateutil.HHMMSS(t)
	case 5:
		return dateutil.HHMM(t)
	case 6:
		return dateutil.WeekDay(t)
	case 7:
		return strconv.FormatInt(dateutil.GetDateUnit(t), 10)
	case 8:
		return strconv.FormatInt(dateutil.GetMinUnit(t), 10)
	case 9:
		return strconv.FormatInt(dateutil.GetFiveMinUnit(t), 10)
	default:
		return strconv.FormatInt(dateutil.GetYmdTime(ds), 10)
	}
}

type fmtRec struct {
	text string
	r    int64
	err  string
}

const maxSeen = 6

// seenSet keeps the distinct values one goroutine saw for one (instant, slot)
type seenSet struct {
	vals []string
	fmts []fmtRec
	msg  string
	n    int
}

func (s *seenSet) add(v string) {
	s.n++
	for _, x := range s.vals {
		if x == v {
			return
		}
	}
	if len(s.vals) < maxSeen {
		s.vals = append(s.vals, v)
	}
}

func (s *seenSet) addFmt(v fmtRec) {
	s.n++
	for _, x := range s.fmts {
		if x == v {
			return
		}
	}
	if len(s.fmts) < maxSeen {
		s.fmts = append(s.fmts, v)
	}
}

func fmtCall(df *dateutil.DateFormat, t int64) fmtRec {
	text := df.FormatTime(time.UnixMilli(t).UTC())
	r, err := df.Parse(text)
	rec := fmtRec{text: text, r: r}
	if err != nil {
		rec.err = err.Error()
	}
	return rec
}

// concInstants: instants that differ in every field, neighbours across boundaries of every unit,
// and several instants of one day / one second (a shared scratch value shows only if the
// overlapping callers would write different things)
func concInstants(rng *rand.Rand, n int) []instant {
	var offs []int64
	for u := 0; u < nUnits; u++ {
		B, _ := boundary(rng, u)
		offs = append(offs, B-1, B)
	}
	t := randOff(rng)
	offs = append(offs, t, t+1, t+999, t+msPerDay, 0, centuryMs()-1)
	for len(offs) < n {
		offs = append(offs, randOff(rng))
	}
	ins := inCentury(offs)
	rng.Shuffle(len(ins), func(i, j int) { ins[i], ins[j] = ins[j], ins[i] })
	return ins
}

func runConc(c *core.Ctx, tr func(string) *hist) {
	if !c.WantGen("conc") {
		return
	}
	total := c.Pick(4, 16)
	for cas := 0; cas < total; cas++ {
		if !c.Want("conc", cas) {
			continue
		}
		concCase(c, tr("c19_conc"), cas)
	}
}

func concCase(c *core.Ctx, t *hist, cas int) {
	rng := c.Rng("conc", cas)
	G := 4 * runtime.GOMAXPROCS(0)
	if G < 32 {
		G = 32
	}
	rounds := c.Pick(300, 600)
	ins := concInstants(rng, c.Pick(40, 64))
	n := len(ins)
	seq, pat := seqPattern(rng, 4*cas) // kind 0: every field
	_ = seq
	ts, ds := make([]int64, n), make([]string, n)
	for i, in := range ins {
		ts[i] = epoch(in.day, in.ms)
		ds[i] = time.UnixMilli(epoch(in.day, 0)).UTC().Format("20060102")
	}
	t.Reset("conc", cas, core.Ev{"goroutines": G, "rounds": rounds, "pattern": pat, "nondet": true})

	// before: one call of everything per instant, nobody else around
	first := make([][nSlots]string, n)
	firstFmt := make([]fmtRec, n)
	df0 := dateutil.NewDateFormat(pat)
	if p := core.Guard(func() {
		for i := range ins {
			for h := 0; h < nSlots; h++ {
				first[i][h] = callSlot(h, ts[i], ds[i])
			}
			firstFmt[i] = fmtCall(df0, ts[i])
		}
	}); p != "" {
		t.Emit(core.Ev{"ev": "Panic", "msg": p, "phase": "before"})
		return
	}

	seen := make([][][nSlots + 1]seenSet, G) // [goroutine][instant][slot]; slot nSlots = FormatTime/Parse
	var wg sync.WaitGroup
	var done int32
	start := make(chan struct{})
	base := rng.Int63()
	for g := 0; g < G; g++ {
		seen[g] = make([][nSlots + 1]seenSet, n)
		wg.Add(1)
		go func(g int) {
			defer wg.Done()
			r := rand.New(rand.NewSource(base + int64(g)))
			order := r.Perm(n)
			df := dateutil.NewDateFormat(pat) // this goroutine's own formatter
			one := -1                         // odd goroutines hammer one entry point
			if g%2 == 1 {
				one = (g / 2) % (nSlots + 1)
				if g%8 == 1 {
					one = 1 + (g/8)%2 // DateTime / TimeStamp: the two that assemble a text from parts
				}
			}
			<-start
			for k := 0; k < rounds; k++ {
				for _, i := range order {
					mine := &seen[g][i]
					if p := core.Guard(func() {
						for h := 0; h <= nSlots; h++ {
							if one >= 0 && h != one {
								continue
							}
							if h == nSlots {
								mine[h].addFmt(fmtCall(df, ts[i]))
							} else {
								mine[h].add(callSlot(h, ts[i], ds[i]))
							}
						}
					}); p != "" {
						mine[0].msg = p
					}
				}
				r.Shuffle(n, func(a, b int) { order[a], order[b] = order[b], order[a] })
			}
		}(g)
	}
	var pre sync.WaitGroup
	pre.Add(1)
	go func() {
		defer pre.Done()
		<-start
		for atomic.LoadInt32(&done) == 0 {
			runtime.GC()
			time.Sleep(300 * time.Microsecond)
		}
	}()
	close(start)
	wg.Wait()
	atomic.StoreInt32(&done, 1)
	pre.Wait()

	intOf := func(s string) int64 { v, _ := strconv.ParseInt(s, 10, 64); return v }
	obsEv := func(in instant, v [nSlots]string, ds string) core.Ev {
		h := helpers{ymd: v[0], dt: v[1], ts: v[2], ymdhms: v[3], hms: v[4], hm: v[5], wd: v[6], du: intOf(v[7]), mu: intOf(v[8]), fu: intOf(v[9])}
		ev := h.ev()
		ev["ev"], ev["day"], ev["ms"] = "Obs", in.day, in.ms
		ev["ds"] = core.Str(ds)
		ev["ytd"], ev["ytm"] = split(intOf(v[10]))
		return ev
	}
	prsEv := func(in instant, f fmtRec) core.Ev {
		rd, rms := split(f.r)
		ev := core.Ev{"ev": "Prs", "p": items(pat), "day": in.day, "ms": in.ms, "text": core.Str(f.text), "err": f.err != "",
			"rday": rd, "rms": rms, "pattern": pat}
		if f.err != "" {
			ev["msg"] = f.err
		}
		return ev
	}
	for i, in := range ins {
		calls := 0
		var all [nSlots + 1]seenSet
		msg := ""
		for g := 0; g < G; g++ {
			for h := 0; h <= nSlots; h++ {
				s := &seen[g][i][h]
				for _, v := range s.vals {
					all[h].add(v)
				}
				for _, v := range s.fmts {
					all[h].addFmt(v)
				}
				calls += s.n
				if s.msg != "" {
					msg = s.msg
				}
			}
		}
		if msg != "" {
			t.Emit(core.Ev{"ev": "Panic", "day": in.day, "ms": in.ms, "msg": msg, "phase": "concurrent"})
			return
		}
		ev := obsEv(in, first[i], ds[i])
		ev["calls"] = calls
		t.Emit(ev)
		for h := 0; h < nSlots; h++ {
			for _, v := range all[h].vals {
				if v == first[i][h] {
					continue
				}
				w := first[i]
				w[h] = v
				ev := obsEv(in, w, ds[i])
				ev["slot"], ev["concurrent"] = slotNames[h], true
				t.Emit(ev)
			}
		}
		t.Emit(prsEv(in, firstFmt[i]))
		for _, f := range all[nSlots].fmts {
			if f != firstFmt[i] {
				ev := prsEv(in, f)
				ev["concurrent"] = true
				t.Emit(ev)
			}
		}
		c.Count(fmt.Sprintf("conc:%d:%d", in.day, in.ms), true)
	}
}
