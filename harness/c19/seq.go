package c19

// Sequences of calls (gens "seq" and "fmtseq").
//
// Calendar.tla / DateFormat.tla say that every helper is a FUNCTION OF THE INSTANT ALONE (and of
// the pattern): Observe(t) sets obs' = Helpers(t) whatever `now` was, Format(p, t) has no state at
// all.  The generators "days", "fmt" and "sweepref" call the helpers once per instant, in ascending
// order, far apart -- the one region of "for all histories of calls" in which anything the
// implementation remembers between calls (the last answer, a per-object or package-level cache
// keyed by a coarser unit than the answer depends on, a bound that is off by one unit, a key that
// truncates the instant) can never show.  The generators here explore the rest of that region:
//
//   cross    t-1 ms, t, t-1 ms, t, t+1 ms ... around a boundary of every unit (second, minute,
//            five minutes, ten minutes, hour, day, month, year), both directions, repeated
//   bucket   several instants of ONE bucket of every unit (same second different millisecond,
//            same minute different second, ...), first and last millisecond of the bucket, repeats
//   period   t, t+U, t, t-U, t+U-1, t+U+1 ... for every unit length U (and a week, 28..31, 365
//            and 366 days, 2^31 and 2^32 ms): "exactly one unit later" with t anywhere / aligned
//   alter    far-apart instants alternating (a b a b a a b b c a c b), the two ends of the century
//   descend  random instants in descending order, millisecond / second / day steps downwards
//   onefield instants that differ from a base instant in exactly one calendar field
//   now      (seq only) the clock-reading variants YmdNow / TimeStampNow / GetDateUnitNow with the
//            library clock moved (SetDelta) to noon of a day, between explicit instants around that
//            day's edges
//
// seq: every instant is one Obs event with all ten helper outputs and GetYmdTime of the day's text,
// judged byte for byte by TraceObs (MonotoneStep is evaluated along the history in both directions).
// The helpers are called instant by instant, instant by instant in reverse helper order, or helper
// by helper over the whole sequence (each helper back to back on consecutive instants).
// fmtseq: one DateFormat value is used for the whole sequence (pure FormatTime calls first, then
// FormatTime / FormatTime-Parse-FormatTime / Parse of an earlier text mixed over two formatters of
// the same pattern and one of another pattern), judged by TraceFmt / TraceRT / TracePrs.

import (
	"fmt"
	"math/rand"
	"sort"
	"time"

	"github.com/whatap/golib/util/dateutil"

	"verifharness/core"
)

func centuryMs() int64 { return int64(nDays) * msPerDay }

// off = milliseconds since 2000-01-01T00:00:00Z
func instOf(off int64) instant { return instant{int(off / msPerDay), int(off % msPerDay)} }
func offOf(in instant) int64   { return int64(in.day)*msPerDay + int64(in.ms) }

// the fixed-length units of the helpers (the library also has ten-minute and hour units)
var unitLens = []int64{1000, 60000, 300000, 600000, 3600000, msPerDay}

const nUnits = 8 // the six above, month, year

// boundary returns the start B of a bucket of unit u and the bucket's length
func boundary(rng *rand.Rand, u int) (int64, int64) {
	switch {
	case u < len(unitLens):
		U := unitLens[u]
		switch rng.Intn(6) {
		case 0: // a boundary of this unit that is a day boundary as well
			return int64(1+rng.Intn(nDays-1)) * msPerDay, U
		case 1: // ... and a month boundary
			return int64(dayOf(y0+rng.Intn(nYears), 1+rng.Intn(12), 1)) * msPerDay, U
		}
		return (1 + rng.Int63n(centuryMs()/U-1)) * U, U
	case u == len(unitLens): // month
		y, m := y0+rng.Intn(nYears), 1+rng.Intn(12)
		return int64(dayOf(y, m, 1)) * msPerDay, int64(dayOf(y, m+1, 1)-dayOf(y, m, 1)) * msPerDay
	default: // year
		y := y0 + rng.Intn(nYears)
		return int64(dayOf(y, 1, 1)) * msPerDay, int64(dayOf(y+1, 1, 1)-dayOf(y, 1, 1)) * msPerDay
	}
}

func randOff(rng *rand.Rand) int64 { return rng.Int63n(centuryMs()) }

const nSchemes = 6 // cross bucket period alter descend onefield ("now" is separate)

var schemeNames = []string{"cross", "bucket", "period", "alter", "descend", "onefield", "now"}

// scheme returns the instants (offsets; out-of-century ones are dropped by the caller) of one history
func scheme(rng *rand.Rand, s int) []int64 {
	var out []int64
	switch s {
	case 0: // cross
		for u := 0; u < nUnits; u++ {
			B, _ := boundary(rng, u)
			out = append(out, B-1, B, B-1, B, B+1, B, B-1, B-2, B+1)
		}
	case 1: // bucket
		for u := 0; u < nUnits; u++ {
			B, U := boundary(rng, u)
			a, b, c := rng.Int63n(U), rng.Int63n(U), rng.Int63n(U)
			out = append(out, B+a, B+b, B+a, B+c, B, B+U-1, B+a, B+U-1, B)
			if u == 0 { // the finest text field: every pair of neighbours inside one second
				out = append(out, B+a, B+(a+1)%U, B+a, B+(a+U-1)%U)
			}
		}
	case 2: // period
		lens := append([]int64{}, unitLens...)
		lens = append(lens, 7*msPerDay, 28*msPerDay, 29*msPerDay, 30*msPerDay, 31*msPerDay, 365*msPerDay, 366*msPerDay, 1<<31, 1<<32)
		for i, U := range lens {
			t := randOff(rng)
			if (i+rng.Intn(2))%2 == 0 && U <= msPerDay { // aligned to the unit: the start of a bucket and the start of the next
				t -= t % U
			} else if U > msPerDay && rng.Intn(2) == 0 { // aligned to the day
				t -= t % msPerDay
			}
			out = append(out, t, t+U, t, t-U, t+U-1, t+U+1, t)
		}
	case 3: // alter
		a, b, c := randOff(rng), randOff(rng), randOff(rng)
		last := centuryMs() - 1
		out = append(out, a, b, a, b, a, a, b, b, c, a, c, b, 0, last, 0, last, a, 0, last, last, 0, 0)
		// the same time of day on far-apart days, the same day at far-apart times
		d := a % msPerDay
		for i := 0; i < 6; i++ {
			out = append(out, int64(rng.Intn(nDays))*msPerDay+d)
		}
		day := b - b%msPerDay
		for i := 0; i < 6; i++ {
			out = append(out, day+rng.Int63n(msPerDay))
		}
	case 4: // descend
		var r []int64
		for i := 0; i < 16; i++ {
			r = append(r, randOff(rng))
		}
		sort.Slice(r, func(i, j int) bool { return r[i] > r[j] })
		out = append(out, r...)
		for u := 0; u < nUnits; u++ {
			B, _ := boundary(rng, u)
			out = append(out, B+2, B+1, B, B-1, B-2)
		}
		t := randOff(rng)
		for i := int64(0); i < 6; i++ {
			out = append(out, t-i*msPerDay) // the same time of day, a day earlier each time
		}
		t = randOff(rng)
		t -= t % 60000
		for i := int64(-2); i < 4; i++ {
			out = append(out, t-i*1000+rng.Int63n(1000)) // second by second downwards across a minute boundary
		}
	case 5: // onefield
		for k := 0; k < 3; k++ {
			y, mo, d := y0+rng.Intn(nYears), 1+rng.Intn(12), 1+rng.Intn(28)
			H, M, S, ms := rng.Intn(24), rng.Intn(60), rng.Intn(60), rng.Intn(1000)
			at := func(y, mo, d, H, M, S, ms int) int64 {
				return int64(dayOf(y, mo, d))*msPerDay + int64(H*3600000+M*60000+S*1000+ms)
			}
			t := at(y, mo, d, H, M, S, ms)
			other := func(n, cur, lo int) int { return lo + (cur-lo+1+rng.Intn(n-1))%n }
			out = append(out, t,
				at(other(nYears, y, y0), mo, d, H, M, S, ms), t,
				at(y, other(12, mo, 1), d, H, M, S, ms), t,
				at(y, mo, other(28, d, 1), H, M, S, ms), t,
				at(y, mo, d, other(24, H, 0), M, S, ms), t,
				at(y, mo, d, H, other(60, M, 0), S, ms), t,
				at(y, mo, d, H, M, other(60, S, 0), ms), t,
				at(y, mo, d, H, M, S, other(1000, ms, 0)), t)
		}
	}
	return out
}

func inCentury(offs []int64) []instant {
	var ins []instant
	for _, o := range offs {
		if o >= 0 && o < centuryMs() {
			ins = append(ins, instOf(o))
		}
	}
	return ins
}

// ---- seq: the ten helpers and GetYmdTime ---------------------------------------------------------

var callOrders = []string{"by instant", "by instant, helpers reversed", "by helper"}

// callSeq calls the eleven exported functions for every instant of the sequence in the given order
func callSeq(ins []instant, order int) (hs []helpers, ds []string, yt []int64, panicked string) {
	n := len(ins)
	hs, ds, yt = make([]helpers, n), make([]string, n), make([]int64, n)
	ts := make([]int64, n)
	for i, in := range ins {
		ts[i] = epoch(in.day, in.ms)
		ds[i] = time.UnixMilli(epoch(in.day, 0)).UTC().Format("20060102")
	}
	calls := []func(i int){
		func(i int) { hs[i].ymd = dateutil.YYYYMMDD(ts[i]) },
		func(i int) { hs[i].dt = dateutil.DateTime(ts[i]) },
		func(i int) { hs[i].ts = dateutil.TimeStamp(ts[i]) },
		func(i int) { hs[i].ymdhms = dateutil.Ymdhms(ts[i]) },
		func(i int) { hs[i].hms = dateutil.HHMMSS(ts[i]) },
		func(i int) { hs[i].hm = dateutil.HHMM(ts[i]) },
		func(i int) { hs[i].wd = dateutil.WeekDay(ts[i]) },
		func(i int) { hs[i].du = dateutil.GetDateUnit(ts[i]) },
		func(i int) { hs[i].mu = dateutil.GetMinUnit(ts[i]) },
		func(i int) { hs[i].fu = dateutil.GetFiveMinUnit(ts[i]) },
		func(i int) { yt[i] = dateutil.GetYmdTime(ds[i]) },
	}
	panicked = core.Guard(func() {
		switch order {
		case 0:
			for i := range ins {
				for _, c := range calls {
					c(i)
				}
			}
		case 1:
			for i := range ins {
				for k := len(calls) - 1; k >= 0; k-- {
					calls[k](i)
				}
			}
		default:
			for _, c := range calls {
				for i := range ins {
					c(i)
				}
			}
		}
	})
	return
}

func emitGiven(t *hist, in instant, h helpers, ds string, yt int64) {
	ev := h.ev()
	ev["ev"], ev["day"], ev["ms"] = "Obs", in.day, in.ms
	ev["ds"] = core.Str(ds)
	ev["ytd"], ev["ytm"] = split(yt)
	t.Emit(ev)
}

func emitSeq(c *core.Ctx, t *hist, ins []instant, order int) {
	hs, ds, yt, p := callSeq(ins, order)
	if p != "" {
		t.Emit(core.Ev{"ev": "Panic", "msg": p, "order": callOrders[order]})
		return
	}
	for i, in := range ins {
		emitGiven(t, in, hs[i], ds[i], yt[i])
		c.Count(fmt.Sprintf("obs:%d:%d", in.day, in.ms), true)
	}
}

// emitNow reads the clock-reading variants while the library clock stands at noon of `day`
// (delta == 0: the real clock, whatever day that is).  Only the day is judged, so nothing short of
// a twelve-hour stall can change the verdict; if the system clock says otherwise the event is
// not emitted (detection lost, never a false alarm).
func emitNow(t *hist, day int, real bool) {
	const noon = msPerDay / 2
	before := time.Now().UnixMilli()
	if real {
		dateutil.SetDelta(0)
		day, _ = split(before)
	} else {
		dateutil.SetDelta(epoch(day, noon) - before)
	}
	var ymd, ts string
	var du int64
	p := core.Guard(func() {
		ymd = dateutil.YmdNow()
		ts = dateutil.TimeStampNow()
		du = dateutil.GetDateUnitNow()
	})
	after := time.Now().UnixMilli()
	if p != "" {
		t.Emit(core.Ev{"ev": "Panic", "day": day, "msg": p, "now": true})
		return
	}
	if real {
		if d2, _ := split(after); d2 != day {
			return // midnight passed during the calls
		}
	} else if after < before || after-before > 6*3600000 {
		return
	}
	if dateutil.IsSyncTime() || day < 0 || day >= nDays {
		return // the library runs on its ticker clock / the machine's clock is outside the century: not judged
	}
	tsd := ts
	if len(tsd) > 8 {
		tsd = tsd[:8]
	}
	t.Emit(core.Ev{"ev": "Now", "day": day, "ymd": core.Str(ymd), "tsd": core.Str(tsd), "du": sat(du), "real": real})
}

func runSeq(c *core.Ctx, tr func(string) *hist) {
	if !c.WantGen("seq") {
		return
	}
	perScheme := c.Pick(14, 140)
	total := perScheme * (nSchemes + 1)
	sampled := 0
	for cas := 0; cas < total; cas++ {
		if !c.Want("seq", cas) {
			continue
		}
		name := "c19_seq"
		if c.Thorough() {
			name = fmt.Sprintf("c19_seq_%d", cas*4/total)
		}
		t := tr(name)
		rng := c.Rng("seq", cas)
		s := cas % (nSchemes + 1)
		order := (cas / (nSchemes + 1)) % len(callOrders)
		if s < nSchemes {
			ins := inCentury(scheme(rng, s))
			t.Reset("seq", cas, core.Ev{"scheme": schemeNames[s], "order": callOrders[order]})
			emitSeq(c, t, ins, order)
			if sampled < 2 && s == 1 && len(ins) > 2 {
				h, _ := realHelpers(ins[1].day, ins[1].ms)
				c.Sample(map[string]interface{}{"gen": "seq", "case": cas, "scheme": schemeNames[s], "order": callOrders[order],
					"second_instant": fmt.Sprintf("day %d ms %d", ins[1].day, ins[1].ms), "TimeStamp": h.ts})
				sampled++
			}
			continue
		}
		// now: the clock-reading variants between explicit instants at the edges of "today"
		t.Reset("seq", cas, core.Ev{"scheme": "now"})
		old := dateutil.GetDelta()
		func() {
			defer dateutil.SetDelta(old)
			for k := 0; k < 4; k++ {
				real := k == 3
				day := 1 + rng.Intn(nDays-2)
				if real {
					day, _ = split(time.Now().UnixMilli())
					if day < 1 || day > nDays-2 {
						break
					}
				}
				D := int64(day) * msPerDay
				r := rng.Int63n(msPerDay)
				for _, grp := range [][]int64{{D + msPerDay - 1, D + msPerDay}, {D, D - 1}, {D + r, D + msPerDay + r}, {D + msPerDay, D + msPerDay - 1, D + 2*msPerDay - 1}} {
					emitNow(t, day, real)
					emitSeq(c, t, inCentury(grp), 0)
				}
				emitNow(t, day, real)
			}
		}()
	}
}

// ---- fmtseq: one DateFormat value, many calls ------------------------------------------------------

// seqPattern picks the pattern of a fmtseq history
func seqPattern(rng *rand.Rand, kind int) (seq, pat string) {
	shuffled := func(s string) string {
		b := []byte(s)
		rng.Shuffle(len(b), func(i, j int) { b[i], b[j] = b[j], b[i] })
		return string(b)
	}
	subset := func(must string) string {
		s := must
		for _, l := range letters {
			if string(l) != must && rng.Intn(2) == 0 {
				s += string(l)
			}
		}
		if s == "" {
			s = string(letters[rng.Intn(len(letters))])
		}
		return s
	}
	switch kind % 4 {
	case 0: // every field
		seq = letters
		if rng.Intn(2) == 0 {
			seq = shuffled(letters)
		}
	case 1: // the millisecond and a random subset of the others
		seq = shuffled(subset("s"))
	case 2: // a random subset, sometimes with a letter twice
		seq = shuffled(subset(""))
		if rng.Intn(5) == 0 {
			seq += string(seq[rng.Intn(len(seq))])
		}
	default: // the coarsest / the finest k fields
		k := 1 + rng.Intn(6)
		if rng.Intn(2) == 0 {
			seq = letters[:k]
		} else {
			seq = letters[len(letters)-k:]
		}
	}
	return seq, withSeparators(seq, rng.Intn(nStyles))
}

type made struct {
	pat  string
	in   instant
	text string
}

func emitFmt(t *hist, df *dateutil.DateFormat, pat string, in instant, obj int) (string, bool) {
	var text string
	if p := core.Guard(func() { text = df.FormatTime(time.UnixMilli(epoch(in.day, in.ms)).UTC()) }); p != "" {
		t.Emit(core.Ev{"ev": "Panic", "pattern": pat, "day": in.day, "ms": in.ms, "msg": p})
		return "", false
	}
	t.Emit(core.Ev{"ev": "Fmt", "p": items(pat), "day": in.day, "ms": in.ms, "text": core.Str(text), "pattern": pat, "obj": obj})
	return text, true
}

func emitPrs(t *hist, df *dateutil.DateFormat, m made, obj int) {
	var r int64
	var err error
	if p := core.Guard(func() { r, err = df.Parse(m.text) }); p != "" {
		t.Emit(core.Ev{"ev": "Panic", "pattern": m.pat, "day": m.in.day, "ms": m.in.ms, "msg": p})
		return
	}
	rd, rms := split(r)
	ev := core.Ev{"ev": "Prs", "p": items(m.pat), "day": m.in.day, "ms": m.in.ms, "text": core.Str(m.text), "err": err != nil,
		"rday": rd, "rms": rms, "pattern": m.pat, "obj": obj}
	if err != nil {
		ev["msg"] = err.Error()
	}
	t.Emit(ev)
}

func runFmtSeq(c *core.Ctx, tr func(string) *hist) {
	if !c.WantGen("fmtseq") {
		return
	}
	total := c.Pick(48, 480)
	sampled := 0
	for cas := 0; cas < total; cas++ {
		if !c.Want("fmtseq", cas) {
			continue
		}
		name := "c19_fmtseq"
		if c.Thorough() {
			name = fmt.Sprintf("c19_fmtseq_%d", cas*4/total)
		}
		t := tr(name)
		rng := c.Rng("fmtseq", cas)
		s := (cas / 4) % nSchemes
		seq, pat := seqPattern(rng, cas)
		_, pat2 := seqPattern(rng, cas+1+rng.Intn(3))
		ins := inCentury(scheme(rng, s))
		t.Reset("fmtseq", cas, core.Ev{"scheme": schemeNames[s], "pattern": pat, "pattern2": pat2})
		dfs := []*dateutil.DateFormat{dateutil.NewDateFormat(pat), dateutil.NewDateFormat(pat), dateutil.NewDateFormat(pat2)}
		pats := []string{pat, pat, pat2}
		var texts [3][]made // what each pattern's formatters returned so far (0 and 1 share the pattern)
		// pass 1: the same formatter, FormatTime only, call after call
		for _, in := range ins {
			text, ok := emitFmt(t, dfs[0], pat, in, 0)
			if !ok {
				break
			}
			texts[0] = append(texts[0], made{pat, in, text})
			c.Count(fmt.Sprintf("fmt:%s:%d:%d", pat, in.day, in.ms), len(seq) > 0)
		}
		// pass 2: formatting, round trips and parsing of earlier texts mixed over the three formatters
		for _, in := range ins {
			obj := 0
			switch x := rng.Intn(10); {
			case x >= 9:
				obj = 2
			case x >= 7:
				obj = 1
			}
			bank := obj
			if obj == 1 {
				bank = 0
			}
			switch x := rng.Intn(20); {
			case x < 11 || len(texts[bank]) == 0:
				if text, ok := emitFmt(t, dfs[obj], pats[obj], in, obj); ok {
					texts[bank] = append(texts[bank], made{pats[obj], in, text})
				}
			case x < 16:
				emitRT(t, dfs[obj], pats[obj], in)
			default:
				m := texts[bank][len(texts[bank])-1]
				if rng.Intn(2) == 0 {
					m = texts[bank][rng.Intn(len(texts[bank]))]
				}
				emitPrs(t, dfs[obj], m, obj)
			}
			c.Count(fmt.Sprintf("fmt:%s:%d:%d:%d", pats[obj], in.day, in.ms, obj), true)
		}
		if sampled < 2 && s == 1 && len(texts[0]) > 1 {
			c.Sample(map[string]interface{}{"gen": "fmtseq", "case": cas, "scheme": schemeNames[s], "pattern": pat,
				"first_text": texts[0][0].text, "second_text": texts[0][1].text})
			sampled++
		}
	}
}
