package c19

// Transliteration of the operators of spec/Calendar.tla (IsLeap, YearStartTab, MonthStartTab,
// YearOf, MonthOf, Civil, Tod, Dg, HelpersOf), written from the TLA+ and sharing nothing with
// golib or with package time.  It is used only by the minute-boundary sweep (S); it is itself
// bound to the specification: sampled Obs events carry its outputs in the field `ref` and
// Trace_Calendar requires ref = Helpers(t).

const (
	y0       = 2000
	nYears   = 100
	msPerDay = 86400000
)

// IsLeap(y) == (y % 4 = 0 /\ y % 100 # 0) \/ y % 400 = 0
func isLeap(y int) bool { return (y%4 == 0 && y%100 != 0) || y%400 == 0 }

// MonthLenL(leap, m)
func monthLenL(leap bool, m int) int {
	switch m {
	case 2:
		if leap {
			return 29
		}
		return 28
	case 4, 6, 9, 11:
		return 30
	}
	return 31
}

// YearStartTab[y] == 365 * (y - Y0) + Cardinality({z \in Y0 .. (y - 1) : IsLeap(z)})
var yearStartTab = func() []int {
	t := make([]int, nYears+1)
	for y := y0; y <= y0+nYears; y++ {
		n := 0
		for z := y0; z <= y-1; z++ {
			if isLeap(z) {
				n++
			}
		}
		t[y-y0] = 365*(y-y0) + n
	}
	return t
}()

func yearStart(y int) int { return yearStartTab[y-y0] }

var nDays = yearStart(y0 + nYears)

// MonthStartTab[leap][m] == Cardinality({md \in (1..12) \X (1..31) : md[1] < m /\ md[2] <= MonthLenL(leap, md[1])})
var monthStartTab = func() map[bool][]int {
	t := map[bool][]int{}
	for _, leap := range []bool{false, true} {
		row := make([]int, 14)
		for m := 1; m <= 13; m++ {
			n := 0
			for k := 1; k <= 12; k++ {
				for d := 1; d <= 31; d++ {
					if k < m && d <= monthLenL(leap, k) {
						n++
					}
				}
			}
			row[m] = n
		}
		t[leap] = row
	}
	return t
}()

func monthStart(y, m int) int { return monthStartTab[isLeap(y)][m] }

// YearOf(day) == CHOOSE y \in Years : YearStart(y) <= day /\ day < YearStart(y + 1)
func yearOf(day int) int {
	for y := y0; y < y0+nYears; y++ {
		if yearStart(y) <= day && day < yearStart(y+1) {
			return y
		}
	}
	panic("refmodel: day outside the century")
}

// MonthOf(y, doy) == CHOOSE m \in 1..12 : MonthStart(y, m) <= doy /\ doy < MonthStart(y, m + 1)
func monthOf(y, doy int) int {
	for m := 1; m <= 12; m++ {
		if monthStart(y, m) <= doy && doy < monthStart(y, m+1) {
			return m
		}
	}
	panic("refmodel: day of year outside the year")
}

type civil struct{ y, m, d, w int }

// Civil(day)
func civilOf(day int) civil {
	y := yearOf(day)
	doy := day - yearStart(y)
	m := monthOf(y, doy)
	return civil{y, m, doy - monthStart(y, m) + 1, (day + 5) % 7}
}

type tod struct{ H, M, S, s int }

// Tod(ms)
func todOf(ms int) tod {
	return tod{ms / 3600000, (ms / 60000) % 60, (ms / 1000) % 60, ms % 1000}
}

// Dg(n, w) == [i \in 1..w |-> 48 + ((n \div (10 ^ (w - i))) % 10)]
func dg(dst []byte, n, w int) []byte {
	p := 1
	for i := 1; i < w; i++ {
		p *= 10
	}
	for i := 1; i <= w; i++ {
		dst = append(dst, byte(48+(n/p)%10))
		p /= 10
	}
	return dst
}

var weekdayName = [7]string{"Mon", "Tue", "Wed", "Thr", "Fri", "Sat", "Sun"}

// helpers is the record HelpersOf(t, c, h).
type helpers struct {
	ymd, dt, ts, ymdhms, hms, hm, wd string
	du, mu, fu                       int64
}

func ymdText(dst []byte, c civil) []byte {
	dst = dg(dst, c.y, 4)
	dst = dg(dst, c.m, 2)
	return dg(dst, c.d, 2)
}

// refUnits: du, mu, fu of HelpersOf
func refUnits(day, ms int) (int64, int64, int64) {
	return int64(day), int64(day)*1440 + int64(ms/60000), int64(day)*288 + int64(ms/300000)
}

// refTexts writes the seven texts of HelpersOf for (c, h) into buf (reused by the sweep) and
// returns them as sub-slices: ymd, dt, ts, ymdhms, hms, hm, wd
func refTexts(buf []byte, c civil, h tod) (ymd, dt, ts, ymdhms, hms, hm []byte, wd string) {
	b := buf[:0]
	// ts = YmdText \o SP \o Dg(H,2) \o COLON \o Dg(M,2) \o COLON \o Dg(S,2) \o DOT \o Dg(s,3); dt and ymd are its prefixes
	b = ymdText(b, c)
	b = append(b, 32)
	b = dg(b, h.H, 2)
	b = append(b, 58)
	b = dg(b, h.M, 2)
	b = append(b, 58)
	b = dg(b, h.S, 2)
	b = append(b, 46)
	b = dg(b, h.s, 3)
	ts = b[0:21]
	dt = b[0:17]
	ymd = b[0:8]
	// ymdhms = YmdText \o Dg(H,2) \o Dg(M,2) \o Dg(S,2); hms and hm are parts of it
	s := len(b)
	b = ymdText(b, c)
	b = dg(b, h.H, 2)
	b = dg(b, h.M, 2)
	b = dg(b, h.S, 2)
	ymdhms = b[s : s+14]
	hms = b[s+8 : s+14]
	hm = b[s+8 : s+12]
	wd = weekdayName[c.w]
	return
}

// refHelpers = Helpers([day |-> day, ms |-> ms])
func refHelpers(day, ms int) helpers {
	c, h := civilOf(day), todOf(ms)
	ymd, dt, ts, ymdhms, hms, hm, wd := refTexts(make([]byte, 0, 64), c, h)
	du, mu, fu := refUnits(day, ms)
	return helpers{string(ymd), string(dt), string(ts), string(ymdhms), string(hms), string(hm), wd, du, mu, fu}
}
