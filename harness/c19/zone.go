package c19

// Gen "zone": the process's local time zone as a configuration.
//
// Every other generator runs with the process zone pinned to UTC.  DateFormat formats the wall-clock
// fields of the time.Time it is given and Parse resolves the fields it read in the process's local
// zone; the date helpers are UTC whatever the zone (the package builds its table at init time).
// With `-args zone=<IANA name>[+<name>...]` the driver re-executes itself as a CHILD PROCESS per zone with
// TZ=<name> (the zone is in force from the first instruction, package initialisers included); a child
// runs only this generator and writes one trace file:
//
//   * the zone's offset transitions of 2000-2099 are located with package time (offset at the start
//     and end of every UTC day, bisected to the millisecond) -- none for a fixed-offset zone;
//   * for every transition T with shift s: T-1 ms, T, T+1 ms, T-|s| (-1), T+|s| (-1) (the edges of the
//     repeated / skipped wall-clock readings), T +/- 1 h, 12 h, 24 h, the local midnights and the local
//     noon of the transition day and a random instant of it; plus boundary and random instants of
//     the case's years (ordinary days);
//   * each instant x: text = FormatTime(x as local time), r = Parse(text), text2 = FormatTime(r as
//     local time) on full seven-field patterns (any order, every separator style; one formatter per
//     pattern reused for the whole history) -> event ZRT with the zone's offsets at x and at r.  In a
//     zone without transitions also on partial patterns (with transitions an absent field, taken from
//     the clock, can land in a skipped reading: the property is silent there);
//   * the ten helpers and GetYmdTime at T-1, T, T+1 and the local midnights -> Obs events, judged
//     as everywhere: they must not depend on the process zone.
//
// The specification's calendar is zone-free: TLC shifts both instants by the logged offsets
// (DateFormat.tla Shift, ZoneRoundTripOK) and requires Format / the round-trip law on the wall-clock
// readings and, for full patterns, r = x unless the reading occurs twice and r is its other instant.

import (
	"encoding/json"
	"fmt"
	"os"
	"os/exec"
	"path/filepath"
	"sort"
	"strings"
	"time"
	_ "time/tzdata" // the zone database, should the machine have none

	"github.com/whatap/golib/util/dateutil"

	"verifharness/core"
)

const zoneChildEnv = "VERIF_C19_ZONE_CHILD"

// reexecInZones starts this very command once per zone of the '+'-separated list, each time with TZ=zone,
// merges the children's meta.json (one trace file per zone) and exits
func reexecInZones(c *core.Ctx, zones string) error {
	exe, err := os.Executable()
	if err != nil {
		return err
	}
	merged := map[string]interface{}{}
	var jobs, samples []interface{}
	extra := map[string]interface{}{}
	evals, distinct := 0.0, 0.0
	metaPath := filepath.Join(c.OutDir, "meta.json")
	for _, zone := range strings.Split(zones, "+") {
		cmd := exec.Command(exe, os.Args[1:]...)
		cmd.Env = append(os.Environ(), "TZ="+zone, zoneChildEnv+"="+zone)
		cmd.Stdout, cmd.Stderr = os.Stdout, os.Stderr
		if err := cmd.Run(); err != nil {
			if ee, ok := err.(*exec.ExitError); ok {
				os.Exit(ee.ExitCode())
			}
			return err
		}
		b, err := os.ReadFile(metaPath)
		if err != nil {
			return err
		}
		m := map[string]interface{}{}
		if err := json.Unmarshal(b, &m); err != nil {
			return err
		}
		if l, ok := m["jobs"].([]interface{}); ok {
			jobs = append(jobs, l...)
		}
		if l, ok := m["samples"].([]interface{}); ok {
			samples = append(samples, l...)
		}
		if e, ok := m["extra"].(map[string]interface{}); ok {
			for k, v := range e {
				extra[k] = v
			}
		}
		if v, ok := m["evaluations"].(float64); ok {
			evals += v
		}
		if v, ok := m["distinct_nontrivial"].(float64); ok {
			distinct += v
		}
		merged["rule"] = m["rule"]
	}
	merged["jobs"], merged["samples"], merged["extra"] = jobs, samples, extra
	merged["evaluations"], merged["distinct_nontrivial"] = int(evals), int(distinct)
	b, _ := json.MarshalIndent(merged, "", " ")
	if err := os.WriteFile(metaPath, b, 0o644); err != nil {
		return err
	}
	os.Exit(0)
	return nil
}

func offsetMs(x int64) int {
	_, off := time.UnixMilli(x).In(time.Local).Zone()
	return off * 1000
}

// transitions lists the instants (epoch ms) of [from, to) at which the local offset changes
func transitions(from, to int64) []int64 {
	var out []int64
	for a := from; a < to; a += msPerDay {
		b := a + msPerDay
		if offsetMs(a) == offsetMs(b) {
			continue // (a zone that changes twice within 24 h is not in the list used)
		}
		lo, hi := a, b // offset(lo) != offset(hi); find the first instant with offset(hi)
		for hi-lo > 1 {
			mid := lo + (hi-lo)/2
			if offsetMs(mid) == offsetMs(a) {
				lo = mid
			} else {
				hi = mid
			}
		}
		out = append(out, hi)
	}
	return out
}

func emitZRT(t *hist, df *dateutil.DateFormat, pat, zone string, x int64) {
	var text, text2 string
	var r int64
	var err error
	p := core.Guard(func() {
		text = df.FormatTime(time.UnixMilli(x)) // local time, as Format() does with time.Now()
		r, err = df.Parse(text)
		text2 = df.FormatTime(time.UnixMilli(r))
	})
	xd, xms := split(x)
	if p != "" {
		t.Emit(core.Ev{"ev": "Panic", "pattern": pat, "xday": xd, "xms": xms, "zone": zone, "msg": p})
		return
	}
	rd, rms := split(r)
	roff := 0
	if rd >= -1 && rd <= nDays { // an instant package time can be asked about without surprises
		roff = offsetMs(r)
	}
	ev := core.Ev{"ev": "ZRT", "p": items(pat), "zone": zone, "xday": xd, "xms": xms, "xoff": offsetMs(x), "text": core.Str(text),
		"err": err != nil, "rday": rd, "rms": rms, "roff": roff, "text2": core.Str(text2), "pattern": pat,
		"local": time.UnixMilli(x).Format("2006-01-02T15:04:05.000 -0700")}
	if err != nil {
		ev["msg"] = err.Error()
	}
	t.Emit(ev)
}

const zoneYearsPerCase = 5

func runZone(c *core.Ctx, tr func(string) *hist, zone string) error {
	if time.Local.String() != zone {
		return fmt.Errorf("zone %q is not in force (time.Local = %s): no zone data?", zone, time.Local)
	}
	c.Rule = "gen zone (one child process per zone, TZ=zone): one round trip = FormatTime(local time of x) -> Parse -> FormatTime on a full pattern (partial ones too in a zone without transitions), x = every offset transition of the zone in the case's years -1/0/+1 ms, the edges of the repeated / skipped readings, +/- 1, 12, 24 h, local midnights and noon of the transition day, boundary and random instants; the helpers at the transitions and local midnights; distinct by (pattern, instant)"
	if !c.WantGen("zone") {
		return nil
	}
	all := transitions(epoch(0, 0), epoch(nDays, 0))
	fixed := len(all) == 0
	c.SetExtra("zone_"+zone, map[string]interface{}{"transitions_2000_2099": len(all)})
	t := tr("c19_zone_" + strings.NewReplacer("/", "_", "+", "p", "-", "m").Replace(zone))
	bnd := boundaryInstants()
	nCases := nYears / zoneYearsPerCase
	for cas := 0; cas < nCases; cas++ {
		if !c.Want("zone", cas) {
			continue
		}
		if !c.Thorough() && c.OnlyGen == "" && (cas+int(c.Seed))%4 != 0 {
			continue
		}
		rng := c.Rng("zone", cas)
		from := epoch(dayOf(y0+cas*zoneYearsPerCase, 1, 1), 0)
		to := epoch(dayOf(y0+(cas+1)*zoneYearsPerCase, 1, 1), 0)
		var xs []int64
		var hs []int64 // instants for the helpers
		for _, T := range all {
			if T < from || T >= to {
				continue
			}
			s := int64(offsetMs(T) - offsetMs(T-1))
			if s < 0 {
				s = -s
			}
			xs = append(xs, T-1, T, T+1, T-s-1, T-s, T-s+1, T+s-1, T+s, T-3600000, T+3600000, T-12*3600000, T+12*3600000, T-msPerDay, T+msPerDay)
			lt := time.UnixMilli(T)
			y, m, d := lt.Date()
			for _, w := range []time.Time{time.Date(y, m, d, 0, 0, 0, 0, time.Local), time.Date(y, m, d+1, 0, 0, 0, 0, time.Local),
				time.Date(y, m, d, 12, 0, 0, 0, time.Local), time.Date(y, m, d, 23, 59, 59, 999000000, time.Local)} {
				xs = append(xs, w.UnixMilli())
			}
			day0 := time.Date(y, m, d, 0, 0, 0, 0, time.Local).UnixMilli()
			xs = append(xs, day0+rng.Int63n(msPerDay), T+rng.Int63n(2*s+1)-s)
			hs = append(hs, T-1, T, T+1, day0, day0-1)
		}
		for _, b := range bnd {
			xs = append(xs, epoch(b.day, b.ms))
		}
		for i := 0; i < 24; i++ {
			x := from + rng.Int63n(to-from)
			xs = append(xs, x)
			if i < 6 { // UTC midnight and local midnight of an ordinary day
				u := x - (x-base)%msPerDay
				xs = append(xs, u, u-1, u-int64(offsetMs(u)), u-int64(offsetMs(u))-1)
				hs = append(hs, u, u-1, u-int64(offsetMs(u)), u-int64(offsetMs(u))-1)
			}
		}
		// inside the century, also as wall-clock reading
		keep := xs[:0]
		for _, x := range xs {
			if x >= epoch(1, 0) && x < epoch(nDays-1, 0) {
				keep = append(keep, x)
			}
		}
		xs = keep
		if cas%2 == 1 {
			sort.Slice(xs, func(i, j int) bool { return xs[i] > xs[j] })
		}
		_, pat1 := seqPattern(rng, 0) // every field, canonical or shuffled, a random separator style
		pat2 := withSeparators(letters, 2)
		pats := []string{pat1, pat2}
		if fixed {
			for k := 1; k <= 3; k++ {
				_, p := seqPattern(rng, k)
				pats = append(pats, p)
			}
		}
		t.Reset("zone", cas, core.Ev{"zone": zone, "years": fmt.Sprintf("%d-%d", y0+cas*zoneYearsPerCase, y0+(cas+1)*zoneYearsPerCase-1), "patterns": pats})
		dfs := make([]*dateutil.DateFormat, len(pats))
		for i, p := range pats {
			dfs[i] = dateutil.NewDateFormat(p)
		}
		for i, x := range xs {
			k := 0
			if i%3 == 2 {
				k = 1 + (i/3)%(len(pats)-1)
			}
			emitZRT(t, dfs[k], pats[k], zone, x)
			c.Count(fmt.Sprintf("zrt:%s:%s:%d", zone, pats[k], x), true)
		}
		for _, x := range hs {
			if x >= epoch(0, 0) && x < epoch(nDays, 0) {
				d, ms := split(x)
				emitObs(t, d, ms, true, false)
				c.Count(fmt.Sprintf("obs:%d:%d", d, ms), true)
			}
		}
	}
	return nil
}
