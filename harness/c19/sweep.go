package c19

// (S) of DESIGN 2.1: every minute boundary of the century, at -1 / 0 / +1 ms, is far beyond
// TLC's throughput (158 million instants).  The sweep compares the real helpers with the
// transliteration of Calendar.tla in refmodel.go.  A sweep never decides anything: "no
// disagreement" is reported as coverage; the smallest disagreeing instants are emitted as a
// history of gen "sweepfail" that TLC judges like any other, and the transliteration is bound to
// the specification by gen "sweepref": sampled boundary triples (b-1, b, b+1 ms) emitted as Obs
// events carrying the transliteration's outputs in `ref`, which Trace_Calendar requires to equal
// Helpers(t) -- consecutive milliseconds, so the exact-step clause of MonotoneStep is evaluated
// on real outputs as well.

import (
	"fmt"
	"runtime"
	"sort"
	"sync"
	"sync/atomic"

	"github.com/whatap/golib/util/dateutil"

	"verifharness/core"
)

func less(a, b instant) bool { return a.day < b.day || (a.day == b.day && a.ms < b.ms) }

// sweepDay compares units at every minute boundary -1/0/+1 ms of the day and the seven texts at
// the boundary and the millisecond before it for every stride-th minute (and the last one);
// it appends disagreeing instants to bad (at most keep)
func sweepDay(day, stride int, buf []byte, bad []instant, keep int) ([]instant, int, int) {
	cs := [2]civil{{}, civilOf(day)}
	if day > 0 {
		cs[0] = civilOf(day - 1)
	}
	units, texts := 0, 0
	note := func(d, ms int) {
		if len(bad) < keep && (len(bad) == 0 || bad[len(bad)-1] != instant{d, ms}) {
			bad = append(bad, instant{d, ms})
		}
	}
	for k := 0; k < 1440; k++ {
		withText := k%stride == 0 || k == 1439
		for off := -1; off <= 1; off++ {
			d, ms, c := day, k*60000+off, cs[1]
			if ms < 0 {
				if day == 0 {
					continue
				}
				d, ms, c = day-1, msPerDay-1, cs[0]
			}
			t := epoch(d, ms)
			du, mu, fu := refUnits(d, ms)
			units++
			if dateutil.GetDateUnit(t) != du || dateutil.GetMinUnit(t) != mu || dateutil.GetFiveMinUnit(t) != fu {
				note(d, ms)
			}
			if withText && off <= 0 {
				texts++
				ymd, dt, ts, ymdhms, hms, hm, wd := refTexts(buf, c, todOf(ms))
				if dateutil.YYYYMMDD(t) != string(ymd) || dateutil.DateTime(t) != string(dt) || dateutil.TimeStamp(t) != string(ts) ||
					dateutil.Ymdhms(t) != string(ymdhms) || dateutil.HHMMSS(t) != string(hms) || dateutil.HHMM(t) != string(hm) ||
					dateutil.WeekDay(t) != wd {
					note(d, ms)
				}
			}
		}
	}
	return bad, units, texts
}

func runSweep(c *core.Ctx, tr func(string) *hist) {
	if !(c.WantGen("sweepref") || c.WantGen("sweepfail")) {
		return
	}
	stride := c.Pick(16, 1)
	workers := runtime.NumCPU()
	if workers > 8 {
		workers = 8
	}
	const keep = 8
	var next int64
	var mu sync.Mutex
	var bad []instant
	var unitsN, textsN int64
	var wg sync.WaitGroup
	for w := 0; w < workers; w++ {
		wg.Add(1)
		go func() {
			defer wg.Done()
			buf := make([]byte, 0, 64)
			var mine []instant // increasing: the first `keep` of this worker are its smallest
			var un, tn int64
			for {
				day := int(atomic.AddInt64(&next, 1) - 1)
				if day >= nDays {
					break
				}
				var u, t int
				if p := core.Guard(func() { mine, u, t = sweepDay(day, stride, buf, mine, keep) }); p != "" && len(mine) < keep {
					mine = append(mine, instant{day, 0})
				}
				un += int64(u)
				tn += int64(t)
			}
			mu.Lock()
			bad = append(bad, mine...)
			unitsN += un
			textsN += tn
			mu.Unlock()
		}()
	}
	wg.Wait()
	// the globally smallest disagreeing instants are among every worker's smallest: deterministic
	sort.Slice(bad, func(i, j int) bool { return less(bad[i], bad[j]) })
	var fails []instant
	for _, b := range bad {
		if len(fails) < 3 && (len(fails) == 0 || fails[len(fails)-1] != b) {
			fails = append(fails, b)
		}
	}
	c.SetExtra("sweep", map[string]interface{}{
		"minute_boundaries":      nDays * 1440,
		"instants_units_million": float64(unitsN/10000) / 100,
		"instants_texts_million": float64(textsN/10000) / 100,
		"text_stride_minutes":    stride,
		"disagreeing_instants":   len(bad),
	})
	c.Count("sweep:units", true)
	c.Count("sweep:texts", true)

	// the sample that binds the transliteration to the specification
	if c.WantGen("sweepref") {
		n := c.Pick(400, 4000)
		const per = 100
		for cas := 0; cas*per < n; cas++ {
			if !c.Want("sweepref", cas) {
				continue
			}
			t := tr("c19_sweepref")
			rng := c.Rng("sweepref", cas)
			t.Reset("sweepref", cas, nil)
			for j := 0; j < per; j++ {
				day, k := rng.Intn(nDays), rng.Intn(1440)
				switch j % 10 {
				case 0:
					k = 0 // day boundary
				case 1:
					k = 5 * rng.Intn(288) // five-minute boundary
				case 2:
					k = 1430 + 5*rng.Intn(2) // start of the last five-minute bucket of the day / the one before
				}
				for off := -1; off <= 1; off++ {
					d, ms := day, k*60000+off
					if ms < 0 {
						if day == 0 {
							continue
						}
						d, ms = day-1, msPerDay-1
					}
					emitObs(t, d, ms, false, true)
					c.Count(fmt.Sprintf("obs:%d:%d", d, ms), true)
				}
			}
		}
	}
	// disagreements: judged by TLC
	for k, f := range fails {
		if !c.Want("sweepfail", k) {
			continue
		}
		t := tr("c19_sweepfail")
		t.Reset("sweepfail", k, nil)
		emitObs(t, f.day, f.ms, false, false)
	}
}
