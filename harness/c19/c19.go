// Package c19 drives the real util/dateutil calendar helpers and the pattern-based DateFormat
// and records what every call returned, for Trace_Calendar.tla to judge against Calendar.tla /
// DateFormat.tla.  Time is handed to TLC as (day index from 2000-01-01, millisecond of day):
// epoch milliseconds do not fit TLC's 32-bit integers.  The conversion between the two and the
// date texts given to GetYmdTime use the Go standard library only.
package c19

import (
	"fmt"
	"math/rand"
	"os"
	"time"

	"github.com/whatap/golib/util/dateutil"

	"verifharness/core"
)

func init() { core.Register("c19", Run) }

// epoch millisecond of 2000-01-01T00:00:00Z
var base = time.Date(2000, time.January, 1, 0, 0, 0, 0, time.UTC).UnixMilli()

func epoch(day, ms int) int64 { return base + int64(day)*msPerDay + int64(ms) }

// split projects an epoch millisecond to (day index, ms of day) by floor division
func split(t int64) (int, int) {
	d := t - base
	day := d / msPerDay
	ms := d % msPerDay
	if ms < 0 {
		ms += msPerDay
		day--
	}
	return sat(day), int(ms)
}

// sat keeps a number inside TLC's integer range; -1 / -2 never equal what the spec computes
func sat(v int64) int {
	if v > 1<<30 {
		return -2
	}
	if v < -(1 << 30) {
		return -1
	}
	return int(v)
}

func dayOf(y, m, d int) int {
	return int((time.Date(y, time.Month(m), d, 0, 0, 0, 0, time.UTC).UnixMilli() - base) / msPerDay)
}

// hist numbers the events of each history (field n) so that a lost event is a rejected trace
type hist struct {
	t *core.Trace
	n int
}

func (h *hist) Reset(gen string, cas int, extra core.Ev) { h.n = 0; h.t.Reset(gen, cas, extra) }
func (h *hist) Emit(ev core.Ev)                          { h.n++; ev["n"] = h.n; h.t.Emit(ev) }

// realHelpers calls the ten exported helpers of the real library for one instant
func realHelpers(day, ms int) (h helpers, panicked string) {
	t := epoch(day, ms)
	panicked = core.Guard(func() {
		h.ymd = dateutil.YYYYMMDD(t)
		h.dt = dateutil.DateTime(t)
		h.ts = dateutil.TimeStamp(t)
		h.ymdhms = dateutil.Ymdhms(t)
		h.hms = dateutil.HHMMSS(t)
		h.hm = dateutil.HHMM(t)
		h.wd = dateutil.WeekDay(t)
		h.du = dateutil.GetDateUnit(t)
		h.mu = dateutil.GetMinUnit(t)
		h.fu = dateutil.GetFiveMinUnit(t)
	})
	return
}

func (h helpers) ev() core.Ev {
	return core.Ev{"ymd": core.Str(h.ymd), "dt": core.Str(h.dt), "ts": core.Str(h.ts), "ymdhms": core.Str(h.ymdhms),
		"hms": core.Str(h.hms), "hm": core.Str(h.hm), "wd": core.Str(h.wd), "du": sat(h.du), "mu": sat(h.mu), "fu": sat(h.fu)}
}

// emitObs records one instant: all helper outputs, optionally GetYmdTime on the standard
// library's text of the day and optionally the transliteration's outputs (`ref`)
func emitObs(t *hist, day, ms int, withYmd, withRef bool) {
	h, p := realHelpers(day, ms)
	if p != "" {
		t.Emit(core.Ev{"ev": "Panic", "day": day, "ms": ms, "msg": p})
		return
	}
	ev := h.ev()
	ev["ev"], ev["day"], ev["ms"] = "Obs", day, ms
	if withYmd {
		ds := time.UnixMilli(epoch(day, 0)).UTC().Format("20060102")
		var r int64
		if p := core.Guard(func() { r = dateutil.GetYmdTime(ds) }); p != "" {
			t.Emit(core.Ev{"ev": "Panic", "day": day, "ds": ds, "msg": p})
			return
		}
		ev["ds"] = core.Str(ds)
		ev["ytd"], ev["ytm"] = split(r)
	}
	if withRef {
		r := refHelpers(day, ms).ev()
		delete(r, "ev")
		ev["ref"] = r
	}
	t.Emit(ev)
}

// the fixed times of day of binding (A)
var fixedTimes = []int{
	0,                                    // 00:00:00.000
	5,                                    // 00:00:00.005
	9*3600000 + 5*60000 + 7*1000 + 50,    // 09:05:07.050
	12 * 3600000,                         // 12:00:00.000
	msPerDay - 1,                         // 23:59:59.999
}

func Run(c *core.Ctx) error {
	// DateFormat.Parse builds its result in time.Now().Location(); the property speaks about UTC.
	// The runner sets TZ=UTC; pinning the process-local zone here makes the driver independent of
	// the environment it is started in.
	zone := c.Args["zone"]
	if zone != "" && os.Getenv(zoneChildEnv) == "" {
		return reexecInZones(c, zone) // gen zone: child processes whose local zone is in force from their first instruction
	}
	if zone != "" {
		zone = os.Getenv(zoneChildEnv)
	}
	if zone == "" {
		time.Local = time.UTC
	}

	c.Rule = "(A) every day of 2000-2099 (quick: every 7th day and the first/last day of every month) at 00:00:00.000, 00:00:00.005, 09:05:07.050, 12:00:00.000, 23:59:59.999 and one random time: all ten helper outputs and GetYmdTime of the day's text, one event per instant; (B) every DateFormat pattern of up to 4 field letters (quick: up to 3 and every 9th of 4) and full 7-field patterns, with 7 separator styles, formatted and parsed back on boundary and random instants; (S) every minute boundary -1/0/+1 ms of the century swept against the transliteration, sampled triples judged by TLC; (Q) sequences of calls on the same package-level helpers / the same DateFormat value in adversarial order (t-1 ms, t, t+1 ms around a boundary of every unit from second to year in both directions, several instants of one bucket of every unit, exactly one unit apart, alternating far-apart and repeated instants, descending runs, instants differing in one calendar field, the clock-reading variants in between), helpers called instant by instant or helper by helper; (K) gen conc: 4 x GOMAXPROCS goroutines calling every helper and their own DateFormat values on a list of instants at once, every distinct value returned recorded; an instant is non-trivial if it is not 2000-01-01 00:00:00.000, a round trip if its pattern has a field letter; distinct by (day, ms) resp. (pattern, day, ms)"

	traces := map[string]*hist{}
	tr := func(name string) *hist {
		if traces[name] == nil {
			traces[name] = &hist{t: c.Trace(name, "Trace_Calendar")}
		}
		return traces[name]
	}

	if zone != "" {
		return runZone(c, tr, zone)
	}
	runDays(c, tr)
	runFormat(c, tr)
	runSweep(c, tr)
	runSeq(c, tr)
	runFmtSeq(c, tr)
	runConc(c, tr)
	return nil
}

// ---- (A) days ----------------------------------------------------------------------------------

func runDays(c *core.Ctx, tr func(string) *hist) {
	if !c.WantGen("days") {
		return
	}
	sampled := 0
	for cas := 0; cas < nYears*12; cas++ {
		if !c.Want("days", cas) {
			continue
		}
		y, m := y0+cas/12, cas%12+1
		name := "c19_days"
		if c.Thorough() {
			name = fmt.Sprintf("c19_days_%d", (y-y0)/10)
		}
		t := tr(name)
		first, next := dayOf(y, m, 1), dayOf(y, m+1, 1)
		rng := c.Rng("days", cas)
		t.Reset("days", cas, core.Ev{"year": y, "month": m})
		for d := first; d < next; d++ {
			rnd := rng.Intn(msPerDay)
			all := c.Thorough() || (d+int(c.Seed))%7 == 0
			edge := d == first || d == next-1
			if !all && !edge {
				continue
			}
			times := []int{0, msPerDay - 1}
			if all {
				times = fixedTimes
			}
			for i, ms := range times {
				emitObs(t, d, ms, i == 0, false)
				c.Count(fmt.Sprintf("obs:%d:%d", d, ms), d != 0 || ms != 0)
			}
			emitObs(t, d, rnd, false, true)
			c.Count(fmt.Sprintf("obs:%d:%d", d, rnd), true)
			if sampled < 2 && d%50 == 9 {
				h, _ := realHelpers(d, rnd)
				c.Sample(map[string]interface{}{"gen": "days", "case": cas, "day": d, "ms": rnd, "TimeStamp": h.ts, "WeekDay": h.wd, "GetMinUnit": h.mu})
				sampled++
			}
		}
	}
}

// ---- (B) DateFormat ----------------------------------------------------------------------------

const letters = "ymdHMSs"

// fieldSeqs lists every sequence of 0..4 field letters (index order), then 7-letter sequences:
// the canonical order and 12 fixed permutations of it
func fieldSeqs() []string {
	out := []string{""}
	prev := []string{""}
	for n := 1; n <= 4; n++ {
		var cur []string
		for _, p := range prev {
			for _, l := range letters {
				cur = append(cur, p+string(l))
			}
		}
		out = append(out, cur...)
		prev = cur
	}
	out = append(out, letters)
	r := rand.New(rand.NewSource(19))
	for i := 0; i < 12; i++ {
		b := []byte(letters)
		r.Shuffle(len(b), func(i, j int) { b[i], b[j] = b[j], b[i] })
		out = append(out, string(b))
	}
	return out
}

const nStyles = 7

// withSeparators lays literal characters around the field letters of seq
func withSeparators(seq string, style int) string {
	n := len(seq)
	s := ""
	cyc := func(list []string, i int) string { return list[i%len(list)] }
	for i := 0; i < n; i++ {
		l := string(seq[i])
		last := i == n-1
		switch style {
		case 0: // no separators
			s += l
		case 1:
			s += l
			if !last {
				s += "-"
			}
		case 2: // y-m-d H:M:S.s like
			s += l
			if !last {
				s += cyc([]string{"-", "-", " ", ":", ":", "."}, i)
			}
		case 3:
			s += l
			if !last {
				s += "/"
			}
		case 4: // a three-byte character after every field
			s += l + cyc([]string{"년", "월", "일", "시", "분", "초", "€"}, i)
		case 5: // leading and trailing literal, letters that are not field letters
			if i == 0 {
				s += "["
			}
			s += l
			if last {
				s += "]Z"
			} else {
				s += "T"
			}
		case 6: // digit and two-character literals
			s += l
			if !last {
				s += cyc([]string{"0", ", ", "9", "é "}, i)
			}
		}
	}
	if n == 0 {
		s = []string{"", "-", "at ", "/", "년", "[]", "00"}[style]
	}
	return s
}

type instant struct{ day, ms int }

func boundaryInstants() []instant {
	at := func(y, m, d, H, M, S, s int) instant { return instant{dayOf(y, m, d), H*3600000 + M*60000 + S*1000 + s} }
	return []instant{
		at(2000, 1, 1, 0, 0, 0, 0),
		at(2000, 2, 29, 23, 59, 59, 999),
		at(2000, 3, 1, 0, 0, 0, 1),
		at(2001, 2, 28, 12, 0, 0, 0),
		at(2004, 2, 29, 9, 5, 7, 50),
		at(2099, 12, 31, 23, 59, 59, 999),
		at(2038, 1, 19, 3, 14, 7, 999),
		at(2038, 1, 19, 3, 14, 8, 0),
		at(2024, 1, 31, 13, 0, 0, 5),
		at(2024, 4, 30, 23, 0, 0, 500),
		at(2050, 10, 10, 10, 10, 10, 100),
		at(2000, 12, 31, 0, 59, 59, 9),
	}
}

func items(pat string) []core.Bytes {
	its := []core.Bytes{}
	for _, r := range pat {
		its = append(its, core.Str(string(r)))
	}
	return its
}

// emitRT formats the instant with the real DateFormat, parses the text back and formats the result
func emitRT(t *hist, df *dateutil.DateFormat, pat string, in instant) {
	var text, text2 string
	var r int64
	var err error
	p := core.Guard(func() {
		text = df.FormatTime(time.UnixMilli(epoch(in.day, in.ms)).UTC())
		r, err = df.Parse(text)
		text2 = df.FormatTime(time.UnixMilli(r).UTC())
	})
	if p != "" {
		t.Emit(core.Ev{"ev": "Panic", "pattern": pat, "day": in.day, "ms": in.ms, "msg": p})
		return
	}
	rd, rms := split(r)
	ev := core.Ev{"ev": "RT", "p": items(pat), "day": in.day, "ms": in.ms, "text": core.Str(text), "err": err != nil,
		"rday": rd, "rms": rms, "text2": core.Str(text2), "pattern": pat}
	if err != nil {
		ev["msg"] = err.Error()
	}
	t.Emit(ev)
}

const fmtChunk = 50

func runFormat(c *core.Ctx, tr func(string) *hist) {
	if !c.WantGen("fmt") {
		return
	}
	seqs := fieldSeqs()
	bnd := boundaryInstants()
	sampled := 0
	for cas := 0; cas*fmtChunk < len(seqs); cas++ {
		if !c.Want("fmt", cas) {
			continue
		}
		name := "c19_fmt"
		if c.Thorough() {
			name = fmt.Sprintf("c19_fmt_%d", cas/15)
		}
		t := tr(name)
		rng := c.Rng("fmt", cas)
		header := false
		for idx := cas * fmtChunk; idx < (cas+1)*fmtChunk && idx < len(seqs); idx++ {
			seq := seqs[idx]
			rnd1 := instant{rng.Intn(nDays), rng.Intn(msPerDay)}
			rnd2 := instant{rng.Intn(nDays), rng.Intn(msPerDay)}
			if !c.Thorough() && len(seq) == 4 && (idx+int(c.Seed))%9 != 0 {
				continue
			}
			if !header {
				t.Reset("fmt", cas, nil)
				header = true
			}
			for k := 0; k < c.Pick(1, 3); k++ {
				style := (idx + int(c.Seed) + 2*k) % nStyles
				pat := withSeparators(seq, style)
				df := dateutil.NewDateFormat(pat) // one formatter per pattern, reused for every instant
				var ins []instant
				if c.Thorough() || len(seq) == 7 {
					ins = append(append(ins, bnd...), rnd1, rnd2)
				} else {
					for j := 0; j < 5; j++ {
						ins = append(ins, bnd[(idx*5+j)%len(bnd)])
					}
					ins = append(ins, rnd1)
				}
				for _, in := range ins {
					emitRT(t, df, pat, in)
					c.Count(fmt.Sprintf("rt:%s:%d:%d", pat, in.day, in.ms), len(seq) > 0)
				}
				if sampled < 2 && len(seq) == 3 && style == 4 {
					c.Sample(map[string]interface{}{"gen": "fmt", "case": cas, "pattern": pat, "text": df.FormatTime(time.UnixMilli(epoch(rnd1.day, rnd1.ms)).UTC())})
					sampled++
				}
			}
		}
	}
}
