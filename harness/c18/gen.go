package c18

import (
	"fmt"
	"math/rand"
	"os"
	"strconv"
	"strings"
)

// ---------------------------------------------------------------- keys

var plainKeyHeads = []string{"debug", "net_udp_port", "enabled", "tx_max_count", "mtrace_rate", "a", "b1", "k", "list", "rate", "name", "x.y", "_u", "0k", "Key", "long-name", "ids"}

// the names in the environment this process was started with: the histories keep clear of them
// (absent keys fall back to the environment) and set variables of their own, which the trace
// records
var inheritedEnv map[string]bool

func inherited() map[string]bool {
	if inheritedEnv == nil {
		inheritedEnv = map[string]bool{}
		for _, kv := range os.Environ() {
			if i := strings.IndexByte(kv, '='); i > 0 {
				inheritedEnv[kv[:i]] = true
			}
		}
	}
	return inheritedEnv
}

func usableKey(k string) bool {
	if k == "" || strings.Contains(k, "${") {
		return false
	}
	return !inherited()[k]
}

// plainKey: starts with a word character, then word characters, '.', '-'.
func plainKey(r *rand.Rand) string {
	for {
		k := plainKeyHeads[r.Intn(len(plainKeyHeads))]
		if r.Intn(3) == 0 {
			k += []string{"_1", ".sub", "-x", "2", "_"}[r.Intn(5)]
		}
		if usableKey(k) {
			return k
		}
	}
}

// exoticKey: keys that need the syntax's escapes or are not ASCII words.
func exoticKey(r *rand.Rand) string {
	for {
		k := []string{"k x", "a=b", "a:b", "#hash", "!bang", "키", "clé", "日本.語", "-dash", ".dot", "sp ace.key", "back\\slash", "ta\tb", "e\u00e9", "ключ", "😀k", "k#c", "k!"}[r.Intn(18)]
		if usableKey(k) {
			return k
		}
	}
}

// ---------------------------------------------------------------- values

var boolWords = []string{"true", "false", "TRUE", "FALSE", "True", "False", "t", "f", "T", "F", "1", "0"}
var badBools = []string{"yes", "no", "on", "tRuE", "truee", "2", "-1", "tru", "0.0", "y"}
var floatGood = []string{"0", "1", "2", "1.5", "-2.25", "0.1", "1e3", "3.4028235e38", "1e-3", ".5", "5.", "+7", "-0", "16777217", "1E2", "0.3", "123456.789", "-1e-2", "100", "42", "6600", "2.5", "1e39", "-1e39"}
var floatBad = []string{"1,5", "--1", "1.2.3", "abc", "1e", "e5", ".", "+", "1 2", "1.5f", "$3", "12%", "0..1", "1e+", "1-2"}

func goodInt(r *rand.Rand) string {
	switch r.Intn(8) {
	case 0:
		return []string{"2147483647", "-2147483648", "0", "-0", "+0", "007", "+15", "-000012"}[r.Intn(8)]
	case 1:
		return strconv.Itoa(r.Intn(70000))
	case 2:
		return strconv.Itoa(-r.Intn(70000))
	case 3:
		return strconv.FormatInt(int64(r.Int31()), 10)
	default:
		return strconv.Itoa(r.Intn(10000))
	}
}

// integers that fit 64 but not 32 bits, and ones that fit neither
func wideInt(r *rand.Rand) string {
	return []string{"2147483648", "-2147483649", "4294967296", "9223372036854775807", "-9223372036854775808",
		"9223372036854775808", "-9223372036854775809", "99999999999999999999", "00000000000000000000001", "123456789012"}[r.Intn(10)]
}

func badInt(r *rand.Rand) string {
	return []string{"12abc", "1.5", "0x10", "1_000", "++1", "-", "+", "1 2", "١٢", "12L", "1e3", "٣", "--5", "1,000"}[r.Intn(14)]
}

// pad surrounds s with blanks the getters are documented to trim
func pad(r *rand.Rand, s string) string {
	switch r.Intn(6) {
	case 0:
		return s + " "
	case 1:
		return s + "\t"
	case 2:
		return " " + s // needs an escape to survive the syntax
	case 3:
		return "  " + s + "  "
	}
	return s
}

var textWords = []string{"hello", "x-forwarded-for", "/", "ver1.0", "a b c", "with=equals", "co:lon", "#notcomment", "!bang", "back\\slash", "two\\\\slashes",
	"tab\there", "line\nbreak", "trail ", "  lead", "한글 값", "é", "日本語", "emoji😀", "quote\"s", "a,b,c", "C:\\dir\\file", "end\\", "x", "%d", "-", "cr\rx", "ff\fx"}

func textValue(r *rand.Rand) string { return textWords[r.Intn(len(textWords))] }

// plainText: values the simplest `key=value` writer can carry: printable, no leading
// blank, no control characters, no doubled backslash
var plainWords = []string{"hello", "x-forwarded-for", "/", "ver1.0", "a b c", "with=equals", "co:lon", "v#h", "v!b", "back\\slash", "한글 값", "é", "日本語",
	"emoji😀", "quote\"s", "a,b,c", "C:\\dir\\file", "x", "%d", "-", "trail ", "true", "false", "10", "-3", "2.5", "1,2,3", "k=v=w"}

func plainValue(r *rand.Rand) string { return plainWords[r.Intn(len(plainWords))] }

func listValue(r *rand.Rand, deli string) string {
	n := r.Intn(5)
	var parts []string
	for i := 0; i < n; i++ {
		var p string
		switch r.Intn(7) {
		case 0:
			p = badInt(r)
		case 1:
			p = " " + goodInt(r) + " "
		case 2:
			p = []string{"alpha", "beta", "/index", "x y", "é"}[r.Intn(5)]
		default:
			p = goodInt(r)
		}
		parts = append(parts, p)
	}
	d := string(deli[r.Intn(len(deli))])
	s := strings.Join(parts, d)
	if r.Intn(5) == 0 {
		s = d + s + d + d
	}
	return s
}

// anyValue draws a value of a random class; class names are used for the distinct count
func anyValue(r *rand.Rand) (string, string) {
	switch r.Intn(12) {
	case 0:
		return pad(r, boolWords[r.Intn(len(boolWords))]), "bool"
	case 1:
		return badBools[r.Intn(len(badBools))], "badbool"
	case 2, 3:
		return pad(r, goodInt(r)), "int"
	case 4:
		return wideInt(r), "wideint"
	case 5:
		return badInt(r), "badint"
	case 6:
		return pad(r, floatGood[r.Intn(len(floatGood))]), "float"
	case 7:
		return floatBad[r.Intn(len(floatBad))], "badfloat"
	case 8:
		return listValue(r, ",;|"), "list"
	case 9:
		return "", "empty"
	default:
		return textValue(r), "text"
	}
}

func f32FromText(s string) float32 {
	f, err := strconv.ParseFloat(s, 32)
	if err != nil {
		panic(fmt.Sprint("harness literal ", s, err))
	}
	return float32(f)
}
