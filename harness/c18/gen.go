package c18

import (
	"fmt"
	"math/rand"
	"os"
	"strconv"
	"strings"
)

// ---------------------------------------------------------------- keys

var plainKeyHeads = []string{"debug", "net_udp_port", "enabled", "tx_max_count", "mtrace_rate", "a", "b1", "k", "list", "rate", "name", "x.y", "_u", "0k", "Key", "long-name", "ids"}

// the names in the environment this process was started with: the histories keep clear of them
// (absent keys fall back to the environment) and set variables of their own, which the trace
// records
var inheritedEnv map[string]bool

func inherited() map[string]bool {
	if inheritedEnv == nil {
		inheritedEnv = map[string]bool{}
		for _, kv := range os.Environ() {
			if i := strings.IndexByte(kv, '='); i > 0 {
				inheritedEnv[kv[:i]] = true
			}
		}
	}
	return inheritedEnv
}

func usableKey(k string) bool {
	if k == "" || strings.Contains(k, "${") {
		return false
	}
	return !inherited()[k]
}

// plainKey: starts with a word character, then word characters, '.', '-'.
func plainKey(r *rand.Rand) string {
	for {
		k := plainKeyHeads[r.Intn(len(plainKeyHeads))]
		if r.Intn(3) == 0 {
			k += []string{"_1", ".sub", "-x", "2", "_"}[r.Intn(5)]
		}
		if usableKey(k) {
			return k
		}
	}
}

// exoticKey: keys that need the syntax's escapes or are not ASCII words.
func exoticKey(r *rand.Rand) string {
	for {
		k := []string{"k x", "a=b", "a:b", "#hash", "!bang", "키", "clé", "日本.語", "-dash", ".dot", "sp ace.key", "back\\slash", "ta\tb", "e\u00e9", "ключ", "😀k", "k#c", "k!"}[r.Intn(18)]
		if usableKey(k) {
			return k
		}
	}
}

// ---------------------------------------------------------------- values

var boolWords = []string{"true", "false", "TRUE", "FALSE", "True", "False", "t", "f", "T", "F", "1", "0"}
var badBools = []string{"yes", "no", "on", "tRuE", "truee", "2", "-1", "tru", "0.0", "y"}
var floatGood = []string{"0", "1", "2", "1.5", "-2.25", "0.1", "1e3", "3.4028235e38", "1e-3", ".5", "5.", "+7", "-0", "16777217", "1E2", "0.3", "123456.789", "-1e-2", "100", "42", "6600", "2.5", "1e39", "-1e39"}
var floatBad = []string{"1,5", "--1", "1.2.3", "abc", "1e", "e5", ".", "+", "1 2", "1.5f", "$3", "12%", "0..1", "1e+", "1-2"}

func goodInt(r *rand.Rand) string {
	switch r.Intn(8) {
	case 0:
		return []string{"2147483647", "-2147483648", "0", "-0", "+0", "007", "+15", "-000012"}[r.Intn(8)]
	case 1:
		return strconv.Itoa(r.Intn(70000))
	case 2:
		return strconv.Itoa(-r.Intn(70000))
	case 3:
		return strconv.FormatInt(int64(r.Int31()), 10)
	default:
		return strconv.Itoa(r.Intn(10000))
	}
}

// integers that fit 64 but not 32 bits, and ones that fit neither
func wideInt(r *rand.Rand) string {
	return []string{"2147483648", "-2147483649", "4294967296", "9223372036854775807", "-9223372036854775808",
		"9223372036854775808", "-9223372036854775809", "99999999999999999999", "00000000000000000000001", "123456789012"}[r.Intn(10)]
}

func badInt(r *rand.Rand) string {
	return []string{"12abc", "1.5", "0x10", "1_000", "++1", "-", "+", "1 2", "١٢", "12L", "1e3", "٣", "--5", "1,000"}[r.Intn(14)]
}

// pad surrounds s with blanks the getters are documented to trim
func pad(r *rand.Rand, s string) string {
	switch r.Intn(6) {
	case 0:
		return s + " "
	case 1:
		return s + "\t"
	case 2:
		return " " + s // needs an escape to survive the syntax
	case 3:
		return "  " + s + "  "
	}
	return s
}

var textWords = []string{"hello", "x-forwarded-for", "/", "ver1.0", "a b c", "with=equals", "co:lon", "#notcomment", "!bang", "back\\slash", "two\\\\slashes",
	"tab\there", "line\nbreak", "trail ", "  lead", "한글 값", "é", "日本語", "emoji😀", "quote\"s", "a,b,c", "C:\\dir\\file", "end\\", "x", "%d", "-", "cr\rx", "ff\fx"}

func textValue(r *rand.Rand) string { return textWords[r.Intn(len(textWords))] }

// plainText: values the simplest `key=value` writer can carry: printable, no leading
// blank, no control characters, no doubled backslash
var plainWords = []string{"hello", "x-forwarded-for", "/", "ver1.0", "a b c", "with=equals", "co:lon", "v#h", "v!b", "back\\slash", "한글 값", "é", "日本語",
	"emoji😀", "quote\"s", "a,b,c", "C:\\dir\\file", "x", "%d", "-", "trail ", "true", "false", "10", "-3", "2.5", "1,2,3", "k=v=w"}

func plainValue(r *rand.Rand) string { return plainWords[r.Intn(len(plainWords))] }

func listValue(r *rand.Rand, deli string) string {
	n := r.Intn(5)
	var parts []string
	for i := 0; i < n; i++ {
		var p string
		switch r.Intn(7) {
		case 0:
			p = badInt(r)
		case 1:
			p = " " + goodInt(r) + " "
		case 2:
			p = []string{"alpha", "beta", "/index", "x y", "é"}[r.Intn(5)]
		default:
			p = goodInt(r)
		}
		parts = append(parts, p)
	}
	d := string(deli[r.Intn(len(deli))])
	s := strings.Join(parts, d)
	if r.Intn(5) == 0 {
		s = d + s + d + d
	}
	return s
}

// anyValue draws a value of a random class; class names are used for the distinct count
func anyValue(r *rand.Rand) (string, string) {
	switch r.Intn(12) {
	case 0:
		return pad(r, boolWords[r.Intn(len(boolWords))]), "bool"
	case 1:
		return badBools[r.Intn(len(badBools))], "badbool"
	case 2, 3:
		return pad(r, goodInt(r)), "int"
	case 4:
		return wideInt(r), "wideint"
	case 5:
		return badInt(r), "badint"
	case 6:
		return pad(r, floatGood[r.Intn(len(floatGood))]), "float"
	case 7:
		return floatBad[r.Intn(len(floatBad))], "badfloat"
	case 8:
		return listValue(r, ",;|"), "list"
	case 9:
		return "", "empty"
	default:
		return textValue(r), "text"
	}
}

func f32FromText(s string) float32 {
	f, err := strconv.ParseFloat(s, 32)
	if err != nil {
		panic(fmt.Sprint("harness literal ", s, err))
	}
	return float32(f)
}

// ---------------------------------------------------------------- references ${name}

// The properties syntax lets a value refer to other keys of the file and to environment
// variables.  The histories generate such values; what they are worth is decided by the
// specification (FileConfig.tla, Expand) from the file's lines and the recorded environment.
// The expansion below is the harness's own reading of the rule and is used for STEERING only
// (which files does the parser reject as a whole; which tokens the hash tables must cover).

// variables the histories set before the constructor runs and never touch again: the values a
// reference has must not change between a load and the getters that follow it
var refEnvPool = [][2]string{{"C18_BASE", "/opt/whatap"}, {"C18_N", "14"}, {"C18_FLAG", "true"}, {"C18_EMPTY", ""},
	{"C18_PAD", " 7 "}, {"C18_LIST", "1,2,x"}, {"C18_NEG", "-3"}, {"c18.dotted", "2.5"}}

// names no history ever sets
var refUnset = []string{"C18_UNSET", "undefined.name", "no such", "키없음_ref"}

const (
	refsNone     = iota
	refsLoadable // only files the parser accepts; references only on plain `k=v` lines
	refsAny      // also circular and unterminated references: the parser rejects the file
)

func goExpand(s string, stack []string, m, env map[string]string) (string, bool) {
	if len(stack) > 64 {
		return "", false
	}
	for {
		i := strings.Index(s, "${")
		if i < 0 {
			return s, true
		}
		j := strings.Index(s[i+2:], "}")
		if j < 0 {
			return "", false
		}
		name := s[i+2 : i+2+j]
		for _, k := range stack {
			if k == name {
				return "", false
			}
		}
		v, ok := m[name]
		if !ok {
			v = env[name]
		}
		x, ok := goExpand(v, append(append([]string(nil), stack...), name), m, env)
		if !ok {
			return "", false
		}
		s = s[:i] + x + s[i+2+j+1:]
	}
}

func rawMap(ls []Line) map[string]string {
	m := map[string]string{}
	for _, l := range ls {
		if l.T == "kv" {
			m[string(l.K)] = string(l.V)
		}
	}
	return m
}

// loadable: would the parser accept the file (harness's reading; the verdict is TLC's)
func (w *world) loadable() bool {
	m := rawMap(w.lines)
	for k, v := range m {
		if _, ok := goExpand(v, []string{k}, m, w.env); !ok {
			return false
		}
	}
	return true
}

func simpleKey(k string) bool {
	if k == "" {
		return false
	}
	for i := 0; i < len(k); i++ {
		c := k[i]
		if !(c >= 'a' && c <= 'z' || c >= 'A' && c <= 'Z' || c >= '0' && c <= '9' || c == '_' || (i > 0 && (c == '.' || c == '-'))) {
			return false
		}
	}
	return true
}

// fixEnv sets some of the pool's variables for this history (recorded in Reset.penv)
func (w *world) fixEnv() {
	for _, kv := range refEnvPool {
		if inherited()[kv[0]] {
			continue
		}
		if w.r.Intn(3) > 0 {
			if err := os.Setenv(kv[0], kv[1]); err != nil {
				panic(err)
			}
			w.env[kv[0]] = kv[1]
		}
	}
}

// refTarget: a name to refer to: a key of the file (self: the line's own key -- circular),
// a variable of the pool (set or not in this history), a name nobody defines.  Never a name
// the history's Env events set or unset (w.envEver): see refEnvPool.
func (w *world) refTarget(self string) string {
	r := w.r
	for tries := 0; tries < 30; tries++ {
		var k string
		switch x := r.Intn(10); {
		case x < 5:
			var ks []string
			for _, l := range w.lines {
				if l.T == "kv" && string(l.K) != self {
					ks = append(ks, string(l.K))
				}
			}
			if len(ks) == 0 {
				continue
			}
			k = ks[r.Intn(len(ks))]
		case x < 6 && w.refs == refsAny:
			k = self
		case x < 9:
			k = refEnvPool[r.Intn(len(refEnvPool))][0]
		default:
			k = refUnset[r.Intn(len(refUnset))]
		}
		if k == "" || strings.ContainsAny(k, "}\x00") || w.envEver[k] || inherited()[k] || (w.refPlain && k == "C18_PAD") {
			continue
		}
		w.refd[k] = true
		return k
	}
	k := refEnvPool[0][0]
	w.refd[k] = true
	return k
}

// refValue: a value that uses the reference syntax
func (w *world) refValue(self string) string {
	r := w.r
	t := func() string { return "${" + w.refTarget(self) + "}" }
	switch x := r.Intn(16); {
	case x < 4:
		return t()
	case x < 6:
		return t() + "/logs"
	case x == 6:
		return "pre-" + t() + ".post"
	case x == 7:
		return t() + t()
	case x == 8:
		return t() + "," + t() + ";" + []string{"3", "x", ""}[r.Intn(3)]
	case x == 9 && !w.refPlain:
		return " " + t() + "  " // blanks the getters trim
	case x == 10:
		return []string{"${}", "$" + t(), "}" + t() + "{", "$ {not a reference}", t() + "}", "$$", "{" + t()}[r.Intn(7)]
	case x == 11:
		return "1" + t() // digits glued to a value
	case x == 12 && w.refs == refsAny:
		return []string{"${", "${open", "x${" + w.refTarget(self), t() + "${"}[r.Intn(4)] // no closing brace
	default:
		return t()
	}
}
