package c18

// An independent writer and reader of the .properties line syntax (standard
// library only).  The writer turns logical lines into file bytes for the
// external-editor role; the reader turns file bytes back into logical lines so
// that TLC can judge what the real write-back left on disk.  Every Edit event
// carries both views of the same bytes and the trace specification requires
// them to agree, which keeps the reader honest on everything generated.

import (
	"math/rand"
	"strings"
	"unicode/utf8"

	"verifharness/core"
)

// Line is one logical line: T = "c" comment (V raw), "b" blank (V raw), "kv".
type Line struct {
	T string
	K []byte
	V []byte
}

func (l Line) ev() core.Ev {
	return core.Ev{"t": l.T, "k": core.Cp(l.K), "v": core.Cp(l.V)}
}

func linesEv(ls []Line) []core.Ev {
	out := make([]core.Ev, 0, len(ls))
	for _, l := range ls {
		out = append(out, l.ev())
	}
	return out
}

func cloneLines(ls []Line) []Line {
	out := make([]Line, len(ls))
	for i, l := range ls {
		out[i] = Line{l.T, append([]byte(nil), l.K...), append([]byte(nil), l.V...)}
	}
	return out
}

// ---------------------------------------------------------------- writer

// form of a key/value line
const (
	fEq     = iota // k=v
	fEqSp          // k = v
	fColon         // k:v  or k : v
	fBlank         // k v
	fTabs          // tabs / form feeds around the separator, leading blanks
	fUniEsc        // non-ASCII as \uXXXX, '=' ':' '#' '!' in the value escaped
	fCont          // value continued on a second physical line
	nForms
)

func escKey(k []byte, uni bool) string {
	var sb strings.Builder
	s := string(k)
	for i, r := range s {
		switch {
		case r == ' ' || r == '=' || r == ':' || r == '\\':
			sb.WriteByte('\\')
			sb.WriteRune(r)
		case (r == '#' || r == '!') && i == 0:
			sb.WriteByte('\\')
			sb.WriteRune(r)
		case r == '\t':
			sb.WriteString("\\t")
		case r == '\n':
			sb.WriteString("\\n")
		case r == '\r':
			sb.WriteString("\\r")
		case r == '\f':
			sb.WriteString("\\f")
		case r > 127 && r <= 0xffff && uni:
			sb.WriteString("\\u")
			const hx = "0123456789abcdef"
			sb.WriteByte(hx[(r>>12)&15])
			sb.WriteByte(hx[(r>>8)&15])
			sb.WriteByte(hx[(r>>4)&15])
			sb.WriteByte(hx[r&15])
		default:
			sb.WriteRune(r)
		}
	}
	return sb.String()
}

func escVal(v []byte, uni bool, punct bool) string {
	var sb strings.Builder
	s := string(v)
	lead := true
	for _, r := range s {
		switch {
		case r == '\\':
			sb.WriteString("\\\\")
		case r == ' ' && lead:
			sb.WriteString("\\ ")
		case r == '\t':
			sb.WriteString("\\t")
		case r == '\n':
			sb.WriteString("\\n")
		case r == '\r':
			sb.WriteString("\\r")
		case r == '\f':
			sb.WriteString("\\f")
		case punct && (r == '=' || r == ':' || r == '#' || r == '!'):
			sb.WriteByte('\\')
			sb.WriteRune(r)
		case r > 127 && r <= 0xffff && uni:
			sb.WriteString("\\u")
			const hx = "0123456789ABCDEF"
			sb.WriteByte(hx[(r>>12)&15])
			sb.WriteByte(hx[(r>>8)&15])
			sb.WriteByte(hx[(r>>4)&15])
			sb.WriteByte(hx[r&15])
		default:
			sb.WriteRune(r)
		}
		if r != ' ' && r != '\t' && r != '\f' {
			lead = false
		}
	}
	return sb.String()
}

// renderKV writes one key/value line (without the line terminator) in the given form.
func renderKV(r *rand.Rand, k, v []byte, form int, eol string) string {
	switch form {
	case fEq:
		return escKey(k, false) + "=" + escVal(v, false, false)
	case fEqSp:
		return escKey(k, false) + " = " + escVal(v, false, false)
	case fColon:
		if r.Intn(2) == 0 {
			return escKey(k, false) + ":" + escVal(v, false, false)
		}
		return escKey(k, false) + " : " + escVal(v, false, false)
	case fBlank:
		if len(v) == 0 {
			return escKey(k, false)
		}
		return escKey(k, false) + " " + escVal(v, false, false)
	case fTabs:
		seps := []string{"\t=\t", "\t", " \t: ", "\f=", "=\t "}
		return []string{"", " ", "\t", "  "}[r.Intn(4)] + escKey(k, false) + seps[r.Intn(len(seps))] + escVal(v, false, false)
	case fUniEsc:
		return escKey(k, true) + "=" + escVal(v, true, true)
	case fCont:
		ev := escVal(v, false, false)
		// cut between two runes, not inside an escape sequence
		cuts := []int{}
		for i := 1; i < len(ev); i++ {
			if utf8.RuneStart(ev[i]) && !insideEscape(ev, i) {
				cuts = append(cuts, i)
			}
		}
		if len(cuts) == 0 {
			return escKey(k, false) + "=" + ev
		}
		c := cuts[r.Intn(len(cuts))]
		rest := ev[c:]
		// leading blanks of the continuation line are skipped by the syntax: protect them
		if rest[0] == ' ' {
			rest = "\\" + rest
		}
		return escKey(k, false) + "=" + ev[:c] + "\\" + eol + []string{"", "  ", "\t"}[r.Intn(3)] + rest
	}
	panic("form")
}

// insideEscape reports whether position i of s is preceded by an odd run of backslashes
// or lies within a \uXXXX literal.
func insideEscape(s string, i int) bool {
	n := 0
	for j := i - 1; j >= 0 && s[j] == '\\'; j-- {
		n++
	}
	if n%2 == 1 {
		return true
	}
	for back := 1; back <= 5 && i-back >= 1; back++ {
		if s[i-back] == 'u' && s[i-back-1] == '\\' {
			m := 0
			for j := i - back - 1; j >= 0 && s[j] == '\\'; j-- {
				m++
			}
			if m%2 == 1 && back <= 4 {
				return true
			}
		}
	}
	return false
}

// ---------------------------------------------------------------- reader

func isWsp(b byte) bool { return b == ' ' || b == '\t' || b == '\f' }

// splitPhysical cuts data at \n, \r\n and \r; a trailing terminator does not open a new line.
func splitPhysical(data []byte) [][]byte {
	var out [][]byte
	start := 0
	for i := 0; i < len(data); i++ {
		if data[i] == '\n' || data[i] == '\r' {
			out = append(out, data[start:i])
			if data[i] == '\r' && i+1 < len(data) && data[i+1] == '\n' {
				i++
			}
			start = i + 1
		}
	}
	if start < len(data) {
		out = append(out, data[start:])
	}
	return out
}

func trailingBackslashes(b []byte) int {
	n := 0
	for i := len(b) - 1; i >= 0 && b[i] == '\\'; i-- {
		n++
	}
	return n
}

func unescape(b []byte) []byte {
	var out []byte
	for i := 0; i < len(b); i++ {
		if b[i] != '\\' {
			out = append(out, b[i])
			continue
		}
		i++
		if i >= len(b) {
			break
		}
		switch b[i] {
		case 't':
			out = append(out, '\t')
		case 'n':
			out = append(out, '\n')
		case 'r':
			out = append(out, '\r')
		case 'f':
			out = append(out, '\f')
		case 'u':
			if i+4 <= len(b)-1 {
				v := 0
				ok := true
				for j := 1; j <= 4; j++ {
					c := b[i+j]
					switch {
					case c >= '0' && c <= '9':
						v = v*16 + int(c-'0')
					case c >= 'a' && c <= 'f':
						v = v*16 + int(c-'a') + 10
					case c >= 'A' && c <= 'F':
						v = v*16 + int(c-'A') + 10
					default:
						ok = false
					}
				}
				if ok {
					var tmp [4]byte
					n := utf8.EncodeRune(tmp[:], rune(v))
					out = append(out, tmp[:n]...)
					i += 4
					continue
				}
			}
			out = append(out, 'u')
		default:
			out = append(out, b[i])
		}
	}
	return out
}

// parseProps reads file bytes into logical lines.
func parseProps(data []byte) []Line {
	phys := splitPhysical(data)
	var out []Line
	for i := 0; i < len(phys); i++ {
		raw := phys[i]
		j := 0
		for j < len(raw) && isWsp(raw[j]) {
			j++
		}
		if j == len(raw) {
			out = append(out, Line{T: "b", V: append([]byte(nil), raw...)})
			continue
		}
		if raw[j] == '#' || raw[j] == '!' {
			out = append(out, Line{T: "c", V: append([]byte(nil), raw...)})
			continue
		}
		logical := append([]byte(nil), raw[j:]...)
		for trailingBackslashes(logical)%2 == 1 && i+1 < len(phys) {
			logical = logical[:len(logical)-1]
			i++
			nx := phys[i]
			k := 0
			for k < len(nx) && isWsp(nx[k]) {
				k++
			}
			logical = append(logical, nx[k:]...)
		}
		// key: up to the first unescaped '=', ':' or blank
		p := 0
		for p < len(logical) {
			c := logical[p]
			if c == '\\' {
				p += 2
				continue
			}
			if c == '=' || c == ':' || isWsp(c) {
				break
			}
			p++
		}
		if p > len(logical) {
			p = len(logical)
		}
		key := unescape(logical[:p])
		q := p
		for q < len(logical) && isWsp(logical[q]) {
			q++
		}
		if q < len(logical) && (logical[q] == '=' || logical[q] == ':') {
			q++
		}
		for q < len(logical) && isWsp(logical[q]) {
			q++
		}
		val := unescape(logical[q:])
		if key == nil {
			key = []byte{}
		}
		if val == nil {
			val = []byte{}
		}
		out = append(out, Line{T: "kv", K: key, V: val})
	}
	return out
}

// renderFile writes the logical lines as file bytes; forms[i] is the form of line i.
func renderFile(r *rand.Rand, ls []Line, forms []int, eol string, finalEOL bool) []byte {
	var sb strings.Builder
	for i, l := range ls {
		switch l.T {
		case "c", "b":
			sb.Write(l.V)
		default:
			sb.WriteString(renderKV(r, l.K, l.V, forms[i], eol))
		}
		if i < len(ls)-1 || finalEOL {
			sb.WriteString(eol)
		}
	}
	return []byte(sb.String())
}
