package c18

// Child-process modes.  The harness re-executes itself with C18_CHILD set:
//   conc  8 reader goroutines call getters while one goroutine edits the file and reloads;
//         a Go runtime abort ("concurrent map read and map write") kills the child and the
//         parent records it as an event the specification has no action for
//   sys   a list of write-backs, each between two marker system calls, run under strace

import (
	"encoding/json"
	"fmt"
	"math/rand"
	"os"
	"os/exec"
	"path/filepath"
	"runtime"
	"sort"
	"strings"
	"sync"
	"sync/atomic"
	"time"

	"github.com/whatap/golib/config"
	"github.com/whatap/golib/config/conffile"

	"verifharness/core"
)

func childMain(mode string) {
	for _, e := range []string{"WHATAP_HOME", "WHATAP_CONFIG_HOME", "WHATAP_CONFIG"} {
		os.Unsetenv(e)
	}
	var err error
	switch mode {
	case "conc":
		err = childConc()
	case "vanish":
		err = childVanish()
	case "sys":
		err = childSys()
	default:
		err = fmt.Errorf("unknown child mode %q", mode)
	}
	if err != nil {
		fmt.Fprintln(os.Stderr, "c18 child:", err)
		os.Exit(3)
	}
	os.Exit(0)
}

// ------------------------------------------------------------------ conc

type concSpec struct {
	Dir     string
	Seed    int64
	Reloads int
	Keys    int
	Readers int
	Keep    int // observations kept per reader that straddle a reload
	KeepChg int // ... and that differ from the reader's previous observation of the same key
	Env     map[string]string
}

type concObs struct {
	Kind string   `json:"kind"` // "get" | "keys"
	K    string   `json:"k,omitempty"`
	Ret  string   `json:"ret"`
	Keys []string `json:"keys,omitempty"`
	Lo   int      `json:"lo"`
	Hi   int      `json:"hi"`
}

type concVersion struct {
	Gone  bool          `json:"gone"` // the file was taken away (Lines: what it held before)
	Lines [][2]string   `json:"lines"`
	Sec   int           `json:"sec"`
	Ms    int           `json:"ms"`
	Snap  [][2]string   `json:"snap"`
	Notes [][][2]string `json:"notes"`
}

type concOut struct {
	Versions []concVersion `json:"versions"`
	Obs      []concObs     `json:"obs"`
	Reads    int64         `json:"reads"`
}

type pairObs struct {
	mu    sync.Mutex
	notes [][][2]string
}

func snapPairs(c config.Config) [][2]string {
	keys := c.GetKeys()
	sort.Strings(keys)
	out := make([][2]string, 0, len(keys))
	for _, k := range keys {
		out = append(out, [2]string{k, c.GetValue(k)})
	}
	return out
}

func (o *pairObs) ApplyConfig(c config.Config) {
	s := snapPairs(c)
	o.mu.Lock()
	o.notes = append(o.notes, s)
	o.mu.Unlock()
}

// keys the readers ask for besides the file's own: two the file and the library's defaults
// both have, one only the defaults have, one only the environment has
var concDefaultKeys = []string{"enabled", "tx_max_count", "debug", "env_only"}

func (o *pairObs) take() [][][2]string {
	o.mu.Lock()
	defer o.mu.Unlock()
	n := o.notes
	o.notes = nil
	if n == nil {
		n = [][][2]string{}
	}
	return n
}

func concLines(r *rand.Rand, ver, nkeys int) [][2]string {
	var ls [][2]string
	for j := 0; j < nkeys; j++ {
		ls = append(ls, [2]string{fmt.Sprintf("key%d", j), fmt.Sprintf("v%d_%d", ver, j)})
	}
	// the map keeps growing: a new key every few versions
	for j := 0; j <= ver/8; j++ {
		ls = append(ls, [2]string{fmt.Sprintf("extra%d", j), fmt.Sprintf("%d", ver*10+j)})
	}
	// keys the library's defaults have too (a file that disappears leaves the defaults' values)
	ls = append(ls, [2]string{"enabled", []string{"false", "true", ""}[ver%3]}, [2]string{"tx_max_count", fmt.Sprint(1000 + ver)})
	return ls
}

func writeVersion(path string, ls [][2]string, sec, ms int) error {
	var b []byte
	for _, l := range ls {
		b = append(b, l[0]...)
		b = append(b, '=')
		b = append(b, l[1]...)
		b = append(b, '\n')
	}
	tmp := path + ".edit"
	if err := os.WriteFile(tmp, b, 0o644); err != nil {
		return err
	}
	t := stampTime(sec, ms)
	if err := os.Chtimes(tmp, t, t); err != nil {
		return err
	}
	return os.Rename(tmp, path)
}

func childConc() error {
	var sp concSpec
	if err := json.Unmarshal([]byte(os.Getenv("C18_SPEC")), &sp); err != nil {
		return err
	}
	runtime.GOMAXPROCS(sp.Readers + 2)
	r := rand.New(rand.NewSource(sp.Seed))
	path := filepath.Join(sp.Dir, "whatap.conf")
	out := concOut{}
	sec, ms := 0, 0
	v0 := concLines(r, 0, sp.Keys)
	if err := writeVersion(path, v0, sec, ms); err != nil {
		return err
	}
	ob := config.NewConfigObserver()
	po := &pairObs{}
	ob.Add("o", po)
	conf := conffile.NewFileConfigForVerif(conffile.WithHomePath(sp.Dir), conffile.WithConfigObserver(ob))
	out.Versions = append(out.Versions, concVersion{Lines: v0, Sec: sec, Ms: ms, Snap: snapPairs(conf), Notes: po.take()})

	// a key the environment of this process names without the history knowing is never asked for
	// (an absent key is answered from the environment)
	askable := func(k string) bool {
		if _, planned := sp.Env[k]; planned {
			return true
		}
		_, set := os.LookupEnv(k)
		return !set
	}
	var started, done atomic.Int64 // index of the reload that last began / last finished
	var stop atomic.Bool
	var reads atomic.Int64
	var wg, ready sync.WaitGroup
	obs := make([][]concObs, sp.Readers)
	for g := 0; g < sp.Readers; g++ {
		wg.Add(1)
		ready.Add(1)
		go func(g int) {
			defer wg.Done()
			rr := rand.New(rand.NewSource(sp.Seed*131 + int64(g)))
			first := true
			n := int64(0)
			last := map[string]string{} // this reader's previous observation per key
			canAsk := map[string]bool{}
			lastKeys, chg := -1, 0
			for !stop.Load() {
				lo := int(done.Load())
				var o concObs
				if n%16 == 15 {
					ks := conf.GetKeys()
					o = concObs{Kind: "keys", Keys: ks}
				} else {
					var k string
					switch x := rr.Intn(10); {
					case x < 2:
						k = fmt.Sprintf("extra%d", rr.Intn(1+sp.Reloads/8))
					case x < 6:
						k = concDefaultKeys[rr.Intn(len(concDefaultKeys))]
					default:
						k = fmt.Sprintf("key%d", rr.Intn(sp.Keys))
					}
					ok, known := canAsk[k]
					if !known {
						ok = askable(k)
						canAsk[k] = ok
					}
					if !ok {
						k = "key0"
					}
					switch n % 4 {
					case 0:
						o = concObs{Kind: "get", K: k, Ret: conf.GetValue(k)}
					case 1:
						_ = conf.GetInt(k, 0)
						o = concObs{Kind: "get", K: k, Ret: conf.GetValue(k)}
					case 2:
						_ = conf.GetBoolean(k, false)
						o = concObs{Kind: "get", K: k, Ret: conf.GetValueDef(k, "")}
					default:
						o = concObs{Kind: "get", K: k, Ret: conf.GetValue(k)}
					}
				}
				o.Lo, o.Hi = lo, int(started.Load())
				n++
				// which observations are recorded (TLC judges every recorded one): the first that
				// straddle a reload and a thin sample, and -- so that a configuration which shows
				// for an instant only is not lost among millions of reads -- every observation that
				// differs from this reader's previous one of the same key (of the number of keys)
				changed := false
				if o.Kind == "keys" {
					changed = lastKeys >= 0 && lastKeys != len(o.Keys)
					lastKeys = len(o.Keys)
				} else {
					prev, seen := last[o.K]
					changed = seen && prev != o.Ret
					last[o.K] = o.Ret
				}
				if changed && chg < sp.KeepChg {
					chg++
					sort.Strings(o.Keys)
					obs[g] = append(obs[g], o)
				} else if len(obs[g])-chg < sp.Keep && (o.Lo != o.Hi || n%4096 == 1) {
					sort.Strings(o.Keys)
					obs[g] = append(obs[g], o)
				}
				if first {
					first = false
					ready.Done()
				}
			}
			reads.Add(n)
		}(g)
	}
	ready.Wait()
	gone := false
	ls := v0
	for i := 1; i <= sp.Reloads; i++ {
		if r.Intn(3) == 0 {
			sec, ms = sec+1, r.Intn(1000)
		} else if ms < 990 {
			ms += 1 + r.Intn(3)
		} else {
			sec, ms = sec+1, 0
		}
		if !gone && r.Intn(3) == 0 {
			// the file is taken away: unlinked or renamed away
			var err error
			if r.Intn(2) == 0 {
				err = os.Remove(path)
			} else {
				err = os.Rename(path, path+".away")
			}
			if err != nil {
				return err
			}
			gone = true
		} else {
			ls = concLines(r, i, sp.Keys)
			if err := writeVersion(path, ls, sec, ms); err != nil {
				return err
			}
			gone = false
		}
		started.Store(int64(i))
		conf.ReloadNowForVerif()
		done.Store(int64(i))
		out.Versions = append(out.Versions, concVersion{Gone: gone, Lines: ls, Sec: sec, Ms: ms, Snap: snapPairs(conf), Notes: po.take()})
		if i%16 == 0 {
			time.Sleep(200 * time.Microsecond)
		}
	}
	stop.Store(true)
	wg.Wait()
	for _, o := range obs {
		out.Obs = append(out.Obs, o...)
	}
	out.Reads = reads.Load()
	b, err := json.Marshal(out)
	if err != nil {
		return err
	}
	return os.WriteFile(os.Getenv("C18_OUT"), b, 0o644)
}

func pairsEv(p [][2]string) []interface{} {
	out := make([]interface{}, 0, len(p))
	for _, x := range p {
		out = append(out, []core.Bytes{core.Str(x[0]), core.Str(x[1])})
	}
	return out
}

func kvLinesEv(p [][2]string) []core.Ev {
	out := make([]core.Ev, 0, len(p))
	for _, x := range p {
		out = append(out, Line{T: "kv", K: []byte(x[0]), V: []byte(x[1])}.ev())
	}
	return out
}

// histConc runs the child and turns what it saw into events.
func histConc(c *core.Ctx, t *core.Trace, gen string, cas int) error {
	dir, err := os.MkdirTemp(c.OutDir, "conc-")
	if err != nil {
		return err
	}
	defer os.RemoveAll(dir)
	r := c.Rng(gen, cas)
	sp := concSpec{Dir: dir, Seed: r.Int63(), Reloads: c.Pick(160, 600), Keys: 10, Readers: 8, Keep: c.Pick(30, 80), KeepChg: c.Pick(250, 600),
		// the child's environment names a key the file always sets (sometimes to the empty value), a
		// key that enters the file late, and a key no file has
		Env: map[string]string{"enabled": "from-env", "extra3": "early", "env_only": " E1 "}}
	for k := range sp.Env {
		if !usableKey(k) {
			delete(sp.Env, k)
		}
	}
	envEv := []interface{}{}
	envKeys := []string{}
	for k := range sp.Env {
		envKeys = append(envKeys, k)
	}
	sort.Strings(envKeys)
	for _, k := range envKeys {
		envEv = append(envEv, []core.Bytes{core.Str(k), core.Str(sp.Env[k])})
	}
	spb, _ := json.Marshal(sp)
	outp := filepath.Join(dir, "out.json")
	exe, err := os.Executable()
	if err != nil {
		return err
	}
	cmd := exec.Command(exe)
	cmd.Env = append(os.Environ(), "C18_CHILD=conc", "C18_SPEC="+string(spb), "C18_OUT="+outp)
	for _, k := range envKeys {
		cmd.Env = append(cmd.Env, k+"="+sp.Env[k])
	}
	cmd.Dir = dir
	msg, runErr := cmd.CombinedOutput()

	nkeys := sp.Keys
	if runErr != nil {
		// the child died: there is no record of its versions; the history is the death itself
		t.Reset(gen, cas, core.Ev{"pre": core.Str(""), "suf": core.Str(""), "excl": []core.Bytes{}, "nobs": 1,
			"file": kvLinesEv(concLines(r, 0, nkeys)), "mt": []int{0, 0}, "exists": true, "penv": envEv, "libdefs": defaultsEv()})
		tail := string(msg)
		if len(tail) > 600 {
			tail = tail[:600]
		}
		t.Emit(core.Ev{"ev": "CFatal", "err": runErr.Error(), "msg": tail})
		c.Count(gen+":fatal", true)
		return nil
	}
	b, err := os.ReadFile(outp)
	if err != nil {
		return err
	}
	var out concOut
	if err := json.Unmarshal(b, &out); err != nil {
		return err
	}
	v0 := out.Versions[0]
	t.Reset(gen, cas, core.Ev{"pre": core.Str(""), "suf": core.Str(""), "excl": []core.Bytes{}, "nobs": 1,
		"file": kvLinesEv(v0.Lines), "mt": []int{v0.Sec, v0.Ms}, "exists": true, "penv": envEv, "libdefs": defaultsEv()})
	t.Emit(core.Ev{"ev": "ObsAdd", "name": core.Str("o"), "id": 0})
	notesEv := func(n [][][2]string) []interface{} {
		o := []interface{}{}
		for _, x := range n {
			o = append(o, core.Ev{"o": 0, "s": pairsEv(x)})
		}
		return o
	}
	t.Emit(core.Ev{"ev": "New", "snap": pairsEv(v0.Snap), "notes": notesEv(v0.Notes)})
	disappeared := 0
	for _, v := range out.Versions[1:] {
		if v.Gone {
			disappeared++
			t.Emit(core.Ev{"ev": "Delete", "how": 0})
		} else {
			le := kvLinesEv(v.Lines)
			t.Emit(core.Ev{"ev": "Edit", "lines": le, "parsed": le, "mt": []int{v.Sec, v.Ms}})
		}
		t.Emit(core.Ev{"ev": "Reload", "snap": pairsEv(v.Snap), "notes": notesEv(v.Notes)})
	}
	c.SetExtra("concurrent_reloads_that_found_the_file_gone", disappeared)
	straddle := 0
	for _, o := range out.Obs {
		if o.Lo != o.Hi {
			straddle++
		}
		if o.Kind == "keys" {
			ks := []core.Bytes{}
			for _, k := range o.Keys {
				ks = append(ks, core.Str(k))
			}
			t.Emit(core.Ev{"ev": "CKeys", "ret": ks, "lo": o.Lo, "hi": o.Hi})
		} else {
			t.Emit(core.Ev{"ev": "CGet", "k": core.Str(o.K), "ret": core.Str(o.Ret), "lo": o.Lo, "hi": o.Hi})
		}
	}
	reads := out.Reads
	if reads > 1<<30 {
		reads = 1 << 30
	}
	t.Emit(core.Ev{"ev": "CEnd", "reads": reads})
	c.Count(fmt.Sprint(gen, ":", cas), true)
	c.SetExtra("concurrent_getter_calls", out.Reads)
	c.SetExtra("concurrent_observations_straddling_a_reload", straddle)
	return nil
}

// ------------------------------------------------------------------ vanish (witness of C18-read-fatal)

// The file vanishes between a reload's stat and the parser's read.  The child records every
// step as it happens (one unbuffered line per event); the parent copies them into the trace
// and, if the child did not survive, adds the event no specification has an action for.

var vanishFiles = [][][2]string{
	{{"a", "1"}, {"b", "2"}},
	{{"a", "2"}, {"b", "2"}, {"c", "3"}},
	{{"a", "4"}},
}

type vanishParser struct {
	inner conffile.FileParser
	n     int
	emit  func(core.Ev)
}

func (p *vanishParser) Write(path string, m *map[string]string) error { return p.inner.Write(path, m) }

func (p *vanishParser) Read(path string) (map[string]string, error) {
	p.n++
	if p.n != 2 {
		return p.inner.Read(path)
	}
	p.emit(core.Ev{"ev": "RlStat"})
	if err := os.Remove(path); err != nil {
		panic(err)
	}
	p.emit(core.Ev{"ev": "Delete", "how": 0})
	m, err := p.inner.Read(path) // the library's parser on a file that is not there
	if err != nil {
		p.emit(core.Ev{"ev": "RlParseFail", "err": err.Error()})
	}
	return m, err
}

func childVanish() error {
	dir, outp := os.Getenv("C18_DIR"), os.Getenv("C18_OUT")
	f, err := os.OpenFile(outp, os.O_CREATE|os.O_WRONLY|os.O_APPEND, 0o644)
	if err != nil {
		return err
	}
	emit := func(ev core.Ev) {
		b, err := json.Marshal(ev)
		if err != nil {
			panic(err)
		}
		f.Write(append(b, '\n'))
	}
	path := filepath.Join(dir, "whatap.conf")
	if err := writeVersion(path, vanishFiles[0], 0, 0); err != nil {
		return err
	}
	conf := conffile.NewFileConfigForVerif(conffile.WithHomePath(dir), conffile.WithParser(&vanishParser{inner: conffile.NewDefaultFileParser(), emit: emit}))
	emit(core.Ev{"ev": "New", "snap": pairsEv(snapPairs(conf)), "notes": []interface{}{}})
	if err := writeVersion(path, vanishFiles[1], 1, 0); err != nil {
		return err
	}
	le := kvLinesEv(vanishFiles[1])
	emit(core.Ev{"ev": "Edit", "lines": le, "parsed": le, "mt": []int{1, 0}})
	conf.ReloadNowForVerif() // RlStat, Delete, then the parser
	emit(core.Ev{"ev": "RlAbort", "snap": pairsEv(snapPairs(conf)), "notes": []interface{}{}})
	conf.ReloadNowForVerif() // the file is missing: the defaults
	emit(core.Ev{"ev": "Reload", "snap": pairsEv(snapPairs(conf)), "notes": []interface{}{}})
	m := map[string]string{"a": "9"}
	conf.SetValues(&m) // a write-back without a file
	_, serr := os.Stat(path)
	emit(core.Ev{"ev": "SetValuesGone", "kv": pairsEv([][2]string{{"a", "9"}}), "exists": !os.IsNotExist(serr)})
	if err := writeVersion(path, vanishFiles[2], 2, 0); err != nil {
		return err
	}
	le = kvLinesEv(vanishFiles[2])
	emit(core.Ev{"ev": "Edit", "lines": le, "parsed": le, "mt": []int{2, 0}})
	conf.ReloadNowForVerif()
	emit(core.Ev{"ev": "Reload", "snap": pairsEv(snapPairs(conf)), "notes": []interface{}{}})
	return f.Close()
}

func histVanish(c *core.Ctx, t *core.Trace, gen string, cas int) error {
	dir, err := os.MkdirTemp(c.OutDir, "vanish-")
	if err != nil {
		return err
	}
	defer os.RemoveAll(dir)
	outp := filepath.Join(dir, "events.ndjson")
	exe, err := os.Executable()
	if err != nil {
		return err
	}
	cmd := exec.Command(exe)
	cmd.Env = append(os.Environ(), "C18_CHILD=vanish", "C18_DIR="+dir, "C18_OUT="+outp)
	cmd.Dir = dir
	msg, runErr := cmd.CombinedOutput()
	t.Reset(gen, cas, core.Ev{"pre": core.Str(""), "suf": core.Str(""), "excl": []core.Bytes{}, "nobs": 0,
		"file": kvLinesEv(vanishFiles[0]), "mt": []int{0, 0}, "exists": true, "penv": []interface{}{}, "libdefs": defaultsEv()})
	b, _ := os.ReadFile(outp)
	for _, ln := range strings.Split(string(b), "\n") {
		if strings.TrimSpace(ln) == "" {
			continue
		}
		var ev core.Ev
		if err := json.Unmarshal([]byte(ln), &ev); err != nil {
			return err
		}
		t.Emit(ev)
	}
	if runErr != nil {
		tail := string(msg)
		if len(tail) > 600 {
			tail = tail[:600]
		}
		t.Emit(core.Ev{"ev": "CFatal", "err": runErr.Error(), "msg": tail})
	}
	c.Count(gen, true)
	return nil
}
