package c18

// Child-process modes.  The harness re-executes itself with C18_CHILD set:
//   conc  8 reader goroutines call getters while one goroutine edits the file and reloads;
//         a Go runtime abort ("concurrent map read and map write") kills the child and the
//         parent records it as an event the specification has no action for
//   sys   a list of write-backs, each between two marker system calls, run under strace

import (
	"encoding/json"
	"fmt"
	"math/rand"
	"os"
	"os/exec"
	"path/filepath"
	"runtime"
	"sort"
	"sync"
	"sync/atomic"
	"time"

	"github.com/whatap/golib/config"
	"github.com/whatap/golib/config/conffile"

	"verifharness/core"
)

func childMain(mode string) {
	for _, e := range []string{"WHATAP_HOME", "WHATAP_CONFIG_HOME", "WHATAP_CONFIG"} {
		os.Unsetenv(e)
	}
	var err error
	switch mode {
	case "conc":
		err = childConc()
	case "sys":
		err = childSys()
	default:
		err = fmt.Errorf("unknown child mode %q", mode)
	}
	if err != nil {
		fmt.Fprintln(os.Stderr, "c18 child:", err)
		os.Exit(3)
	}
	os.Exit(0)
}

// ------------------------------------------------------------------ conc

type concSpec struct {
	Dir     string
	Seed    int64
	Reloads int
	Keys    int
	Readers int
	Keep    int // observations kept per reader
}

type concObs struct {
	Kind string   `json:"kind"` // "get" | "keys"
	K    string   `json:"k,omitempty"`
	Ret  string   `json:"ret"`
	Keys []string `json:"keys,omitempty"`
	Lo   int      `json:"lo"`
	Hi   int      `json:"hi"`
}

type concVersion struct {
	Lines [][2]string   `json:"lines"`
	Sec   int           `json:"sec"`
	Ms    int           `json:"ms"`
	Snap  [][2]string   `json:"snap"`
	Notes [][][2]string `json:"notes"`
}

type concOut struct {
	Versions []concVersion `json:"versions"`
	Obs      []concObs     `json:"obs"`
	Reads    int64         `json:"reads"`
}

type pairObs struct {
	mu    sync.Mutex
	notes [][][2]string
}

func snapPairs(c config.Config) [][2]string {
	keys := c.GetKeys()
	sort.Strings(keys)
	out := make([][2]string, 0, len(keys))
	for _, k := range keys {
		out = append(out, [2]string{k, c.GetValue(k)})
	}
	return out
}

func (o *pairObs) ApplyConfig(c config.Config) {
	s := snapPairs(c)
	o.mu.Lock()
	o.notes = append(o.notes, s)
	o.mu.Unlock()
}

func (o *pairObs) take() [][][2]string {
	o.mu.Lock()
	defer o.mu.Unlock()
	n := o.notes
	o.notes = nil
	if n == nil {
		n = [][][2]string{}
	}
	return n
}

func concLines(r *rand.Rand, ver, nkeys int) [][2]string {
	var ls [][2]string
	for j := 0; j < nkeys; j++ {
		ls = append(ls, [2]string{fmt.Sprintf("key%d", j), fmt.Sprintf("v%d_%d", ver, j)})
	}
	// the map keeps growing: a new key every few versions
	for j := 0; j <= ver/8; j++ {
		ls = append(ls, [2]string{fmt.Sprintf("extra%d", j), fmt.Sprintf("%d", ver*10+j)})
	}
	return ls
}

func writeVersion(path string, ls [][2]string, sec, ms int) error {
	var b []byte
	for _, l := range ls {
		b = append(b, l[0]...)
		b = append(b, '=')
		b = append(b, l[1]...)
		b = append(b, '\n')
	}
	tmp := path + ".edit"
	if err := os.WriteFile(tmp, b, 0o644); err != nil {
		return err
	}
	t := stampTime(sec, ms)
	if err := os.Chtimes(tmp, t, t); err != nil {
		return err
	}
	return os.Rename(tmp, path)
}

func childConc() error {
	var sp concSpec
	if err := json.Unmarshal([]byte(os.Getenv("C18_SPEC")), &sp); err != nil {
		return err
	}
	runtime.GOMAXPROCS(sp.Readers + 2)
	r := rand.New(rand.NewSource(sp.Seed))
	path := filepath.Join(sp.Dir, "whatap.conf")
	out := concOut{}
	sec, ms := 0, 0
	v0 := concLines(r, 0, sp.Keys)
	if err := writeVersion(path, v0, sec, ms); err != nil {
		return err
	}
	ob := config.NewConfigObserver()
	po := &pairObs{}
	ob.Add("o", po)
	conf := conffile.NewFileConfigForVerif(conffile.WithHomePath(sp.Dir), conffile.WithConfigObserver(ob))
	out.Versions = append(out.Versions, concVersion{Lines: v0, Sec: sec, Ms: ms, Snap: snapPairs(conf), Notes: po.take()})

	var started, done atomic.Int64 // index of the reload that last began / last finished
	var stop atomic.Bool
	var reads atomic.Int64
	var wg, ready sync.WaitGroup
	obs := make([][]concObs, sp.Readers)
	for g := 0; g < sp.Readers; g++ {
		wg.Add(1)
		ready.Add(1)
		go func(g int) {
			defer wg.Done()
			rr := rand.New(rand.NewSource(sp.Seed*131 + int64(g)))
			first := true
			n := int64(0)
			for !stop.Load() {
				lo := int(done.Load())
				var o concObs
				if n%64 == 63 {
					ks := conf.GetKeys()
					o = concObs{Kind: "keys", Keys: ks}
				} else {
					var k string
					if rr.Intn(5) == 0 {
						k = fmt.Sprintf("extra%d", rr.Intn(1+sp.Reloads/8))
					} else {
						k = fmt.Sprintf("key%d", rr.Intn(sp.Keys))
					}
					switch n % 4 {
					case 0:
						o = concObs{Kind: "get", K: k, Ret: conf.GetValue(k)}
					case 1:
						_ = conf.GetInt(k, 0)
						o = concObs{Kind: "get", K: k, Ret: conf.GetValue(k)}
					case 2:
						_ = conf.GetBoolean(k, false)
						o = concObs{Kind: "get", K: k, Ret: conf.GetValueDef(k, "")}
					default:
						o = concObs{Kind: "get", K: k, Ret: conf.GetValue(k)}
					}
				}
				o.Lo, o.Hi = lo, int(started.Load())
				n++
				// keep the observations that straddle a reload first, then a thin sample
				if len(obs[g]) < sp.Keep && (o.Lo != o.Hi || n%4096 == 1) {
					sort.Strings(o.Keys)
					obs[g] = append(obs[g], o)
				}
				if first {
					first = false
					ready.Done()
				}
			}
			reads.Add(n)
		}(g)
	}
	ready.Wait()
	for i := 1; i <= sp.Reloads; i++ {
		if r.Intn(3) == 0 {
			sec, ms = sec+1, r.Intn(1000)
		} else if ms < 990 {
			ms += 1 + r.Intn(3)
		} else {
			sec, ms = sec+1, 0
		}
		ls := concLines(r, i, sp.Keys)
		if err := writeVersion(path, ls, sec, ms); err != nil {
			return err
		}
		started.Store(int64(i))
		conf.ReloadNowForVerif()
		done.Store(int64(i))
		out.Versions = append(out.Versions, concVersion{Lines: ls, Sec: sec, Ms: ms, Snap: snapPairs(conf), Notes: po.take()})
		if i%16 == 0 {
			time.Sleep(200 * time.Microsecond)
		}
	}
	stop.Store(true)
	wg.Wait()
	for _, o := range obs {
		out.Obs = append(out.Obs, o...)
	}
	out.Reads = reads.Load()
	b, err := json.Marshal(out)
	if err != nil {
		return err
	}
	return os.WriteFile(os.Getenv("C18_OUT"), b, 0o644)
}

func pairsEv(p [][2]string) []interface{} {
	out := make([]interface{}, 0, len(p))
	for _, x := range p {
		out = append(out, []core.Bytes{core.Str(x[0]), core.Str(x[1])})
	}
	return out
}

func kvLinesEv(p [][2]string) []core.Ev {
	out := make([]core.Ev, 0, len(p))
	for _, x := range p {
		out = append(out, Line{T: "kv", K: []byte(x[0]), V: []byte(x[1])}.ev())
	}
	return out
}

// histConc runs the child and turns what it saw into events.
func histConc(c *core.Ctx, t *core.Trace, gen string, cas int) error {
	dir, err := os.MkdirTemp(c.OutDir, "conc-")
	if err != nil {
		return err
	}
	defer os.RemoveAll(dir)
	r := c.Rng(gen, cas)
	sp := concSpec{Dir: dir, Seed: r.Int63(), Reloads: c.Pick(120, 600), Keys: 10, Readers: 8, Keep: c.Pick(30, 80)}
	spb, _ := json.Marshal(sp)
	outp := filepath.Join(dir, "out.json")
	exe, err := os.Executable()
	if err != nil {
		return err
	}
	cmd := exec.Command(exe)
	cmd.Env = append(os.Environ(), "C18_CHILD=conc", "C18_SPEC="+string(spb), "C18_OUT="+outp)
	cmd.Dir = dir
	msg, runErr := cmd.CombinedOutput()

	nkeys := sp.Keys
	if runErr != nil {
		// the child died: there is no record of its versions; the history is the death itself
		t.Reset(gen, cas, core.Ev{"pre": core.Str(""), "suf": core.Str(""), "excl": []core.Bytes{}, "nobs": 1,
			"file": kvLinesEv(concLines(r, 0, nkeys)), "mt": []int{0, 0}})
		tail := string(msg)
		if len(tail) > 600 {
			tail = tail[:600]
		}
		t.Emit(core.Ev{"ev": "CFatal", "err": runErr.Error(), "msg": tail})
		c.Count(gen+":fatal", true)
		return nil
	}
	b, err := os.ReadFile(outp)
	if err != nil {
		return err
	}
	var out concOut
	if err := json.Unmarshal(b, &out); err != nil {
		return err
	}
	v0 := out.Versions[0]
	t.Reset(gen, cas, core.Ev{"pre": core.Str(""), "suf": core.Str(""), "excl": []core.Bytes{}, "nobs": 1,
		"file": kvLinesEv(v0.Lines), "mt": []int{v0.Sec, v0.Ms}})
	notesEv := func(n [][][2]string) []interface{} {
		o := []interface{}{}
		for _, x := range n {
			o = append(o, pairsEv(x))
		}
		return o
	}
	t.Emit(core.Ev{"ev": "New", "snap": pairsEv(v0.Snap), "notes": notesEv(v0.Notes)})
	for _, v := range out.Versions[1:] {
		le := kvLinesEv(v.Lines)
		t.Emit(core.Ev{"ev": "Edit", "lines": le, "parsed": le, "mt": []int{v.Sec, v.Ms}})
		t.Emit(core.Ev{"ev": "Reload", "snap": pairsEv(v.Snap), "notes": notesEv(v.Notes)})
	}
	straddle := 0
	for _, o := range out.Obs {
		if o.Lo != o.Hi {
			straddle++
		}
		if o.Kind == "keys" {
			ks := []core.Bytes{}
			for _, k := range o.Keys {
				ks = append(ks, core.Str(k))
			}
			t.Emit(core.Ev{"ev": "CKeys", "ret": ks, "lo": o.Lo, "hi": o.Hi})
		} else {
			t.Emit(core.Ev{"ev": "CGet", "k": core.Str(o.K), "ret": core.Str(o.Ret), "lo": o.Lo, "hi": o.Hi})
		}
	}
	reads := out.Reads
	if reads > 1<<30 {
		reads = 1 << 30
	}
	t.Emit(core.Ev{"ev": "CEnd", "reads": reads})
	c.Count(fmt.Sprint(gen, ":", cas), true)
	c.SetExtra("concurrent_getter_calls", out.Reads)
	c.SetExtra("concurrent_observations_straddling_a_reload", straddle)
	return nil
}
