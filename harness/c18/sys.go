package c18

// The write-back's system calls.  The child performs a list of SetValues calls,
// each bracketed by two marker calls (a failing openat on <dir>/.mark-b-N / .mark-e-N);
// the parent runs the child under strace, cuts the trace at the markers and turns
// the successful calls on the configuration directory into FsWrite events.

import (
	"bufio"
	"encoding/json"
	"fmt"
	"os"
	"os/exec"
	"path/filepath"
	"regexp"
	"sort"
	"strconv"
	"strings"

	"github.com/whatap/golib/config/conffile"

	"verifharness/core"
)

type sysCase struct {
	Case int               `json:"case"`
	Old  []byte            `json:"old"`
	KV   map[string]string `json:"kv"`
}

type sysResult struct {
	Case  int      `json:"case"`
	New   []byte   `json:"new"`
	Left  []string `json:"left"` // names in the directory after the call
	Panic string   `json:"panic"`
}

func childSys() error {
	var cases []sysCase
	b, err := os.ReadFile(os.Getenv("C18_SPEC"))
	if err != nil {
		return err
	}
	if err := json.Unmarshal(b, &cases); err != nil {
		return err
	}
	dir := os.Getenv("C18_DIR")
	path := filepath.Join(dir, "whatap.conf")
	var res []sysResult
	for _, cs := range cases {
		ents, _ := os.ReadDir(dir)
		for _, e := range ents {
			os.Remove(filepath.Join(dir, e.Name()))
		}
		if err := os.WriteFile(path, cs.Old, 0o644); err != nil {
			return err
		}
		conf := conffile.NewFileConfigForVerif(conffile.WithHomePath(dir))
		kv := map[string]string{}
		for k, v := range cs.KV {
			kv[k] = v
		}
		os.Open(filepath.Join(dir, fmt.Sprintf(".mark-b-%d", cs.Case)))
		msg := core.Guard(func() { conf.SetValues(&kv) })
		os.Open(filepath.Join(dir, fmt.Sprintf(".mark-e-%d", cs.Case)))
		nw, _ := os.ReadFile(path)
		r := sysResult{Case: cs.Case, New: nw, Panic: msg, Left: []string{}}
		ents, _ = os.ReadDir(dir)
		for _, e := range ents {
			r.Left = append(r.Left, e.Name())
		}
		res = append(res, r)
	}
	ob, _ := json.Marshal(res)
	return os.WriteFile(os.Getenv("C18_OUT"), ob, 0o644)
}

// ---------------------------------------------------------------- strace

var (
	reDone    = regexp.MustCompile(`^(\d+)\s+(\w+)\((.*)\)\s+=\s+(-?\d+|\?)`)
	reUnfin   = regexp.MustCompile(`^(\d+)\s+(\w+)\((.*) <unfinished \.\.\.>$`)
	reResumed = regexp.MustCompile(`^(\d+)\s+<\.\.\. (\w+) resumed>(.*)\)\s+=\s+(-?\d+|\?)`)
)

type sysCall struct {
	name string
	args []string
	ret  int64
}

// splitArgs cuts at top-level ", " (strings are printed all-hex, so they hold no commas)
func splitArgs(s string) []string {
	var out []string
	depth, inq, start := 0, false, 0
	for i := 0; i < len(s); i++ {
		switch c := s[i]; {
		case c == '"':
			inq = !inq
		case inq:
		case c == '{' || c == '[' || c == '(':
			depth++
		case c == '}' || c == ']' || c == ')':
			depth--
		case c == ',' && depth == 0:
			out = append(out, strings.TrimSpace(s[start:i]))
			start = i + 1
		}
	}
	if strings.TrimSpace(s[start:]) != "" {
		out = append(out, strings.TrimSpace(s[start:]))
	}
	return out
}

// hexString decodes "\x41\x42" (possibly followed by "...")
func hexString(a string) ([]byte, bool) {
	if len(a) < 2 || a[0] != '"' {
		return nil, false
	}
	end := strings.LastIndexByte(a, '"')
	body := a[1:end]
	truncated := strings.HasSuffix(a, "...")
	out := make([]byte, 0, len(body)/4)
	for i := 0; i+3 < len(body); i += 4 {
		if body[i] != '\\' || body[i+1] != 'x' {
			return nil, false
		}
		v, err := strconv.ParseUint(body[i+2:i+4], 16, 8)
		if err != nil {
			return nil, false
		}
		out = append(out, byte(v))
	}
	return out, !truncated
}

func parseStrace(path string) ([]sysCall, error) {
	f, err := os.Open(path)
	if err != nil {
		return nil, err
	}
	defer f.Close()
	sc := bufio.NewScanner(f)
	sc.Buffer(make([]byte, 1<<20), 1<<28)
	pending := map[string]string{} // pid -> "name(args-so-far"
	var calls []sysCall
	for sc.Scan() {
		line := sc.Text()
		var name, args, ret string
		if m := reUnfin.FindStringSubmatch(line); m != nil {
			pending[m[1]] = m[2] + "\x00" + m[3]
			continue
		} else if m := reResumed.FindStringSubmatch(line); m != nil {
			p, ok := pending[m[1]]
			if !ok {
				continue
			}
			delete(pending, m[1])
			i := strings.IndexByte(p, 0)
			name, args, ret = p[:i], p[i+1:]+m[3], m[4]
		} else if m := reDone.FindStringSubmatch(line); m != nil {
			name, args, ret = m[2], m[3], m[4]
		} else {
			continue
		}
		if ret == "?" {
			continue
		}
		rv, _ := strconv.ParseInt(ret, 10, 64)
		calls = append(calls, sysCall{name, splitArgs(args), rv})
	}
	return calls, sc.Err()
}

const straceCalls = "openat,open,creat,write,pwrite64,lseek,ftruncate,truncate,rename,renameat,renameat2,fsync,fdatasync,close,unlink,unlinkat"

// sysEvents turns the calls of one section into events; name maps a path to a directory name ("" = elsewhere)
func sysEvents(calls []sysCall, name func(string) string) ([]core.Ev, error) {
	var evs []core.Ev
	fds := map[int64]bool{}
	pathArg := func(a string) (string, error) {
		b, ok := hexString(a)
		if !ok {
			return "", fmt.Errorf("unreadable path argument %q", a)
		}
		return string(b), nil
	}
	for _, c := range calls {
		if c.ret < 0 {
			continue // failed calls change nothing
		}
		switch c.name {
		case "openat", "open", "creat":
			ai := 0
			if c.name == "openat" {
				ai = 1
			}
			p, err := pathArg(c.args[ai])
			if err != nil {
				return nil, err
			}
			n := name(p)
			if n == "" {
				continue
			}
			flags := "O_WRONLY|O_CREAT|O_TRUNC"
			if c.name != "creat" {
				flags = c.args[ai+1]
			}
			has := func(f string) bool {
				for _, x := range strings.Split(flags, "|") {
					if x == f {
						return true
					}
				}
				return false
			}
			fds[c.ret] = true
			evs = append(evs, core.Ev{"ev": "Open", "name": n, "fd": c.ret, "creat": has("O_CREAT"), "excl": has("O_EXCL"),
				"trunc": has("O_TRUNC"), "app": has("O_APPEND"), "flags": flags})
		case "write", "pwrite64":
			fd, _ := strconv.ParseInt(c.args[0], 10, 64)
			if !fds[fd] {
				continue
			}
			data, ok := hexString(c.args[1])
			if !ok {
				return nil, fmt.Errorf("unreadable write data (fd %d)", fd)
			}
			if int64(len(data)) > c.ret {
				data = data[:c.ret]
			}
			if c.name == "write" {
				evs = append(evs, core.Ev{"ev": "Write", "fd": fd, "data": core.Cp(data)})
			} else {
				off, _ := strconv.ParseInt(c.args[3], 10, 64)
				evs = append(evs, core.Ev{"ev": "Pwrite", "fd": fd, "data": core.Cp(data), "off": off})
			}
		case "lseek":
			fd, _ := strconv.ParseInt(c.args[0], 10, 64)
			if fds[fd] {
				evs = append(evs, core.Ev{"ev": "Lseek", "fd": fd, "off": c.ret})
			}
		case "ftruncate":
			fd, _ := strconv.ParseInt(c.args[0], 10, 64)
			if fds[fd] {
				n, _ := strconv.ParseInt(c.args[1], 10, 64)
				evs = append(evs, core.Ev{"ev": "Ftruncate", "fd": fd, "len": n})
			}
		case "truncate":
			p, err := pathArg(c.args[0])
			if err != nil {
				return nil, err
			}
			if n := name(p); n != "" {
				ln, _ := strconv.ParseInt(c.args[1], 10, 64)
				evs = append(evs, core.Ev{"ev": "Truncate", "name": n, "len": ln}) // no action: path truncation is never atomic
			}
		case "fsync", "fdatasync":
			fd, _ := strconv.ParseInt(c.args[0], 10, 64)
			if fds[fd] {
				evs = append(evs, core.Ev{"ev": "Fsync", "fd": fd})
			}
		case "close":
			fd, _ := strconv.ParseInt(c.args[0], 10, 64)
			if fds[fd] {
				delete(fds, fd)
				evs = append(evs, core.Ev{"ev": "Close", "fd": fd})
			}
		case "rename", "renameat", "renameat2":
			ia, ib := 0, 1
			if c.name != "rename" {
				ia, ib = 1, 3
			}
			pa, err := pathArg(c.args[ia])
			if err != nil {
				return nil, err
			}
			pb, err := pathArg(c.args[ib])
			if err != nil {
				return nil, err
			}
			na, nb := name(pa), name(pb)
			if na == "" && nb == "" {
				continue
			}
			if na == "" {
				na = "outside:" + pa
			}
			if nb == "" {
				nb = "outside:" + pb
			}
			evs = append(evs, core.Ev{"ev": "Rename", "from": na, "to": nb})
		case "unlink", "unlinkat":
			ai := 0
			if c.name == "unlinkat" {
				ai = 1
			}
			p, err := pathArg(c.args[ai])
			if err != nil {
				return nil, err
			}
			if n := name(p); n != "" {
				evs = append(evs, core.Ev{"ev": "Unlink", "name": n})
			}
		}
	}
	return evs, nil
}

// sysCasesFor draws the write-backs of the gen: plain files and values (the logical
// behaviour is judged by the wb histories; here only the system calls matter), sizes
// from a few bytes to beyond one page
func sysCaseFor(c *core.Ctx, gen string, cas int) sysCase {
	r := c.Rng(gen, cas)
	var sb strings.Builder
	n := 1 + r.Intn(6)
	keys := []string{}
	for i := 0; i < n; i++ {
		switch r.Intn(5) {
		case 0:
			sb.WriteString(commentTexts[r.Intn(len(commentTexts))] + "\n")
		default:
			k := fmt.Sprintf("%s%d", []string{"key", "net_udp_port", "debug", "a.b"}[r.Intn(4)], i)
			keys = append(keys, k)
			sb.WriteString(k + "=" + plainValue(r) + "\n")
		}
	}
	if cas%5 == 4 { // a large file: more than a page
		for i := 0; i < 150; i++ {
			sb.WriteString(fmt.Sprintf("bulk_key_%03d=%s\n", i, strings.Repeat("x", 20+r.Intn(20))))
		}
	}
	if cas%7 == 6 {
		sb.Reset() // an empty file
		keys = nil
	}
	kv := map[string]string{}
	m := 1 + r.Intn(3)
	for i := 0; i < m; i++ {
		switch x := r.Intn(4); {
		case x == 0 && len(keys) > 0:
			kv[keys[r.Intn(len(keys))]] = "" // delete
		case x == 1 && len(keys) > 0:
			kv[keys[r.Intn(len(keys))]] = plainValue(r)
		default:
			kv[fmt.Sprintf("new_%d", r.Intn(50))] = plainValue(r)
		}
	}
	return sysCase{Case: cas, Old: []byte(sb.String()), KV: kv}
}

func genSys(c *core.Ctx, t *core.Trace, gen string, n int) error {
	var cases []sysCase
	for cas := 0; cas < n; cas++ {
		if c.Want(gen, cas) {
			cases = append(cases, sysCaseFor(c, gen, cas))
		}
	}
	if len(cases) == 0 {
		return nil
	}
	work, err := os.MkdirTemp(c.OutDir, "sys-")
	if err != nil {
		return err
	}
	defer os.RemoveAll(work)
	dir := filepath.Join(work, "home")
	if err := os.Mkdir(dir, 0o755); err != nil {
		return err
	}
	specp, outp, tracep := filepath.Join(work, "spec.json"), filepath.Join(work, "out.json"), filepath.Join(work, "strace.txt")
	sb, _ := json.Marshal(cases)
	if err := os.WriteFile(specp, sb, 0o644); err != nil {
		return err
	}
	exe, err := os.Executable()
	if err != nil {
		return err
	}
	cmd := exec.Command("strace", "-f", "-qq", "-xx", "-s", "4000000", "-o", tracep, "-e", "trace="+straceCalls, exe)
	cmd.Env = append(os.Environ(), "C18_CHILD=sys", "C18_SPEC="+specp, "C18_OUT="+outp, "C18_DIR="+dir)
	cmd.Dir = work
	if msg, err := cmd.CombinedOutput(); err != nil {
		return fmt.Errorf("strace child failed: %v\n%s", err, msg)
	}
	ob, err := os.ReadFile(outp)
	if err != nil {
		return err
	}
	var results []sysResult
	if err := json.Unmarshal(ob, &results); err != nil {
		return err
	}
	calls, err := parseStrace(tracep)
	if err != nil {
		return err
	}
	confPath := filepath.Join(dir, "whatap.conf")
	name := func(p string) string {
		if p == confPath {
			return "conf"
		}
		if filepath.Dir(p) == dir {
			return "f:" + filepath.Base(p)
		}
		return ""
	}
	// cut at the markers
	sections := map[int][]sysCall{}
	cur := -1
	for _, cl := range calls {
		if (cl.name == "openat" || cl.name == "open") && cl.ret < 0 {
			ai := 0
			if cl.name == "openat" {
				ai = 1
			}
			if pb, ok := hexString(cl.args[ai]); ok {
				base := filepath.Base(string(pb))
				if strings.HasPrefix(base, ".mark-b-") {
					cur, _ = strconv.Atoi(base[len(".mark-b-"):])
					sections[cur] = []sysCall{}
					continue
				}
				if strings.HasPrefix(base, ".mark-e-") {
					cur = -1
					continue
				}
			}
		}
		if cur >= 0 {
			sections[cur] = append(sections[cur], cl)
		}
	}
	total := 0
	for i, cs := range cases {
		res := results[i]
		sec, ok := sections[cs.Case]
		if !ok {
			return fmt.Errorf("no marker for case %d in the strace output", cs.Case)
		}
		evs, err := sysEvents(sec, name)
		if err != nil {
			return err
		}
		t.Reset(gen, cs.Case, nil)
		if res.Panic != "" {
			t.Emit(core.Ev{"ev": "Panic", "in": "SetValues", "msg": res.Panic})
			continue
		}
		t.Emit(core.Ev{"ev": "FsBegin", "old": core.Cp(cs.Old), "new": core.Cp(res.New)})
		kinds := []string{}
		for _, e := range evs {
			t.Emit(e)
			kinds = append(kinds, e["ev"].(string))
		}
		sort.Strings(res.Left)
		t.Emit(core.Ev{"ev": "FsEnd", "left": res.Left})
		total += len(evs)
		c.Count(gen+":"+strings.Join(kinds, ",")+fmt.Sprint(len(cs.Old) > 4096), len(evs) > 0)
		if i == 0 {
			c.Sample(map[string]interface{}{"gen": gen, "case": cs.Case, "syscalls": kinds, "old_bytes": len(cs.Old), "new_bytes": len(res.New)})
		}
	}
	c.SetExtra("write_back_syscalls_judged", total)
	return nil
}
