package c18

// The write-back's system calls.  The child performs a list of SetValues calls, each
// in a directory tree of its own laid out as the case says (sysLayouts) and bracketed
// by two marker calls (a failing openat on <dir>/.mark-b-N / .mark-e-N); the parent
// runs the child under strace, cuts the trace at the markers and turns the successful
// calls on entries of that tree into FsWrite events.

import (
	"bufio"
	"encoding/json"
	"fmt"
	"os"
	"os/exec"
	"path/filepath"
	"regexp"
	"sort"
	"strconv"
	"strings"

	"github.com/whatap/golib/config/conffile"

	"verifharness/core"
)

type sysCase struct {
	Case   int               `json:"case"`
	Layout string            `json:"layout"`
	Old    []byte            `json:"old"`
	KV     map[string]string `json:"kv"`
}

type sysResult struct {
	Case  int         `json:"case"`
	Root  string      `json:"root"`  // the directory tree of this case (kept for the parent)
	Cwd   string      `json:"cwd"`   // working directory of the child during the call
	Conf  string      `json:"conf"`  // the configuration path as the library computes it
	File  string      `json:"file"`  // the regular file that holds the content
	Links [][2]string `json:"links"` // symbolic links to files: path, target as written
	New   []byte      `json:"new"`   // content read through the configuration path afterwards
	Left  []string    `json:"left"`  // entries below Root after the call
	Panic string      `json:"panic"`
}

// The layouts the configuration file is reached through ("all configurations"): how the home
// directory is named (option, environment, absolute, relative, ".", through a symbolic link to
// a directory) x what the configuration path is (a regular file, a symbolic link with an
// absolute / relative target, in the same or another directory, a chain of links).
var sysLayouts = []string{"plain", "symabs", "relhome", "symrel", "dirlink", "envhome", "symchain", "dothome", "envconf", "symsame", "relsym", "dirlinksym"}

type sysLayout struct {
	cwd   string
	opts  []conffile.FileConfigOption
	env   map[string]string
	file  string
	links [][2]string
}

// buildLayout creates the tree of one case below root and says how the library is to be pointed at it
func buildLayout(layout, root string, old []byte) (*sysLayout, error) {
	home, store := filepath.Join(root, "home"), filepath.Join(root, "store")
	lay := &sysLayout{cwd: root, env: map[string]string{}}
	mk := func(dirs ...string) error {
		for _, d := range dirs {
			if err := os.MkdirAll(d, 0o755); err != nil {
				return err
			}
		}
		return nil
	}
	link := func(target, path string) error {
		lay.links = append(lay.links, [2]string{path, target})
		return os.Symlink(target, path)
	}
	var err error
	confName := filepath.Join(home, "whatap.conf")
	lay.file = confName
	lay.opts = []conffile.FileConfigOption{conffile.WithHomePath(home)}
	switch layout {
	case "plain":
		err = mk(home)
	case "symabs":
		if err = mk(home, store); err == nil {
			lay.file = filepath.Join(store, "real.conf")
			err = link(lay.file, confName)
		}
	case "symrel", "relsym":
		if err = mk(home, store); err == nil {
			lay.file = filepath.Join(store, "real.conf")
			err = link(filepath.Join("..", "store", "real.conf"), confName)
		}
		if layout == "relsym" {
			lay.opts = []conffile.FileConfigOption{conffile.WithHomePath("home")}
		}
	case "symsame":
		if err = mk(home); err == nil {
			lay.file = filepath.Join(home, "real.conf")
			err = link("real.conf", confName)
		}
	case "symchain":
		if err = mk(home, store); err == nil {
			lay.file = filepath.Join(store, "real.conf")
			if err = link("hop.conf", confName); err == nil {
				err = link(lay.file, filepath.Join(home, "hop.conf"))
			}
		}
	case "dirlink", "dirlinksym":
		real := filepath.Join(root, "realhome")
		if err = mk(real, store); err == nil {
			err = os.Symlink("realhome", home)
		}
		lay.file = filepath.Join(real, "whatap.conf")
		if err == nil && layout == "dirlinksym" {
			lay.file = filepath.Join(store, "real.conf")
			err = link(filepath.Join("..", "store", "real.conf"), filepath.Join(real, "whatap.conf"))
		}
	case "relhome":
		err = mk(home)
		lay.opts = []conffile.FileConfigOption{conffile.WithHomePath("home")}
	case "dothome":
		err = mk(home)
		lay.cwd, lay.opts = home, nil
	case "envhome":
		err = mk(home)
		lay.opts, lay.env["WHATAP_HOME"] = nil, home
	case "envconf":
		cfg := filepath.Join(root, "cfg")
		err = mk(home, cfg)
		lay.opts = nil
		lay.env["WHATAP_HOME"], lay.env["WHATAP_CONFIG_HOME"], lay.env["WHATAP_CONFIG"] = home, cfg, "agent.conf"
		lay.file = filepath.Join(cfg, "agent.conf")
	default:
		return nil, fmt.Errorf("unknown layout %q", layout)
	}
	if err != nil {
		return nil, err
	}
	return lay, os.WriteFile(lay.file, old, 0o644)
}

func listTree(root string) []string {
	out := []string{}
	filepath.Walk(root, func(p string, info os.FileInfo, err error) error {
		if err == nil && p != root && !info.IsDir() {
			rel, _ := filepath.Rel(root, p)
			out = append(out, rel)
		}
		return nil
	})
	sort.Strings(out)
	return out
}

func childSys() error {
	var cases []sysCase
	b, err := os.ReadFile(os.Getenv("C18_SPEC"))
	if err != nil {
		return err
	}
	if err := json.Unmarshal(b, &cases); err != nil {
		return err
	}
	dir := os.Getenv("C18_DIR")
	var res []sysResult
	for _, cs := range cases {
		root := filepath.Join(dir, fmt.Sprintf("case%d", cs.Case))
		lay, err := buildLayout(cs.Layout, root, cs.Old)
		if err != nil {
			return err
		}
		if err := os.Chdir(lay.cwd); err != nil {
			return err
		}
		for k, v := range lay.env {
			os.Setenv(k, v)
		}
		conf := conffile.NewFileConfigForVerif(lay.opts...)
		kv := map[string]string{}
		for k, v := range cs.KV {
			kv[k] = v
		}
		os.Open(filepath.Join(dir, fmt.Sprintf(".mark-b-%d", cs.Case)))
		msg := core.Guard(func() { conf.SetValues(&kv) })
		os.Open(filepath.Join(dir, fmt.Sprintf(".mark-e-%d", cs.Case)))
		nw, rerr := os.ReadFile(conf.GetConfFile())
		if rerr != nil && msg == "" {
			msg = "the configuration path cannot be read after the write-back: " + rerr.Error()
		}
		res = append(res, sysResult{Case: cs.Case, Root: root, Cwd: lay.cwd, Conf: conf.GetConfFile(), File: lay.file, Links: lay.links,
			New: nw, Panic: msg, Left: listTree(root)})
		for k := range lay.env {
			os.Unsetenv(k)
		}
	}
	ob, _ := json.Marshal(res)
	return os.WriteFile(os.Getenv("C18_OUT"), ob, 0o644)
}

// ---------------------------------------------------------------- strace

var (
	reDone    = regexp.MustCompile(`^(\d+)\s+(\w+)\((.*)\)\s+=\s+(-?\d+|\?)`)
	reUnfin   = regexp.MustCompile(`^(\d+)\s+(\w+)\((.*) <unfinished \.\.\.>$`)
	reResumed = regexp.MustCompile(`^(\d+)\s+<\.\.\. (\w+) resumed>(.*)\)\s+=\s+(-?\d+|\?)`)
)

type sysCall struct {
	name string
	args []string
	ret  int64
}

// splitArgs cuts at top-level ", " (strings are printed all-hex, so they hold no commas)
func splitArgs(s string) []string {
	var out []string
	depth, inq, start := 0, false, 0
	for i := 0; i < len(s); i++ {
		switch c := s[i]; {
		case c == '"':
			inq = !inq
		case inq:
		case c == '{' || c == '[' || c == '(':
			depth++
		case c == '}' || c == ']' || c == ')':
			depth--
		case c == ',' && depth == 0:
			out = append(out, strings.TrimSpace(s[start:i]))
			start = i + 1
		}
	}
	if strings.TrimSpace(s[start:]) != "" {
		out = append(out, strings.TrimSpace(s[start:]))
	}
	return out
}

// hexString decodes "\x41\x42" (possibly followed by "...")
func hexString(a string) ([]byte, bool) {
	if len(a) < 2 || a[0] != '"' {
		return nil, false
	}
	end := strings.LastIndexByte(a, '"')
	body := a[1:end]
	truncated := strings.HasSuffix(a, "...")
	out := make([]byte, 0, len(body)/4)
	for i := 0; i+3 < len(body); i += 4 {
		if body[i] != '\\' || body[i+1] != 'x' {
			return nil, false
		}
		v, err := strconv.ParseUint(body[i+2:i+4], 16, 8)
		if err != nil {
			return nil, false
		}
		out = append(out, byte(v))
	}
	return out, !truncated
}

func parseStrace(path string) ([]sysCall, error) {
	f, err := os.Open(path)
	if err != nil {
		return nil, err
	}
	defer f.Close()
	sc := bufio.NewScanner(f)
	sc.Buffer(make([]byte, 1<<20), 1<<28)
	pending := map[string]string{} // pid -> "name(args-so-far"
	var calls []sysCall
	for sc.Scan() {
		line := sc.Text()
		var name, args, ret string
		if m := reUnfin.FindStringSubmatch(line); m != nil {
			pending[m[1]] = m[2] + "\x00" + m[3]
			continue
		} else if m := reResumed.FindStringSubmatch(line); m != nil {
			p, ok := pending[m[1]]
			if !ok {
				continue
			}
			delete(pending, m[1])
			i := strings.IndexByte(p, 0)
			name, args, ret = p[:i], p[i+1:]+m[3], m[4]
		} else if m := reDone.FindStringSubmatch(line); m != nil {
			name, args, ret = m[2], m[3], m[4]
		} else {
			continue
		}
		if ret == "?" {
			continue
		}
		rv, _ := strconv.ParseInt(ret, 10, 64)
		calls = append(calls, sysCall{name, splitArgs(args), rv})
	}
	return calls, sc.Err()
}

const straceCalls = "openat,open,creat,write,pwrite64,lseek,ftruncate,truncate,rename,renameat,renameat2,fsync,fdatasync,close,unlink,unlinkat,symlink,symlinkat,link,linkat"

// atCwd: a relative path given to an *at call must be relative to the working directory (the
// harness cannot name a path relative to some other directory descriptor)
func atCwd(c sysCall, pathIdx int, p string) error {
	if pathIdx == 0 || filepath.IsAbs(p) {
		return nil
	}
	switch c.name {
	case "openat", "unlinkat", "renameat", "renameat2", "linkat", "symlinkat":
		if c.args[pathIdx-1] != "AT_FDCWD" {
			return fmt.Errorf("%s: relative path %q below descriptor %s cannot be named", c.name, p, c.args[pathIdx-1])
		}
	}
	return nil
}

// linkTarget: the path a symbolic link at path p with the written target tgt points to
func linkTarget(p, tgt string) string {
	if filepath.IsAbs(tgt) {
		return tgt
	}
	return filepath.Join(filepath.Dir(p), tgt)
}

// entryNamer names directory entries: the working directory completes a relative path, symbolic
// links in the DIRECTORY part are resolved on the (kept) tree of the case, the last component is
// not followed.  "conf" = the entry the configuration path names, "f:<path below root>" any
// other entry of the case, "" = elsewhere.
func entryNamer(root, cwd, confPath string) func(string) string {
	canon := func(p string) string {
		if !filepath.IsAbs(p) {
			p = filepath.Join(cwd, p)
		}
		p = filepath.Clean(p)
		d, err := filepath.EvalSymlinks(filepath.Dir(p))
		if err != nil {
			return ""
		}
		return filepath.Join(d, filepath.Base(p))
	}
	rroot, err := filepath.EvalSymlinks(root)
	if err != nil {
		rroot = root
	}
	confEntry := canon(confPath)
	return func(p string) string {
		e := canon(p)
		switch {
		case e == "":
			return ""
		case e == confEntry:
			return "conf"
		case strings.HasPrefix(e, rroot+string(filepath.Separator)):
			return "f:" + e[len(rroot)+1:]
		}
		return ""
	}
}

// sysEvents turns the calls of one section into events; name maps a path to a directory name ("" = elsewhere)
func sysEvents(calls []sysCall, name func(string) string) ([]core.Ev, error) {
	var evs []core.Ev
	fds := map[int64]bool{}
	pathArg := func(a string) (string, error) {
		b, ok := hexString(a)
		if !ok {
			return "", fmt.Errorf("unreadable path argument %q", a)
		}
		return string(b), nil
	}
	for _, c := range calls {
		if c.ret < 0 {
			continue // failed calls change nothing
		}
		switch c.name {
		case "openat", "open", "creat":
			ai := 0
			if c.name == "openat" {
				ai = 1
			}
			p, err := pathArg(c.args[ai])
			if err != nil {
				return nil, err
			}
			if err := atCwd(c, ai, p); err != nil {
				return nil, err
			}
			n := name(p)
			if n == "" {
				continue
			}
			flags := "O_WRONLY|O_CREAT|O_TRUNC"
			if c.name != "creat" {
				flags = c.args[ai+1]
			}
			has := func(f string) bool {
				for _, x := range strings.Split(flags, "|") {
					if x == f {
						return true
					}
				}
				return false
			}
			fds[c.ret] = true
			evs = append(evs, core.Ev{"ev": "Open", "name": n, "fd": c.ret, "creat": has("O_CREAT"), "excl": has("O_EXCL"),
				"trunc": has("O_TRUNC"), "app": has("O_APPEND"), "nofollow": has("O_NOFOLLOW"), "flags": flags})
		case "write", "pwrite64":
			fd, _ := strconv.ParseInt(c.args[0], 10, 64)
			if !fds[fd] {
				continue
			}
			data, ok := hexString(c.args[1])
			if !ok {
				return nil, fmt.Errorf("unreadable write data (fd %d)", fd)
			}
			if int64(len(data)) > c.ret {
				data = data[:c.ret]
			}
			if c.name == "write" {
				evs = append(evs, core.Ev{"ev": "Write", "fd": fd, "data": core.Cp(data)})
			} else {
				off, _ := strconv.ParseInt(c.args[3], 10, 64)
				evs = append(evs, core.Ev{"ev": "Pwrite", "fd": fd, "data": core.Cp(data), "off": off})
			}
		case "lseek":
			fd, _ := strconv.ParseInt(c.args[0], 10, 64)
			if fds[fd] {
				evs = append(evs, core.Ev{"ev": "Lseek", "fd": fd, "off": c.ret})
			}
		case "ftruncate":
			fd, _ := strconv.ParseInt(c.args[0], 10, 64)
			if fds[fd] {
				n, _ := strconv.ParseInt(c.args[1], 10, 64)
				evs = append(evs, core.Ev{"ev": "Ftruncate", "fd": fd, "len": n})
			}
		case "truncate":
			p, err := pathArg(c.args[0])
			if err != nil {
				return nil, err
			}
			if n := name(p); n != "" {
				ln, _ := strconv.ParseInt(c.args[1], 10, 64)
				evs = append(evs, core.Ev{"ev": "Truncate", "name": n, "len": ln}) // no action: path truncation is never atomic
			}
		case "fsync", "fdatasync":
			fd, _ := strconv.ParseInt(c.args[0], 10, 64)
			if fds[fd] {
				evs = append(evs, core.Ev{"ev": "Fsync", "fd": fd})
			}
		case "close":
			fd, _ := strconv.ParseInt(c.args[0], 10, 64)
			if fds[fd] {
				delete(fds, fd)
				evs = append(evs, core.Ev{"ev": "Close", "fd": fd})
			}
		case "rename", "renameat", "renameat2":
			ia, ib := 0, 1
			if c.name != "rename" {
				ia, ib = 1, 3
			}
			pa, err := pathArg(c.args[ia])
			if err != nil {
				return nil, err
			}
			pb, err := pathArg(c.args[ib])
			if err != nil {
				return nil, err
			}
			if err := atCwd(c, ia, pa); err != nil {
				return nil, err
			}
			if err := atCwd(c, ib, pb); err != nil {
				return nil, err
			}
			na, nb := name(pa), name(pb)
			if na == "" && nb == "" {
				continue
			}
			if na == "" {
				na = "outside:" + pa
			}
			if nb == "" {
				nb = "outside:" + pb
			}
			evs = append(evs, core.Ev{"ev": "Rename", "from": na, "to": nb})
		case "unlink", "unlinkat":
			ai := 0
			if c.name == "unlinkat" {
				ai = 1
			}
			p, err := pathArg(c.args[ai])
			if err != nil {
				return nil, err
			}
			if err := atCwd(c, ai, p); err != nil {
				return nil, err
			}
			if n := name(p); n != "" {
				evs = append(evs, core.Ev{"ev": "Unlink", "name": n})
			}
		case "symlink", "symlinkat":
			// symlink(target, path) / symlinkat(target, dirfd, path)
			ip := 1
			if c.name == "symlinkat" {
				ip = 2
			}
			tgt, err := pathArg(c.args[0])
			if err != nil {
				return nil, err
			}
			p, err := pathArg(c.args[ip])
			if err != nil {
				return nil, err
			}
			if err := atCwd(c, ip, p); err != nil {
				return nil, err
			}
			if n := name(p); n != "" {
				to := name(linkTarget(p, tgt))
				if to == "" {
					to = "outside:" + tgt
				}
				evs = append(evs, core.Ev{"ev": "Symlink", "name": n, "to": to})
			}
		case "link", "linkat":
			ia, ib := 0, 1
			if c.name == "linkat" {
				ia, ib = 1, 3
			}
			pa, err := pathArg(c.args[ia])
			if err != nil {
				return nil, err
			}
			pb, err := pathArg(c.args[ib])
			if err != nil {
				return nil, err
			}
			if err := atCwd(c, ia, pa); err != nil {
				return nil, err
			}
			if err := atCwd(c, ib, pb); err != nil {
				return nil, err
			}
			if na, nb := name(pa), name(pb); na != "" || nb != "" {
				if na == "" {
					na = "outside:" + pa
				}
				if nb == "" {
					nb = "outside:" + pb
				}
				evs = append(evs, core.Ev{"ev": "Link", "from": na, "to": nb})
			}
		}
	}
	return evs, nil
}

// sysCasesFor draws the write-backs of the gen: plain files and values (the logical
// behaviour is judged by the wb histories; here only the system calls matter), sizes
// from a few bytes to beyond one page
func sysCaseFor(c *core.Ctx, gen string, cas int) sysCase {
	r := c.Rng(gen, cas)
	var sb strings.Builder
	n := 1 + r.Intn(6)
	keys := []string{}
	for i := 0; i < n; i++ {
		switch r.Intn(5) {
		case 0:
			sb.WriteString(commentTexts[r.Intn(len(commentTexts))] + "\n")
		default:
			k := fmt.Sprintf("%s%d", []string{"key", "net_udp_port", "debug", "a.b"}[r.Intn(4)], i)
			keys = append(keys, k)
			sb.WriteString(k + "=" + plainValue(r) + "\n")
		}
	}
	if cas%5 == 4 { // a large file: more than a page
		for i := 0; i < 150; i++ {
			sb.WriteString(fmt.Sprintf("bulk_key_%03d=%s\n", i, strings.Repeat("x", 20+r.Intn(20))))
		}
	}
	if cas%7 == 6 {
		sb.Reset() // an empty file
		keys = nil
	}
	kv := map[string]string{}
	m := 1 + r.Intn(3)
	for i := 0; i < m; i++ {
		switch x := r.Intn(4); {
		case x == 0 && len(keys) > 0:
			kv[keys[r.Intn(len(keys))]] = "" // delete
		case x == 1 && len(keys) > 0:
			kv[keys[r.Intn(len(keys))]] = plainValue(r)
		default:
			kv[fmt.Sprintf("new_%d", r.Intn(50))] = plainValue(r)
		}
	}
	// every layout in turn; the size classes (cas%5, cas%7) walk through the layouts as cas grows
	return sysCase{Case: cas, Layout: sysLayouts[cas%len(sysLayouts)], Old: []byte(sb.String()), KV: kv}
}

func genSys(c *core.Ctx, t *core.Trace, gen string, n int) error {
	var cases []sysCase
	for cas := 0; cas < n; cas++ {
		if c.Want(gen, cas) {
			cases = append(cases, sysCaseFor(c, gen, cas))
		}
	}
	if len(cases) == 0 {
		return nil
	}
	work, err := os.MkdirTemp(c.OutDir, "sys-")
	if err != nil {
		return err
	}
	defer os.RemoveAll(work)
	dir := filepath.Join(work, "fs")
	if err := os.Mkdir(dir, 0o755); err != nil {
		return err
	}
	specp, outp, tracep := filepath.Join(work, "spec.json"), filepath.Join(work, "out.json"), filepath.Join(work, "strace.txt")
	sb, _ := json.Marshal(cases)
	if err := os.WriteFile(specp, sb, 0o644); err != nil {
		return err
	}
	exe, err := os.Executable()
	if err != nil {
		return err
	}
	cmd := exec.Command("strace", "-f", "-qq", "-xx", "-s", "4000000", "-o", tracep, "-e", "trace="+straceCalls, exe)
	cmd.Env = append(os.Environ(), "C18_CHILD=sys", "C18_SPEC="+specp, "C18_OUT="+outp, "C18_DIR="+dir)
	cmd.Dir = work
	if msg, err := cmd.CombinedOutput(); err != nil {
		return fmt.Errorf("strace child failed: %v\n%s", err, msg)
	}
	ob, err := os.ReadFile(outp)
	if err != nil {
		return err
	}
	var results []sysResult
	if err := json.Unmarshal(ob, &results); err != nil {
		return err
	}
	calls, err := parseStrace(tracep)
	if err != nil {
		return err
	}
	// cut at the markers
	sections := map[int][]sysCall{}
	cur := -1
	for _, cl := range calls {
		if (cl.name == "openat" || cl.name == "open") && cl.ret < 0 {
			ai := 0
			if cl.name == "openat" {
				ai = 1
			}
			if pb, ok := hexString(cl.args[ai]); ok {
				base := filepath.Base(string(pb))
				if strings.HasPrefix(base, ".mark-b-") {
					cur, _ = strconv.Atoi(base[len(".mark-b-"):])
					sections[cur] = []sysCall{}
					continue
				}
				if strings.HasPrefix(base, ".mark-e-") {
					cur = -1
					continue
				}
			}
		}
		if cur >= 0 {
			sections[cur] = append(sections[cur], cl)
		}
	}
	total := 0
	layouts := map[string]int{}
	for i, cs := range cases {
		res := results[i]
		sec, ok := sections[cs.Case]
		if !ok {
			return fmt.Errorf("no marker for case %d in the strace output", cs.Case)
		}
		name := entryNamer(res.Root, res.Cwd, res.Conf)
		evs, err := sysEvents(sec, name)
		if err != nil {
			return err
		}
		t.Reset(gen, cs.Case, core.Ev{"layout": cs.Layout})
		if res.Panic != "" {
			t.Emit(core.Ev{"ev": "Panic", "in": "SetValues", "msg": res.Panic})
			continue
		}
		links := [][]string{}
		for _, lk := range res.Links {
			from, to := name(lk[0]), name(linkTarget(lk[0], lk[1]))
			if from == "" || to == "" {
				return fmt.Errorf("case %d (%s): the link %v of the layout cannot be named", cs.Case, cs.Layout, lk)
			}
			links = append(links, []string{from, to})
		}
		fileEntry := name(res.File)
		if fileEntry == "" {
			return fmt.Errorf("case %d (%s): the file %s of the layout cannot be named", cs.Case, cs.Layout, res.File)
		}
		t.Emit(core.Ev{"ev": "FsBegin", "old": core.Cp(cs.Old), "new": core.Cp(res.New), "file": fileEntry, "links": links})
		kinds := []string{}
		for _, e := range evs {
			t.Emit(e)
			kinds = append(kinds, e["ev"].(string))
		}
		sort.Strings(res.Left)
		t.Emit(core.Ev{"ev": "FsEnd", "left": res.Left})
		total += len(evs)
		c.Count(gen+":"+cs.Layout+":"+strings.Join(kinds, ",")+fmt.Sprint(len(cs.Old) > 4096), len(evs) > 0)
		layouts[cs.Layout]++
		if i < 2 {
			c.Sample(map[string]interface{}{"gen": gen, "case": cs.Case, "layout": cs.Layout, "syscalls": kinds, "old_bytes": len(cs.Old), "new_bytes": len(res.New)})
		}
	}
	c.SetExtra("write_back_syscalls_judged", total)
	c.SetExtra("write_back_layouts_judged", layouts)
	return nil
}
