// Package c18 drives the real config/conffile.FileConfig: random histories of
// external file edits, reloads, typed getter calls, observers and write-backs
// (judged by Trace_FileConfig.tla), the system calls of the write-back recorded
// with strace in a child process for every layout of the configuration path (judged by
// Trace_FsWrite.tla), reloads taken apart at the points where they call out (ilv.go), and
// getters racing the reloading goroutine in a child process.  The harness only records;
// TLC judges.
package c18

import (
	"bytes"
	"fmt"
	"hash/crc32"
	"math"
	"math/rand"
	"os"
	"path/filepath"
	"sort"
	"strconv"
	"strings"
	"time"

	"github.com/whatap/golib/config"
	"github.com/whatap/golib/config/conffile"

	"verifharness/core"
)

func init() {
	if mode := os.Getenv("C18_CHILD"); mode != "" {
		childMain(mode) // never returns
	}
	core.Register("c18", Run)
}

// open known findings the generators steer around while they are listed in -args kf=...
const (
	kfLineSyntax = "C18-wb-line-syntax"
	kfEscaping   = "C18-wb-escaping"
	// C18-read-fatal (fixed, 61ee00b): the library's parser terminated the process (log.Fatal) when
	// the file was not there.  The histories let the file vanish between a reload's stat and its
	// read and ask for write-backs while the file is away; kf_vanish is the fixed witness (in a
	// child process: on a tree without the repair the child dies).
)

func hasKF(c *core.Ctx, id string) bool {
	for _, x := range strings.Split(c.Args["kf"], "+") {
		if x == id {
			return true
		}
	}
	return false
}

var baseTime = time.Date(2026, 1, 1, 0, 0, 0, 0, time.UTC)

func stampTime(sec, ms int) time.Time {
	return baseTime.Add(time.Duration(sec)*time.Second + time.Duration(ms)*time.Millisecond)
}

// setStamp gives the file the virtual modification time and checks the file system kept it.
func setStamp(path string, sec, ms int) {
	t := stampTime(sec, ms)
	if err := os.Chtimes(path, t, t); err != nil {
		panic(err)
	}
	st, err := os.Stat(path)
	if err != nil || !st.ModTime().Equal(t) {
		panic(fmt.Sprint("file system did not keep the modification time ", t, " got ", st.ModTime(), err))
	}
}

// recObs is one observer object: it records who was called and what it was shown
type recObs struct {
	id    int
	notes *[]interface{}
	w     *world
}

func (o *recObs) ApplyConfig(c config.Config) {
	*o.notes = append(*o.notes, core.Ev{"o": o.id, "s": snapshot(c)})
	if w := o.w; w != nil && w.polling && w.applied && !w.notified {
		// a poll taken apart: the first observer that is called lets the planned actions happen
		// between the map assignment and the end of the reload
		w.notified = true
		w.window("ntf", w.plan.notify)
	}
}

// snapshot projects the configuration through its public getters: sorted <<key, GetValue(key)>>.
func snapshot(c config.Config) []interface{} {
	keys := c.GetKeys()
	sort.Strings(keys)
	out := make([]interface{}, 0, len(keys))
	for _, k := range keys {
		out = append(out, []core.Bytes{core.Str(k), core.Str(c.GetValue(k))})
	}
	return out
}

type world struct {
	lastData []byte // the bytes of the last external write
	away     bool   // the last deletion was a rename to <path>.away and nothing was written since
	c      *core.Ctx
	t      *core.Trace
	r      *rand.Rand
	dir    string
	path   string
	conf   *conffile.FileConfig
	notes  []interface{}
	sec    int
	ms     int
	lines  []Line
	forms  []int
	eol    string
	final  bool
	seen   map[string][]string // key -> values it ever had (for the hash tables)
	keyset []string
	sig    []string
	raw    []byte
	layout string // how the configuration file is reached (ilv.go)
	home   string // what WithHomePath is given
	gate   bool   // the parser is wrapped: polls are taken apart (ilv.go)
	plan   pollPlan
	// state of the poll in progress
	polling, inParse, entered, applied, notified, aborted bool
	fail                                                  string
	// the rest of the configuration space: the observer registry, the process environment,
	// whether the file is there
	ob        *config.ConfigObserver
	objs      []*recObs
	wantOb    bool // hand a (possibly empty) registry to the constructor: observers are added later
	env       map[string]string
	envKeys   []string
	gone      bool
	everGone  bool
	startGone bool
	// values that use the reference syntax ${name} (gen.go)
	refs     int             // refsNone | refsLoadable | refsAny
	refPlain bool            // the values references stand for must be ones the plain `k=v` writer can carry
	refd     map[string]bool // names some value ever referred to: no Env event touches them
	envEver  map[string]bool // names the history's Env events (or its initial draw) ever set: never referred to
	nrefs    int
	nbad     int
}

func newWorld(c *core.Ctx, t *core.Trace, r *rand.Rand) *world {
	dir, err := os.MkdirTemp(c.OutDir, "conf-")
	if err != nil {
		panic(err)
	}
	return &world{c: c, t: t, r: r, dir: dir, home: dir, layout: "plain", path: filepath.Join(dir, "whatap.conf"), seen: map[string][]string{}, eol: "\n", final: true,
		env: map[string]string{}, refd: map[string]bool{}, envEver: map[string]bool{}}
}

var refStats struct{ histories, values, unloadable int }

func (w *world) done() {
	if w.nrefs > 0 {
		refStats.histories++
		refStats.values += w.nrefs
		refStats.unloadable += w.nbad
	}
	for k := range w.env {
		os.Unsetenv(k)
	}
	os.RemoveAll(w.dir)
}

// ---------------------------------------------------------------- environment, observers, existence

var obsNames = []string{"obs0", "obs1", "UdpClient", "TcpSession", "관찰자"}

// envName: a variable name the history may set: a key of the file, a key the getters ask for
// although no file has it, one of the library's defaults
func (w *world) envName() string {
	r := w.r
	for tries := 0; tries < 50; tries++ {
		var k string
		switch x := r.Intn(10); {
		case x < 5 && len(w.keyset) > 0:
			k = w.keyset[r.Intn(len(w.keyset))]
		case x < 5:
			for _, l := range w.lines {
				if l.T == "kv" && (k == "" || r.Intn(2) == 0) {
					k = string(l.K)
				}
			}
		case x < 7:
			k = absentKeys[r.Intn(len(absentKeys))]
		case x < 8:
			k = defaultKeys[r.Intn(len(defaultKeys))]
		default:
			k = plainKey(r)
		}
		if usableKey(k) && !strings.ContainsAny(k, "=\x00") && !w.refd[k] {
			return k
		}
	}
	return "absent_key_env"
}

func envValue(r *rand.Rand) string {
	for {
		v, _ := anyValue(r)
		if r.Intn(3) == 0 {
			v = pad(r, v) // the environment's value is handed out as it is
		}
		if !strings.Contains(v, "\x00") {
			return v
		}
	}
}

// drawEnv: the environment the history starts with (recorded in Reset)
func (w *world) drawEnv() {
	if w.r.Intn(2) == 0 {
		return
	}
	for n := 1 + w.r.Intn(3); n > 0; n-- {
		k := w.envName()
		if _, ok := w.env[k]; ok {
			continue
		}
		w.putenv(k, envValue(w.r))
	}
}

func (w *world) putenv(k, v string) {
	if err := os.Setenv(k, v); err != nil {
		panic(err)
	}
	if _, ok := w.env[k]; !ok {
		w.envKeys = append(w.envKeys, k)
	}
	w.envEver[k] = true
	w.env[k] = v
}

// envChange sets, changes or unsets one variable in the middle of a history
func (w *world) envChange() {
	r := w.r
	if len(w.envKeys) > 0 && r.Intn(3) == 0 {
		k := w.envKeys[r.Intn(len(w.envKeys))]
		if _, ok := w.env[k]; ok {
			os.Unsetenv(k)
			delete(w.env, k)
			w.sig = append(w.sig, "unsetenv")
			w.t.Emit(core.Ev{"ev": "Env", "k": core.Str(k), "v": core.Str(""), "set": false})
			return
		}
	}
	k, v := w.envName(), envValue(r)
	w.putenv(k, v)
	w.sig = append(w.sig, "setenv")
	w.t.Emit(core.Ev{"ev": "Env", "k": core.Str(k), "v": core.Str(v), "set": true})
}

func (w *world) envEv() []interface{} {
	ks := make([]string, 0, len(w.env))
	for k := range w.env {
		ks = append(ks, k)
	}
	sort.Strings(ks)
	out := []interface{}{}
	for _, k := range ks {
		out = append(out, []core.Bytes{core.Str(k), core.Str(w.env[k])})
	}
	return out
}

// addObs: ConfigObserver.Add under a name that is new or taken, of a new observer object or
// (sometimes) of one that is registered already
func (w *world) addObs() {
	r := w.r
	name := obsNames[r.Intn(len(obsNames))]
	var o *recObs
	if len(w.objs) > 0 && r.Intn(5) == 0 {
		o = w.objs[r.Intn(len(w.objs))]
	} else {
		o = &recObs{id: len(w.objs), notes: &w.notes, w: w}
		w.objs = append(w.objs, o)
	}
	w.ob.Add(name, o)
	w.sig = append(w.sig, "add")
	w.t.Emit(core.Ev{"ev": "ObsAdd", "name": core.Str(name), "id": o.id})
}

// deleteFile plays the external writer taking the file away: unlink, rename away, or (through a
// symbolic link) the file the link leads to removed so that the link dangles
func (w *world) deleteFile() {
	how := w.r.Intn(3)
	switch how {
	case 0:
		if err := os.Remove(w.path); err != nil {
			panic(err)
		}
	case 1:
		if err := os.Rename(w.path, w.path+".away"); err != nil {
			panic(err)
		}
	default:
		p, err := filepath.EvalSymlinks(w.path)
		if err != nil {
			panic(err)
		}
		if err := os.Remove(p); err != nil {
			panic(err)
		}
	}
	if _, err := os.Stat(w.path); !os.IsNotExist(err) {
		panic(fmt.Sprint("the configuration file is still there: ", err))
	}
	w.gone, w.everGone = true, true
	w.away = how == 1
	w.sig = append(w.sig, "del")
	w.t.Emit(core.Ev{"ev": "Delete", "how": how})
}

func (w *world) bump(within bool) {
	if within && w.ms < 980 {
		w.ms += 1 + w.r.Intn(7)
	} else {
		w.sec += 1 + w.r.Intn(3)
		w.ms = w.r.Intn(1000)
	}
}

func (w *world) remember() {
	for _, l := range w.lines {
		if l.T == "kv" {
			k := string(l.K)
			if _, ok := w.seen[k]; !ok {
				w.keyset = append(w.keyset, k)
			}
			w.seen[k] = append(w.seen[k], string(l.V))
		}
	}
}

// writeFile plays the external writer: the whole file replaced, then the virtual mtime set.
func (w *world) writeFile() []byte {
	final := w.final
	if n := len(w.lines); n > 0 && w.lines[n-1].T == "b" && len(w.lines[n-1].V) == 0 {
		final = true // an empty last line exists only through the terminator that follows it
	}
	data := renderFile(w.r, w.lines, w.forms, w.eol, final)
	if w.raw != nil { // a witness history: the file is given byte for byte
		data, w.raw = w.raw, nil
	}
	if w.r.Intn(2) == 0 {
		if err := os.WriteFile(w.path, data, 0o644); err != nil {
			panic(err)
		}
	} else {
		// an editor that writes a new file and renames it over the old one: over the file the
		// path leads to, or (one time in four) over the path itself, replacing a symbolic link
		dst := w.path
		if w.layout != "plain" && w.r.Intn(4) != 0 {
			if p, err := filepath.EvalSymlinks(w.path); err == nil {
				dst = p
			}
		}
		tmp := dst + ".edit"
		if err := os.WriteFile(tmp, data, 0o644); err != nil {
			panic(err)
		}
		if err := os.Rename(tmp, dst); err != nil {
			panic(err)
		}
	}
	setStamp(w.path, w.sec, w.ms)
	w.gone, w.away = false, false
	w.lastData = append([]byte(nil), data...)
	w.remember()
	return data
}

// restoreFile plays the external writer putting back exactly what it took away: the same bytes
// under the same modification time (the renamed file moved back, a copy that preserves the
// stamp).  Only called after the poller has seen the file missing: what the configuration
// remembers of the version it loaded before says nothing about the file that is there now.
func (w *world) restoreFile() {
	if w.away {
		if err := os.Rename(w.path+".away", w.path); err != nil {
			panic(err)
		}
	} else if err := os.WriteFile(w.path, w.lastData, 0o644); err != nil {
		panic(err)
	}
	setStamp(w.path, w.sec, w.ms)
	w.gone, w.away = false, false
	w.sig = append(w.sig, "restore")
	w.t.Emit(core.Ev{"ev": "Edit", "lines": linesEv(w.lines), "parsed": linesEv(parseProps(w.lastData)), "mt": []int{w.sec, w.ms}})
}

func (w *world) reset(gen string, cas int, pre, suf string, excl []string, nobs int) {
	w.resetPlan(gen, cas, pre, suf, excl, nobs, pollPlan{})
}

// resetPlan: plan = what happens inside the constructor's own reload (only with w.gate)
func (w *world) resetPlan(gen string, cas int, pre, suf string, excl []string, nobs int, plan pollPlan) {
	if w.startGone {
		os.Remove(w.path) // (a layout's symbolic link)
		w.gone = true
		w.remember()
	} else {
		w.writeFile()
	}
	ex := make([]core.Bytes, 0)
	for _, k := range excl {
		ex = append(ex, core.Str(k))
	}
	w.t.Reset(gen, cas, core.Ev{"pre": core.Str(pre), "suf": core.Str(suf), "excl": ex, "nobs": nobs,
		"file": linesEv(w.lines), "mt": []int{w.sec, w.ms}, "layout": w.layout,
		"exists": !w.gone, "penv": w.envEv(), "libdefs": defaultsEv()})
	opts := []conffile.FileConfigOption{conffile.WithHomePath(w.home)}
	if w.gate {
		opts = append(opts, conffile.WithParser(&gateParser{inner: conffile.NewDefaultFileParser(), w: w}))
	}
	if nobs > 0 || w.wantOb {
		// nobs Add calls before the constructor runs (a name may be taken twice already)
		w.ob = config.NewConfigObserver()
		for i := 0; i < nobs; i++ {
			w.addObs()
		}
		opts = append(opts, conffile.WithConfigObserver(w.ob))
	}
	if pre != "" {
		opts = append(opts, conffile.WithPrefix(pre))
	}
	if suf != "" {
		opts = append(opts, conffile.WithSuffix(suf))
	}
	if len(excl) > 0 {
		opts = append(opts, conffile.WithExcludeKeys(excl))
	}
	w.notes = nil
	if w.gate {
		var conf *conffile.FileConfig
		if w.poll("New", plan, func() { conf = conffile.NewFileConfigForVerif(opts...) }, func() config.Config { return conf }) {
			w.conf = conf
		}
		return
	}
	if msg := core.Guard(func() { w.conf = conffile.NewFileConfigForVerif(opts...) }); msg != "" {
		w.t.Emit(core.Ev{"ev": "Panic", "in": "New", "msg": msg})
		return
	}
	w.t.Emit(core.Ev{"ev": "New", "snap": snapshot(w.conf), "notes": w.takeNotes()})
}

// the library's defaults: what the public ApplyDefault() puts into a configuration that
// has loaded nothing (no file in its home directory), projected like every snapshot
var defaultsOnce struct {
	done bool
	m    map[string]string
	ev   []interface{}
}

func defaultsMap() map[string]string {
	d := &defaultsOnce
	if d.done {
		return d.m
	}
	dir, err := os.MkdirTemp("", "c18-defaults-")
	if err != nil {
		panic(err)
	}
	defer os.RemoveAll(dir)
	conf := conffile.NewFileConfigForVerif(conffile.WithHomePath(dir))
	if n := len(conf.GetKeys()); n != 0 {
		panic(fmt.Sprint("a configuration without a file has ", n, " keys"))
	}
	conf.ApplyDefault()
	d.m = map[string]string{}
	keys := conf.GetKeys()
	sort.Strings(keys)
	d.ev = []interface{}{}
	for _, k := range keys {
		v := conf.GetValue(k)
		d.m[k] = v
		d.ev = append(d.ev, []core.Bytes{core.Str(k), core.Str(v)})
	}
	d.done = true
	return d.m
}

func defaultsEv() []interface{} {
	defaultsMap()
	return defaultsOnce.ev
}

func (w *world) takeNotes() []interface{} {
	n := w.notes
	w.notes = nil
	if n == nil {
		n = []interface{}{}
	}
	return n
}

func (w *world) edit() {
	if w.refs == refsLoadable {
		w.settle(-1)
	}
	data := w.writeFile()
	w.gone = false
	w.t.Emit(core.Ev{"ev": "Edit", "lines": linesEv(w.lines), "parsed": linesEv(parseProps(data)), "mt": []int{w.sec, w.ms}})
}

func (w *world) reload() {
	if w.gate {
		w.poll("Reload", pollPlan{}, func() { w.conf.ReloadNowForVerif() }, func() config.Config { return w.conf })
		return
	}
	if msg := core.Guard(func() { w.conf.ReloadNowForVerif() }); msg != "" {
		w.t.Emit(core.Ev{"ev": "Panic", "in": "Reload", "msg": msg})
		return
	}
	w.t.Emit(core.Ev{"ev": "Reload", "snap": snapshot(w.conf), "notes": w.takeNotes()})
}

// ---------------------------------------------------------------- getters

func javaHash(s string) int32 {
	var h uint32
	for i := 0; i < len(s); i++ {
		h = 31*h + uint32(s[i])
	}
	return int32(h)
}

func w4(v int32) core.Bytes { return core.W4(uint32(v)) }

func decs(v []int32) []core.Bytes {
	out := make([]core.Bytes, 0, len(v))
	for _, x := range v {
		out = append(out, core.Str(strconv.FormatInt(int64(x), 10)))
	}
	return out
}

// hashTable: token -> hash (standard library CRC-32 / a local 31*h+b fold) for every token of
// every value the key ever had and of the default; the specification picks the tokens that matter.
func (w *world) hashTable(k, def, deli string, java bool) []interface{} {
	h := func(s string) core.Bytes {
		if java {
			return w4(javaHash(s))
		}
		return w4(int32(crc32.ChecksumIEEE([]byte(s))))
	}
	seen := map[string]bool{}
	var out []interface{}
	add := func(s string) {
		toks := []string{s}
		if deli != "" {
			toks = strings.FieldsFunc(s, func(c rune) bool { return strings.ContainsRune(deli, c) })
		}
		for _, t := range append(toks, strings.TrimSpace(s)) {
			t = strings.TrimSpace(t)
			if !seen[t] {
				seen[t] = true
				out = append(out, []core.Bytes{core.Str(t), h(t)})
			}
		}
	}
	add(def)
	for _, v := range w.seen[k] {
		add(v)
	}
	if v, ok := w.env[k]; ok {
		add(v)
	}
	if v, ok := defaultsMap()[k]; ok {
		add(v)
	}
	// a value that uses references: the tokens of what it stands for (the table is only an oracle
	// of the hash function: token -> hash; the specification decides which tokens matter)
	m := rawMap(w.lines)
	for _, raw := range w.seen[k] {
		if strings.Contains(raw, "${") {
			if x, ok := goExpand(raw, []string{k}, m, w.env); ok {
				add(x)
			}
		}
	}
	if w.conf != nil && w.refs != refsNone {
		add(w.conf.GetValue(k))
	}
	return out
}

var getterKinds = []string{"Value", "ValueDef", "Boolean", "Int", "Long", "Float", "StringArray", "IntSet", "StringHashSet", "StringHashCodeSet", "Keys"}

var absentKeys = []string{"absent_key", "no.such", "zz", "키없음"}

// a few of the library's defaults (what a file that disappeared leaves behind)
var defaultKeys = []string{"enabled", "net_udp_port", "trace_user_header_ticket", "mtrace_rate", "tx_max_count", "debug"}

func (w *world) pickKey() string {
	r := w.r
	if len(w.envKeys) > 0 && r.Intn(4) == 0 {
		return w.envKeys[r.Intn(len(w.envKeys))] // a key the environment names (or named)
	}
	if w.everGone && r.Intn(4) == 0 {
		if k := defaultKeys[r.Intn(len(defaultKeys))]; usableKey(k) {
			return k
		}
	}
	if len(w.keyset) > 0 && r.Intn(10) < 8 {
		return w.keyset[r.Intn(len(w.keyset))]
	}
	for {
		k := absentKeys[r.Intn(4)]
		if usableKey(k) {
			return k
		}
	}
}

func (w *world) get(kind, k string) {
	r := w.r
	ev := core.Ev{"ev": "Get", "g": kind, "k": core.Str(k)}
	deli := []string{",", ",;", "|", ", ", ""}[r.Intn(5)]
	if r.Intn(3) > 0 {
		deli = ","
	}
	conf := w.conf
	msg := core.Guard(func() {
		switch kind {
		case "Value":
			ev["ret"] = core.Str(conf.GetValue(k))
		case "ValueDef":
			d := []string{"", "dflt", " d ", "0"}[r.Intn(4)]
			ev["d"] = core.Str(d)
			ev["ret"] = core.Str(conf.GetValueDef(k, d))
		case "Boolean":
			d := r.Intn(2) == 0
			ev["d"] = d
			ev["ret"] = conf.GetBoolean(k, d)
		case "Int":
			d := []int{0, -1, 6600, math.MaxInt32, math.MinInt32, r.Intn(100000)}[r.Intn(6)]
			ev["d"] = core.Str(strconv.Itoa(d))
			ev["ret"] = core.Str(strconv.FormatInt(int64(conf.GetInt(k, d)), 10))
		case "Long":
			d := []int64{0, -1, math.MaxInt64, math.MinInt64, int64(r.Uint64() >> uint(r.Intn(64)))}[r.Intn(5)]
			ev["d"] = core.Str(strconv.FormatInt(d, 10))
			ev["ret"] = core.Str(strconv.FormatInt(conf.GetLong(k, d), 10))
		case "Float":
			d := []float32{0, 1, -1.5, 3.25, float32(math.Inf(1)), 1e-10}[r.Intn(6)]
			ev["d"] = core.F32(d)
			ev["ret"] = core.F32(conf.GetFloat(k, d))
		case "StringArray":
			d := []string{"", "x,y", " a ; b ", "one"}[r.Intn(4)]
			ev["d"], ev["deli"] = core.Str(d), core.Str(deli)
			out := []core.Bytes{}
			for _, s := range conf.GetStringArray(k, d, deli) {
				out = append(out, core.Str(s))
			}
			ev["ret"] = out
		case "IntSet":
			d := []string{"", "1,2", "7", "x,3", " 4 , 5 "}[r.Intn(5)]
			ev["d"], ev["deli"] = core.Str(d), core.Str(deli)
			ev["ret"] = decs(conf.GetIntSet(k, d, deli))
		case "StringHashSet", "StringHashCodeSet":
			d := []string{"", "/a,/b", "one", " p , q "}[r.Intn(4)]
			ev["d"], ev["deli"] = core.Str(d), core.Str(deli)
			java := kind == "StringHashCodeSet"
			var got []int32
			if java {
				got = conf.GetStringHashCodeSet(k, d, deli)
				ev["h0"] = w4(javaHash(""))
			} else {
				got = conf.GetStringHashSet(k, d, deli)
				ev["h0"] = w4(int32(crc32.ChecksumIEEE(nil)))
			}
			out := []core.Bytes{}
			for _, x := range got {
				out = append(out, w4(x))
			}
			ev["ret"] = out
			ev["tab"] = w.hashTable(k, d, deli, java)
		case "Keys":
			ks := conf.GetKeys()
			sort.Strings(ks)
			out := []core.Bytes{}
			for _, s := range ks {
				out = append(out, core.Str(s))
			}
			ev["ret"] = out
		}
	})
	if msg != "" {
		w.t.Emit(core.Ev{"ev": "Panic", "in": "Get" + kind, "msg": msg})
		return
	}
	w.sig = append(w.sig, kind)
	w.t.Emit(ev)
}

func (w *world) someGets(n int) {
	for i := 0; i < n; i++ {
		w.get(getterKinds[w.r.Intn(len(getterKinds))], w.pickKey())
	}
}

// ---------------------------------------------------------------- file mutation

func (w *world) hasKey(k string) bool {
	for _, l := range w.lines {
		if l.T == "kv" && string(l.K) == k {
			return true
		}
	}
	return false
}

var commentTexts = []string{"# plain comment", "! bang comment", "#", "# key=value in a comment", "#a = b = c", "  # indented", "  # indented k=v", "\t! tab = bang = x", " #a=b=c", "\f#ff=1", "#x=", "# 한글 주석", "!k:v", "# trailing blanks  ", "#=", "# a=b\\"}

func (w *world) randLine(exoticKeys bool, forms []int, plainVals bool) (Line, int) {
	r := w.r
	switch r.Intn(8) {
	case 0:
		return Line{T: "c", V: []byte(commentTexts[r.Intn(len(commentTexts))])}, 0
	case 1:
		return Line{T: "b", V: []byte([]string{"", "", " ", "\t"}[r.Intn(4)])}, 0
	}
	var k string
	for tries := 0; ; tries++ {
		if exoticKeys && r.Intn(4) == 0 {
			k = exoticKey(r)
		} else {
			k = plainKey(r)
		}
		if !w.hasKey(k) || tries > 20 {
			break
		}
	}
	v, isRef := w.drawValue(plainVals, k)
	f := w.fixForm(forms[r.Intn(len(forms))], v)
	if isRef && w.refs == refsLoadable {
		f = fEq
	}
	return Line{T: "kv", K: []byte(k), V: []byte(v)}, f
}

// drawValue: a value of a random class, one time in five one that uses the reference syntax
func (w *world) drawValue(plainVals bool, k string) (string, bool) {
	if w.refs != refsNone && w.r.Intn(5) == 0 && (w.refs == refsAny || simpleKey(k)) {
		w.nrefs++
		w.sig = append(w.sig, "ref")
		return w.refValue(k), true
	}
	if plainVals {
		return plainValue(w.r), false
	}
	v, _ := anyValue(w.r)
	return v, false
}

// settle: a history that wants only files the parser accepts (or this time does) takes a value
// that makes the file unloadable back
func (w *world) settle(i int) {
	if w.refs == refsNone || w.loadable() {
		return
	}
	if w.refs == refsAny && w.r.Intn(3) == 0 {
		w.nbad++
		w.sig = append(w.sig, "unloadable")
		return
	}
	for _, i := range append([]int{i}, w.kvIndexes()...) {
		if i >= 0 && i < len(w.lines) && w.lines[i].T == "kv" && strings.Contains(string(w.lines[i].V), "${") {
			w.lines[i].V = []byte("x")
			if w.loadable() {
				return
			}
		}
	}
}

func (w *world) kvIndexes() []int {
	var out []int
	for i, l := range w.lines {
		if l.T == "kv" {
			out = append(out, i)
		}
	}
	return out
}

// fixForm avoids forms that cannot carry the value (a blank-only separator before '=' or ':',
// a continuation in a CRLF file -- the library does not join those)
func (w *world) fixForm(f int, v string) int {
	if (f == fBlank || f == fTabs) && (strings.HasPrefix(v, "=") || strings.HasPrefix(v, ":")) {
		return fEq
	}
	if f == fCont && w.eol != "\n" {
		return fEq
	}
	return f
}

var allForms = []int{fEq, fEq, fEqSp, fColon, fBlank, fTabs, fUniEsc, fCont}
var plainForms = []int{fEq, fEq, fEqSp}

// mutate changes the logical file the way an editor would
func (w *world) mutate(exoticKeys bool, forms []int, plainVals bool, allowDup bool) string {
	r := w.r
	kvIdx := []int{}
	for i, l := range w.lines {
		if l.T == "kv" {
			kvIdx = append(kvIdx, i)
		}
	}
	op := r.Intn(10)
	switch {
	case op < 4 && len(kvIdx) > 0: // change a value
		i := kvIdx[r.Intn(len(kvIdx))]
		v, isRef := w.drawValue(plainVals, string(w.lines[i].K))
		w.lines[i].V = []byte(v)
		w.forms[i] = w.fixForm(w.forms[i], v)
		if isRef && w.refs == refsLoadable {
			w.forms[i] = fEq
		}
		w.settle(i)
		return "set"
	case op == 4 && len(kvIdx) > 0: // empty a value
		i := kvIdx[r.Intn(len(kvIdx))]
		w.lines[i].V = []byte{}
		if w.forms[i] == fCont {
			w.forms[i] = fEq
		}
		return "empty"
	case op == 5 && len(w.lines) > 1: // delete a line
		i := r.Intn(len(w.lines))
		w.lines = append(w.lines[:i], w.lines[i+1:]...)
		w.forms = append(w.forms[:i], w.forms[i+1:]...)
		return "del"
	case op == 6 && allowDup && len(kvIdx) > 0: // the same key once more, later in the file
		i := kvIdx[r.Intn(len(kvIdx))]
		v, _ := w.drawValue(false, string(w.lines[i].K))
		w.lines = append(w.lines, Line{T: "kv", K: append([]byte(nil), w.lines[i].K...), V: []byte(v)})
		w.forms = append(w.forms, w.fixForm(forms[r.Intn(len(forms))], v))
		w.settle(len(w.lines) - 1)
		return "dup"
	default: // insert a line
		ln, f := w.randLine(exoticKeys, forms, plainVals)
		i := r.Intn(len(w.lines) + 1)
		w.lines = append(w.lines[:i], append([]Line{ln}, w.lines[i:]...)...)
		w.forms = append(w.forms[:i], append([]int{f}, w.forms[i:]...)...)
		w.settle(i)
		return "ins"
	}
}

func (w *world) initialFile(n int, exoticKeys bool, forms []int, plainVals bool) {
	w.lines, w.forms = nil, nil
	for i := 0; i < n; i++ {
		ln, f := w.randLine(exoticKeys, forms, plainVals)
		w.lines = append(w.lines, ln)
		w.forms = append(w.forms, f)
		w.settle(i)
	}
}

// ---------------------------------------------------------------- gen edit

func histEdit(c *core.Ctx, t *core.Trace, gen string, cas int) {
	r := c.Rng(gen, cas)
	w := newWorld(c, t, r)
	defer w.done()
	w.useLayout(worldLayouts[r.Intn(len(worldLayouts))])
	if r.Intn(6) == 0 {
		w.eol = "\r\n"
	}
	w.final = r.Intn(5) != 0
	if r.Intn(4) > 0 {
		// values that refer to other keys and to the environment, files the parser rejects
		w.refs = refsAny
		w.fixEnv()
	}
	w.initialFile(1+r.Intn(5), true, allForms, false)
	w.sec, w.ms = r.Intn(5), r.Intn(1000)
	w.drawEnv()
	w.wantOb = r.Intn(4) > 0
	w.startGone = r.Intn(12) == 0
	w.reset(gen, cas, "", "", nil, r.Intn(4))
	if w.conf == nil {
		return
	}
	steps := 3 + r.Intn(6)
	edits := 0
	for s := 0; s < steps; s++ {
		switch x := r.Intn(14); {
		case x == 10 && !w.gone:
			// the file disappears; the poller looks once or twice; sometimes a write-back is asked for
			w.deleteFile()
			looked := r.Intn(3)
			for n := looked; n > 0; n-- {
				w.reload()
				w.someGets(1 + r.Intn(3))
			}
			if looked > 0 && w.lastData != nil && w.refs != refsLoadable && r.Intn(2) == 0 {
				// the file comes back as it was, byte for byte and with its old modification time
				w.restoreFile()
				w.reload()
				w.someGets(2 + r.Intn(3))
			} else if r.Intn(4) == 0 {
				w.setValues(map[string]string{plainKey(r): plainValue(r)})
			}
		case x == 11 || x == 10:
			w.envChange()
			w.someGets(1 + r.Intn(3))
		case x >= 12:
			if w.ob != nil {
				for n := 1 + r.Intn(2); n > 0; n-- {
					w.addObs()
				}
			} else {
				w.someGets(1)
			}
		case x < 6:
			n := 1
			if r.Intn(3) == 0 {
				n = 2 + r.Intn(2) // several edits before the poller looks
			}
			for i := 0; i < n; i++ {
				w.sig = append(w.sig, w.mutate(true, allForms, false, true))
				w.bump(r.Intn(3) > 0)
				w.edit()
				edits++
			}
			w.reload()
			w.someGets(2 + r.Intn(3))
		case x < 7:
			w.reload()
		default:
			w.someGets(1 + r.Intn(3))
		}
	}
	w.sig = append(w.sig, w.mutate(true, allForms, false, true))
	w.bump(true)
	w.edit()
	w.reload()
	w.someGets(3)
	c.Count(gen+":"+strings.Join(w.sig, ","), edits > 0)
	if cas < 2 {
		c.Sample(map[string]interface{}{"gen": gen, "case": cas, "steps": w.sig, "final_file": string(renderFile(r, w.lines, w.forms, "\n", true))})
	}
}

// ---------------------------------------------------------------- gen wb

func xf(k, pre, suf string) string {
	if pre != "" && !strings.HasPrefix(k, pre) {
		k = pre + k
	}
	if suf != "" && !strings.HasSuffix(k, suf) {
		k = k + suf
	}
	return k
}

func (w *world) setValues(kv map[string]string) {
	m := map[string]string{}
	pairs := []interface{}{}
	keys := []string{}
	for k := range kv {
		keys = append(keys, k)
	}
	sort.Strings(keys)
	for _, k := range keys {
		m[k] = kv[k]
		pairs = append(pairs, []core.Bytes{core.Str(k), core.Str(kv[k])})
	}
	if w.gone {
		// a write-back while the file is away: its read fails and nothing is written
		if msg := core.Guard(func() { w.conf.SetValues(&m) }); msg != "" {
			w.t.Emit(core.Ev{"ev": "Panic", "in": "SetValues", "msg": msg})
			return
		}
		_, err := os.Stat(w.path)
		w.sig = append(w.sig, "wbgone")
		w.t.Emit(core.Ev{"ev": "SetValuesGone", "kv": pairs, "exists": !os.IsNotExist(err)})
		return
	}
	if msg := core.Guard(func() { w.conf.SetValues(&m) }); msg != "" {
		w.t.Emit(core.Ev{"ev": "Panic", "in": "SetValues", "msg": msg})
		return
	}
	data, err := os.ReadFile(w.path)
	if err != nil {
		w.t.Emit(core.Ev{"ev": "Panic", "in": "SetValues", "msg": "file gone: " + err.Error()})
		return
	}
	setStamp(w.path, w.sec, w.ms)
	after := parseProps(data)
	w.t.Emit(core.Ev{"ev": "SetValues", "kv": pairs, "after": linesEv(after), "mt": []int{w.sec, w.ms}})
	// the harness's own picture of the file follows what is on disk
	w.lines = after
	w.forms = make([]int, len(after))
	w.eol, w.final = "\n", true
	w.remember()
}

type wbMode struct {
	forms      []int
	exoticKeys bool
	plainVals  bool
}

func histWb(c *core.Ctx, t *core.Trace, gen string, cas int, md wbMode) {
	r := c.Rng(gen, cas)
	w := newWorld(c, t, r)
	defer w.done()
	w.useLayout(worldLayouts[r.Intn(len(worldLayouts))])
	w.final = r.Intn(6) != 0
	if r.Intn(8) == 0 {
		w.eol = "\r\n"
	}
	if r.Intn(2) == 0 {
		w.refs, w.refPlain = refsLoadable, md.plainVals
		w.fixEnv()
	}
	w.initialFile(2+r.Intn(5), md.exoticKeys, md.forms, md.plainVals)
	pre := []string{"", "", "whatap.", "app_"}[r.Intn(4)]
	suf := []string{"", "", "", ".go"}[r.Intn(4)]
	var excl []string
	if r.Intn(3) == 0 {
		excl = []string{"license", plainKey(r)}
	}
	w.sec, w.ms = r.Intn(5), r.Intn(1000)
	w.drawEnv()
	w.wantOb = true
	w.reset(gen, cas, pre, suf, excl, 1)
	if w.conf == nil {
		return
	}
	rounds := 2 + r.Intn(3)
	for i := 0; i < rounds; i++ {
		if r.Intn(5) == 0 {
			w.addObs()
		}
		if r.Intn(8) == 0 {
			// the file is away for a while: a poll, a write-back that cannot read it, the file is back
			w.deleteFile()
			if r.Intn(3) > 0 {
				w.reload()
			}
			w.setValues(map[string]string{plainKey(r): plainValue(r)})
			w.sig = append(w.sig, w.mutate(md.exoticKeys, md.forms, md.plainVals, false))
			w.bump(r.Intn(2) == 0)
			w.edit()
			w.reload()
			w.someGets(1 + r.Intn(2))
		}
		kv := map[string]string{}
		used := map[string]bool{}
		n := 1 + r.Intn(3)
		for j := 0; j < n; j++ {
			var k string
			switch x := r.Intn(10); {
			case x < 4 && len(w.keyset) > 0:
				k = w.keyset[r.Intn(len(w.keyset))] // a key of the file (possibly already carrying prefix/suffix)
			case x < 5 && len(excl) > 0:
				k = excl[r.Intn(len(excl))]
			case x < 6 && md.exoticKeys:
				k = exoticKey(r)
			default:
				k = plainKey(r)
			}
			if used[xf(k, pre, suf)] {
				continue
			}
			used[xf(k, pre, suf)] = true
			var v string
			switch x := r.Intn(10); {
			case x < 2:
				v = "" // delete
			case md.plainVals:
				v = plainValue(r)
			default:
				v, _ = anyValue(r)
			}
			kv[k] = v
			w.sig = append(w.sig, fmt.Sprintf("w%d", len(v)))
		}
		w.bump(r.Intn(2) == 0)
		w.setValues(kv)
		w.reload()
		w.someGets(1 + r.Intn(2))
		if r.Intn(3) == 0 {
			w.sig = append(w.sig, w.mutate(md.exoticKeys, md.forms, md.plainVals, false))
			w.bump(true)
			w.edit()
			w.reload()
		}
	}
	c.Count(gen+":"+pre+suf+strings.Join(w.sig, ","), true)
	if cas < 2 {
		c.Sample(map[string]interface{}{"gen": gen, "case": cas, "prefix": pre, "suffix": suf, "steps": w.sig, "final_file": string(renderFile(r, w.lines, w.forms, "\n", true))})
	}
}

// fixed witness histories of the open findings: the file byte for byte, one write-back, one reload
func histWitness(c *core.Ctx, t *core.Trace, gen string, file string, kv map[string]string) {
	r := c.Rng(gen, 0)
	w := newWorld(c, t, r)
	defer w.done()
	w.raw = []byte(file)
	w.lines = parseProps(w.raw)
	w.forms = make([]int, len(w.lines))
	w.reset(gen, 0, "", "", nil, 1)
	if w.conf == nil {
		return
	}
	w.bump(false)
	w.setValues(kv)
	w.reload()
	c.Count(gen, true)
}

// ---------------------------------------------------------------- driver

func Run(c *core.Ctx) error {
	for _, e := range []string{"WHATAP_HOME", "WHATAP_CONFIG_HOME", "WHATAP_CONFIG"} {
		os.Unsetenv(e)
	}
	inherited() // the environment this process was given, before any history sets a variable
	c.Rule = "histories of external edits (7 line forms of the properties syntax, 11 value classes, values with ${name} references to other keys / environment variables / undefined names / themselves incl. files the parser rejects, several edits per second), the file deleted / renamed away / its link left dangling and created again, reloads, 11 getter kinds with defaults, environment variables named like keys that are absent, present and present-but-empty in the file (set, changed, unset during the history), observer registries written during the history (Add under new and taken names, one object under several names), write-backs with prefix/suffix/exclusions; reloads taken apart at the parser and at the observers with edits, getters and write-backs between their steps (gen ilv: non-trivial if an edit or write-back fell inside a reload); the configuration file reached through 7 (in-process) / 12 (strace) layouts of links, relative paths and environment variables; the write-back's system calls under strace; 8 readers against the reloading goroutine; a history is non-trivial if it has an edit followed by a reload or a write-back; distinct by its layout and sequence of step kinds"
	t := c.Trace("c18_conf", "Trace_FileConfig")
	// (a second and third file of the same kind: the runner validates trace files side by side)
	twb := c.Trace("c18_conf_wb", "Trace_FileConfig")
	tilv := c.Trace("c18_conf_ilv", "Trace_FileConfig")
	tf := c.Trace("c18_fs", "Trace_FsWrite")

	if c.WantGen("edit") {
		n := c.Pick(250, 1300)
		for cas := 0; cas < n; cas++ {
			if c.Want("edit", cas) {
				histEdit(c, t, "edit", cas)
			}
		}
	}
	if c.WantGen("wb") {
		md := wbMode{forms: allForms, exoticKeys: true, plainVals: false}
		if hasKF(c, kfLineSyntax) {
			md.forms = plainForms
		}
		if hasKF(c, kfEscaping) {
			md.exoticKeys, md.plainVals = false, true
		}
		n := c.Pick(200, 1000)
		for cas := 0; cas < n; cas++ {
			if c.Want("wb", cas) {
				histWb(c, twb, "wb", cas, md)
			}
		}
	}
	// witnesses of the open findings run only on request (they are rejected by design)
	if c.OnlyGen == "kf_wbsyntax" {
		// a key line the syntax allows but the write-back does not recognise: "port<TAB>=<TAB>6600"
		histWitness(c, t, "kf_wbsyntax", "# settings\nport\t=\t6600\nb=2\n", map[string]string{"b": "3"})
	}
	if c.OnlyGen == "kf_wbescape" {
		// values that need the syntax's escapes: a leading blank, two backslashes
		histWitness(c, t, "kf_wbescape", "a=1\n", map[string]string{"greeting": " hello", "path": "two\\\\slashes"})
	}
	if c.OnlyGen == "kf_vanish" {
		// the file vanishes between a reload's stat and its read (child process: the library's
		// parser terminates the process)
		if err := histVanish(c, t, "kf_vanish", 0); err != nil {
			return err
		}
	}
	if c.WantGen("ilv") {
		md := wbMode{forms: allForms, exoticKeys: true, plainVals: false}
		if hasKF(c, kfLineSyntax) {
			md.forms = plainForms
		}
		if hasKF(c, kfEscaping) {
			md.exoticKeys, md.plainVals = false, true
		}
		n := c.Pick(120, 800)
		for cas := 0; cas < n; cas++ {
			if c.Want("ilv", cas) {
				histIlv(c, tilv, "ilv", cas, md)
			}
		}
	}
	if c.WantGen("conc") {
		n := c.Pick(1, 3)
		for cas := 0; cas < n; cas++ {
			if c.Want("conc", cas) {
				if err := histConc(c, t, "conc", cas); err != nil {
					return err
				}
			}
		}
	}
	if c.WantGen("sys") {
		if err := genSys(c, tf, "sys", c.Pick(24, 72)); err != nil {
			return err
		}
	}
	c.SetExtra("histories_with_reference_values", refStats.histories)
	c.SetExtra("reference_values_generated", refStats.values)
	c.SetExtra("edits_the_parser_rejects", refStats.unloadable)
	return nil
}

var _ = bytes.Equal
