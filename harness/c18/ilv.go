package c18

// A poll of the real FileConfig taken apart into the steps the model takes it apart into
// (stat / parse / map assignments / notify), and the layouts the configuration file is
// reached through.
//
// reload() cannot be stopped from outside, but it calls out twice: into the parser
// (FileConfig accepts one as an option) after its stat found the file changed, and into
// the observers after the map was assigned.  gateParser wraps the library's own parser:
// before it delegates and after the library's parser returned the harness lets the
// external writer edit the file, getters run and write-backs happen -- on the goroutine
// of the reload, at exactly that point of it -- and records them in the order they
// happened:
//
//	RlStat, <pre window>, RlParse m, <post window>, RlApplied, <ntf window>, RlEnd snap notes
//
// A poll whose stat found nothing new never reaches the parser and is recorded as the
// one-step event it always was (New / Reload).  Whether the reload remembered the right
// version is then seen by the polls that follow: the file has stopped changing, and what
// the getters answer must be what it holds.

import (
	"fmt"
	"math/rand"
	"os"
	"path/filepath"
	"sort"
	"strings"

	"github.com/whatap/golib/config"
	"github.com/whatap/golib/config/conffile"

	"verifharness/core"
)

// pollPlan: what happens in the three windows of one poll
type pollPlan struct{ pre, post, notify []func() }

type gateParser struct {
	inner conffile.FileParser
	w     *world
}

func (g *gateParser) Write(path string, m *map[string]string) error { return g.inner.Write(path, m) }

func (g *gateParser) Read(path string) (map[string]string, error) {
	w := g.w
	if !w.polling || w.inParse || w.applied {
		return g.inner.Read(path) // the read of a write-back
	}
	// a failure of the harness inside reload() would be swallowed by reload's own recover
	defer func() {
		if r := recover(); r != nil {
			w.fail = fmt.Sprint(r)
			panic(r)
		}
	}()
	w.inParse, w.entered = true, true
	w.t.Emit(core.Ev{"ev": "RlStat"})
	w.window("pre", w.plan.pre)
	m, err := g.inner.Read(path)
	if err != nil {
		if !w.gone {
			w.fail = "the library's parser failed: " + err.Error()
			panic(w.fail)
		}
		// the file vanished after the stat: the reload gets the parser's error
		w.t.Emit(core.Ev{"ev": "RlParseFail", "err": err.Error()})
		w.inParse, w.aborted = false, true
		return nil, err
	}
	keys := make([]string, 0, len(m))
	for k := range m {
		keys = append(keys, k)
	}
	sort.Strings(keys)
	pairs := []interface{}{}
	for _, k := range keys {
		pairs = append(pairs, []core.Bytes{core.Str(k), core.Str(m[k])})
	}
	w.t.Emit(core.Ev{"ev": "RlParse", "m": pairs})
	w.window("post", w.plan.post)
	w.t.Emit(core.Ev{"ev": "RlApplied"})
	w.inParse, w.applied = false, true
	return m, nil
}

func (w *world) window(tag string, acts []func()) {
	for _, a := range acts {
		w.sig = append(w.sig, tag)
		a()
	}
}

// poll runs f (the constructor or ReloadNowForVerif) with the plan; false = it panicked
func (w *world) poll(kind string, plan pollPlan, f func(), conf func() config.Config) bool {
	w.plan, w.polling, w.inParse, w.entered, w.applied, w.notified, w.aborted = plan, true, false, false, false, false, false
	msg := core.Guard(f)
	w.polling, w.applied = false, false
	if w.fail != "" {
		panic("c18 harness failure inside a reload: " + w.fail)
	}
	if msg != "" {
		w.t.Emit(core.Ev{"ev": "Panic", "in": kind, "msg": msg})
		return false
	}
	if w.entered {
		kind = "RlEnd"
	}
	if w.aborted {
		kind = "RlAbort"
	}
	w.t.Emit(core.Ev{"ev": kind, "snap": snapshot(conf()), "notes": w.takeNotes()})
	return true
}

// ---------------------------------------------------------------- layouts

// layouts of the in-process histories (the environment-variable ones are left to gen sys:
// the environment is process-wide)
var worldLayouts = []string{"plain", "plain", "plain", "symabs", "symrel", "symsame", "dirlink", "relhome", "symchain"}

func (w *world) useLayout(layout string) {
	must := func(err error) {
		if err != nil {
			panic(err)
		}
	}
	home, store := filepath.Join(w.dir, "home"), filepath.Join(w.dir, "store")
	real := filepath.Join(store, "real.conf")
	w.layout = layout
	if layout == "plain" {
		return
	}
	w.home, w.path = home, filepath.Join(home, "whatap.conf")
	switch layout {
	case "symabs":
		must(os.Mkdir(home, 0o755))
		must(os.Mkdir(store, 0o755))
		must(os.Symlink(real, w.path))
	case "symrel":
		must(os.Mkdir(home, 0o755))
		must(os.Mkdir(store, 0o755))
		must(os.Symlink(filepath.Join("..", "store", "real.conf"), w.path))
	case "symsame":
		must(os.Mkdir(home, 0o755))
		real = filepath.Join(home, "real.conf")
		must(os.Symlink("real.conf", w.path))
	case "symchain":
		must(os.Mkdir(home, 0o755))
		must(os.Mkdir(store, 0o755))
		must(os.Symlink("hop.conf", w.path))
		must(os.Symlink(real, filepath.Join(home, "hop.conf")))
	case "dirlink":
		must(os.Mkdir(filepath.Join(w.dir, "realhome"), 0o755))
		must(os.Symlink("realhome", home))
		real = ""
	case "relhome":
		must(os.Mkdir(home, 0o755))
		cwd, err := os.Getwd()
		must(err)
		abs, err := filepath.Abs(home)
		must(err)
		rel, err := filepath.Rel(cwd, abs)
		must(err)
		w.home, real = rel, ""
	default:
		panic("unknown layout " + layout)
	}
	if real != "" {
		must(os.WriteFile(real, nil, 0o644)) // the link never dangles
	}
}

// ---------------------------------------------------------------- gen ilv

// drawKV: the map of one write-back, drawn like gen wb draws it
func (w *world) drawKV(md wbMode, pre, suf string, excl []string) map[string]string {
	r := w.r
	kv := map[string]string{}
	used := map[string]bool{}
	n := 1 + r.Intn(2)
	for j := 0; j < n; j++ {
		var k string
		switch x := r.Intn(10); {
		case x < 5 && len(w.keyset) > 0:
			k = w.keyset[r.Intn(len(w.keyset))]
		case x < 6 && len(excl) > 0:
			k = excl[r.Intn(len(excl))]
		case x < 7 && md.exoticKeys:
			k = exoticKey(r)
		default:
			k = plainKey(r)
		}
		if used[xf(k, pre, suf)] {
			continue
		}
		used[xf(k, pre, suf)] = true
		switch x := r.Intn(10); {
		case x < 2:
			kv[k] = ""
		case md.plainVals:
			kv[k] = plainValue(r)
		default:
			kv[k], _ = anyValue(r)
		}
	}
	return kv
}

func histIlv(c *core.Ctx, t *core.Trace, gen string, cas int, md wbMode) {
	r := c.Rng(gen, cas)
	w := newWorld(c, t, r)
	defer w.done()
	w.useLayout(worldLayouts[r.Intn(len(worldLayouts))])
	w.gate = true
	w.final = r.Intn(6) != 0
	if r.Intn(2) == 0 {
		w.refs, w.refPlain = refsLoadable, md.plainVals
		w.fixEnv()
	}
	w.initialFile(1+r.Intn(4), md.exoticKeys, md.forms, md.plainVals)
	pre := []string{"", "", "", "whatap."}[r.Intn(4)]
	suf := []string{"", "", "", ".go"}[r.Intn(4)]
	var excl []string
	if r.Intn(4) == 0 {
		excl = []string{"license", plainKey(r)}
	}
	nobs := r.Intn(3)
	w.wantOb = nobs > 0 || r.Intn(2) == 0
	w.drawEnv()
	w.startGone = r.Intn(16) == 0
	inside := 0 // edits, deletions and write-backs that fell inside a reload
	// tag: the window ("pre": after the stat, "post": after the parse, "ntf": inside the notification)
	act := func(tag string) func() {
		switch x := r.Intn(14); {
		case x == 10:
			// the file is taken away: after the stat (the parser will not find it), after the parse,
			// inside the notification
			return func() {
				if w.gone {
					return
				}
				w.deleteFile()
				inside++
			}
		case x == 11:
			return func() { w.envChange() }
		case x >= 12:
			// the registry is written while the reload is under way (not from inside a callback:
			// a map written while it is iterated may or may not show the new entry)
			return func() {
				if w.ob != nil && tag != "ntf" {
					w.addObs()
				}
			}
		case x < 6:
			return func() {
				w.sig = append(w.sig, w.mutate(md.exoticKeys, md.forms, md.plainVals, false))
				w.bump(r.Intn(3) > 0)
				w.edit()
				inside++
			}
		case x < 8:
			return func() {
				if w.conf != nil { // (nobody holds the object yet while its constructor runs)
					w.someGets(1 + r.Intn(2))
				}
			}
		default:
			return func() {
				if w.conf == nil {
					return
				}
				w.sig = append(w.sig, "wb")
				w.bump(r.Intn(2) == 0)
				w.setValues(w.drawKV(md, pre, suf, excl))
				inside++
			}
		}
	}
	win := func(tag string) []func() {
		var a []func()
		if r.Intn(2) == 0 {
			return a
		}
		for n := 1 + r.Intn(2); n > 0; n-- {
			a = append(a, act(tag))
		}
		return a
	}
	plan := func() pollPlan {
		p := pollPlan{pre: win("pre"), post: win("post")}
		if w.wantOb {
			p.notify = win("ntf")
		}
		return p
	}
	w.sec, w.ms = r.Intn(5), r.Intn(1000)
	w.resetPlan(gen, cas, pre, suf, excl, nobs, plan()) // the constructor's reload is a reload
	if w.conf == nil {
		return
	}
	reload := func(p pollPlan) {
		w.sig = append(w.sig, "poll")
		w.poll("Reload", p, func() { w.conf.ReloadNowForVerif() }, func() config.Config { return w.conf })
	}
	for i, polls := 0, 2+r.Intn(4); i < polls; i++ {
		// between two polls: usually an edit (so that the next poll goes on to parse), sometimes none
		switch x := r.Intn(8); {
		case x == 0 && !w.gone:
			w.deleteFile()
		case x == 1 && w.ob != nil:
			w.addObs()
		case x < 7:
			w.sig = append(w.sig, w.mutate(md.exoticKeys, md.forms, md.plainVals, false))
			w.bump(r.Intn(3) > 0)
			w.edit()
		}
		reload(plan())
		w.someGets(r.Intn(3))
	}
	// the file stops changing: whatever fell inside the reloads above must now become visible
	if w.gone && r.Intn(2) == 0 {
		w.sig = append(w.sig, w.mutate(md.exoticKeys, md.forms, md.plainVals, false))
		w.bump(true)
		w.edit()
	}
	reload(pollPlan{})
	w.someGets(2 + r.Intn(2))
	reload(pollPlan{})
	w.someGets(1)
	c.Count(gen+":"+w.layout+":"+strings.Join(w.sig, ","), inside > 0)
	if cas < 2 {
		c.Sample(map[string]interface{}{"gen": gen, "case": cas, "layout": w.layout, "observers": nobs, "steps": w.sig,
			"final_file": string(renderFile(r, w.lines, w.forms, "\n", true))})
	}
}

var _ = rand.Int
