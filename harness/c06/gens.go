package c06

import (
	"fmt"
	"math/rand"
	"sync"
	"sync/atomic"
	"time"

	"verifharness/core"
)

// Generators (every history is one scenario = one fresh client + one collector):
//
//	gate    direct mode, sender A parked by the blocking hook inside its critical section while B (and C) call Send
//	fgate   direct mode, one sender; faults imposed at exact points through the gate: peer close / reset / listener
//	        down while the sender sits between Build and BufWrite or between BufWrite and Flush; listener down before
//	        the first dial; k refused dials before the listener returns
//	wdial   direct mode with the client's background worker running (as GetOneWayTcpClient starts it): the worker is
//	        parked inside Connect, between finding no connection and dialling, while a sender makes its first send
//	direct  1..16 concurrent senders, healthy collector, mixed sizes (some larger than the 2 MiB writer buffer)
//	fault   1..3 concurrent senders, the collector goes away before / in the header / in the middle / one byte
//	        before the end of the n-th frame of a connection (close or reset), optional listener outage between phases
//	sac     queue mode drained by the client's own SendAndClear: concurrent enqueues, several frames per flush
//	        (bufio overflow pushes in the middle of frames), cut scripts, listener outage
//	qfull   queue mode (SendAndClear), capacities 1..4: a backlog exactly at capacity, then one more send through EVERY
//	        entry point (Send, SendFlush false/true); the capacity grows, shrinks below the backlog and becomes
//	        unbounded (by field and by ApplyConfig) while packs are queued
//	worker  queue mode drained by the client's own background worker: concurrent enqueues, cut scripts
//	wout    worker mode with a listener outage: the worker is parked in its k-th refused dial while the listener returns
//	wfull   worker mode, backlog at capacity + every entry point while the drainer is busy: parked inside a send, or
//	        inside a refused dial during a listener outage; capacity changed while it is parked
//	reconf  configuration changes between sends, all three modes: default license changed (and changed back) by
//	        assignment and by ApplyConfig (which drops the connection and re-dials; the server list points away until
//	        it is assigned again), sends with and without per-send license before, between and after
//	multi   2..3 collectors (server addresses), each with its own listener and script, the client's server list a
//	        permutation of them: per phase every collector goes down (listener, and the connection the client holds
//	        there) and comes back on its own -- one at a time walking the list from its end to its start, and random
//	        subsets --, the list is re-ordered / shortened / restored by assignment, packs are handed over in every
//	        phase (direct, 1..2 senders; queue drained by SendAndClear)
//	stall   the collector STALLS at the n-th frame of a connection (before it / in its header / in the middle / one
//	        byte before its end): it stays connected but does not read, the client (write deadline shortened between
//	        sends by assignment to Timeout) hands over frames of 0.3..3 MiB until a write deadline expires in the middle
//	        of a frame; the collector resumes at once or after the client has gone on; direct mode and SendAndClear
//	idle    IDLE PERIODS before the next send, longer than the client's own timers: (worker) the queue stays empty for
//	        longer than the drainer's poll (queueMaxWaitTime, a constant 5 s: the drainer's wait times out and it goes
//	        round its loop, 1..2 times), optionally the peer goes away or the default license changes meanwhile, then a
//	        burst of packs from one producer / several producers; (direct, SendAndClear) a SHORT write deadline
//	        (Timeout by assignment, 300..500 ms) is in force on a healthy connection and the client stays idle for
//	        longer than it before frames of every size class (small, around and above the 2 MiB writer buffer,
//	        batches that overflow the writer in the middle of a frame) are handed over
//	slow    direct mode WITH the client's background worker running (as GetOneWayTcpClient starts it), a HEALTHY but SLOW
//	        collector: it stops reading in the middle of the first or second frame (small receive buffer) and stays
//	        connected; 1..3 senders hand over frames of 0.3..3 MiB, the first ones fill the socket, one sender sits in
//	        its flush (or in a write-through inside send()) and the others queue up behind the send lock; that state
//	        is held for longer than one poll of the worker (5 s, a constant; quick 6.5 s, thorough also 12 s and 31 s:
//	        2 and 6 polls) under the client's default write deadline (60 s: nothing expires); then the collector reads
//	        everything.  Whatever the worker (or anything else in the client) does ON ITS OWN to the shared writer or
//	        connection meanwhile shows as a hook event of actor W without a step of the specification, and in the
//	        collector's byte stream (a frame twice, frames mangled)
//
// Every generator hands its packs over through all public entry points (Send, SendFlush(false), SendFlush(true)) and
// with plain and decorated per-send options; direct, fault, sac and worker also change the configuration between
// their phases.

const parallel = 4

type job struct {
	gen string
	cas int
	f   func(r *rand.Rand, gen string, cas int) *scenario
}

func Run(c *core.Ctx) error {
	c.Rule = "one scenario = a fresh OneWayTcpClient against a scripted loopback collector; non-trivial if at least one pack was handed to the client; distinct by (generator, mode, senders, packs, cut script, outcome counts)"
	tg := c.Trace("c06_gate", "Trace_OneWay")
	tm := c.Trace("c06_oneway", "Trace_OneWay")
	var emit sync.Mutex

	run := func(t *core.Trace, par int, jobs []job) {
		sem := make(chan struct{}, par)
		var wg sync.WaitGroup
		for _, j := range jobs {
			if !c.Want(j.gen, j.cas) {
				continue
			}
			j := j
			wg.Add(1)
			sem <- struct{}{}
			go func() {
				defer wg.Done()
				defer func() { <-sem }()
				r := c.Rng(j.gen, j.cas)
				var sc *scenario
				if msg := core.Guard(func() { sc = j.f(r, j.gen, j.cas) }); msg != "" {
					emit.Lock()
					void(c, t, j.gen, j.cas, []string{"the scenario script panicked: " + msg})
					emit.Unlock()
					return
				}
				if sc == nil {
					emit.Lock()
					void(c, t, j.gen, j.cas, []string{"the collector could not be set up"})
					emit.Unlock()
					return
				}
				sc.finish(c, t, &emit)
				sc.account(c)
			}()
		}
		wg.Wait()
	}
	mk := func(gen string, n int, f func(r *rand.Rand, gen string, cas int) *scenario) []job {
		var js []job
		if !c.WantGen(gen) {
			return nil
		}
		for i := 0; i < n; i++ {
			js = append(js, job{gen, i, f})
		}
		return js
	}

	// the gate schedules hold the process-wide send lock while parked: one at a time, nothing else running
	run(tg, 1, mk("gate", c.Pick(8, 40), genGate))
	run(tg, 1, mk("fgate", c.Pick(14, 84), genFgate))
	run(tg, 1, mk("wdial", c.Pick(4, 12), genWdial))

	var js []job
	js = append(js, mk("slow", c.Pick(2, 6), genSlow)...) // holds a sender in its flush for 6.5..31 s: first
	js = append(js, mk("idle", c.Pick(5, 20), genIdle)...) // the worker cases idle for 6..12 s: first
	js = append(js, mk("wout", c.Pick(1, 6), genWout)...) // slow (the client sleeps 5 s after a refused dial): first
	js = append(js, mk("worker", c.Pick(4, 24), genWorker)...)
	js = append(js, mk("wfull", c.Pick(3, 9), genWfull)...)
	js = append(js, mk("reconf", c.Pick(12, 48), genReconf)...)
	js = append(js, mk("direct", c.Pick(10, 60), genDirect)...)
	js = append(js, mk("fault", c.Pick(24, 200), genFault)...)
	js = append(js, mk("sac", c.Pick(10, 80), genSac)...)
	js = append(js, mk("qfull", c.Pick(12, 24), genQfull)...)
	js = append(js, mk("multi", c.Pick(9, 60), genMulti)...)
	js = append(js, mk("stall", c.Pick(8, 48), genStall)...)
	run(tm, parallel, js)
	return nil
}

// ---------------------------------------------------------------- helpers

func (sc *scenario) account(c *core.Ctx) {
	sc.mu.Lock()
	defer sc.mu.Unlock()
	n, errs, conns := 0, 0, int(atomic.LoadInt32(&sc.connOK))
	for _, e := range sc.evs {
		switch e.ev["ev"] {
		case "Call", "Enq":
			n++
		case "Ret":
			if e.ev["err"].(bool) {
				errs++
			}
		}
	}
	key := fmt.Sprintf("%s|%s|%d|%d|%d|%v|%d", sc.gen, sc.mode, sc.nsend, n, conns, sc.cutDesc, errs)
	c.Count(key, n > 0)
	if sc.cas < 1 {
		c.Sample(map[string]interface{}{"gen": sc.gen, "case": sc.cas, "mode": sc.mode, "senders": sc.nsend, "packs": n,
			"connections": conns, "cuts": sc.cutDesc, "send_errors": errs})
	}
}

// runAll lets every sender hand over its packs in order, all senders concurrently; returns when all are done.
func (sc *scenario) runAll(packs [][]*packSpec) {
	var wg sync.WaitGroup
	for _, ps := range packs {
		if len(ps) == 0 {
			continue
		}
		wg.Add(1)
		go func(ps []*packSpec) {
			defer wg.Done()
			for _, p := range ps {
				sc.send(p)
			}
		}(ps)
	}
	wg.Wait()
}

// more makes `n` further packs for sender s (ids continue after the highest one made so far).
func (sc *scenario) more(r *rand.Rand, s, n int, sizeFn func(r *rand.Rand) int) []*packSpec {
	out := genPacksFrom(sc, r, &sc.nextID, []int{s}, n, sizeFn)
	return out[0]
}

func genPacksFrom(sc *scenario, r *rand.Rand, next *int, senders []int, per int, sizeFn func(r *rand.Rand) int) [][]*packSpec {
	out := make([][]*packSpec, len(senders))
	pcodes := []int64{0, 7, -3, 300, 70000, 1 << 24, 1234567890123, -(1 << 40), 1<<62 + 5}
	for i, s := range senders {
		for k := 0; k < per; k++ {
			*next++
			ps := &packSpec{id: *next, sender: s, pcode: pcodes[r.Intn(len(pcodes))], oid: int32(r.Uint32()), n: sizeFn(r),
				div: byte(1 + r.Intn(60)), hash: int32(r.Uint32())}
			switch r.Intn(5) {
			case 0:
				ps.lic = sc.lics[1]
			case 1:
				ps.lic = sc.lics[2]
			case 2:
				switch r.Intn(6) {
				case 0, 1:
					ps.lic = sc.deflic // an override equal to the (initial) default
				case 2:
					ps.lic = sc.lics[3] // an override equal to a license the default may change to
				}
			}
			ps.via = r.Intn(3)
			if r.Intn(3) == 0 {
				// decorated per-send options: the license in effect in every position among the others
				ps.style = 1
				sc.ndeco++
				ps.decorate(r, sc.ndeco+sc.cas)
			}
			ps.expect()
			out[i] = append(out[i], ps)
		}
	}
	return out
}

func seq(n int) []int {
	s := make([]int, n)
	for i := range s {
		s[i] = i
	}
	return s
}

func (sc *scenario) batch(r *rand.Rand, senders, per int, sizeFn func(r *rand.Rand) int) [][]*packSpec {
	if senders > sc.nsend {
		sc.nsend = senders
	}
	return genPacksFrom(sc, r, &sc.nextID, seq(senders), per, sizeFn)
}

func randCut(r *rand.Rand, maxFrame int) cutSpec {
	if maxFrame < 1 {
		maxFrame = 1
	}
	return cutSpec{Frame: r.Intn(maxFrame), Where: []string{"before", "header", "mid", "last"}[r.Intn(4)],
		Kind: []string{"closed", "reset"}[r.Intn(2)]}
}

func (sc *scenario) describeCuts(cuts map[int]cutSpec) {
	for i := 0; i < 8; i++ {
		if cs, ok := cuts[i]; ok {
			sc.cutDesc = append(sc.cutDesc, fmt.Sprintf("c%d:%d/%s/%s", i, cs.Frame, cs.Where, cs.Kind))
		}
	}
}

// parkAt arms the gate `key`, starts f in a goroutine and returns once the client is parked in the hook.
// In the queue modes f (an enqueue) returns at once and the worker parks later.
func (sc *scenario) parkAt(key string, f func()) (g *gate, done chan struct{}) {
	g = sc.addGate(key)
	done = make(chan struct{})
	go func() { defer close(done); f() }()
	ended := done
	if sc.mode != "direct" {
		ended = nil
	}
	select {
	case <-g.parked:
	case <-ended: // the send ended without reaching the gate
		sc.note("gate " + key + " was never reached")
	case <-time.After(waitMax):
		sc.note("gate " + key + " not reached in time")
	}
	return g, done
}

func isClosed(ch chan struct{}) bool {
	select {
	case <-ch:
		return true
	default:
		return false
	}
}

func (g *gate) open() { close(g.release) }

// cutCurrent makes the peer of the client's current connection go away now (the client is parked or idle).
func (sc *scenario) cutCurrent(kind string) {
	sc.quiesce()
	sc.settle()
	n := int(atomic.LoadInt32(&sc.connOK))
	if cr := sc.connRec(n - 1); cr != nil && !isDone(cr) {
		cr.cutNow(kind)
	}
}

// otherLic picks a default license different from the current one (often the initial one: changed back).
func (sc *scenario) otherLic(r *rand.Rand) string {
	c := []string{sc.lics[0], sc.lics[0], sc.lics[3], sc.lics[4], sc.lics[1]}
	for {
		if l := c[r.Intn(len(c))]; l != sc.curLic {
			return l
		}
	}
}

// reconfStep changes the default license between two phases: by assignment, or (allowApply) by ApplyConfig, after
// which the server list points away from the collector until it is assigned again; `away` (may be nil) hands packs
// over in between.
func (sc *scenario) reconfStep(r *rand.Rand, allowApply bool, away func()) {
	lic := sc.otherLic(r)
	if allowApply && r.Intn(2) == 0 {
		sc.reconf("apply", lic, 0, false)
		if away != nil && r.Intn(2) == 0 {
			away()
		}
		sc.serversBack()
		return
	}
	sc.reconf("field", lic, sc.curCap, true)
}

// overflow hands `n` packs over, one through each entry point in turn (starting with `first`).
func (sc *scenario) overflow(r *rand.Rand, n, first int) {
	for i, p := range sc.more(r, 0, n, smallSize) {
		p.via = (first + i) % 3
		sc.send(p)
	}
}

// fillTo hands packs over until the queue holds `n` of them (sequential: the drainer is not running or parked).
func (sc *scenario) fillTo(r *rand.Rand, n int) {
	for i := 0; i < 64 && sc.cl.Queue.Size() < n; i++ {
		sc.send(sc.more(r, 0, 1, smallSize)[0])
	}
}

// ---------------------------------------------------------------- gate: mutual exclusion under an imposed schedule

func genGate(r *rand.Rand, gen string, cas int) *scenario {
	sc, err := newScenario(gen, cas, r, scConf{mode: "direct"})
	if err != nil {
		return nil
	}
	others := 1 + cas%2
	where := []string{"built", "sent"}[(cas/2)%2]
	warm := (cas / 4) % 2 // 0: A's send is the first of the client (it also dials while the others wait)
	size := smallSize
	if cas%5 == 4 {
		size = mixedSize
	}
	p := sc.batch(r, 1+others, 2, size)
	if warm == 1 {
		sc.send(p[0][0])
	}
	a := p[0][1]
	g, done := sc.parkAt(fmt.Sprintf("%s:%d", where, a.id), func() { sc.send(a) })
	// A sits inside its critical section.  The others call Send now; the specification says their Lock is
	// disabled until A's Unlock.  Each is given time to get in if nothing stops it.
	var wg sync.WaitGroup
	var entered []chan struct{}
	for s := 1; s <= others; s++ {
		w := sc.addWatch(fmt.Sprintf("locked:%d", p[s][0].id))
		entered = append(entered, w)
		wg.Add(1)
		go func(ps []*packSpec) {
			defer wg.Done()
			for _, x := range ps {
				sc.send(x)
			}
		}(p[s])
	}
	deadline := time.Now().Add(250 * time.Millisecond)
	for _, w := range entered {
		select {
		case <-w:
		case <-time.After(time.Until(deadline)):
		}
	}
	g.open()
	<-done
	wg.Wait()
	return sc
}

// ---------------------------------------------------------------- wdial: the background worker dials in direct mode

// grace is how long a goroutine is given to reach a point it can only reach if nothing stops it (a blocked Lock
// looks the same as a slow machine): running out of it loses detection, never raises an alarm.
const grace = 300 * time.Millisecond

func genWdial(r *rand.Rand, gen string, cas int) *scenario {
	sc, err := newScenario(gen, cas, r, scConf{mode: "direct", worker: true, arm: "dial:1"})
	if err != nil {
		return nil
	}
	sc.nsend = 1
	size := smallSize
	if cas%4 == 3 {
		size = mediumSize
	}
	where := []string{"sent", "sent", "built"}[cas%3]
	sc.cutDesc = append(sc.cutDesc, "worker-in-dial/sender-at-"+where)
	sc.mu.Lock()
	wd := sc.gates["dial:1"]
	sc.mu.Unlock()
	// the worker has found no connection and sits in front of its dial (with the send lock, if it takes it)
	select {
	case <-wd.parked:
	case <-time.After(waitMax):
		sc.note("the worker never went to dial")
		wd.open()
		return sc
	}
	wc := sc.addWatch("wconnect")
	x := sc.more(r, 0, 1, size)[0]
	g := sc.addGate(fmt.Sprintf("%s:%d", where, x.id))
	done := make(chan struct{})
	go func() { defer close(done); sc.send(x) }()
	// the first send of the client: it dials, and parks with its frame built / in the writer -- if nothing stops it
	select {
	case <-g.parked:
	case <-time.After(grace):
	}
	wd.open() // the worker dials now
	select {
	case <-wc:
	case <-time.After(waitMax):
		sc.note("the worker never finished its dial")
	}
	g.open()
	<-done
	for i := 0; i < 2+r.Intn(3); i++ {
		sc.send(sc.more(r, 0, 1, size)[0])
	}
	return sc
}

// ---------------------------------------------------------------- fgate: faults at exact points, one sender

func genFgate(r *rand.Rand, gen string, cas int) *scenario {
	sc, err := newScenario(gen, cas, r, scConf{mode: "direct"})
	if err != nil {
		return nil
	}
	sc.nsend = 1
	variant := cas % 7
	size := smallSize
	if (cas/7)%3 == 1 {
		size = mediumSize
	} else if (cas/7)%3 == 2 {
		size = bigSize
	}
	one := func() { sc.send(sc.more(r, 0, 1, size)[0]) }
	kind := []string{"closed", "reset"}[(cas/7)%2]
	sc.cutDesc = append(sc.cutDesc, fmt.Sprintf("v%d/%s", variant, kind))
	switch variant {
	case 0, 1, 2, 3:
		// k healthy sends, then the peer goes away (and in variants 2,3 the listener too) while the sender is
		// parked between Build and BufWrite (0,2) or between BufWrite and Flush (1,3)
		for i := 0; i < 1+r.Intn(3); i++ {
			one()
		}
		x := sc.more(r, 0, 1, size)[0]
		where := []string{"built", "sent"}[variant%2]
		g, done := sc.parkAt(fmt.Sprintf("%s:%d", where, x.id), func() { sc.send(x) })
		sc.cutCurrent(kind)
		if variant >= 2 {
			sc.listenerDown()
		}
		g.open()
		<-done
		for i := 0; i < 3+r.Intn(3); i++ {
			one()
		}
		if variant >= 2 {
			sc.listenerUp()
		}
		for i := 0; i < 4; i++ {
			one()
		}
	case 4:
		// the listener is down before the first dial; k refused dials before it returns
		sc.listenerDown()
		for i := 0; i < 1+r.Intn(4); i++ {
			one()
		}
		sc.listenerUp()
		for i := 0; i < 3; i++ {
			one()
		}
	case 5:
		// the peer goes away between two sends (client idle), twice in a row
		for rep := 0; rep < 2; rep++ {
			for i := 0; i < 1+r.Intn(2); i++ {
				one()
			}
			sc.cutCurrent(kind)
			for i := 0; i < 4+r.Intn(2); i++ {
				one()
			}
		}
	case 6:
		// the listener goes down while the connection is healthy: nothing is lost; then the peer goes away,
		// the dials are refused, the listener returns
		one()
		sc.listenerDown()
		one()
		one()
		sc.cutCurrent(kind)
		for i := 0; i < 4+r.Intn(3); i++ {
			one()
		}
		sc.listenerUp()
		for i := 0; i < 3; i++ {
			one()
		}
	}
	return sc
}

// ---------------------------------------------------------------- direct: concurrent senders, healthy collector

func genDirect(r *rand.Rand, gen string, cas int) *scenario {
	sc, err := newScenario(gen, cas, r, scConf{mode: "direct", nondet: true})
	if err != nil {
		return nil
	}
	senders := []int{1, 4, 16, 2, 8}[cas%5]
	total := 24 + r.Intn(40)
	size := smallSize
	switch (cas / 5) % 3 {
	case 1:
		size = mixedSize
		total = 16 + r.Intn(16)
	case 2:
		size = mediumSize
	}
	per := (total + senders - 1) / senders
	packs := sc.batch(r, senders, per, size)
	if cas%3 != 2 {
		sc.runAll(packs)
		return sc
	}
	// two concurrent phases with a configuration change between them
	first, second := make([][]*packSpec, len(packs)), make([][]*packSpec, len(packs))
	for i, ps := range packs {
		first[i], second[i] = ps[:len(ps)/2], ps[len(ps)/2:]
	}
	sc.runAll(first)
	sc.reconfStep(r, true, func() { sc.runAll(sc.batch(r, 1, 2, smallSize)) })
	sc.runAll(second)
	return sc
}

// ---------------------------------------------------------------- fault: cut scripts under concurrent senders

func genFault(r *rand.Rand, gen string, cas int) *scenario {
	senders := 1 + cas%3
	per := 3 + r.Intn(5)
	cuts := map[int]cutSpec{0: randCut(r, senders*per)}
	if r.Intn(2) == 0 {
		cuts[1] = randCut(r, senders*per/2+1)
	}
	if r.Intn(5) == 0 {
		cuts[2] = randCut(r, 3)
	}
	sc, err := newScenario(gen, cas, r, scConf{mode: "direct", cuts: cuts, nondet: true})
	if err != nil {
		return nil
	}
	sc.describeCuts(cuts)
	size := smallSize
	switch r.Intn(4) {
	case 0:
		size = mixedSize
	case 1:
		size = bigSize
	case 2:
		size = mediumSize
	}
	sc.runAll(sc.batch(r, senders, per, size))
	if r.Intn(5) < 2 {
		// listener outage between phases (no send in flight while it changes)
		sc.listenerDown()
		sc.runAll(sc.batch(r, senders, 2+r.Intn(3), smallSize))
		sc.listenerUp()
	}
	sc.runAll(sc.batch(r, senders, 2+r.Intn(4), size))
	if r.Intn(3) == 0 {
		sc.reconfStep(r, true, func() { sc.runAll(sc.batch(r, 1, 2, smallSize)) })
	}
	sc.runAll(sc.batch(r, 1, 5, smallSize))
	return sc
}

// ---------------------------------------------------------------- sac: queue drained by SendAndClear

func genSac(r *rand.Rand, gen string, cas int) *scenario {
	cuts := map[int]cutSpec{}
	senders := []int{1, 3, 2, 4}[cas%4]
	if cas%3 != 0 {
		cuts[0] = randCut(r, 8)
		if r.Intn(2) == 0 {
			cuts[1] = randCut(r, 6)
		}
	}
	qcap := []int{1000, 0, -1}[r.Intn(3)] // <= 0: unbounded
	sc, err := newScenario(gen, cas, r, scConf{mode: "sac", qcap: qcap, cuts: cuts, nondet: senders > 1})
	if err != nil {
		return nil
	}
	sc.describeCuts(cuts)
	size := mediumSize // several frames per flush overflow the 2 MiB writer in the middle of a frame
	if cas%5 == 1 {
		size = smallSize
	} else if cas%5 == 3 {
		size = sacMixed
	}
	rounds := 2 + r.Intn(3)
	outage := -1
	if r.Intn(4) == 0 {
		outage = r.Intn(rounds)
	}
	cfgRound := -1
	if r.Intn(3) == 0 {
		cfgRound = r.Intn(rounds)
	}
	for k := 0; k < rounds; k++ {
		sc.runAll(sc.batch(r, senders, 1+r.Intn(4), size))
		if k == outage {
			sc.listenerDown()
			sc.drainN(3)
			sc.listenerUp()
		}
		if k == cfgRound {
			// the configuration changes while packs are queued: their frames are built afterwards
			sc.reconfStep(r, true, func() { sc.drainN(2) })
		}
		sc.drainN(4)
	}
	sc.drainAll()
	sc.runAll(sc.batch(r, 1, 3, smallSize))
	sc.drainAll()
	return sc
}

func sacMixed(r *rand.Rand) int {
	switch x := r.Intn(10); {
	case x < 2:
		return 2<<20 + r.Intn(1<<20)
	case x < 4:
		return []int{2097152 - 22 - 24, 2097152 - 22 - 23, 2097152 - 22 - 22, 2097152}[r.Intn(4)]
	case x < 6:
		return 1<<20 + r.Intn(900<<10)
	}
	return 60 + r.Intn(3000)
}

func bigSize(r *rand.Rand) int {
	if r.Intn(3) == 0 {
		return 2<<20 + r.Intn(1<<20)
	}
	if r.Intn(2) == 0 {
		return 300<<10 + r.Intn(1<<20)
	}
	return 60 + r.Intn(2000)
}

// drainN calls the client's SendAndClear at most n times while packs are queued.
func (sc *scenario) drainN(n int) {
	for i := 0; i < n && sc.cl.Queue.Size() > 0; i++ {
		if msg := core.Guard(func() { sc.cl.SendAndClear() }); msg != "" {
			sc.point(core.Ev{"ev": "Panic", "s": "W", "msg": msg})
			return
		}
	}
}

// drainAll empties the queue (the listener is up: every call sends something or gets rid of a dead connection).
func (sc *scenario) drainAll() {
	sc.drainN(1000)
	if sc.cl.Queue.Size() > 0 {
		sc.note("the queue could not be drained")
	}
}

// ---------------------------------------------------------------- qfull: bounded queue, sequential

func genQfull(r *rand.Rand, gen string, cas int) *scenario {
	qcap := 1 + cas%4
	sc, err := newScenario(gen, cas, r, scConf{mode: "sac", qcap: qcap})
	if err != nil {
		return nil
	}
	sc.nsend = 1
	sc.cutDesc = append(sc.cutDesc, fmt.Sprintf("qcap=%d/v%d", qcap, (cas/4)%3))
	// a backlog exactly at capacity, then one more pack through every entry point
	sc.fillTo(r, qcap)
	sc.overflow(r, 3, cas)
	switch (cas / 4) % 3 {
	case 0:
		// drained and filled again
		sc.drainAll()
		sc.fillTo(r, qcap)
		sc.overflow(r, 2+r.Intn(2), cas+1)
	case 1:
		// the capacity grows while the backlog is there (by assignment / by ApplyConfig), then shrinks below it
		grow := qcap + 1 + r.Intn(2)
		if cas%2 == 0 {
			sc.reconf("field", sc.curLic, grow, true)
		} else {
			sc.reconf("apply", sc.curLic, grow, false)
			sc.serversBack()
		}
		sc.fillTo(r, grow)
		sc.overflow(r, 3, cas+2)
		sc.reconf("field", sc.curLic, qcap, true)
		sc.overflow(r, 3, cas)
		sc.drainAll()
		sc.fillTo(r, qcap)
		sc.overflow(r, 2, cas+1)
	case 2:
		// unbounded (capacity <= 0) and bounded again below the backlog
		sc.reconf("field", sc.curLic, []int{0, -1}[cas%2], true)
		sc.overflow(r, 3+r.Intn(3), cas)
		sc.reconf("field", sc.otherLic(r), qcap, true)
		sc.overflow(r, 3, cas+1)
		sc.drainAll()
		sc.overflow(r, qcap+2, cas+2)
	}
	sc.drainAll()
	return sc
}

// ---------------------------------------------------------------- worker: queue drained by the client's own goroutine

// workerIdle: the worker is done with everything accepted so far and holds a connection.
func (sc *scenario) workerIdle() bool {
	sc.mu.Lock()
	acc := 0
	for _, e := range sc.evs {
		if e.ev["ev"] == "Enq" && e.ev["ok"].(bool) {
			acc++
		}
	}
	sc.mu.Unlock()
	return int(atomic.LoadInt32(&sc.processed)) >= acc && atomic.LoadInt32(&sc.connected) == 1
}

// waitWorker waits until the worker is done with everything accepted so far and holds a connection again.
func (sc *scenario) waitWorker() {
	if err := waitUntil(waitMax, sc.workerIdle); err != nil {
		sc.note("the worker did not finish its queue")
	}
}

func genWorker(r *rand.Rand, gen string, cas int) *scenario {
	cuts := map[int]cutSpec{}
	if cas%4 != 0 {
		cuts[0] = randCut(r, 10)
		if r.Intn(2) == 0 {
			cuts[1] = randCut(r, 6)
		}
	}
	senders := []int{1, 4, 2, 8}[cas%4]
	sc, err := newScenario(gen, cas, r, scConf{mode: "worker", qcap: 1000, cuts: cuts, nondet: true})
	if err != nil {
		return nil
	}
	sc.describeCuts(cuts)
	size := smallSize
	if cas%3 == 1 {
		size = mediumSize
	} else if cas%3 == 2 {
		size = bigSize
	}
	sc.runAll(sc.batch(r, senders, 2+r.Intn(5), size))
	sc.waitWorker()
	if r.Intn(2) == 0 && len(sc.notes) == 0 {
		sc.reconfStep(r, false, nil) // the worker is idle and holds a connection
	}
	sc.runAll(sc.batch(r, senders, 1+r.Intn(4), size))
	sc.waitWorker()
	sc.runAll(sc.batch(r, 1, 4, smallSize))
	sc.waitWorker()
	return sc
}

// wout: the peer and the listener go away while the worker is parked inside a send; the worker's dials are refused
// k times; it is parked inside the k-th refusal while the listener returns.
func genWout(r *rand.Rand, gen string, cas int) *scenario {
	sc, err := newScenario(gen, cas, r, scConf{mode: "worker", qcap: 1000, nondet: true})
	if err != nil {
		return nil
	}
	sc.nsend = 2
	k := 1 + cas%2
	kind := []string{"closed", "reset"}[cas%2]
	sc.cutDesc = append(sc.cutDesc, fmt.Sprintf("outage/%s/refused=%d", kind, k))
	sc.runAll(sc.batch(r, 2, 2, smallSize))
	sc.waitWorker()
	x := sc.more(r, 0, 1, smallSize)[0]
	back := sc.addGate(fmt.Sprintf("dialfail:%d", k))
	g, done := sc.parkAt(fmt.Sprintf("built:%d", x.id), func() { sc.send(x) })
	<-done // the enqueue returned; the worker is parked with the pack
	sc.cutCurrent(kind)
	sc.listenerDown()
	g.open()
	sc.runAll(sc.batch(r, 2, 3, smallSize)) // accepted by the queue; sent into the dead connection or dropped with it
	for i := 0; ; i++ {
		err := waitUntil(waitMax, func() bool { return isClosed(back.parked) || sc.workerIdle() })
		if isClosed(back.parked) {
			break
		}
		if err != nil || i >= 20 {
			sc.note("the worker never got its refused dial")
			break
		}
		// the kernel swallowed everything so far and the client still believes in its connection: one more pack
		sc.send(sc.more(r, 0, 1, smallSize)[0])
	}
	sc.listenerUp()
	back.open()
	sc.waitWorker()
	sc.runAll(sc.batch(r, 2, 2, smallSize))
	sc.waitWorker()
	return sc
}

// wfull: bounded queue; the drainer is busy (parked inside a send, or inside a refused dial during a listener outage)
// while the backlog reaches the capacity and one more pack comes in through every entry point.
func genWfull(r *rand.Rand, gen string, cas int) *scenario {
	qcap := 1 + r.Intn(3)
	variant := cas % 3
	sc, err := newScenario(gen, cas, r, scConf{mode: "worker", qcap: qcap, nondet: variant == 2})
	if err != nil {
		return nil
	}
	sc.nsend = 1
	sc.cutDesc = append(sc.cutDesc, fmt.Sprintf("qcap=%d/v%d", qcap, variant))
	sc.waitWorker()
	x := sc.more(r, 0, 1, smallSize)[0]
	if variant < 2 {
		g, done := sc.parkAt(fmt.Sprintf("built:%d", x.id), func() { sc.send(x) })
		<-done
		sc.fillTo(r, qcap)
		sc.overflow(r, 3, cas)
		if variant == 1 {
			// the capacity grows while the worker is parked (it reads neither capacity nor license there)
			sc.reconf("field", sc.otherLic(r), qcap+1, true)
			sc.fillTo(r, qcap+1)
			sc.overflow(r, 3, cas+1)
		}
		g.open()
		sc.waitWorker()
		sc.runAll(sc.batch(r, 1, 2, smallSize))
		sc.waitWorker()
		return sc
	}
	// outage: the peer and the listener go away while the worker is parked inside a send; its next dial is refused
	// and it is parked inside that refusal while the backlog builds up
	sc.send(sc.more(r, 0, 1, smallSize)[0])
	sc.waitWorker()
	kind := []string{"closed", "reset"}[(cas/3)%2]
	back := sc.addGate("dialfail:1")
	g, done := sc.parkAt(fmt.Sprintf("built:%d", x.id), func() { sc.send(x) })
	<-done
	sc.cutCurrent(kind)
	sc.listenerDown()
	g.open()
	for i := 0; ; i++ {
		err := waitUntil(waitMax, func() bool { return isClosed(back.parked) || sc.workerIdle() })
		if isClosed(back.parked) {
			break
		}
		if err != nil || i >= 20 {
			sc.note("the worker never got its refused dial")
			break
		}
		sc.send(sc.more(r, 0, 1, smallSize)[0]) // the kernel swallowed everything so far: one more pack
	}
	if len(sc.notes) == 0 {
		sc.fillTo(r, qcap)
		sc.overflow(r, 3, cas)
	}
	sc.listenerUp()
	back.open()
	sc.waitWorker()
	sc.runAll(sc.batch(r, 1, 2, smallSize))
	sc.waitWorker()
	return sc
}

// ---------------------------------------------------------------- reconf: configuration changes between sends

func genReconf(r *rand.Rand, gen string, cas int) *scenario {
	mode := []string{"direct", "sac", "worker"}[cas%3]
	variant := (cas / 3) % 4
	senders := []int{1, 2, 3}[(cas/3+cas/12)%3]
	sc, err := newScenario(gen, cas, r, scConf{mode: mode, qcap: 1000, nondet: senders > 1 || mode == "worker"})
	if err != nil {
		return nil
	}
	sc.nsend = senders
	sc.cutDesc = append(sc.cutDesc, fmt.Sprintf("v%d", variant))
	settle := func() {
		switch mode {
		case "sac":
			sc.drainAll()
		case "worker":
			sc.waitWorker()
		}
	}
	phase := func(per int) {
		sc.runAll(sc.batch(r, senders, per, smallSize))
		settle()
	}
	// packs handed over while the server list points away: refused dials (direct: errors; queue: dropped)
	away := func() {
		sc.runAll(sc.batch(r, 1, 1+r.Intn(2), smallSize))
		if mode == "sac" {
			sc.drainN(4)
		}
	}
	apply := mode != "worker" // the worker's own dials must not meet a half-changed configuration
	if mode == "worker" {
		sc.waitWorker()
	}
	phase(2 + r.Intn(2))
	if len(sc.notes) > 0 {
		return sc
	}
	switch variant {
	case 0:
		// the default license by assignment: there, back, and to a license that sends also use as their override
		sc.reconf("field", sc.lics[3], sc.curCap, true)
		phase(2 + r.Intn(2))
		sc.reconf("field", sc.lics[0], sc.curCap, true)
		phase(2)
		sc.reconf("field", sc.lics[1], sc.curCap, true)
		phase(2)
	case 1:
		// a reloaded configuration with a new license: the connection is dropped, the dial goes nowhere until the
		// server list is assigned again; then the same back to the first license
		if apply {
			sc.reconf("apply", sc.lics[4], 0, false)
			away()
			sc.serversBack()
		} else {
			sc.reconf("field", sc.lics[4], sc.curCap, true)
		}
		phase(3)
		if apply {
			sc.reconf("apply", sc.lics[0], 0, false)
			sc.serversBack()
		} else {
			sc.reconf("field", sc.lics[0], sc.curCap, true)
		}
		phase(2)
	case 2:
		// only the server list changes (re-dial, same license); then the license; then the server list is assigned
		// away while the connection stays (nothing dials: everything is still delivered)
		if apply {
			sc.reconf("apply", sc.curLic, 0, false)
			sc.serversBack()
			phase(2)
		}
		sc.reconf("field", sc.lics[3], sc.curCap, true)
		phase(2)
		if apply {
			sc.reconf("apply", sc.lics[3], 0, false) // the license it already has
			sc.serversBack()
			phase(2)
			sc.reconf("field", sc.curLic, sc.curCap, false)
			phase(2)
			sc.serversBack()
		}
		sc.reconf("field", sc.otherLic(r), sc.curCap, true)
		phase(2)
	case 3:
		// the license changes while sends are pending: queued packs are built afterwards (queue modes); a listener
		// outage around the change (direct)
		switch mode {
		case "sac":
			sc.runAll(sc.batch(r, senders, 2, smallSize))
			sc.reconf("field", sc.lics[3], sc.curCap, true)
			sc.runAll(sc.batch(r, senders, 1, smallSize))
			sc.drainAll()
			sc.runAll(sc.batch(r, senders, 2, smallSize))
			sc.reconf("apply", sc.lics[4], 0, false)
			sc.serversBack()
			sc.drainAll()
		case "worker":
			x := sc.more(r, 0, 1, smallSize)[0]
			g, done := sc.parkAt(fmt.Sprintf("built:%d", x.id), func() { sc.send(x) })
			<-done
			sc.runAll(sc.batch(r, senders, 2, smallSize))
			sc.reconf("field", sc.lics[3], sc.curCap, true) // the worker is parked: it reads the license after its release
			g.open()
			sc.waitWorker()
		default:
			sc.listenerDown()
			sc.reconf("field", sc.lics[3], sc.curCap, true)
			phase(1 + r.Intn(2))
			sc.reconf("apply", sc.lics[4], 0, false)
			sc.listenerUp()
			away()
			sc.serversBack()
		}
		phase(3)
	}
	phase(2)
	return sc
}

// ---------------------------------------------------------------- multi: several collectors, each down and up on its own

func genMulti(r *rand.Rand, gen string, cas int) *scenario {
	ncol := 2 + cas%2
	mode := []string{"direct", "direct", "sac"}[(cas/2)%3]
	srv := r.Perm(ncol) // the client's server list, in its order of preference
	cols := make([]colConf, ncol)
	if r.Intn(3) == 0 {
		cols[r.Intn(ncol)].cuts = map[int]cutSpec{0: randCut(r, 4)}
	}
	senders := 1
	if cas%5 == 4 {
		senders = 2
	}
	sc, err := newScenario(gen, cas, r, scConf{mode: mode, qcap: 1000, cols: cols, srv: srv, nondet: senders > 1})
	if err != nil {
		return nil
	}
	sc.nsend = senders
	for i := range cols {
		sc.describeCutsAt(i, cols[i].cuts)
	}
	size := smallSize
	if cas%4 == 3 {
		size = mediumSize
	}
	hand := func(per int) {
		sc.runAll(sc.batch(r, senders, per, size))
		if mode == "sac" {
			sc.drainN(4)
		}
	}
	up := make([]bool, ncol)
	for i := range up {
		up[i] = true
	}
	cur := append([]int(nil), srv...) // the server list now
	phases := 5 + r.Intn(4)
	desc := ""
	for ph := 0; ph < phases; ph++ {
		want := make([]bool, ncol)
		if cas%3 == 0 && ph <= ncol {
			// one collector at a time, walking the server list from its end to its start (and round again)
			want[srv[(2*ncol-1-ph)%ncol]] = true
		} else {
			for i := range want {
				want[i] = r.Intn(20) < 11
			}
		}
		// the collectors that go away first (listener; the connection the client holds there mostly goes with it),
		// then the ones that come back: no dial is in progress, every sender has returned
		for i := 0; i < ncol; i++ {
			if up[i] && !want[i] {
				if at, ok := sc.connectedAt(); ok && at == i && r.Intn(4) != 0 {
					sc.cutCurrent([]string{"closed", "reset"}[r.Intn(2)])
				}
				sc.listenerDownAt(i)
				up[i] = false
			}
		}
		for i := 0; i < ncol; i++ {
			if !up[i] && want[i] {
				sc.listenerUpAt(i)
				up[i] = true
			}
		}
		d := ""
		for i := range up {
			if up[i] {
				d += sc.cols[i].name
			}
		}
		desc += d + "/"
		// now and then the server list changes by assignment: another order, one server less, the first list again;
		// or a reloaded configuration (ApplyConfig: the list points nowhere until it is assigned again)
		switch r.Intn(8) {
		case 0:
			cur = permuted(r, cur)
			sc.reconfSrv("field", sc.curLic, sc.curCap, cur)
		case 1:
			if len(cur) > 1 {
				k := r.Intn(len(cur))
				cur = append(append([]int(nil), cur[:k]...), cur[k+1:]...)
			} else {
				cur = append([]int(nil), srv...)
			}
			sc.reconfSrv("field", sc.curLic, sc.curCap, cur)
		case 2:
			if mode != "worker" {
				sc.reconf("apply", sc.otherLic(r), 0, false)
				if r.Intn(2) == 0 {
					hand(1)
				}
				cur = append([]int(nil), srv...)
				sc.serversBack()
			}
		}
		hand(2 + r.Intn(3))
	}
	sc.cutDesc = append(sc.cutDesc, fmt.Sprintf("%d collectors/up:%s", ncol, desc))
	// at the end every collector is back and the whole list is configured
	for i := 0; i < ncol; i++ {
		if !up[i] {
			sc.listenerUpAt(i)
		}
	}
	if len(cur) != len(srv) {
		sc.reconfSrv("field", sc.curLic, sc.curCap, srv)
	}
	hand(4)
	if mode == "sac" {
		sc.drainAll()
	}
	return sc
}

func permuted(r *rand.Rand, a []int) []int {
	out := make([]int, len(a))
	for i, j := range r.Perm(len(a)) {
		out[i] = a[j]
	}
	return out
}

// connectedAt: the collector of the connection the client holds (hook view), if it holds one.
func (sc *scenario) connectedAt() (int, bool) {
	sc.mu.Lock()
	defer sc.mu.Unlock()
	if atomic.LoadInt32(&sc.connected) != 1 || len(sc.connAt) == 0 {
		return 0, false
	}
	return sc.connAt[len(sc.connAt)-1], true
}

func (sc *scenario) describeCutsAt(ci int, cuts map[int]cutSpec) {
	for i := 0; i < 8; i++ {
		if cs, ok := cuts[i]; ok {
			sc.cutDesc = append(sc.cutDesc, fmt.Sprintf("%s.c%d:%d/%s/%s", sc.cols[ci].name, i, cs.Frame, cs.Where, cs.Kind))
		}
	}
}

// ---------------------------------------------------------------- stall: the collector stops reading, the write deadline expires

// The client's write deadline (its exported Timeout, also its dial timeout) is shortened by assignment only for the
// sends that go into the stalled connection (a connection exists: none of them dials) and restored before any other:
// a deadline that expires although the collector is reading (machine load) is reported by the client as what it is
// (tmo) and is a stall to the specification; it can only cost detection.
const stallDeadline = 120 * time.Millisecond
const calmDeadline = 10 * time.Second

func heavySize(style int) func(r *rand.Rand) int {
	return func(r *rand.Rand) int {
		switch {
		case style == 0 || (style == 2 && r.Intn(2) == 0):
			return 300<<10 + r.Intn(1600<<10) // fits the 2 MiB writer: goes out with the flush
		default:
			return 2<<20 + r.Intn(1<<20) // larger than the writer: written through inside send()
		}
	}
}

func genStall(r *rand.Rand, gen string, cas int) *scenario {
	mode := []string{"direct", "direct", "sac"}[cas%3]
	where := []string{"mid", "before", "last", "header"}[(cas/3)%4]
	n0 := 1 + r.Intn(3) // healthy small frames first (the connection exists before the deadline is shortened)
	st := newStall(r.Intn(n0+2), where)
	onConn := 0
	if cas%4 == 3 {
		onConn = 1 // the stall hits the client's second connection
	}
	late := (cas/2)%2 == 1 // the collector resumes only after the client has gone on
	style := (cas / 3) % 3
	sc, err := newScenario(gen, cas, r, scConf{mode: mode, qcap: 1000,
		cols: []colConf{{stalls: map[int]*stallSpec{onConn: st}}}})
	if err != nil {
		return nil
	}
	defer st.release()
	sc.nsend = 1
	sc.cutDesc = append(sc.cutDesc, fmt.Sprintf("stall c%d:%d/%s/style%d/late=%v", onConn, st.Frame, where, style, late))
	// hand packs over one after the other; reports whether the client reported an error
	hand := func(n int, size func(r *rand.Rand) int) bool {
		failed := false
		for _, p := range sc.more(r, 0, n, size) {
			if sc.send(p) {
				failed = true
			}
		}
		if mode == "sac" {
			failed = sc.sacOnce()
		}
		return failed
	}
	hand(n0, smallSize)
	if onConn == 1 {
		sc.cutCurrent([]string{"closed", "reset"}[r.Intn(2)])
		for i := 0; i < 6 && int(atomic.LoadInt32(&sc.connOK)) < 2; i++ {
			hand(1, smallSize)
		}
		hand(n0, smallSize)
	}
	if int(atomic.LoadInt32(&sc.connOK)) == onConn+1 && atomic.LoadInt32(&sc.connected) == 1 {
		sc.cl.Timeout = stallDeadline
		total, failed := 0, false
		for i := 0; i < 12 && total < 14<<20 && !failed; i++ {
			k := 1
			if mode == "sac" {
				k = 1 + r.Intn(3)
			}
			ps := sc.more(r, 0, k, heavySize(style))
			for _, p := range ps {
				total += p.plen
				if sc.send(p) {
					failed = true
				}
			}
			if mode == "sac" {
				failed = sc.sacOnce()
			}
		}
		sc.cl.Timeout = calmDeadline
	}
	if !late {
		st.release()
	}
	hand(2+r.Intn(2), smallSize)
	hand(1, smallSize)
	st.release()
	if mode == "sac" {
		sc.drainAll()
	}
	if cas%5 == 4 && mode == "direct" {
		sc.nondet = true
		sc.runAll(sc.batch(r, 2, 2, smallSize))
	}
	hand(3, smallSize)
	if mode == "sac" {
		sc.drainAll()
	}
	return sc
}

// sacOnce calls the client's SendAndClear once; reports whether it returned an error.
func (sc *scenario) sacOnce() bool {
	var err error
	if msg := core.Guard(func() { err = sc.cl.SendAndClear() }); msg != "" {
		sc.point(core.Ev{"ev": "Panic", "s": "W", "msg": msg})
		return true
	}
	return err != nil
}

// ---------------------------------------------------------------- idle: idle periods longer than the client's timers

// drainerPoll is how long the client's drainer waits for a pack before it goes round its loop (queueMaxWaitTime; a
// constant of the client, not configurable).  An idle period is a plain wait of the scenario, not an ordering: if it
// turns out too short (timer slop) the drainer's wait simply has not timed out -- detection is lost, nothing else.
const drainerPoll = 5000 * time.Millisecond

// waitWorkerSeq waits until the worker has flushed the pack `last` (the last one a sequential producer handed over
// and the queue accepted) and holds a connection.  The drainer is a FIFO's single consumer: when it is done with the
// last accepted pack it has nothing left, whatever happened to the packs before it -- a pack that was accepted and
// never came out of the queue does not make this wait run into its bound, it is judged by the specification.
func (sc *scenario) waitWorkerSeq(last *packSpec) {
	if err := waitUntil(waitMax, func() bool {
		return int(atomic.LoadInt32(&sc.flushedID)) == last.id && atomic.LoadInt32(&sc.connected) == 1 && sc.cl.Queue.Size() == 0
	}); err != nil {
		sc.note("the worker did not get to the last pack handed over")
	}
}

func genIdle(r *rand.Rand, gen string, cas int) *scenario {
	switch cas % 5 {
	case 0, 3:
		return genIdleWorker(r, gen, cas)
	}
	return genIdleDeadline(r, gen, cas)
}

// worker: the queue stays empty for longer than the drainer's poll, then packs come again.
func genIdleWorker(r *rand.Rand, gen string, cas int) *scenario {
	variant := (cas / 5) % 4 // 0: plain; 1: the peer goes away while idle; 2: two idle periods; 3: default license changed while idle
	conc := cas%5 == 3 && (cas/5)%2 == 1
	sc, err := newScenario(gen, cas, r, scConf{mode: "worker", qcap: 1000, nondet: true})
	if err != nil {
		return nil
	}
	sc.nsend = 1
	sc.cutDesc = append(sc.cutDesc, fmt.Sprintf("worker/v%d/conc=%v", variant, conc))
	// sequential producer: every entry point, plain and decorated options; returns the last accepted pack
	seqBurst := func(n int, size func(r *rand.Rand) int) *packSpec {
		var last *packSpec
		for _, p := range sc.more(r, 0, n, size) {
			if !sc.send(p) {
				last = p
			}
		}
		return last
	}
	sc.waitWorker()
	if last := seqBurst(2+r.Intn(3), smallSize); last != nil {
		sc.waitWorkerSeq(last)
	}
	periods := 1
	if variant == 2 {
		periods = 2
	}
	for k := 0; k < periods && len(sc.notes) == 0; k++ {
		// idle: nothing is handed over for longer than the drainer waits for a pack
		time.Sleep(drainerPoll + time.Duration(600+r.Intn(600))*time.Millisecond)
		switch variant {
		case 1:
			sc.cutCurrent([]string{"closed", "reset"}[r.Intn(2)])
		case 3:
			sc.reconfStep(r, false, nil)
		}
		if conc && k == periods-1 {
			// several producers at once, then one producer again (its last pack ends the wait)
			sc.nsend = 3
			sc.runAll(sc.batch(r, 3, 2+r.Intn(3), smallSize))
		}
		size := smallSize
		if (cas/5)%3 == 2 {
			size = mediumSize
		}
		if last := seqBurst(6+r.Intn(7), size); last != nil {
			sc.waitWorkerSeq(last)
		}
	}
	if len(sc.notes) == 0 {
		if last := seqBurst(3, smallSize); last != nil {
			sc.waitWorkerSeq(last)
		}
	}
	return sc
}

// direct / SendAndClear: a short write deadline is in force on a healthy connection; the client stays idle for longer
// than that deadline before the next frames.  The deadline is shortened by assignment to Timeout only while a
// connection exists (no dial happens under it: Timeout is the dial timeout too) and is set back to calmDeadline as soon
// as the client reports an error -- under machine load a short deadline may really expire (the specification takes that
// as a stall of the peer: it can only cost detection).
func genIdleDeadline(r *rand.Rand, gen string, cas int) *scenario {
	mode := "direct"
	if cas%5 == 2 {
		mode = "sac"
	}
	style := (cas / 5) % 4 // 0: above the writer buffer; 1: every size class; 2: around the buffer size; 3: medium (batches overflow)
	short := time.Duration(300+100*((cas/5)%3)) * time.Millisecond
	sc, err := newScenario(gen, cas, r, scConf{mode: mode, qcap: 1000})
	if err != nil {
		return nil
	}
	sc.nsend = 1
	sc.cutDesc = append(sc.cutDesc, fmt.Sprintf("deadline %v/style%d", short, style))
	size := func(r *rand.Rand) int {
		switch style {
		case 0:
			return 2<<20 + r.Intn(1<<20)
		case 1:
			return mixedSize(r)
		case 2:
			return []int{2097152 - 22 - 24, 2097152 - 22 - 23, 2097152 - 22 - 22, 2097152, 2097152 + 1, 60}[r.Intn(6)]
		}
		return 500<<10 + r.Intn(900<<10)
	}
	calm := true
	// hand n packs over (sac: in one batch, drained by one SendAndClear); on an error the calm deadline comes back
	hand := func(n int, sz func(r *rand.Rand) int) {
		failed := false
		for _, p := range sc.more(r, 0, n, sz) {
			if sc.send(p) && mode == "direct" {
				failed = true
			}
		}
		if mode == "sac" {
			failed = sc.sacOnce()
		}
		if failed || atomic.LoadInt32(&sc.connected) != 1 {
			sc.cl.Timeout = calmDeadline
			calm = true
		}
	}
	sc.cl.Timeout = calmDeadline
	hand(1+r.Intn(3), smallSize) // the dial, under the calm deadline
	rounds := 2 + r.Intn(2)
	for k := 0; k < rounds; k++ {
		if atomic.LoadInt32(&sc.connected) == 1 {
			sc.cl.Timeout = short
			calm = false
		}
		if k > 0 || r.Intn(2) == 0 {
			hand(1, smallSize) // a flush under the short deadline, then the idle period
		}
		if !calm {
			time.Sleep(short + short/2 + time.Duration(r.Intn(150))*time.Millisecond)
		}
		n := 1
		if mode == "sac" {
			n = 2 + r.Intn(3)
		}
		hand(n, size)
		if r.Intn(2) == 0 {
			hand(1+r.Intn(2), smallSize)
		}
	}
	sc.cl.Timeout = calmDeadline
	hand(3, smallSize)
	if mode == "sac" {
		sc.drainAll()
	}
	return sc
}

// ---------------------------------------------------------------- slow: a healthy, slow collector and the idle worker

// slowHolds: how long (seconds) the collector does not read, by case: longer than 1, 2 and 6 polls of the worker.
var slowHolds = []float64{6.5, 6.5, 12, 12, 31, 6.5}

// genSlow: see the list of generators.  The hold is a plain wait of the scenario, not an ordering: if the machine is so
// loaded that the senders are not yet held up when it ends, or the worker's poll does not fall into it, the history
// is an ordinary healthy one (detection lost).  The write deadline stays the client's default of 60 s, far longer than
// any hold: no deadline expires, the connection is healthy all the time.
func genSlow(r *rand.Rand, gen string, cas int) *scenario {
	hold := time.Duration(slowHolds[cas%len(slowHolds)] * float64(time.Second))
	st := newStall(r.Intn(2), "mid")
	sc, err := newScenario(gen, cas, r, scConf{mode: "direct", worker: true, nondet: true,
		cols: []colConf{{stalls: map[int]*stallSpec{0: st}, rcvbuf: 64 << 10}}})
	if err != nil {
		return nil
	}
	defer st.release()
	senders := []int{3, 1, 2}[cas%3]
	per := []int{4, 9, 5}[cas%3]
	size := heavySize(0) // every frame goes through the writer's buffer: the sender is held up in its flush
	if cas%4 >= 2 {
		size = heavySize(2) // some frames larger than the writer: held up in a write-through inside send()
	}
	sc.cutDesc = append(sc.cutDesc, fmt.Sprintf("slow f%d/hold=%v", st.Frame, hold))
	packs := sc.batch(r, senders, per, size)
	done := make(chan struct{})
	go func() { defer close(done); sc.runAll(packs) }()
	// the first frames fill the socket within milliseconds; then one sender waits in its flush, the others for the lock
	select {
	case <-done:
	case <-time.After(hold):
	}
	st.release()
	select {
	case <-done:
	case <-time.After(waitMax):
		sc.note("the senders did not finish after the collector went on reading")
		return sc
	}
	// the connection is as good as new: what follows arrives behind everything else
	sc.runAll(sc.batch(r, senders, 1, smallSize))
	return sc
}
