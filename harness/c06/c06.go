// Package c06 drives the real net/oneway.OneWayTcpClient against a scripted
// loopback collector and records, for Trace_OneWay.tla to judge, what the
// client did at each linearization point (verif hooks), what every Send
// returned, and what the collector received on every connection.
package c06

import (
	"crypto/sha256"
	"encoding/binary"
	"errors"
	"fmt"
	"hash"
	"hash/crc32"
	"math/rand"
	"net"
	"runtime"
	"sort"
	"strings"
	"sync"
	"sync/atomic"
	"time"

	"github.com/whatap/golib/config"
	wio "github.com/whatap/golib/io"
	"github.com/whatap/golib/lang/pack"
	wnet "github.com/whatap/golib/net"
	"github.com/whatap/golib/net/oneway"

	"verifharness/core"
)

func init() { core.Register("c06", Run) }

// ONE atomic counter orders every event of every scenario (call, return, hooks, environment).
var seqCtr int64

func tick() int { return int(atomic.AddInt64(&seqCtr, 1)) }

// ---------------------------------------------------------------- reference encoders (standard library only)

// hash64 is the license hash of the frame header: a CRC-32 (IEEE, reflected) table walk over a 64-bit
// register, the 32-bit table entry sign-extended.
func hash64(b []byte) int64 {
	crc := ^uint64(0)
	for _, x := range b {
		crc = crc>>8 ^ uint64(int32(crc32.IEEETable[byte(crc)^x]))
	}
	return int64(^crc)
}

func decimal(v int64) []byte {
	switch {
	case v == 0:
		return []byte{0}
	case -128 <= v && v <= 127:
		return []byte{1, byte(v)}
	case -32768 <= v && v <= 32767:
		return []byte{2, byte(v >> 8), byte(v)}
	case -8388608 <= v && v <= 8388607:
		return []byte{3, byte(v >> 16), byte(v >> 8), byte(v)}
	case -2147483648 <= v && v <= 2147483647:
		return []byte{4, byte(v >> 24), byte(v >> 16), byte(v >> 8), byte(v)}
	case -549755813888 <= v && v <= 549755813887:
		return []byte{5, byte(v >> 32), byte(v >> 24), byte(v >> 16), byte(v >> 8), byte(v)}
	}
	b := make([]byte, 9)
	b[0] = 8
	binary.BigEndian.PutUint64(b[1:], uint64(v))
	return b
}

type packSpec struct {
	id     int
	sender int
	pcode  int64
	oid    int32
	lic    string // "" = client default
	via    int    // entry point: 0 Send, 1 SendFlush(flush=false), 2 SendFlush(flush=true)
	style  int    // 0: plain (WithLicense alone, or no option); > 0: decorated, see decorate()
	opts   []optItem // the per-send options in the order they are passed (nil with style 0: derived from lic)
	share  bool   // the option OBJECTS are the scenario's shared ones (the same objects go into several sends)
	n      int    // text length
	div    byte
	hash   int32
	plen   int
	dg     []byte
}

func textBytes(id, n int) []byte {
	b := make([]byte, n)
	for i := range b {
		b[i] = byte(33 + (i*131+id*7+(i>>8))%90) // printable: survives any string handling
	}
	return b
}

func (ps *packSpec) build() *pack.TextPack {
	p := pack.NewTextPack()
	p.Pcode = ps.pcode
	p.Oid = ps.oid
	p.Time = int64(ps.id)
	p.AddText(pack.TextRec{Div: ps.div, Hash: ps.hash, Text: string(textBytes(ps.id, ps.n))})
	return p
}

// expect computes length and digest of the payload the collector must receive for this pack:
// short pack type, decimal pcode, int oid, long time, decimal record count, byte div, int hash, blob text.
func (ps *packSpec) expect() {
	var h hash.Hash = sha256.New()
	n := 0
	w := func(b []byte) { h.Write(b); n += len(b) }
	w([]byte{0x07, 0x00})
	w(decimal(ps.pcode))
	w(core.W4(uint32(ps.oid)))
	w(core.W8(int64(ps.id)))
	w(decimal(1))
	w([]byte{ps.div})
	w(core.W4(uint32(ps.hash)))
	switch {
	case ps.n == 0:
		w([]byte{0})
	case ps.n <= 253:
		w([]byte{byte(ps.n)})
	case ps.n <= 65535:
		w([]byte{255, byte(ps.n >> 8), byte(ps.n)})
	default:
		w([]byte{254, byte(ps.n >> 24), byte(ps.n >> 16), byte(ps.n >> 8), byte(ps.n)})
	}
	w(textBytes(ps.id, ps.n))
	ps.plen = n
	ps.dg = h.Sum(nil)[:8]
}

func (ps *packSpec) fields(e core.Ev) core.Ev {
	lic := ps.lic
	if lic == "" {
		lic = "-"
	}
	e["id"] = ps.id
	e["pcode"] = core.W8(ps.pcode)
	e["lic"] = lic
	e["via"] = viaNames[ps.via%3]
	// the per-send options as they are passed: the license arguments in their order ("-" = empty) for the
	// specification to derive the license in effect from, and the whole list for the reader
	ol, od := []string{}, []string{}
	for _, o := range ps.options() {
		if o.kind == "lic" {
			if o.lic == "" {
				ol = append(ol, "-")
			} else {
				ol = append(ol, o.lic)
			}
		}
		od = append(od, o.String())
	}
	e["olics"] = ol
	e["opts"] = od
	e["ptype"] = 0x0700
	e["plen"] = ps.plen
	e["dg"] = core.Bytes(ps.dg)
	return e
}

var viaNames = []string{"Send", "SendFlush/false", "SendFlush/true"}

// optItem is one per-send option: WithLicense(lic) | WithPriority(b) | WithSecureFlag(f).
type optItem struct {
	kind string // "lic" | "pri" | "sec"
	lic  string
	b    bool
	f    byte
}

func (o optItem) String() string {
	switch o.kind {
	case "lic":
		return "lic:" + o.lic
	case "pri":
		return fmt.Sprintf("pri:%v", o.b)
	}
	return fmt.Sprintf("sec:%d", o.f)
}

func (o optItem) make() wnet.TcpClientOption {
	switch o.kind {
	case "lic":
		return wnet.WithLicense(o.lic)
	case "pri":
		return wnet.WithPriority(o.b)
	}
	return wnet.WithSecureFlag(o.f)
}

// options: the option list of this send (style 0: the license override alone, if there is one).
func (ps *packSpec) options() []optItem {
	if ps.opts != nil {
		return ps.opts
	}
	if ps.lic != "" {
		return []optItem{{kind: "lic", lic: ps.lic}}
	}
	return nil
}

// decorate gives the send a decorated option list whose license in effect is still ps.lic: the license options in
// their order (earlier ones that the last one overrides; an explicit empty license = no override) merged in EVERY relative order with options that do not concern the frame (priority,
// secure flag; values false/0 too, the same kind twice).  `k` enumerates the merge orders systematically.
func (ps *packSpec) decorate(r *rand.Rand, k int) {
	var lics []optItem
	switch {
	case ps.lic != "" && k%4 == 3:
		lics = []optItem{{kind: "lic", lic: "overridden-" + ps.lic}, {kind: "lic", lic: ps.lic}}
	case ps.lic != "" && k%8 == 5:
		lics = []optItem{{kind: "lic", lic: ""}, {kind: "lic", lic: "overridden-" + ps.lic}, {kind: "lic", lic: ps.lic}}
	case ps.lic != "":
		lics = []optItem{{kind: "lic", lic: ps.lic}}
	case k%2 == 1:
		lics = []optItem{{kind: "lic", lic: ""}}
	}
	pool := []optItem{{kind: "pri", b: true}, {kind: "sec", f: 1}, {kind: "pri", b: false}, {kind: "sec", f: 0},
		{kind: "sec", f: 0x80}, {kind: "pri", b: true}}
	var others []optItem
	switch (k / 2) % 4 {
	case 0:
		others = []optItem{pool[k%2]}
	case 1:
		others = []optItem{pool[0], pool[1]}
	case 2:
		others = []optItem{pool[1+k%2], pool[(k/8)%len(pool)]}
	default:
		for i, n := 0, 1+r.Intn(3); i < n; i++ {
			others = append(others, pool[r.Intn(len(pool))])
		}
	}
	// merge: slot[i] = how many of the other options come before the i-th license option; the LAST license option
	// takes every place from first to last in turn (k), the earlier ones anywhere before it
	out := []optItem{}
	if len(lics) == 0 {
		out = append(out, others...)
	} else {
		last := (k / 3) % (len(others) + 1)
		if k%3 == 0 {
			last = 0 // the license in effect FIRST, everything else after it
		} else if k%3 == 1 {
			last = len(others)
		}
		slot := make([]int, len(lics))
		slot[len(lics)-1] = last
		for i := len(lics) - 2; i >= 0; i-- {
			slot[i] = r.Intn(slot[i+1] + 1)
		}
		used := 0
		for i, l := range lics {
			for used < slot[i] {
				out = append(out, others[used])
				used++
			}
			out = append(out, l)
		}
		out = append(out, others[used:]...)
	}
	ps.opts = out
	ps.share = k%5 == 2
}

// ---------------------------------------------------------------- scenario

type evRec struct {
	key float64
	ev  core.Ev
}

type gate struct {
	parked  chan struct{}
	release chan struct{}
	once    sync.Once
}

type scenario struct {
	gen    string
	cas    int
	mode   string // "direct" | "sac" (queue drained by SendAndClear) | "worker" (queue drained by process())
	qcap   int
	deflic string
	lics   []string
	cl     *oneway.OneWayTcpClient
	col    *collector   // the first collector ("A"): the only one in most generators
	cols   []*collector // all collectors of the scenario ("A", "B", "C"), each with its own port, listener and script
	srv0   []int        // the collectors the client is configured with at the start, in list order
	packs  map[*pack.TextPack]*packSpec
	nondet bool
	worker bool    // direct mode with the client's background worker running (as GetOneWayTcpClient starts it)
	curLic string  // the client's default license now (harness bookkeeping)
	curCap int     // the capacity of the client's queue now (harness bookkeeping)
	cfg    *cfgWin // not nil while the harness is changing the configuration (no send in progress)
	ncfg   int     // configuration changes made (statistics)

	mu       sync.Mutex
	evs      []evRec
	holder   string
	finished bool
	gates    map[string]*gate // "built:<id>"
	watch    map[string]chan struct{}

	connOK    int32 // successful dials
	connAt    []int   // collector of every successful dial, in dial order (under mu)
	nAt       []int32 // atomic: successful dials per collector
	connected int32 // 1 while the client holds a connection (hook view)
	dialFails int   // failed dials so far
	dials     int   // Connect calls that found no connection so far
	curID     int   // pack of the send in progress (last Built)
	lastLen   int
	accum     int64
	bytesOK   int64 // bytes the client was told were flushed on the current connection
	processed int32 // packs the worker is done with (flushed events)
	notes     []string

	optObj    map[string]wnet.TcpClientOption // shared option objects (under mu)
	builtAt   time.Time // when the send in progress began (last Built hook; under mu)
	flushedID int32     // atomic: pack of the last Flushed hook
	ndeco     int       // decorated option lists made so far (enumerates the merge orders)
	nearly    int       // expired deadlines reported sooner than Timeout after the send began (statistics)

	nsend   int      // sender goroutines used (statistics)
	nextID  int      // last pack id handed out
	cutDesc []string // the fault script, for the statistics
}

// defaultQueueSize is the documented default of the client's queue (netQueueSize).
const defaultQueueSize = 1000

// waitMax bounds every wait FOR a state (never an ordering); reaching it is a harness problem, reported as such.
const waitMax = 90 * time.Second

var registry sync.Map // *oneway.OneWayTcpClient -> *scenario
var hookOnce sync.Once

func installHook() {
	hookOnce.Do(func() {
		oneway.VerifHook = func(name string, c *oneway.OneWayTcpClient, args ...interface{}) {
			if v, ok := registry.Load(c); ok {
				v.(*scenario).hook(name, args...)
			}
		}
	})
}

func sname(i int) string { return fmt.Sprintf("g%d", i) }

func (sc *scenario) add(t0, t1 int, ev core.Ev) {
	ev["t"] = []int{t0, t1}
	sc.evs = append(sc.evs, evRec{float64(t0), ev})
}

func (sc *scenario) point(ev core.Ev) {
	sc.mu.Lock()
	t := tick()
	sc.add(t, t, ev)
	sc.mu.Unlock()
}

func (sc *scenario) actor() string {
	if sc.mode == "direct" {
		return sc.holder
	}
	return "W"
}

// hookActor (caller holds mu): who emitted a sent / flushed / close hook.  In direct mode with the background worker
// running, a hook called from process() is the WORKER touching the shared writer / connection on its own (it has no
// pack to send in direct mode: the specification has no step for that while the writer is healthy).
func (sc *scenario) hookActor() (a string, workerOnItsOwn bool) {
	if sc.mode == "direct" && sc.worker && fromWorker() {
		return "W", true
	}
	return sc.actor(), false
}

func (sc *scenario) specOf(p pack.Pack) *packSpec {
	if tp, ok := p.(*pack.TextPack); ok {
		return sc.packs[tp]
	}
	return nil
}

// fromWorker reports whether the hook was called from the client's background worker (process()).
func fromWorker() bool {
	var pcs [24]uintptr
	n := runtime.Callers(3, pcs[:])
	fr := runtime.CallersFrames(pcs[:n])
	for {
		f, more := fr.Next()
		if strings.HasSuffix(f.Function, "(*OneWayTcpClient).process") {
			return true
		}
		if !more {
			return false
		}
	}
}

// hook is called by the client at its linearization points (under the send lock in direct mode).
func (sc *scenario) hook(name string, args ...interface{}) {
	sc.mu.Lock()
	if sc.finished {
		sc.mu.Unlock()
		return
	}
	if sc.cfg != nil && (name == "close" || name == "dial" || name == "connect") {
		// ApplyConfig drops the connection and dials on the harness' own goroutine, between sends: what it did
		// is collected into the Config event
		switch name {
		case "close":
			sc.cfg.closed = true
			atomic.StoreInt32(&sc.connected, 0)
		case "dial":
			sc.dials++
		case "connect":
			if args[1].(bool) {
				sc.cfg.dial = "ok"
				sc.dialedTo(args[0].(string))
				atomic.AddInt32(&sc.connOK, 1)
				atomic.StoreInt32(&sc.connected, 1)
				atomic.StoreInt64(&sc.bytesOK, 0)
				sc.accum = 0
			} else {
				sc.cfg.dial = "fail"
				sc.dialFails++
			}
		}
		sc.mu.Unlock()
		return
	}
	t := tick()
	var g *gate
	var w chan struct{}
	switch name {
	case "locked":
		ps := sc.specOf(args[0].(pack.Pack))
		sc.holder = sname(ps.sender)
		sc.add(t, t, core.Ev{"ev": "Locked", "s": sc.holder, "id": ps.id})
		w = sc.watch[fmt.Sprintf("locked:%d", ps.id)]
		delete(sc.watch, fmt.Sprintf("locked:%d", ps.id))
	case "unlock":
		ps := sc.specOf(args[0].(pack.Pack))
		sc.add(t, t, core.Ev{"ev": "Unlock", "s": sname(ps.sender), "id": ps.id})
	case "dial":
		// no event: the state has not changed yet; a gate here holds a dialler between its test and its assignment
		sc.dials++
		g = sc.gates[fmt.Sprintf("dial:%d", sc.dials)]
	case "built":
		ps := sc.specOf(args[0].(*wnet.TcpSend).Pack)
		flen := len(args[1].(*wio.DataOutputX).ToByteArray())
		sc.lastLen = flen
		a := sc.actor()
		if sc.mode == "direct" {
			a = sname(ps.sender)
		}
		sc.curID = ps.id
		sc.builtAt = time.Now()
		sc.add(t, t, core.Ev{"ev": "Built", "a": a, "id": ps.id, "flen": flen})
		g = sc.gates[fmt.Sprintf("built:%d", ps.id)]
	case "connect":
		ok := args[1].(bool)
		addr := ""
		if ok {
			addr = sc.dialedTo(args[0].(string))
			atomic.AddInt32(&sc.connOK, 1)
			atomic.StoreInt32(&sc.connected, 1)
			atomic.StoreInt64(&sc.bytesOK, 0)
			sc.accum = 0
		} else {
			sc.dialFails++
			g = sc.gates[fmt.Sprintf("dialfail:%d", sc.dialFails)]
		}
		a := sc.actor()
		if sc.mode == "direct" && sc.worker && fromWorker() {
			a = "W"
			w = sc.watch["wconnect"]
			delete(sc.watch, "wconnect")
		}
		ce := core.Ev{"ev": "Connect", "a": a, "ok": ok}
		if ok {
			ce["addr"] = addr // the collector that answered
		}
		sc.add(t, t, ce)
	case "sent":
		err := args[0] != nil
		a, own := sc.hookActor()
		if own {
			// not the send in progress: the sender's byte bookkeeping is left alone
		} else if !err {
			sc.accum += int64(sc.lastLen)
			sc.lastLen = 0 // a frame counts once, whatever the client does after it
		} else {
			sc.accum = 0
			// the drainer will close and re-dial: it is not idle again before that dial has returned
			atomic.StoreInt32(&sc.connected, 0)
		}
		tmo := err && isTimeout(args[0])
		sc.add(t, t, core.Ev{"ev": "Sent", "a": a, "err": err, "tmo": tmo, "early": tmo && !own && sc.early()})
		if !own {
			g = sc.gates[fmt.Sprintf("sent:%d", sc.curID)]
		}
	case "flushed":
		err := args[1] != nil
		a, own := sc.hookActor()
		if own {
			// the worker flushed the shared writer on its own (direct mode)
		} else if !err {
			atomic.AddInt64(&sc.bytesOK, sc.accum)
			sc.accum = 0
		} else {
			if sc.mode == "worker" {
				atomic.StoreInt32(&sc.connected, 0) // as above: the worker closes after a failed flush
			}
			sc.accum = 0
		}
		tmo := err && isTimeout(args[1])
		sc.add(t, t, core.Ev{"ev": "Flushed", "a": a, "err": err, "tmo": tmo, "early": tmo && !own && sc.early()})
		if !own {
			atomic.StoreInt32(&sc.flushedID, int32(sc.curID))
			atomic.AddInt32(&sc.processed, 1)
		}
	case "close":
		a, _ := sc.hookActor()
		atomic.StoreInt32(&sc.connected, 0)
		sc.add(t, t, core.Ev{"ev": "Close", "a": a})
	case "dequeued":
		ps := sc.specOf(args[0].(*wnet.TcpSend).Pack)
		sc.add(t, t, core.Ev{"ev": "Deq", "id": ps.id})
	}
	sc.mu.Unlock()
	if w != nil {
		close(w)
	}
	if g != nil {
		g.once.Do(func() { close(g.parked) })
		<-g.release
	}
}

// send performs one Send of the real client from sender goroutine `s`; reports whether the call returned an error
// (queue modes: the pack was refused).
func (sc *scenario) send(ps *packSpec) bool {
	p := ps.build()
	sc.mu.Lock()
	sc.packs[p] = ps
	sc.mu.Unlock()
	var opts []wnet.TcpClientOption
	for _, o := range ps.options() {
		if ps.share {
			opts = append(opts, sc.sharedOpt(o))
		} else {
			opts = append(opts, o.make())
		}
	}
	// every public way of handing a pack to the client
	call := func() error {
		switch ps.via % 3 {
		case 1:
			return sc.cl.SendFlush(p, false, opts...)
		case 2:
			return sc.cl.SendFlush(p, true, opts...)
		}
		return sc.cl.Send(p, opts...)
	}
	if sc.mode == "direct" {
		sc.point(ps.fields(core.Ev{"ev": "Call", "s": sname(ps.sender)}))
		var err error
		if msg := core.Guard(func() { err = call() }); msg != "" {
			sc.point(core.Ev{"ev": "Panic", "s": sname(ps.sender), "id": ps.id, "msg": msg})
			return true
		}
		sc.point(core.Ev{"ev": "Ret", "s": sname(ps.sender), "id": ps.id, "err": err != nil})
		return err != nil
	}
	t0 := tick()
	var err error
	if msg := core.Guard(func() { err = call() }); msg != "" {
		sc.point(core.Ev{"ev": "Panic", "s": sname(ps.sender), "id": ps.id, "msg": msg})
		return true
	}
	t1 := tick()
	sc.mu.Lock()
	sc.add(t0, t1, ps.fields(core.Ev{"ev": "Enq", "s": sname(ps.sender), "ok": err == nil}))
	sc.mu.Unlock()
	return err != nil
}

// drain empties the queue with the client's own SendAndClear (mode "sac").
func (sc *scenario) drain() {
	for i := 0; i < 10000 && sc.cl.Queue.Size() > 0; i++ {
		if msg := core.Guard(func() { sc.cl.SendAndClear() }); msg != "" {
			sc.point(core.Ev{"ev": "Panic", "s": "W", "msg": msg})
			return
		}
	}
}

// settle waits until the collector has read what the client was told it flushed on the
// current connection, or that connection has gone away.
func (sc *scenario) settle() {
	n := int(atomic.LoadInt32(&sc.connOK))
	if n == 0 {
		return
	}
	err := waitUntil(waitMax, func() bool {
		cr := sc.connRec(n - 1)
		if cr == nil {
			return false
		}
		return isDone(cr) || atomic.LoadInt64(&cr.read) >= atomic.LoadInt64(&sc.bytesOK)
	})
	if err != nil {
		sc.note("settle: the collector did not read what was flushed")
	}
}

// quiesce waits until every connection the client established has been accepted.
func (sc *scenario) quiesce() {
	if err := waitUntil(waitMax, func() bool {
		for i, co := range sc.cols {
			if atomic.LoadInt32(&co.accepted) < atomic.LoadInt32(&sc.nAt[i]) {
				return false
			}
		}
		return true
	}); err != nil {
		sc.note("quiesce: an established connection was never accepted")
	}
}

func (sc *scenario) listenerDown() { sc.listenerDownAt(0) }
func (sc *scenario) listenerUp()   { sc.listenerUpAt(0) }

// listenerDownAt / listenerUpAt: the listener of collector i goes away / returns (no dial in progress).
func (sc *scenario) listenerDownAt(i int) {
	sc.quiesce()
	sc.cols[i].down()
	sc.point(core.Ev{"ev": "ListenerDown", "addr": sc.cols[i].name})
}

func (sc *scenario) listenerUpAt(i int) {
	if err := sc.cols[i].up(); err != nil {
		sc.note("listen: " + err.Error())
		return
	}
	sc.point(core.Ev{"ev": "ListenerUp", "addr": sc.cols[i].name})
}

// colOf maps a host string of the client's server list to the collector that owns it (-1: nobody's).
func (sc *scenario) colOf(host string) int {
	for i, co := range sc.cols {
		if co.addr() == host {
			return i
		}
	}
	return -1
}

// dialedTo books a successful dial (caller holds mu) and returns the name of the collector that answered.
func (sc *scenario) dialedTo(host string) string {
	i := sc.colOf(host)
	if i < 0 {
		sc.notes = append(sc.notes, "the client is connected to "+host+", which is not a collector of this scenario")
		return "?"
	}
	sc.connAt = append(sc.connAt, i)
	atomic.AddInt32(&sc.nAt[i], 1)
	return sc.cols[i].name
}

// connRec is the collector's record of the k-th connection the client established (nil: not accepted yet).
func (sc *scenario) connRec(k int) *connRec {
	sc.mu.Lock()
	if k < 0 || k >= len(sc.connAt) {
		sc.mu.Unlock()
		return nil
	}
	ci, j := sc.connAt[k], 0
	for _, x := range sc.connAt[:k] {
		if x == ci {
			j++
		}
	}
	sc.mu.Unlock()
	return sc.cols[ci].conn(j)
}

// srvNames is the client's server list as collector names (a host that is nobody's collector: "?").
func (sc *scenario) srvNames() []string {
	out := []string{}
	for _, h := range sc.cl.Servers {
		if i := sc.colOf(h); i >= 0 {
			out = append(out, sc.cols[i].name)
		} else {
			out = append(out, "?")
		}
	}
	return out
}

func (sc *scenario) hosts(idx []int) []string {
	out := []string{}
	for _, i := range idx {
		out = append(out, sc.cols[i].addr())
	}
	return out
}

// isTimeout: the error (as the client got it, or wrapped into its message) is an expired deadline.
func isTimeout(e interface{}) bool {
	err, ok := e.(error)
	if !ok || err == nil {
		return false
	}
	var ne net.Error
	if errors.As(err, &ne) {
		return ne.Timeout()
	}
	return strings.Contains(err.Error(), "i/o timeout")
}

// early (caller holds mu): the expired write deadline the client just reported came sooner than the client's Timeout
// after the send in progress began (Built hook, which precedes every SetWriteDeadline of that send and of the flush
// that follows it).  A deadline of now+Timeout set during this send cannot expire that soon, however loaded the
// machine is (load only makes the elapsed time longer): the peer did not stall, the client's own deadline
// bookkeeping is wrong.  1/20 of slack for clock granularity.
func (sc *scenario) early() bool {
	d := sc.cl.Timeout
	e := !sc.builtAt.IsZero() && d > 0 && time.Since(sc.builtAt) < d-d/20
	if e {
		sc.nearly++
	}
	return e
}

// sharedOpt: one option OBJECT per distinct option of the scenario, handed to every send that asks for it (option
// values are plain arguments: a caller may build them once and pass them to many sends, from many goroutines).
func (sc *scenario) sharedOpt(o optItem) wnet.TcpClientOption {
	sc.mu.Lock()
	defer sc.mu.Unlock()
	if sc.optObj == nil {
		sc.optObj = map[string]wnet.TcpClientOption{}
	}
	v, ok := sc.optObj[o.String()]
	if !ok {
		v = o.make()
		sc.optObj[o.String()] = v
	}
	return v
}

func (sc *scenario) note(s string) {
	sc.mu.Lock()
	sc.notes = append(sc.notes, s)
	sc.mu.Unlock()
}

func (sc *scenario) addGate(key string) *gate {
	g := &gate{parked: make(chan struct{}), release: make(chan struct{})}
	sc.mu.Lock()
	sc.gates[key] = g
	sc.mu.Unlock()
	return g
}

func (sc *scenario) addWatch(key string) chan struct{} {
	w := make(chan struct{})
	sc.mu.Lock()
	sc.watch[key] = w
	sc.mu.Unlock()
	return w
}

// ---------------------------------------------------------------- configuration changes between sends

type cfgWin struct {
	closed bool
	dial   string // "none" | "ok" | "fail"
}

// mapConf is a config.Config over a map (what a reloaded configuration file gives to ApplyConfig).
type mapConf struct{ m map[string]string }

func (c *mapConf) ApplyDefault()       {}
func (c *mapConf) GetConfFile() string { return "" }
func (c *mapConf) Destroy()            {}
func (c *mapConf) GetKeys() []string {
	var ks []string
	for k := range c.m {
		ks = append(ks, k)
	}
	sort.Strings(ks)
	return ks
}
func (c *mapConf) GetValue(key string) string { return c.m[key] }
func (c *mapConf) GetValueDef(key, def string) string {
	if v, ok := c.m[key]; ok {
		return v
	}
	return def
}
func (c *mapConf) GetBoolean(key string, def bool) bool { return def }
func (c *mapConf) GetInt(key string, def int) int32 {
	if v, ok := c.m[key]; ok {
		n := 0
		fmt.Sscanf(v, "%d", &n)
		return int32(n)
	}
	return int32(def)
}
func (c *mapConf) GetIntSet(key, def, deli string) []int32 { return nil }
func (c *mapConf) GetLong(key string, def int64) int64 {
	if v, ok := c.m[key]; ok {
		var n int64
		fmt.Sscanf(v, "%d", &n)
		return n
	}
	return def
}
func (c *mapConf) GetStringArray(key string, def string, deli string) []string { return nil }
func (c *mapConf) GetStringHashSet(key, def, deli string) []int32              { return nil }
func (c *mapConf) GetStringHashCodeSet(key, def, deli string) []int32          { return nil }
func (c *mapConf) GetFloat(key string, def float32) float32                    { return def }
func (c *mapConf) SetValues(v *map[string]string)                              {}
func (c *mapConf) ToString() string                                            { return "" }
func (c *mapConf) String() string                                              { return "" }

var _ config.Config = (*mapConf)(nil)

// reconf changes the client's configuration BETWEEN sends (the caller has joined its senders; in the queue modes the
// drainer is idle): via "field" assigns the exported fields (License, Servers, the queue's capacity), via "apply"
// hands a reloaded configuration to ApplyConfig.  ApplyConfig always re-resolves the server list from host and port
// (to the standard port, whatever the configuration says); the host given here resolves to an empty list, so the
// client is pointed away from the collector without dialling anybody else, until `here` is restored by assignment.
// qreq: the capacity asked for (apply: <= 0 leaves it alone).
func (sc *scenario) reconf(via, lic string, qreq int, here bool) {
	if here {
		sc.reconfSrv(via, lic, qreq, sc.srv0)
	} else {
		sc.reconfSrv(via, lic, qreq, []int{})
	}
}

// reconfSrv: as reconf, with the server list given as collector indices in list order (via "field": assigned if it
// differs from the client's; via "apply": ApplyConfig resolves its own list, see reconf).
func (sc *scenario) reconfSrv(via, lic string, qreq int, srvIdx []int) {
	w := &cfgWin{dial: "none"}
	sc.mu.Lock()
	sc.cfg = w
	sc.mu.Unlock()
	msg := core.Guard(func() {
		switch via {
		case "field":
			// only what changes is assigned (in worker mode the drainer is idle and holds a connection: it reads
			// License for the next pack only, and Servers not at all)
			if sc.cl.License != lic {
				sc.cl.License = lic
			}
			if sc.cl.Queue.GetCapacity() != qreq {
				sc.cl.Queue.SetCapacity(qreq)
			}
			if want := sc.hosts(srvIdx); fmt.Sprint(want) != fmt.Sprint(sc.cl.Servers) {
				sc.cl.Servers = want
			}
		case "apply":
			sc.cl.ApplyConfig(&mapConf{map[string]string{"license": lic, "whatap.server.host": "/",
				"whatap.server.port": fmt.Sprint(sc.col.port), "oneway_queue_size": fmt.Sprint(qreq)}})
		}
	})
	sc.mu.Lock()
	sc.cfg = nil
	sc.mu.Unlock()
	if msg != "" {
		sc.point(core.Ev{"ev": "Panic", "s": "C", "msg": msg})
		return
	}
	srv := sc.srvNames()
	sc.curLic = sc.cl.License
	sc.curCap = sc.cl.Queue.GetCapacity()
	sc.ncfg++
	sc.cutDesc = append(sc.cutDesc, "cfg:"+via)
	sc.point(core.Ev{"ev": "Config", "via": via, "lic": lic, "qreq": qreq, "srv": srv,
		"obs_lic": sc.curLic, "obs_qcap": sc.curCap, "closed": w.closed, "dial": w.dial})
}

// serversBack points the client at the collector again (assignment to the exported field).
func (sc *scenario) serversBack() { sc.reconf("field", sc.curLic, sc.curCap, true) }

type colConf struct {
	cuts   map[int]cutSpec
	stalls map[int]*stallSpec
	rcvbuf int
}

type scConf struct {
	mode   string
	qcap   int
	cols   []colConf // nil: one collector with `cuts`
	srv    []int     // the client's server list (collector indices); nil: all collectors in order
	cuts   map[int]cutSpec
	nondet bool
	worker bool   // direct mode: start the background worker too
	arm    string // gate armed before the worker is started
}

func newScenario(gen string, cas int, r *rand.Rand, cf scConf) (*scenario, error) {
	installHook()
	ccs := cf.cols
	if ccs == nil {
		ccs = []colConf{{cuts: cf.cuts}}
	}
	sc := &scenario{gen: gen, cas: cas, mode: cf.mode, qcap: cf.qcap, nondet: cf.nondet, worker: cf.worker,
		packs: map[*pack.TextPack]*packSpec{}, gates: map[string]*gate{}, watch: map[string]chan struct{}{}}
	sc.nAt = make([]int32, len(ccs))
	for i, cc := range ccs {
		col, err := newCollector(cc.cuts)
		if err == nil {
			col.name = string(rune('A' + i))
			col.stalls = cc.stalls
			col.rcvbuf = cc.rcvbuf
			i := i
			col.dialed = func(k int) bool { return int(atomic.LoadInt32(&sc.nAt[i])) > k }
			sc.cols = append(sc.cols, col)
			err = col.up()
		}
		if err != nil {
			for _, c := range sc.cols {
				c.release()
			}
			return nil, err
		}
	}
	sc.col = sc.cols[0]
	sc.srv0 = cf.srv
	if sc.srv0 == nil {
		sc.srv0 = seq(len(sc.cols))
	}
	sfx := fmt.Sprintf("%04x", r.Intn(1<<16))
	sc.deflic = "x41f2-lic-default-" + sfx
	sc.lics = []string{sc.deflic, "x9a-lic-B-" + sfx, "lic-C-" + sfx + "-한", "x41f2-lic-D-" + sfx, "lic-E-" + sfx}
	sc.curLic = sc.deflic
	opts := []oneway.OneWayTcpClientOption{oneway.WithServers(sc.hosts(sc.srv0)), oneway.WithLicense(sc.deflic),
		oneway.WithPcode(int64(1000 + r.Intn(1000)))}
	if cf.mode != "direct" {
		opts = append(opts, oneway.WithUseQueue(), oneway.WithQueueSize(int32(cf.qcap)))
	} else {
		sc.qcap = defaultQueueSize // the queue exists in direct mode too (unused), with the client's default size
	}
	sc.curCap = sc.qcap
	// the client must be registered before its worker can emit an event: build it unstarted first
	if cf.arm != "" {
		sc.gates[cf.arm] = &gate{parked: make(chan struct{}), release: make(chan struct{})}
	}
	if cf.mode == "worker" || cf.worker {
		// process() dials at once; register through a temporary hook-less window is not possible,
		// so create unstarted, register, then start the worker ourselves through the same entry point
		sc.cl = oneway.NewOneWayTcpClientForVerif(false, opts...)
		registry.Store(sc.cl, sc)
		startWorker(sc.cl)
	} else {
		sc.cl = oneway.NewOneWayTcpClientForVerif(false, opts...)
		registry.Store(sc.cl, sc)
	}
	return sc, nil
}

func mixedSize(r *rand.Rand) int {
	switch x := r.Intn(100); {
	case x < 3:
		return 2<<20 + r.Intn(1<<20) // larger than the 2 MiB writer buffer
	case x < 5:
		return []int{2097152 - 22 - 24, 2097152 - 22 - 23, 2097152 - 22 - 22, 2097152}[r.Intn(4)] // around the buffer size
	case x < 12:
		return 64<<10 + r.Intn(1<<20)
	case x < 30:
		return []int{0, 1, 253, 254, 65535, 65536}[r.Intn(6)]
	default:
		return 60 + r.Intn(4000)
	}
}

func smallSize(r *rand.Rand) int { return 60 + r.Intn(600) }

func mediumSize(r *rand.Rand) int {
	if r.Intn(4) == 0 {
		return 200<<10 + r.Intn(700<<10)
	}
	return 60 + r.Intn(3000)
}

// finish ends the scenario, collects the collector's record and writes the history.
func (sc *scenario) finish(c *core.Ctx, t *core.Trace, emit *sync.Mutex) {
	// every connection the client established must have been picked up by the collector's accept loop before the
	// listener is closed (a connection still in the accept queue is destroyed with the listener and leaves no record)
	sc.quiesce()
	if sc.mode == "worker" || sc.worker {
		sc.cl.Destroy() // cancels the worker; it may sit in its poll for a few seconds more, touching nothing
		sc.mu.Lock()
		sc.finished = true
		sc.mu.Unlock()
		// a healthy last connection is ended from the collector's side once it has read
		// everything the client was told it flushed
		sc.settle()
		for _, cr := range sc.allConns() {
			if !isDone(cr) {
				cr.finish()
			}
		}
	} else {
		sc.mu.Lock()
		sc.finished = true
		sc.mu.Unlock()
		sc.cl.Close()
	}
	for _, co := range sc.cols {
		co.down()
		co.resumeAll() // a collector that is still stalled reads on (to the end of the stream) now
	}
	timedOut := false
	for _, cr := range sc.allConns() {
		select {
		case <-cr.done:
		case <-time.After(waitMax / 3):
			timedOut = true
		}
	}
	for _, co := range sc.cols {
		co.release()
	}
	registry.Delete(sc.cl)

	// the collectors' records in the order of the client's successful dials (the k-th dial that collector X answered
	// is the k-th connection X accepted: the client dials one server at a time); a connection a collector accepted
	// without a successful dial of the client comes last and has no explanation
	conns := []core.Ev{}
	if !timedOut {
		used := make([]int, len(sc.cols))
		for _, ci := range sc.connAt {
			if cr := sc.cols[ci].conn(used[ci]); cr != nil {
				conns = append(conns, cr.ev())
			}
			used[ci]++
		}
		for i, co := range sc.cols {
			for _, cr := range co.all() {
				if cr.idx >= used[i] {
					conns = append(conns, cr.ev())
				}
			}
		}
	}
	lics := core.Ev{}
	for _, l := range sc.lics {
		lics[l] = core.W8(hash64([]byte(l)))
	}
	sc.linearize()
	sort.SliceStable(sc.evs, func(i, j int) bool { return sc.evs[i].key < sc.evs[j].key })

	emit.Lock()
	defer emit.Unlock()
	if timedOut {
		sc.notes = append(sc.notes, "the collector did not finish in time")
	}
	if len(sc.notes) > 0 {
		// A wait FOR a state ran into its bound (machine load, or a client that hangs): what was recorded is not a
		// complete history and is not judged.  The history is void (a Reset with nothing after it); the runner
		// counts void histories and refuses to give a verdict (exit 2) if there are too many.
		void(c, t, sc.gen, sc.cas, sc.notes)
		return
	}
	t.Reset(sc.gen, sc.cas, core.Ev{"mode": sc.mode, "queue": sc.mode != "direct", "qcap": sc.qcap, "deflic": sc.deflic,
		"lics": lics, "srv": sc.srvStart(), "proph": conns, "nondet": sc.nondet})
	for _, e := range sc.evs {
		t.Emit(e.ev)
	}
	t.Emit(core.Ev{"ev": "End", "t": []int{tick(), 1 << 30}, "nconn": int(atomic.LoadInt32(&sc.connOK))})
}

// linearize places the queue-mode Enq events (intervals [t0,t1]) into the event order: accepted
// enqueues in the order the worker dequeued them (the FIFO's own claim), each no earlier than its
// call.  The specification verifies the claim: Tick rejects an order that contradicts real time
// and Deq must find its pack at the head of the queue.
func (sc *scenario) linearize() {
	if sc.mode == "direct" {
		return
	}
	rank := map[int]int{}
	n := 0
	for _, e := range sc.evs {
		if e.ev["ev"] == "Deq" {
			rank[e.ev["id"].(int)] = n
			n++
		}
	}
	var oks []*evRec
	for i := range sc.evs {
		e := &sc.evs[i]
		if e.ev["ev"] != "Enq" {
			continue
		}
		tt := e.ev["t"].([]int)
		if e.ev["ok"].(bool) {
			oks = append(oks, e)
		} else {
			e.key = float64(tt[1]) - 0.5
		}
	}
	sort.SliceStable(oks, func(i, j int) bool {
		ri, iok := rank[oks[i].ev["id"].(int)]
		rj, jok := rank[oks[j].ev["id"].(int)]
		if iok != jok {
			return iok
		}
		if iok {
			return ri < rj
		}
		return oks[i].ev["t"].([]int)[1] < oks[j].ev["t"].([]int)[1]
	})
	prev := 0.0
	for _, e := range oks {
		k := float64(e.ev["t"].([]int)[0])
		if prev > k {
			k = prev
		}
		k += 1e-6
		e.key = k
		prev = k
	}
}

var voidMu sync.Mutex
var voids []string

// void writes an empty history (caller holds the emit lock) and reports it in meta.extra.
func void(c *core.Ctx, t *core.Trace, gen string, cas int, why []string) {
	t.Reset(gen, cas, core.Ev{"mode": "void", "queue": false, "qcap": 0, "deflic": "-", "lics": core.Ev{}, "srv": []string{}, "proph": []core.Ev{},
		"nondet": true, "void": why})
	voidMu.Lock()
	voids = append(voids, fmt.Sprintf("%s/%d: %v", gen, cas, why))
	c.SetExtra("c06_void_histories", append([]string(nil), voids...))
	voidMu.Unlock()
}

func startWorker(cl *oneway.OneWayTcpClient) { oneway.StartWorkerForVerif(cl) }

// allConns: every connection any collector of the scenario accepted.
func (sc *scenario) allConns() []*connRec {
	var out []*connRec
	for _, co := range sc.cols {
		out = append(out, co.all()...)
	}
	return out
}

// srvStart: the names of the collectors the client was configured with at the start.
func (sc *scenario) srvStart() []string {
	out := []string{}
	for _, i := range sc.srv0 {
		out = append(out, sc.cols[i].name)
	}
	return out
}
