package c06

import (
	"context"
	"crypto/sha256"
	"encoding/binary"
	"errors"
	"fmt"
	"io"
	"net"
	"sync"
	"sync/atomic"
	"syscall"
	"time"

	"verifharness/core"
)

// The scripted loopback collector.  It owns a port for the whole scenario (a
// bound, never listening SO_REUSEPORT socket keeps the port reserved while the
// listener is down, so a dial is refused instead of reaching a foreign
// process), accepts connections, reads the byte stream of each one frame by
// frame with exact-size reads (never past a scripted cut point), and can go
// away before, between or in the middle of frames by closing (FIN, or RST if
// unread data is pending) or resetting (SO_LINGER 0).  It can also STALL at such
// a point: it stays connected but stops reading until the scenario lets it go
// on (the kernel's buffers fill, the client's write deadline expires in the
// middle of a frame); then it reads on to the end of the stream.  A scenario
// may own several collectors (several server addresses).  Standard library only.

const soReusePort = 0xf // linux

const hdrLen = 22

type cutSpec struct {
	Frame int    // 0-based frame index on this connection at which the peer goes away
	Where string // "before" | "header" (5 bytes in) | "mid" (half of the frame) | "last" (one byte short)
	Kind  string // "closed" | "reset"
}

// stallSpec: at this point of this frame of the connection the collector stops reading until resume is closed.
type stallSpec struct {
	Frame   int
	Where   string        // "before" | "header" (5 bytes in) | "mid" (half of the payload) | "last" (one byte short)
	resume  chan struct{} // closed by the scenario
	entered chan struct{} // closed by the collector when it stops reading
	once    sync.Once
	ronce   sync.Once
}

func newStall(frame int, where string) *stallSpec {
	return &stallSpec{Frame: frame, Where: where, resume: make(chan struct{}), entered: make(chan struct{})}
}

func (st *stallSpec) hold() {
	st.once.Do(func() { close(st.entered) })
	<-st.resume
}

func (st *stallSpec) release() { st.ronce.Do(func() { close(st.resume) }) }

type frameRec struct {
	ID    int
	Net   [2]byte
	Pcode []byte
	Lh    []byte
	Plen  int
	Ptype int
	Dg    []byte
}

type connRec struct {
	idx    int
	c      *net.TCPConn
	frames []frameRec
	tail   int
	thdr   *frameRec
	cut    string // "none" | "closed" | "reset"
	read   int64  // atomic: bytes read so far
	done   chan struct{}
	mu     sync.Mutex
	manual string // set by CutNow before it closes the socket
}

type collector struct {
	name     string // "A", "B", ...: what the events call this collector
	stalls   map[int]*stallSpec
	rcvbuf   int // > 0: the receive buffer of every accepted connection (a small one: a collector that does not read holds the sender up soon)
	port     int
	resv     int
	mu       sync.Mutex
	ln       net.Listener
	conns    []*connRec
	cuts     map[int]cutSpec
	accepted int32
	lnWG     sync.WaitGroup
	// dialed reports that the client's dial of connection i has returned.  A peer that goes away before the
	// first frame waits for it: a reset that overtakes the end of the dial would turn the dial itself into
	// an error (connection reset), which is a refused dial to the client but an accepted one to the collector.
	dialed func(i int) bool
}

func ctl(network, address string, c syscall.RawConn) error {
	var e error
	err := c.Control(func(fd uintptr) {
		e = syscall.SetsockoptInt(int(fd), syscall.SOL_SOCKET, syscall.SO_REUSEADDR, 1)
		if e == nil {
			e = syscall.SetsockoptInt(int(fd), syscall.SOL_SOCKET, soReusePort, 1)
		}
	})
	if err != nil {
		return err
	}
	return e
}

func newCollector(cuts map[int]cutSpec) (*collector, error) {
	fd, err := syscall.Socket(syscall.AF_INET, syscall.SOCK_STREAM, 0)
	if err != nil {
		return nil, err
	}
	syscall.SetsockoptInt(fd, syscall.SOL_SOCKET, syscall.SO_REUSEADDR, 1)
	if err := syscall.SetsockoptInt(fd, syscall.SOL_SOCKET, soReusePort, 1); err != nil {
		syscall.Close(fd)
		return nil, err
	}
	if err := syscall.Bind(fd, &syscall.SockaddrInet4{Port: 0, Addr: [4]byte{127, 0, 0, 1}}); err != nil {
		syscall.Close(fd)
		return nil, err
	}
	sa, err := syscall.Getsockname(fd)
	if err != nil {
		syscall.Close(fd)
		return nil, err
	}
	co := &collector{resv: fd, port: sa.(*syscall.SockaddrInet4).Port, cuts: cuts}
	if co.cuts == nil {
		co.cuts = map[int]cutSpec{}
	}
	return co, nil
}

func (co *collector) addr() string { return fmt.Sprintf("127.0.0.1:%d", co.port) }

func (co *collector) up() error {
	lc := net.ListenConfig{Control: ctl}
	ln, err := lc.Listen(context.Background(), "tcp4", co.addr())
	if err != nil {
		return err
	}
	co.mu.Lock()
	co.ln = ln
	co.mu.Unlock()
	co.lnWG.Add(1)
	go func() {
		defer co.lnWG.Done()
		for {
			c, err := ln.Accept()
			if err != nil {
				return
			}
			co.mu.Lock()
			cr := &connRec{idx: len(co.conns), c: c.(*net.TCPConn), cut: "none", done: make(chan struct{})}
			co.conns = append(co.conns, cr)
			var cs *cutSpec
			if s, ok := co.cuts[cr.idx]; ok {
				cs = &s
			}
			st := co.stalls[cr.idx]
			if co.rcvbuf > 0 {
				_ = cr.c.SetReadBuffer(co.rcvbuf)
			}
			co.mu.Unlock()
			atomic.AddInt32(&co.accepted, 1)
			go cr.run(cs, st, co.dialed)
		}
	}()
	return nil
}

func (co *collector) down() {
	co.mu.Lock()
	ln := co.ln
	co.ln = nil
	co.mu.Unlock()
	if ln != nil {
		ln.Close()
		co.lnWG.Wait()
	}
}

// resumeAll lets every stalled connection read on.
func (co *collector) resumeAll() {
	for _, st := range co.stalls {
		st.release()
	}
}

func (co *collector) release() {
	co.down()
	syscall.Close(co.resv)
}

func (co *collector) conn(i int) *connRec {
	co.mu.Lock()
	defer co.mu.Unlock()
	if i < 0 || i >= len(co.conns) {
		return nil
	}
	return co.conns[i]
}

func (co *collector) all() []*connRec {
	co.mu.Lock()
	defer co.mu.Unlock()
	return append([]*connRec(nil), co.conns...)
}

// cutNow makes the peer of connection i go away immediately (gate scenarios).
func (cr *connRec) cutNow(kind string) {
	cr.mu.Lock()
	cr.manual = kind
	cr.mu.Unlock()
	if kind == "reset" {
		cr.c.SetLinger(0)
	}
	cr.c.Close()
	<-cr.done
}

// finish ends a healthy connection from the collector's side at the end of a scenario.
func (cr *connRec) finish() {
	cr.mu.Lock()
	if cr.manual == "" {
		cr.manual = "none"
	}
	cr.mu.Unlock()
	cr.c.Close()
	<-cr.done
}

func (cr *connRec) goAway(kind string) {
	cr.cut = kind
	if kind == "reset" {
		cr.c.SetLinger(0)
	}
	cr.c.Close()
}

// readN reads exactly n bytes (hashing into h if not nil); returns the bytes actually read.
func (cr *connRec) readN(buf []byte, n int, h io.Writer, keep []byte) (int, []byte, error) {
	got := 0
	for got < n {
		m := n - got
		if m > len(buf) {
			m = len(buf)
		}
		k, err := io.ReadFull(cr.c, buf[:m])
		if k > 0 {
			atomic.AddInt64(&cr.read, int64(k))
			if h != nil {
				h.Write(buf[:k])
			}
			if keep != nil && len(keep) < cap(keep) {
				r := cap(keep) - len(keep)
				if r > k {
					r = k
				}
				keep = append(keep, buf[:r]...)
			}
			got += k
		}
		if err != nil {
			return got, keep, err
		}
	}
	return got, keep, nil
}

func parseHdr(b []byte) frameRec {
	return frameRec{ID: -1, Net: [2]byte{b[0], b[1]}, Pcode: append([]byte(nil), b[2:10]...), Lh: append([]byte(nil), b[10:18]...),
		Plen: int(int32(binary.BigEndian.Uint32(b[18:22])))}
}

// idHint extracts pack type and the Time field (the send id) from the first payload bytes:
// short type, decimal pcode (1 + k bytes), int oid, long time.
func idHint(p []byte) (ptype int, id int) {
	ptype, id = -1, -1
	if len(p) < 3 {
		return
	}
	ptype = int(binary.BigEndian.Uint16(p[0:2]))
	k := int(p[2])
	if k > 8 || len(p) < 3+k+4+8 {
		return
	}
	v := binary.BigEndian.Uint64(p[3+k+4 : 3+k+12])
	if v < 1<<30 {
		id = int(v)
	}
	return
}

func (cr *connRec) run(cs *cutSpec, st *stallSpec, dialed func(int) bool) {
	defer close(cr.done)
	buf := make([]byte, 256<<10)
	endErr := func(partial int, hdr []byte) {
		// the stream ended (EOF from the client, or our own cut): anything of an incomplete frame is the tail
		cr.tail = partial
		if partial >= hdrLen && hdr != nil {
			f := parseHdr(hdr)
			cr.thdr = &f
		}
		cr.mu.Lock()
		if cr.manual != "" && cr.cut == "none" {
			cr.cut = cr.manual
		}
		cr.mu.Unlock()
		if cr.cut == "none" {
			cr.c.Close()
		}
	}
	for fi := 0; ; fi++ {
		cutHere := cs != nil && cs.Frame == fi
		if cutHere && cs.Where == "before" {
			if fi == 0 && dialed != nil {
				waitUntil(waitMax, func() bool { return dialed(cr.idx) })
			}
			cr.goAway(cs.Kind)
			return
		}
		stallHere := st != nil && st.Frame == fi
		if stallHere && st.Where == "before" {
			st.hold()
		}
		hb := make([]byte, 0, hdrLen)
		want := hdrLen
		if cutHere && cs.Where == "header" {
			want = 5
		}
		first := want
		if stallHere && st.Where == "header" && want == hdrLen {
			first = 5
		}
		n, hb, err := cr.readN(buf, first, nil, hb)
		if err == nil && first < want {
			var m int
			st.hold()
			m, hb, err = cr.readN(buf, want-first, nil, hb)
			n += m
		}
		if err != nil {
			endErr(n, nil)
			return
		}
		if want < hdrLen {
			cr.tail = n
			cr.goAway(cs.Kind)
			return
		}
		f := parseHdr(hb)
		if f.Plen < 0 || f.Plen > 64<<20 {
			// not a frame length: everything from here on is an incomplete "frame"
			k, _ := io.Copy(io.Discard, cr.c)
			atomic.AddInt64(&cr.read, k)
			endErr(hdrLen+int(k), hb)
			return
		}
		want = f.Plen
		if cutHere {
			switch cs.Where {
			case "mid":
				want = f.Plen / 2
			case "last":
				want = f.Plen - 1
			}
			if want < 0 {
				want = 0
			}
		}
		h := sha256.New()
		head := make([]byte, 0, 40)
		first = want
		if stallHere && (st.Where == "mid" || st.Where == "last") {
			first = f.Plen / 2
			if st.Where == "last" {
				first = f.Plen - 1
			}
			if first < 0 {
				first = 0
			}
			if first > want {
				first = want
			}
		}
		n, head, err = cr.readN(buf, first, h, head)
		if err == nil && stallHere && (st.Where == "mid" || st.Where == "last") {
			var m int
			st.hold()
			m, head, err = cr.readN(buf, want-first, h, head)
			n += m
		}
		if err != nil {
			endErr(hdrLen+n, hb)
			return
		}
		if want < f.Plen {
			cr.tail = hdrLen + n
			cr.thdr = &f
			cr.goAway(cs.Kind)
			return
		}
		f.Ptype, f.ID = idHint(head)
		f.Dg = h.Sum(nil)[:8]
		cr.frames = append(cr.frames, f)
	}
}

func (f *frameRec) ev() core.Ev {
	return core.Ev{"id": f.ID, "net": core.Bytes(f.Net[:]), "pcode": core.Bytes(f.Pcode), "lh": core.Bytes(f.Lh),
		"plen": sat(f.Plen), "ptype": f.Ptype, "dg": core.Bytes(f.Dg)}
}

func sat(v int) int {
	if v > 1<<30 {
		return 1 << 30
	}
	if v < -(1 << 30) {
		return -(1 << 30)
	}
	return v
}

func (cr *connRec) ev() core.Ev {
	fr := make([]core.Ev, 0, len(cr.frames))
	for i := range cr.frames {
		fr = append(fr, cr.frames[i].ev())
	}
	e := core.Ev{"frames": fr, "tail": sat(cr.tail), "cut": cr.cut}
	if cr.thdr != nil {
		h := cr.thdr.ev()
		delete(h, "id")
		delete(h, "ptype")
		delete(h, "dg")
		e["thdr"] = h
	}
	return e
}

var errTimeout = errors.New("timeout")

// waitUntil polls cond (a state the harness waits FOR, never an ordering it asserts).
func waitUntil(d time.Duration, cond func() bool) error {
	end := time.Now().Add(d)
	for i := 0; ; i++ {
		if cond() {
			return nil
		}
		if time.Now().After(end) {
			return errTimeout
		}
		if i < 200 {
			time.Sleep(50 * time.Microsecond)
		} else {
			time.Sleep(time.Millisecond)
		}
	}
}

func isDone(cr *connRec) bool {
	select {
	case <-cr.done:
		return true
	default:
		return false
	}
}
