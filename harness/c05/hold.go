// The encoder OUTPUT while the caller holds it (spec/PackOut.tla, judged by
// Trace_PackOut): what pack.ToBytesPack returned and what ToByteArray of a
// caller-owned output shows is kept UNCOPIED, further encoder calls are made
// (the same pack, other packs, other outputs, the reader, other goroutines),
// and the kept slices are looked at again.  The harness records; TLC decides
// whether a second look still shows the reference bytes.
package c05

import (
	"fmt"
	"math/rand"
	"sync"

	wio "github.com/whatap/golib/io"
	"github.com/whatap/golib/lang/pack"

	"verifharness/core"
	"verifharness/valgen"
)

type heldPack struct {
	kind string
	p    pack.Pack
	proj core.Ev
}

type holder struct {
	c     *core.Ctx
	t     *core.Trace
	r     *rand.Rand
	outs  []*wio.DataOutputX // the caller's own outputs (spec: outs of the Out events, in order)
	nOuts int                // number of spec outputs so far (Out + ToBytes)
	outNo []int              // spec number of the caller's i-th output
	views [][]byte           // what the calls handed out, uncopied
	whole []bool             // the view starts at a pack boundary and holds exactly one pack
	packs []*heldPack
	dead  bool
	kinds map[string]bool
}

func (h *holder) panicked(at, kind, msg string) {
	h.t.Emit(core.Ev{"ev": "Panic", "at": at, "kind": kind, "msg": msg})
	h.dead = true
}

// a pack to write: a new object, or one that was written before
func (h *holder) pick() *heldPack {
	if len(h.packs) > 0 && h.r.Intn(3) == 0 {
		return h.packs[h.r.Intn(len(h.packs))]
	}
	s := randShape(h.r, kinds[h.r.Intn(len(kinds))], true)
	hp := &heldPack{kind: s.Kind}
	if msg := core.Guard(func() { hp.p, hp.proj = realize(s) }); msg != "" {
		h.panicked("New", s.Kind, msg)
		return nil
	}
	h.packs = append(h.packs, hp)
	h.kinds[s.Kind] = true
	return hp
}

func (h *holder) newOut() {
	pre := valgen.RandBytes(h.r, []int{0, 0, 1, 5, 300}[h.r.Intn(5)])
	o := wio.NewDataOutputX()
	if len(pre) > 0 {
		o.WriteBytes(pre)
	}
	h.outs = append(h.outs, o)
	h.nOuts++
	h.outNo = append(h.outNo, h.nOuts)
	h.t.Emit(core.Ev{"ev": "Out", "pre": core.Cp(pre)})
}

func (h *holder) toBytes() {
	hp := h.pick()
	if hp == nil {
		return
	}
	var b []byte
	if msg := core.Guard(func() { b = pack.ToBytesPack(hp.p) }); msg != "" {
		h.panicked("ToBytes", hp.kind, msg)
		return
	}
	h.nOuts++
	h.views = append(h.views, b) // uncopied
	h.whole = append(h.whole, true)
	h.t.Emit(core.Ev{"ev": "ToBytes", "kind": hp.kind, "p": hp.proj, "bytes": core.Cp(b)})
}

func (h *holder) writeTo() {
	if len(h.outs) == 0 {
		h.newOut()
	}
	i := h.r.Intn(len(h.outs))
	hp := h.pick()
	if hp == nil {
		return
	}
	var b []byte
	if msg := core.Guard(func() {
		pack.WritePack(h.outs[i], hp.p)
		b = h.outs[i].ToByteArray()
	}); msg != "" {
		h.panicked("WriteTo", hp.kind, msg)
		return
	}
	h.views = append(h.views, b) // uncopied
	h.whole = append(h.whole, false)
	h.t.Emit(core.Ev{"ev": "WriteTo", "o": h.outNo[i], "kind": hp.kind, "p": hp.proj, "now": core.Cp(b)})
}

// the reader on a held view (a call in between; reader panics are not this property's business)
func (h *holder) read() {
	var ids []int
	for i, w := range h.whole {
		if w && len(h.views[i]) >= 2 {
			ids = append(ids, i)
		}
	}
	if len(ids) == 0 {
		return
	}
	i := ids[h.r.Intn(len(ids))]
	var typ int
	if msg := core.Guard(func() { typ = int(uint16(pack.ToPack(h.views[i]).GetPackType())) }); msg != "" {
		return
	}
	h.t.Emit(core.Ev{"ev": "Read", "id": i + 1, "type": typ})
}

func (h *holder) peek(i int) {
	h.t.Emit(core.Ev{"ev": "Peek", "id": i + 1, "v": core.Cp(h.views[i])})
}

// several goroutines encode their own packs at the same time and keep the results
func (h *holder) together() {
	g := 2 + h.r.Intn(3)
	per := 1 + h.r.Intn(2)
	type job struct {
		hp   *heldPack
		b    []byte
		at   core.Bytes
		fail string
	}
	jobs := make([][]*job, g)
	for i := range jobs {
		for j := 0; j < per; j++ {
			s := randShape(h.r, kinds[h.r.Intn(len(kinds))], true)
			hp := &heldPack{kind: s.Kind}
			if msg := core.Guard(func() { hp.p, hp.proj = realize(s) }); msg != "" {
				h.panicked("New", s.Kind, msg)
				return
			}
			h.kinds[s.Kind] = true
			jobs[i] = append(jobs[i], &job{hp: hp})
		}
	}
	start := make(chan struct{})
	var wg sync.WaitGroup
	for i := range jobs {
		wg.Add(1)
		go func(js []*job) {
			defer wg.Done()
			<-start
			for _, j := range js {
				j.fail = core.Guard(func() {
					j.b = pack.ToBytesPack(j.hp.p)
					j.at = core.Cp(j.b)
				})
			}
		}(jobs[i])
	}
	close(start)
	wg.Wait()
	// every call is an event of its own (a new output each): reported goroutine by goroutine
	for _, js := range jobs {
		for _, j := range js {
			if j.fail != "" {
				h.panicked("ToBytes", j.hp.kind, j.fail)
				return
			}
			h.nOuts++
			h.views = append(h.views, j.b)
			h.whole = append(h.whole, true)
			h.t.Emit(core.Ev{"ev": "ToBytes", "kind": j.hp.kind, "p": j.hp.proj, "bytes": j.at, "together": g})
		}
	}
}

func holdCase(c *core.Ctx, t *core.Trace, cas int) {
	r := c.Rng("hold", cas)
	t.Reset("hold", cas, nil)
	// most histories use small packs (each view is reported at least twice); one in eight the full sizes,
	// so that a recycled buffer is also met growing and shrinking
	light = cas%8 != 5
	defer func() { light = false }()
	h := &holder{c: c, t: t, r: r, kinds: map[string]bool{}}
	for i := r.Intn(3); i > 0; i-- {
		h.newOut()
	}
	steps := 3 + r.Intn(6)
	conc := cas%3 == 1
	for i := 0; i < steps && !h.dead; i++ {
		switch k := r.Intn(10); {
		case k < 5:
			h.toBytes()
		case k < 8:
			h.writeTo()
		case k < 9:
			h.read()
		default:
			if len(h.views) > 0 {
				h.peek(r.Intn(len(h.views)))
			}
		}
		if conc && i == steps/2 && !h.dead {
			h.together()
		}
	}
	if h.dead {
		c.Count("hold|panic", true)
		return
	}
	// the second look at everything that was handed out
	for i := range h.views {
		h.peek(i)
	}
	c.Count(fmt.Sprintf("hold|views=%d|outs=%d|together=%v|kinds=%d", len(h.views), len(h.outs), conc, len(h.kinds)), len(h.views) >= 2)
	if cas < 2 {
		c.Sample(map[string]interface{}{"gen": "hold", "case": cas, "views": len(h.views), "caller_outputs": len(h.outs), "kinds": sortedKeys(h.kinds)})
	}
}
