package c05

import (
	"fmt"
	"math"
	"math/rand"

	"github.com/whatap/golib/lang"
	"github.com/whatap/golib/lang/pack"
	"github.com/whatap/golib/lang/value"
	"github.com/whatap/golib/util/hmap"

	"verifharness/core"
	"verifharness/valgen"
)

// A shape is the plain description of one pack: the values drawn by the
// generator.  realize() builds the real golib pack from it (constructors,
// exported fields, public setters) and, independently, the projection the
// specification is given (standard library only: the drawn values, never read
// back through golib).

type Hdr struct {
	Pcode               int64
	Oid, Okind, Onode   int32
	Time                int64
}

func (h Hdr) proj(ev core.Ev) {
	ev["pcode"] = core.W8(h.Pcode)
	ev["oid"] = core.W8(int64(h.Oid))
	ev["okind"] = core.W8(int64(h.Okind))
	ev["onode"] = core.W8(int64(h.Onode))
	ev["time"] = core.W8(h.Time)
}

func (h Hdr) apply(p pack.Pack) {
	p.SetPCODE(h.Pcode)
	p.SetOID(h.Oid)
	p.SetOKIND(h.Okind)
	p.SetONODE(h.Onode)
	p.SetTime(h.Time)
}

func (h Hdr) long() bool { return h.Okind != 0 || h.Onode != 0 }

type Shape struct {
	Kind string
	Hdr  Hdr

	// tag-count, log-sink
	Category string
	TagHash  int64 // log-sink only (public field)
	Tags     *valgen.Node
	TagsViaPut bool // tag-count: build the tags through PutTag (text values only)
	Data     *valgen.Node
	Line     int64
	Content  string
	Fields   *valgen.Node // nil = the Fields member is nil
	// text
	Recs []TextRec
	// parameter
	Id        int32
	Request   int64
	Response  int64
	Keys      []string
	Vals      []*valgen.Node
	// event
	Uuid      string
	Esc       bool
	Level     byte
	Title     string
	Message   string
	Status    int32
	Otype     int32
	AttrK     []string
	AttrV     []string
	// zip
	ZStatus   byte
	ZCount    int
	ZRecords  []byte
	ZNil      bool
	// hit-map
	Hit, Err  []int32
	// counter
	Counter *CounterShape
}

type TextRec struct {
	Div  byte
	Hash int32
	Text string
}

type Meter struct {
	Key                  int32 // caller oid / dbc / host
	Pcode                int64 // group and poid sections
	K2                   int32 // okind (group) / oid (poid)
	Time                 int64
	Count, Error, Actx   int32
	FetchCount, FetchTime int64
}

type CounterShape struct {
	Scal        map[string]int64 // every scalar by layout name (floats: the bit pattern)
	ActSvcSlice []int16
	ActSvcNil   bool
	ActiveStat  []int16
	ActiveNil   bool
	DbActive    [][2]int32
	DbIdle      [][2]int32
	DbActiveNil bool
	DbIdleNil   bool
	Netstat     *[4]int32 // est, finW, cloW, timW
	Websocket   *[3]int64 // count, in, out
	Extra       *valgen.Node
	Oid, Sql, Httpc, Group, POid *[]Meter
	Unknown     *Meter
}

// ---- counter scalars: layout name -> the field of the real pack ----------------

type cfield struct {
	name string
	ptr  func(p *pack.CounterPack1) interface{}
}

var counterFields = []cfield{
	{"duration", func(p *pack.CounterPack1) interface{} { return &p.Duration }},
	{"cputime", func(p *pack.CounterPack1) interface{} { return &p.Cputime }},
	{"heapTot", func(p *pack.CounterPack1) interface{} { return &p.HeapTot }},
	{"heapUse", func(p *pack.CounterPack1) interface{} { return &p.HeapUse }},
	{"heapPerm", func(p *pack.CounterPack1) interface{} { return &p.HeapPerm }},
	{"heapPendingFinalization", func(p *pack.CounterPack1) interface{} { return &p.HeapPendingFinalization }},
	{"gcCount", func(p *pack.CounterPack1) interface{} { return &p.GcCount }},
	{"gcTime", func(p *pack.CounterPack1) interface{} { return &p.GcTime }},
	{"serviceCount", func(p *pack.CounterPack1) interface{} { return &p.ServiceCount }},
	{"serviceError", func(p *pack.CounterPack1) interface{} { return &p.ServiceError }},
	{"serviceTime", func(p *pack.CounterPack1) interface{} { return &p.ServiceTime }},
	{"sqlCount", func(p *pack.CounterPack1) interface{} { return &p.SqlCount }},
	{"sqlError", func(p *pack.CounterPack1) interface{} { return &p.SqlError }},
	{"sqlTime", func(p *pack.CounterPack1) interface{} { return &p.SqlTime }},
	{"sqlFetchCount", func(p *pack.CounterPack1) interface{} { return &p.SqlFetchCount }},
	{"sqlFetchTime", func(p *pack.CounterPack1) interface{} { return &p.SqlFetchTime }},
	{"httpcCount", func(p *pack.CounterPack1) interface{} { return &p.HttpcCount }},
	{"httpcError", func(p *pack.CounterPack1) interface{} { return &p.HttpcError }},
	{"httpcTime", func(p *pack.CounterPack1) interface{} { return &p.HttpcTime }},
	{"actSvcCount", func(p *pack.CounterPack1) interface{} { return &p.ActSvcCount }},
	{"cpu", func(p *pack.CounterPack1) interface{} { return &p.Cpu }},
	{"cpuSys", func(p *pack.CounterPack1) interface{} { return &p.CpuSys }},
	{"cpuUsr", func(p *pack.CounterPack1) interface{} { return &p.CpuUsr }},
	{"cpuWait", func(p *pack.CounterPack1) interface{} { return &p.CpuWait }},
	{"cpuSteal", func(p *pack.CounterPack1) interface{} { return &p.CpuSteal }},
	{"cpuIrq", func(p *pack.CounterPack1) interface{} { return &p.CpuIrq }},
	{"cpuProc", func(p *pack.CounterPack1) interface{} { return &p.CpuProc }},
	{"cpuCores", func(p *pack.CounterPack1) interface{} { return &p.CpuCores }},
	{"mem", func(p *pack.CounterPack1) interface{} { return &p.Mem }},
	{"swap", func(p *pack.CounterPack1) interface{} { return &p.Swap }},
	{"disk", func(p *pack.CounterPack1) interface{} { return &p.Disk }},
	{"threadTotalStarted", func(p *pack.CounterPack1) interface{} { return &p.ThreadTotalStarted }},
	{"threadCount", func(p *pack.CounterPack1) interface{} { return &p.ThreadCount }},
	{"threadDaemon", func(p *pack.CounterPack1) interface{} { return &p.ThreadDaemon }},
	{"threadPeakCount", func(p *pack.CounterPack1) interface{} { return &p.ThreadPeakCount }},
	{"procFd", func(p *pack.CounterPack1) interface{} { return &p.ProcFd }},
	{"tps", func(p *pack.CounterPack1) interface{} { return &p.Tps }},
	{"respTime", func(p *pack.CounterPack1) interface{} { return &p.RespTime }},
	{"apType", func(p *pack.CounterPack1) interface{} { return &p.ApType }},
	{"starttime", func(p *pack.CounterPack1) interface{} { return &p.Starttime }},
	{"packDropped", func(p *pack.CounterPack1) interface{} { return &p.PackDropped }},
	{"hostIp", func(p *pack.CounterPack1) interface{} { return &p.HostIp }},
	{"macHash", func(p *pack.CounterPack1) interface{} { return &p.MacHash }},
	{"pid", func(p *pack.CounterPack1) interface{} { return &p.Pid }},
	{"threadPoolActiveCount", func(p *pack.CounterPack1) interface{} { return &p.ThreadPoolActiveCount }},
	{"threadPoolQueueSize", func(p *pack.CounterPack1) interface{} { return &p.ThreadPoolQueueSize }},
	{"containerKey", func(p *pack.CounterPack1) interface{} { return &p.ContainerKey }},
	{"txDbcTime", func(p *pack.CounterPack1) interface{} { return &p.TxDbcTime }},
	{"txSqlTime", func(p *pack.CounterPack1) interface{} { return &p.TxSqlTime }},
	{"txHttpcTime", func(p *pack.CounterPack1) interface{} { return &p.TxHttpcTime }},
	{"apdexSatisfied", func(p *pack.CounterPack1) interface{} { return &p.ApdexSatisfied }},
	{"apdexTolerated", func(p *pack.CounterPack1) interface{} { return &p.ApdexTolerated }},
	{"arrivalRate", func(p *pack.CounterPack1) interface{} { return &p.ArrivalRate }},
	{"gcOldgenCount", func(p *pack.CounterPack1) interface{} { return &p.GcOldgenCount }},
	{"version", func(p *pack.CounterPack1) interface{} { return &p.Version }},
	{"heapMax", func(p *pack.CounterPack1) interface{} { return &p.HeapMax }},
	{"procFdMax", func(p *pack.CounterPack1) interface{} { return &p.ProcFdMax }},
	{"metering", func(p *pack.CounterPack1) interface{} { return &p.Metering }},
	{"apdexTotal", func(p *pack.CounterPack1) interface{} { return &p.ApdexTotal }},
	{"resp90", func(p *pack.CounterPack1) interface{} { return &p.Resp90 }},
	{"resp95", func(p *pack.CounterPack1) interface{} { return &p.Resp95 }},
	{"timeSqrSum", func(p *pack.CounterPack1) interface{} { return &p.TimeSqrSum }},
}

// setScalar stores v in the field and returns the projection of what was stored.
func setScalar(ptr interface{}, v int64) interface{} {
	switch x := ptr.(type) {
	case *int64:
		*x = v
		return core.W8(v)
	case *int32:
		*x = int32(v)
		return core.W8(int64(int32(v)))
	case *int16:
		*x = int16(v)
		return core.W8(int64(int16(v)))
	case *byte:
		*x = byte(v)
		return int(byte(v))
	case *float32:
		*x = math.Float32frombits(uint32(v))
		return core.W4(uint32(v))
	}
	panic(fmt.Sprintf("c05: scalar of type %T", ptr))
}

func drawScalar(r *rand.Rand, ptr interface{}, zero bool) int64 {
	if zero {
		return 0
	}
	switch ptr.(type) {
	case *float32:
		return int64(valgen.RandF32(r, false))
	default:
		return valgen.RandInt64(r)
	}
}

func w8list16(v []int16) []interface{} {
	out := make([]interface{}, len(v))
	for i, x := range v {
		out[i] = core.Ev{"s": core.W8(int64(x))}
	}
	return out
}

func intint(m [][2]int32) (*hmap.IntIntMap, []interface{}) {
	mm := hmap.NewIntIntMapDefault()
	out := make([]interface{}, len(m))
	for i, kv := range m {
		mm.Put(kv[0], kv[1])
		out[i] = core.Ev{"key": core.W8(int64(kv[0])), "val": core.W8(int64(kv[1]))}
	}
	return mm, out
}

func opt(present bool, rec core.Ev) []interface{} {
	if !present {
		return []interface{}{}
	}
	return []interface{}{rec}
}

func txProj(m Meter, keyed bool) core.Ev {
	ev := core.Ev{"time": core.W8(m.Time), "count": core.W8(int64(m.Count)), "error": core.W8(int64(m.Error)), "actx": core.W8(int64(m.Actx))}
	if keyed {
		ev["key"] = core.W8(int64(m.Key))
	}
	return ev
}

func realizeCounter(h Hdr, s *CounterShape) (pack.Pack, core.Ev) {
	p := pack.NewCounterPack1()
	ev := core.Ev{}
	for _, f := range counterFields {
		ev[f.name] = setScalar(f.ptr(p), s.Scal[f.name])
	}
	if s.ActSvcNil {
		p.ActSvcSlice = nil
		ev["actSvcSlice"] = []interface{}{}
	} else {
		p.ActSvcSlice = append([]int16{}, s.ActSvcSlice...)
		ev["actSvcSlice"] = w8list16(s.ActSvcSlice)
	}
	if s.ActiveNil {
		p.ActiveStat = nil
		ev["activeStat"] = []interface{}{}
	} else {
		p.ActiveStat = append([]int16{}, s.ActiveStat...)
		ev["activeStat"] = w8list16(s.ActiveStat)
	}
	var act, idle []interface{}
	if !s.DbActiveNil {
		p.DbNumActive, act = intint(s.DbActive)
	}
	if !s.DbIdleNil {
		p.DbNumIdle, idle = intint(s.DbIdle)
	}
	ev["dbOpt"] = opt(!s.DbActiveNil && !s.DbIdleNil, core.Ev{"active": act, "idle": idle})
	if s.Netstat != nil {
		n := pack.NewNETSTAT()
		n.Est, n.FinW, n.CloW, n.TimW = s.Netstat[0], s.Netstat[1], s.Netstat[2], s.Netstat[3]
		p.Netstat = n
		ev["netstatOpt"] = opt(true, core.Ev{"est": core.W8(int64(n.Est)), "finW": core.W8(int64(s.Netstat[1])),
			"cloW": core.W8(int64(s.Netstat[2])), "timW": core.W8(int64(s.Netstat[3]))})
	} else {
		ev["netstatOpt"] = opt(false, nil)
	}
	if s.Websocket != nil {
		w := pack.NewWEBSOCKET()
		w.Count, w.In, w.Out = int32(s.Websocket[0]), s.Websocket[1], s.Websocket[2]
		p.Websocket = w
		ev["websocketOpt"] = opt(true, core.Ev{"count": core.W8(int64(int32(s.Websocket[0]))), "in": core.W8(s.Websocket[1]), "out": core.W8(s.Websocket[2])})
	} else {
		ev["websocketOpt"] = opt(false, nil)
	}
	if s.Extra != nil {
		p.Extra = valgen.Build(s.Extra).(*value.IntMapValue)
		ev["extraOpt"] = opt(true, core.Ev{"map": valgen.Proj(s.Extra)})
	} else {
		ev["extraOpt"] = opt(false, nil)
	}
	// meter sections
	intKeyed := func(ms *[]Meter, mk func(m Meter) interface{}, pr func(m Meter) core.Ev) (*hmap.IntKeyLinkedMap, []interface{}) {
		if ms == nil {
			return nil, opt(false, nil)
		}
		t := hmap.NewIntKeyLinkedMapDefault()
		items := make([]interface{}, len(*ms))
		for i, m := range *ms {
			t.Put(m.Key, mk(m))
			items[i] = pr(m)
		}
		return t, opt(true, core.Ev{"items": items})
	}
	mkTx := func(m Meter) interface{} {
		x := pack.NewTxMeter()
		x.Time, x.Count, x.Error, x.Actx = m.Time, m.Count, m.Error, m.Actx
		return x
	}
	p.TxcallerOidMeter, ev["txcallerOidMeter"] = intKeyed(s.Oid, mkTx, func(m Meter) core.Ev { return txProj(m, true) })
	p.SqlMeter, ev["sqlMeter"] = intKeyed(s.Sql, func(m Meter) interface{} {
		x := pack.NewSqlMeter()
		x.Time, x.Count, x.Error, x.Actx, x.FetchCount, x.FetchTime = m.Time, m.Count, m.Error, m.Actx, m.FetchCount, m.FetchTime
		return x
	}, func(m Meter) core.Ev {
		e := txProj(m, true)
		e["fetchCount"], e["fetchTime"] = core.W8(m.FetchCount), core.W8(m.FetchTime)
		return e
	})
	p.HttpcMeter, ev["httpcMeter"] = intKeyed(s.Httpc, func(m Meter) interface{} {
		x := pack.NewHttpcMeter()
		x.Time, x.Count, x.Error, x.Actx = m.Time, m.Count, m.Error, m.Actx
		return x
	}, func(m Meter) core.Ev { return txProj(m, true) })
	if s.Group != nil {
		t := hmap.NewLinkedMapDefault()
		items := make([]interface{}, len(*s.Group))
		for i, m := range *s.Group {
			t.Put(lang.NewPKIND(m.Pcode, m.K2), mkTx(m))
			e := txProj(m, false)
			e["pcode"], e["okind"] = core.W8(m.Pcode), core.W8(int64(m.K2))
			items[i] = e
		}
		p.TxcallerGroupMeter = t
		ev["txcallerGroupMeter"] = opt(true, core.Ev{"items": items})
	} else {
		ev["txcallerGroupMeter"] = opt(false, nil)
	}
	if s.POid != nil {
		t := hmap.NewLinkedMapDefault()
		items := make([]interface{}, len(*s.POid))
		for i, m := range *s.POid {
			t.Put(lang.NewPOID(m.Pcode, m.K2), mkTx(m))
			e := txProj(m, false)
			e["pcode"], e["oid"] = core.W8(m.Pcode), core.W8(int64(m.K2))
			items[i] = e
		}
		p.TxcallerPOidMeter = t
		ev["txcallerPOidMeter"] = items
	} else {
		ev["txcallerPOidMeter"] = []interface{}{}
	}
	if s.Unknown != nil {
		p.TxcallerUnknown = mkTx(*s.Unknown).(*pack.TxMeter)
		ev["txcallerUnknown"] = opt(true, txProj(*s.Unknown, false))
	} else {
		ev["txcallerUnknown"] = opt(false, nil)
	}
	h.apply(p)
	h.proj(ev)
	return p, ev
}

func mapOf(n *valgen.Node) *value.MapValue { return valgen.Build(n).(*value.MapValue) }

// realize builds the real pack and the projection of shape s.
func realize(s *Shape) (pack.Pack, core.Ev) {
	ev := core.Ev{}
	var p pack.Pack
	switch s.Kind {
	case "tagcount":
		x := pack.NewTagCountPack()
		x.Category = s.Category
		if s.TagsViaPut {
			for i, k := range s.Tags.Keys {
				x.PutTag(string(k), string(s.Tags.Items[i].S))
			}
		} else {
			x.Tags = mapOf(s.Tags)
		}
		x.Data = mapOf(s.Data)
		ev["category"], ev["tags"], ev["data"] = core.Str(s.Category), valgen.Proj(s.Tags), valgen.Proj(s.Data)
		ev["tagHash"] = core.W8(x.GetTagHash())
		p = x
	case "logsink":
		x := pack.NewLogSinkPack()
		x.Category, x.TagHash, x.Tags, x.Line, x.Content = s.Category, s.TagHash, mapOf(s.Tags), s.Line, s.Content
		ev["category"], ev["tagHash"], ev["tags"] = core.Str(s.Category), core.W8(s.TagHash), valgen.Proj(s.Tags)
		ev["line"], ev["content"] = core.W8(s.Line), core.Str(s.Content)
		if s.Fields == nil {
			x.Fields = nil
			ev["fields"] = valgen.Proj(valgen.Map())
		} else {
			x.Fields = mapOf(s.Fields)
			ev["fields"] = valgen.Proj(s.Fields)
		}
		p = x
	case "text":
		x := pack.NewTextPack()
		recs := make([]interface{}, len(s.Recs))
		for i, t := range s.Recs {
			if i%2 == 0 {
				x.AddText(pack.TextRec{Div: t.Div, Hash: t.Hash, Text: t.Text})
			} else {
				x.AddTexts([]pack.TextRec{{Div: t.Div, Hash: t.Hash, Text: t.Text}})
			}
			recs[i] = core.Ev{"div": int(t.Div), "hash": core.W8(int64(t.Hash)), "text": core.Str(t.Text)}
		}
		ev["records"] = recs
		p = x
	case "param":
		x := pack.NewParamPack()
		x.Id, x.Request, x.Response = s.Id, s.Request, s.Response
		tab := make([]interface{}, len(s.Keys))
		for i, k := range s.Keys {
			x.Put(k, valgen.Build(s.Vals[i]))
			tab[i] = core.Ev{"key": core.Str(k), "value": valgen.Proj(s.Vals[i])}
		}
		ev["id"], ev["request"], ev["response"], ev["table"] = core.W8(int64(s.Id)), core.W8(s.Request), core.W8(s.Response), tab
		p = x
	case "event":
		x := pack.NewEventPack()
		x.Uuid, x.Escalation, x.Level, x.Title, x.Message, x.Status, x.Otype = s.Uuid, s.Esc, s.Level, s.Title, s.Message, s.Status, s.Otype
		attrs := make([]interface{}, len(s.AttrK))
		for i, k := range s.AttrK {
			x.Attr.Put(k, s.AttrV[i])
			attrs[i] = core.Ev{"k": core.Str(k), "v": core.Str(s.AttrV[i])}
		}
		ev["uuid"], ev["escalation"], ev["level"], ev["title"], ev["message"] = core.Str(s.Uuid), s.Esc, int(s.Level), core.Str(s.Title), core.Str(s.Message)
		ev["status"], ev["otype"], ev["attrs"] = core.W8(int64(s.Status)), core.W8(int64(s.Otype)), attrs
		p = x
	case "zip":
		x := pack.NewZipPack()
		x.Status, x.RecordCount = s.ZStatus, s.ZCount
		if !s.ZNil {
			x.Records = append([]byte{}, s.ZRecords...)
		}
		ev["status"], ev["recordCount"], ev["records"] = int(s.ZStatus), core.W8(int64(s.ZCount)), core.Cp(s.ZRecords)
		p = x
	case "hitmap":
		x := pack.NewHitMapPack1()
		cells := make([]interface{}, len(s.Hit))
		for i := range s.Hit {
			x.Hit[i], x.Error[i] = s.Hit[i], s.Err[i]
			// the full 32-bit value is logged; that a cell travels in 16 bits is the layout's business
			cells[i] = core.Ev{"hit": core.W8(int64(s.Hit[i])), "err": core.W8(int64(s.Err[i]))}
		}
		ev["cells"] = cells
		p = x
	case "counter":
		return realizeCounter(s.Hdr, s.Counter)
	default:
		panic("c05: kind " + s.Kind)
	}
	s.Hdr.apply(p)
	s.Hdr.proj(ev)
	return p, ev
}

// ---------------------------------------------------------------------------
// random shapes
// ---------------------------------------------------------------------------

var lens = []int{0, 1, 2, 252, 253, 254, 255, 256, 257}

// light: the histories of mutate.go write every pack several times; their
// packs stay small (texts <= 400 bytes, lists <= 6 entries).  The number of
// draws is the same with and without it.
var light bool

func rlen(r *rand.Rand, max int) int {
	n := 0
	switch r.Intn(8) {
	case 0:
		n = 0
	case 1, 2:
		n = lens[r.Intn(len(lens))]
	case 3:
		if r.Intn(8) == 0 {
			n = []int{65534, 65535, 65536, 65537}[r.Intn(4)]
		} else {
			n = r.Intn(300)
		}
	default:
		n = r.Intn(24)
	}
	if n > max {
		n = max
	}
	if light && n > 400 {
		n = 400
	}
	return n
}

func rtext(r *rand.Rand, max int) string { return string(valgen.RandText(r, rlen(r, max))) }

func rint32(r *rand.Rand) int32 { return int32(valgen.RandInt64(r)) }

func randHdr(r *rand.Rand) Hdr {
	h := Hdr{Pcode: valgen.RandInt64(r), Oid: rint32(r), Time: valgen.RandInt64(r)}
	switch r.Intn(6) {
	case 0, 1, 2: // short form
	case 3:
		h.Okind = nz32(r)
	case 4:
		h.Onode = nz32(r)
	default:
		h.Okind, h.Onode = nz32(r), nz32(r)
	}
	return h
}

func nz32(r *rand.Rand) int32 {
	for {
		if v := rint32(r); v != 0 {
			return v
		}
	}
}

// a tag map: text values under unique keys
func tagMap(r *rand.Rand, n int) *valgen.Node {
	m := valgen.Map()
	seen := map[string]bool{}
	for len(m.Keys) < n {
		k := rtext(r, 40)
		if r.Intn(3) > 0 {
			k = fmt.Sprintf("tag%d", len(m.Keys))
		}
		if seen[k] {
			continue
		}
		seen[k] = true
		m.Put([]byte(k), valgen.Text([]byte(rtext(r, 300))))
	}
	return m
}

func anyMap(r *rand.Rand, depth, budget int) *valgen.Node {
	b := budget
	return valgen.RandOf(r, valgen.TMap, depth, &valgen.Opts{MaxWidth: 8, MaxBlob: 300, Budget: &b})
}

func count012(r *rand.Rand, big int) int {
	if light && big > 6 {
		big = 6
	}
	switch r.Intn(6) {
	case 0:
		return 0
	case 1:
		return 1
	case 2:
		return 2
	case 3:
		return big
	default:
		return r.Intn(7)
	}
}

func uniqKeys(r *rand.Rand, n int) []string {
	seen := map[string]bool{}
	var out []string
	for len(out) < n {
		k := rtext(r, 300)
		if r.Intn(2) == 0 {
			k = fmt.Sprintf("k%d", len(out))
		}
		if seen[k] {
			continue
		}
		seen[k] = true
		out = append(out, k)
	}
	return out
}

func randShape(r *rand.Rand, kind string, smallBags bool) *Shape {
	s := &Shape{Kind: kind, Hdr: randHdr(r)}
	switch kind {
	case "tagcount":
		s.Category = rtext(r, 300)
		if r.Intn(2) == 0 {
			s.Tags, s.TagsViaPut = tagMap(r, count012(r, 12)), true
		} else {
			s.Tags = anyMap(r, 1, 12)
		}
		s.Data = anyMap(r, 2, 20)
	case "logsink":
		s.Category = rtext(r, 300)
		s.Tags = tagMap(r, count012(r, 10))
		if r.Intn(4) == 0 {
			s.Tags = anyMap(r, 1, 10)
		}
		if r.Intn(3) == 0 {
			s.TagHash = valgen.RandInt64(r)
		}
		s.Line = valgen.RandInt64(r)
		s.Content = rtext(r, 70000)
		switch r.Intn(4) {
		case 0: // nil
		case 1:
			s.Fields = valgen.Map()
		default:
			s.Fields = anyMap(r, 1, 10)
		}
	case "text":
		n := count012(r, 130)
		big := -1
		if n > 0 && r.Intn(6) == 0 {
			big = r.Intn(n)
		}
		for i := 0; i < n; i++ {
			mx := 300
			if i == big {
				mx = 70000
			}
			s.Recs = append(s.Recs, TextRec{Div: byte(r.Intn(256)), Hash: rint32(r), Text: rtext(r, mx)})
		}
	case "param":
		s.Id, s.Request, s.Response = rint32(r), valgen.RandInt64(r), valgen.RandInt64(r)
		n := count012(r, 130)
		s.Keys = uniqKeys(r, n)
		for i := 0; i < n; i++ {
			b := 8
			s.Vals = append(s.Vals, valgen.Rand(r, 2, &valgen.Opts{MaxWidth: 5, MaxBlob: 300, Budget: &b}))
		}
	case "event":
		if r.Intn(2) == 0 {
			s.Uuid = rtext(r, 40)
		}
		s.Esc = r.Intn(2) == 0
		s.Level = []byte{0, 10, 20, 30, byte(r.Intn(256))}[r.Intn(5)]
		s.Title, s.Message = rtext(r, 300), rtext(r, 70000)
		s.Status, s.Otype = rint32(r), rint32(r)
		n := count012(r, 251)
		s.AttrK = uniqKeys(r, n)
		// now and then an attribute that already uses a reserved key
		if n > 0 && r.Intn(4) == 0 {
			res := []string{"_uuid_", "_esca_", "_status_", "_otype_"}[r.Intn(4)]
			dup := false
			for _, k := range s.AttrK {
				dup = dup || k == res
			}
			if !dup {
				s.AttrK[r.Intn(n)] = res
			}
		}
		for range s.AttrK {
			s.AttrV = append(s.AttrV, rtext(r, 300))
		}
	case "zip":
		s.ZStatus = []byte{0, 1, byte(r.Intn(256))}[r.Intn(3)]
		s.ZCount = int(valgen.RandInt64(r))
		switch r.Intn(4) {
		case 0:
			s.ZNil = true
		default:
			s.ZRecords = valgen.RandBytes(r, rlen(r, 70000))
		}
	case "hitmap":
		s.Hit, s.Err = make([]int32, 120), make([]int32, 120)
		mode := r.Intn(3)
		for i := 0; i < 120; i++ {
			switch mode {
			case 0: // realistic counts
				s.Hit[i], s.Err[i] = int32(r.Intn(2000)), int32(r.Intn(50))
			case 1: // the 16-bit boundaries
				s.Hit[i] = []int32{0, 1, 32767, 32768, 65535, 255, 256}[r.Intn(7)]
				s.Err[i] = []int32{0, 1, 32767, 32768, 65535}[r.Intn(5)]
			default: // beyond 16 bits: the layout keeps the low half
				s.Hit[i], s.Err[i] = rint32(r), rint32(r)
			}
		}
	case "counter":
		s.Counter = randCounter(r, smallBags)
	}
	return s
}

func randMeters(r *rand.Rand, n int) *[]Meter {
	ms := make([]Meter, 0, n)
	seen := map[int32]bool{}
	seen2 := map[[2]int64]bool{}
	for len(ms) < n {
		m := Meter{Key: rint32(r), Pcode: valgen.RandInt64(r), K2: rint32(r), Time: valgen.RandInt64(r), Count: rint32(r), Error: rint32(r),
			Actx: rint32(r), FetchCount: valgen.RandInt64(r), FetchTime: valgen.RandInt64(r)}
		if seen[m.Key] || seen2[[2]int64{m.Pcode, int64(m.K2)}] {
			continue
		}
		seen[m.Key], seen2[[2]int64{m.Pcode, int64(m.K2)}] = true, true
		ms = append(ms, m)
	}
	return &ms
}

func randPairs(r *rand.Rand, n int) [][2]int32 {
	seen := map[int32]bool{}
	var out [][2]int32
	for len(out) < n {
		k := rint32(r)
		if r.Intn(2) == 0 {
			k = int32(r.Intn(40))
		}
		if seen[k] {
			continue
		}
		seen[k] = true
		out = append(out, [2]int32{k, rint32(r)})
	}
	return out
}

func shorts(r *rand.Rand, n int) []int16 {
	out := make([]int16, n)
	for i := range out {
		out[i] = int16(valgen.RandInt64(r))
	}
	return out
}

func randCounter(r *rand.Rand, smallBags bool) *CounterShape {
	c := &CounterShape{Scal: map[string]int64{}}
	probe := pack.NewCounterPack1()
	allZero := r.Intn(10) == 0
	for _, f := range counterFields {
		c.Scal[f.name] = drawScalar(r, f.ptr(probe), allZero)
	}
	// mode: 0 every section absent, 1 every section present, else each by coin
	mode := r.Intn(5)
	has := func() bool { return mode == 1 || (mode != 0 && r.Intn(2) == 0) }
	sec := func() int { return count012(r, 40) }
	c.ActSvcNil, c.ActiveNil = r.Intn(5) == 0, r.Intn(5) == 0
	c.ActSvcSlice = shorts(r, []int{0, 3, 3, 3, 255, r.Intn(6)}[r.Intn(6)])
	c.ActiveStat = shorts(r, []int{0, 5, 5, 5, 255, r.Intn(8)}[r.Intn(6)])
	bag := 7
	if smallBags {
		bag = 2
	}
	c.DbActive, c.DbIdle = randPairs(r, r.Intn(bag)), randPairs(r, r.Intn(bag))
	if !has() {
		c.DbActiveNil, c.DbIdleNil = r.Intn(3) > 0, r.Intn(3) > 0
		if !c.DbActiveNil && !c.DbIdleNil {
			c.DbIdleNil = true
		}
	}
	if has() {
		c.Netstat = &[4]int32{rint32(r), rint32(r), rint32(r), rint32(r)}
	}
	if has() {
		c.Websocket = &[3]int64{int64(rint32(r)), valgen.RandInt64(r), valgen.RandInt64(r)}
	}
	if has() {
		b := 10
		c.Extra = valgen.RandOf(r, valgen.TIntMap, 1, &valgen.Opts{MaxWidth: 6, MaxBlob: 300, Budget: &b})
	}
	if has() {
		c.Oid = randMeters(r, sec())
	}
	if has() {
		c.Sql = randMeters(r, sec())
	}
	if has() {
		c.Httpc = randMeters(r, sec())
	}
	if has() {
		c.Group = randMeters(r, sec())
	}
	if has() {
		c.POid = randMeters(r, sec())
	}
	if has() {
		c.Unknown = &(*randMeters(r, 1))[0]
	}
	return c
}
