package c05

import (
	"fmt"

	"verifharness/valgen"
)

// Exhaustive small world (B): for every pack type, every header form, every
// optional section absent / present, maps and lists of 0, 1 and 2 entries.
// The same world MC_PackWire explores on the specification, built here with
// the real constructors and written by the real writers.

var enumHdrs = []Hdr{
	{Pcode: 5, Oid: 7, Time: 1000},
	{Pcode: 70000, Oid: -1, Okind: 3, Time: 1},
	{Pcode: 0x0102030405060708, Onode: -1, Time: -1},
	{Pcode: -9, Oid: 1, Okind: 9, Onode: 9},
}

func smallMap(n int) *valgen.Node {
	m := valgen.Map()
	if n >= 1 {
		m.Put([]byte("a"), valgen.Text([]byte("x")))
	}
	if n >= 2 {
		m.Put([]byte("bc"), valgen.Decimal(300))
	}
	return m
}

func smallTags(n int) *valgen.Node {
	m := valgen.Map()
	if n >= 1 {
		m.Put([]byte("a"), valgen.Text([]byte("x")))
	}
	if n >= 2 {
		m.Put([]byte("bc"), valgen.Text([]byte{}))
	}
	return m
}

var secNames = []string{"db", "net", "ws", "extra", "oid", "sql", "httpc", "group", "unknown", "poid", "slices"}

func take(ms []Meter, lv int) *[]Meter {
	if lv == 0 {
		return nil
	}
	n := lv - 1
	out := append([]Meter{}, ms[:n]...)
	return &out
}

var enumMeters = []Meter{
	{Key: 1, Pcode: 5, K2: 0, Time: 10, Count: 2, Error: 0, Actx: 1, FetchCount: 1, FetchTime: 300},
	{Key: -1, Pcode: 10, K2: -2, Time: 70000, Count: 1, Error: 1, Actx: 0, FetchCount: 2, FetchTime: 600},
}

func enumCounter(f map[string]int) *CounterShape {
	c := &CounterShape{Scal: map[string]int64{}}
	for i, fl := range counterFields {
		switch i % 3 {
		case 0:
			c.Scal[fl.name] = 0
		case 1:
			c.Scal[fl.name] = int64(i) * 1000
		default:
			c.Scal[fl.name] = -int64(i)
		}
	}
	pairs := [][2]int32{{1, 2}, {300, 0}}
	n := func(lv int) int {
		if lv <= 1 {
			return 0
		}
		return lv - 1
	}
	if f["db"] == 0 {
		c.DbActiveNil, c.DbIdleNil = true, true
	} else {
		c.DbActive, c.DbIdle = pairs[:n(f["db"])], pairs[:n(f["db"])]
	}
	if f["net"] > 0 {
		c.Netstat = &[4]int32{1, 0, 2, 300}
	}
	if f["ws"] > 0 {
		c.Websocket = &[3]int64{1, 70000, 0}
	}
	if f["extra"] > 0 {
		m := valgen.IntMap()
		if f["extra"] >= 2 {
			m.IPut(1, valgen.Text([]byte("x")))
		}
		if f["extra"] >= 3 {
			m.IPut(-1, valgen.Decimal(3))
		}
		c.Extra = m
	}
	c.Oid, c.Sql, c.Httpc, c.Group, c.POid = take(enumMeters, f["oid"]), take(enumMeters, f["sql"]), take(enumMeters, f["httpc"]), take(enumMeters, f["group"]), take(enumMeters, f["poid"])
	if f["unknown"] > 0 {
		c.Unknown = &Meter{Time: 9, Count: 1, Actx: 1}
	}
	switch f["slices"] {
	case 0:
		c.ActSvcNil, c.ActiveStat = true, []int16{1, -1, 2}
	case 1:
		c.ActSvcSlice, c.ActiveNil = []int16{}, true
	default:
		c.ActSvcSlice, c.ActiveStat = []int16{1, -1}[:f["slices"]-1], []int16{}
	}
	return c
}

// enumShapes lists the small world; name identifies the case in the evidence.
func enumShapes() (out []*Shape, names []string) {
	add := func(name string, s *Shape) {
		for hi, h := range enumHdrs {
			c := *s
			c.Hdr = h
			out = append(out, &c)
			names = append(names, fmt.Sprintf("%s/h%d", name, hi))
		}
	}
	for i := 0; i <= 2; i++ {
		for j := 0; j <= 2; j++ {
			for _, via := range []bool{false, true} {
				add(fmt.Sprintf("tagcount/t%d/d%d/%v", i, j, via), &Shape{Kind: "tagcount", Category: "c", Tags: smallTags(i), TagsViaPut: via, Data: smallMap(j)})
			}
			for _, h := range []int64{0, 77} {
				add(fmt.Sprintf("logsink/t%d/f%d/h%d", i, j, h), &Shape{Kind: "logsink", TagHash: h, Tags: smallMap(i), Line: 300, Content: "hi", Fields: smallMap(j)})
			}
		}
		add(fmt.Sprintf("logsink/t%d/fnil", i), &Shape{Kind: "logsink", Category: "c", Tags: smallMap(i), Line: -1})
		recs := []TextRec{{1, 9, "s"}, {255, -1, ""}}
		add(fmt.Sprintf("text/%d", i), &Shape{Kind: "text", Recs: recs[:i]})
		add(fmt.Sprintf("param/%d", i), &Shape{Kind: "param", Id: 4, Request: 1, Keys: []string{"a", ""}[:i], Vals: []*valgen.Node{valgen.Text([]byte("x")), smallMap(1)}[:i]})
		for _, u := range []string{"", "u1"} {
			for _, e := range []bool{false, true} {
				for _, st := range []int32{0, -35} {
					add(fmt.Sprintf("event/%d/%s/%v/%d", i, u, e, st), &Shape{Kind: "event", Level: 20, Title: "t", Uuid: u, Esc: e, Status: st, Otype: 1200,
						AttrK: []string{"a", "_esca_"}[:i], AttrV: []string{"x", "?"}[:i]})
				}
			}
		}
	}
	for _, st := range []byte{0, 1} {
		add(fmt.Sprintf("zip/%d/nil", st), &Shape{Kind: "zip", ZStatus: st, ZCount: 2, ZNil: true})
		add(fmt.Sprintf("zip/%d/empty", st), &Shape{Kind: "zip", ZStatus: st, ZCount: 0, ZRecords: []byte{}})
		add(fmt.Sprintf("zip/%d/3", st), &Shape{Kind: "zip", ZStatus: st, ZCount: 2, ZRecords: []byte{1, 2, 3}})
	}
	for _, k := range []int32{0, 546} {
		s := &Shape{Kind: "hitmap", Hit: make([]int32, 120), Err: make([]int32, 120)}
		for i := range s.Hit {
			s.Hit[i], s.Err[i] = int32(i+1)*k, k
		}
		add(fmt.Sprintf("hitmap/%d", k), s)
	}
	for _, t := range secNames {
		for lv := 0; lv <= 3; lv++ {
			for _, base := range []int{0, 2} {
				f := map[string]int{}
				for _, s := range secNames {
					f[s] = base
				}
				f[t] = lv
				add(fmt.Sprintf("counter/%s/%d/base%d", t, lv, base), &Shape{Kind: "counter", Counter: enumCounter(f)})
			}
		}
	}
	return
}
