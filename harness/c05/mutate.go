package c05

// Histories of ONE pack object (Trace_PackObj.tla): the pack is built, changed
// through its public mutators / exported fields and written several times.
// The harness reports the calls and their arguments; the content the object
// has at each write is derived by the specification, never reported from here.

import (
	"encoding/binary"
	"fmt"
	"math"
	"math/rand"

	"github.com/whatap/golib/io"
	"github.com/whatap/golib/lang/pack"
	"github.com/whatap/golib/lang/value"
	"github.com/whatap/golib/util/hmap"

	"verifharness/core"
	"verifharness/valgen"
)

type obj struct {
	c    *core.Ctx
	t    *core.Trace
	r    *rand.Rand
	kind string
	p    pack.Pack
	last []byte // the bytes of the last write
	dead bool   // a call panicked: the history ends
	ops  map[string]bool
}

func absOf(p pack.Pack) *pack.AbstractPack {
	switch x := p.(type) {
	case *pack.TagCountPack:
		return &x.AbstractPack
	case *pack.LogSinkPack:
		return &x.AbstractPack
	case *pack.TextPack:
		return &x.AbstractPack
	case *pack.ParamPack:
		return &x.AbstractPack
	case *pack.EventPack:
		return &x.AbstractPack
	case *pack.ZipPack:
		return &x.AbstractPack
	case *pack.HitMapPack1:
		return &x.AbstractPack
	case *pack.CounterPack1:
		return &x.AbstractPack
	}
	panic(fmt.Sprintf("c05: pack %T", p))
}

// the tag hash the object shows (tag-count: public getter, log-sink: exported field)
func (o *obj) hash(ev core.Ev) {
	switch x := o.p.(type) {
	case *pack.TagCountPack:
		ev["hash"] = core.W8(x.GetTagHash())
	case *pack.LogSinkPack:
		ev["hash"] = core.W8(x.TagHash)
	}
}

func newObj(c *core.Ctx, t *core.Trace, r *rand.Rand, s *Shape) *obj {
	o := &obj{c: c, t: t, r: r, kind: s.Kind, ops: map[string]bool{}}
	var proj core.Ev
	if msg := core.Guard(func() { o.p, proj = realize(s) }); msg != "" {
		t.Emit(core.Ev{"ev": "Panic", "at": "New", "kind": s.Kind, "msg": msg})
		o.dead = true
		return o
	}
	t.Emit(core.Ev{"ev": "New", "kind": s.Kind, "p": proj})
	return o
}

func (o *obj) write() {
	if o.dead {
		return
	}
	var b []byte
	if msg := core.Guard(func() { b = pack.ToBytesPack(o.p) }); msg != "" {
		o.t.Emit(core.Ev{"ev": "Panic", "at": "Write", "kind": o.kind, "msg": msg})
		o.dead = true
		return
	}
	o.last = b
	ev := core.Ev{"ev": "Write", "bytes": core.Cp(b)}
	o.hash(ev)
	o.t.Emit(ev)
	o.ops["write"] = true
}

var rereadKinds = map[string]bool{"tagcount": true, "logsink": true, "text": true, "param": true, "zip": true}

// reread replaces the object by the decoded bytes of the last write
func (o *obj) reread() {
	if o.dead || o.last == nil || !rereadKinds[o.kind] {
		return
	}
	var q pack.Pack
	if msg := core.Guard(func() { q = pack.ToPack(o.last) }); msg != "" {
		o.t.Emit(core.Ev{"ev": "Panic", "at": "Reread", "kind": o.kind, "msg": msg})
		o.dead = true
		return
	}
	if q == nil || q.GetPackType() != o.p.GetPackType() {
		o.t.Emit(core.Ev{"ev": "Panic", "at": "Reread", "kind": o.kind, "msg": fmt.Sprintf("decoded to %T", q)})
		o.dead = true
		return
	}
	o.p = q
	o.t.Emit(core.Ev{"ev": "Reread"})
	o.ops["reread"] = true
}

// readInto: the object's own Read is handed the message of ANOTHER, freshly built pack of its
// kind (a receiver that decodes every message into one object and forwards it).  From then on
// the object is that pack: the writes that follow are judged against its content.
func (o *obj) readInto() {
	if o.dead || !rereadKinds[o.kind] {
		return
	}
	s2 := randShape(o.r, o.kind, true)
	var proj core.Ev
	var b2 []byte
	if msg := core.Guard(func() {
		var p2 pack.Pack
		p2, proj = realize(s2)
		b2 = append([]byte(nil), pack.ToBytesPack(p2)...)
	}); msg != "" {
		o.t.Emit(core.Ev{"ev": "Panic", "at": "ReadInto.other", "kind": o.kind, "msg": msg})
		o.dead = true
		return
	}
	if msg := core.Guard(func() { o.p.Read(io.NewDataInputX(append([]byte(nil), b2[2:]...))) }); msg != "" {
		o.t.Emit(core.Ev{"ev": "Panic", "at": "ReadInto", "kind": o.kind, "msg": msg})
		o.dead = true
		return
	}
	ev := core.Ev{"ev": "ReadInto", "p": proj, "bytes": core.Cp(b2)}
	o.hash(ev)
	o.t.Emit(ev)
	o.ops["readinto"] = true
}

// mut performs one call on the real object and records it
func (o *obj) mut(m core.Ev, f func() interface{}) {
	if o.dead {
		return
	}
	var res interface{}
	if msg := core.Guard(func() { res = f() }); msg != "" {
		o.t.Emit(core.Ev{"ev": "Panic", "at": "Mut", "kind": o.kind, "m": m, "msg": msg})
		o.dead = true
		return
	}
	ev := core.Ev{"ev": "Mut", "m": m}
	if res != nil {
		ev["res"] = res
	}
	o.hash(ev)
	o.t.Emit(ev)
	op := m["op"].(string)
	if f, ok := m["field"]; ok {
		op += ":" + f.(string)
	}
	o.ops[op] = true
}

func set(field string, val interface{}) core.Ev {
	return core.Ev{"op": "set", "field": field, "val": val}
}

func zeroOr(r *rand.Rand, v int64) int64 {
	if r.Intn(2) == 0 {
		return 0
	}
	return v
}

// one header field, through the setter of the Pack interface or by assignment
func (o *obj) mutHeader() {
	r, a := o.r, absOf(o.p)
	direct := r.Intn(2) == 0
	switch r.Intn(7) {
	case 0:
		v := valgen.RandInt64(r)
		o.mut(set("pcode", core.W8(v)), func() interface{} {
			if direct {
				a.Pcode = v
			} else {
				o.p.SetPCODE(v)
			}
			return nil
		})
	case 1, 2:
		v := int32(zeroOr(r, int64(nz32(r))))
		o.mut(set("oid", core.W8(int64(v))), func() interface{} {
			if direct {
				a.Oid = v
			} else {
				o.p.SetOID(v)
			}
			return nil
		})
	case 3:
		v := int32(zeroOr(r, int64(nz32(r))))
		o.mut(set("okind", core.W8(int64(v))), func() interface{} {
			if direct {
				a.Okind = v
			} else {
				o.p.SetOKIND(v)
			}
			return nil
		})
	case 4, 5:
		v := int32(zeroOr(r, int64(nz32(r))))
		o.mut(set("onode", core.W8(int64(v))), func() interface{} {
			if direct {
				a.Onode = v
			} else {
				o.p.SetONODE(v)
			}
			return nil
		})
	default:
		v := valgen.RandInt64(r)
		o.mut(set("time", core.W8(v)), func() interface{} {
			if direct {
				a.Time = v
			} else {
				o.p.SetTime(v)
			}
			return nil
		})
	}
}

var tagKeys = []string{"tag0", "tag1", "tag2", "oid", "okind", "onode", ""}

func tagKey(r *rand.Rand) string {
	if r.Intn(5) == 0 {
		return rtext(r, 30)
	}
	return tagKeys[r.Intn(len(tagKeys))]
}

// a tag map over the key pool (so that later calls meet keys that are there)
func poolTags(r *rand.Rand, n int) *valgen.Node {
	m := valgen.Map()
	seen := map[string]bool{}
	for tries := 0; len(m.Keys) < n && tries < 40; tries++ {
		k := tagKey(r)
		if seen[k] {
			continue
		}
		seen[k] = true
		if r.Intn(3) == 0 {
			m.Put([]byte(k), valgen.Decimal(valgen.RandInt64(r)))
		} else {
			m.Put([]byte(k), valgen.Text([]byte(rtext(r, 60))))
		}
	}
	return m
}

func smallVal(r *rand.Rand) *valgen.Node {
	b := 6
	return valgen.Rand(r, 1, &valgen.Opts{MaxWidth: 4, MaxBlob: 60, Budget: &b})
}

func smallAnyMap(r *rand.Rand) *valgen.Node {
	b := 8
	return valgen.RandOf(r, valgen.TMap, 1, &valgen.Opts{MaxWidth: 4, MaxBlob: 60, Budget: &b})
}

// a Go scalar for TagCountPack.Put and the value it is documented to become
func goScalar(r *rand.Rand) (interface{}, *valgen.Node) {
	v := valgen.RandInt64(r)
	switch r.Intn(11) {
	case 0:
		return int(v), valgen.Decimal(v)
	case 1:
		return int16(v), valgen.Decimal(int64(int16(v)))
	case 2:
		return int32(v), valgen.Decimal(int64(int32(v)))
	case 3:
		return v, valgen.Decimal(v)
	case 4:
		return uint(uint32(v)), valgen.Decimal(int64(uint32(v)))
	case 5:
		return uint32(v), valgen.Decimal(int64(uint32(v)))
	case 6:
		u := uint64(v) &^ (1 << 63)
		return u, valgen.Decimal(int64(u))
	case 7:
		b := valgen.RandF32(r, false)
		return math.Float32frombits(b), valgen.Float(b)
	case 8:
		b := valgen.RandF64(r, false)
		return math.Float64frombits(b), valgen.Double(b)
	case 9:
		s := rtext(r, 300)
		return s, valgen.Text([]byte(s))
	default:
		n := smallVal(r)
		return valgen.Build(n), n
	}
}

// the blob prefix and the decimal of the stream format (to build an ARGUMENT
// for SetContentBytes; the specification decodes it on its own)
func blobOf(b []byte) []byte {
	n := len(b)
	var out []byte
	switch {
	case n <= 253:
		out = []byte{byte(n)}
	case n <= 65535:
		out = []byte{255, byte(n >> 8), byte(n)}
	default:
		out = []byte{254, 0, 0, 0, 0}
		binary.BigEndian.PutUint32(out[1:], uint32(n))
	}
	return append(out, b...)
}

func decimalOf(v int64) []byte {
	switch {
	case v == 0:
		return []byte{0}
	case v >= math.MinInt8 && v <= math.MaxInt8:
		return []byte{1, byte(v)}
	case v >= math.MinInt16 && v <= math.MaxInt16:
		return []byte{2, byte(v >> 8), byte(v)}
	case v >= -(1<<23) && v < 1<<23:
		return []byte{3, byte(v >> 16), byte(v >> 8), byte(v)}
	case v >= math.MinInt32 && v <= math.MaxInt32:
		return []byte{4, byte(v >> 24), byte(v >> 16), byte(v >> 8), byte(v)}
	case v >= -(1<<39) && v < 1<<39:
		return []byte{5, byte(v >> 32), byte(v >> 24), byte(v >> 16), byte(v >> 8), byte(v)}
	}
	out := make([]byte, 9)
	out[0] = 8
	binary.BigEndian.PutUint64(out[1:], uint64(v))
	return out
}

func (o *obj) mutTagCount() {
	r, x := o.r, o.p.(*pack.TagCountPack)
	switch r.Intn(9) {
	case 0, 1, 2:
		k, v := tagKey(r), rtext(r, 300)
		o.mut(core.Ev{"op": "putTag", "key": core.Str(k), "val": core.Str(v)}, func() interface{} { x.PutTag(k, v); return nil })
	case 3:
		k := []string{"d0", "d1", rtext(r, 30)}[r.Intn(3)]
		gv, n := goScalar(r)
		o.mut(core.Ev{"op": "mapPut", "field": "data", "key": core.Str(k), "val": valgen.Proj(n), "via": fmt.Sprintf("Put(%T)", gv)},
			func() interface{} { x.Put(k, gv); return nil })
	case 4:
		o.mut(core.Ev{"op": "mapClear", "field": "data", "via": "Clear"}, func() interface{} { x.Clear(); return nil })
	case 5:
		v := rtext(r, 300)
		o.mut(set("category", core.Str(v)), func() interface{} { x.Category = v; return nil })
	case 6:
		n := smallAnyMap(r)
		o.mut(set("data", valgen.Proj(n)), func() interface{} { x.Data = mapOf(n); return nil })
	case 7:
		// the exported tag map belongs to the caller only while no hash is cached (documented limit)
		if x.GetTagHash() != 0 {
			o.mutHeader()
			return
		}
		if r.Intn(2) == 0 {
			n := poolTags(r, r.Intn(4))
			o.mut(set("tags", valgen.Proj(n)), func() interface{} { x.Tags = mapOf(n); return nil })
		} else {
			k, n := tagKey(r), smallVal(r)
			o.mut(core.Ev{"op": "mapPut", "field": "tags", "key": core.Str(k), "val": valgen.Proj(n)}, func() interface{} { x.Tags.Put(k, valgen.Build(n)); return nil })
		}
	default:
		o.mutHeader()
	}
}

func (o *obj) mutLogSink() {
	r, x := o.r, o.p.(*pack.LogSinkPack)
	switch r.Intn(16) {
	case 0, 1, 2:
		o.mut(core.Ev{"op": "transfer"}, func() interface{} { x.TransferOidToTag(); return nil })
	case 3:
		o.mut(core.Ev{"op": "resetHash"}, func() interface{} { return core.Cp(x.ResetTagHash()) })
	case 4:
		v := zeroOr(r, valgen.RandInt64(r))
		o.mut(set("tagHash", core.W8(v)), func() interface{} { x.TagHash = v; return nil })
	case 5:
		n := poolTags(r, r.Intn(4))
		o.mut(set("tags", valgen.Proj(n)), func() interface{} { x.Tags = mapOf(n); return nil })
	case 6:
		k := tagKey(r)
		switch r.Intn(3) {
		case 0:
			v := valgen.RandInt64(r)
			o.mut(core.Ev{"op": "mapPut", "field": "tags", "key": core.Str(k), "val": valgen.Proj(valgen.Decimal(v)), "via": "PutLong"}, func() interface{} { x.Tags.PutLong(k, v); return nil })
		case 1:
			v := rtext(r, 60)
			o.mut(core.Ev{"op": "mapPut", "field": "tags", "key": core.Str(k), "val": valgen.Proj(valgen.Text([]byte(v))), "via": "PutString"}, func() interface{} { x.Tags.PutString(k, v); return nil })
		default:
			n := smallVal(r)
			o.mut(core.Ev{"op": "mapPut", "field": "tags", "key": core.Str(k), "val": valgen.Proj(n)}, func() interface{} { x.Tags.Put(k, valgen.Build(n)); return nil })
		}
	case 7:
		o.mut(core.Ev{"op": "mapClear", "field": "tags"}, func() interface{} { x.Tags.Clear(); return nil })
	case 8:
		v := rtext(r, 300)
		if r.Intn(2) == 0 {
			o.mut(set("content", core.Str(v)), func() interface{} { x.Content = v; return nil })
		} else {
			m := set("content", core.Str(v))
			m["via"] = "SetContent"
			o.mut(m, func() interface{} { x.SetContent(v); return nil })
		}
	case 9:
		var d []byte
		switch r.Intn(5) {
		case 0: // nil
		case 1:
			d = []byte{}
		case 2: // another version: ignored
			d = append([]byte{byte(2 + r.Intn(200))}, valgen.RandBytes(r, r.Intn(6))...)
		default:
			d = append([]byte{1}, blobOf([]byte(rtext(r, 300)))...)
			d = append(d, decimalOf(valgen.RandInt64(r))...)
			if r.Intn(4) == 0 {
				d = append(d, 7, 7) // bytes behind the blob are not looked at
			}
		}
		o.mut(core.Ev{"op": "contentBytes", "d": core.Cp(d)}, func() interface{} { x.SetContentBytes(d); return nil })
	case 10:
		v := valgen.RandInt64(r)
		o.mut(set("line", core.W8(v)), func() interface{} { x.Line = v; return nil })
	case 11:
		switch r.Intn(3) {
		case 0:
			o.mut(set("fields", valgen.Proj(valgen.Map())), func() interface{} { x.Fields = nil; return nil })
		default:
			n := smallAnyMap(r)
			o.mut(set("fields", valgen.Proj(n)), func() interface{} { x.Fields = mapOf(n); return nil })
		}
	case 12:
		if x.Fields == nil {
			o.mutHeader()
			return
		}
		if r.Intn(4) == 0 {
			o.mut(core.Ev{"op": "mapClear", "field": "fields"}, func() interface{} { x.Fields.Clear(); return nil })
			return
		}
		k, n := []string{"f0", "f1", rtext(r, 30)}[r.Intn(3)], smallVal(r)
		o.mut(core.Ev{"op": "mapPut", "field": "fields", "key": core.Str(k), "val": valgen.Proj(n)}, func() interface{} { x.Fields.Put(k, valgen.Build(n)); return nil })
	case 13:
		v := rtext(r, 300)
		o.mut(set("category", core.Str(v)), func() interface{} { x.Category = v; return nil })
	default:
		o.mutHeader()
	}
}

func textRecs(r *rand.Rand, n int) ([]pack.TextRec, []interface{}) {
	recs := make([]pack.TextRec, n)
	proj := make([]interface{}, n)
	for i := range recs {
		recs[i] = pack.TextRec{Div: byte(r.Intn(256)), Hash: rint32(r), Text: rtext(r, 300)}
		proj[i] = core.Ev{"div": int(recs[i].Div), "hash": core.W8(int64(recs[i].Hash)), "text": core.Str(recs[i].Text)}
	}
	return recs, proj
}

func (o *obj) mutText() {
	r, x := o.r, o.p.(*pack.TextPack)
	switch r.Intn(4) {
	case 0, 1:
		recs, proj := textRecs(r, 1)
		o.mut(core.Ev{"op": "addTexts", "recs": proj, "via": "AddText"}, func() interface{} { x.AddText(recs[0]); return nil })
	case 2:
		recs, proj := textRecs(r, r.Intn(4))
		o.mut(core.Ev{"op": "addTexts", "recs": proj, "via": "AddTexts"}, func() interface{} { x.AddTexts(recs); return nil })
	default:
		o.mutHeader()
	}
}

func (o *obj) mutParam() {
	r, x := o.r, o.p.(*pack.ParamPack)
	key := func() string { return []string{"k0", "k1", "k2", "", rtext(r, 30)}[r.Intn(5)] }
	switch r.Intn(8) {
	case 0, 1:
		k := key()
		switch r.Intn(3) {
		case 0:
			v := rtext(r, 300)
			o.mut(core.Ev{"op": "put", "key": core.Str(k), "val": valgen.Proj(valgen.Text([]byte(v))), "via": "PutString"}, func() interface{} { x.PutString(k, v); return nil })
		case 1:
			v := valgen.RandInt64(r)
			o.mut(core.Ev{"op": "put", "key": core.Str(k), "val": valgen.Proj(valgen.Decimal(v)), "via": "PutLong"}, func() interface{} { x.PutLong(k, v); return nil })
		default:
			n := smallVal(r)
			o.mut(core.Ev{"op": "put", "key": core.Str(k), "val": valgen.Proj(n)}, func() interface{} { x.Put(k, valgen.Build(n)); return nil })
		}
	case 2:
		if r.Intn(4) == 0 {
			o.mut(core.Ev{"op": "putAll", "map": valgen.Proj(valgen.Map()), "via": "SetMapValue(nil)"}, func() interface{} { x.SetMapValue(nil); return nil })
			return
		}
		n := valgen.Map()
		seen := map[string]bool{}
		for i, cnt := 0, r.Intn(4); i < cnt; i++ {
			k := key()
			if seen[k] {
				continue
			}
			seen[k] = true
			n.Put([]byte(k), smallVal(r))
		}
		o.mut(core.Ev{"op": "putAll", "map": valgen.Proj(n), "via": "SetMapValue"}, func() interface{} { x.SetMapValue(mapOf(n)); return nil })
	case 3:
		o.mut(core.Ev{"op": "toResponse"}, func() interface{} { x.ToResponse(); return nil })
	case 4:
		v := zeroOr(r, valgen.RandInt64(r))
		o.mut(set("request", core.W8(v)), func() interface{} { x.Request = v; return nil })
	case 5:
		v := valgen.RandInt64(r)
		o.mut(set("response", core.W8(v)), func() interface{} { x.Response = v; return nil })
	case 6:
		v := rint32(r)
		o.mut(set("id", core.W8(int64(v))), func() interface{} { x.Id = v; return nil })
	default:
		o.mutHeader()
	}
}

var attrKeys = []string{"a0", "a1", "_uuid_", "_esca_", "_status_", "_otype_", ""}

func (o *obj) mutEvent() {
	r, x := o.r, o.p.(*pack.EventPack)
	key := func() string {
		if r.Intn(6) == 0 {
			return rtext(r, 30)
		}
		return attrKeys[r.Intn(len(attrKeys))]
	}
	switch r.Intn(13) {
	case 0, 1:
		k, v := key(), rtext(r, 300)
		o.mut(core.Ev{"op": "attrPut", "k": core.Str(k), "v": core.Str(v)}, func() interface{} { x.Attr.Put(k, v); return nil })
	case 2:
		k := key()
		o.mut(core.Ev{"op": "attrRemove", "k": core.Str(k)}, func() interface{} { x.Attr.Remove(k); return nil })
	case 3:
		n := r.Intn(4)
		ks := uniqKeys(r, n)
		attrs := make([]interface{}, n)
		m := hmap.NewStringKeyLinkedMap()
		for i, k := range ks {
			v := rtext(r, 60)
			m.Put(k, v)
			attrs[i] = core.Ev{"k": core.Str(k), "v": core.Str(v)}
		}
		o.mut(set("attrs", attrs), func() interface{} { x.Attr = m; return nil })
	case 4:
		m := core.Ev{"op": "setUuid"}
		o.mut(m, func() interface{} { x.SetUuid(); m["uuid"] = core.Str(x.Uuid); return nil })
	case 5:
		v := []string{"", rtext(r, 40)}[r.Intn(2)]
		o.mut(set("uuid", core.Str(v)), func() interface{} { x.Uuid = v; return nil })
	case 6:
		v := r.Intn(2) == 0
		o.mut(set("escalation", v), func() interface{} { x.Escalation = v; return nil })
	case 7:
		v := []byte{0, 10, 20, 30, byte(r.Intn(256))}[r.Intn(5)]
		o.mut(set("level", int(v)), func() interface{} { x.Level = v; return nil })
	case 8:
		v := rtext(r, 300)
		o.mut(set("title", core.Str(v)), func() interface{} { x.Title = v; return nil })
	case 9:
		v := rtext(r, 300)
		o.mut(set("message", core.Str(v)), func() interface{} { x.Message = v; return nil })
	case 10:
		v := rint32(r)
		o.mut(set("status", core.W8(int64(v))), func() interface{} { x.Status = v; return nil })
	case 11:
		v := rint32(r)
		o.mut(set("otype", core.W8(int64(v))), func() interface{} { x.Otype = v; return nil })
	default:
		o.mutHeader()
	}
}

func (o *obj) mutZip() {
	r, x := o.r, o.p.(*pack.ZipPack)
	switch r.Intn(6) {
	case 0, 1:
		n := r.Intn(4)
		items := make([]pack.Pack, n)
		proj := make([]interface{}, n)
		for i := range items {
			s := randShape(r, kinds[r.Intn(len(kinds))], true)
			var pj core.Ev
			items[i], pj = realize(s)
			proj[i] = core.Ev{"kind": s.Kind, "p": pj}
		}
		o.mut(core.Ev{"op": "setRecords", "items": proj}, func() interface{} { x.SetRecords(items); return nil })
	case 2:
		var b []byte
		if r.Intn(4) > 0 {
			b = valgen.RandBytes(r, rlen(r, 400))
		}
		o.mut(set("records", core.Cp(b)), func() interface{} { x.Records = b; return nil })
	case 3:
		v := int(valgen.RandInt64(r))
		o.mut(set("recordCount", core.W8(int64(v))), func() interface{} { x.RecordCount = v; return nil })
	case 4:
		v := []byte{0, 1, byte(r.Intn(256))}[r.Intn(3)]
		o.mut(set("status", int(v)), func() interface{} { x.Status = v; return nil })
	default:
		o.mutHeader()
	}
}

var hitTimes = []int{0, 1, 124, 125, 4999, 5000, 5249, 5250, 9999, 10000, 10499, 10500, 19999, 20000, 20999, 21000, 39999, 40000,
	41999, 42000, 79999, 80000, 80001, 100000, 1 << 30}

func (o *obj) mutHitMap() {
	r, x := o.r, o.p.(*pack.HitMapPack1)
	switch r.Intn(6) {
	case 0, 1, 2:
		tm := hitTimes[r.Intn(len(hitTimes))]
		if r.Intn(3) == 0 {
			tm = r.Intn(90000)
		}
		e := r.Intn(3) == 0
		o.mut(core.Ev{"op": "add", "time": tm, "isError": e}, func() interface{} { x.Add(tm, e); return nil })
	case 3, 4:
		i := r.Intn(120)
		h := []int32{0, 1, 32767, 65535, 65536, math.MaxInt32, -1, rint32(r)}[r.Intn(8)]
		e := []int32{0, 1, 32767, 65535, math.MaxInt32, rint32(r)}[r.Intn(6)]
		o.mut(core.Ev{"op": "cell", "idx": i, "hit": core.W8(int64(h)), "err": core.W8(int64(e))}, func() interface{} { x.Hit[i], x.Error[i] = h, e; return nil })
	default:
		o.mutHeader()
	}
}

var counterSections = []string{"actSvcSlice", "activeStat", "dbOpt", "netstatOpt", "websocketOpt", "extraOpt", "txcallerOidMeter",
	"sqlMeter", "httpcMeter", "txcallerGroupMeter", "txcallerPOidMeter", "txcallerUnknown"}

func (o *obj) mutCounter() {
	r, x := o.r, o.p.(*pack.CounterPack1)
	switch r.Intn(5) {
	case 0, 1:
		f := counterFields[r.Intn(len(counterFields))]
		v := drawScalar(r, f.ptr(x), r.Intn(4) == 0)
		var pj interface{}
		m := core.Ev{"op": "set", "field": f.name}
		o.mut(m, func() interface{} { pj = setScalar(f.ptr(x), v); m["val"] = pj; return nil })
	case 2, 3:
		// one section as another counter pack has it
		var y *pack.CounterPack1
		var ev core.Ev
		if msg := core.Guard(func() {
			q, e := realizeCounter(Hdr{}, randCounter(r, true))
			y, ev = q.(*pack.CounterPack1), e
		}); msg != "" {
			panic("c05: " + msg)
		}
		sec := counterSections[r.Intn(len(counterSections))]
		o.mut(set(sec, ev[sec]), func() interface{} {
			switch sec {
			case "actSvcSlice":
				x.ActSvcSlice = y.ActSvcSlice
			case "activeStat":
				x.ActiveStat = y.ActiveStat
			case "dbOpt":
				x.DbNumActive, x.DbNumIdle = y.DbNumActive, y.DbNumIdle
			case "netstatOpt":
				x.Netstat = y.Netstat
			case "websocketOpt":
				x.Websocket = y.Websocket
			case "extraOpt":
				x.Extra = y.Extra
			case "txcallerOidMeter":
				x.TxcallerOidMeter = y.TxcallerOidMeter
			case "sqlMeter":
				x.SqlMeter = y.SqlMeter
			case "httpcMeter":
				x.HttpcMeter = y.HttpcMeter
			case "txcallerGroupMeter":
				x.TxcallerGroupMeter = y.TxcallerGroupMeter
			case "txcallerPOidMeter":
				x.TxcallerPOidMeter = y.TxcallerPOidMeter
			case "txcallerUnknown":
				x.TxcallerUnknown = y.TxcallerUnknown
			}
			return nil
		})
	default:
		o.mutHeader()
	}
}

func (o *obj) mutate() {
	if o.dead {
		return
	}
	switch o.kind {
	case "tagcount":
		o.mutTagCount()
	case "logsink":
		o.mutLogSink()
	case "text":
		o.mutText()
	case "param":
		o.mutParam()
	case "event":
		o.mutEvent()
	case "zip":
		o.mutZip()
	case "hitmap":
		o.mutHitMap()
	case "counter":
		o.mutCounter()
	}
}

func (o *obj) count(gen string) {
	key := gen + "|" + o.kind
	for _, k := range sortedKeys(o.ops) {
		key += "|" + k
	}
	o.c.Count(key, true)
}

func sortedKeys(m map[string]bool) []string {
	out := make([]string, 0, len(m))
	for k := range m {
		out = append(out, k)
	}
	for i := 1; i < len(out); i++ {
		for j := i; j > 0 && out[j] < out[j-1]; j-- {
			out[j], out[j-1] = out[j-1], out[j]
		}
	}
	return out
}

// mutCase (gen "mut"): a random pack of the kind; rounds of a few mutations
// followed by one or two writes, now and then continued on the decoded pack.
func mutCase(c *core.Ctx, t *core.Trace, kind string, cas int) {
	r := c.Rng("mut", cas)
	t.Reset("mut", cas, core.Ev{"kind": kind})
	light = true
	defer func() { light = false }()
	s := randShape(r, kind, true)
	switch kind {
	case "tagcount":
		if s.TagsViaPut || r.Intn(2) == 0 {
			s.Tags, s.TagsViaPut = poolTags(r, r.Intn(4)), false
		}
	case "logsink":
		if r.Intn(2) == 0 {
			s.Tags = poolTags(r, r.Intn(4))
		}
		s.Hdr.Oid, s.Hdr.Okind, s.Hdr.Onode = int32(zeroOr(r, int64(s.Hdr.Oid))), int32(zeroOr(r, int64(nz32(r)))), int32(zeroOr(r, int64(nz32(r))))
	}
	o := newObj(c, t, r, s)
	rounds := 2 + r.Intn(3)
	for i := 0; i < rounds && !o.dead; i++ {
		n := r.Intn(4)
		if i > 0 && n == 0 {
			n = 1
		}
		for j := 0; j < n; j++ {
			o.mutate()
		}
		o.write()
		if r.Intn(3) == 0 {
			o.write()
		}
		if r.Intn(5) == 0 {
			o.reread()
		}
		if r.Intn(4) == 0 {
			o.readInto()
			if r.Intn(2) == 0 {
				o.write()
			}
		}
	}
	o.count("mut")
	if cas%97 == 0 {
		c.Sample(map[string]interface{}{"gen": "mut", "case": cas, "kind": kind, "calls": sortedKeys(o.ops)})
	}
}

// ---- the tag hash, systematically (gen "hashenum") -----------------------------

// how the object came to its tag hash before the call under test
var hashRoutes = []string{"fresh", "written", "reset", "reread", "caller"}

func (o *obj) route(how string) {
	switch how {
	case "written":
		o.write()
	case "reset":
		x := o.p.(*pack.LogSinkPack)
		o.mut(core.Ev{"op": "resetHash"}, func() interface{} { return core.Cp(x.ResetTagHash()) })
	case "reread":
		o.write()
		o.reread()
	case "caller":
		x := o.p.(*pack.LogSinkPack)
		o.mut(set("tagHash", core.W8(77)), func() interface{} { x.TagHash = 77; return nil })
	}
}

// hashEnum: log-sink: every subset of {oid, okind, onode} non-zero x every
// subset of their tags already present x every route to the hash x ids set
// before / after the hash came about; then TransferOidToTag and two writes.
// tag-count: 0..2 tags x route x PutTag of a present / a new key / nothing.
func hashEnum(c *core.Ctx, t *core.Trace) int {
	cas := 0
	ids := [3]int32{1001, 55, 909}
	names := [3]string{"oid", "okind", "onode"}
	for nz := 0; nz < 8; nz++ {
		for pre := 0; pre < 8; pre++ {
			for _, how := range hashRoutes {
				for _, late := range []bool{false, true} {
					if c.Want("hashenum", cas) {
						t.Reset("hashenum", cas, core.Ev{"kind": "logsink", "nonzero": nz, "present": pre, "route": how, "late": late})
						tags := valgen.Map().Put([]byte("host"), valgen.Text([]byte("web-01")))
						for i := 0; i < 3; i++ {
							if pre&(1<<i) != 0 {
								tags.Put([]byte(names[i]), valgen.Decimal(5))
							}
						}
						s := &Shape{Kind: "logsink", Category: "AppLog", Tags: tags, Line: 18, Content: "ready", Hdr: Hdr{Pcode: 2024, Time: 1700000000000}}
						var h Hdr = s.Hdr
						for i, p := range []*int32{&h.Oid, &h.Okind, &h.Onode} {
							if nz&(1<<i) != 0 {
								*p = ids[i]
							}
						}
						if !late {
							s.Hdr = h
						}
						o := newObj(c, t, nil, s)
						o.route(how)
						if late {
							if h.Oid != 0 {
								o.mut(set("oid", core.W8(int64(h.Oid))), func() interface{} { o.p.SetOID(h.Oid); return nil })
							}
							if h.Okind != 0 {
								o.mut(set("okind", core.W8(int64(h.Okind))), func() interface{} { o.p.SetOKIND(h.Okind); return nil })
							}
							if h.Onode != 0 {
								o.mut(set("onode", core.W8(int64(h.Onode))), func() interface{} { o.p.SetONODE(h.Onode); return nil })
							}
						}
						if !o.dead {
							x := o.p.(*pack.LogSinkPack)
							o.mut(core.Ev{"op": "transfer"}, func() interface{} { x.TransferOidToTag(); return nil })
						}
						o.write()
						o.write()
						o.count("hashenum")
					}
					cas++
				}
			}
		}
	}
	for n := 0; n <= 2; n++ {
		for _, how := range []string{"fresh", "written", "reread"} {
			for op := 0; op < 3; op++ {
				if c.Want("hashenum", cas) {
					t.Reset("hashenum", cas, core.Ev{"kind": "tagcount", "tags": n, "route": how, "op": op})
					s := &Shape{Kind: "tagcount", Category: "c", Tags: smallTags(n), TagsViaPut: n == 2, Data: smallMap(1), Hdr: Hdr{Pcode: 5, Oid: 7, Time: 1000}}
					o := newObj(c, t, nil, s)
					o.route(how)
					if !o.dead && op > 0 {
						x := o.p.(*pack.TagCountPack)
						k := []string{"", "a", "new"}[op]
						o.mut(core.Ev{"op": "putTag", "key": core.Str(k), "val": core.Str("y")}, func() interface{} { x.PutTag(k, "y"); return nil })
					}
					o.write()
					o.write()
					o.count("hashenum")
				}
				cas++
			}
		}
	}
	return cas
}

// retagCase (gen "retag"): the tag hash under random sequences: a tag-count or
// log-sink pack over the key pool, calls that touch the tags, the ids or the
// hash, a write after every one or two of them.
func retagCase(c *core.Ctx, t *core.Trace, cas int) {
	r := c.Rng("retag", cas)
	t.Reset("retag", cas, nil)
	light = true
	defer func() { light = false }()
	if cas%2 == 0 {
		s := randShape(r, "tagcount", false)
		s.Tags, s.TagsViaPut = tagMap(r, 1+r.Intn(4)), true
		o := newObj(c, t, r, s)
		o.write()
		for i, n := 0, 1+r.Intn(3); i < n && !o.dead; i++ {
			x := o.p.(*pack.TagCountPack)
			k, v := fmt.Sprintf("added%d", cas), rtext(r, 40)+"'" // never the value the key has
			if r.Intn(2) == 0 && len(s.Tags.Keys) > 0 {
				k = string(s.Tags.Keys[r.Intn(len(s.Tags.Keys))])
			}
			o.mut(core.Ev{"op": "putTag", "key": core.Str(k), "val": core.Str(v)}, func() interface{} { x.PutTag(k, v); return nil })
			o.write()
			if r.Intn(4) == 0 {
				o.reread()
			}
		}
		o.count("retag")
		return
	}
	s := randShape(r, "logsink", false)
	s.Tags, s.TagHash = poolTags(r, 1+r.Intn(3)), 0
	s.Hdr.Oid, s.Hdr.Okind, s.Hdr.Onode = int32(zeroOr(r, int64(nz32(r)))), int32(zeroOr(r, int64(nz32(r)))), int32(zeroOr(r, int64(nz32(r))))
	o := newObj(c, t, r, s)
	o.write()
	for i, n := 0, 2+r.Intn(4); i < n && !o.dead; i++ {
		x := o.p.(*pack.LogSinkPack)
		switch r.Intn(6) {
		case 0, 1:
			o.mut(core.Ev{"op": "transfer"}, func() interface{} { x.TransferOidToTag(); return nil })
		case 2:
			o.mutHeader()
			o.mut(core.Ev{"op": "transfer"}, func() interface{} { x.TransferOidToTag(); return nil })
		case 3:
			o.mut(core.Ev{"op": "resetHash"}, func() interface{} { return core.Cp(x.ResetTagHash()) })
		case 4:
			k := tagKeys[r.Intn(len(tagKeys))]
			o.mut(core.Ev{"op": "mapClear", "field": "tags"}, func() interface{} { x.Tags.Clear(); return nil })
			o.mut(set("tagHash", core.W8(0)), func() interface{} { x.TagHash = 0; return nil })
			o.mut(core.Ev{"op": "mapPut", "field": "tags", "key": core.Str(k), "val": valgen.Proj(valgen.Text([]byte("v")))}, func() interface{} { x.Tags.PutString(k, "v"); return nil })
		default:
			o.mutHeader()
		}
		if r.Intn(3) > 0 {
			o.write()
		}
		if r.Intn(6) == 0 {
			o.write()
			o.reread()
		}
	}
	o.write()
	o.count("retag")
}

var _ = value.NewMapValue
