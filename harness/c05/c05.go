// Package c05 drives golib's real pack writers and the real one-way TCP client
// and records, for Trace_PackWire.tla, the projection of every pack together
// with the bytes golib produced for it: pack.ToBytesPack(p), and the frame a
// loopback peer owned by the harness actually received from a
// OneWayTcpClient.  The harness only records; TLC compares the bytes with the
// reference encoders of spec/PackWire.tla.
package c05

import (
	"encoding/binary"
	"errors"
	"fmt"
	"io"
	"math/rand"
	"net"
	"time"

	"github.com/whatap/golib/lang/pack"
	wnet "github.com/whatap/golib/net"
	"github.com/whatap/golib/net/oneway"

	"verifharness/core"
	"verifharness/valgen"
)

func init() { core.Register("c05", Run) }

var kinds = []string{"tagcount", "logsink", "text", "param", "event", "zip", "hitmap", "counter"}

func shapeKey(s *Shape, n int) string {
	return fmt.Sprintf("%s|long=%v|len=%d", s.Kind, s.Hdr.long(), n)
}

// enc records one ToBytesPack (twice on the same object) of the pack of shape s.
func enc(c *core.Ctx, t *core.Trace, s *Shape) {
	p, proj := realize(s)
	encPack(c, t, s, p, proj)
}

func encPack(c *core.Ctx, t *core.Trace, s *Shape, p pack.Pack, proj core.Ev) {
	var b1, b2 []byte
	msg := core.Guard(func() {
		b1 = pack.ToBytesPack(p)
		b2 = pack.ToBytesPack(p)
	})
	if msg != "" {
		t.Emit(core.Ev{"ev": "Panic", "kind": s.Kind, "p": proj, "msg": msg})
		c.Count(shapeKey(s, -1), true)
		return
	}
	t.Emit(core.Ev{"ev": "Enc", "kind": s.Kind, "p": proj, "bytes": core.Cp(b1), "again": core.Cp(b2)})
	c.Count(shapeKey(s, len(b1)), true)
}

// ---- the loopback peer ------------------------------------------------------

const netWait = 20 * time.Second

// readFrame takes one frame off the stream the way a collector does: 22 header
// bytes, then as many bytes as the length field (offset 18, 4 bytes) says.
// On a timeout it returns what has arrived (the client has flushed before).
func readFrame(conn net.Conn) ([]byte, error) {
	conn.SetReadDeadline(time.Now().Add(netWait))
	h := make([]byte, 22)
	n, err := io.ReadFull(conn, h)
	if err != nil {
		return h[:n], err
	}
	ln := binary.BigEndian.Uint32(h[18:22])
	if ln > 1<<28 {
		return h, errors.New("length field beyond 256 MiB")
	}
	body := make([]byte, ln)
	m, err := io.ReadFull(conn, body)
	return append(h, body[:m]...), err
}

type sendSpec struct {
	shape    *Shape
	override string // per-send license ("" = none)
	setLic   *string // assign the client's License field before this send
}

// frameCase: a fresh listener and a fresh client; a few packs are sent, the
// peer takes each frame off the stream; then the client closes.
func frameCase(c *core.Ctx, t *core.Trace, gen string, cas int) error {
	r := c.Rng(gen, cas)
	t.Reset(gen, cas, core.Ev{"nondet": true})
	ln, err := net.Listen("tcp", "127.0.0.1:0")
	if err != nil {
		return err
	}
	defer ln.Close()
	lic := randLicense(r)
	useQueue := cas%40 == 7 // the queued path hands the pack to the background sender, which polls (up to 1.7 s per frame)
	var opts []oneway.OneWayTcpClientOption
	if r.Intn(2) == 0 {
		opts = append(opts, oneway.WithServers([]string{ln.Addr().String()}), oneway.WithLicense(lic), oneway.WithPcode(valgen.RandInt64(r)))
	} else {
		opts = append(opts, oneway.WithWhatapTcpServer(&wnet.WhatapTcpServerInfo{License: lic, Hosts: []string{ln.Addr().String()}, Pcode: valgen.RandInt64(r), Oid: rint32(r)}))
	}
	if useQueue {
		opts = append(opts, oneway.WithUseQueue())
	}
	client := oneway.GetOneWayTcpClient(opts...)
	defer client.Destroy()
	ln.(*net.TCPListener).SetDeadline(time.Now().Add(netWait))
	conn, err := ln.Accept()
	if err != nil {
		return fmt.Errorf("c05: the client did not connect: %v", err)
	}
	defer conn.Close()

	// every other connection: the caller holds a result of ToBytesPack (uncopied) across the client's sends --
	// the frames the client builds are later encoder calls; the held bytes are reported after the last frame
	var held []byte
	var heldKind string
	var heldProj core.Ev
	if cas%2 == 1 {
		hr := c.Rng("frame-held", cas) // a generator of its own: the draws of the frames stay what they were
		light = true
		hs := randShape(hr, kinds[hr.Intn(len(kinds))], true)
		light = false
		var hp pack.Pack
		hp, heldProj = realize(hs)
		heldKind = hs.Kind
		if msg := core.Guard(func() { held = pack.ToBytesPack(hp) }); msg != "" {
			t.Emit(core.Ev{"ev": "Panic", "msg": msg})
			return nil
		}
	}

	k := 1 + r.Intn(3)
	if useQueue {
		k = 1
	}
	for i := 0; i < k; i++ {
		s := randShape(r, kinds[r.Intn(len(kinds))], true)
		if i == 0 {
			s = randShape(r, kinds[(cas+i)%len(kinds)], true)
		}
		p, proj := realize(s)
		inForce := client.License
		if r.Intn(4) == 0 { // the license changes between sends (exported field, as ApplyConfig does)
			nl := randLicense(r)
			client.License = nl
			inForce = nl
		}
		var sopts []wnet.TcpClientOption
		switch r.Intn(4) {
		case 0:
			o := randLicense(r)
			sopts = append(sopts, wnet.WithLicense(o))
			if o != "" {
				inForce = o
			}
		case 1:
			sopts = append(sopts, wnet.WithLicense("")) // no override
		}
		t.Emit(core.Ev{"ev": "Send", "kind": s.Kind, "p": proj, "lic": core.Str(inForce), "queue": useQueue})
		var serr error
		msg := core.Guard(func() {
			if useQueue || r.Intn(2) == 0 {
				serr = client.SendFlush(p, true, sopts...)
			} else {
				serr = client.Send(p, sopts...)
			}
		})
		if msg != "" {
			t.Emit(core.Ev{"ev": "Panic", "msg": msg})
			return nil
		}
		if serr != nil {
			return fmt.Errorf("c05: send failed: %v", serr)
		}
		f, rerr := readFrame(conn)
		ev := core.Ev{"ev": "Recv", "bytes": core.Cp(f)}
		if rerr != nil {
			ev["err"] = rerr.Error()
		}
		t.Emit(ev)
		c.Count("frame|"+shapeKey(s, len(f))+fmt.Sprintf("|lic=%d|q=%v", len(inForce), useQueue), true)
		if cas < 2 && i == 0 {
			c.Sample(map[string]interface{}{"gen": gen, "case": cas, "kind": s.Kind, "license": inForce, "frame_len": len(f), "frame_head": fmt.Sprintf("% x", f[:min(len(f), 26)])})
		}
		if rerr != nil {
			return nil // TLC judges the partial frame
		}
	}
	if held != nil {
		t.Emit(core.Ev{"ev": "Enc", "kind": heldKind, "p": heldProj, "bytes": core.Cp(held), "held": true})
	}
	// stop the background sender before closing, then everything behind the last frame
	client.Destroy()
	client.Close()
	conn.SetReadDeadline(time.Now().Add(netWait))
	extra, rerr := io.ReadAll(conn)
	if rerr != nil {
		return fmt.Errorf("c05: no end of stream after Close: %v", rerr)
	}
	t.Emit(core.Ev{"ev": "Close", "extra": core.Cp(extra)})
	return nil
}

func min(a, b int) int {
	if a < b {
		return a
	}
	return b
}

func randLicense(r *rand.Rand) string {
	switch r.Intn(8) {
	case 0:
		return ""
	case 1:
		return "x4ibe2078g8ii-z1ur06g9tt5fbq-x2h9me3jv2o8mh" // the shape of a real license
	case 2:
		return string(valgen.RandText(r, 1+r.Intn(3)))
	case 3:
		return string(valgen.RandBytes(r, 1+r.Intn(40))) // arbitrary bytes
	case 4:
		return string(valgen.RandText(r, 200+r.Intn(100)))
	default:
		const al = "abcdefghijklmnopqrstuvwxyz0123456789-"
		b := make([]byte, 10+r.Intn(40))
		for i := range b {
			b[i] = al[r.Intn(len(al))]
		}
		return string(b)
	}
}

func Run(c *core.Ctx) error {
	c.Rule = "one case = one pack of one of the eight named types (tag-count, log-sink, text, parameter, event, zip, hit-map, counter) written by the real writer (pack.ToBytesPack, twice) or sent through a real OneWayTcpClient to a loopback peer, or one history of a pack object (built, changed through public mutators / exported fields, written 2..8 times), or one history of encoder outputs held by the caller (2..14 results of ToBytesPack / WritePack into 0..3 outputs of the caller kept uncopied, later calls incl. the reader and 2..4 goroutines encoding at once, every kept result looked at again); non-trivial: every case (each has a header and a body); distinct by (type, header form, encoded length[, license length, queued]) resp. (type, set of calls made)"
	t := c.Trace("c05_wire", "Trace_PackWire")

	// gen "enum" (B): the small world, exhaustively
	if c.WantGen("enum") {
		shapes, names := enumShapes()
		for cas, s := range shapes {
			if !c.Want("enum", cas) {
				continue
			}
			t.Reset("enum", cas, core.Ev{"name": names[cas]})
			enc(c, t, s)
		}
		c.SetExtra("enumerated_small_packs", len(shapes))
	}

	// gen "rand": random packs of every type
	if c.WantGen("rand") {
		n := c.Pick(60, 600)
		cas := 0
		for _, kind := range kinds {
			for i := 0; i < n; i++ {
				if c.Want("rand", cas) {
					r := c.Rng("rand", cas)
					t.Reset("rand", cas, core.Ev{"kind": kind})
					s := randShape(r, kind, false)
					enc(c, t, s)
					if i == 0 {
						enc(c, t, s) // a second, independently built object of the same shape
					}
					if i == 0 && (kind == "tagcount" || kind == "counter") {
						c.Sample(map[string]interface{}{"gen": "rand", "case": cas, "kind": kind, "header_long": s.Hdr.long()})
					}
				}
				cas++
			}
		}
	}

	// The pack OBJECT between writes (Trace_PackObj): built, changed through its
	// public mutators / exported fields, written again -- every write judged
	// against the content the specification derived for that moment.
	ot := c.Trace("c05_obj", "Trace_PackObj")

	// gen "hashenum": the cached tag hash of log-sink / tag-count packs, systematically
	if c.WantGen("hashenum") {
		c.SetExtra("enumerated_hash_histories", hashEnum(c, ot))
	}

	// gen "retag": the tag hash under random call sequences
	if c.WantGen("retag") {
		n := c.Pick(40, 600)
		for cas := 0; cas < n; cas++ {
			if c.Want("retag", cas) {
				retagCase(c, ot, cas)
			}
		}
	}

	// gen "mut": random call sequences over every public mutator of the eight pack types
	if c.WantGen("mut") {
		n := c.Pick(25, 400)
		cas := 0
		for _, kind := range kinds {
			for i := 0; i < n; i++ {
				if c.Want("mut", cas) {
					mutCase(c, ot, kind, cas)
				}
				cas++
			}
		}
	}

	// The encoder OUTPUT while the caller holds it (Trace_PackOut): the slices
	// handed out by ToBytesPack / the caller's own outputs after WritePack are
	// kept uncopied and looked at again after later encoder calls.
	ht := c.Trace("c05_out", "Trace_PackOut")
	if c.WantGen("hold") {
		n := c.Pick(160, 2400)
		for cas := 0; cas < n; cas++ {
			if c.Want("hold", cas) {
				holdCase(c, ht, cas)
			}
		}
	}

	// gen "frame": through the real client to a loopback peer
	if c.WantGen("frame") {
		n := c.Pick(150, 1700)
		for cas := 0; cas < n; cas++ {
			if !c.Want("frame", cas) {
				continue
			}
			if err := frameCase(c, t, "frame", cas); err != nil {
				return err
			}
		}
	}
	return nil
}
