module verifharness

go 1.21

require github.com/whatap/golib v0.0.0

replace github.com/whatap/golib => /repo
