module verifharness

go 1.21

require github.com/whatap/golib v0.0.0

require (
	github.com/google/uuid v1.3.0 // indirect
	golang.org/x/text v0.7.0 // indirect
)

replace github.com/whatap/golib => /repo
