module verifharness

go 1.21

require github.com/whatap/golib v0.0.0

require (
	github.com/davecgh/go-spew v1.1.1 // indirect
	github.com/google/uuid v1.3.0 // indirect
	github.com/magiconair/properties v1.8.7 // indirect
	github.com/pmezard/go-difflib v1.0.0 // indirect
	github.com/stretchr/objx v0.5.2 // indirect
	github.com/stretchr/testify v1.9.0 // indirect
	golang.org/x/text v0.7.0 // indirect
	gopkg.in/yaml.v3 v3.0.1 // indirect
)

replace github.com/whatap/golib => /repo
