package main

import _ "verifharness/c19"
