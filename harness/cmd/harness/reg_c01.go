package main

import _ "verifharness/c01"
