package main

import _ "verifharness/c06"
