package main

import _ "verifharness/c08"
