package main

import _ "verifharness/c13"
