package main

import _ "verifharness/c16"
