package main

import _ "verifharness/c11"
