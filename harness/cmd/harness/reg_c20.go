package main

import _ "verifharness/c20"
