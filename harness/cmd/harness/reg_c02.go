package main

import _ "verifharness/c02"
