package main

import _ "verifharness/c05"
