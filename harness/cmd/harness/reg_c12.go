package main

import _ "verifharness/c12"
