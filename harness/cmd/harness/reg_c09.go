package main

import _ "verifharness/c09"
