// Command harness runs one conformance driver against the real golib code and
// writes ndjson traces (judged by TLC) plus meta.json into -out.
package main

import (
	"flag"
	"fmt"
	"os"
	"strings"

	"verifharness/core"
)

func main() {
	tier := flag.String("tier", "quick", "quick|thorough")
	seed := flag.Int64("seed", 1, "seed")
	out := flag.String("out", ".", "output directory")
	gen := flag.String("gen", "", "only this generator (replay)")
	cas := flag.Int("case", -1, "only this case of -gen (replay)")
	args := flag.String("args", "", "k=v,k=v driver arguments")
	flag.Parse()
	if flag.NArg() != 1 {
		fmt.Fprintln(os.Stderr, "usage: harness [flags] <driver>; drivers:", core.IDs())
		os.Exit(2)
	}
	d := core.Lookup(flag.Arg(0))
	if d == nil {
		fmt.Fprintln(os.Stderr, "unknown driver", flag.Arg(0), "have", core.IDs())
		os.Exit(2)
	}
	c := core.NewCtx(*tier, *seed, *out)
	c.OnlyGen, c.OnlyCase = *gen, *cas
	for _, kv := range strings.Split(*args, ",") {
		if i := strings.IndexByte(kv, '='); i > 0 {
			c.Args[kv[:i]] = kv[i+1:]
		}
	}
	if err := d(c); err != nil {
		fmt.Fprintln(os.Stderr, "driver error:", err)
		os.Exit(2)
	}
	if err := c.Finish(); err != nil {
		fmt.Fprintln(os.Stderr, "finish:", err)
		os.Exit(2)
	}
}
