package main

import _ "verifharness/c14"
