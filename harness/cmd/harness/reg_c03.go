package main

import _ "verifharness/c03"
