package main

import _ "verifharness/c18"
