package main

import _ "verifharness/c17"
