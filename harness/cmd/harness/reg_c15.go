package main

import _ "verifharness/c15"
