package main

import _ "verifharness/c04"
