package main

import _ "verifharness/c10"
