package main

import _ "verifharness/c07"
