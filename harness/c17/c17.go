// Package c17 drives the real logger/logfile.FileLogger in a temporary home
// under a frozen virtual clock and records, after every action, the listing of
// <home>/logs and the bytes each file gained, for Trace_FileLogger.tla to judge.
//
// The harness only records: names, contents and messages go out as byte
// tuples; the only interpretation done here is finding the "<gNN#NNN>" token
// of a burst line so that the calls of a concurrent burst can be listed in the
// order the file itself gives them (no wall-clock ordering across goroutines).
package c17

import (
	"bytes"
	"context"
	"fmt"
	"io/fs"
	"math/rand"
	"os"
	"path/filepath"
	"regexp"
	"sort"
	"strconv"
	"strings"
	"sync"
	"sync/atomic"
	"time"

	"github.com/whatap/golib/config"
	"github.com/whatap/golib/logger/logfile"
	"github.com/whatap/golib/util/dateutil"

	"verifharness/core"
)

func init() { core.Register("c17", Run) }

const (
	base2000 = int64(946684800000) // 2000-01-01T00:00:00Z in ms
	dayMs    = 86400000
)

// ---------------------------------------------------------------- the clock

var clockOnce sync.Once

// freezeClock makes dateutil.Now() = dateutil.SyncTimeMillis + delta with a
// SyncTimeMillis nobody updates any more: golib's own "sync time" mode, with
// its ticker stopped.
func freezeClock() {
	clockOnce.Do(func() {
		dateutil.StartSyncTime()
		time.Sleep(5 * time.Millisecond)
		dateutil.StopSyncTime()
		// let a tick that was already in the channel drain
		for stable := 0; stable < 5; {
			a := dateutil.SyncTimeMillis
			time.Sleep(20 * time.Millisecond)
			if dateutil.SyncTimeMillis == a {
				stable++
			} else {
				stable = 0
			}
		}
		dateutil.SetDelta(0)
	})
}

func vtime(d, ms int) int64 { return base2000 + int64(d)*dayMs + int64(ms) }

// ymd of a day index, standard library only.
func ymd(d int) string {
	return time.UnixMilli(vtime(d, 0)).UTC().Format("20060102")
}

// ------------------------------------------------------------- one history

type conf struct {
	level, iv, keep int
	rot             bool
	so              bool // lines are also printed to standard output (WithStdout / log_stdout_enabled)
}

// optForm: which options the constructor is given, and in which form.
type optForm struct {
	so       int  // 0: WithStdout not given, 1: WithStdout(true), 2: WithStdout(false)
	homeVia  int  // 0: WithHomePath, 1: the environment variable WHATAP_HOME, 2: the working directory ("./")
	defName  bool // WithOnameLogID not given: the defaults "whatap" / "boot"
	defLevel bool // WithLevel not given: the default level (warn)
	extras   bool // WithContext and WithConfigObserver given as well
}

func (o optForm) String() string {
	return fmt.Sprintf("stdout=%s home=%s name=%v level=%v extras=%v", []string{"-", "on", "off"}[o.so],
		[]string{"option", "env", "cwd"}[o.homeVia], !o.defName, !o.defLevel, o.extras)
}

type hist struct {
	c       *core.Ctx
	t       *core.Trace
	rng     *rand.Rand
	root    string // private temporary directory; <home> is a sub-directory of it, so that <home> has siblings
	home    string
	seen    map[string][]byte
	lseen   map[string]string // symbolic links below logs/ and what they were seen to lead to
	rich    bool              // the temporary tree has siblings of logs/ and of <home>, and symbolic links
	lr      *rand.Rand
	beside  []string            // more files outside logs/ (relative to <home>)
	lg      *logfile.FileLogger // the active logger (index act of all)
	d, ms   int
	cf      conf
	id      string
	oname   string
	moved   int
	awayDir string  // where a logs directory that is moved away goes (outside the observed tree)
	all     []*slot // every logger of this home (several histories have more than one); all[0] is logger 1
	act     int
	extN    int
	err     error
	stats   map[string]int
	of      optForm            // how the loggers of this history are constructed
	decoy   []string           // names of decoy files put where a fallback of Read could look (outside <home>/logs)
	envOld  map[string]*string // environment variables changed by this history (restored at its end)
	cwdOld  string             // the working directory to go back to
	confN   int
}

func (h *hist) fail(f string, a ...interface{}) {
	if h.err == nil {
		h.err = fmt.Errorf(f, a...)
	}
}

func (h *hist) logs() string { return filepath.Join(h.home, "logs") }

// obs lists <home>/logs (regular files, directories, symbolic links) and every regular file of the
// temporary tree outside <home>/logs, with the standard library.
func (h *hist) obs() core.Ev {
	files := []core.Ev{}
	dirs := []core.Bytes{}
	links := []core.Ev{}
	now := map[string][]byte{}
	root := h.logs()
	filepath.WalkDir(root, func(p string, de fs.DirEntry, err error) error {
		if err != nil {
			return nil
		}
		rel, _ := filepath.Rel(root, p)
		if rel == "." {
			return nil
		}
		rel = filepath.ToSlash(rel)
		if de.IsDir() {
			dirs = append(dirs, core.Str(rel))
			return nil
		}
		if de.Type()&fs.ModeSymlink != 0 {
			lk := h.linkEv(rel)
			key := fmt.Sprint(lk["to"], lk["file"], lk["data"])
			if old, ok := h.lseen[rel]; ok && old != key {
				h.fail("symbolic link %s leads somewhere else than before", rel)
			}
			h.lseen[rel] = key
			links = append(links, lk)
			return nil
		}
		if !de.Type().IsRegular() {
			return nil
		}
		b, e := os.ReadFile(p)
		if e != nil {
			h.fail("observe %s: %v", p, e)
			return nil
		}
		old, had := h.seen[rel]
		whole := !(had && bytes.HasPrefix(b, old))
		add := b
		if !whole {
			add = b[len(old):]
		}
		files = append(files, core.Ev{"n": core.Str(rel), "size": len(b), "add": core.Cp(add), "whole": whole})
		now[rel] = b
		return nil
	})
	h.seen = now
	return core.Ev{"files": files, "dirs": dirs, "links": links, "out": h.outside(), "logs": h.logsState()}
}

// logsState: what stands at <home>/logs: a directory, nothing, or something that is no directory.
func (h *hist) logsState() string {
	st, err := os.Lstat(h.logs())
	switch {
	case err != nil:
		return "none"
	case st.IsDir():
		return "dir"
	}
	return "file"
}

// linkEv describes the symbolic link logs/<rel>: the real place it leads to as the segments of its path
// relative to <home> (after a first segment [0] = <home>; ".." segments first when it is beside <home>;
// empty: nowhere), whether that is a regular file, and the bytes of that file.  Standard library only.
func (h *hist) linkEv(rel string) core.Ev {
	p := filepath.Join(h.logs(), filepath.FromSlash(rel))
	to := []core.Bytes{}
	isFile := false
	data := []byte{}
	if real, err := filepath.EvalSymlinks(p); err == nil {
		if r, err := filepath.Rel(h.home, real); err == nil {
			to = append(to, core.Bytes{0})
			if r != "." {
				for _, seg := range strings.Split(filepath.ToSlash(r), "/") {
					to = append(to, core.Str(seg))
				}
			}
		}
		if st, err := os.Stat(real); err == nil && st.Mode().IsRegular() {
			if b, err := os.ReadFile(real); err == nil {
				isFile, data = true, b
			}
		}
	}
	return core.Ev{"n": core.Str(rel), "to": to, "file": isFile, "data": core.Cp(data)}
}

// outside: every regular file of the temporary tree that is not below <home>/logs, named relative to <home>
// (siblings of <home> begin with "../").  None of them may ever change.
func (h *hist) outside() []core.Ev {
	out := []core.Ev{}
	logs := h.logs()
	filepath.WalkDir(h.root, func(p string, de fs.DirEntry, err error) error {
		if err != nil {
			return nil
		}
		if p == logs {
			if de.IsDir() {
				return filepath.SkipDir
			}
			return nil // a regular file put where the directory was: the fault itself, not a file to protect
		}
		if !de.Type().IsRegular() {
			return nil
		}
		rel, _ := filepath.Rel(h.home, p)
		b, _ := os.ReadFile(p)
		out = append(out, core.Ev{"n": core.Str(filepath.ToSlash(rel)), "data": core.Cp(b)})
		return nil
	})
	return out
}

func (h *hist) clock(d, ms int) {
	if d < h.d || (d == h.d && ms < h.ms) {
		return
	}
	if d > 36500 { // golib's calendar table ends with 2099 (C19's subject)
		return
	}
	h.d, h.ms = d, ms
	dateutil.SyncTimeMillis = vtime(d, ms)
	h.t.Emit(core.Ev{"ev": "Clock", "d": d, "ms": ms})
}

func (h *hist) advance(dms int64) {
	t := int64(h.d)*dayMs + int64(h.ms) + dms
	h.clock(int(t/dayMs), int(t%dayMs))
}

func (h *hist) checkClock() {
	if got := dateutil.Now(); got != vtime(h.d, h.ms) {
		h.fail("virtual clock moved: have %d want %d", got, vtime(h.d, h.ms))
	}
}

func (h *hist) ext(rel string, data []byte) {
	p := filepath.Join(h.logs(), filepath.FromSlash(rel))
	if i := strings.LastIndexByte(rel, '/'); i > 0 {
		h.extDir(rel[:i])
	}
	os.MkdirAll(filepath.Dir(p), 0o755)
	if _, err := os.Lstat(p); err == nil {
		return
	}
	if err := os.WriteFile(p, data, 0o644); err != nil {
		h.fail("seed %s: %v", p, err)
		return
	}
	h.seen[rel] = append([]byte{}, data...)
	h.t.Emit(core.Ev{"ev": "Ext", "n": core.Str(rel), "data": core.Cp(data)})
}

func (h *hist) extDir(rel string) {
	p := filepath.Join(h.logs(), filepath.FromSlash(rel))
	if _, err := os.Lstat(p); err == nil {
		return
	}
	if err := os.MkdirAll(p, 0o755); err != nil {
		h.fail("seed dir %s: %v", p, err)
		return
	}
	h.t.Emit(core.Ev{"ev": "ExtDir", "n": core.Str(rel)})
}

// extLink: somebody else creates the symbolic link logs/<rel> -> target.
func (h *hist) extLink(rel, target string) {
	p := filepath.Join(h.logs(), filepath.FromSlash(rel))
	if _, err := os.Lstat(p); err == nil {
		return
	}
	if err := os.Symlink(target, p); err != nil {
		h.fail("seed link %s: %v", p, err)
		return
	}
	lk := h.linkEv(rel)
	h.lseen[rel] = fmt.Sprint(lk["to"], lk["file"], lk["data"])
	lk["ev"] = "ExtLink"
	h.t.Emit(lk)
}

// put writes a file of the temporary tree outside <home>/logs (before the Home event lists them).
func (h *hist) put(relHome string, data string) {
	p := filepath.Join(h.home, filepath.FromSlash(relHome))
	os.MkdirAll(filepath.Dir(p), 0o755)
	if err := os.WriteFile(p, []byte(data), 0o644); err != nil {
		h.fail("layout %s: %v", p, err)
	}
}

func (h *hist) curName() core.Bytes {
	f := h.lg.GetLogFile()
	if f == nil {
		return core.Bytes{0}
	}
	return core.Str(filepath.Base(f.Name()))
}

func (h *hist) open(id, oname string, level int) {
	of := h.of
	var opts []logfile.FileLoggerOption
	if of.extras {
		ctx, cancel := context.WithCancel(context.Background())
		defer cancel()
		opts = append(opts, logfile.WithContext(ctx, cancel), logfile.WithConfigObserver(config.NewConfigObserver()))
	}
	switch of.homeVia {
	case 0:
		opts = append(opts, logfile.WithHomePath(h.home))
	case 1: // read by the constructor only
		old, had := os.LookupEnv(logfile.HOME_ENV_KEY)
		os.Setenv(logfile.HOME_ENV_KEY, h.home)
		defer func() {
			if had {
				os.Setenv(logfile.HOME_ENV_KEY, old)
			} else {
				os.Unsetenv(logfile.HOME_ENV_KEY)
			}
		}()
	case 2: // "./": the working directory is <home> as long as the history lasts
		h.chdir(h.home)
		h.setenv(logfile.HOME_ENV_KEY, "")
	}
	if of.defName {
		id, oname = "whatap", "boot"
	} else {
		opts = append(opts, logfile.WithOnameLogID(oname, id))
	}
	if of.defLevel {
		level = 2
	} else {
		opts = append(opts, logfile.WithLevel(level))
	}
	switch of.so {
	case 1:
		opts = append(opts, logfile.WithStdout(true))
	case 2:
		opts = append(opts, logfile.WithStdout(false))
	}
	if of != (optForm{}) && len(opts) > 1 && h.rng.Intn(2) == 0 { // the order of the options is of no consequence
		opts[0], opts[len(opts)-1] = opts[len(opts)-1], opts[0]
	}
	h.id, h.oname = id, oname
	h.cf = conf{level: level, iv: 10, keep: 7, rot: true, so: of.so == 1}
	if msg := core.Guard(func() { h.lg = logfile.NewFileLoggerForVerif(opts...) }); msg != "" {
		h.t.Emit(core.Ev{"ev": "Panic", "in": "Open", "msg": msg})
		return
	}
	h.t.Emit(core.Ev{"ev": "Open", "id": core.Str(id), "oname": core.Str(oname), "level": level, "so": h.cf.so, "opts": of.String(),
		"cur": h.curName(), "obs": h.obs()})
	h.checkClock()
}

// setenv points an environment variable somewhere ("" = unset) until the history ends.
func (h *hist) setenv(k, v string) {
	if h.envOld == nil {
		h.envOld = map[string]*string{}
	}
	if _, done := h.envOld[k]; !done {
		if old, had := os.LookupEnv(k); had {
			h.envOld[k] = &old
		} else {
			h.envOld[k] = nil
		}
	}
	if v == "" {
		os.Unsetenv(k)
	} else {
		os.Setenv(k, v)
	}
}

// chdir changes the working directory until the history ends.
func (h *hist) chdir(dir string) {
	if h.cwdOld == "" {
		wd, err := os.Getwd()
		if err != nil {
			h.fail("getwd: %v", err)
			return
		}
		h.cwdOld = wd
	}
	if err := os.Chdir(dir); err != nil {
		h.fail("chdir %s: %v", dir, err)
	}
}

func (h *hist) restoreEnv() {
	if h.cwdOld != "" {
		os.Chdir(h.cwdOld)
		h.cwdOld = ""
	}
	for k, old := range h.envOld {
		if old == nil {
			os.Unsetenv(k)
		} else {
			os.Setenv(k, *old)
		}
	}
	h.envOld = nil
}

// names a log viewer is known to ask for beside the dated files (GetLogFiles lists the first two from fixed places)
var wellKnown = []string{"dotnet-profiler.log", "whatap-hook.log", "whatap-boot.log", "whatap.conf"}

// environment variables that name places where programs keep their data
var placeVars = []string{"ProgramData", "PROGRAMDATA", "ALLUSERSPROFILE", "APPDATA", "LOCALAPPDATA", logfile.HOME_ENV_KEY, "WHATAP_LOG_HOME"}

// decoys (before the Home event lists them): files named h.decoy in the places a fallback of Read could
// look when <home>/logs has no such file -- two directories beside <home> (environment variables will point
// to the one, the working directory will be the other) and, below each, WhaTap/ and logs/; and in <home>.
func (h *hist) decoys() {
	for _, d := range []string{"../env-a/", "../cwd-b/", ""} {
		for _, sub := range []string{"", "WhaTap/", "logs/"} {
			if d == "" && sub == "logs/" {
				continue
			}
			for _, n := range h.decoy {
				h.put(d+sub+n, "DECOY "+d+sub+n+" is not a file of the logs directory\n")
			}
		}
	}
}

// pointEnv: the places environment variables name are the decoy directory (each variable set or unset by the
// history's random source; ProgramData mostly set), and the working directory is the other decoy directory.
func (h *hist) pointEnv() {
	if len(h.decoy) == 0 {
		return
	}
	r := h.lrng()
	for i, k := range placeVars {
		if k == logfile.HOME_ENV_KEY && h.of.homeVia != 0 {
			continue
		}
		if r.Intn(3) > 0 || (i == 0 && r.Intn(3) > 0) {
			h.setenv(k, filepath.Join(h.root, "env-a"))
		} else {
			h.setenv(k, "")
		}
	}
	if h.of.homeVia != 2 {
		h.chdir(filepath.Join(h.root, "cwd-b"))
	}
}

// listed: the names GetLogFiles gives (used as Read names only; the listing itself is not judged).
func (h *hist) listed() []string {
	var out []string
	core.Guard(func() {
		m := h.lg.GetLogFiles()
		if m == nil {
			return
		}
		for en := m.Keys(); en.HasMoreElements(); {
			out = append(out, en.NextString())
		}
	})
	sort.Strings(out)
	return out
}

// readAbsent reads every decoy name and every listed name with windows that exist whatever the file.
func (h *hist) readAbsent() {
	names := append(append([]string{}, h.decoy...), h.listed()...)
	for i, n := range names {
		if h.err != nil {
			return
		}
		h.read(n, -1, int64(1+h.rng.Intn(200)))
		switch i % 3 {
		case 0:
			h.read(n, 0, 100)
		case 1:
			h.read(n, int64(h.rng.Intn(12)), int64(1+h.rng.Intn(12)))
		}
	}
}

func (h *hist) close() {
	h.park()
	for _, s := range h.all {
		if s.lg != nil {
			s.lg.CloseForVerif()
			s.lg = nil
		}
	}
	if h.lg != nil && len(h.all) == 0 {
		h.lg.CloseForVerif()
	}
	h.lg = nil
}

func levelName(lv int) string {
	return []string{"debug", "info", "warn", "error"}[lv]
}

func (h *hist) configure(cf conf, viaSetLevel bool) {
	if viaSetLevel {
		cf = conf{level: cf.level, iv: h.cf.iv, keep: h.cf.keep, rot: h.cf.rot, so: h.cf.so}
		h.lg.SetLevel(cf.level)
	} else {
		m := map[string]string{
			"log_rotation_enabled": strconv.FormatBool(cf.rot),
			"log_keep_days":        strconv.Itoa(cf.keep),
			"_log_interval":        strconv.Itoa(cf.iv),
			"log_level":            levelName(cf.level),
		}
		h.confN++
		if cf.so {
			m["log_stdout_enabled"] = "true"
		} else if h.confN%2 == 0 { // off: said, or not said at all
			m["log_stdout_enabled"] = "false"
		}
		h.lg.ApplyConfig(&stubConfig{m: m})
	}
	h.cf = cf
	h.t.Emit(core.Ev{"ev": "Conf", "level": cf.level, "iv": cf.iv, "keep": cf.keep, "rot": cf.rot, "so": cf.so})
}

// ------------------------------------------------------------ logging calls

type call struct {
	fn     string
	kind   string
	pid    string
	format string
	args   []interface{}
	s      string // the formatted message, standard library only
}

var fnKinds = map[string]string{
	"Errorf": "E", "Error": "E", "Warnf": "W", "Warn": "W", "Infof": "I", "Info": "I", "Infoln": "I",
	"Debugf": "D", "Debug": "D", "Printf": "P", "Println": "P", "PrintlnStd": "S",
}
var fnNames = []string{"Errorf", "Error", "Warnf", "Warn", "Infof", "Info", "Infoln", "Debugf", "Debug", "Printf", "Println", "PrintlnStd"}

func mkCall(fn, pid, text string, n int, two bool) call {
	c := call{fn: fn, kind: fnKinds[fn], pid: pid}
	switch fn {
	case "Errorf", "Warnf", "Infof", "Debugf", "Printf":
		if two {
			c.format, c.args = "%s|%d", []interface{}{text, n}
		} else {
			c.format, c.args = "%s", []interface{}{text}
		}
		c.s = fmt.Sprintf(c.format, c.args...)
	case "PrintlnStd":
		c.s = text
	default:
		if two {
			c.args = []interface{}{text, n}
		} else {
			c.args = []interface{}{text}
		}
		c.s = fmt.Sprintln(c.args...)
	}
	if c.kind != "P" {
		c.pid = ""
	}
	return c
}

func doCall(l *logfile.FileLogger, c call) {
	switch c.fn {
	case "Errorf":
		l.Errorf(c.format, c.args...)
	case "Error":
		l.Error(c.args...)
	case "Warnf":
		l.Warnf(c.format, c.args...)
	case "Warn":
		l.Warn(c.args...)
	case "Infof":
		l.Infof(c.format, c.args...)
	case "Info":
		l.Info(c.args...)
	case "Infoln":
		l.Infoln(c.args...)
	case "Debugf":
		l.Debugf(c.format, c.args...)
	case "Debug":
		l.Debug(c.args...)
	case "Printf":
		l.Printf(c.pid, c.format, c.args...)
	case "Println":
		l.Println(c.pid, c.args...)
	case "PrintlnStd":
		l.PrintlnStd(c.s, false)
	}
}

func (c call) ev() core.Ev {
	return core.Ev{"ev": "Log", "fn": c.fn, "kind": c.kind, "pid": core.Str(c.pid), "s": core.Str(c.s)}
}

// log makes one sequential call (from a goroutine of its own when inGate) and records what the directory shows.
func (h *hist) log(c call) {
	if msg := core.Guard(func() { doCall(h.lg, c) }); msg != "" {
		h.t.Emit(core.Ev{"ev": "Panic", "in": c.fn, "msg": msg})
		return
	}
	e := c.ev()
	e["obs"] = h.obs()
	h.t.Emit(e)
	h.stats["log"]++
	h.checkClock()
}

var msgPool = []string{
	"connection refused to collector", "connection reset by peer", "connection established",
	"WA101 agent started", "WA101 agent stopped", "retry", "x", "", "0123456789", "0123456789A", "0123456789B",
	"multi\nline message body", "percent %d %s %%", "유니코드 메시지 본문입니다", "tab\tand spaces   end ",
}
var pidPool = []string{"WA101", "WA102", "WA-9", "x", "0123456789ABCDEF"}

func (h *hist) randCall() call {
	r := h.rng
	return mkCall(fnNames[r.Intn(len(fnNames))], pidPool[r.Intn(len(pidPool))], msgPool[r.Intn(len(msgPool))], r.Intn(3), r.Intn(4) == 0)
}

// ------------------------------------------------------------------- cycle

// cycle runs one periodic cycle; the calls in atGate are made by another goroutine
// while the cycle waits at the gate between its two halves (if it gets there).
func (h *hist) cycle(atGate []call) {
	hit := false
	logfile.VerifGate = func(point string) {
		if point != "rotate.closed" || hit {
			return
		}
		hit = true
		h.t.Emit(core.Ev{"ev": "CycleA", "obs": h.obs()})
		done := make(chan struct{})
		go func() {
			defer close(done)
			for _, c := range atGate {
				h.log(c)
				h.stats["gatelog"]++
			}
		}()
		<-done
	}
	msg := core.Guard(func() { h.lg.RunCycleForVerif() })
	logfile.VerifGate = nil
	if msg != "" {
		h.t.Emit(core.Ev{"ev": "Panic", "in": "Cycle", "msg": msg})
		return
	}
	if !hit {
		h.t.Emit(core.Ev{"ev": "CycleA", "obs": h.obs()})
	} else {
		h.stats["rotation"]++
	}
	h.t.Emit(core.Ev{"ev": "CycleB", "cur": h.curName(), "obs": h.obs()})
	h.stats["cycle"]++
	h.checkClock()
}

// -------------------------------------------------------------------- read

func (h *hist) read(file string, end, length int64) {
	var res *logfile.LogData
	if msg := core.Guard(func() { res = h.lg.Read(file, end, length) }); msg != "" {
		h.t.Emit(core.Ev{"ev": "Panic", "in": "Read", "file": core.Str(file), "end": end, "len": length, "msg": msg})
		return
	}
	r := core.Ev{"nil": true}
	if res != nil {
		r = core.Ev{"nil": false, "before": clamp(res.Before), "next": clamp(res.Next), "text": core.Str(res.Text)}
		h.stats["readdata"]++
	}
	h.t.Emit(core.Ev{"ev": "Read", "file": core.Str(file), "end": end, "len": length, "res": r, "obs": h.obs()})
	h.stats["read"]++
	h.checkClock()
}

func clamp(v int64) int64 {
	if v > 1<<30 {
		return 1 << 30
	}
	if v < -(1 << 30) {
		return -(1 << 30)
	}
	return v
}

// ------------------------------------------------------------ seeding names

// seedDir fills logs/ with own files of all ages around the keep-days values and
// with foreign / undated / mis-dated look-alikes.  Returns the names created.
func (h *hist) seedDir(id, oname string, today int, full bool) []string {
	r := h.rng
	var names []string
	add := func(n string) {
		if !full && r.Intn(3) == 0 {
			return
		}
		h.ext(n, []byte("seed:"+n+"\n"))
		names = append(names, n)
	}
	own := func(day int) string { return id + "-" + oname + "-" + ymd(day) + ".log" }
	for _, age := range []int{1, 2, 3, 4, 6, 7, 8, 9, 29, 30, 31, 32, 400, -3} {
		if today-age >= 0 {
			add(own(today - age))
		}
	}
	old := ymd(today - 40)
	add(id + "-other-" + old + ".log")                  // own id, another object name: own file
	add(id + "-" + old + ".log")                        // id and date only
	add(id + "-" + oname + "-19991231.log")             // before the epoch of the calendar table
	add(id + "-" + oname + "-21000101.log")             // after it
	add(id + "x-" + oname + "-" + old + ".log")         // foreign prefix
	add("x" + id + "-" + oname + "-" + old + ".log")    // foreign prefix
	add(id + "_" + oname + "-" + old + ".log")          // no dash after the id
	add(id + "-" + oname + "-database.log")             // 8 characters that are no date
	add(id + "-db-backup01.log")                        //
	add(id + "-" + oname + "-notadate.log")             //
	add(id + "-" + oname + "-20001340.log")             // 8 digits that are no date
	add(id + "-" + oname + "-20010229.log")             //
	add(id + "-" + oname + "-2000013a.log")             //
	add(id + "-" + oname + "-2000010.log")              // 7 digits
	add(id + "-" + oname + "-200001011.log")            // 9 digits
	add(id + "-" + oname + "-" + old)                   // no extension
	add(id + "-" + oname + ".log")                      // undated (rotation off name)
	add(id + "-" + oname + "-" + old + ".log.1")        // extension is not .log
	add(id + "-" + oname + "-" + old + ".txt")          // undecided by the statement
	add(id + "-" + oname + "-00000101.log")             // undecided (year 0)
	add(id + "-" + oname + "-" + old + ".LOG")          // undecided
	add("sub/" + id + "-" + oname + "-" + old + ".log") // not in logs/ itself
	add("readme")
	add("r10")
	if full || r.Intn(2) == 0 {
		h.extDir(id + "-" + oname + "-" + ymd(today-50) + ".log") // a directory that looks like an old log
		h.extDir("emptydir")
	}
	return names
}

// ------------------------------------------------------------ the generators

// begin makes the temporary tree: <root>/<home>/ with secret.log and r10 beside logs/ and, in a rich
// history, directories and files whose names are derived from "logs" and from the name of <home>
// (same beginning, a beginning of it, other case), inside <home> and beside it.
func (h *hist) begin(gen string, cas int, extra core.Ev) bool {
	root, err := os.MkdirTemp("", "verif-c17-")
	if err == nil {
		root, err = filepath.EvalSymlinks(root)
	}
	if err != nil {
		h.fail("temp home: %v", err)
		return false
	}
	h.root = root
	h.seen = map[string][]byte{}
	h.lseen = map[string]string{}
	h.rng = h.c.Rng(gen, cas)
	h.d, h.ms = 0, 0
	h.stats = map[string]int{}
	hn := "home"
	if h.rich {
		hn = []string{"home", "agent", "h", "logs"}[h.lrng().Intn(4)]
	}
	h.home = filepath.Join(root, hn)
	if err := os.Mkdir(h.home, 0o755); err != nil {
		h.fail("temp home: %v", err)
		return false
	}
	h.t.Reset(gen, cas, extra)
	h.put("secret.log", "outside-secret")
	h.put("r10", "OUTSIDE-10")
	for _, n := range h.beside {
		h.put(n, "not in logs: "+n+"\n")
	}
	if h.rich {
		h.layout(hn)
	}
	if len(h.decoy) > 0 {
		h.decoys()
	}
	h.t.Emit(core.Ev{"ev": "Home", "out": h.outside()})
	h.pointEnv()
	return h.err == nil
}

// lrng: the random source of the layout, separate from the one of the history (so that a generator
// that existed before draws what it drew before).
func (h *hist) lrng() *rand.Rand {
	if h.lr == nil {
		h.lr = rand.New(rand.NewSource(h.rng.Int63() ^ 0x6c61796f7574))
	}
	return h.lr
}

// derived: names that have `base` as a beginning (at least two of them), are a beginning of it, differ in
// case only, or end with it.
func derived(r *rand.Rand, base string) []string {
	longer := []string{base + "2", base + ".bak", base + "-archive", base + "x", base + "_old", base + " ", base + "."}
	other := []string{base[:len(base)-1], strings.ToUpper(base), strings.ToUpper(base[:1]) + base[1:], "x" + base}
	r.Shuffle(len(longer), func(i, j int) { longer[i], longer[j] = longer[j], longer[i] })
	r.Shuffle(len(other), func(i, j int) { other[i], other[j] = other[j], other[i] })
	return append(longer[:2+r.Intn(3)], other[:1+r.Intn(3)]...)
}

func (h *hist) layout(hn string) {
	r := h.lrng()
	k := 0
	body := func() string { k++; return fmt.Sprintf("secret-%d\n", k) }
	leaf := func() string {
		return []string{"x", "r10", "whatap-boot.log", "inner.log", "whatap-boot-" + ymd(400+r.Intn(20000)) + ".log"}[r.Intn(5)]
	}
	// beside logs/
	for _, d := range derived(r, "logs") {
		switch r.Intn(4) {
		case 0:
			h.put(d+"/deep/"+leaf(), body())
		case 1:
			h.put(d, body()) // a regular file with such a name
		default:
			h.put(d+"/"+leaf(), body())
			if r.Intn(2) == 0 {
				h.put(d+"/"+leaf(), body())
			}
		}
	}
	h.put("other/"+leaf(), body())
	if r.Intn(2) == 0 {
		h.put("data/logs/"+leaf(), body())
	}
	if r.Intn(2) == 0 {
		h.put("whatap.conf", "license=secret\n")
	}
	// beside <home>
	for _, d := range derived(r, hn)[:2] {
		if r.Intn(2) == 0 {
			h.put("../"+d+"/logs/"+leaf(), body())
		} else {
			h.put("../"+d+"/"+leaf(), body())
		}
	}
	if hn != "logs" && r.Intn(2) == 0 {
		h.put("../logs/"+leaf(), body())
	}
}

// layoutInside: what a rich history puts below logs/ itself: a sub-directory, a directory named like a
// sibling of logs/, and symbolic links to files and directories inside and outside logs/.
func (h *hist) layoutInside() {
	r := h.lrng()
	h.ext("sub/inner.log", []byte("inner file\n"))
	h.ext("logs2/x", []byte("nested, not the sibling\n"))
	// a sibling directory / file of logs/ that exists
	var sibDir, sibFile string
	es, _ := os.ReadDir(h.home)
	for _, e := range es {
		if e.Name() == "logs" {
			continue
		}
		if e.IsDir() && (sibDir == "" || r.Intn(2) == 0) {
			sibDir = e.Name()
		}
		if e.Type().IsRegular() && (sibFile == "" || r.Intn(3) == 0) {
			sibFile = e.Name()
		}
	}
	type lk struct{ n, to string }
	all := []lk{
		{"ln-file-in.log", "r10"},
		{"ln-file-out.log", "../" + sibFile},
		{"ln-file-abs.log", filepath.Join(h.home, "secret.log")},
		{"ln-dir-out", "../" + sibDir},
		{"ln-dir-in", "sub"},
		{"ln-home", ".."},
		{"ln-root", "../.."},
		{"ln-self", "."},
		{"ln-nowhere.log", "never-there"},
		{"sub/ln-up", "../.."},
	}
	for _, l := range all {
		if r.Intn(3) > 0 {
			h.extLink(l.n, l.to)
		}
	}
}

func (h *hist) end(gen string, cas int) {
	h.close()
	h.restoreEnv()
	os.RemoveAll(h.root)
	if h.awayDir != "" {
		os.RemoveAll(h.awayDir)
	}
	keys := make([]string, 0, len(h.stats))
	for k, v := range h.stats {
		if v > 0 {
			keys = append(keys, k)
		}
	}
	sort.Strings(keys)
	h.c.Count(fmt.Sprintf("%s/%d/%v", gen, cas, h.stats), h.stats["log"]+h.stats["read"]+h.stats["cycle"] > 0)
	h.c.Sample(map[string]interface{}{"gen": gen, "case": cas, "id": h.id, "oname": h.oname, "did": h.stats})
}

var idPool = []string{"whatap", "w", "RUM", "my-app", "app.v2"}
var onamePool = []string{"boot", "b", "rumctl", "node-1", "svc.a"}

// a start time: day in 2001..2080, time of day biased to the minute before midnight
func (h *hist) randStart() (int, int) {
	r := h.rng
	d := 400 + r.Intn(29000)
	if r.Intn(4) == 0 {
		d = []int{424, 789, 1520, 36524 - 400, 59, 60, 365, 366}[r.Intn(8)] + 366 // leap days, year ends
	}
	ms := r.Intn(dayMs)
	if r.Intn(2) == 0 {
		ms = dayMs - 1 - r.Intn(90000)
	}
	return d, ms
}

// pathNames derives Read names from the temporary tree as it is now: for everything outside logs/ the ways a
// name joined below logs/ can get there (dot-dot forms, through a non-existing or an existing sub-directory,
// with doubled and trailing slashes, the absolute path), for everything inside logs/ the ways to say it with a
// path, and for symbolic links to directories the entries below them (two levels).  Not derived: names that
// leave <home> and come back into it (the specification does not know what <home> is called), the absolute
// path of a file inside logs/, and a ".." after a segment that is a symbolic link.
func (h *hist) pathNames() []string {
	var out []string
	logs := h.logs()
	inside := func(rel string) {
		out = append(out, rel, "./"+rel, "../logs/"+rel, "sub/../"+rel, "nosuch/../"+rel, "/"+rel, rel+"/", "//"+rel, "logs/../"+rel)
		if !strings.Contains(rel, "/") { // names that are nearly this one: none of them exists
			out = append(out, rel+"\x00", rel+"\x00.log", rel+" ", " "+rel, rel+".", rel+"\\", rel[:len(rel)-1]+"?", rel[:1]+"*",
				strings.ToUpper(rel)+"_", "%2e/"+rel, ".../"+rel)
		}
	}
	outsideOf := func(p string) {
		rel, _ := filepath.Rel(logs, p) // begins with ../
		rel = filepath.ToSlash(rel)
		if len(rel) < 3 { // <home> itself
			out = append(out, rel, rel+"/", "./"+rel, "sub/../"+rel)
			return
		}
		out = append(out, rel, "./"+rel, "sub/../"+rel, "nosuch/../"+rel, "../logs/"+rel, "/"+rel, "..//"+rel[3:], rel+"/",
			"logs/../"+rel, p, "/"+p, strings.Replace(rel, "/", "\\", -1),
			"%2e%2e/"+rel[3:], "..%2f"+rel[3:], "....//"+rel[3:], ".../"+rel[3:], rel+"\x00", "..\x00/"+rel[3:])
	}
	var through func(rel, p string, depth int)
	through = func(rel, p string, depth int) { // p is a directory reached through a symbolic link
		es, _ := os.ReadDir(p)
		for _, e := range es {
			r2, p2 := rel+"/"+e.Name(), filepath.Join(p, e.Name())
			if real, err := filepath.EvalSymlinks(p2); err == nil && real == h.home { // from above <home> back into it: not derived
				continue
			}
			out = append(out, r2, "./"+r2, "nosuch/../"+r2)
			if st, err := os.Stat(p2); err == nil && st.IsDir() && depth < 2 {
				through(r2, p2, depth+1)
			}
		}
	}
	filepath.WalkDir(h.root, func(p string, de fs.DirEntry, err error) error {
		if err != nil || p == h.root || p == logs {
			return nil
		}
		if de.IsDir() && (p == filepath.Join(h.root, "env-a") || p == filepath.Join(h.root, "cwd-b") || p == filepath.Join(h.home, "WhaTap")) {
			return filepath.SkipDir // the decoys are asked for by their plain names (readAbsent)
		}
		if strings.HasPrefix(p, logs+string(filepath.Separator)) {
			rel, _ := filepath.Rel(logs, p)
			rel = filepath.ToSlash(rel)
			inside(rel)
			if de.Type()&fs.ModeSymlink != 0 {
				if st, err := os.Stat(p); err == nil && st.IsDir() {
					through(rel, p, 1)
				}
			}
			return nil
		}
		outsideOf(p)
		return nil
	})
	return out
}

// sizeOf: the size of what a name joined below logs/ leads to (10 if nothing), for choosing windows.
func (h *hist) sizeOf(file string) int64 {
	if st, err := os.Stat(filepath.Join(h.logs(), file)); err == nil && st.Mode().IsRegular() && st.Size() < 1<<20 {
		return st.Size()
	}
	return 10
}

func (h *hist) window(size int64) (int64, int64) {
	r := h.rng
	var end int64
	switch r.Intn(9) {
	case 0:
		end = -1
	case 1:
		end = 0
	case 2:
		end = size
	case 3:
		end = size + 1
	case 4:
		end = size - 1
	case 5:
		end = []int64{-2, -1000, 1 << 30, -(1 << 30), 2147483647, -2147483647}[r.Intn(6)]
	default:
		end = int64(r.Intn(int(size) + 2))
	}
	var length int64
	switch r.Intn(8) {
	case 0:
		length = 0
	case 1:
		length = []int64{-1, -7, -2147483647}[r.Intn(3)]
	case 2:
		length = []int64{1 << 30, 2147483647, 2 * size, size}[r.Intn(4)]
	case 3:
		length = 1
	default:
		length = int64(r.Intn(int(2*size) + 2))
	}
	return end, length
}

func (h *hist) readArgs(names []string) (string, int64, int64) {
	r := h.rng
	var file string
	var size int64 = 10
	pick := func() string {
		if len(names) == 0 || r.Intn(5) == 0 {
			return filepath.Base(string(h.curName()))
		}
		return names[r.Intn(len(names))]
	}
	if h.rich && r.Intn(2) == 0 {
		pn := h.pathNames()
		file = pn[r.Intn(len(pn))]
		end, length := h.window(h.sizeOf(file))
		if r.Intn(3) == 0 { // a window that exists whatever the size
			end, length = -1, int64(1+r.Intn(40))
		}
		return file, end, length
	}
	switch r.Intn(12) {
	case 0:
		file = "../secret.log"
	case 1:
		file = "../r10"
	case 2:
		file = "sub/../" + pick()
	case 3:
		file = "/" + pick()
	case 4:
		file = "../logs/" + pick()
	case 5:
		file = []string{"", ".", "..", "missing.log", "emptydir", "sub", "./r10", "sub/../../secret.log", "../../../../../../etc/hostname", "r10/", "//r10"}[r.Intn(11)]
	default:
		file = pick()
	}
	if b, ok := h.seen[strings.TrimPrefix(file, "/")]; ok {
		size = int64(len(b))
	}
	end, length := h.window(size)
	return file, end, length
}

// genSeq: random sequential histories over every action.
func genSeq(c *core.Ctx, t *core.Trace, cas int, steps int) error {
	h := &hist{c: c, t: t, rich: cas%2 == 1}
	if cas%4 == 1 {
		h.decoy = wellKnown[:2+cas%3]
	}
	h.of = optForm{so: cas % 3, homeVia: []int{0, 0, 0, 1, 0, 2}[cas%6], defLevel: cas%8 == 7, extras: cas%5 == 4}
	if !h.begin("seq", cas, nil) {
		return h.err
	}
	defer h.end("seq", cas)
	r := h.rng
	id, oname := idPool[r.Intn(len(idPool))], onamePool[r.Intn(len(onamePool))]
	d, ms := h.randStart()
	h.clock(d, ms)
	var names []string
	if r.Intn(5) > 0 {
		names = h.seedDir(id, oname, d, false)
	}
	if h.rich {
		h.ext("r10", []byte("0123456789"))
		h.layoutInside()
	}
	h.open(id, oname, r.Intn(4))
	if h.lg == nil {
		return h.err
	}
	names = append(names, h.decoy...)
	for i := 0; i < steps && h.err == nil; i++ {
		switch x := r.Intn(22); {
		case x >= 20: // somebody else appends to / cuts short / removes a log file (also the one being written)
			var own []string
			for _, n := range h.seenNames() {
				if strings.HasPrefix(n, id+"-") || strings.HasPrefix(n, "late") {
					own = append(own, n)
				}
			}
			if len(own) == 0 {
				break
			}
			f := own[r.Intn(len(own))]
			if r.Intn(3) == 0 {
				f = h.curRel()
			}
			switch r.Intn(4) {
			case 0, 1:
				h.extAppend(f, []byte([]string{"appended by somebody else\n", "x", "no newline", "\n"}[r.Intn(4)]))
			case 2:
				if n := len(h.seen[f]); n > 0 {
					h.extTrunc(f, r.Intn(n))
				}
			case 3:
				h.extRemove(f)
			}
		case x < 8:
			h.log(h.randCall())
		case x < 11:
			h.advance([]int64{1, 500, 999, 1000, 1001, 1999, 2000, 9999, 10000, 59999, 60000, 60001, 3600000, dayMs, 3 * dayMs, 9 * dayMs}[r.Intn(16)])
		case x < 12: // to the last second of the day / just over midnight
			if r.Intn(2) == 0 {
				h.clock(h.d, dayMs-1-r.Intn(1500))
			} else {
				h.clock(h.d+1, r.Intn(1500))
			}
		case x < 15:
			var g []call
			for k := r.Intn(3); k > 0; k-- {
				g = append(g, h.randCall())
			}
			h.cycle(g)
		case x < 16:
			h.configure(conf{level: r.Intn(4), iv: []int{-1, 0, 1, 2, 10}[r.Intn(5)], keep: []int{-1, 0, 1, 2, 3, 7, 30}[r.Intn(7)], rot: r.Intn(4) > 0, so: r.Intn(2) == 0}, r.Intn(3) == 0)
		case x < 17:
			h.extN++
			n := fmt.Sprintf("%s-%s-%s.log", id, []string{oname, "late", "x"}[r.Intn(3)], ymd(h.d-r.Intn(12)))
			if r.Intn(3) == 0 {
				n = fmt.Sprintf("late%d-database.log", h.extN)
			}
			if _, ok := h.seen[n]; !ok {
				h.ext(n, []byte(fmt.Sprintf("late %d\n", h.extN)))
				names = append(names, n)
			}
		default:
			f, e, l := h.readArgs(names)
			h.read(f, e, l)
		}
	}
	return h.err
}

// genRetain: retention in focus -- full look-alike directory, every keep-days value, several cycles.
func genRetain(c *core.Ctx, t *core.Trace, cas int) error {
	h := &hist{c: c, t: t}
	id, oname := idPool[cas%len(idPool)], onamePool[(cas/len(idPool))%len(onamePool)]
	// files named like expired own logs that are not in logs/: beside it, in a directory named like it, beside <home>
	old := id + "-" + oname + "-" + ymd(10) + ".log"
	h.beside = []string{old, "logs2/" + old, "logs.bak/" + old, "../" + old, "../home2/logs/" + old}
	if !h.begin("retain", cas, nil) {
		return h.err
	}
	defer h.end("retain", cas)
	r := h.rng
	d, ms := h.randStart()
	h.clock(d, ms)
	h.seedDir(id, oname, d, true)
	h.open(id, oname, 2)
	if h.lg == nil {
		return h.err
	}
	keeps := []int{7, 1, 2, 3, 6, 8, 29, 30, 31, 0, -1, 400}
	for i := 0; i < 4 && h.err == nil; i++ {
		if i > 0 || cas%3 > 0 {
			h.configure(conf{level: 2, iv: 10, keep: keeps[(cas+i*5)%len(keeps)], rot: !(cas%7 == 3 && i == 1)}, false)
		}
		h.log(mkCall("Warnf", "", fmt.Sprintf("before cycle %d", i), 0, false))
		h.advance([]int64{59999, 60000, 60001, 61000, dayMs, 2 * dayMs}[r.Intn(6)])
		h.cycle(nil)
		h.log(mkCall("Println", "WA300", fmt.Sprintf("after cycle %d", i), 0, false))
	}
	return h.err
}

// genRead: Read in focus -- every file of a small directory, hostile names, border windows.
func genRead(c *core.Ctx, t *core.Trace, cas int, n int) error {
	h := &hist{c: c, t: t, rich: true}
	h.decoy = append(append([]string{}, wellKnown...), "whatap-boot-"+ymd(300+cas)+".log", "r10", "missing.log")
	h.of = optForm{homeVia: []int{0, 0, 2, 1}[cas%4], extras: cas%2 == 1}
	if !h.begin("read", cas, nil) {
		return h.err
	}
	defer h.end("read", cas)
	r := h.rng
	h.clock(h.randStart())
	h.ext("r10", []byte("0123456789"))
	h.ext("empty.log", nil)
	h.ext("one", []byte("1"))
	h.ext("r37.log", []byte("line one\nline two\nline three 37 bytes"))
	h.ext("sub/inner.log", []byte("inner file\n"))
	h.extDir("emptydir")
	h.layoutInside()
	h.open("whatap", "boot", 1)
	if h.lg == nil {
		return h.err
	}
	h.configure(conf{level: 1, iv: []int{0, 10}[cas%2], keep: 7, rot: true}, false)
	names := []string{"r10", "empty.log", "one", "r37.log", "sub/inner.log"}
	// names that are not in logs/ but are in the places a viewer's other files live (and the listed names)
	h.readAbsent()
	names = append(names, h.decoy...)
	if cas%2 == 1 { // one of them does exist in logs/: that one is served, and from logs/
		h.ext(h.decoy[cas%len(wellKnown)], []byte("this one is in the logs directory\n"))
		h.readAbsent()
	}
	if cas%4 == 0 { // every window of the 10-byte file, as in the model
		for e := int64(-1); e <= 11; e++ {
			for l := int64(-1); l <= 12; l += 1 + int64(r.Intn(2)) {
				h.read("r10", e, l)
			}
		}
	}
	if cas%3 == 1 { // every name the tree gives rise to, with a window that exists whatever the file
		for _, f := range h.pathNames() {
			if r.Intn(4) == 0 {
				e, l := h.window(h.sizeOf(f))
				h.read(f, e, l)
			} else {
				h.read(f, -1, int64(1+r.Intn(40)))
			}
		}
	}
	for i := 0; i < n && h.err == nil; i++ {
		if i%7 == 3 {
			h.log(mkCall("Infof", "", fmt.Sprintf("between reads %d", i), i, true))
		}
		f, e, l := h.readArgs(names)
		h.read(f, e, l)
	}
	return h.err
}

// genGate: TLC's schedule "Log between the two halves of a rotating cycle", every family.
func genGate(c *core.Ctx, t *core.Trace, cas int) error {
	h := &hist{c: c, t: t}
	if !h.begin("gate", cas, nil) {
		return h.err
	}
	defer h.end("gate", cas)
	r := h.rng
	id, oname := idPool[cas%len(idPool)], onamePool[cas%len(onamePool)]
	d, _ := h.randStart()
	h.clock(d, dayMs-5000)
	so := ((cas/12)+cas)%2 == 1 // lines also printed to standard output: every entry point with and without, over two rounds of twelve
	if so {
		h.of.so = 1
	}
	h.open(id, oname, 0)
	if h.lg == nil {
		return h.err
	}
	if cas%2 == 1 {
		h.configure(conf{level: 0, iv: 0, keep: 7, rot: true, so: so}, false)
	}
	h.log(mkCall("Warn", "", "before midnight", 0, false))
	why := cas % 3
	switch why {
	case 0: // the date changes
		h.clock(d+1, 2000)
	case 1: // rotation is switched off
		h.configure(conf{level: 0, iv: h.cf.iv, keep: 7, rot: false, so: so}, false)
	case 2: // both
		h.configure(conf{level: 0, iv: h.cf.iv, keep: 7, rot: false, so: so}, false)
		h.clock(d+2, 1)
	}
	var g []call
	fn := fnNames[cas%len(fnNames)]
	g = append(g, mkCall(fn, "WA500", fmt.Sprintf("logged at the gate %d", cas), cas, cas%5 == 0))
	for k := r.Intn(3); k > 0; k-- {
		g = append(g, h.randCall())
	}
	h.cycle(g)
	h.log(mkCall("Error", "", "after the cycle", 0, false))
	h.cycle(nil)
	return h.err
}

// genSupp: suppression in focus -- same id / other text, other id / same text, ids that share their first ten
// bytes across families, the families that are never cached, the borders of the interval, interval 0.
func genSupp(c *core.Ctx, t *core.Trace, cas int) error {
	h := &hist{c: c, t: t}
	if !h.begin("supp", cas, nil) {
		return h.err
	}
	defer h.end("supp", cas)
	r := h.rng
	id, oname := idPool[cas%len(idPool)], onamePool[(cas/2)%len(onamePool)]
	h.clock(h.randStart())
	so := (cas/2)%2 == 1 // with lines also printed to standard output: by the constructor (interval 10) or by the settings
	if so {
		h.of.so = 1
	}
	h.open(id, oname, 0)
	if h.lg == nil {
		return h.err
	}
	iv := []int{10, 1, 2, 10}[cas%4]
	if cas%4 > 0 {
		h.configure(conf{level: 0, iv: iv, keep: 7, rot: true, so: so}, false)
	}
	ivms := int64(iv) * 1000
	p := func(fn, pid, text string) { h.log(mkCall(fn, pid, text, 0, false)) }
	pf := []string{"Println", "Printf"}[cas%2]
	p(pf, "WA1", "alpha")
	p(pf, "WA2", "alpha") // other id, same text
	p(pf, "WA1", "beta")  // same id, other text
	p("Warnf", "", "0123456789A")
	p("Warnf", "", "0123456789B") // same first ten bytes
	p("Infof", "", "0123456789C") // another family, same first ten bytes
	p("Error", "", "012345678")   // "012345678\n": ten bytes of its own
	p("Errorf", "", "012345678")  // nine bytes
	p("Debugf", "", "dbg same")
	p("Debugf", "", "dbg same") // never cached
	p("PrintlnStd", "", "raw same")
	p("PrintlnStd", "", "raw same")
	h.advance(ivms - 1)
	p(pf, "WA1", "gamma") // one millisecond inside the interval
	p(pf, "WA3", "alpha")
	p("Warnf", "", "0123456789A")
	h.advance(1)
	p(pf, "WA1", "delta") // the interval is over: must be written
	p(pf, "WA2", "alpha")
	p("Infof", "", "0123456789D")
	p("Warn", "", "0123456789")
	h.advance([]int64{1, ivms / 2, ivms - 1, ivms, ivms + 1}[r.Intn(5)])
	pids := []string{"WA1", "WA2", "WA3", "W"}
	msgs := []string{"alpha", "beta", "0123456789A", "0123456789B", "012345678", "W"}
	for i := 0; i < 24 && h.err == nil; i++ {
		switch x := r.Intn(10); {
		case x < 7:
			h.log(mkCall(fnNames[r.Intn(len(fnNames))], pids[r.Intn(len(pids))], msgs[r.Intn(len(msgs))], r.Intn(2), r.Intn(6) == 0))
		case x < 9:
			h.advance([]int64{1, 499, 500, 999, 1000, 1001, ivms - 1, ivms}[r.Intn(8)])
		default:
			niv := []int{0, 1, 2, 10, -1}[r.Intn(5)]
			h.configure(conf{level: r.Intn(2), iv: niv, keep: 7, rot: true, so: so != (r.Intn(4) == 0)}, false)
			if niv > 0 {
				ivms = int64(niv) * 1000
			}
		}
	}
	h.configure(conf{level: 0, iv: 0, keep: 7, rot: true, so: so}, false)
	p(pf, "WA1", "alpha")
	p(pf, "WA1", "alpha") // interval 0: nothing is suppressed
	p("Warnf", "", "0123456789A")
	p("Warnf", "", "0123456789A")
	return h.err
}

// genOpts: every option of the constructor (given / not given, each form) and every setting ApplyConfig
// takes, crossed with every entry point: three rounds of all twelve logging calls, each with an id of its
// own (nothing may be suppressed) -- as constructed, after a settings change that flips the standard-output
// option, after a rotation over midnight with a call at the gate -- and a repeat inside the interval.
func genOpts(c *core.Ctx, t *core.Trace, cas int) error {
	h := &hist{c: c, t: t}
	h.of = optForm{so: cas % 3, homeVia: (cas / 3) % 3, defName: (cas/9)%2 == 1, defLevel: (cas/18)%2 == 1, extras: (cas/36)%2 == 1}
	if cas < 9 { // the quick tier sees the other options in both forms too
		h.of.defName, h.of.defLevel, h.of.extras = cas%4 == 3, cas%4 == 2, cas%2 == 1
	}
	if cas%2 == 0 {
		h.decoy = wellKnown[:2]
	}
	if !h.begin("opts", cas, nil) {
		return h.err
	}
	defer h.end("opts", cas)
	r := h.rng
	id, oname := idPool[r.Intn(len(idPool))], onamePool[r.Intn(len(onamePool))]
	d, _ := h.randStart()
	h.clock(d, dayMs-40000-r.Intn(40000))
	h.open(id, oname, r.Intn(4))
	if h.lg == nil {
		return h.err
	}
	round := func(k int) {
		order := r.Perm(len(fnNames))
		for _, i := range order {
			fn := fnNames[i]
			h.log(mkCall(fn, fmt.Sprintf("ID%d%02d", k, i), fmt.Sprintf("r%d-%02d-%s unique line", k, i, fn), k, r.Intn(4) == 0))
		}
		i := order[r.Intn(len(order))] // once more inside the interval: may be suppressed, if the family is cached
		h.log(mkCall(fnNames[i], fmt.Sprintf("ID%d%02d", k, i), fmt.Sprintf("r%d-%02d-%s again", k, i, fnNames[i]), k, false))
	}
	round(0)
	h.readAbsent()
	so := !h.cf.so
	h.configure(conf{level: r.Intn(4), iv: []int{10, 0, 1, 2}[r.Intn(4)], keep: []int{7, 1, 30}[r.Intn(3)], rot: r.Intn(4) > 0, so: so}, false)
	round(1)
	if r.Intn(2) == 0 {
		h.configure(conf{level: h.cf.level, iv: h.cf.iv, keep: h.cf.keep, rot: h.cf.rot, so: !so}, false)
	}
	h.clock(d+1, r.Intn(30000))
	h.cycle([]call{mkCall([]string{"Println", "Printf"}[cas%2], "IDG", "at the gate", cas, false), h.randCall()})
	round(2)
	if r.Intn(2) == 0 {
		h.configure(conf{level: r.Intn(2), iv: h.cf.iv, keep: h.cf.keep, rot: h.cf.rot, so: h.cf.so}, true) // SetLevel
		round(3)
	}
	return h.err
}

// genSuppMany: suppression with MANY distinct ids: n ids (of all cached families) logged once, each repeated
// one millisecond before the interval ends (may be suppressed) and again when it is over (a line whose id
// was not written since must be written), in changing order; then late ids after the interval.  n crosses
// the sizes at which an id table grows (75, 152, 305, 611) and, in the larger cases, the 1000 ids the
// logger remembers.
func genSuppMany(c *core.Ctx, t *core.Trace, cas int, n int) error {
	h := &hist{c: c, t: t}
	if cas%2 == 1 {
		h.of.so = 1
	}
	if !h.begin("suppmany", cas, nil) {
		return h.err
	}
	defer h.end("suppmany", cas)
	r := h.rng
	id, oname := idPool[cas%len(idPool)], onamePool[(cas/2)%len(onamePool)]
	d, _ := h.randStart()
	h.clock(d, r.Intn(dayMs/2))
	h.open(id, oname, 0)
	if h.lg == nil {
		return h.err
	}
	iv := []int{10, 2, 1}[cas%3]
	h.configure(conf{level: 0, iv: iv, keep: 7, rot: true, so: h.cf.so}, false)
	fns := []string{"Println", "Printf", "Warnf", "Error", "Info", "Infoln", "Errorf", "Warn", "Infof"}
	mk := func(i, round int) call {
		fn := fns[(i+cas)%len(fns)]
		if fnKinds[fn] == "P" {
			return mkCall(fn, fmt.Sprintf("WA%05d", i), fmt.Sprintf("%d", round), 0, false)
		}
		return mkCall(fn, "", fmt.Sprintf("m%05d---.%d", i, round), 0, false) // the first ten bytes are the id
	}
	h.stats["ids"] = n
	for i := 0; i < n && h.err == nil; i++ {
		h.log(mk(i, 0))
		if i%50 == 49 && r.Intn(2) == 0 { // an id seen a moment ago, in between
			h.log(mk(i-r.Intn(40), 1))
		}
	}
	h.advance(int64(iv)*1000 - 1)
	order := r.Perm(n)
	for _, i := range order {
		if h.err != nil {
			break
		}
		if r.Intn(3) > 0 {
			h.log(mk(i, 2))
		}
	}
	h.advance(1)
	for _, i := range r.Perm(n) {
		if h.err != nil {
			break
		}
		if r.Intn(3) > 0 {
			h.log(mk(i, 3))
		}
	}
	h.advance(int64(iv) * 1000)
	for k := 0; k < 40 && h.err == nil; k++ {
		h.log(mk(r.Intn(n+20), 4))
		if k%10 == 9 {
			h.advance(int64(1 + r.Intn(iv*1000)))
		}
	}
	return h.err
}

// ------------------------------------------------------ concurrent bursts

var stampRe = regexp.MustCompile(`(?m)^\d{4}/\d\d/\d\d \d\d:\d\d:\d\d `)
var tokenRe = regexp.MustCompile(`<g(\d\d)#(\d\d\d)>`)

type entry struct {
	raw    []byte
	g, seq int // -1: no token
}

// entries cuts the bytes a file gained into stamped entries (a stamp at the start of a line begins one).
func entries(delta []byte) (pre []byte, es []entry) {
	locs := stampRe.FindAllIndex(delta, -1)
	if len(locs) == 0 {
		return delta, nil
	}
	pre = delta[:locs[0][0]]
	for i, lc := range locs {
		endp := len(delta)
		if i+1 < len(locs) {
			endp = locs[i+1][0]
		}
		e := entry{raw: delta[lc[0]:endp], g: -1, seq: -1}
		if m := tokenRe.FindAllSubmatch(e.raw, -1); len(m) == 1 {
			e.g, _ = strconv.Atoi(string(m[0][1]))
			e.seq, _ = strconv.Atoi(string(m[0][2]))
		} else if len(m) > 1 {
			e.g = -2
		}
		es = append(es, e)
	}
	return pre, es
}

// genBurst: G goroutines log N self-describing lines each; with withCycle a rotating cycle runs in the middle.
func genBurst(c *core.Ctx, t *core.Trace, gen string, cas int, G, N int, withCycle bool) error {
	h := &hist{c: c, t: t}
	if !h.begin(gen, cas, core.Ev{"nondet": true}) {
		return h.err
	}
	defer h.end(gen, cas)
	r := h.rng
	id, oname := idPool[cas%len(idPool)], onamePool[(cas+1)%len(onamePool)]
	d, _ := h.randStart()
	h.clock(d, dayMs-20000)
	h.open(id, oname, 1)
	if h.lg == nil {
		return h.err
	}
	perG := cas%2 == 1 // ids private to a goroutine and a positive interval: suppression is decided per goroutine
	iv := 0
	if perG {
		iv = 10
	}
	h.configure(conf{level: 1, iv: iv, keep: 7, rot: true}, false)
	h.cycle(nil) // retention period starts here
	if withCycle {
		h.clock(d+1, 5000) // next day, less than a retention period later
	}
	oldCur := string(h.curName())
	calls := make([][]call, G)
	for g := 0; g < G; g++ {
		for i := 1; i <= N; i++ {
			fn := fnNames[r.Intn(len(fnNames))]
			idpart := "burstline "
			pid := "WA7"
			if perG {
				idpart = fmt.Sprintf("g%02d-id-%c--", g, 'A'+rune(r.Intn(2)))
				pid = fmt.Sprintf("G%02d%c", g, 'A'+rune(r.Intn(2)))
			}
			text := fmt.Sprintf("%s<g%02d#%03d> %s", idpart, g, i, strings.Repeat("p", r.Intn(40)))
			calls[g] = append(calls[g], mkCall(fn, pid, text, i, r.Intn(4) == 0))
		}
	}
	var progress int64
	var wg sync.WaitGroup
	var panics int64
	for g := 0; g < G; g++ {
		wg.Add(1)
		go func(g int) {
			defer wg.Done()
			for _, cl := range calls[g] {
				if msg := core.Guard(func() { doCall(h.lg, cl) }); msg != "" {
					atomic.AddInt64(&panics, 1)
				}
				atomic.AddInt64(&progress, 1)
			}
		}(g)
	}
	if withCycle {
		for atomic.LoadInt64(&progress) < int64(G*N/3) {
			time.Sleep(50 * time.Microsecond)
		}
		logfile.VerifGate = func(string) { time.Sleep(2 * time.Millisecond) } // widen the window between the halves
		h.lg.RunCycleForVerif()
		logfile.VerifGate = nil
	}
	wg.Wait()
	if panics > 0 {
		h.t.Emit(core.Ev{"ev": "Panic", "in": "burst", "n": panics})
		return h.err
	}
	// what the files gained, standard library only
	before := h.seen
	o := h.obs()
	var gone []core.Bytes
	for n := range before {
		if _, ok := h.seen[n]; !ok {
			gone = append(gone, core.Str(n))
		}
	}
	newCur := string(h.curName())
	delta := func(n string) []byte {
		b := h.seen[n]
		if old, ok := before[n]; ok && bytes.HasPrefix(b, old) {
			return b[len(old):]
		}
		return b
	}
	var seqEv []core.Ev
	done := make([]int, G) // calls of g already listed
	emitted := map[[2]int]bool{}
	listFile := func(n string, banner bool) {
		pre, es := entries(delta(n))
		if len(pre) > 0 {
			seqEv = append(seqEv, core.Ev{"ev": "Junk", "file": core.Str(n), "raw": core.Cp(pre)})
		}
		for _, e := range es {
			switch {
			case e.g >= 0 && e.g < G && e.seq >= 1 && e.seq <= N && !emitted[[2]int{e.g, e.seq}]:
				// calls of this goroutine that come before in program order and left no line go first
				for done[e.g]+1 < e.seq {
					done[e.g]++
					if !emitted[[2]int{e.g, done[e.g]}] {
						ce := calls[e.g][done[e.g]-1].ev()
						ce["em"], ce["stamp"], ce["g"], ce["seq"] = false, core.Bytes{}, e.g, done[e.g]
						seqEv = append(seqEv, ce)
					}
				}
				emitted[[2]int{e.g, e.seq}] = true
				ce := calls[e.g][e.seq-1].ev()
				st := e.raw
				if len(st) > 20 {
					st = st[:20]
				}
				ce["em"], ce["stamp"], ce["g"], ce["seq"], ce["raw"] = true, core.Cp(st), e.g, e.seq, core.Cp(e.raw)
				seqEv = append(seqEv, ce)
				if e.seq > done[e.g] {
					done[e.g] = e.seq
				}
			case e.g == -1 && banner:
				seqEv = append(seqEv, core.Ev{"ev": "Banner", "line": core.Cp(e.raw)})
			default:
				seqEv = append(seqEv, core.Ev{"ev": "Junk", "file": core.Str(n), "raw": core.Cp(e.raw)})
			}
		}
	}
	tail := func() {
		for g := 0; g < G; g++ {
			for done[g] < N {
				done[g]++
				ce := calls[g][done[g]-1].ev()
				ce["em"], ce["stamp"], ce["g"], ce["seq"] = false, core.Bytes{}, g, done[g]
				seqEv = append(seqEv, ce)
			}
		}
	}
	listFile(oldCur, false)
	if withCycle {
		if gone == nil {
			gone = []core.Bytes{}
		}
		seqEv = append(seqEv, core.Ev{"ev": "CycleA", "split": newCur != oldCur, "del": gone})
		if newCur != oldCur {
			listFile(newCur, true)
		}
		tail()
		seqEv = append(seqEv, core.Ev{"ev": "CycleB", "cur": h.curName(), "obs": o})
		h.stats["rotation"]++
		h.stats["cycle"]++
	} else {
		tail()
		seqEv = append(seqEv, core.Ev{"ev": "Sync", "obs": o})
	}
	// a line out of program order shows as a seq the specification refuses; nothing is reordered here
	for _, e := range seqEv {
		h.t.Emit(e)
	}
	h.stats["log"] += G * N
	h.stats["burstlines"] += len(emitted)
	h.checkClock()
	// and the logger still works afterwards
	h.log(mkCall("Error", "", "after the burst", 0, false))
	return h.err
}

// Run is the driver.
func Run(c *core.Ctx) error {
	freezeClock()
	// what the loggers print to standard output (the stdout option; a logger that has no file) goes to a scratch file
	if f, err := os.CreateTemp("", "verif-c17-stdout-"); err == nil {
		realOut := os.Stdout
		os.Stdout = f
		defer func() {
			os.Stdout = realOut
			f.Close()
			os.Remove(f.Name())
		}()
	}
	c.Rule = "a history counts when it made at least one logging call, Read or cycle on the real FileLogger; distinct by (generator, case, action counts)"
	t := c.Trace("c17", "Trace_FileLogger")
	t2 := c.Trace("c17_env", "Trace_FileLogger") // several writers, faults, non-ASCII windows: judged by a second TLC beside the first
	type job struct {
		gen string
		n   int
		f   func(cas int) error
	}
	jobs := []job{
		{"gate", c.Pick(12, 48), func(cas int) error { return genGate(c, t, cas) }},
		{"retain", c.Pick(8, 40), func(cas int) error { return genRetain(c, t, cas) }},
		{"supp", c.Pick(8, 40), func(cas int) error { return genSupp(c, t, cas) }},
		{"opts", c.Pick(9, 72), func(cas int) error { return genOpts(c, t, cas) }},
		{"suppmany", c.Pick(2, 8), func(cas int) error {
			return genSuppMany(c, t2, cas, []int{160, 80, 320, 1100, 640, 160, 1100, 320}[cas%8]+c.Rng("suppmany", cas).Intn(5))
		}},
		{"read", c.Pick(6, 30), func(cas int) error { return genRead(c, t, cas, c.Pick(40, 80)) }},
		{"seq", c.Pick(40, 400), func(cas int) error { return genSeq(c, t, cas, c.Pick(40, 70)) }},
		{"burst", c.Pick(4, 16), func(cas int) error { return genBurst(c, t, "burst", cas, 8, c.Pick(12, 30), false) }},
		{"race", c.Pick(6, 30), func(cas int) error { return genBurst(c, t, "race", cas, 8, c.Pick(12, 30), true) }},
		{"readmb", c.Pick(6, 24), func(cas int) error { return genReadMB(c, t2, cas) }},
		{"fault", c.Pick(24, 120), func(cas int) error { return genFault(c, t2, cas) }},
		{"duo", c.Pick(12, 120), func(cas int) error { return genDuo(c, t2, cas, c.Pick(40, 70)) }},
		{"duoburst", c.Pick(4, 24), func(cas int) error { return genDuoBurst(c, t2, cas, 4, c.Pick(12, 30)) }},
	}
	for _, j := range jobs {
		if !c.WantGen(j.gen) {
			continue
		}
		for cas := 0; cas < j.n; cas++ {
			if !c.Want(j.gen, cas) {
				continue
			}
			if err := j.f(cas); err != nil {
				return fmt.Errorf("%s/%d: %v", j.gen, cas, err)
			}
		}
	}
	return nil
}
