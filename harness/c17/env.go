package c17

// Several writers of one file, environment faults between the actions, and Read windows over
// content that is not ASCII.  As everywhere in this package the harness only acts and records:
// which logger makes the following calls (Switch), what somebody else did to the directory
// (ExtAppend / ExtRemove / ExtTrunc / ExtRmLogs / ExtBlock / ExtUnblock) and, after every
// action, what the directory holds.

import (
	"bytes"
	"fmt"
	"os"
	"path/filepath"
	"sort"
	"strings"
	"sync"
	"sync/atomic"
	"time"

	"github.com/whatap/golib/logger/logfile"

	"verifharness/core"
)

// ------------------------------------------------------- several loggers

type slot struct {
	lg    *logfile.FileLogger
	cf    conf
	id    string
	oname string
}

// park writes the active logger's fields back into its slot.
func (h *hist) park() {
	if len(h.all) > 0 {
		h.all[h.act] = &slot{lg: h.lg, cf: h.cf, id: h.id, oname: h.oname}
	}
}

// switchTo makes logger i (0-based; the specification counts from 1) the active one.
func (h *hist) switchTo(i int) {
	if len(h.all) == 0 {
		h.all = []*slot{{}}
		h.act = 0
	}
	for len(h.all) <= i {
		h.all = append(h.all, &slot{})
	}
	if i == h.act {
		return
	}
	h.park()
	s := h.all[i]
	h.lg, h.cf, h.id, h.oname = s.lg, s.cf, s.id, s.oname
	h.act = i
	h.t.Emit(core.Ev{"ev": "Switch", "to": i + 1})
	h.stats["switch"]++
}

// ------------------------------------------------------ somebody else acts

// regular files of logs/ as last observed, sorted
func (h *hist) seenNames() []string {
	out := make([]string, 0, len(h.seen))
	for n := range h.seen {
		out = append(out, n)
	}
	sort.Strings(out)
	return out
}

// extAppend: somebody else appends to an existing file (O_APPEND, as every well-behaved log writer).
func (h *hist) extAppend(rel string, data []byte) {
	old, ok := h.seen[rel]
	if !ok || len(data) == 0 {
		return
	}
	f, err := os.OpenFile(filepath.Join(h.logs(), filepath.FromSlash(rel)), os.O_WRONLY|os.O_APPEND, 0)
	if err != nil {
		h.fail("append %s: %v", rel, err)
		return
	}
	_, err = f.Write(data)
	f.Close()
	if err != nil {
		h.fail("append %s: %v", rel, err)
		return
	}
	h.seen[rel] = append(append([]byte{}, old...), data...)
	h.t.Emit(core.Ev{"ev": "ExtAppend", "n": core.Str(rel), "data": core.Cp(data)})
	h.stats["fault"]++
}

func (h *hist) extRemove(rel string) {
	if _, ok := h.seen[rel]; !ok {
		return
	}
	if err := os.Remove(filepath.Join(h.logs(), filepath.FromSlash(rel))); err != nil {
		h.fail("remove %s: %v", rel, err)
		return
	}
	delete(h.seen, rel)
	h.t.Emit(core.Ev{"ev": "ExtRemove", "n": core.Str(rel)})
	h.stats["fault"]++
}

func (h *hist) extTrunc(rel string, k int) {
	old, ok := h.seen[rel]
	if !ok || k < 0 || k >= len(old) {
		return
	}
	if err := os.Truncate(filepath.Join(h.logs(), filepath.FromSlash(rel)), int64(k)); err != nil {
		h.fail("truncate %s: %v", rel, err)
		return
	}
	h.seen[rel] = append([]byte{}, old[:k]...)
	h.t.Emit(core.Ev{"ev": "ExtTrunc", "n": core.Str(rel), "k": k})
	h.stats["fault"]++
}

// rmLogs: the logs directory goes away -- removed with everything in it, or moved to a place outside
// the temporary tree (for what <home>/logs holds that is the same thing).
func (h *hist) rmLogs(move bool) {
	if h.logsState() != "dir" {
		return
	}
	var err error
	if move {
		h.moved++
		err = os.Rename(h.logs(), filepath.Join(h.away(), fmt.Sprintf("logs.%d", h.moved)))
	} else {
		err = os.RemoveAll(h.logs())
	}
	if err != nil {
		h.fail("remove logs: %v", err)
		return
	}
	h.seen = map[string][]byte{}
	h.lseen = map[string]string{}
	h.t.Emit(core.Ev{"ev": "ExtRmLogs", "move": move})
	h.stats["fault"]++
}

// away: a directory outside the observed tree, on the same file system (removed with the history).
func (h *hist) away() string {
	if h.awayDir == "" {
		d, err := os.MkdirTemp(filepath.Dir(h.root), "verif-c17-away-")
		if err != nil {
			h.fail("away: %v", err)
			return h.root
		}
		h.awayDir = d
	}
	return h.awayDir
}

// block: a regular file is put where the logs directory was; unblock: it is taken away again.
func (h *hist) block() {
	if h.logsState() != "none" {
		return
	}
	if err := os.WriteFile(h.logs(), []byte("not a directory\n"), 0o644); err != nil {
		h.fail("block: %v", err)
		return
	}
	h.t.Emit(core.Ev{"ev": "ExtBlock"})
	h.stats["fault"]++
}

func (h *hist) unblock() {
	if h.logsState() != "file" {
		return
	}
	if err := os.Remove(h.logs()); err != nil {
		h.fail("unblock: %v", err)
		return
	}
	h.t.Emit(core.Ev{"ev": "ExtUnblock"})
}

// curRel: the name of the active logger's output file ("" if it has none).
func (h *hist) curRel() string {
	if h.lg == nil {
		return ""
	}
	f := h.lg.GetLogFile()
	if f == nil {
		return ""
	}
	return filepath.Base(f.Name())
}

// ---------------------------------------------------------------- texts

// texts that are not ASCII: Korean (3-byte characters), emoji (4-byte, with modifiers and joiners),
// 2-byte characters, and byte strings that are no UTF-8 at all (lone continuation bytes, cut-off
// sequences, over-long forms, surrogates, 0xfe/0xff), NUL and CR.
var mbTexts = []string{
	"한글 로그 메시지",
	"가",
	"ab가나cd",
	"😀",
	"a😀b👍🏽c👨‍👩‍👧d",
	"é ñ ü ß",
	"日本語のログ、中文日志",
	"\x80",
	"\xbf\xbfx",
	"a\xc3(b",
	"cut \xe2\x82",
	"cut4 \xf0\x9f\x98",
	"\xff\xfe both",
	"over \xc0\xaf long",
	"sur \xed\xa0\x80 rogate",
	"nul \x00 byte",
	"cr \r lf",
	"\xea\xb0",
	"mix 가\x80나\xff다",
}

func mbLine(r interface{ Intn(int) int }) string { return mbTexts[r.Intn(len(mbTexts))] }

// sweep reads file `name` (size bytes long) with windows that begin at every byte offset in [lo, size)
// (lengths 1..4 and up to the end) and windows that end at every offset (length 2 and 5), given as
// (end, length) pairs the way Read takes them.
func (h *hist) sweep(name string, lo, size int) {
	for s := lo; s < size && h.err == nil; s++ {
		for _, ln := range []int{1, 2, 3, 4, size - s} {
			if s+ln <= size {
				h.read(name, int64(s+ln), int64(ln))
			}
		}
	}
	for e := lo + 1; e <= size && h.err == nil; e++ {
		h.read(name, int64(e), 5)
	}
	for ln := 1; ln <= size-lo && ln <= 12 && h.err == nil; ln++ { // from the end, as a log viewer asks
		h.read(name, -1, int64(ln))
	}
}

// genReadMB: Read over files and log lines whose bytes are not ASCII: every window start and end.
func genReadMB(c *core.Ctx, t *core.Trace, cas int) error {
	h := &hist{c: c, t: t}
	if !h.begin("readmb", cas, nil) {
		return h.err
	}
	defer h.end("readmb", cas)
	r := h.rng
	h.clock(h.randStart())
	files := map[string]string{
		"ko.log":    "가나 abc 한글\n다",
		"emoji.log": "a😀b👍🏽\n👨‍👩‍👧",
		"bad.log":   "\x80\xbfa\xc3(\xe2\x82\xf0\x9f\x98\xff\xfe\xc0\xaf\xed\xa0\x80z\x00\r\n\xea\xb0",
		"two.log":   "é ñ\nß",
	}
	order := []string{"ko.log", "emoji.log", "bad.log", "two.log"}
	for _, n := range order {
		h.ext(n, []byte(files[n]))
	}
	h.open("whatap", "boot", 0)
	if h.lg == nil {
		return h.err
	}
	h.configure(conf{level: 0, iv: 0, keep: 7, rot: true}, false)
	switch cas % 3 {
	case 0, 1: // two of the seeded files, every window
		for _, n := range []string{order[(cas/3*2)%4], order[(cas/3*2+1+cas%3)%4]} {
			h.sweep(n, 0, len(files[n]))
		}
	case 2: // the logger's own file: lines of every family with such texts, then every window over them
		before := len(h.seen[h.curRel()])
		for i := 0; i < 3; i++ {
			h.log(mkCall(fnNames[r.Intn(len(fnNames))], "WA가"[:2+r.Intn(4)], mbLine(r), i, r.Intn(4) == 0))
		}
		size := len(h.seen[h.curRel()])
		if size-before > 70 {
			before = size - 70
		}
		h.sweep(h.curRel(), before, size)
	}
	for i := 0; i < 12 && h.err == nil; i++ { // and random windows over all of them
		n := append(order, h.curRel())[r.Intn(5)]
		e, l := h.window(int64(len(h.seen[n])))
		h.read(n, e, l)
	}
	return h.err
}

// ------------------------------------------- several loggers, sequential

// openAs constructs logger i (0-based) of this home and makes it the active one.
func (h *hist) openAs(i int, id, oname string, level int) {
	h.switchTo(i)
	h.open(id, oname, level)
}

// genDuo: two to four loggers in one home -- two of them with the same id and object name (one file, two
// handles), one with the same id and another name (its files fall under the other's retention), one
// with another id -- take turns logging, cycling and being reconfigured, while somebody else appends to
// their files; the clock crosses midnight now and then.  What every one of them wrote must be in the
// files whole and in call order.
func genDuo(c *core.Ctx, t *core.Trace, cas int, steps int) error {
	h := &hist{c: c, t: t}
	if !h.begin("duo", cas, nil) {
		return h.err
	}
	defer h.end("duo", cas)
	r := h.rng
	id, oname := idPool[r.Intn(len(idPool))], onamePool[r.Intn(len(onamePool))]
	d, ms := h.randStart()
	h.clock(d, ms)
	if r.Intn(2) == 0 {
		h.seedDir(id, oname, d, false)
	}
	who := [][2]string{{id, oname}, {id, oname}, {id, oname + "2"}, {"x" + id, oname}}
	n := 2 + cas%3
	for i := 0; i < n; i++ {
		h.openAs(i, who[i][0], who[i][1], r.Intn(3))
		if h.lg == nil {
			return h.err
		}
		if r.Intn(2) == 0 {
			h.configure(conf{level: r.Intn(3), iv: []int{0, 0, 1, 10}[r.Intn(4)], keep: []int{1, 2, 7, 30}[r.Intn(4)], rot: r.Intn(5) > 0}, false)
		}
	}
	ext := 0
	for i := 0; i < steps && h.err == nil; i++ {
		switch x := r.Intn(20); {
		case x < 5:
			h.switchTo(r.Intn(n))
			h.log(h.duoCall())
		case x < 10:
			h.log(h.duoCall())
		case x < 12:
			h.advance([]int64{1, 999, 1000, 9999, 10000, 60001, 3600000, dayMs}[r.Intn(8)])
		case x < 13:
			if r.Intn(2) == 0 {
				h.clock(h.d, dayMs-1-r.Intn(1500))
			} else {
				h.clock(h.d+1, r.Intn(1500))
			}
		case x < 15: // the cycle of one logger, or of all of them one after the other (as their timers would)
			if r.Intn(2) == 0 {
				h.cycle(h.gateCalls())
			} else {
				for k := 0; k < n; k++ {
					h.switchTo(k)
					h.cycle(nil)
				}
			}
		case x < 16:
			h.configure(conf{level: r.Intn(3), iv: []int{0, 1, 2, 10}[r.Intn(4)], keep: []int{1, 2, 3, 7, 30}[r.Intn(5)], rot: r.Intn(5) > 0}, r.Intn(4) == 0)
		case x < 18: // somebody else appends a line to a file a logger is writing
			ext++
			h.extAppend(h.someCur(n), []byte(fmt.Sprintf("external line %d %s\n", ext, mbLine(r))))
		case x < 19:
			f := h.curRel()
			e, l := h.window(int64(len(h.seen[f])))
			h.read(f, e, l)
		default:
			names := h.seenNames()
			if len(names) > 0 {
				f := names[r.Intn(len(names))]
				h.extAppend(f, []byte("x"))
			}
		}
	}
	// every logger still writes where it should
	for k := 0; k < n && h.err == nil; k++ {
		h.switchTo(k)
		h.log(mkCall("Error", "", fmt.Sprintf("logger %d at the end", k+1), k, false))
	}
	return h.err
}

func (h *hist) duoCall() call {
	r := h.rng
	text := []string{"shared message", "shared message", "0123456789A", "retry", "WA101 agent started", ""}[r.Intn(6)]
	if r.Intn(4) == 0 {
		text = mbLine(r)
	}
	return mkCall(fnNames[r.Intn(len(fnNames))], []string{"WA1", "WA2"}[r.Intn(2)], text, r.Intn(2), r.Intn(5) == 0)
}

func (h *hist) gateCalls() []call {
	var g []call
	for k := h.rng.Intn(3); k > 0; k-- {
		g = append(g, h.duoCall())
	}
	return g
}

// someCur: the output file of one of the first n loggers (as a name below logs/ that is there).
func (h *hist) someCur(n int) string {
	h.park()
	for tries := 0; tries < 8; tries++ {
		s := h.all[h.rng.Intn(n)]
		if s.lg == nil || s.lg.GetLogFile() == nil {
			continue
		}
		f := filepath.Base(s.lg.GetLogFile().Name())
		if _, ok := h.seen[f]; ok {
			return f
		}
	}
	return ""
}

// --------------------------------------------------------------- faults

// genFault: something is taken away from under a running logger, then the logger goes on: lines, Reads
// and cycles on the same day, then a date change (or the rotation flag) and the cycle that must bring it
// back, then lines again.  The faults: the output file (or another file) removed, cut short, appended to;
// the whole logs directory removed or moved away; a regular file put in its place (and taken away
// before or after the next cycle); somebody else making the directory (and a file of the same name) again.
func genFault(c *core.Ctx, t *core.Trace, cas int) error {
	h := &hist{c: c, t: t}
	if !h.begin("fault", cas, nil) {
		return h.err
	}
	defer h.end("fault", cas)
	r := h.rng
	id, oname := idPool[cas%len(idPool)], onamePool[(cas/2)%len(onamePool)]
	d, _ := h.randStart()
	h.clock(d, dayMs-200000+r.Intn(100000))
	if cas%4 == 1 {
		h.seedDir(id, oname, d, false)
	}
	two := cas%5 == 3 // a second logger on the same file
	h.openAs(0, id, oname, 0)
	if h.lg == nil {
		return h.err
	}
	h.configure(conf{level: 0, iv: []int{0, 10}[cas%2], keep: 7, rot: true}, false)
	if two {
		h.openAs(1, id, oname, 0)
		if h.lg == nil {
			return h.err
		}
		h.switchTo(0)
	}
	k := 0
	line := func(what string) {
		k++
		h.log(mkCall(fnNames[r.Intn(len(fnNames))], fmt.Sprintf("WF%d", k), fmt.Sprintf("%s %d", what, k), k, false))
	}
	lines := func(what string) {
		for i := 1 + r.Intn(2); i > 0; i-- {
			if two && r.Intn(2) == 0 {
				h.switchTo(r.Intn(2))
			}
			line(what)
		}
	}
	cycleAll := func(g bool) {
		if two {
			h.switchTo(1)
			h.cycle(nil)
			h.switchTo(0)
		}
		if g {
			h.cycle([]call{mkCall("Warnf", "", fmt.Sprintf("at the gate %d", cas), 0, false)})
		} else {
			h.cycle(nil)
		}
	}
	lines("before")
	h.cycle(nil)
	blocked := false
	for round := 0; round < 3 && h.err == nil; round++ {
		// ---- the fault
		cur := h.curRel()
		switch f := (cas + round*7) % 12; f {
		case 0:
			h.extRemove(cur)
		case 1:
			h.extTrunc(cur, 0)
		case 2:
			if n := len(h.seen[cur]); n > 1 {
				h.extTrunc(cur, 1+r.Intn(n-1))
			}
		case 3:
			h.extAppend(cur, []byte("somebody else\n"))
			h.extRemove(cur)
		case 4:
			h.rmLogs(false)
		case 5:
			h.rmLogs(true)
		case 6, 7:
			h.rmLogs(f == 7)
			h.block()
			blocked = true
		case 8: // removed, and somebody else makes directory and file again: the logger still holds the old one
			h.rmLogs(false)
			h.ext(cur, []byte("made again by somebody else\n"))
		case 9:
			h.extRemove(cur)
			h.ext(cur, []byte("made again by somebody else\n"))
		case 10: // another file only
			if names := h.seenNames(); len(names) > 0 {
				if o := names[r.Intn(len(names))]; o != cur {
					h.extRemove(o)
				}
			}
			h.extAppend(cur, []byte("appended by somebody else, no newline"))
		case 11:
			h.rmLogs(false)
			h.extDir("emptydir")
		}
		// ---- the same day goes on
		lines("after the fault")
		for i := r.Intn(3); i > 0 && h.err == nil; i-- {
			switch r.Intn(4) {
			case 0: // a Read of a plain name (the code makes the directory for it)
				h.read(filepath.Base(cur), -1, 20)
			case 1:
				h.advance(int64(1 + r.Intn(70000)))
				if h.d == d+round { // still the same day
					cycleAll(false)
				}
			case 2:
				lines("still the same day")
			case 3:
				if blocked && r.Intn(2) == 0 {
					h.unblock()
					blocked = false
				}
			}
		}
		// ---- the date changes (or the rotation flag), the cycle runs
		if r.Intn(4) == 0 {
			h.configure(conf{level: 0, iv: h.cf.iv, keep: 7, rot: !h.cf.rot}, false)
			if two {
				h.switchTo(1)
				h.configure(conf{level: 0, iv: h.cf.iv, keep: 7, rot: !h.cf.rot}, false)
				h.switchTo(0)
			}
		}
		h.clock(d+round+1, r.Intn(dayMs-300000))
		cycleAll(r.Intn(2) == 0)
		lines("after the rotation")
		if blocked { // down: every cycle tries again; once the file is out of the way the next one succeeds
			cycleAll(false)
			lines("while down")
			h.unblock()
			blocked = false
			lines("not yet cycled")
			h.advance(int64(1 + r.Intn(20000)))
			cycleAll(r.Intn(2) == 0)
			lines("up again")
		}
		h.read(h.curRel(), -1, 30)
	}
	return h.err
}

// ------------------------------------- one file, several writers, at once

// genDuoBurst: two loggers with the same id and name (two handles on one file), G goroutines each, and one
// more goroutine that appends lines of its own to the same file the way another process would (O_APPEND):
// everything any of them wrote must be in the file whole, each goroutine's lines in its program order.
// The calls are listed in the order the file gives them; a Switch precedes a line of the other logger.
func genDuoBurst(c *core.Ctx, t *core.Trace, cas int, G, N int) error {
	h := &hist{c: c, t: t}
	if !h.begin("duoburst", cas, core.Ev{"nondet": true}) {
		return h.err
	}
	defer h.end("duoburst", cas)
	r := h.rng
	id, oname := idPool[cas%len(idPool)], onamePool[(cas+2)%len(onamePool)]
	d, _ := h.randStart()
	h.clock(d, r.Intn(dayMs-1000))
	perG := cas%2 == 1
	iv := 0
	if perG {
		iv = 10
	}
	for i := 0; i < 2; i++ {
		h.openAs(i, id, oname, 1)
		if h.lg == nil {
			return h.err
		}
		h.configure(conf{level: 1, iv: iv, keep: 7, rot: true}, false)
	}
	h.park()
	file := h.curRel()
	calls := make([][]call, 2*G)
	for g := 0; g < 2*G; g++ {
		for i := 1; i <= N; i++ {
			fn := fnNames[r.Intn(len(fnNames))]
			idpart, pid := "burstline ", "WA7"
			if perG {
				idpart = fmt.Sprintf("g%02d-id-%c--", g, 'A'+rune(r.Intn(2)))
				pid = fmt.Sprintf("G%02d%c", g, 'A'+rune(r.Intn(2)))
			}
			pad := strings.Repeat("p", r.Intn(40))
			if r.Intn(5) == 0 {
				pad = mbLine(r)
			}
			calls[g] = append(calls[g], mkCall(fn, pid, fmt.Sprintf("%s<g%02d#%03d> %s", idpart, g, i, pad), i, r.Intn(4) == 0))
		}
	}
	XG := 2 * G // the external writer's "goroutine" number
	var wg sync.WaitGroup
	var panics int64
	start := make(chan struct{})
	for g := 0; g < 2*G; g++ {
		wg.Add(1)
		go func(g int) {
			defer wg.Done()
			lg := h.all[g%2].lg
			<-start
			for _, cl := range calls[g] {
				if msg := core.Guard(func() { doCall(lg, cl) }); msg != "" {
					atomic.AddInt64(&panics, 1)
				}
			}
		}(g)
	}
	var extErr error
	wg.Add(1)
	go func() {
		defer wg.Done()
		f, err := os.OpenFile(filepath.Join(h.logs(), file), os.O_WRONLY|os.O_APPEND, 0)
		if err != nil {
			extErr = err
			return
		}
		defer f.Close()
		<-start
		for i := 1; i <= N; i++ {
			line := fmt.Sprintf("%s external <g%02d#%03d> %s\n", time.Now().Format("2006/01/02 15:04:05"), XG, i, strings.Repeat("e", i%17))
			if _, err := f.Write([]byte(line)); err != nil {
				extErr = err
				return
			}
		}
	}()
	close(start)
	wg.Wait()
	if extErr != nil {
		h.fail("external writer: %v", extErr)
		return h.err
	}
	if panics > 0 {
		h.t.Emit(core.Ev{"ev": "Panic", "in": "duoburst", "n": panics})
		return h.err
	}
	before := h.seen
	o := h.obs()
	b := h.seen[file]
	delta := b
	if old, ok := before[file]; ok && bytes.HasPrefix(b, old) {
		delta = b[len(old):]
	}
	pre, es := entries(delta)
	if len(pre) > 0 {
		h.t.Emit(core.Ev{"ev": "Junk", "file": core.Str(file), "raw": core.Cp(pre)})
	}
	done := make([]int, 2*G)
	emitted := map[[2]int]bool{}
	logOf := func(g int) { h.switchTo(g % 2) }
	for _, e := range es {
		switch {
		case e.g == XG:
			h.t.Emit(core.Ev{"ev": "ExtAppend", "n": core.Str(file), "data": core.Cp(e.raw)})
		case e.g >= 0 && e.g < 2*G && e.seq >= 1 && e.seq <= N && !emitted[[2]int{e.g, e.seq}]:
			logOf(e.g)
			for done[e.g]+1 < e.seq {
				done[e.g]++
				ce := calls[e.g][done[e.g]-1].ev()
				ce["em"], ce["stamp"], ce["g"], ce["seq"] = false, core.Bytes{}, e.g, done[e.g]
				h.t.Emit(ce)
			}
			emitted[[2]int{e.g, e.seq}] = true
			ce := calls[e.g][e.seq-1].ev()
			st := e.raw
			if len(st) > 20 {
				st = st[:20]
			}
			ce["em"], ce["stamp"], ce["g"], ce["seq"], ce["raw"] = true, core.Cp(st), e.g, e.seq, core.Cp(e.raw)
			h.t.Emit(ce)
			done[e.g] = e.seq
		default:
			h.t.Emit(core.Ev{"ev": "Junk", "file": core.Str(file), "raw": core.Cp(e.raw)})
		}
	}
	for g := 0; g < 2*G; g++ {
		for done[g] < N {
			done[g]++
			logOf(g)
			ce := calls[g][done[g]-1].ev()
			ce["em"], ce["stamp"], ce["g"], ce["seq"] = false, core.Bytes{}, g, done[g]
			h.t.Emit(ce)
		}
	}
	h.t.Emit(core.Ev{"ev": "Sync", "obs": o})
	h.stats["log"] += 2 * G * N
	h.stats["burstlines"] += len(emitted)
	h.checkClock()
	for k := 0; k < 2; k++ {
		h.switchTo(k)
		h.log(mkCall("Error", "", fmt.Sprintf("after the burst %d", k), 0, false))
	}
	return h.err
}
