package c17

import "strconv"

// stubConfig is a config.Config over a map (standard library only), for ApplyConfig.
type stubConfig struct{ m map[string]string }

func (c *stubConfig) ApplyDefault()            {}
func (c *stubConfig) GetConfFile() string      { return "" }
func (c *stubConfig) Destroy()                 {}
func (c *stubConfig) GetKeys() []string        { return nil }
func (c *stubConfig) GetValue(k string) string { return c.m[k] }
func (c *stubConfig) GetValueDef(k, def string) string {
	if v, ok := c.m[k]; ok {
		return v
	}
	return def
}
func (c *stubConfig) GetBoolean(k string, def bool) bool {
	if v, ok := c.m[k]; ok {
		b, err := strconv.ParseBool(v)
		if err == nil {
			return b
		}
	}
	return def
}
func (c *stubConfig) GetInt(k string, def int) int32 {
	if v, ok := c.m[k]; ok {
		n, err := strconv.Atoi(v)
		if err == nil {
			return int32(n)
		}
	}
	return int32(def)
}
func (c *stubConfig) GetIntSet(k, def, deli string) []int32 { return nil }
func (c *stubConfig) GetLong(k string, def int64) int64     { return def }
func (c *stubConfig) GetStringArray(k string, def string, deli string) []string {
	return nil
}
func (c *stubConfig) GetStringHashSet(k, def, deli string) []int32     { return nil }
func (c *stubConfig) GetStringHashCodeSet(k, def, deli string) []int32 { return nil }
func (c *stubConfig) GetFloat(k string, def float32) float32           { return def }
func (c *stubConfig) SetValues(v *map[string]string)                   {}
func (c *stubConfig) ToString() string                                 { return "" }
func (c *stubConfig) String() string                                   { return "" }
