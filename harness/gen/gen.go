// Package gen builds random, well-formed instances of golib's wire objects
// (tagged values, steps, transaction/service records, packs, UDP packs) through
// the library's public constructors and exported fields.  It is shared by the
// drivers that need valid encodings to start from (C04 truncation/hostile
// fields; C03/C05/C08 may extend it).  It only constructs; it never judges.
package gen

import (
	"math"
	"math/rand"
	"reflect"

	gio "github.com/whatap/golib/io"
	"github.com/whatap/golib/lang/pack"
	"github.com/whatap/golib/lang/pack/udp"
	"github.com/whatap/golib/lang/service"
	"github.com/whatap/golib/lang/step"
	"github.com/whatap/golib/lang/value"
	"github.com/whatap/golib/util/compressutil"
	"github.com/whatap/golib/util/hmap"
	"github.com/whatap/golib/util/list"
)

var i64b = []int64{0, 1, -1, 127, 128, -128, -129, 32767, 32768, -32769, 1 << 23, -(1 << 23) - 1, 1 << 31, -(1 << 31) - 1,
	1 << 39, -(1 << 39) - 1, math.MaxInt64, math.MinInt64, 253, 254, 255, 65535, 65536}

func Int64(r *rand.Rand) int64 {
	switch r.Intn(4) {
	case 0:
		return i64b[r.Intn(len(i64b))] + int64(r.Intn(3)-1)
	case 1:
		return int64(r.Intn(200) - 100)
	default:
		return int64(r.Uint64() >> uint(r.Intn(64)))
	}
}

func Text(r *rand.Rand) string {
	const alpha = "abcdefXYZ0123456789 _-=/;:한é"
	rs := []rune(alpha)
	n := 0
	switch r.Intn(8) {
	case 0:
		n = 0
	case 1:
		n = []int{253, 254, 255, 256, 300}[r.Intn(5)]
	default:
		n = r.Intn(24)
	}
	out := make([]rune, n)
	for i := range out {
		out[i] = rs[r.Intn(len(rs))]
	}
	return string(out)
}

func Blob(r *rand.Rand) []byte {
	n := 0
	switch r.Intn(8) {
	case 0:
		n = 0
	case 1:
		n = []int{253, 254, 255, 256}[r.Intn(4)]
	default:
		n = r.Intn(40)
	}
	b := make([]byte, n)
	r.Read(b)
	return b
}

func F32(r *rand.Rand) float32 {
	switch r.Intn(4) {
	case 0:
		return float32(r.Intn(2000)-1000) / 8
	case 1:
		return []float32{0, 1, -1, math.MaxFloat32, math.SmallestNonzeroFloat32}[r.Intn(5)]
	default:
		return float32(r.NormFloat64() * 1e6)
	}
}

func F64(r *rand.Rand) float64 {
	switch r.Intn(4) {
	case 0:
		return float64(r.Intn(2000)-1000) / 8
	case 1:
		return []float64{0, 1, -1, math.MaxFloat64, math.SmallestNonzeroFloat64}[r.Intn(5)]
	default:
		return r.NormFloat64() * 1e12
	}
}

// ValueTypes are the 20 constructible type codes of the tagged value model.
var ValueTypes = []byte{value.VALUE_NULL, value.VALUE_BOOLEAN, value.VALUE_DECIMAL, value.VALUE_DECIMAL_INT, value.VALUE_DECIMAL_LONG,
	value.VALUE_FLOAT, value.VALUE_DOUBLE, value.VALUE_DOUBLE_SUMMARY, value.VALUE_LONG_SUMMARY, value.VALUE_TEXT, value.VALUE_TEXT_HASH,
	value.VALUE_BLOB, value.VALUE_IP4ADDR, value.VALUE_LIST, value.ARRAY_INT, value.ARRAY_FLOAT, value.ARRAY_TEXT, value.ARRAY_LONG,
	value.VALUE_MAP, value.INT_VALUE_MAP}

// Value builds a random value of type code t (containers nest up to depth).
func ValueOf(r *rand.Rand, t byte, depth int) value.Value {
	switch t {
	case value.VALUE_NULL:
		return value.NewNullValue()
	case value.VALUE_BOOLEAN:
		return value.NewBoolValue(r.Intn(2) == 1)
	case value.VALUE_DECIMAL:
		return value.NewDecimalValue(Int64(r))
	case value.VALUE_DECIMAL_INT:
		return value.NewIntValue(int32(Int64(r)))
	case value.VALUE_DECIMAL_LONG:
		return value.NewLongValue(Int64(r))
	case value.VALUE_FLOAT:
		return value.NewFloatValue(F32(r))
	case value.VALUE_DOUBLE:
		return value.NewDoubleValue(F64(r))
	case value.VALUE_DOUBLE_SUMMARY:
		s := value.NewDoubleSummary()
		fillExported(r, reflect.ValueOf(s).Elem(), 0)
		return s
	case value.VALUE_LONG_SUMMARY:
		s := value.NewLongSummary()
		fillExported(r, reflect.ValueOf(s).Elem(), 0)
		return s
	case value.VALUE_TEXT:
		return value.NewTextValue(Text(r))
	case value.VALUE_TEXT_HASH:
		return value.NewTextHashValue(int32(Int64(r)))
	case value.VALUE_BLOB:
		return value.NewBlobValue(Blob(r))
	case value.VALUE_IP4ADDR:
		return value.NewIP4Value([]byte{byte(r.Intn(256)), byte(r.Intn(256)), byte(r.Intn(256)), byte(r.Intn(256))})
	case value.VALUE_LIST:
		l := value.NewListValue(nil)
		if depth > 0 {
			for i, n := 0, r.Intn(5); i < n; i++ {
				l.Add(Value(r, depth-1))
			}
		}
		return l
	case value.ARRAY_INT:
		a := make([]int32, r.Intn(5))
		for i := range a {
			a[i] = int32(Int64(r))
		}
		return value.NewIntArray(a)
	case value.ARRAY_FLOAT:
		a := make([]float32, r.Intn(5))
		for i := range a {
			a[i] = F32(r)
		}
		return value.NewFloatArray(a)
	case value.ARRAY_TEXT:
		a := make([]string, r.Intn(5))
		for i := range a {
			a[i] = Text(r)
		}
		return value.NewTextArray(a)
	case value.ARRAY_LONG:
		a := make([]int64, r.Intn(5))
		for i := range a {
			a[i] = Int64(r)
		}
		return value.NewLongArray(a)
	case value.VALUE_MAP:
		return MapValue(r, depth)
	case value.INT_VALUE_MAP:
		m := value.NewIntMapValue()
		if depth > 0 {
			for i, n := 0, r.Intn(5); i < n; i++ {
				m.Put(int32(Int64(r)), Value(r, depth-1))
			}
		}
		return m
	}
	panic("gen: unknown value type")
}

func Value(r *rand.Rand, depth int) value.Value {
	return ValueOf(r, ValueTypes[r.Intn(len(ValueTypes))], depth)
}

func MapValue(r *rand.Rand, depth int) *value.MapValue {
	m := value.NewMapValue()
	for i, n := 0, r.Intn(5); i < n; i++ {
		k := Text(r)
		if k == "" {
			k = "k"
		}
		if depth > 0 {
			m.Put(k, Value(r, depth-1))
		} else {
			m.PutString(k, Text(r))
		}
	}
	return m
}

var (
	tMapValue    = reflect.TypeOf((*value.MapValue)(nil))
	tIntMapValue = reflect.TypeOf((*value.IntMapValue)(nil))
	tStrKeyMap   = reflect.TypeOf((*hmap.StringKeyLinkedMap)(nil))
	tValueIface  = reflect.TypeOf((*value.Value)(nil)).Elem()
)

// fillExported assigns random values to every settable exported field it understands.
func fillExported(r *rand.Rand, v reflect.Value, depth int) {
	if v.Kind() != reflect.Struct {
		return
	}
	for i := 0; i < v.NumField(); i++ {
		f := v.Field(i)
		if !f.CanSet() {
			continue
		}
		fillValue(r, f, depth)
	}
}

func fillValue(r *rand.Rand, f reflect.Value, depth int) {
	switch f.Kind() {
	case reflect.Bool:
		f.SetBool(r.Intn(2) == 1)
	case reflect.Int, reflect.Int8, reflect.Int16, reflect.Int32, reflect.Int64:
		v := Int64(r)
		if f.Kind() == reflect.Int { // plain int counters are usually written with 32 bits or fewer
			v = int64(int16(v))
			if v < 0 {
				v = -v
			}
		}
		f.SetInt(reflect.Zero(f.Type()).Int() + truncInt(v, f.Type().Bits()))
	case reflect.Uint, reflect.Uint8, reflect.Uint16, reflect.Uint32, reflect.Uint64:
		f.SetUint(uint64(Int64(r)) & (^uint64(0) >> (64 - uint(f.Type().Bits()))))
	case reflect.Float32:
		f.SetFloat(float64(F32(r)))
	case reflect.Float64:
		f.SetFloat(F64(r))
	case reflect.String:
		f.SetString(Text(r))
	case reflect.Slice:
		if f.Type().Elem().Kind() == reflect.Uint8 {
			f.SetBytes(Blob(r))
			return
		}
		n := r.Intn(4)
		if f.Len() > 0 { // constructor fixed the length (e.g. hit map cells): keep it
			n = f.Len()
		}
		s := reflect.MakeSlice(f.Type(), n, n)
		for i := 0; i < n; i++ {
			fillValue(r, s.Index(i), depth)
		}
		f.Set(s)
	case reflect.Array:
		for i := 0; i < f.Len(); i++ {
			fillValue(r, f.Index(i), depth)
		}
	case reflect.Struct:
		fillExported(r, f, depth)
	case reflect.Ptr:
		switch f.Type() {
		case tMapValue:
			f.Set(reflect.ValueOf(MapValue(r, depth)))
		case tIntMapValue:
			f.Set(reflect.ValueOf(ValueOf(r, value.INT_VALUE_MAP, depth)))
		case tStrKeyMap:
			m := hmap.NewStringKeyLinkedMap()
			for i, n := 0, r.Intn(4); i < n; i++ {
				m.Put("k"+Text(r), Text(r))
			}
			f.Set(reflect.ValueOf(m))
		default:
			if f.Type().Elem().Kind() == reflect.Struct && depth > 0 && f.Type().Elem().NumField() > 0 && f.Type().Elem().PkgPath() != "sync" {
				if f.IsNil() {
					return // leave what the constructor made; unknown pointer types are not invented
				}
				fillExported(r, f.Elem(), depth-1)
			}
		}
	case reflect.Interface:
		if f.Type() == tValueIface {
			f.Set(reflect.ValueOf(Value(r, depth)))
		}
	}
}

func truncInt(v int64, bits int) int64 {
	sh := uint(64 - bits)
	return (v << sh) >> sh
}

// Fill populates the exported fields of *p (p must be a pointer to struct).
func Fill(r *rand.Rand, p interface{}, depth int) {
	fillExported(r, reflect.ValueOf(p).Elem(), depth)
}

// StepTypes are the registered step type tags.
var StepTypes = []byte{step.STEP_METHOD_X, step.STEP_SQL_X, step.STEP_RESULTSET, step.STEP_SOCKET, step.STEP_HTTPCALL_X,
	step.STEP_ACTIVE_STACK, step.STEP_MESSAGE, step.STEP_SECURE_MESSAGE, step.STEP_DBC, step.STEP_MESSAGE_X}

func Step(r *rand.Rand, t byte) step.Step {
	s := step.CreateStep(t)
	Fill(r, s, 1)
	return s
}

func TxRecord(r *rand.Rand) *service.TxRecord {
	t := service.NewTxRecord()
	Fill(r, t, 1)
	return t
}

// PackTypes are the type codes the pack factory can create.
var PackTypes = []int16{pack.PACK_PARAMETER, pack.PACK_COUNTER_1, pack.PACK_PROFILE, pack.PACK_ACTIVESTACK_1, pack.PACK_TEXT,
	pack.PACK_ERROR_SNAP_1, pack.PACK_REALTIME_USER, pack.PACK_STAT_SERVICE, pack.PACK_STAT_GENERAL, pack.PACK_STAT_SQL,
	pack.PACK_STAT_HTTPC, pack.PACK_STAT_ERROR, pack.PACK_STAT_REMOTE_IP, pack.PACK_STAT_USER_AGENT, pack.PACK_EVENT,
	pack.PACK_HITMAP_1, pack.PACK_EXTENSION, pack.TAG_COUNT, pack.TAG_LOG, pack.PACK_COMPOSITE, pack.PACK_LOGSINK, pack.PACK_ZIP,
	pack.PACK_LOGSINK_ZIP, pack.PACK_SERVERINFO}

// Pack builds a randomly populated pack of type t (exported fields by reflection,
// private state through the public setters where they exist).
func Pack(r *rand.Rand, t int16) pack.Pack {
	p := pack.CreatePack(t)
	if p == nil {
		return nil
	}
	Fill(r, p, 1)
	if r.Intn(2) == 0 { // short header form
		p.SetOKIND(0)
		p.SetONODE(0)
	}
	switch q := p.(type) {
	case *pack.TextPack:
		for i, n := 0, r.Intn(4); i < n; i++ {
			q.AddText(pack.TextRec{Div: byte(r.Intn(256)), Hash: int32(Int64(r)), Text: Text(r)})
		}
	case *pack.ParamPack:
		for i, n := 0, r.Intn(4); i < n; i++ {
			q.Put("p"+Text(r), Value(r, 1))
		}
	case *pack.ZipPack:
		q.RecordCount = 0
		q.Records = nil
		q.Status = 0
		var items []pack.Pack
		for i, n := 0, r.Intn(3); i < n; i++ {
			items = append(items, Pack(r, pack.PACK_TEXT))
		}
		q.SetRecords(items)
	case *pack.StatSqlPack, *pack.StatServicePack, *pack.StatHttpcPack, *pack.StatErrorPack, *pack.StatRemoteIpPack, *pack.StatUserAgentPack:
		// record blobs are produced by the packs' own setters; an empty record list is a valid encoding
		v := reflect.ValueOf(q).Elem()
		if f := v.FieldByName("Records"); f.IsValid() && f.CanSet() && f.Kind() == reflect.Slice {
			f.Set(reflect.Zero(f.Type()))
		}
		if f := v.FieldByName("RecordCount"); f.IsValid() && f.CanSet() {
			f.Set(reflect.Zero(f.Type()))
		}
	}
	return p
}

// UdpTypes are the pack types the UDP factory can create.
var UdpTypes = []uint8{udp.TX_START, udp.TX_DB_CONN, udp.TX_DB_FETCH, udp.TX_SQL, udp.TX_SQL_START, udp.TX_SQL_END, udp.TX_HTTPC,
	udp.TX_HTTPC_START, udp.TX_HTTPC_END, udp.TX_ERROR, udp.TX_MSG, udp.TX_METHOD, udp.TX_SECURE_MSG, udp.TX_SQL_PARAM,
	udp.TX_RESULT_SET, udp.TX_PARAM, udp.ACTIVE_STACK_1, udp.ACTIVE_STACK, udp.ACTIVE_STATS, udp.DBCONN_POOL, udp.CONFIG_INFO,
	udp.RELAY_PACK, udp.TX_START_END, udp.TX_END}

var UdpVersions = []int32{10100, 10101, 10105, 10110, 20101, 20102, 20104, 30101, 30103, 40001, 50100, 50101}

// UdpVersionsAll: every version at and next to a threshold the UDP formats distinguish (five agent families).
var UdpVersionsAll = []int32{10000, 10100, 10101, 10102, 10103, 10104, 10105, 10106, 10107, 10108, 10109, 10110, 10111, 20001, 20101, 20102,
	20103, 20104, 20105, 30001, 30101, 30102, 30103, 30104, 40001, 40101, 50001, 50099, 50100, 50101, 50102}

func Udp(r *rand.Rand, t uint8, ver int32) udp.UdpPack {
	p := udp.CreatePack(t, ver)
	if p == nil {
		return nil
	}
	Fill(r, p, 1)
	p.SetVersion(ver)
	return p
}

// Encode runs f(out) under recover and returns the bytes (nil if the writer panicked
// on the random fill, which only means this instance is not a usable encoding).
func Encode(f func(out *gio.DataOutputX)) (b []byte) {
	defer func() {
		if recover() != nil {
			b = nil
		}
	}()
	out := gio.NewDataOutputX()
	f(out)
	b = append([]byte(nil), out.ToByteArray()...)
	return b
}

// ---------------------------------------------------------------------------
// Deep instances (added for C04's second-stage runs; Pack above is unchanged).

// sliceEnum is an hmap.Enumeration over a slice.
type sliceEnum struct {
	items []interface{}
	i     int
}

func (e *sliceEnum) HasMoreElements() bool { return e.i < len(e.items) }
func (e *sliceEnum) NextElement() interface{} {
	x := e.items[e.i]
	e.i++
	return x
}

// AnyList builds a random column of n cells of a random list type.
func AnyList(r *rand.Rand, n int) list.AnyList {
	var a list.AnyList
	switch r.Intn(5) {
	case 0:
		a = list.NewIntListDefault()
	case 1:
		a = list.NewLongListDefault()
	case 2:
		a = list.NewFloatListDefault()
	case 3:
		a = list.NewDoubleListDefault()
	default:
		a = list.NewStringListDefault()
	}
	for i := 0; i < n; i++ {
		switch a.GetType() {
		case list.ANYLIST_INT:
			a.AddInt(int(int32(Int64(r))))
		case list.ANYLIST_LONG:
			a.AddLong(Int64(r))
		case list.ANYLIST_FLOAT:
			a.AddFloat(F32(r))
		case list.ANYLIST_DOUBLE:
			a.AddDouble(F64(r))
		default:
			a.AddString(Text(r))
		}
	}
	return a
}

// Steps builds a short random profile.
func Steps(r *rand.Rand, n int) []step.Step {
	var out []step.Step
	for i := 0; i < n; i++ {
		out = append(out, Step(r, StepTypes[r.Intn(len(StepTypes))]))
	}
	return out
}

// recordPackTypes are the pack types put inside zip record streams.
var recordPackTypes = []int16{pack.PACK_TEXT, pack.PACK_PARAMETER, pack.TAG_COUNT, pack.PACK_LOGSINK, pack.PACK_EVENT}

// PackDeep is Pack plus the state that Pack leaves empty because it is private or
// produced by setters: the lazily decoded second stage of the pack (data table,
// record blobs - plain and compressed -, profiles, call stacks).  ColumnKey(0)
// names the first column of a StatGeneralPack table.
func PackDeep(r *rand.Rand, t int16) pack.Pack {
	p := Pack(r, t)
	if p == nil {
		return nil
	}
	recs := func(mk func() interface{}) (int, *sliceEnum) {
		n := 1 + r.Intn(3)
		e := &sliceEnum{}
		for i := 0; i < n; i++ {
			x := mk()
			Fill(r, x, 1)
			e.items = append(e.items, x)
		}
		return n, e
	}
	switch q := p.(type) {
	case *pack.StatGeneralPack:
		rows := 1 + r.Intn(4)
		for i, n := 0, 1+r.Intn(3); i < n; i++ {
			q.Put(ColumnKey(i), AnyList(r, rows))
		}
	case *pack.ZipPack:
		var items []pack.Pack
		for i, n := 0, 1+r.Intn(3); i < n; i++ {
			items = append(items, Pack(r, recordPackTypes[r.Intn(len(recordPackTypes))]))
		}
		q.Status = 0
		q.SetRecords(items)
		if r.Intn(2) == 0 {
			if z, err := compressutil.DoZip(q.Records); err == nil {
				q.Records, q.Status = z, pack.ZIPPED
			}
		}
	case *pack.LogSinkZipPack:
		o := gio.NewDataOutputX()
		n := 1 + r.Intn(3)
		for i := 0; i < n; i++ {
			pack.WritePack(o, Pack(r, pack.PACK_LOGSINK))
		}
		q.Status, q.RecordCount = pack.UN_ZIPPED, n
		q.SetRecords(append([]byte(nil), o.ToByteArray()...), []int{0, 1 << 20}[r.Intn(2)])
	case *pack.ProfilePack:
		q.SetProfile(Steps(r, 1+r.Intn(3)))
	case *pack.ErrorSnapPack1:
		q.SetProfile(Steps(r, 1+r.Intn(3)))
		st := make([]int32, r.Intn(5))
		for i := range st {
			st[i] = int32(Int64(r))
		}
		q.SetStack(st)
	case *pack.StatSqlPack:
		q.SetRecords(recs(func() interface{} { return pack.NewSqlRec() }))
	case *pack.StatHttpcPack:
		q.SetRecords(recs(func() interface{} { return pack.NewHttpcRec() }))
	case *pack.StatErrorPack:
		q.SetRecords(recs(func() interface{} { return pack.NewErrorRec() }))
	case *pack.StatServicePack:
		q.SetRecords(recs(func() interface{} { return pack.NewServiceRec() }))
	}
	return p
}

func ColumnKey(i int) string { return "k" + string(rune('0'+i)) }

// DirectType is a wire object with a Write/Read pair of its own that no factory creates.
type DirectType struct {
	Name string
	Mk   func() interface{}
}

// DirectTypes are the packs and records decoded through their own Read.
var DirectTypes = []DirectType{
	{"ProfileStepSplitPack", func() interface{} { return pack.NewProfileStepSplitPack() }},
	{"StatTransactionPack", func() interface{} { return pack.NewStatTransactionPack() }},
	{"StatTransactionPack1", func() interface{} { return pack.NewStatTransactionPack1() }},
	{"StatGeneralPack1", func() interface{} { return pack.NewStatGeneralPackType(pack.PACK_STAT_GENERAL_1) }},
	{"SMBasePack", func() interface{} { return pack.NewSMBasePack() }},
	{"SMDiskPerfPack", func() interface{} { return pack.NewSMDiskPerfPack() }},
	{"SMDownCheckPack", func() interface{} { return pack.NewSMDownCheckPack() }},
	{"SMExtension", func() interface{} { return pack.NewSMExtensionPack() }},
	{"SMLogEventPack", func() interface{} { return pack.NewSMLogEventPack() }},
	{"SMNetPerfPack", func() interface{} { return pack.NewSMNetPerfPack() }},
	{"SMPingPack", func() interface{} { return pack.NewSMPingPack() }},
	{"SMProcPerfPack", func() interface{} { return pack.NewSMProcPerfPack() }},
	{"SMTCPPerfPack", func() interface{} { return pack.NewSMTCPPerfPack() }},
	{"ProcPerf", func() interface{} { return &pack.ProcPerf{} }},
	{"DiskPerf", func() interface{} { return &pack.DiskPerf{} }},
	{"NetPerf", func() interface{} { return &pack.NetPerf{} }},
	{"SMLogEvent", func() interface{} { return &pack.SMLogEvent{} }},
	{"TimeCount", func() interface{} { return pack.NewTimeCountDefault() }},
	{"SqlRec", func() interface{} { return pack.NewSqlRec() }},
	{"HttpcRec", func() interface{} { return pack.NewHttpcRec() }},
	// steps and sub-records with a Write/Read pair that no factory and no generator above reaches on their own
	{"SqlStep_3", func() interface{} { return step.NewSqlStep_3() }},
	{"CpuLinux", func() interface{} { return &pack.CpuLinux{} }},
	{"CpuWindow", func() interface{} { return &pack.CpuWindow{} }},
	{"CpuOSX", func() interface{} { return &pack.CpuOSX{} }},
	{"MemoryLinux", func() interface{} { return &pack.MemoryLinux{} }},
	{"MemoryWindow", func() interface{} { return &pack.MemoryWindow{} }},
	{"ProcNetPerf", func() interface{} { return &pack.ProcNetPerf{} }},
	{"ProcFilePerf", func() interface{} { return &pack.ProcFilePerf{} }},
	{"TCPPortPerf", func() interface{} { return &pack.TCPPortPerf{} }},
}

// Direct builds a randomly populated instance of DirectTypes[i] (second-stage state included where setters exist).
func Direct(r *rand.Rand, i int) interface{} {
	p := DirectTypes[i].Mk()
	Fill(r, p, 1)
	switch q := p.(type) {
	case *pack.StatGeneralPack:
		rows := 1 + r.Intn(4)
		for i, n := 0, 1+r.Intn(3); i < n; i++ {
			q.Put(ColumnKey(i), AnyList(r, rows))
		}
	case *pack.ProfileStepSplitPack:
		q.SetProfile(Steps(r, 1+r.Intn(3)))
	case *pack.SMBasePack: // the OS code selects the cpu/memory record types; Fill does not invent interface values
		q.OS = []int16{pack.OS_LINUX, pack.OS_WINDOW, pack.OS_OSX, pack.OS_HPUX, pack.OS_AIX}[r.Intn(5)]
		mk := func() (pack.Cpu, pack.Memory) {
			if q.OS == pack.OS_WINDOW {
				return &pack.CpuWindow{}, &pack.MemoryWindow{}
			}
			return &pack.CpuLinux{}, &pack.MemoryLinux{}
		}
		q.Cpu, q.Memory = mk()
		Fill(r, q.Cpu, 0)
		Fill(r, q.Memory, 0)
		q.CpuCore = nil
		for i, n := 0, r.Intn(3); i < n; i++ {
			c, _ := mk()
			Fill(r, c, 0)
			q.CpuCore = append(q.CpuCore, c)
		}
	case *pack.SMDownCheckPack:
		var items []*pack.DownCheckRec
		for i, n := 0, 1+r.Intn(3); i < n; i++ {
			x := &pack.DownCheckRec{}
			Fill(r, x, 0)
			items = append(items, x)
		}
		q.SetRecords(items)
	case *pack.SMExtension:
		q.SetHeader(ValueOf(r, value.INT_VALUE_MAP, 1).(*value.IntMapValue))
		q.SetValues(ValueOf(r, value.INT_VALUE_MAP, 1).(*value.IntMapValue))
		q.SetMetaValues(ValueOf(r, value.INT_VALUE_MAP, 1).(*value.IntMapValue))
	}
	return p
}

// ---------------------------------------------------------------------------
// Layout variants (added for C04): the encodings an object's writer produces when
// ONE field takes the values that wire formats use to select a layout - every
// value of a byte-wide field (version and flag bytes), both values of a bool,
// 0/1/2/3/-1 of a wider integer, empty/non-empty of a string, slice, map or
// nested value.  Mutate only constructs; which variants are worth decoding is
// the caller's business (it sees the writer's output while the field is set).

// Mutate sets, one at a time, every settable exported field reachable from *p to each
// of its candidate values, calls visit(path, kind, value, n) while the field is set and puts the
// old value back.  kind: "byte" | "bool" | "int" (candidates in the order 1, 0, 2, 3, -1) | "map" |
// "value" | "text" (n = byte length of the text or blob replaced) | "slice".  Order: bytes and
// bools of the whole object first, then integers, maps and values, then texts and slices.
// visit returns false to stop.
func Mutate(r *rand.Rand, p interface{}, visit func(path, kind, val string, n int) bool) {
	stop := false
	for pass := 0; pass < 3 && !stop; pass++ {
		seen := map[uintptr]bool{}
		var walk func(v reflect.Value, path string, depth int)
		try := func(f, nv reflect.Value, path, kind, val string, n int) {
			if stop {
				return
			}
			old := reflect.New(f.Type()).Elem()
			old.Set(f)
			f.Set(nv)
			if !visit(path, kind, val, n) {
				stop = true
			}
			f.Set(old)
		}
		field := func(f reflect.Value, path string, depth int) {
			if stop || !f.CanSet() {
				return
			}
			switch f.Kind() {
			case reflect.Uint8, reflect.Int8:
				if pass != 0 {
					return
				}
				for x := 0; x < 256 && !stop; x++ {
					nv := reflect.New(f.Type()).Elem()
					if f.Kind() == reflect.Uint8 {
						nv.SetUint(uint64(x))
					} else {
						nv.SetInt(int64(int8(x)))
					}
					if nv.Interface() != f.Interface() {
						try(f, nv, path, "byte", strconvI(x), 0)
					}
				}
			case reflect.Bool:
				if pass == 0 {
					try(f, reflect.ValueOf(!f.Bool()).Convert(f.Type()), path, "bool", "toggled", 0)
				}
			case reflect.Int, reflect.Int16, reflect.Int32, reflect.Int64, reflect.Uint, reflect.Uint16, reflect.Uint32, reflect.Uint64:
				if pass != 1 {
					return
				}
				for _, x := range []int64{1, 0, 2, 3, -1} {
					nv := reflect.New(f.Type()).Elem()
					if f.Kind() >= reflect.Uint {
						nv.SetUint(uint64(x) & (^uint64(0) >> (64 - uint(f.Type().Bits()))))
					} else {
						nv.SetInt(x)
					}
					try(f, nv, path, "int", strconvI(int(x)), 0)
				}
			case reflect.String:
				if pass == 2 {
					if f.Len() > 0 {
						try(f, reflect.ValueOf("").Convert(f.Type()), path, "text", "empty", f.Len())
					} else {
						try(f, reflect.ValueOf("v").Convert(f.Type()), path, "text", "set", 0)
					}
				}
			case reflect.Slice:
				if pass == 2 {
					kind := "slice"
					if f.Type().Elem().Kind() == reflect.Uint8 {
						kind = "text"
					}
					if f.Len() > 0 {
						try(f, reflect.Zero(f.Type()), path, kind, "empty", f.Len())
					} else {
						s := reflect.MakeSlice(f.Type(), 1, 1)
						fillValue(r, s.Index(0), 0)
						try(f, s, path, kind, "set", 0)
					}
				}
				if f.Len() > 0 && f.Type().Elem().Kind() != reflect.Uint8 {
					walk(f.Index(0), path+"[0]", depth+1)
				}
			case reflect.Array:
				if f.Len() > 0 {
					walk(f.Index(0), path+"[0]", depth+1)
				}
			case reflect.Struct:
				walk(f, path, depth+1)
			case reflect.Ptr:
				switch f.Type() {
				case tMapValue, tIntMapValue, tStrKeyMap:
					if pass != 1 {
						return
					}
					if !f.IsNil() {
						try(f, reflect.Zero(f.Type()), path, "map", "nil", 0)
						nv := reflect.New(f.Type()).Elem()
						switch f.Type() { // present but empty
						case tMapValue:
							nv.Set(reflect.ValueOf(value.NewMapValue()))
						case tIntMapValue:
							nv.Set(reflect.ValueOf(value.NewIntMapValue()))
						default:
							nv.Set(reflect.ValueOf(hmap.NewStringKeyLinkedMap()))
						}
						try(f, nv, path, "map", "empty", 0)
					} else {
						nv := reflect.New(f.Type()).Elem()
						fillValue(r, nv, 1)
						try(f, nv, path, "map", "set", 0)
					}
				default:
					walk(f, path, depth+1)
				}
			case reflect.Interface:
				if f.Type() == tValueIface {
					if pass != 1 {
						return
					}
					if !f.IsNil() {
						try(f, reflect.Zero(f.Type()), path, "value", "nil", 0)
					} else {
						try(f, reflect.ValueOf(Value(r, 1)), path, "value", "set", 0)
					}
				} else if !f.IsNil() {
					walk(f.Elem(), path, depth+1)
				}
			}
		}
		walk = func(v reflect.Value, path string, depth int) {
			if stop || depth > 4 {
				return
			}
			switch v.Kind() {
			case reflect.Interface:
				if !v.IsNil() {
					walk(v.Elem(), path, depth)
				}
			case reflect.Ptr:
				if v.IsNil() || seen[v.Pointer()] || v.Type().Elem().Kind() != reflect.Struct || v.Type().Elem().PkgPath() == "sync" {
					return
				}
				seen[v.Pointer()] = true
				walk(v.Elem(), path, depth)
			case reflect.Struct:
				for i := 0; i < v.NumField() && !stop; i++ {
					if v.Type().Field(i).PkgPath != "" {
						continue
					}
					field(v.Field(i), path+"."+v.Type().Field(i).Name, depth)
				}
			}
		}
		walk(reflect.ValueOf(p), "", 0)
	}
}

func strconvI(x int) string {
	if x < 0 {
		return "-" + strconvI(-x)
	}
	if x < 10 {
		return string(rune('0' + x))
	}
	return strconvI(x/10) + string(rune('0'+x%10))
}
