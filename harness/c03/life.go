package c03

// Histories in which pack OBJECTS live on (spec PackCodec, Part 5) and
// minimal instances at the very end of the input:
//
//	gen "life"     one pack object of every type: written, changed through its
//	               public surface (exported fields assigned / put back to their
//	               zero value, elements added and removed, public mutators
//	               called), written AGAIN, decoded, written again ...  The law
//	               is judged for the content the object has at the moment of
//	               each write; the carried set of a later write is derived for
//	               that state of the object (the probes replay its history).
//	gen "hold"     several packs / containers alive at the same time: all are
//	               written (built) first, decoded (sent and unpacked) afterwards,
//	               in another order; what a call handed out (the very slice the
//	               writer returned, the records blob of a container, a decoded
//	               pack, the unpacked inner packs) is kept uncopied and looked
//	               at again after the later calls (Peek).
//	gen "minimal"  for every count-prefixed section of every type: instances in
//	               which that section holds 1, 2 or 255 elements of minimal
//	               encoding and everything else is as short as it can be; the
//	               reader is given exactly the encoding (nothing behind it).
//	               The same for containers: minimal records / inner packs.

import (
	"fmt"
	"math/rand"
	"os"
	"reflect"
	"sort"
	"time"

	"github.com/whatap/golib/lang/pack"
	"github.com/whatap/golib/lang/value"
	"github.com/whatap/golib/util/list"

	"verifharness/core"
)

// hist counts the events the End event of a history accounts for.
type hist struct {
	t *core.Trace
	n int
}

func (h *hist) emit(ev core.Ev) {
	switch ev["ev"] {
	case "Create", "Dec", "Unpack", "Mut", "Use", "Peek":
		h.n++
	}
	h.t.Emit(ev)
}
func (h *hist) end() { h.t.Emit(core.Ev{"ev": "End", "n": h.n}) }

var sectionCache = map[string]*minPlan{}

func sectionsOf(pt *ptype) *minPlan {
	d, ok := sectionCache[pt.name]
	if !ok {
		d = discoverSections(pt)
		sectionCache[pt.name] = d
	}
	return d
}

// ------------------------------------------------------------------ minimal

var minCounts = []int{1, 2, 255}

func runMinimal(c *core.Ctx) error {
	if !c.WantGen("minimal") {
		return nil
	}
	t := c.Trace("c03_min", "Trace_PackCodec")
	sites := map[string]int{}
	for ti, pt := range ptypes {
		d := sectionsOf(pt)
		sites[pt.name] = len(d.seen)
		for si, key := range d.seen {
			for ni, n := range minCounts {
				cas := ti*1000 + si*4 + ni
				if !c.Want("minimal", cas) {
					continue
				}
				// quick tier: the long lists for every eighth section (another eighth with every seed)
				if c.OnlyCase < 0 && !c.Thorough() && n > 2 && (int64(ti+si)+c.Seed)%8 != 0 {
					continue
				}
				h := &hist{t: t}
				seed := c.Rng("minimal", cas).Int63()
				// a long section of records: as long as the instance stays below ~1500 leaves (255, 64, 24 elements)
				for _, shorter := range []int{64, 24} {
					if n > 2 && len(walkObject((&instance{pt: pt, seed: seed, depth: 1, nonil: true, min: d.planFor(key, n)}).build())) > 1500 {
						n = shorter
					}
				}
				t.Reset("minimal", cas, core.Ev{"type": pt.name, "section": key, "n": n})
				m, msg, err := makeMessageOf(&instance{pt: pt, seed: seed, depth: 1, min: d.planFor(key, n)}, nil)
				if err != nil {
					return err
				}
				if msg != "" {
					h.emit(core.Ev{"ev": "Panic", "in": "Write", "type": pt.name, "msg": msg})
				} else {
					h.emit(m.event("Enc"))
					if _, ok := decEvents(h.emit, pt, m.bytes, m.bytes); ok {
						c.Count(fmt.Sprintf("min:%s:%s:%d:%d", pt.name, key, n, len(m.bytes)), true)
					}
				}
				h.end()
			}
		}
	}
	c.SetExtra("sections_per_type_gen_minimal", sites)
	// containers over minimal items: the last record / inner pack ends the records blob
	kinds := []string{"composite", "zip", "lszip"}
	for ki := 0; ki < len(kinds)+len(recKinds); ki++ {
		for ni, n := range minCounts {
			for rep := 0; rep < c.Pick(2, 6); rep++ {
				cas := 900000 + ki*100 + ni*10 + rep
				if !c.Want("minimal", cas) {
					continue
				}
				if c.OnlyCase < 0 && !c.Thorough() && n > 2 && (rep > 0 || (int64(ki)+c.Seed)%3 != 0) {
					continue
				}
				h := &hist{t: t}
				r := c.Rng("minimal", cas)
				var b *built
				var err error
				if ki < len(kinds) {
					t.Reset("minimal", cas, core.Ev{"kind": kinds[ki], "n": n})
					b, err = packBuild(h.emit, kinds[ki], r, buildOpts{nFixed: n, minimal: true})
				} else {
					rk := recKinds[ki-len(kinds)]
					t.Reset("minimal", cas, core.Ev{"pack": rk.name, "n": n})
					b, err = recsBuild(h.emit, rk, cas, r, buildOpts{nFixed: n, minimal: true})
				}
				if err != nil {
					return err
				}
				if b != nil && boxFinish(h.emit, b) {
					c.Count(fmt.Sprintf("min:%s%s:%d", b.kind, b.name, n), true)
				}
				h.end()
			}
		}
	}
	// every section of every record type: a record list of ONE record whose section holds 1, 2, 255 minimal elements
	for ki, rk := range recKinds {
		recType := &ptype{name: rk.rec, mk: rk.mkRec}
		d := sectionsOf(recType)
		for si, key := range d.seen {
			for ni, n := range minCounts {
				cas := 950000 + ki*1000 + si*4 + ni
				if !c.Want("minimal", cas) {
					continue
				}
				h := &hist{t: t}
				t.Reset("minimal", cas, core.Ev{"pack": rk.name, "section": key, "n": n})
				b, err := recsBuild(h.emit, rk, cas, c.Rng("minimal", cas), buildOpts{nFixed: 1, minimal: true, plan: d.planFor(key, n)})
				if err != nil {
					return err
				}
				if b != nil && boxFinish(h.emit, b) {
					c.Count(fmt.Sprintf("min:%s:%s:%d", rk.name, key, n), true)
				}
				h.end()
			}
		}
	}
	return nil
}

// --------------------------------------------------------------------- life

// one step in the life of an object (replayed on the rebuilt copies the probes work on)
type step func(p interface{})

// the leaf of p at index k with the path it must have (the copy lived the same life)
func leafAt(p interface{}, k int, path string) leaf {
	ls := walkObject(p)
	if k >= len(ls) || ls[k].path != path {
		panic(fmt.Sprintf("c03 life: leaf %d is not %s on the rebuilt copy", k, path))
	}
	return ls[k]
}

func leafStep(k int, path, op string) step {
	return func(p interface{}) {
		l := leafAt(p, k, path)
		if op == "zero" {
			l.zero()
		} else {
			l.mut()
		}
	}
}

// a call of a public mutator; args are drawn from the seed so that the rebuilt copies get the same call
type call struct {
	name string
	do   func(p interface{}, r *rand.Rand)
}

func smallText(r *rand.Rand) string {
	return []string{"", "a", "key", "Ünï", "0123456789"}[r.Intn(5)]
}

func smallAnyList(r *rand.Rand) list.AnyList {
	a := newAnyList(byte(1 + r.Intn(5)))
	for i := r.Intn(3); i > 0; i-- {
		switch a.GetType() {
		case list.ANYLIST_INT:
			a.AddInt(r.Intn(1000) - 500)
		case list.ANYLIST_LONG:
			a.AddLong(r.Int63() >> uint(r.Intn(63)))
		case list.ANYLIST_FLOAT:
			a.AddFloat(float32(r.Intn(100)) / 4)
		case list.ANYLIST_DOUBLE:
			a.AddDouble(float64(r.Intn(100)) / 8)
		default:
			a.AddString(smallText(r))
		}
	}
	return a
}

func smallIntMap(r *rand.Rand) *value.IntMapValue {
	m := value.NewIntMapValue()
	for i := r.Intn(3); i > 0; i-- {
		m.Put(int32(r.Intn(50)), value.NewTextValue(smallText(r)))
	}
	return m
}

// the key of an existing entry (now and then) or a new one
func someKey(r *rand.Rand, keys []string) string {
	if len(keys) > 0 && r.Intn(2) == 0 {
		return keys[r.Intn(len(keys))]
	}
	return fmt.Sprintf("n%d", r.Intn(1000))
}

func tableKeys(p interface{}, field string) []string {
	var out []string
	v := expose(reflect.ValueOf(p).Elem().FieldByName(field))
	t := v.Type()
	sf, _ := reflect.TypeOf(p).Elem().FieldByName(field)
	if h := containerOf(t, reflect.TypeOf(p).Elem().Name(), sf.Name); h != nil && !v.IsNil() {
		for _, e := range h.snapshot(v) {
			if k, ok := e.key.(string); ok {
				out = append(out, k)
			}
		}
	}
	return out
}

// public mutators of the types that keep (part of) their content private, and of the packs whose
// writer keeps state of its own in the object
func callsOf(p interface{}) []call {
	switch p.(type) {
	case *pack.ParamPack:
		return []call{
			{"ParamPack.PutString", func(p interface{}, r *rand.Rand) {
				p.(*pack.ParamPack).PutString(someKey(r, tableKeys(p, "table")), smallText(r))
			}},
			{"ParamPack.PutLong", func(p interface{}, r *rand.Rand) {
				p.(*pack.ParamPack).PutLong(someKey(r, tableKeys(p, "table")), r.Int63()>>uint(r.Intn(63)))
			}},
			{"ParamPack.Put", func(p interface{}, r *rand.Rand) {
				p.(*pack.ParamPack).Put(someKey(r, tableKeys(p, "table")), value.NewBoolValue(r.Intn(2) == 0))
			}},
		}
	case *pack.TextPack:
		return []call{
			{"TextPack.AddText", func(p interface{}, r *rand.Rand) {
				p.(*pack.TextPack).AddText(pack.TextRec{Div: byte(r.Intn(70)), Hash: int32(r.Uint32()), Text: smallText(r)})
			}},
			{"TextPack.AddTexts", func(p interface{}, r *rand.Rand) {
				recs := make([]pack.TextRec, r.Intn(3))
				for i := range recs {
					recs[i] = pack.TextRec{Div: byte(r.Intn(70)), Hash: int32(r.Uint32()), Text: smallText(r)}
				}
				p.(*pack.TextPack).AddTexts(recs)
			}},
		}
	case *pack.StatGeneralPack:
		if kf[kfStatGeneralPut] {
			return nil
		}
		return []call{
			{"StatGeneralPack.Put", func(p interface{}, r *rand.Rand) {
				p.(*pack.StatGeneralPack).Put(someKey(r, tableKeys(p, "data")), smallAnyList(r))
			}},
		}
	case *pack.TagCountPack:
		return []call{
			{"TagCountPack.PutTag", func(p interface{}, r *rand.Rand) {
				p.(*pack.TagCountPack).PutTag(someKey(r, nil), smallText(r))
			}},
			{"TagCountPack.Put", func(p interface{}, r *rand.Rand) {
				p.(*pack.TagCountPack).Put(someKey(r, nil), value.NewDecimalValue(r.Int63()>>uint(r.Intn(63))))
			}},
		}
	case *pack.TagLogPack:
		return []call{
			{"TagLogPack.PutTag", func(p interface{}, r *rand.Rand) {
				p.(*pack.TagLogPack).PutTag(someKey(r, nil), smallText(r))
			}},
			{"TagLogPack.PutTagLong", func(p interface{}, r *rand.Rand) {
				p.(*pack.TagLogPack).PutTagLong(someKey(r, nil), r.Int63()>>uint(r.Intn(63)))
			}},
			{"TagLogPack.Put", func(p interface{}, r *rand.Rand) {
				p.(*pack.TagLogPack).Put(someKey(r, nil), value.NewTextValue(smallText(r)))
			}},
		}
	case *pack.SMExtension:
		return []call{
			{"SMExtension.SetValues", func(p interface{}, r *rand.Rand) { p.(*pack.SMExtension).SetValues(smallIntMap(r)) }},
			{"SMExtension.SetMetaValues", func(p interface{}, r *rand.Rand) { p.(*pack.SMExtension).SetMetaValues(smallIntMap(r)) }},
			{"SMExtension.SetHeader", func(p interface{}, r *rand.Rand) { p.(*pack.SMExtension).SetHeader(smallIntMap(r)) }},
			{"SMExtension.SetIsProjectwide", func(p interface{}, r *rand.Rand) { p.(*pack.SMExtension).SetIsProjectwide(r.Intn(2) == 0) }},
		}
	case *pack.HitMapPack1:
		return []call{
			{"HitMapPack1.Add", func(p interface{}, r *rand.Rand) {
				p.(*pack.HitMapPack1).Add(int(r.Int31n(100000)), r.Intn(2) == 0)
			}},
		}
	}
	return nil
}

// open known findings (ids in the kf argument): the generators steer around exactly their signature
const (
	kfEventUuid      = "C03-eventpack-reserved-attrs"
	kfStatGeneralPut = "C03-statgeneral-stale-table"
)

// may this leaf be changed by op in a life history?
func mutable(pt *ptype, l leaf, op string) bool {
	if !l.pub {
		return false
	}
	if op == "zero" && l.zero == nil || op == "flip" && l.mut == nil {
		return false
	}
	if o, ok := l.get().(obj); ok {
		if o["k"] == "p" {
			return false // taking a whole optional record away / putting an empty one in: the writers need some of them (see the assumptions)
		}
		if n, isN := o["v"].(int); isN && o["k"] == "n" && n == 0 && l.bare && op == "flip" {
			return false // would add a record whose own required sections are missing
		}
	}
	if kf[kfEventUuid] && pt.name == "EventPack" && (l.path == "Uuid" || l.path == "Attr.#" && op == "flip") {
		// open finding: EventPack.Write leaves its reserved attributes in the pack's own Attr; a Uuid cleared
		// after a write is sent again, a Uuid or an attribute given after a write stands behind the reserved keys
		return false
	}
	if pt.name == "SMBasePack" && l.path == "OS" {
		return false // the operating system selects the record types of the sections: not a field of its own
	}
	if (pt.name == "StatTransactionPack" || pt.name == "StatTransactionPack1") && l.path == "Version" {
		return false // versions 0 / 1 are refused by the reader by design
	}
	return true
}

// diffEvent: the Mut event of a change of the live object (leaves before / after)
func diffEvent(op string, before, after map[string]interface{}) core.Ev {
	set := map[string]interface{}{}
	del := []string{}
	for k, v := range after {
		if old, ok := before[k]; !ok || !jsonEq(old, v) {
			set[k] = v
		}
	}
	for k := range before {
		if _, ok := after[k]; !ok {
			del = append(del, k)
		}
	}
	sort.Strings(del)
	return core.Ev{"ev": "Mut", "op": op, "set": set, "del": del}
}

// lifeHistory: one object of type pt.  mode 0: every assignable scalar put back to its zero value
// between the first and the second write, flipped before the third; mode 1: one leaf (the lf-th
// assignable one) zeroed, then flipped; mode 2: one to three random changes per round (leaf
// operations and public mutators), two rounds.
func lifeHistory(c *core.Ctx, h *hist, pt *ptype, r *rand.Rand, mode, lf int) error {
	return lifeHistoryF(c, h, pt, r, mode, lf, nil)
}

// the one change a witness history of an open finding makes (mode 3)
type forced struct {
	accept func(p interface{}) bool // the populated object the finding needs
	leaf   string                   // a leaf operation ...
	op     string
	call   *call // ... or a public mutator
}

func lifeHistoryF(c *core.Ctx, h *hist, pt *ptype, r *rand.Rand, mode, lf int, f *forced) error {
	it := &instance{pt: pt, seed: r.Int63(), depth: 1, light: true}
	// a light object (every probe of a later write replays the whole life of the object on a copy; long
	// texts and wide tables are the codec generator's subject)
	for try := 0; try < 1000; try++ {
		p0 := it.build()
		if (f == nil || f.accept(p0)) && (len(walkObject(p0)) <= 700 || try >= 50 && f == nil) {
			break
		}
		it.seed = r.Int63()
	}
	var p interface{}
	var first *message
	for attempt := 0; ; attempt++ {
		it.nonil = attempt == 1
		p = it.build()
		w := snapshotOf(p)
		b, msg := encode(pt, p)
		if msg != "" {
			if attempt == 0 {
				continue
			}
			h.emit(core.Ev{"ev": "Panic", "in": "Write", "type": pt.name, "msg": msg})
			return nil
		}
		// the first write: leaves before, what the write changed; no reader follows (carried set left empty)
		first = &message{it: it, p: p, w: w, wd: map[string]interface{}{}, sib: map[string]string{}, carried: []string{}, bytes: b, perm: hasUnorderedTables(p)}
		after := snapshotOf(p)
		d := diffEvent("", w, after)
		first.wd, first.wdel = d["set"].(map[string]interface{}), d["del"].([]string)
		break
	}
	h.emit(first.event("Enc"))
	var steps, changes []step // everything that happened to the object / without the writes
	write := func(q interface{}) {
		if _, msg := encode(pt, q); msg != "" {
			panic("c03 life: replayed write failed: " + msg)
		}
	}
	steps = append(steps, write)
	it.replay = func(q interface{}) {
		for _, s := range steps {
			s(q)
		}
	}
	apply := func(op string, s step) bool {
		before := snapshotOf(p)
		if msg := core.Guard(func() { s(p) }); msg != "" {
			h.emit(core.Ev{"ev": "Panic", "in": op, "type": pt.name, "msg": msg})
			return false
		}
		steps = append(steps, s)
		changes = append(changes, s)
		h.emit(diffEvent(op, before, snapshotOf(p)))
		return true
	}
	scalarKind := func(l leaf) bool {
		o, ok := l.get().(obj)
		if !ok {
			return false
		}
		k, _ := o["k"].(string)
		return k == "i" || k == "f" || k == "b" || k == "s" || k == "y"
	}
	rounds := 2
	if f != nil {
		rounds = 1
	}
	what := ""
	for round := 0; round < rounds; round++ {
		ls := walkObject(p)
		op := []string{"zero", "flip"}[round%2]
		switch mode {
		case 0: // every assignable scalar at once
			var ks []int
			for k, l := range ls {
				if scalarKind(l) && mutable(pt, l, op) {
					ks = append(ks, k)
				}
			}
			if len(ks) == 0 {
				return nil
			}
			paths := make([]string, len(ks))
			for i, k := range ks {
				paths[i] = ls[k].path
			}
			what = op + "-all"
			if !apply(op+"*", func(q interface{}) {
				lq := walkObject(q) // one walk: none of these operations changes the shape of the object
				for i, k := range ks {
					if k >= len(lq) || lq[k].path != paths[i] {
						panic(fmt.Sprintf("c03 life: leaf %d is not %s on the rebuilt copy", k, paths[i]))
					}
					if op == "zero" {
						lq[k].zero()
					} else {
						lq[k].mut()
					}
				}
			}) {
				return nil
			}
		case 1: // one leaf
			var ks []int
			for k, l := range ls {
				if mutable(pt, l, op) {
					ks = append(ks, k)
				}
			}
			if len(ks) == 0 {
				return nil
			}
			k := ks[lf%len(ks)]
			if round == 1 {
				// the leaf of round 0, if it is still there
				k = -1
				for i, l := range ls {
					if l.path == what && mutable(pt, l, op) {
						k = i
					}
				}
				if k < 0 {
					rounds = 1
					continue
				}
			}
			what = ls[k].path
			if !apply(op+" "+ls[k].path, leafStep(k, ls[k].path, op)) {
				return nil
			}
		case 3: // the change of a witness history
			what = "forced"
			if f.call != nil {
				seed := r.Int63()
				if !apply(f.call.name, func(q interface{}) { f.call.do(q, rand.New(rand.NewSource(seed))) }) {
					return nil
				}
				break
			}
			k := -1
			for i, l := range ls {
				if l.path == f.leaf {
					k = i
				}
			}
			if k < 0 {
				return fmt.Errorf("c03 life: no leaf %s", f.leaf)
			}
			if !apply(f.op+" "+f.leaf, leafStep(k, f.leaf, f.op)) {
				return nil
			}
		default:
			what = "random"
			calls := callsOf(p)
			for n := 1 + r.Intn(3); n > 0; n-- {
				ls = walkObject(p)
				if len(calls) > 0 && r.Intn(3) == 0 {
					cl := calls[r.Intn(len(calls))]
					seed := r.Int63()
					if !apply(cl.name, func(q interface{}) { cl.do(q, rand.New(rand.NewSource(seed))) }) {
						return nil
					}
					continue
				}
				op := []string{"zero", "flip", "flip"}[r.Intn(3)]
				var ks []int
				for k, l := range ls {
					if mutable(pt, l, op) {
						ks = append(ks, k)
					}
				}
				if len(ks) == 0 {
					continue
				}
				k := ks[r.Intn(len(ks))]
				if !apply(op+" "+ls[k].path, leafStep(k, ls[k].path, op)) {
					return nil
				}
			}
		}
		// written again: the object as it is now; the probes work on copies that lived the same life
		m, msg, err := observe(it, p, nil)
		if err != nil {
			return err
		}
		if msg != "" {
			h.emit(core.Ev{"ev": "Panic", "in": "Write(again)", "type": pt.name, "msg": msg})
			return nil
		}
		// What the format carries does not depend on whether the object was written before: a TWIN that was
		// populated alike and changed alike but never written tells which leaves a fresh object of this content
		// carries; where the twin holds the same leaf value they are owed by this write too (a writer that
		// sends something it kept from an earlier write ignores the leaf, so the probes above cannot see it)
		twin := &instance{pt: pt, seed: it.seed, depth: it.depth, nonil: it.nonil, light: true, replay: func(q interface{}) {
			for _, s := range changes {
				s(q)
			}
		}}
		var m2 *message
		if msg := core.Guard(func() { m2, _, _ = observe(twin, twin.build(), nil) }); msg != "" || m2 == nil {
			stats.twinless++
		} else {
			have := map[string]bool{}
			for _, p := range m.carried {
				have[p] = true
			}
			for _, p := range m2.carried {
				if lv, ok := m.w[p]; ok && !have[p] && jsonEq(lv, m2.w[p]) {
					m.carried = append(m.carried, p)
				}
			}
		}
		ev := m.event("Enc")
		ev["again"] = true
		h.emit(ev)
		if _, ok := decEvents(h.emit, pt, m.bytes, m.bytes); !ok {
			return nil
		}
		steps = append(steps, write)
		if m.twice {
			steps = append(steps, write)
		}
		c.Count(fmt.Sprintf("life:%s:%d:%s:%d:%d", pt.name, mode, what, round, len(m.bytes)), len(m.carried) > 0)
	}
	return nil
}

// the witness histories of the open findings of this family
func runKfLife(c *core.Ctx) (bool, error) {
	var pt *ptype
	var f *forced
	switch c.OnlyGen {
	case "kf_event_attrs":
		// an event pack with a uuid is written, the uuid is cleared, the pack is written again
		pt = typeByName("EventPack")
		f = &forced{leaf: "Uuid", op: "zero", accept: func(p interface{}) bool { return p.(*pack.EventPack).Uuid != "" }}
	case "kf_statgeneral_put":
		// a general statistics pack with a table is written, given another column, written again
		pt = typeByName("StatGeneralPack")
		f = &forced{accept: func(p interface{}) bool { return len(tableKeys(p, "data")) > 0 },
			call: &call{"StatGeneralPack.Put", func(p interface{}, r *rand.Rand) {
				p.(*pack.StatGeneralPack).Put("added", smallAnyList(rand.New(rand.NewSource(3))))
			}}}
	default:
		return false, nil
	}
	t := c.Trace("c03_"+c.OnlyGen, "Trace_PackCodec")
	h := &hist{t: t}
	t.Reset(c.OnlyGen, 0, core.Ev{"type": pt.name})
	err := lifeHistoryF(c, h, pt, c.Rng(c.OnlyGen, 0), 3, 0, f)
	h.end()
	return true, err
}

func runLife(c *core.Ctx) error {
	if !c.WantGen("life") {
		return nil
	}
	per := c.Pick(6, 60)
	chunk := c.Pick(400, 800) // histories per trace file (the files are validated in parallel)
	var t *core.Trace
	inFile := 0
	for ti, pt := range ptypes {
		for i := 0; i < per; i++ {
			cas := ti*1000 + i
			if !c.Want("life", cas) {
				continue
			}
			if t == nil || inFile >= chunk {
				t = c.Trace(fmt.Sprintf("c03_life_%03d", ti), "Trace_PackCodec")
				inFile = 0
			}
			inFile++
			r := c.Rng("life", cas)
			mode, lf := 2, 0
			switch {
			case i == 0:
				mode = 0
			case i%2 == 1:
				// one leaf at a time: quick tier two or three per type (others with every seed), thorough thirty
				mode, lf = 1, int(c.Seed)*7+i/2
				if c.Thorough() {
					lf = i / 2
				}
			}
			h := &hist{t: t}
			t.Reset("life", cas, core.Ev{"type": pt.name, "mode": mode})
			t0 := time.Now()
			if err := lifeHistory(c, h, pt, r, mode, lf); err != nil {
				return err
			}
			h.end()
			if d := time.Since(t0); d > 2*time.Second && os.Getenv("C03_TIMING") != "" {
				fmt.Fprintf(os.Stderr, "life/%d %s mode %d: %v\n", cas, pt.name, mode, d)
			}
		}
	}
	return nil
}

// --------------------------------------------------------------------- hold

// holdPacks: k pack objects are all written before the first of them is read back; the reader is
// given the very slice the writer returned, as it is by then.
func holdPacks(c *core.Ctx, h *hist, r *rand.Rand, sameType int) error {
	k := 2 + r.Intn(2)
	same := sameType >= 0
	pt0 := ptypes[r.Intn(len(ptypes))]
	if same {
		pt0 = ptypes[sameType%len(ptypes)]
	}
	type live struct {
		pt  *ptype
		m   *message
		raw []byte
		q   interface{}
	}
	objs := make([]*live, k)
	cur := 0
	use := func(o int) {
		if o != cur {
			h.emit(core.Ev{"ev": "Use", "obj": o})
			cur = o
		}
	}
	for o := 0; o < k; o++ {
		pt := pt0
		if !same {
			pt = ptypes[r.Intn(len(ptypes))]
		}
		lv := &live{pt: pt}
		it := &instance{pt: pt, seed: r.Int63(), depth: 1}
		var m *message
		for attempt := 0; ; attempt++ {
			it.nonil = attempt == 1
			p := it.build()
			lv.raw = nil
			var msg string
			var err error
			// the writer of the live object keeps the slice it was handed; the probes write copies
			m, msg, err = observe(it, p, func(x interface{}) ([]byte, string) {
				b, msg := encodeRaw(pt, x)
				if x == p && lv.raw == nil && msg == "" {
					lv.raw = b
				}
				return append([]byte(nil), b...), msg
			})
			if err != nil {
				return err
			}
			if msg == "" {
				break
			}
			if attempt == 1 {
				use(o)
				h.emit(core.Ev{"ev": "Panic", "in": "Write", "type": pt.name, "msg": msg})
				return nil
			}
		}
		lv.m = m
		objs[o] = lv
		use(o)
		h.emit(m.event("Enc"))
	}
	for _, o := range r.Perm(k) {
		lv := objs[o]
		use(o)
		h.emit(core.Ev{"ev": "Peek", "what": []string{"bytes"}, "bytes": core.Cp(lv.raw)})
		if _, ok := decEvents(h.emit, lv.pt, lv.raw, lv.m.bytes); !ok {
			return nil
		}
		// the decoded pack that is kept: one nobody writes (decEvents writes the pack it decoded when the type
		// has lazily decoded sections, and a writer may complete the pack it writes)
		q, _, msg := decode(lv.pt, lv.raw)
		if msg != "" {
			h.emit(core.Ev{"ev": "Panic", "in": "Read(kept)", "type": lv.pt.name, "msg": msg})
			return nil
		}
		lv.q = q
	}
	for _, o := range r.Perm(k) {
		lv := objs[o]
		use(o)
		var rs map[string]interface{}
		if msg := core.Guard(func() { prep(lv.q); rs = snapshotOf(lv.q) }); msg != "" {
			h.emit(core.Ev{"ev": "Panic", "in": "project(decoded, again)", "type": lv.pt.name, "msg": msg})
			return nil
		}
		h.emit(core.Ev{"ev": "Peek", "what": []string{"bytes", "r"}, "bytes": core.Cp(lv.raw), "r": rs})
	}
	c.Count(fmt.Sprintf("hold:packs:%d:%v:%s:%d", k, same, pt0.name, len(objs[0].raw)), true)
	return nil
}

// holdBoxes: k containers are all built before the first of them is sent and unpacked; the records
// blob a container holds is looked at again after the later ones were built.
// sameKind >= 0: every container is of that kind (0..2: zip, log-sink zip, composite; 3..: the record-list packs)
func holdBoxes(c *core.Ctx, h *hist, r *rand.Rand, cas int, sameKind int) error {
	k := 2 + r.Intn(2)
	kinds := []string{"zip", "lszip", "zip", "lszip", "composite", "records"}
	boxes := make([]*built, k)
	cur, base := 0, 0
	use := func(o int) {
		if o != cur {
			h.emit(core.Ev{"ev": "Use", "obj": o})
			cur = o
		}
	}
	count := func(ev core.Ev) {
		if ev["ev"] == "Item" {
			base++
		}
		h.emit(ev)
	}
	for o := 0; o < k; o++ {
		kind := kinds[r.Intn(len(kinds))]
		rk := recKinds[r.Intn(len(recKinds))]
		if sameKind >= 0 {
			sk := sameKind % (3 + len(recKinds))
			if sk < 3 {
				kind = []string{"zip", "lszip", "composite"}[sk]
			} else {
				kind, rk = "records", recKinds[sk-3]
			}
		}
		use(o)
		opts := buildOpts{nFixed: -1, base: base, compress: r.Intn(4) > 0, nonEmpty: r.Intn(8) > 0}
		if sameKind >= 0 {
			opts.how = rk.setters[(sameKind/(3+len(recKinds)))%len(rk.setters)] // the same setter for all of them
		}
		var b *built
		var err error
		if kind == "records" {
			b, err = recsBuild(count, rk, cas+1, r, opts)
		} else {
			b, err = packBuild(count, kind, r, opts)
		}
		if err != nil || b == nil {
			return err
		}
		boxes[o] = b
	}
	peekBox := func(o int) {
		b := boxes[o]
		if b.kind == "zip" || b.kind == "lszip" {
			use(o)
			st, gz, same := zipView(b.box, b.concat)
			h.emit(core.Ev{"ev": "Peek", "what": []string{"box"}, "status": st, "gz": gz, "same": same})
		}
	}
	for o := 0; o < k; o++ {
		peekBox(o)
	}
	for _, o := range r.Perm(k) {
		use(o)
		if !boxFinish(h.emit, boxes[o]) {
			return nil
		}
	}
	for _, o := range r.Perm(k) {
		b := boxes[o]
		peekBox(o)
		if len(b.got) < 64 {
			use(o)
			var d []interface{}
			if msg := core.Guard(func() { d = outOf(b.got) }); msg != "" {
				h.emit(core.Ev{"ev": "Panic", "in": "project(unpacked, again)", "kind": b.kind, "msg": msg})
				return nil
			}
			h.emit(core.Ev{"ev": "Peek", "what": []string{"d"}, "d": d})
		}
	}
	c.Count(fmt.Sprintf("hold:boxes:%d:%s:%s:%d", k, boxes[0].kind, boxes[1].kind, base), base > 0)
	return nil
}

func runHold(c *core.Ctx) error {
	if !c.WantGen("hold") {
		return nil
	}
	t := c.Trace("c03_hold", "Trace_PackCodec")
	for cas := 0; cas < c.Pick(40, 500); cas++ {
		if !c.Want("hold", cas) {
			continue
		}
		r := c.Rng("hold", cas)
		h := &hist{t: t}
		var err error
		// every other history of a form holds objects of ONE kind / type (what is shared between calls is most likely
		// shared between calls on the same kind of object): the container kinds in turn, the pack types in turn
		// (ten per quick run, others with every seed)
		j, same := cas/2, -1
		if j%2 == 0 {
			same = j / 2
		}
		if cas%2 == 0 {
			t.Reset("hold", cas, core.Ev{"form": "boxes", "same": same})
			err = holdBoxes(c, h, r, cas, same)
		} else {
			if same >= 0 {
				same += int(c.Seed%1000) * 10
			}
			t.Reset("hold", cas, core.Ev{"form": "packs", "same": same})
			err = holdPacks(c, h, r, same)
		}
		if err != nil {
			return err
		}
		h.end()
	}
	return nil
}
