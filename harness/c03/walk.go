package c03

// The leaf walker: one deterministic traversal of a live golib object that
// serves (a) the projection recorded in the trace (path -> leaf value, standard
// library representation only) and (b) the sensitivity probe that derives the
// carried set from the real writer (every leaf can be changed alone, in place).
//
// Leaf kinds (JSON "k"):
//   i  integer            v = 8 bytes big-endian two's complement
//   f  float              v = IEEE bit pattern (4 or 8 bytes)
//   b  bool               v = true/false
//   s  text               v = bytes            z = true when the Go value is a nil *string
//   y  blob               v = bytes            z = true when nil
//   l  list of scalars    v = tuple of element values (i: 8 bytes, f: bits, s: bytes)   z = nil
//   n  element count      v = number of elements of a list of records / a table         z = nil
//   p  presence           v = true when an optional record is present
//   V  tagged value       t = type code, v = canonical text of its structure (bytes)
//   A  typed column       t = column type, v = tuple of element values
//
// Unexported fields are reached with reflect.NewAt/unsafe (standard library):
// the packs keep part of their state private (text records, tables, hashes).

import (
	"encoding/json"
	"fmt"
	"math"
	"reflect"
	"sort"
	"strings"
	"sync"
	"unsafe"

	"github.com/whatap/golib/lang"
	"github.com/whatap/golib/lang/pack"
	"github.com/whatap/golib/lang/value"
	"github.com/whatap/golib/util/hmap"
	"github.com/whatap/golib/util/list"

	"verifharness/core"
	"verifharness/valgen"
)

type obj = map[string]interface{}

type leaf struct {
	path string
	get  func() interface{}
	mut  func() // changes only this leaf; nil when no probe exists
	inv  bool   // mut is an involution on a field of the object itself (applying it twice restores the leaf)
	zero func() // puts the leaf back to the zero value of its field (0, "", no elements); nil when there is none
	bare bool   // an element count whose mut, on an empty list, adds a record with nothing in it (its own sections left out)
	pub  bool   // reachable through exported fields and the public enumerations of golib's tables only: a caller can assign it
}

type walker struct {
	leaves []leaf
	perm   int // unordered tables with two or more entries (their wire order is hash order, not state)
	priv   int // > 0 while below an unexported field
}

// setZero gives the leaf added last its zero operation.
func (w *walker) setZero(z func()) { w.leaves[len(w.leaves)-1].zero = z }

// Entries of a table that belong to the WRITER, not to the content of the pack:
// EventPack.Write carries uuid / escalation / status / otype as attributes under
// four reserved keys and leaves them in the pack's own attribute map (Read takes
// them out again).  They are not projected (callers must not use these keys);
// changing the table keeps them where they are.
var hiddenKeys = map[string]map[string]bool{
	"EventPack.Attr": {pack.UUID_KEY: true, pack.ESCALATION_KEY: true, pack.STATUS_KEY: true, pack.OTYPE_KEY: true},
}

// o names the "Struct.field" that holds the leaf (typing information for the spec's rules)
func (w *walker) add(path, o string, get func() interface{}, mut func()) {
	g := func() interface{} {
		x := get()
		if m, ok := x.(obj); ok {
			m["o"] = o
		}
		return x
	}
	w.leaves = append(w.leaves, leaf{path: path, get: g, mut: mut, pub: w.priv == 0})
}

// expose makes an unexported (but addressable) field readable and settable.
func expose(v reflect.Value) reflect.Value {
	if v.CanSet() || !v.CanAddr() {
		return v
	}
	return reflect.NewAt(v.Type(), unsafe.Pointer(v.UnsafeAddr())).Elem()
}

var (
	tMutex       = reflect.TypeOf(sync.Mutex{})
	tMapValue    = reflect.TypeOf((*value.MapValue)(nil))
	tIntMapValue = reflect.TypeOf((*value.IntMapValue)(nil))
	tStrKeyMap   = reflect.TypeOf((*hmap.StringKeyLinkedMap)(nil))
	tStrIntMap   = reflect.TypeOf((*hmap.StringIntLinkedMap)(nil))
	tIntIntLMap  = reflect.TypeOf((*hmap.IntIntLinkedMap)(nil))
	tIntIntMap   = reflect.TypeOf((*hmap.IntIntMap)(nil))
	tIntKeyLMap  = reflect.TypeOf((*hmap.IntKeyLinkedMap)(nil))
	tLinkedMap   = reflect.TypeOf((*hmap.LinkedMap)(nil))
	tIntKeyMap   = reflect.TypeOf((*hmap.IntKeyMap)(nil))
	tValueIface  = reflect.TypeOf((*value.Value)(nil)).Elem()
	tPackIface   = reflect.TypeOf((*pack.Pack)(nil)).Elem()
	tStringPtr   = reflect.TypeOf((*string)(nil))
)

// fields that are configuration or a cache of other fields, not state of their own
var skipField = map[string]bool{
	"StatGeneralPack.dataBytes":     true, // cache of the table, rebuilt by Write / dropped by GetDataTable
	"StatGeneralPack.dataBytesSize": true,
	"StatGeneralPack.packType":      true, // which pack this object is (variant), like a type code
	"StatGeneralPack.lock":          true,
}

func isScalarKind(k reflect.Kind) bool {
	switch k {
	case reflect.Bool, reflect.Int, reflect.Int8, reflect.Int16, reflect.Int32, reflect.Int64,
		reflect.Uint, reflect.Uint8, reflect.Uint16, reflect.Uint32, reflect.Uint64,
		reflect.Float32, reflect.Float64, reflect.String:
		return true
	}
	return false
}

func scalarElem(v reflect.Value) interface{} {
	switch v.Kind() {
	case reflect.Bool:
		return v.Bool()
	case reflect.Int, reflect.Int8, reflect.Int16, reflect.Int32, reflect.Int64:
		return core.W8(v.Int())
	case reflect.Uint, reflect.Uint8, reflect.Uint16, reflect.Uint32, reflect.Uint64:
		return core.U8(v.Uint())
	case reflect.Float32:
		return core.W4(getF32(v))
	case reflect.Float64:
		return core.U8(getF64(v))
	case reflect.String:
		return core.Str(v.String())
	}
	panic("scalarElem " + v.Kind().String())
}

func scalarLeaf(v reflect.Value) interface{} {
	switch v.Kind() {
	case reflect.Bool:
		return obj{"k": "b", "v": v.Bool()}
	case reflect.Float32, reflect.Float64:
		return obj{"k": "f", "v": scalarElem(v)}
	case reflect.String:
		return obj{"k": "s", "v": scalarElem(v), "z": false}
	}
	return obj{"k": "i", "v": scalarElem(v)}
}

func mutScalar(v reflect.Value) {
	switch v.Kind() {
	case reflect.Bool:
		v.SetBool(!v.Bool())
	case reflect.Int, reflect.Int8, reflect.Int16, reflect.Int32, reflect.Int64:
		v.SetInt(v.Int() ^ 1)
	case reflect.Uint, reflect.Uint8, reflect.Uint16, reflect.Uint32, reflect.Uint64:
		v.SetUint(v.Uint() ^ 1)
	case reflect.Float32:
		// flip a mantissa bit through the bit pattern (never turns a number into another class by accident)
		setF32(v, getF32(v)^2)
	case reflect.Float64:
		setF64(v, getF64(v)^2)
	case reflect.String:
		v.SetString(v.String() + "~")
	}
}

// walk visits v (addressable) under path; owner is "StructName" of the struct
// that holds it and fname the field name (container element types and skips
// are configured per "StructName.field").
func (w *walker) walk(path string, v reflect.Value, owner, fname string) {
	v = expose(v)
	t := v.Type()
	o := owner + "." + fname
	switch {
	case isScalarKind(t.Kind()):
		w.add(path, o, func() interface{} { return scalarLeaf(v) }, func() { mutScalar(v) })
		w.leaves[len(w.leaves)-1].inv = t.Kind() != reflect.String // xor 1 / not / mantissa bit; a text grows
		w.setZero(func() { v.Set(reflect.Zero(t)) })
		return
	case t.Kind() == reflect.Slice && t.Elem().Kind() == reflect.Uint8:
		w.add(path, o, func() interface{} { return obj{"k": "y", "v": core.Cp(v.Bytes()), "z": v.IsNil()} },
			func() { v.SetBytes(append(append([]byte{}, v.Bytes()...), 0x7e)) })
		w.setZero(func() { v.Set(reflect.Zero(t)) })
		return
	case t.Kind() == reflect.Slice && isScalarKind(t.Elem().Kind()):
		w.add(path, o, func() interface{} {
			out := make([]interface{}, v.Len())
			for i := range out {
				out[i] = scalarElem(v.Index(i))
			}
			return obj{"k": "l", "v": out, "z": v.IsNil()}
		}, func() {
			n := v.Len()
			if n == 0 {
				s := reflect.MakeSlice(t, 1, 1)
				mutScalar(s.Index(0))
				v.Set(s)
				return
			}
			s := reflect.MakeSlice(t, n, n)
			reflect.Copy(s, v)
			mutScalar(s.Index(n - 1))
			v.Set(s)
		})
		w.setZero(func() {
			if fixedLen[o] {
				v.Set(reflect.MakeSlice(t, v.Len(), v.Len())) // the format fixes the length: every cell 0
			} else {
				v.Set(reflect.Zero(t))
			}
		})
		return
	case t == tStringPtr:
		w.add(path, o, func() interface{} {
			if v.IsNil() {
				return obj{"k": "s", "v": core.Bytes{}, "z": true}
			}
			return obj{"k": "s", "v": core.Str(v.Elem().String()), "z": false}
		}, func() {
			s := "~"
			if !v.IsNil() {
				s = v.Elem().String() + "~"
			}
			v.Set(reflect.ValueOf(&s))
		})
		w.setZero(func() { s := ""; v.Set(reflect.ValueOf(&s)) })
		return
	case t.Kind() == reflect.Slice:
		w.walkRecordSlice(path, v, owner, fname)
		return
	case t.Kind() == reflect.Struct:
		if t == tMutex {
			return
		}
		w.walkStruct(path, v)
		return
	case t.Kind() == reflect.Interface:
		if t == tValueIface {
			w.valueLeaf(path, o, func() value.Value {
				if v.IsNil() {
					return nil
				}
				return v.Interface().(value.Value)
			}, func(nv value.Value) { v.Set(reflect.ValueOf(nv)) })
			return
		}
		w.add(path+".?", o, func() interface{} { return obj{"k": "p", "v": !v.IsNil()} }, nil)
		if !v.IsNil() && v.Elem().Kind() == reflect.Ptr && v.Elem().Elem().Kind() == reflect.Struct {
			w.walkStruct(path, v.Elem().Elem())
		}
		return
	case t.Kind() == reflect.Ptr:
		if h := containerOf(t, owner, fname); h != nil {
			w.walkContainer(path, o, v, h)
			return
		}
		if t.Elem().Kind() == reflect.Struct {
			w.add(path+".?", o, func() interface{} { return obj{"k": "p", "v": !v.IsNil()} }, func() {
				if v.IsNil() {
					v.Set(reflect.New(t.Elem()))
				} else {
					v.Set(reflect.Zero(t))
				}
			})
			if !v.IsNil() {
				w.walkStruct(path, v.Elem())
			}
			return
		}
	}
	// anything else is outside the model: recorded as an opaque marker so that it is visible
	w.add(path, o, func() interface{} { return obj{"k": "o", "v": core.Str(t.String())} }, nil)
}

func join(path, name string) string {
	if path == "" {
		return name
	}
	return path + "." + name
}

func (w *walker) walkStruct(path string, v reflect.Value) {
	t := v.Type()
	for i := 0; i < t.NumField(); i++ {
		sf := t.Field(i)
		if skipField[t.Name()+"."+sf.Name] {
			continue
		}
		if sf.Anonymous && sf.Type.Kind() == reflect.Struct {
			w.walkStruct(path, v.Field(i)) // the common header and embedded meters: flattened
			continue
		}
		if sf.PkgPath != "" {
			w.priv++
		}
		w.walk(join(path, sf.Name), v.Field(i), t.Name(), sf.Name)
		if sf.PkgPath != "" {
			w.priv--
		}
	}
}

// a list of records ([]T, []*T or []interface): an element count plus the elements
func (w *walker) walkRecordSlice(path string, v reflect.Value, owner, fname string) {
	t := v.Type()
	o := owner + "." + fname
	w.add(path+".#", o, func() interface{} { return obj{"k": "n", "v": v.Len(), "z": v.IsNil()} }, func() {
		n := v.Len()
		if n > 0 {
			s := reflect.MakeSlice(t, n-1, n-1)
			reflect.Copy(s, v)
			v.Set(s)
			return
		}
		if t.Elem() == tPackIface {
			s := reflect.MakeSlice(t, 1, 1)
			s.Index(0).Set(reflect.ValueOf(pack.NewTextPack()))
			v.Set(s)
			return
		}
		switch t.Elem().Kind() {
		case reflect.Struct:
			v.Set(reflect.MakeSlice(t, 1, 1))
		case reflect.Ptr:
			s := reflect.MakeSlice(t, 1, 1)
			s.Index(0).Set(reflect.New(t.Elem().Elem()))
			v.Set(s)
		}
	})
	w.setZero(func() { v.Set(reflect.MakeSlice(t, 0, 0)) })
	w.leaves[len(w.leaves)-1].bare = true
	for i := 0; i < v.Len(); i++ {
		e := v.Index(i)
		p := fmt.Sprintf("%s[%d]", path, i)
		switch {
		case t.Elem() == tPackIface:
			w.walkInnerPack(p, e)
		case e.Kind() == reflect.Ptr && e.Type().Elem().Kind() == reflect.Struct:
			if !e.IsNil() {
				w.walkStruct(p, e.Elem())
			}
		case e.Kind() == reflect.Interface:
			if !e.IsNil() && e.Elem().Kind() == reflect.Ptr {
				w.walkStruct(p, e.Elem().Elem())
			}
		default:
			w.walk(p, e, owner, fname)
		}
	}
}

// an inner pack of a composite: its concrete type is part of what is carried
func (w *walker) walkInnerPack(path string, e reflect.Value) {
	o := "CompositePack.pack"
	w.add(path+".type", o, func() interface{} {
		if e.IsNil() {
			return obj{"k": "s", "v": core.Str("nil"), "z": false}
		}
		return obj{"k": "s", "v": core.Str(e.Elem().Type().Elem().Name()), "z": false}
	}, func() {
		if _, ok := e.Interface().(*pack.TextPack); ok {
			e.Set(reflect.ValueOf(pack.NewRealtimeUserPack()))
		} else {
			e.Set(reflect.ValueOf(pack.NewTextPack()))
		}
	})
	if !e.IsNil() && e.Elem().Kind() == reflect.Ptr {
		w.walkStruct(path, e.Elem().Elem())
	}
}

func canon(x interface{}) core.Bytes {
	b, err := json.Marshal(x)
	if err != nil {
		panic(err)
	}
	return core.Bytes(b)
}

// a tagged value is an atom of this property (its structure is C02's subject)
func (w *walker) valueLeaf(path, o string, get func() value.Value, set func(value.Value)) {
	w.add(path, o, func() interface{} { return projValue(get()) }, func() {
		if tv, ok := get().(*value.TextValue); ok {
			set(value.NewTextValue(tv.Val + "~"))
		} else {
			set(value.NewTextValue("~"))
		}
	})
}

func projValue(v value.Value) interface{} {
	if v == nil {
		return obj{"k": "V", "t": -1, "v": core.Bytes{}}
	}
	return obj{"k": "V", "t": int(v.GetValueType()), "v": canon(valgen.ProjReal(v))}
}

func projAnyList(a list.AnyList) interface{} {
	n := a.Size()
	out := make([]interface{}, n)
	for i := 0; i < n; i++ {
		switch a.GetType() {
		case list.ANYLIST_INT:
			out[i] = core.W8(int64(a.GetInt(i)))
		case list.ANYLIST_LONG:
			out[i] = core.W8(a.GetLong(i))
		case list.ANYLIST_FLOAT:
			out[i] = core.F32(a.GetFloat(i))
		case list.ANYLIST_DOUBLE:
			out[i] = core.F64(a.GetDouble(i))
		default:
			out[i] = core.Str(a.GetString(i))
		}
	}
	return obj{"k": "A", "t": int(a.GetType()), "v": out}
}

func mutAnyList(a list.AnyList) list.AnyList {
	b := cloneAnyList(a)
	switch b.GetType() {
	case list.ANYLIST_INT:
		b.AddInt(1)
	case list.ANYLIST_LONG:
		b.AddLong(1)
	case list.ANYLIST_FLOAT:
		b.AddFloat(1)
	case list.ANYLIST_DOUBLE:
		b.AddDouble(1)
	default:
		b.AddString("~")
	}
	return b
}

func newAnyList(t byte) list.AnyList {
	switch t {
	case list.ANYLIST_INT:
		return list.NewIntListDefault()
	case list.ANYLIST_LONG:
		return list.NewLongListDefault()
	case list.ANYLIST_FLOAT:
		return list.NewFloatListDefault()
	case list.ANYLIST_DOUBLE:
		return list.NewDoubleListDefault()
	}
	return list.NewStringListDefault()
}

func cloneAnyList(a list.AnyList) list.AnyList {
	b := newAnyList(a.GetType())
	for i := 0; i < a.Size(); i++ {
		switch a.GetType() {
		case list.ANYLIST_INT:
			b.AddInt(a.GetInt(i))
		case list.ANYLIST_LONG:
			b.AddLong(a.GetLong(i))
		case list.ANYLIST_FLOAT:
			b.AddFloat(a.GetFloat(i))
		case list.ANYLIST_DOUBLE:
			b.AddDouble(a.GetDouble(i))
		default:
			b.AddString(a.GetString(i))
		}
	}
	return b
}

// ------------------------------------------------------------- containers

// entry of a golib table, read through its public enumeration
type entry struct {
	key interface{} // int32, string, *lang.PKIND, *lang.POID
	val interface{} // int32, string, value.Value, list.AnyList, *pack.TxMeter, ...
}

type container struct {
	ordered  bool
	snapshot func(c reflect.Value) []entry
	rebuild  func(old reflect.Value, es []entry) reflect.Value
	newKey   func(i int) interface{}
	newVal   func() interface{}
}

// element types of the untyped tables, per owning field
var tableElem = map[string]string{
	"ParamPack.table":                 "value",
	"EventPack.Attr":                  "string",
	"StatGeneralPack.data":            "anylist",
	"CounterPack1.TxcallerOidMeter":   "TxMeter",
	"CounterPack1.SqlMeter":           "SqlMeter",
	"CounterPack1.HttpcMeter":         "HttpcMeter",
	"CounterPack1.TxcallerGroupMeter": "PKIND:TxMeter",
	"CounterPack1.TxcallerPOidMeter":  "POID:TxMeter",
	"ServiceRec.SqlMap":               "TimeCount",
	"ServiceRec.HttpcMap":             "TimeCount",
	"TransactionRec.SqlMap":           "TimeCount",
	"TransactionRec.HttpcMap":         "TimeCount",
}

func newElem(kind string) interface{} {
	switch kind {
	case "value":
		return value.NewTextValue("~")
	case "string":
		return "~"
	case "anylist":
		a := list.NewIntListDefault()
		a.AddInt(1)
		return a
	case "TxMeter":
		return pack.NewTxMeter()
	case "SqlMeter":
		return pack.NewSqlMeter()
	case "HttpcMeter":
		return pack.NewHttpcMeter()
	case "TimeCount":
		return pack.NewTimeCountDefault()
	}
	panic("newElem " + kind)
}

func containerOf(t reflect.Type, owner, fname string) *container {
	el := tableElem[owner+"."+fname]
	switch t {
	case tMapValue:
		return &container{ordered: true,
			snapshot: func(c reflect.Value) []entry {
				m := c.Interface().(*value.MapValue)
				var es []entry
				for en := m.Keys(); en.HasMoreElements(); {
					k := en.NextString()
					es = append(es, entry{k, m.Get(k)})
				}
				return es
			},
			rebuild: func(_ reflect.Value, es []entry) reflect.Value {
				m := value.NewMapValue()
				for _, e := range es {
					m.Put(e.key.(string), e.val.(value.Value))
				}
				return reflect.ValueOf(m)
			},
			newKey: func(i int) interface{} { return fmt.Sprintf("~k%d", i) },
			newVal: func() interface{} { return value.NewTextValue("~") }}
	case tIntMapValue:
		return &container{ordered: true,
			snapshot: func(c reflect.Value) []entry {
				m := c.Interface().(*value.IntMapValue)
				var es []entry
				for en := m.Keys(); en.HasMoreElements(); {
					k := en.NextInt()
					es = append(es, entry{k, m.Get(k)})
				}
				return es
			},
			rebuild: func(_ reflect.Value, es []entry) reflect.Value {
				m := value.NewIntMapValue()
				for _, e := range es {
					m.Put(e.key.(int32), e.val.(value.Value))
				}
				return reflect.ValueOf(m)
			},
			newKey: func(i int) interface{} { return int32(0x7e000000 + i) },
			newVal: func() interface{} { return value.NewTextValue("~") }}
	case tStrKeyMap:
		if el == "" {
			return nil
		}
		return &container{ordered: true,
			snapshot: func(c reflect.Value) []entry {
				m := c.Interface().(*hmap.StringKeyLinkedMap)
				var es []entry
				for en := m.Entries(); en.HasMoreElements(); {
					e := en.NextElement().(*hmap.StringKeyLinkedEntry)
					es = append(es, entry{e.GetKey(), e.GetValue()})
				}
				return es
			},
			rebuild: func(_ reflect.Value, es []entry) reflect.Value {
				m := hmap.NewStringKeyLinkedMap()
				for _, e := range es {
					m.Put(e.key.(string), e.val)
				}
				return reflect.ValueOf(m)
			},
			newKey: func(i int) interface{} { return fmt.Sprintf("~k%d", i) },
			newVal: func() interface{} { return newElem(el) }}
	case tStrIntMap:
		return &container{ordered: true,
			snapshot: func(c reflect.Value) []entry {
				m := c.Interface().(*hmap.StringIntLinkedMap)
				var es []entry
				for en := m.Entries(); en.HasMoreElements(); {
					e := en.NextElement().(*hmap.StringIntLinkedEntry)
					es = append(es, entry{e.GetKey(), e.GetValue()})
				}
				return es
			},
			rebuild: func(_ reflect.Value, es []entry) reflect.Value {
				m := hmap.NewStringIntLinkedMap()
				for _, e := range es {
					m.Put(e.key.(string), e.val.(int32))
				}
				return reflect.ValueOf(m)
			},
			newKey: func(i int) interface{} { return fmt.Sprintf("~k%d", i) },
			newVal: func() interface{} { return int32(1) }}
	case tIntIntLMap:
		return &container{ordered: true,
			snapshot: func(c reflect.Value) []entry {
				m := c.Interface().(*hmap.IntIntLinkedMap)
				var es []entry
				for en := m.Entries(); en.HasMoreElements(); {
					e := en.NextElement().(*hmap.IntIntLinkedEntry)
					es = append(es, entry{e.GetKey(), e.GetValue()})
				}
				return es
			},
			rebuild: func(_ reflect.Value, es []entry) reflect.Value {
				m := hmap.NewIntIntLinkedMap()
				for _, e := range es {
					m.Put(e.key.(int32), e.val.(int32))
				}
				return reflect.ValueOf(m)
			},
			newKey: func(i int) interface{} { return int32(0x7e000000 + i) },
			newVal: func() interface{} { return int32(1) }}
	case tIntIntMap:
		return &container{ordered: false,
			snapshot: func(c reflect.Value) []entry {
				m := c.Interface().(*hmap.IntIntMap)
				var es []entry
				for en := m.Entries(); en.HasMoreElements(); {
					e := en.NextElement().(*hmap.IntIntEntry)
					es = append(es, entry{e.GetKey(), e.GetValue()})
				}
				return es
			},
			rebuild: func(_ reflect.Value, es []entry) reflect.Value {
				m := hmap.NewIntIntMapDefault()
				for _, e := range es {
					m.Put(e.key.(int32), e.val.(int32))
				}
				return reflect.ValueOf(m)
			},
			newKey: func(i int) interface{} { return int32(0x7e000000 + i) },
			newVal: func() interface{} { return int32(1) }}
	case tIntKeyLMap:
		if el == "" {
			return nil
		}
		return &container{ordered: true,
			snapshot: func(c reflect.Value) []entry {
				m := c.Interface().(*hmap.IntKeyLinkedMap)
				var es []entry
				for en := m.Entries(); en.HasMoreElements(); {
					e := en.NextElement().(*hmap.IntKeyLinkedEntry)
					es = append(es, entry{e.GetKey(), e.GetValue()})
				}
				return es
			},
			rebuild: func(_ reflect.Value, es []entry) reflect.Value {
				m := hmap.NewIntKeyLinkedMapDefault()
				for _, e := range es {
					m.Put(e.key.(int32), e.val)
				}
				return reflect.ValueOf(m)
			},
			newKey: func(i int) interface{} { return int32(0x7e000000 + i) },
			newVal: func() interface{} { return newElem(el) }}
	case tLinkedMap:
		if el == "" {
			return nil
		}
		kv := strings.SplitN(el, ":", 2)
		kk, vk := kv[0], kv[1]
		return &container{ordered: true,
			snapshot: func(c reflect.Value) []entry {
				m := c.Interface().(*hmap.LinkedMap)
				var es []entry
				for en := m.Entries(); en.HasMoreElements(); {
					e := en.NextElement().(*hmap.LinkedEntry)
					es = append(es, entry{e.GetKey(), e.GetValue()})
				}
				return es
			},
			rebuild: func(_ reflect.Value, es []entry) reflect.Value {
				m := hmap.NewLinkedMapDefault()
				for _, e := range es {
					m.Put(e.key.(hmap.LinkedKey), e.val)
				}
				return reflect.ValueOf(m)
			},
			newKey: func(i int) interface{} {
				if kk == "PKIND" {
					return lang.NewPKIND(int64(0x7e000000+i), 1)
				}
				return lang.NewPOID(int64(0x7e000000+i), 1)
			},
			newVal: func() interface{} { return newElem(vk) }}
	case tIntKeyMap:
		if el == "" {
			return nil
		}
		return &container{ordered: false,
			snapshot: func(c reflect.Value) []entry {
				m := c.Interface().(*hmap.IntKeyMap)
				var es []entry
				for en := m.Entries(); en.HasMoreElements(); {
					e := en.NextElement().(*hmap.IntKeyEntry)
					es = append(es, entry{e.GetKey(), e.GetValue()})
				}
				return es
			},
			rebuild: func(_ reflect.Value, es []entry) reflect.Value {
				m := hmap.NewIntKeyMap(len(es)+1, 1)
				for _, e := range es {
					m.Put(e.key.(int32), e.val)
				}
				return reflect.ValueOf(m)
			},
			newKey: func(i int) interface{} { return int32(0x7e000000 + i) },
			newVal: func() interface{} { return newElem(el) }}
	}
	return nil
}

func keyLess(a, b interface{}) bool {
	switch x := a.(type) {
	case int32:
		return x < b.(int32)
	case string:
		return x < b.(string)
	}
	return false
}

// a table: element count, then per entry the key and the value.  Unordered
// tables (hash order is not state) are listed by ascending key and their
// entries are addressed by key, so that two tables with the same entries
// project identically.
func (w *walker) walkContainer(path, o string, v reflect.Value, h *container) {
	hidden := hiddenKeys[o]
	all := func() []entry {
		if v.IsNil() {
			return nil
		}
		es := h.snapshot(v)
		if !h.ordered {
			sort.SliceStable(es, func(i, j int) bool { return keyLess(es[i].key, es[j].key) })
		}
		return es
	}
	isHidden := func(e entry) bool {
		k, ok := e.key.(string)
		return ok && hidden[k]
	}
	// the visible entries, and where the i-th of them stands among all
	entries := func() []entry {
		es := all()
		if hidden == nil {
			return es
		}
		var out []entry
		for _, e := range es {
			if !isHidden(e) {
				out = append(out, e)
			}
		}
		return out
	}
	at := func(i int) int {
		if hidden == nil {
			return i
		}
		for k, e := range all() {
			if !isHidden(e) {
				if i == 0 {
					return k
				}
				i--
			}
		}
		panic("walkContainer: entry index")
	}
	w.add(path+".#", o, func() interface{} { return obj{"k": "n", "v": len(entries()), "z": v.IsNil()} }, func() {
		es := all()
		if n := len(entries()); n > 0 {
			k := at(n - 1)
			v.Set(h.rebuild(v, append(append([]entry{}, es[:k]...), es[k+1:]...)))
		} else {
			v.Set(h.rebuild(v, append(append([]entry{}, es...), entry{h.newKey(0), h.newVal()})))
		}
	})
	w.setZero(func() {
		var keep []entry
		for _, e := range all() {
			if isHidden(e) {
				keep = append(keep, e)
			}
		}
		v.Set(h.rebuild(v, keep))
	})
	es := entries()
	if !h.ordered && len(es) >= 2 {
		w.perm++
	}
	for i := range es {
		i := i
		p := fmt.Sprintf("%s[%d]", path, i)
		setKey := func(k interface{}) {
			cur := all()
			cur[at(i)].key = k
			v.Set(h.rebuild(v, cur))
		}
		setVal := func(x interface{}) {
			cur := all()
			cur[at(i)].val = x
			v.Set(h.rebuild(v, cur))
		}
		switch k := es[i].key.(type) {
		case int32:
			w.add(p+".k", o, func() interface{} { return obj{"k": "i", "v": core.W8(int64(entries()[i].key.(int32)))} },
				func() { setKey(entries()[i].key.(int32) ^ 1) })
		case string:
			w.add(p+".k", o, func() interface{} { return obj{"k": "s", "v": core.Str(entries()[i].key.(string)), "z": false} },
				func() { setKey(entries()[i].key.(string) + "~") })
		default:
			// a record used as key (project+kind, project+object): its fields, changed in place
			// (the table is only enumerated afterwards, never looked up); a caller may not do that
			w.priv++
			w.walkStruct(p+".k", reflect.ValueOf(k).Elem())
			w.priv--
		}
		switch x := es[i].val.(type) {
		case int32:
			w.add(p+".v", o, func() interface{} { return obj{"k": "i", "v": core.W8(int64(entries()[i].val.(int32)))} },
				func() { setVal(entries()[i].val.(int32) ^ 1) })
			w.setZero(func() { setVal(int32(0)) })
		case string:
			w.add(p+".v", o, func() interface{} { return obj{"k": "s", "v": core.Str(entries()[i].val.(string)), "z": false} },
				func() { setVal(entries()[i].val.(string) + "~") })
			w.setZero(func() { setVal("") })
		case list.AnyList:
			w.add(p+".v", o, func() interface{} { return projAnyList(entries()[i].val.(list.AnyList)) },
				func() { setVal(mutAnyList(entries()[i].val.(list.AnyList))) })
			w.setZero(func() { setVal(newAnyList(entries()[i].val.(list.AnyList).GetType())) })
		case value.Value:
			w.valueLeaf(p+".v", o, func() value.Value { x, _ := entries()[i].val.(value.Value); return x },
				func(nv value.Value) { setVal(nv) })
		case nil:
			w.add(p+".v", o, func() interface{} { return projValue(nil) }, nil)
		default:
			rv := reflect.ValueOf(x)
			if rv.Kind() == reflect.Ptr && rv.Elem().Kind() == reflect.Struct {
				w.walkStruct(p+".v", rv.Elem())
			} else {
				w.add(p+".v", o, func() interface{} { return obj{"k": "o", "v": core.Str(rv.Type().String())} }, nil)
			}
		}
	}
}

// walkObject lists the leaves of a pack or record (pointer to struct).
func walkObject(p interface{}) []leaf {
	w := &walker{}
	w.walkStruct("", reflect.ValueOf(p).Elem())
	return w.leaves
}

// hasUnorderedTables: does p hold a hash table (no insertion order) with two or more entries?
func hasUnorderedTables(p interface{}) bool {
	w := &walker{}
	w.walkStruct("", reflect.ValueOf(p).Elem())
	return w.perm > 0
}

func snapshotOf(p interface{}) map[string]interface{} {
	m := map[string]interface{}{}
	for _, l := range walkObject(p) {
		m[l.path] = l.get()
	}
	return m
}

// float bit patterns are read and written through memory: a conversion
// float32 <-> float64 would quiet a signalling NaN
func getF32(v reflect.Value) uint32 {
	if v.CanAddr() {
		return *(*uint32)(unsafe.Pointer(v.UnsafeAddr()))
	}
	return math.Float32bits(float32(v.Float()))
}
func setF32(v reflect.Value, b uint32) { *(*uint32)(unsafe.Pointer(v.UnsafeAddr())) = b }
func getF64(v reflect.Value) uint64 {
	if v.CanAddr() {
		return *(*uint64)(unsafe.Pointer(v.UnsafeAddr()))
	}
	return math.Float64bits(v.Float())
}
func setF64(v reflect.Value, b uint64) { *(*uint64)(unsafe.Pointer(v.UnsafeAddr())) = b }
