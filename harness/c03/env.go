package c03

// gen "env": the codec histories once more, recorded in ANOTHER PROCESS.
//
// The property quantifies over packs and their field values; the process that
// decodes is not one of its parameters: whatever the environment of the
// receiving process is, the decoded pack has the values the wire carries.  The
// readers of golib decode INTO an object a constructor has just made, and the
// constructors may take their initial state from the process (environment
// variables, clock, host): in the process of the other generators every such
// source has its default, so an object starts from zero there and a reader that
// leaves a field alone cannot be told from one that assigns it.
//
// The parent harness process starts itself again (os.Executable) with
//   - every environment variable golib reads (argument envnames: the names the
//     check finds in the repository's source; default: the ones known today) set
//     to a non-default value (a decimal number that depends on the seed: a
//     number is also a text, a path and a non-empty flag), and
//   - argument envchild=1,
// and the child records, for every pack type: the all-zero instance, and
// SPARSE populated instances (every scalar leaf zero with probability 1/2: the
// zero value of a cell is the value a "take it only if it is there" reader
// tells apart), written by the real writer and read back by the real reader --
// Enc / Dec / ReEnc, the very events of gen "codec" -- and containers / record
// lists over sparse and minimal items.  The parent copies the child's events
// into its own trace: Trace_PackCodec judges them like every other history
// (CarriedRestored, ExactConsumption, ReEncodeIdentical, UnpackLaw).
//
// Reproduction: (seed, gen "env", case, args) -- the parent always goes through
// the child, the environment is a function of seed and args.

import (
	"bufio"
	"bytes"
	"context"
	"encoding/json"
	"fmt"
	"os"
	"os/exec"
	"path/filepath"
	"sort"
	"strconv"
	"strings"
	"time"

	"verifharness/core"
)

// the environment variables golib reads today (the check passes the list it finds in the source as envnames)
var envDefault = []string{"WHATAP.starttime", "WHATAP_DATETIME_MODE", "WHATAP_HOME", "WHATAP_CONFIG_HOME", "WHATAP_CONFIG", "WHATAP_PHP_BIN"}

func envNames(c *core.Ctx) []string {
	names := append([]string{}, envDefault...)
	for _, n := range strings.Split(c.Args["envnames"], "+") {
		if n != "" && !strings.ContainsAny(n, "=\x00") {
			names = append(names, n)
		}
	}
	sort.Strings(names)
	out := names[:0]
	for i, n := range names {
		if i == 0 || n != names[i-1] {
			out = append(out, n)
		}
	}
	return out
}

// a non-default value: a positive decimal number (parses as an integer, is a non-empty text)
func envValue(seed int64, i int) string {
	return strconv.FormatInt(1690000000000+((seed%1000000+1000000)%1000000)*1000+int64(i)+1, 10)
}

func envOf(c *core.Ctx) map[string]string {
	m := map[string]string{}
	for i, n := range envNames(c) {
		m[n] = envValue(c.Seed, i)
	}
	return m
}

const envPerFile = 200 // histories per trace file of the parent (validated in parallel)

// runEnv: the parent's side.
func runEnv(c *core.Ctx) error {
	if !c.WantGen("env") {
		return nil
	}
	exe, err := os.Executable()
	if err != nil {
		return fmt.Errorf("gen env: %v", err)
	}
	sub := filepath.Join(c.OutDir, "envchild")
	os.RemoveAll(sub)
	if err := os.MkdirAll(sub, 0o755); err != nil {
		return fmt.Errorf("gen env: %v", err)
	}
	var args []string
	for k, v := range c.Args {
		if k != "envchild" {
			args = append(args, k+"="+v)
		}
	}
	args = append(args, "envchild=1")
	sort.Strings(args)
	argv := []string{"-tier", c.Tier, "-seed", strconv.FormatInt(c.Seed, 10), "-out", sub, "-gen", "env"}
	if c.OnlyGen == "env" && c.OnlyCase >= 0 {
		argv = append(argv, "-case", strconv.Itoa(c.OnlyCase))
	}
	argv = append(argv, "-args", strings.Join(args, ","), "c03")
	ctx, cancel := context.WithTimeout(context.Background(), 20*time.Minute)
	defer cancel()
	cmd := exec.CommandContext(ctx, exe, argv...)
	cmd.Dir = sub
	env := envOf(c)
	for _, kv := range os.Environ() {
		if i := strings.IndexByte(kv, '='); i > 0 {
			if _, set := env[kv[:i]]; set {
				continue
			}
		}
		cmd.Env = append(cmd.Env, kv)
	}
	for _, n := range envNames(c) {
		cmd.Env = append(cmd.Env, n+"="+env[n])
	}
	if out, err := cmd.CombinedOutput(); err != nil {
		return fmt.Errorf("gen env: child process failed: %v\n%s", err, tail(out, 3000))
	}
	f, err := os.Open(filepath.Join(sub, "c03_env.ndjson"))
	if err != nil {
		return fmt.Errorf("gen env: %v", err)
	}
	defer f.Close()
	var t *core.Trace
	nh, files := 0, 0
	typ := ""
	rd := bufio.NewReaderSize(f, 1<<20)
	for {
		line, err := rd.ReadBytes('\n')
		if len(bytes.TrimSpace(line)) > 0 {
			d := json.NewDecoder(bytes.NewReader(line))
			d.UseNumber()
			ev := core.Ev{}
			if e2 := d.Decode(&ev); e2 != nil {
				return fmt.Errorf("gen env: child trace: %v", e2)
			}
			switch ev["ev"] {
			case "Reset":
				if t == nil || nh >= envPerFile {
					t = c.Trace(fmt.Sprintf("c03_env_%d", files), "Trace_PackCodec")
					files++
					nh = 0
				}
				nh++
				typ = fmt.Sprint(ev["type"], ev["kind"], ev["pack"])
			case "End":
				c.Count(fmt.Sprintf("env:%s:%v", typ, ev["key"]), ev["ok"] == true)
				delete(ev, "key")
				delete(ev, "ok")
			}
			if t == nil {
				return fmt.Errorf("gen env: child trace does not start with a Reset")
			}
			t.Emit(ev)
		}
		if err != nil {
			break
		}
	}
	c.SetExtra("gen_env_environment_of_the_decoding_process", env)
	return nil
}

func tail(b []byte, n int) string {
	if len(b) > n {
		b = b[len(b)-n:]
	}
	return string(b)
}

// runEnvChild: the child's side (argument envchild=1): the histories of gen "env" in THIS process's environment.
func runEnvChild(c *core.Ctx) error {
	if c.OnlyGen != "env" {
		return fmt.Errorf("envchild: only gen env")
	}
	env := envOf(c)
	for n, v := range env {
		if os.Getenv(n) != v {
			return fmt.Errorf("envchild: environment variable %s is %q, want %q", n, os.Getenv(n), v)
		}
	}
	t := c.Trace("c03_env", "Trace_PackCodec")
	per := c.Pick(6, 40)
	for ti, pt := range ptypes {
		for i := 0; i <= per; i++ {
			cas := ti*1000 + i
			if !c.Want("env", cas) {
				continue
			}
			h := &hist{t: t}
			seed := c.Rng("env", cas).Int63()
			it := &instance{pt: pt, seed: seed, depth: 1, sparse: true}
			how := "sparse"
			if i == 0 { // every cell zero, every section empty
				it = &instance{pt: pt, seed: seed, depth: 1, min: &minPlan{counts: map[string]int{}}}
				how = "zero"
			}
			t.Reset("env", cas, core.Ev{"type": pt.name, "how": how, "env": env})
			m, msg, err := makeMessageOf(it, nil)
			if err != nil {
				return err
			}
			key, ok := "", false
			if msg != "" {
				h.emit(core.Ev{"ev": "Panic", "in": "Write", "type": pt.name, "msg": msg})
			} else {
				h.emit(m.event("Enc"))
				if _, good := decEvents(h.emit, pt, m.bytes, m.bytes); good {
					key, ok = fmt.Sprintf("%d:%d", len(m.bytes), len(m.carried)), len(m.carried) > 0
				}
			}
			t.Emit(core.Ev{"ev": "End", "n": h.n, "key": key, "ok": ok})
		}
	}
	// containers and record lists: the inner packs / records are decoded into objects the factory / the record
	// constructors make in this process
	kinds := []string{"composite", "zip", "lszip"}
	for ki := 0; ki < len(kinds)+len(recKinds); ki++ {
		for rep := 0; rep < c.Pick(4, 24); rep++ {
			cas := 900000 + ki*100 + rep
			if !c.Want("env", cas) {
				continue
			}
			h := &hist{t: t}
			r := c.Rng("env", cas)
			o := buildOpts{nFixed: -1, nonEmpty: true, sparse: rep%2 == 0, minimal: rep%2 == 1}
			var b *built
			var err error
			if ki < len(kinds) {
				t.Reset("env", cas, core.Ev{"kind": kinds[ki], "env": env})
				b, err = packBuild(h.emit, kinds[ki], r, o)
			} else {
				rk := recKinds[ki-len(kinds)]
				t.Reset("env", cas, core.Ev{"pack": rk.name, "env": env})
				b, err = recsBuild(h.emit, rk, cas, r, o)
			}
			if err != nil {
				return err
			}
			key, ok := "", false
			if b != nil && boxFinish(h.emit, b) {
				key, ok = fmt.Sprintf("%s%s:%d", b.kind, b.name, b.n), b.n > 0
			}
			t.Emit(core.Ev{"ev": "End", "n": h.n, "key": key, "ok": ok})
		}
	}
	return nil
}
