package c03

// Random population of packs and records: every field, exported or not,
// including the private tables (through rebuilt golib containers), extremes of
// every integer width, nil versus empty optional sections, texts and blobs at
// the length thresholds of the blob prefix.  It only constructs.

import (
	"fmt"
	"math"
	"math/rand"
	"reflect"
	"strings"

	"github.com/whatap/golib/lang"
	"github.com/whatap/golib/lang/pack"
	"github.com/whatap/golib/lang/value"
	"github.com/whatap/golib/util/list"

	"verifharness/core"
	"verifharness/valgen"
)

type filler struct {
	r      *rand.Rand
	nonil  bool     // populate every optional section (used when the writer requires one that was left out)
	big    int      // how many big items (long text, wide table) this instance may still get
	wide   int      // k > 0: the k-th wire-boundary instance of its type: every list / table whose count travels in one byte gets a count at a boundary of that byte (the k-th of the list, in turn)
	min    *minPlan // not nil: minimal instance (gen "minimal")
	light  bool     // small tagged values, no random boundary counts (gen "life")
	sparse bool     // a scalar leaf is the zero value of its type with probability 1/2 (gen "env")
}

// A MINIMAL instance: every element has the smallest encoding its type allows
// (integers and decimals 0, texts and blobs empty, tables without entries,
// optional sections left out unless the writer needs them) and every
// count-prefixed SECTION (list, table, blob) holds exactly the number of
// elements the plan gives it -- none, unless it is the section under test or
// one the section under test lives in.  Such a pack is as short as a pack with
// that count can be: a reader that guards a count against what is left of its
// input ("n elements need at least k*n bytes") must accept it even when the
// pack is the last thing in the input.
type minPlan struct {
	counts map[string]int      // "Struct.field" of a section -> number of elements (absent: 0)
	seen   []string            // discovery: the sections met, in order
	parent map[string][]string // discovery: the sections a section was met in
	stack  []string
}

func (m *minPlan) site(key string) int {
	if m.parent != nil {
		if _, ok := m.parent[key]; !ok {
			m.parent[key] = append([]string{}, m.stack...)
			m.seen = append(m.seen, key)
		}
	}
	n := m.counts[key]
	if bc, ok := wireCount[key]; ok && n > bc.max-bc.reserved {
		n = bc.max - bc.reserved
	}
	return n
}
func (m *minPlan) enter(key string) { m.stack = append(m.stack, key) }
func (m *minPlan) leave()           { m.stack = m.stack[:len(m.stack)-1] }

// the i-th of the shortest distinct text keys (no reserved first characters)
func minKey(i int) string {
	const abc = "abcdefghijklmnopqrstuvwxyzABCDEFGHIJKLMNOPQRSTUVWXYZ0123456789"
	s := string(abc[i%len(abc)])
	for i /= len(abc); i > 0; i /= len(abc) {
		s += string(abc[i%len(abc)])
	}
	return s
}

// sections of a pack type and, per section, the sections it lives in: found by
// populating minimal instances in which every section met so far holds one element
func discoverSections(pt *ptype) *minPlan {
	d := &minPlan{counts: map[string]int{}, parent: map[string][]string{}}
	for round := 0; round < 6; round++ {
		before := len(d.seen)
		for _, nonil := range []bool{false, true} {
			it := &instance{pt: pt, seed: 1, depth: 1, nonil: nonil, min: d}
			core.Guard(func() { it.build() })
			d.stack = d.stack[:0]
		}
		for _, k := range d.seen {
			d.counts[k] = 1
		}
		if len(d.seen) == before && round > 0 {
			break
		}
	}
	return d
}

// planFor: section key holds n elements, the sections it lives in one, every other none
func (d *minPlan) planFor(key string, n int) *minPlan {
	p := &minPlan{counts: map[string]int{key: n}}
	for _, a := range d.parent[key] {
		if _, ok := p.counts[a]; !ok {
			p.counts[a] = 1
		}
	}
	return p
}

// lists whose length is fixed by the format
var fixedLen = map[string]bool{"HitMapPack1.Hit": true, "HitMapPack1.Error": true}

// integer fields narrower on the wire than in the struct (the writer's own width)
var wireBits = map[string]int{
	"ServerInfoPack.Version": 24, // WriteInt3
}

// Cells that travel UNSIGNED and narrower than the field that holds them: the
// value domain of such a field is the domain of its WIRE cell -- every boundary
// of it (0, 1, the sign bit of the cell, all ones), not the boundaries of the Go
// type -- plus, now and then, a value the cell cannot hold (the wire carries its
// low bits: spec PackCodec.WireCell).
var wireUnsigned = map[string]int{
	"HitMapPack1.Hit":   16,
	"HitMapPack1.Error": 16,
}

// Lists and tables whose element COUNT travels in one byte (max = largest count
// the writer can express, reserved = entries the writer adds on its own): the
// count domain is the domain of that byte, so a wire-boundary instance gives
// them a count at 127 / 128 / 129 / 254 / 255 on the wire.
type byteCount struct{ max, reserved int }

var wireCount = map[string]byteCount{
	"CounterPack1.ActiveStat":  {255, 0},
	"CounterPack1.ActSvcSlice": {255, 0},
	"EventPack.Attr":           {255, 4}, // uuid / escalation / status / otype travel as attributes
	"TxRecord.Fields":          {255, 0},
	"SMBasePack.CpuCore":       {255, 0},
}

// boundary picks a count at a boundary of the wire cell of key (ok = false: no such cell, or not this time).
func (g *filler) boundary(key string) (int, bool) {
	bc, ok := wireCount[key]
	if !ok || !(g.wide > 0 || g.r.Intn(40) == 0) || g.light {
		return 0, false
	}
	half := (bc.max + 1) / 2
	k := g.r.Intn(5)
	if g.wide > 0 {
		k = (g.wide - 1) % 5
	}
	return []int{half, bc.max, half + 1, bc.max - 1, half - 1}[k] - bc.reserved, true
}

// uint draws from the domain of an unsigned wire cell of the given width.
func (g *filler) uint(bits int) int64 {
	r := g.r
	if g.min != nil {
		return 0
	}
	max := int64(1)<<uint(bits) - 1
	half := int64(1) << uint(bits-1)
	switch r.Intn(8) {
	case 0, 1, 2:
		return []int64{0, 1, half - 2, half - 1, half, half + 1, max - 1, max, 255, 256}[r.Intn(10)]
	case 3:
		return g.int(32) // may lie outside the cell: the wire carries the low bits
	case 4:
		return int64(r.Intn(300))
	default:
		return r.Int63n(max + 1)
	}
}

func (g *filler) int(bits int) int64 {
	r := g.r
	if g.min != nil {
		return 0
	}
	lim := func(v int64) int64 {
		if bits >= 64 {
			return v
		}
		sh := uint(64 - bits)
		return (v << sh) >> sh
	}
	switch r.Intn(6) {
	case 0:
		min := int64(math.MinInt64) >> uint(64-bits)
		max := int64(math.MaxInt64) >> uint(64-bits)
		return []int64{0, 1, -1, min, max, min + 1, max - 1}[r.Intn(7)]
	case 1:
		e := []uint{7, 8, 15, 16, 23, 24, 31, 32, 39, 40}[r.Intn(10)]
		v := int64(1)<<e + int64(r.Intn(3)-1)
		if r.Intn(2) == 0 {
			v = -v
		}
		return lim(v)
	case 2:
		return int64(r.Intn(300) - 100)
	default:
		return lim(int64(r.Uint64()) >> uint(r.Intn(64)))
	}
}

func (g *filler) textLen() int {
	r := g.r
	if g.min != nil {
		return 0
	}
	switch r.Intn(16) {
	case 0, 1:
		return 0
	case 2:
		return 1
	case 3:
		return []int{253, 254, 255, 256}[r.Intn(4)]
	case 4:
		if g.big > 0 {
			g.big--
			return []int{65535, 65536, 70001}[r.Intn(3)]
		}
	}
	return r.Intn(20)
}

func (g *filler) text() string { return string(valgen.RandText(g.r, g.textLen())) }

func (g *filler) count() int {
	r := g.r
	switch r.Intn(10) {
	case 0, 1:
		return 0
	case 2:
		return 1
	case 3:
		if g.big > 0 {
			g.big--
			return 70
		}
	}
	return 1 + r.Intn(4)
}

func (g *filler) value(depth int) value.Value {
	if g.min != nil {
		return value.NewNullValue()
	}
	b := 6
	o := &valgen.Opts{MaxWidth: 4, MaxBlob: 300, Budget: &b}
	if g.light {
		b = 3
		o = &valgen.Opts{MaxWidth: 2, MaxBlob: 24, Budget: &b}
	}
	return valgen.Build(valgen.Rand(g.r, depth, o))
}

func (g *filler) anyList(n int) list.AnyList {
	a := newAnyList(byte(1 + g.r.Intn(5)))
	for i := 0; i < n; i++ {
		switch a.GetType() {
		case list.ANYLIST_INT:
			a.AddInt(int(int32(g.int(32))))
		case list.ANYLIST_LONG:
			a.AddLong(g.int(64))
		case list.ANYLIST_FLOAT:
			a.AddFloat(math.Float32frombits(g.f32()))
		case list.ANYLIST_DOUBLE:
			a.AddDouble(math.Float64frombits(g.f64()))
		default:
			a.AddString(g.text())
		}
	}
	return a
}

func (g *filler) f32() uint32 {
	if g.min != nil {
		return 0
	}
	return valgen.RandF32(g.r, false)
}

func (g *filler) f64() uint64 {
	if g.min != nil {
		return 0
	}
	return valgen.RandF64(g.r, false)
}

func (g *filler) elem(kind string, rows int) interface{} {
	switch kind {
	case "value":
		return g.value(1)
	case "string":
		return g.text()
	case "anylist":
		return g.anyList(rows)
	}
	x := newElem(kind)
	g.fillStruct(reflect.ValueOf(x).Elem())
	return x
}

func (g *filler) fillStruct(v reflect.Value) {
	t := v.Type()
	for i := 0; i < t.NumField(); i++ {
		sf := t.Field(i)
		if skipField[t.Name()+"."+sf.Name] {
			continue
		}
		if sf.Anonymous && sf.Type.Kind() == reflect.Struct {
			g.fillStruct(v.Field(i))
			continue
		}
		g.fill(v.Field(i), t.Name(), sf.Name)
	}
}

func (g *filler) scalar(v reflect.Value, key string) {
	if g.sparse && g.r.Intn(2) == 0 {
		v.Set(reflect.Zero(v.Type()))
		return
	}
	switch v.Kind() {
	case reflect.Bool:
		v.SetBool(g.r.Intn(2) == 1 && g.min == nil)
	case reflect.Int, reflect.Int8, reflect.Int16, reflect.Int32, reflect.Int64:
		bits := v.Type().Bits()
		if b, ok := wireBits[key]; ok {
			bits = b
		}
		if b, ok := wireUnsigned[key]; ok {
			v.SetInt(g.uint(b))
			return
		}
		v.SetInt(g.int(bits))
	case reflect.Uint, reflect.Uint8, reflect.Uint16, reflect.Uint32, reflect.Uint64:
		v.SetUint(uint64(g.int(64)) & (^uint64(0) >> uint(64-v.Type().Bits())))
	case reflect.Float32:
		setF32(v, g.f32())
	case reflect.Float64:
		setF64(v, g.f64())
	case reflect.String:
		v.SetString(g.text())
	}
}

func (g *filler) fill(v reflect.Value, owner, fname string) {
	v = expose(v)
	t := v.Type()
	key := owner + "." + fname
	r := g.r
	switch {
	case isScalarKind(t.Kind()):
		g.scalar(v, key)
	case t.Kind() == reflect.Slice && t.Elem().Kind() == reflect.Uint8 && g.min != nil:
		v.SetBytes(make([]byte, g.min.site(key)))
	case t.Kind() == reflect.Slice && t.Elem().Kind() == reflect.Uint8:
		switch r.Intn(8) {
		case 0:
			v.Set(reflect.Zero(t))
		case 1:
			v.SetBytes([]byte{})
		default:
			v.SetBytes(valgen.RandBytes(r, g.textLen()))
		}
	case t.Kind() == reflect.Slice && isScalarKind(t.Elem().Kind()):
		n := v.Len()
		if !fixedLen[key] {
			switch r.Intn(6) {
			case 0:
				v.Set(reflect.Zero(t))
				return
			case 1:
				n = 0
			case 2: // keep the constructor's length
			default:
				n = r.Intn(7)
			}
			if b, ok := g.boundary(key); ok {
				n = b
			}
			if g.min != nil {
				n = g.min.site(key)
			}
		}
		s := reflect.MakeSlice(t, n, n)
		for i := 0; i < n; i++ {
			g.scalar(s.Index(i), key)
		}
		v.Set(s)
	case t == tStringPtr:
		if !g.nonil && (r.Intn(4) == 0 || g.min != nil) {
			v.Set(reflect.Zero(t))
			return
		}
		s := g.text()
		v.Set(reflect.ValueOf(&s))
	case t.Kind() == reflect.Slice && t.Elem().Kind() == reflect.Struct:
		n := g.count()
		if g.min != nil {
			n = g.min.site(key)
			g.min.enter(key)
			defer g.min.leave()
		} else if n == 0 && r.Intn(2) == 0 {
			v.Set(reflect.Zero(t))
			return
		}
		s := reflect.MakeSlice(t, n, n)
		for i := 0; i < n; i++ {
			g.fillStruct(s.Index(i))
		}
		v.Set(s)
	case t.Kind() == reflect.Struct:
		if t != tMutex {
			g.fillStruct(v)
		}
	case t == tValueIface:
		v.Set(reflect.ValueOf(g.value(1)))
	case t.Kind() == reflect.Ptr:
		if h := containerOf(t, owner, fname); h != nil {
			if v.IsNil() && !g.nonil && (r.Intn(3) == 0 || (g.min != nil && g.min.site(key) == 0)) {
				return // optional table left out
			}
			g.fillContainer(v, h, key)
			return
		}
		if t.Elem().Kind() == reflect.Struct {
			if v.IsNil() {
				if !g.nonil && (r.Intn(3) == 0 || g.min != nil) {
					return
				}
				v.Set(reflect.New(t.Elem()))
			}
			g.fillStruct(v.Elem())
		}
	}
	// interfaces other than Value and lists of interfaces are set by the per-type hooks
}

func (g *filler) fillContainer(v reflect.Value, h *container, key string) {
	n := g.count()
	if key == "EventPack.Attr" && n > 200 {
		n = 200 // the attribute count travels in one byte together with four reserved keys
	}
	if b, ok := g.boundary(key); ok {
		n = b
	}
	if g.min != nil {
		n = g.min.site(key)
		g.min.enter(key)
		defer g.min.leave()
	}
	el := tableElem[key]
	if i := strings.IndexByte(el, ':'); i >= 0 {
		el = el[i+1:] // "keytype:valuetype"
	}
	rows := g.r.Intn(4)
	if g.min != nil {
		rows = 0
	}
	seenI := map[int32]bool{}
	seenS := map[string]bool{}
	var es []entry
	proto := h.newKey(0)
	for i := 0; i < n; i++ {
		var k interface{}
		switch proto.(type) {
		case int32:
			x := int32(g.int(32))
			if g.min != nil {
				x = int32(i)
			}
			for seenI[x] || x>>24 == 0x7e {
				x = int32(g.r.Uint32())
			}
			seenI[x] = true
			k = x
		case string:
			s := g.text()
			if g.min != nil {
				s = minKey(i)
			}
			for seenS[s] || s == "" || s[0] == '~' || s[0] == '_' {
				s = fmt.Sprintf("k%d%s", i, s)
			}
			seenS[s] = true
			k = s
		case *lang.PKIND:
			k = lang.NewPKIND(g.int(64), int32(g.int(32)))
			if g.min != nil {
				k = lang.NewPKIND(int64(i), 0)
			}
		case *lang.POID:
			k = lang.NewPOID(g.int(64), int32(g.int(32)))
			if g.min != nil {
				k = lang.NewPOID(int64(i), 0)
			}
		}
		var val interface{}
		switch h.newVal().(type) {
		case int32:
			val = int32(g.int(32))
		case value.Value:
			val = g.value(1)
		default:
			val = g.elem(el, rows)
		}
		es = append(es, entry{k, val})
	}
	v.Set(h.rebuild(v, es))
}

// ------------------------------------------------------------- per-type hooks

var linuxFamily = []int16{pack.OS_LINUX, pack.OS_OSX, pack.OS_AIX, pack.OS_HPUX}

// the systems golib defines a code for but whose sections SMBasePack.Read has no record types for
var otherUnix = []int16{pack.OS_SUNOS, pack.OS_OPENBSD, pack.OS_FREEBSD}

// open known findings whose signature the generators steer around (ids from the kf argument)
var kf = map[string]bool{}

const kfSMBaseOS = "C03-smbase-os"

// forceOS: the witness generator of kfSMBaseOS pins the operating system
var forceOS int16

func (g *filler) cpu(win bool, osx bool) pack.Cpu {
	var c pack.Cpu
	switch {
	case win:
		c = &pack.CpuWindow{}
	case osx:
		c = &pack.CpuOSX{}
	default:
		c = &pack.CpuLinux{}
	}
	g.fillStruct(reflect.ValueOf(c).Elem())
	return c
}

// hook completes what reflection cannot decide: interface-typed sections, inner packs.
func (g *filler) hook(p interface{}, depth int) {
	switch q := p.(type) {
	case *pack.SMBasePack:
		// the operating system selects the record types of the cpu and memory sections;
		// kfOS: the reader knows five of the eight defined systems (open finding C03-smbase-os)
		win := g.r.Intn(3) == 0
		if win {
			q.OS = pack.OS_WINDOW
		} else {
			q.OS = linuxFamily[g.r.Intn(len(linuxFamily))]
			if !kf[kfSMBaseOS] && g.r.Intn(4) == 0 {
				q.OS = otherUnix[g.r.Intn(len(otherUnix))]
			}
		}
		if forceOS != 0 {
			q.OS, win = forceOS, false
		}
		osx := q.OS == pack.OS_OSX && g.r.Intn(2) == 0
		q.Cpu = g.cpu(win, osx)
		n := g.r.Intn(4)
		if b, ok := g.boundary("SMBasePack.CpuCore"); ok {
			n = b
		}
		if g.min != nil {
			n = g.min.site("SMBasePack.CpuCore")
		}
		q.CpuCore = make([]pack.Cpu, n)
		for i := range q.CpuCore {
			q.CpuCore[i] = g.cpu(win, osx)
		}
		if win {
			m := &pack.MemoryWindow{}
			g.fillStruct(reflect.ValueOf(m).Elem())
			q.Memory = m
		} else {
			m := &pack.MemoryLinux{}
			g.fillStruct(reflect.ValueOf(m).Elem())
			q.Memory = m
		}
	case *pack.CompositePack:
		n := g.r.Intn(4)
		if g.min != nil {
			n = g.min.site("CompositePack.pack")
			g.min.enter("CompositePack.pack")
			defer g.min.leave()
		}
		inner := make([]pack.Pack, n)
		for i := range inner {
			var ts []*ptype
			for _, pt := range ptypes {
				if pt.reg && (depth > 0 || pt.name != "CompositePack") {
					ts = append(ts, pt)
				}
			}
			pt := ts[g.r.Intn(len(ts))]
			ip := pt.mk()
			sub := &filler{r: g.r, nonil: g.nonil, min: g.min, light: g.light, sparse: g.sparse}
			sub.populate(ip, depth-1)
			inner[i] = ip.(pack.Pack)
		}
		f := expose(reflect.ValueOf(q).Elem().FieldByName("pack"))
		f.Set(reflect.ValueOf(inner))
	case *pack.StatTransactionPack:
		if q.Version < 2 {
			q.Version = 2 + q.Version
		}
	case *pack.StatTransactionPack1:
		if q.Version < 2 {
			q.Version = 2 + q.Version
		}
	}
}

// populate fills every field of p and applies the hook of its type.
func (g *filler) populate(p interface{}, depth int) {
	g.fillStruct(reflect.ValueOf(p).Elem())
	g.hook(p, depth)
}
