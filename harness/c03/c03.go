// Package c03 drives the real lang/pack code: every pack type is populated,
// written by the real writer, read by the real reader and written again; the
// containers (composite, zip, log-sink zip, record-list packs) are built from
// registered items through the public API, sent over the wire and unpacked.
// The harness only records (projection by reflection and the standard
// library); Trace_PackCodec.tla judges.
package c03

import (
	"bytes"
	"compress/gzip"
	"container/list"
	"encoding/json"
	"fmt"
	"io"
	"math/rand"
	"reflect"
	"sort"
	"strings"

	gio "github.com/whatap/golib/io"
	"github.com/whatap/golib/lang/pack"
	"github.com/whatap/golib/util/compressutil"

	"verifharness/core"
)

func init() { core.Register("c03", Run) }

// ---------------------------------------------------------------- pack types

type ptype struct {
	name string // concrete Go type (plus "#variant")
	code int16
	reg  bool // created by the pack factory: goes through ToBytesPack / ToPack
	hdr  bool // the common header leads the body
	mk   func() interface{}
}

var regCodes = []int16{pack.PACK_PARAMETER, pack.PACK_COUNTER_1, pack.PACK_PROFILE, pack.PACK_ACTIVESTACK_1, pack.PACK_TEXT,
	pack.PACK_ERROR_SNAP_1, pack.PACK_REALTIME_USER, pack.PACK_STAT_SERVICE, pack.PACK_STAT_GENERAL, pack.PACK_STAT_SQL,
	pack.PACK_STAT_HTTPC, pack.PACK_STAT_ERROR, pack.PACK_STAT_REMOTE_IP, pack.PACK_STAT_USER_AGENT, pack.PACK_EVENT,
	pack.PACK_HITMAP_1, pack.PACK_EXTENSION, pack.TAG_COUNT, pack.TAG_LOG, pack.PACK_COMPOSITE, pack.PACK_LOGSINK, pack.PACK_ZIP,
	pack.PACK_LOGSINK_ZIP, pack.PACK_SERVERINFO}

func typeName(p interface{}) string {
	if p == nil || reflect.ValueOf(p).Kind() != reflect.Ptr || reflect.ValueOf(p).IsNil() {
		return "nil"
	}
	return reflect.TypeOf(p).Elem().Name()
}

var ptypes = func() []*ptype {
	var ts []*ptype
	for _, c := range regCodes {
		c := c
		p := pack.CreatePack(c)
		ts = append(ts, &ptype{name: typeName(p), code: c, reg: true, hdr: typeName(p) != "ServerInfoPack",
			mk: func() interface{} { return pack.CreatePack(c) }})
	}
	direct := func(name string, hdr bool, mk func() interface{}) {
		code := int16(0)
		if p, ok := mk().(pack.Pack); ok {
			code = p.GetPackType()
		}
		ts = append(ts, &ptype{name: name, code: code, hdr: hdr, mk: mk})
	}
	// packs the factory does not know: through their own Write / Read
	direct("ProfileStepSplitPack", true, func() interface{} { return pack.NewProfileStepSplitPack() })
	direct("StatTransactionPack", true, func() interface{} { return pack.NewStatTransactionPack() })
	direct("StatTransactionPack1", true, func() interface{} { return pack.NewStatTransactionPack1() })
	direct("StatGeneralPack#1", true, func() interface{} { return pack.NewStatGeneralPackType(pack.PACK_STAT_GENERAL_1) })
	direct("SMBasePack", false, func() interface{} { return pack.NewSMBasePack() })
	direct("SMDiskPerfPack", true, func() interface{} { return pack.NewSMDiskPerfPack() })
	direct("SMDownCheckPack", true, func() interface{} { return pack.NewSMDownCheckPack() })
	direct("SMExtension", true, func() interface{} { return pack.NewSMExtensionPack() })
	direct("SMLogEventPack", true, func() interface{} { return pack.NewSMLogEventPack() })
	direct("SMNetPerfPack", true, func() interface{} { return pack.NewSMNetPerfPack() })
	direct("SMPingPack", false, func() interface{} { return pack.NewSMPingPack() })
	direct("SMProcPerfPack", true, func() interface{} { return pack.NewSMProcPerfPack() })
	direct("SMTCPPerfPack", true, func() interface{} { return pack.NewSMTCPPerfPack() })
	// records with a Write / Read pair of their own
	direct("CpuLinux", false, func() interface{} { return &pack.CpuLinux{} })
	direct("CpuOSX", false, func() interface{} { return &pack.CpuOSX{} })
	direct("CpuWindow", false, func() interface{} { return &pack.CpuWindow{} })
	direct("MemoryLinux", false, func() interface{} { return &pack.MemoryLinux{} })
	direct("MemoryWindow", false, func() interface{} { return &pack.MemoryWindow{} })
	direct("DiskPerf", false, func() interface{} { return &pack.DiskPerf{} })
	direct("NetPerf", false, func() interface{} { return &pack.NetPerf{} })
	direct("SMLogEvent", false, func() interface{} { return &pack.SMLogEvent{} })
	direct("ProcNetPerf", false, func() interface{} { return &pack.ProcNetPerf{} })
	direct("ProcFilePerf", false, func() interface{} { return &pack.ProcFilePerf{} })
	direct("ProcPerf", false, func() interface{} { return &pack.ProcPerf{} })
	direct("TCPPortPerf", false, func() interface{} { return &pack.TCPPortPerf{} })
	direct("TimeCount", false, func() interface{} { return pack.NewTimeCountDefault() })
	direct("SqlRec", false, func() interface{} { return pack.NewSqlRec() })
	direct("HttpcRec", false, func() interface{} { return pack.NewHttpcRec() })
	return ts
}()

func typeByName(n string) *ptype {
	for _, pt := range ptypes {
		if pt.name == n {
			return pt
		}
	}
	return nil
}

func typeOfPack(p interface{}) *ptype {
	n := typeName(p)
	for _, pt := range ptypes {
		if pt.reg && pt.name == n {
			return pt
		}
	}
	return typeByName(n)
}

// ------------------------------------------------------------------- codec

var trailer = []byte{0xA5, 0x5A, 0xA5, 0x5A, 0xA5, 0x5A, 0xA5, 0x5A, 0xA5, 0x5A, 0xA5, 0x5A, 0xA5, 0x5A, 0xA5, 0x5A}

func callWrite(p interface{}, out *gio.DataOutputX) {
	reflect.ValueOf(p).MethodByName("Write").Call([]reflect.Value{reflect.ValueOf(out)})
}

func callRead(p interface{}, in *gio.DataInputX) {
	reflect.ValueOf(p).MethodByName("Read").Call([]reflect.Value{reflect.ValueOf(in)})
}

// encodeRaw returns the very slice the writer handed out (a caller may hold on to it: gens "hold").
func encodeRaw(pt *ptype, p interface{}) (b []byte, msg string) {
	msg = core.Guard(func() {
		if pt.reg {
			b = pack.ToBytesPack(p.(pack.Pack))
			return
		}
		out := gio.NewDataOutputX()
		callWrite(p, out)
		b = out.ToByteArray()
	})
	return
}

func encode(pt *ptype, p interface{}) (b []byte, msg string) {
	b, msg = encodeRaw(pt, p)
	b = append([]byte(nil), b...)
	return
}

// decode reads b followed by a trailer with the real reader; consumed tells how far it went.
func decode(pt *ptype, b []byte) (q interface{}, consumed int, msg string) {
	all := append(append([]byte(nil), b...), trailer...)
	in := gio.NewDataInputX(all)
	msg = core.Guard(func() {
		if pt.reg {
			q = pack.ReadPack(in)
		} else {
			q = pt.mk()
			callRead(q, in)
		}
	})
	if msg != "" {
		return nil, 0, msg
	}
	consumed = len(all) - int(in.Available())
	if pt.reg && consumed == len(b) {
		// the observation point of the property: ToPack over exactly the encoding
		var q2 pack.Pack
		if m2 := core.Guard(func() { q2 = pack.ToPack(b) }); m2 != "" {
			return nil, 0, "ToPack: " + m2
		}
		q = q2
	}
	if !pt.reg && consumed == len(b) {
		// the same observation point for a type with a Read of its own: the encoding is ALL the reader
		// is given (a guard that compares a count with what is left of the input sees the real end)
		q2 := pt.mk()
		if m2 := core.Guard(func() { callRead(q2, gio.NewDataInputX(append([]byte(nil), b...))) }); m2 != "" {
			return nil, 0, "Read(exact input): " + m2
		}
		q = q2
	}
	return q, consumed, ""
}

// lazily decoded sections: looking at them changes the representation, not the content
func prep(p interface{}) bool {
	switch g := p.(type) {
	case *pack.StatGeneralPack:
		g.GetDataTable()
		return true
	case *pack.CompositePack: // its inner packs
		any := false
		f := expose(reflect.ValueOf(g).Elem().FieldByName("pack"))
		for i := 0; i < f.Len(); i++ {
			if !f.Index(i).IsNil() && prep(f.Index(i).Interface()) {
				any = true
			}
		}
		return any
	}
	return false
}

type instance struct {
	pt     *ptype
	seed   int64
	nonil  bool
	depth  int
	wide   int                 // k > 0: the k-th wire-boundary instance of its type (fill.go: byte-counted lists at the boundaries of their count byte)
	min    *minPlan            // not nil: every element has its minimal encoding, the plan says how many elements each section holds (gen "minimal")
	light  bool                // no long text / wide table (gen "life": every probe replays the life of the object)
	sparse bool                // every scalar leaf is, with probability 1/2, the zero value of its type (gen "env": what a reader takes over from the object it decodes INTO shows only where the wire carries a zero)
	replay func(p interface{}) // not nil: what happened to the object after it was populated (earlier writes, mutations): a rebuilt copy lives through the same
}

// build constructs the instance again from its seed (the probes change one leaf of a fresh copy).
func (it *instance) build() interface{} {
	r := rand.New(rand.NewSource(it.seed))
	p := it.pt.mk()
	g := &filler{r: r, nonil: it.nonil, wide: it.wide, min: it.min, light: it.light, sparse: it.sparse}
	if r.Intn(24) == 0 && it.min == nil && !it.light {
		g.big = 1
	}
	g.populate(p, it.depth)
	setHeaderForm(r, p)
	if it.replay != nil {
		it.replay(p)
	}
	return p
}

// both forms of the common header: kind and node zero, one of them, both
func setHeaderForm(r *rand.Rand, p interface{}) {
	v := reflect.ValueOf(p).Elem()
	k, n := v.FieldByName("Okind"), v.FieldByName("Onode")
	if !k.IsValid() || !n.IsValid() || !k.CanSet() {
		return
	}
	switch r.Intn(6) {
	case 0, 1, 2:
		k.SetInt(0)
		n.SetInt(0)
	case 3:
		k.SetInt(0)
	case 4:
		n.SetInt(0)
	}
}

func jsonEq(a, b interface{}) bool {
	x, _ := json.Marshal(a)
	y, _ := json.Marshal(b)
	return bytes.Equal(x, y)
}

type message struct {
	it      *instance
	p       interface{}
	w       map[string]interface{}
	wd      map[string]interface{}
	wdel    []string
	twice   bool // the live object was written a second time (purity test of the writer)
	sib     map[string]string
	carried []string
	bytes   []byte
	perm    bool
}

var stats = struct {
	nilFallback     map[string]int
	probes          int
	leaves          int
	tops            map[string]map[string]bool
	sharedAbandoned int
	twinless        int
}{map[string]int{}, 0, 0, map[string]map[string]bool{}, 0, 0}

// carriedBy derives the carried leaves from a writer: leaf k is carried iff
// writing a fresh copy in which only leaf k was changed gives other bytes
// (or makes the writer fail).
//
// Every probe works on a copy rebuilt from the seed.  For an instance whose
// writer is observably pure (pure: writing changed no leaf and a second write
// gave the same bytes) the leaves with an involutive probe share ONE copy:
// change, write, change back.  That is only a shortcut (a wide table costs n
// rebuilds of n leaves otherwise): it is abandoned for the whole instance when a
// writer fails or when, after the last probe, the copy does not project and
// write exactly like the original.
// noShared (argument noshared=1) turns the shared-copy shortcut off: both ways must record the same traces
var noShared bool

func carriedBy(it *instance, n int, base []byte, w map[string]interface{}, pure bool, write func(p interface{}) ([]byte, string)) ([]string, error) {
	res := make([]bool, n)
	done := make([]bool, n)
	if pure && n > 64 && !noShared {
		p2 := it.build()
		l2 := walkObject(p2)
		if len(l2) != n {
			return nil, fmt.Errorf("instance %s/%d is not reproducible from its seed (%d leaves, then %d)", it.pt.name, it.seed, n, len(l2))
		}
		ok := true
		for k := 0; k < n && ok; k++ {
			if !l2[k].inv || l2[k].mut == nil {
				continue
			}
			l2[k].mut()
			b2, msg := write(p2)
			l2[k].mut()
			stats.probes++
			if msg != "" {
				ok = false
				break
			}
			res[k], done[k] = !bytes.Equal(b2, base), true
		}
		if ok {
			b3, msg := write(p2)
			ok = msg == "" && bytes.Equal(b3, base)
			for _, l := range l2 {
				if !ok {
					break
				}
				ok = jsonEq(l.get(), w[l.path])
			}
		}
		if !ok {
			stats.sharedAbandoned++
			res, done = make([]bool, n), make([]bool, n)
		}
	}
	carried := []string{}
	var paths []string
	for k := 0; k < n; k++ {
		if done[k] {
			continue
		}
		p2 := it.build()
		l2 := walkObject(p2)
		if len(l2) != n {
			return nil, fmt.Errorf("instance %s/%d is not reproducible from its seed (%d leaves, then %d)", it.pt.name, it.seed, n, len(l2))
		}
		if paths == nil {
			paths = make([]string, n)
			for i := range l2 {
				paths[i] = l2[i].path
			}
		}
		if l2[k].mut == nil {
			continue
		}
		l2[k].mut()
		b2, msg := write(p2)
		stats.probes++
		res[k] = msg != "" || !bytes.Equal(b2, base)
	}
	if paths == nil {
		for _, l := range walkObject(it.build()) {
			paths = append(paths, l.path)
		}
	}
	for k := 0; k < n; k++ {
		if res[k] {
			carried = append(carried, paths[k])
		}
	}
	return carried, nil
}

func topOf(path string) string {
	if i := strings.IndexAny(path, ".["); i >= 0 {
		return path[:i]
	}
	return path
}

// observe records the leaves of the live object p (an instance of `it` in its
// current state), writes it and derives the carried set for THIS state of the
// object (the probes work on copies rebuilt by it.build, which replays what
// happened to the object).  msg != "" : the writer failed.
func observe(it *instance, p interface{}, write func(p interface{}) ([]byte, string)) (*message, string, error) {
	pt := it.pt
	if write == nil {
		write = func(p interface{}) ([]byte, string) { return encode(pt, p) }
	}
	leaves := walkObject(p)
	w := map[string]interface{}{}
	for _, l := range leaves {
		w[l.path] = l.get()
	}
	b, msg := write(p)
	if msg != "" {
		return nil, msg, nil
	}
	// what Write itself did to the object: leaves that hold another value or are new (wd), leaves that are gone (wdel)
	wd := map[string]interface{}{}
	wdel := []string{}
	after := map[string]bool{}
	for _, l := range walkObject(p) {
		after[l.path] = true
		cur := l.get()
		if old, ok := w[l.path]; !ok || !jsonEq(old, cur) {
			wd[l.path] = cur
		}
	}
	for k := range w {
		if !after[k] {
			wdel = append(wdel, k)
		}
	}
	sort.Strings(wdel)
	sib := map[string]string{}
	for _, l := range leaves {
		if strings.HasSuffix(l.path, "ErrorLevel") {
			if lf, ok := w[l.path].(obj); ok && lf["o"] == "TxRecord.ErrorLevel" {
				sib[l.path] = strings.TrimSuffix(l.path, "Level")
			}
		}
	}
	pure := len(wd) == 0 && len(wdel) == 0
	twice := pure
	if pure {
		b1, msg1 := write(p)
		pure = msg1 == "" && bytes.Equal(b1, b)
	}
	carried, err := carriedBy(it, len(leaves), b, w, pure, write)
	if err != nil {
		return nil, "", err
	}
	stats.leaves += len(leaves)
	if stats.tops[pt.name] == nil {
		stats.tops[pt.name] = map[string]bool{}
	}
	for _, c := range carried {
		stats.tops[pt.name][topOf(c)] = true
	}
	return &message{it: it, p: p, w: w, wd: wd, wdel: wdel, sib: sib, carried: carried, bytes: b, perm: hasUnorderedTables(p), twice: twice}, "", nil
}

// makeMessage populates an instance (retrying with every optional section
// present when the writer requires one), records its leaves, writes it and
// derives the carried set.  msg != "" : the writer failed.
func makeMessage(pt *ptype, seed int64, depth int, wide int, write func(p interface{}) ([]byte, string)) (*message, string, error) {
	return makeMessageOf(&instance{pt: pt, seed: seed, depth: depth, wide: wide}, write)
}

func makeMessageOf(it *instance, write func(p interface{}) ([]byte, string)) (*message, string, error) {
	for attempt := 0; ; attempt++ {
		it.nonil = attempt == 1
		m, msg, err := observe(it, it.build(), write)
		if err != nil {
			return nil, "", err
		}
		if msg != "" {
			if attempt == 0 {
				stats.nilFallback[it.pt.name]++
				continue
			}
			return nil, msg, nil
		}
		return m, "", nil
	}
}

func (m *message) event(ev string) core.Ev {
	mode := "direct"
	if m.it.pt.reg {
		mode = "reg"
	}
	e := core.Ev{"ev": ev, "type": m.it.pt.name, "code": int(m.it.pt.code), "mode": mode, "hdr": m.it.pt.hdr,
		"w": m.w, "wd": m.wd, "sib": m.sib, "carried": m.carried, "bytes": core.Cp(m.bytes), "perm": m.perm}
	if len(m.wdel) > 0 {
		e["wdel"] = m.wdel
	}
	return e
}

// an item of a container: its bytes are not needed again
func (m *message) itemEvent() core.Ev {
	ev := m.event("Item")
	ev["bytes"] = core.Bytes{}
	return ev
}

// roundTrip: Enc, Dec, ReEnc events of one populated pack.
func roundTrip(c *core.Ctx, t *core.Trace, pt *ptype, seed int64, wide int) error {
	m, msg, err := makeMessage(pt, seed, 1, wide, nil)
	if err != nil {
		return err
	}
	if msg != "" {
		t.Emit(core.Ev{"ev": "Panic", "in": "Write", "type": pt.name, "msg": msg})
		return nil
	}
	t.Emit(m.event("Enc"))
	if _, ok := decEvents(t.Emit, pt, m.bytes, m.bytes); !ok {
		return nil
	}
	c.Count(fmt.Sprintf("%s:%d:%d", pt.name, len(m.bytes), len(m.carried)), len(m.carried) > 0)
	return nil
}

// decEvents: the Dec and ReEnc events for the encoding `in` (what the reader is
// given now; orig = what the writer returned when it was made).  Returns the
// decoded object.
func decEvents(emit func(core.Ev), pt *ptype, in, orig []byte) (interface{}, bool) {
	q, consumed, msg := decode(pt, in)
	if msg != "" {
		emit(core.Ev{"ev": "Panic", "in": "Read", "type": pt.name, "msg": msg})
		return nil, false
	}
	// written again by a second, untouched decoded copy (a writer may complete the pack it
	// writes, looking at a lazily decoded section changes its representation)
	qb, _, msg := decode(pt, in)
	if msg != "" {
		emit(core.Ev{"ev": "Panic", "in": "Read(2)", "type": pt.name, "msg": msg})
		return nil, false
	}
	re, msg := encode(pt, qb)
	if msg != "" {
		emit(core.Ev{"ev": "Panic", "in": "Write(decoded)", "type": pt.name, "msg": msg})
		return nil, false
	}
	var rsnap map[string]interface{}
	hasPrep := false
	if msg := core.Guard(func() { hasPrep = prep(q); rsnap = snapshotOf(q) }); msg != "" {
		emit(core.Ev{"ev": "Panic", "in": "project(decoded)", "type": pt.name, "msg": msg})
		return nil, false
	}
	emit(core.Ev{"ev": "Dec", "rtype": decodedName(pt, q), "r": rsnap, "consumed": consumed})
	ev := core.Ev{"ev": "ReEnc", "re": core.Cp(re)}
	if hasPrep {
		rep, msg := encode(pt, q)
		if msg != "" {
			emit(core.Ev{"ev": "Panic", "in": "Write(decoded, unpacked)", "type": pt.name, "msg": msg})
			return nil, false
		}
		ev["rep"] = core.Cp(rep)
	}
	if !bytes.Equal(re, orig) {
		// second generation: is the reader's normal form stable?
		if q2, _, msg := decode(pt, re); msg == "" {
			if re2, msg := encode(pt, q2); msg == "" {
				ev["re2"] = core.Cp(re2)
			}
		}
	}
	emit(ev)
	return q, true
}

// the concrete type of a decoded object, with the variant of its type entry
func decodedName(pt *ptype, q interface{}) string {
	n := typeName(q)
	if i := strings.IndexByte(pt.name, '#'); i >= 0 && n == pt.name[:i] {
		return pt.name
	}
	return n
}

func runCodec(c *core.Ctx) error {
	if !c.WantGen("codec") {
		return nil
	}
	per := c.Pick(24, 300)
	chunk := c.Pick(320, 1000) // histories per trace file (one TLC start each; the files are validated in parallel)
	var t *core.Trace
	inFile := 0
	for ti, pt := range ptypes {
		for i := 0; i < per; i++ {
			cas := ti*1000 + i
			if !c.Want("codec", cas) {
				continue
			}
			if t == nil || inFile >= chunk {
				t = c.Trace(fmt.Sprintf("c03_codec_%03d", cas/1000), "Trace_PackCodec")
				inFile = 0
			}
			inFile++
			t.Reset("codec", cas, core.Ev{"type": pt.name})
			r := c.Rng("codec", cas)
			// every sixth instance of a type is a wire-boundary instance (the boundaries in turn)
			wide := 0
			if i%6 == 5 {
				wide = i/6 + 1
			}
			if err := roundTrip(c, t, pt, r.Int63(), wide); err != nil {
				return err
			}
			t.Emit(core.Ev{"ev": "End", "n": 1})
			if i == 3 && ti%9 == 0 {
				c.Sample(map[string]interface{}{"gen": "codec", "case": cas, "type": pt.name})
			}
		}
	}
	return nil
}

// ---------------------------------------------------------------- registry

func runRegistry(c *core.Ctx) {
	if !c.WantGen("registry") {
		return
	}
	t := c.Trace("c03_registry", "Trace_PackCodec")
	for cas := 0; cas < 16; cas++ {
		if !c.Want("registry", cas) {
			continue
		}
		t.Reset("registry", cas, nil)
		for blk := 0; blk < 16; blk++ {
			base := -32768 + (cas*16+blk)*256
			codes, types, reports := []int{}, []string{}, []int{}
			for k := 0; k < 256; k++ {
				code := base + k
				var p pack.Pack
				msg := core.Guard(func() { p = pack.CreatePack(int16(code)) })
				codes = append(codes, code)
				switch {
				case msg != "":
					types, reports = append(types, "panic"), append(reports, 0)
				case p == nil || reflect.ValueOf(p).IsNil():
					types, reports = append(types, "nil"), append(reports, code)
				default:
					types, reports = append(types, typeName(p)), append(reports, int(p.GetPackType()))
				}
			}
			t.Emit(core.Ev{"ev": "Create", "codes": codes, "types": types, "reports": reports})
		}
		t.Emit(core.Ev{"ev": "End", "n": 16})
		c.Count(fmt.Sprintf("registry:%d", cas), true)
	}
}

// -------------------------------------------------------------- containers

func gunzip(b []byte) ([]byte, bool) {
	if len(b) < 2 || b[0] != 0x1f || b[1] != 0x8b {
		return nil, false
	}
	zr, err := gzip.NewReader(bytes.NewReader(b))
	if err != nil {
		return nil, false
	}
	out, err := io.ReadAll(zr)
	if err != nil {
		return nil, false
	}
	return out, true
}

func identityOf(p interface{}) map[string]interface{} {
	v := reflect.ValueOf(p).Elem()
	id := map[string]interface{}{}
	for _, f := range []string{"Pcode", "Oid", "Okind", "Onode"} {
		id[f] = core.W8(v.FieldByName(f).Int())
	}
	return id
}

func outOf(items []interface{}) []interface{} {
	out := []interface{}{}
	for _, q := range items {
		prep(q)
		out = append(out, map[string]interface{}{"type": typeName(q), "r": snapshotOf(q)})
	}
	return out
}

// compactOut is outOf for long lists: the distinct projections once (outs) and,
// per position, which of them was returned (outi, 1-based) -- the same
// information as out, without repeating equal records tens of thousands of times.
func compactOut(items []interface{}) (outs []interface{}, outi []int) {
	outs, outi = []interface{}{}, []int{}
	seen := map[string]int{}
	for _, q := range items {
		prep(q)
		o := map[string]interface{}{"type": typeName(q), "r": snapshotOf(q)}
		b, _ := json.Marshal(o)
		k, ok := seen[string(b)]
		if !ok {
			outs = append(outs, o)
			k = len(outs)
			seen[string(b)] = k
		}
		outi = append(outi, k)
	}
	return
}

// emitUnpack records what a decoded container returned (long lists in the compact form).
func emitUnpack(emit func(core.Ev), got []interface{}, where core.Ev) bool {
	ev := core.Ev{"ev": "Unpack"}
	msg := core.Guard(func() {
		if len(got) >= 64 {
			ev["outs"], ev["outi"] = compactOut(got)
		} else {
			ev["out"] = outOf(got)
		}
	})
	if msg != "" {
		p := core.Ev{"ev": "Panic", "in": "project(unpacked)", "msg": msg}
		for k, v := range where {
			p[k] = v
		}
		emit(p)
		return false
	}
	emit(ev)
	return true
}

// Element counts at the boundaries of a 16-bit count cell (gen "counts"): a
// record list travels with an unsigned 16-bit count, the composite with a
// signed one (its limit is 32767).  Long lists are built from a few distinct
// registered items, repeated in a random pattern.
var countsUnsigned = []int{127, 128, 129, 255, 256, 257, 32767, 32768, 32769, 65534, 65535}
var countsSigned = []int{127, 128, 129, 255, 256, 257, 32766, 32767}

// pattern: which of k registered items stands at each of n positions
func pattern(r *rand.Rand, n, k int) []int {
	idx := make([]int, n)
	for i := range idx {
		idx[i] = 1 + r.Intn(k)
	}
	return idx
}

// wire sends a container through the real writer and reader.
func wire(pt *ptype, p interface{}) (interface{}, string) {
	b, msg := encode(pt, p)
	if msg != "" {
		return nil, "Write: " + msg
	}
	q, consumed, msg := decode(pt, b)
	if msg != "" {
		return nil, "Read: " + msg
	}
	if consumed != len(b) {
		return nil, fmt.Sprintf("Read consumed %d of %d", consumed, len(b))
	}
	return q, ""
}

var innerTypes = func() []*ptype {
	var ts []*ptype
	for _, pt := range ptypes {
		if pt.reg {
			ts = append(ts, pt)
		}
	}
	return ts
}()

// a container that was built and is still held by its builder
type built struct {
	kind   string
	name   string // record lists: the pack type
	box    interface{}
	concat []byte // zip kinds: the inner packs one after the other
	n      int
	ev     core.Ev
	rk     *recKind
	how    string
	unset  bool
	got    []interface{} // what unpacking returned
}

// how a history wants its containers built
type buildOpts struct {
	nFixed   int      // >= 0: that many elements, drawn from three registered ones (gen "counts")
	base     int      // items registered earlier in the history (several containers share the store)
	compress bool     // zip kinds: ask for compression (gen "hold")
	minimal  bool     // the items are minimal instances (gen "minimal")
	sparse   bool     // the items are sparse instances (gen "env")
	plan     *minPlan // minimal: the plan of every item (nil: a section drawn per item)
	how      string   // record lists: the setter to use ("" : drawn)
	nonEmpty bool     // at least one element (gen "hold": there must be something to hold on to)
}

// the registered item of a container
func itemMessage(pt *ptype, seed int64, o buildOpts, r *rand.Rand, write func(p interface{}) ([]byte, string)) (*message, string, error) {
	if o.sparse {
		return makeMessageOf(&instance{pt: pt, seed: seed, sparse: true}, write)
	}
	if !o.minimal {
		return makeMessage(pt, seed, 0, 0, write)
	}
	// a minimal instance: one of its sections (in turn by the seed) holds one or two elements, every other none
	d := sectionsOf(pt)
	plan := &minPlan{counts: map[string]int{}}
	if o.plan != nil {
		plan = o.plan
	} else if len(d.seen) > 0 && r.Intn(4) > 0 {
		n := 1 + r.Intn(2)
		if o.nFixed <= 2 && r.Intn(3) == 0 {
			n = 255 // a long section inside a record / an inner pack (only where few of them are built)
		}
		plan = d.planFor(d.seen[r.Intn(len(d.seen))], n)
	}
	return makeMessageOf(&instance{pt: pt, seed: seed, min: plan}, write)
}

// nFixed >= 0: that many inner packs, drawn from three registered ones (gen "counts")
func packHistory(c *core.Ctx, t *core.Trace, kind string, cas int, r *rand.Rand, nFixed int) error {
	b, err := packBuild(t.Emit, kind, r, buildOpts{nFixed: nFixed})
	if err != nil || b == nil {
		return err
	}
	if !boxFinish(t.Emit, b) {
		return nil
	}
	c.Count(fmt.Sprintf("%s:%d:%v:%d", kind, b.n, b.ev["status"], len(b.concat)), b.n > 0)
	return nil
}

// zipView: what the records blob of a zip container holds NOW
func zipView(box interface{}, concat []byte) (status int, gz bool, same bool) {
	var recs []byte
	switch x := box.(type) {
	case *pack.ZipPack:
		status, recs = int(x.Status), x.Records
	case *pack.LogSinkZipPack:
		status, recs = int(x.Status), x.Records
	}
	plain, gz := gunzip(recs)
	if !gz {
		plain = recs
	}
	return status, gz, bytes.Equal(plain, concat)
}

// packBuild registers the inner packs and builds the container through the public API (Item*, Build events).
func packBuild(emit func(core.Ev), kind string, r *rand.Rand, o buildOpts) (*built, error) {
	nFixed := o.nFixed
	n := []int{0, 1, 2, 3, 3, 5}[r.Intn(6)]
	if o.nonEmpty && n == 0 {
		n = 2
	}
	distinct := n
	if nFixed >= 0 {
		n, distinct = nFixed, 3
	}
	var items []pack.Pack
	var concat []byte
	idx := []int{}
	var msgs []*message
	for i := 0; i < distinct; i++ {
		var m *message
		for try := 0; ; try++ {
			pt := innerTypes[r.Intn(len(innerTypes))]
			if kind == "lszip" {
				pt = typeByName("LogSinkPack")
			}
			var msg string
			var err error
			m, msg, err = itemMessage(pt, r.Int63(), o, r, nil)
			if err != nil {
				return nil, err
			}
			if msg != "" {
				emit(core.Ev{"ev": "Panic", "in": "Write(item)", "type": pt.name, "msg": msg})
				return nil, nil
			}
			if nFixed < 0 || len(m.w) <= 40 || try >= 50 {
				break // an item repeated thousands of times is a small one
			}
		}
		emit(m.itemEvent())
		msgs = append(msgs, m)
		if nFixed < 0 {
			// the item itself is handed over unwritten: a fresh copy from the same seed
			items = append(items, m.it.build().(pack.Pack))
			concat = append(concat, m.bytes...)
			idx = append(idx, o.base+i+1)
		}
	}
	if nFixed >= 0 {
		for _, k := range pattern(r, n, distinct) {
			idx = append(idx, o.base+k)
			items = append(items, msgs[k-1].it.build().(pack.Pack))
			concat = append(concat, msgs[k-1].bytes...)
		}
	}
	var box interface{}
	ev := core.Ev{"ev": "Build", "kind": kind, "items": idx, "status0": 0, "minsize": -1, "plainlen": len(concat),
		"status": 0, "gz": false, "same": true}
	var msg string
	switch kind {
	case "composite":
		cp := pack.NewCompositePack()
		(&filler{r: r}).fillStruct(reflect.ValueOf(&cp.AbstractPack).Elem())
		expose(reflect.ValueOf(cp).Elem().FieldByName("pack")).Set(reflect.ValueOf(items))
		box = cp
	case "zip":
		zp := pack.NewZipPack()
		(&filler{r: r}).fillStruct(reflect.ValueOf(&zp.AbstractPack).Elem())
		setHeaderForm(r, zp)
		msg = core.Guard(func() {
			zp.SetRecords(items)
			if len(zp.Records) > 0 && (r.Intn(2) == 0 || o.compress) { // what the log-sink sender does before sending a non-empty buffer (ZipSendProxyThread.doZip)
				min := []int{0, len(zp.Records), len(zp.Records) + 1}[r.Intn(3)]
				if o.compress {
					min = 0
				}
				ev["minsize"] = min
				if zp.Status == 0 && len(zp.Records) >= min {
					zp.Status = pack.ZIPPED
					z, err := compressutil.DoZip(zp.Records)
					if err != nil {
						panic(err)
					}
					zp.Records = z
				}
			}
		})
		box = zp
		ev["status"], ev["gz"], ev["same"] = zipView(box, concat)
	case "lszip":
		lp := pack.NewLogSinkZipPack()
		(&filler{r: r}).fillStruct(reflect.ValueOf(&lp.AbstractPack).Elem())
		setHeaderForm(r, lp)
		lp.RecordCount = n
		min := []int{0, len(concat), len(concat) + 1, 1 << 20, 1}[r.Intn(5)]
		if o.compress {
			min = []int{0, 1}[r.Intn(2)]
		}
		ev["minsize"] = min
		msg = core.Guard(func() { lp.SetRecords(append([]byte{}, concat...), min) })
		box = lp
		ev["status"], ev["gz"], ev["same"] = zipView(box, concat)
	}
	if msg != "" {
		emit(core.Ev{"ev": "Panic", "in": "SetRecords", "kind": kind, "msg": msg})
		return nil, nil
	}
	ev["id"] = identityOf(box)
	emit(ev)
	return &built{kind: kind, box: box, concat: concat, n: n, ev: ev}, nil
}

// boxFinish sends a built container over the wire and unpacks the decoded one (Unpack event).
func boxFinish(emit func(core.Ev), b *built) bool {
	if b.rk != nil {
		return recsFinish(emit, b)
	}
	kind := b.kind
	q, msg := wire(typeOfPack(b.box), b.box)
	if msg != "" {
		emit(core.Ev{"ev": "Panic", "in": "wire", "kind": kind, "msg": msg})
		return false
	}
	var got []interface{}
	msg = core.Guard(func() {
		switch x := q.(type) {
		case *pack.CompositePack:
			f := expose(reflect.ValueOf(x).Elem().FieldByName("pack"))
			for i := 0; i < f.Len(); i++ {
				got = append(got, f.Index(i).Interface())
			}
		case *pack.ZipPack:
			for _, p := range x.GetRecords() {
				got = append(got, p)
			}
		case *pack.LogSinkZipPack:
			for _, p := range x.GetRecords() {
				got = append(got, p)
			}
		}
	})
	if msg != "" {
		emit(core.Ev{"ev": "Panic", "in": "GetRecords", "kind": kind, "msg": msg})
		return false
	}
	b.got = got
	return emitUnpack(emit, got, core.Ev{"kind": kind})
}

// ------------------------------------------------------------ record lists

type sliceEnum struct {
	items []interface{}
	i     int
}

func (e *sliceEnum) HasMoreElements() bool { return e.i < len(e.items) }
func (e *sliceEnum) NextElement() interface{} {
	x := e.items[e.i]
	e.i++
	return x
}

type recKind struct {
	name    string // pack type
	rec     string // record type
	mkPack  func(r *rand.Rand) interface{}
	mkRec   func() interface{}
	setters []string
	set     func(p interface{}, how string, items []interface{})
	get     func(p interface{}) []interface{}
}

func listOf(items []interface{}) *list.List {
	l := list.New()
	for _, x := range items {
		l.PushBack(x)
	}
	return l
}

func fromList(l *list.List) []interface{} {
	out := []interface{}{}
	if l == nil {
		return out
	}
	for e := l.Front(); e != nil; e = e.Next() {
		out = append(out, e.Value)
	}
	return out
}

func txVersion(r *rand.Rand) byte { return []byte{2, 3, 4, 4, 5, 255}[r.Intn(6)] }

var recKinds = []*recKind{
	{name: "StatSqlPack", rec: "SqlRec", mkPack: func(*rand.Rand) interface{} { return pack.NewStatSqlPack() },
		mkRec: func() interface{} { return pack.NewSqlRec() }, setters: []string{"enum", "list"},
		set: func(p interface{}, how string, items []interface{}) {
			if how == "enum" {
				p.(*pack.StatSqlPack).SetRecords(len(items), &sliceEnum{items: items})
			} else {
				p.(*pack.StatSqlPack).SetRecordsList(listOf(items))
			}
		},
		get: func(p interface{}) []interface{} { return fromList(p.(*pack.StatSqlPack).GetRecords()) }},
	{name: "StatHttpcPack", rec: "HttpcRec", mkPack: func(*rand.Rand) interface{} { return pack.NewStatHttpcPack() },
		mkRec: func() interface{} { return pack.NewHttpcRec() }, setters: []string{"enum", "list"},
		set: func(p interface{}, how string, items []interface{}) {
			if how == "enum" {
				p.(*pack.StatHttpcPack).SetRecords(len(items), &sliceEnum{items: items})
			} else {
				p.(*pack.StatHttpcPack).SetRecordsList(listOf(items))
			}
		},
		get: func(p interface{}) []interface{} { return fromList(p.(*pack.StatHttpcPack).GetRecords()) }},
	{name: "StatErrorPack", rec: "ErrorRec", mkPack: func(*rand.Rand) interface{} { return pack.NewStatErrorPack() },
		mkRec: func() interface{} { return pack.NewErrorRec() }, setters: []string{"enum", "array"},
		set: func(p interface{}, how string, items []interface{}) {
			if how == "enum" {
				p.(*pack.StatErrorPack).SetRecords(len(items), &sliceEnum{items: items})
			} else {
				a := make([]*pack.ErrorRec, len(items))
				for i, x := range items {
					a[i] = x.(*pack.ErrorRec)
				}
				p.(*pack.StatErrorPack).SetRecordsArray(a)
			}
		},
		get: func(p interface{}) []interface{} {
			out := []interface{}{}
			for _, x := range p.(*pack.StatErrorPack).GetRecords() {
				out = append(out, x)
			}
			return out
		}},
	{name: "StatTransactionPack", rec: "TransactionRec",
		mkPack: func(r *rand.Rand) interface{} { p := pack.NewStatTransactionPack(); p.Version = txVersion(r); return p },
		mkRec:  func() interface{} { return pack.NewTransactionRec() }, setters: []string{"enum", "list"},
		set: func(p interface{}, how string, items []interface{}) {
			if how == "enum" {
				p.(*pack.StatTransactionPack).SetRecords(len(items), &sliceEnum{items: items})
			} else {
				p.(*pack.StatTransactionPack).SetRecordsList(listOf(items))
			}
		},
		get: func(p interface{}) []interface{} { return fromList(p.(*pack.StatTransactionPack).GetRecords()) }},
	{name: "StatTransactionPack1", rec: "TransactionRec",
		mkPack: func(r *rand.Rand) interface{} {
			p := pack.NewStatTransactionPack1()
			p.Version = txVersion(r)
			return p
		},
		mkRec: func() interface{} { return pack.NewTransactionRec() }, setters: []string{"enum", "list"},
		set: func(p interface{}, how string, items []interface{}) {
			if how == "enum" {
				p.(*pack.StatTransactionPack1).SetRecords(len(items), &sliceEnum{items: items})
			} else {
				p.(*pack.StatTransactionPack1).SetRecordsList(listOf(items))
			}
		},
		get: func(p interface{}) []interface{} { return fromList(p.(*pack.StatTransactionPack1).GetRecords()) }},
	{name: "StatServicePack", rec: "ServiceRec", mkPack: func(*rand.Rand) interface{} { return pack.NewStatServicePack() },
		mkRec: func() interface{} { return pack.NewServiceRec() }, setters: []string{"enum"},
		set: func(p interface{}, how string, items []interface{}) {
			p.(*pack.StatServicePack).SetRecords(len(items), &sliceEnum{items: items})
		},
		// the pack has no GetRecords; its record reader is the exported ReadRec over the 16-bit count
		get: func(p interface{}) []interface{} {
			out := []interface{}{}
			b := p.(*pack.StatServicePack).Records
			if len(b) == 0 {
				return out
			}
			in := gio.NewDataInputX(b)
			n := int(in.ReadShort()) & 0xffff
			for i := 0; i < n; i++ {
				out = append(out, pack.ReadRec(in))
			}
			return out
		}},
	{name: "SMDownCheckPack", rec: "DownCheckRec", mkPack: func(*rand.Rand) interface{} { return pack.NewSMDownCheckPack() },
		mkRec: func() interface{} { return &pack.DownCheckRec{} }, setters: []string{"array"},
		set: func(p interface{}, how string, items []interface{}) {
			a := make([]*pack.DownCheckRec, len(items))
			for i, x := range items {
				a[i] = x.(*pack.DownCheckRec)
			}
			p.(*pack.SMDownCheckPack).SetRecords(a)
		},
		get: func(p interface{}) []interface{} {
			out := []interface{}{}
			for _, x := range p.(*pack.SMDownCheckPack).GetRecords() {
				out = append(out, x)
			}
			return out
		}},
}

// nFixed >= 0: that many records, drawn from three registered ones (gen "counts")
func recsHistory(c *core.Ctx, t *core.Trace, rk *recKind, cas int, r *rand.Rand, nFixed int) error {
	b, err := recsBuild(t.Emit, rk, cas, r, buildOpts{nFixed: nFixed})
	if err != nil || b == nil {
		return err
	}
	if !boxFinish(t.Emit, b) {
		return nil
	}
	c.Count(fmt.Sprintf("recs:%s:%s:%d:%v", rk.name, b.how, b.n, b.unset), b.n > 0)
	return nil
}

// recsBuild registers the records and builds the record-list pack through a public setter (Item*, Build events).
func recsBuild(emit func(core.Ev), rk *recKind, cas int, r *rand.Rand, o buildOpts) (*built, error) {
	nFixed := o.nFixed
	how := rk.setters[r.Intn(len(rk.setters))]
	for _, x := range rk.setters {
		if x == o.how {
			how = x
		}
	}
	n := []int{0, 0, 1, 2, 3, 4, 7}[r.Intn(7)]
	unset := n == 0 && r.Intn(2) == 0 // a pack whose records were never set
	if o.nonEmpty && n == 0 {
		n, unset = 2, false
	}
	if nFixed < 0 && cas%1000 == 0 && n == 0 {
		n, unset = 2, false // the first history of a pack type always holds records (the binding self-test corrupts its item list)
	}
	distinct := n
	if nFixed >= 0 {
		n, distinct, unset = nFixed, 3, false
	}
	box := rk.mkPack(r)
	(&filler{r: r}).fillStruct(reflect.ValueOf(box).Elem().FieldByName("AbstractPack"))
	ver := reflect.ValueOf(box).Elem().FieldByName("Version")
	recType := &ptype{name: rk.rec, mk: rk.mkRec}
	// the writer of one record: the record blob a fresh pack of the same version builds from it
	writeRec := func(p interface{}) ([]byte, string) {
		var b []byte
		msg := core.Guard(func() {
			tmp := rk.mkPack(rand.New(rand.NewSource(1)))
			if ver.IsValid() {
				reflect.ValueOf(tmp).Elem().FieldByName("Version").Set(ver)
			}
			rk.set(tmp, how, []interface{}{p})
			b = append([]byte{}, reflect.ValueOf(tmp).Elem().FieldByName("Records").Bytes()...)
		})
		return b, msg
	}
	var items []interface{}
	idx := []int{}
	var msgs []*message
	for i := 0; i < distinct; i++ {
		m, msg, err := itemMessage(recType, r.Int63(), o, r, writeRec)
		if err != nil {
			return nil, err
		}
		if msg != "" {
			emit(core.Ev{"ev": "Panic", "in": "SetRecords(item)", "type": rk.name, "how": how, "msg": msg})
			return nil, nil
		}
		emit(m.itemEvent())
		msgs = append(msgs, m)
		if nFixed < 0 {
			items = append(items, m.it.build())
			idx = append(idx, o.base+i+1)
		}
	}
	if nFixed >= 0 {
		for _, k := range pattern(r, n, distinct) {
			idx = append(idx, o.base+k)
			items = append(items, msgs[k-1].it.build())
		}
	}
	if !unset {
		if msg := core.Guard(func() { rk.set(box, how, items) }); msg != "" {
			emit(core.Ev{"ev": "Panic", "in": "SetRecords", "type": rk.name, "how": how, "msg": msg})
			return nil, nil
		}
	}
	zero := core.W8(0)
	ev := core.Ev{"ev": "Build", "kind": "records", "pack": rk.name, "how": how, "unset": unset, "items": idx, "status0": 0,
		"minsize": -1, "plainlen": 0, "status": 0, "gz": false, "same": true,
		"id": map[string]interface{}{"Pcode": zero, "Oid": zero, "Okind": zero, "Onode": zero}}
	emit(ev)
	return &built{kind: "records", name: rk.name, box: box, n: n, ev: ev, rk: rk, how: how, unset: unset}, nil
}

func recsFinish(emit func(core.Ev), b *built) bool {
	rk := b.rk
	pt := typeByName(rk.name)
	q, msg := wire(pt, b.box)
	if msg != "" {
		emit(core.Ev{"ev": "Panic", "in": "wire", "type": rk.name, "msg": msg})
		return false
	}
	var got []interface{}
	if msg := core.Guard(func() { got = rk.get(q) }); msg != "" {
		emit(core.Ev{"ev": "Panic", "in": "GetRecords", "type": rk.name, "how": b.how, "unset": b.unset, "msg": msg})
		return false
	}
	b.got = got
	return emitUnpack(emit, got, core.Ev{"type": rk.name})
}

func runContainers(c *core.Ctx, t *core.Trace) error {
	for _, kind := range []string{"composite", "zip", "lszip"} {
		if !c.WantGen(kind) {
			continue
		}
		for cas := 0; cas < c.Pick(30, 400); cas++ {
			if !c.Want(kind, cas) {
				continue
			}
			t.Reset(kind, cas, nil)
			if err := packHistory(c, t, kind, cas, c.Rng(kind, cas), -1); err != nil {
				return err
			}
			t.Emit(core.Ev{"ev": "End", "n": 1})
			if cas == 2 {
				c.Sample(map[string]interface{}{"gen": kind, "case": cas})
			}
		}
	}
	if c.WantGen("recs") {
		per := c.Pick(12, 150)
		for ki, rk := range recKinds {
			for i := 0; i < per; i++ {
				cas := ki*1000 + i
				if !c.Want("recs", cas) {
					continue
				}
				t.Reset("recs", cas, core.Ev{"pack": rk.name})
				if err := recsHistory(c, t, rk, cas, c.Rng("recs", cas), -1); err != nil {
					return err
				}
				t.Emit(core.Ev{"ev": "End", "n": 1})
			}
		}
	}
	return nil
}

// runCounts: gen "counts", case = kind*100 + index into the kind's boundary
// list (kinds 0..6: the record-list packs, 7: the composite pack).  Thorough:
// every boundary of every kind; quick: per kind one short list (127..257) and
// one list beyond the sign bit of the 16-bit count cell (32768..65535).
func runCounts(c *core.Ctx) error {
	if !c.WantGen("counts") {
		return nil
	}
	var t *core.Trace
	for ki := 0; ki <= len(recKinds); ki++ {
		bounds := countsUnsigned
		if ki == len(recKinds) {
			bounds = countsSigned
		}
		pick := c.Rng("counts-pick", ki)
		// (every kind gets a list beyond the sign bit of its 16-bit count cell in every run: a reader
		// that takes the cell as signed is wrong only there, and only for the kind it reads)
		short, long := pick.Intn(6), 7+pick.Intn(2)
		longKind := true
		if ki == len(recKinds) {
			long = 6 + pick.Intn(2)
		}
		for bi, n := range bounds {
			cas := ki*100 + bi
			if !c.Want("counts", cas) {
				continue
			}
			if c.OnlyCase < 0 && !c.Thorough() && bi != short && !(longKind && bi == long) {
				continue
			}
			if t == nil {
				t = c.Trace("c03_counts", "Trace_PackCodec")
			}
			t.Reset("counts", cas, core.Ev{"n": n})
			var err error
			if ki < len(recKinds) {
				err = recsHistory(c, t, recKinds[ki], cas, c.Rng("counts", cas), n)
			} else {
				err = packHistory(c, t, "composite", cas, c.Rng("counts", cas), n)
			}
			if err != nil {
				return err
			}
			t.Emit(core.Ev{"ev": "End", "n": 1})
		}
	}
	return nil
}

// ---------------------------------------------------------------------- run

func Run(c *core.Ctx) error {
	c.Rule = "codec: one history per populated pack: leaves recorded by reflection, written by the real writer (ToBytesPack, or the type's own Write for packs the factory does not know), carried set derived by changing one leaf at a time, read by the real reader over bytes+trailer, written again (non-trivial: at least one carried leaf; distinct by type, encoded length and carried count); " +
		"registry: CreatePack for every 16-bit type code; containers: composite / zip / log-sink zip built from registered inner packs and record-list packs built from registered records through the public setters, sent over the wire, unpacked (non-trivial: at least one item); " +
		"counts: the same containers with an element count at a boundary of the 16-bit count cell (127..257, 32766..65535), built from three registered items repeated in a random pattern"
	c.Rule += "; life: one object of every type written, changed through its public surface (assignable leaves put back to zero / changed, elements added and removed, public mutators), written again, decoded: the carried set of the later write is derived for that state of the object (probes replay its life); " +
		"hold: two or three packs / containers all written (built) before the first is read back (sent and unpacked), the writer's own slice / the records blob / the decoded pack / the unpacked items kept and looked at again after the later calls; " +
		"minimal: per count-prefixed section of every type instances with 1, 2, 255 minimal elements in that section and nothing else, read from exactly the encoding; containers over minimal items; " +
		"env: recorded in a child process whose environment sets every variable golib reads to a non-default value: per type the all-zero instance and sparse instances (every scalar leaf zero with probability 1/2), Enc / Dec / ReEnc; containers and record lists over sparse / minimal items"
	known := map[string]bool{"": true, "codec": true, "registry": true, "composite": true, "zip": true, "lszip": true, "recs": true, "counts": true,
		"life": true, "hold": true, "minimal": true, "env": true}
	if !known[c.OnlyGen] && !strings.HasPrefix(c.OnlyGen, "kf_") {
		return fmt.Errorf("unknown gen %q", c.OnlyGen)
	}
	noShared = c.Args["noshared"] != ""
	for _, id := range strings.Split(c.Args["kf"], "+") {
		if id != "" {
			kf[id] = true
		}
	}
	if c.OnlyGen == "kf_smbase_os" {
		// witness of C03-smbase-os: a base pack of a system the reader has no record types for
		t := c.Trace("c03_kf_smbase_os", "Trace_PackCodec")
		forceOS = otherUnix[len(otherUnix)-1]
		t.Reset("kf_smbase_os", 0, core.Ev{"type": "SMBasePack"})
		if err := roundTrip(c, t, typeByName("SMBasePack"), c.Rng("kf_smbase_os", 0).Int63(), 0); err != nil {
			return err
		}
		t.Emit(core.Ev{"ev": "End", "n": 1})
		return nil
	}
	if done, err := runKfLife(c); done || err != nil {
		return err
	}
	if c.Args["envchild"] != "" {
		return runEnvChild(c)
	}
	runRegistry(c)
	if err := runCodec(c); err != nil {
		return err
	}
	ct := c.Trace("c03_containers", "Trace_PackCodec")
	if err := runContainers(c, ct); err != nil {
		return err
	}
	if err := runCounts(c); err != nil {
		return err
	}
	if err := runLife(c); err != nil {
		return err
	}
	if err := runHold(c); err != nil {
		return err
	}
	if err := runMinimal(c); err != nil {
		return err
	}
	if err := runEnv(c); err != nil {
		return err
	}
	if c.OnlyGen == "" {
		// drift only: the top-level fields each real writer carried in this run
		t := ct
		t.Reset("tops", 0, nil)
		var names []string
		for n := range stats.tops {
			if typeByName(n) != nil {
				names = append(names, n)
			}
		}
		sort.Strings(names)
		for _, n := range names {
			var top []string
			for f := range stats.tops[n] {
				top = append(top, f)
			}
			sort.Strings(top)
			t.Emit(core.Ev{"ev": "Top", "type": n, "top": top})
		}
		t.Emit(core.Ev{"ev": "End", "n": 0})
	}
	c.SetExtra("optional_sections_required_by_writer_information_only", stats.nilFallback)
	c.SetExtra("sensitivity_probes", stats.probes)
	c.SetExtra("shared_copy_probing_abandoned_information_only", stats.sharedAbandoned)
	c.SetExtra("leaves_recorded", stats.leaves)
	c.SetExtra("life_histories_without_twin_information_only", stats.twinless)
	return nil
}
