SPECIFICATION MCSpec
CONSTANTS Mode = "typed"
          Vals = {0, 1, 2}
          MaxLen = 4
          MaxHeld = 0
VIEW View
ACTION_CONSTRAINT DumpT
INVARIANTS TypeOK Bounded GetNeverStale FilterLaws EndsLaw
PROPERTIES Frame AddAppends AddAllAppends SetPoint GrowOnly
CHECK_DEADLOCK FALSE
