SPECIFICATION MCSpec
CONSTANTS Strategy = "rename"
          Granularity = "full"
          Locking = TRUE
          KeepEmpty = TRUE
          StampAt = "stat"
          ObsFanout = "map"
          GoneApply = "split"
          EnvWhen = "absent"
          MaxObs = 0
          Deletes = TRUE
          WriteBacks = FALSE
          MaxSec = 1
          MaxMod = 4
INVARIANTS EventuallyVisible VisibleThroughGetters ObserversNotified DefaultsWhenGone NoTornState NoFatal GettersTotal MergeKeepsOthers CommentsAndOrderSurvive WriteReadBack WriteReadBackMem AtomicOnDisk WriteInstalls
PROPERTY NotifyAfterApply
CHECK_DEADLOCK FALSE
