SPECIFICATION MCSpec
CONSTANTS
  PcodeNs = {0}
  Okinds = {0}
  Onodes = {0, 2}
  BlobIds = {"nil", "one"}
  MaxItems = 2
  Marker = 9
  NoStamp = {}
  Reverse = TRUE
  CellNs = {0, 32768}
  CellRead = "unsigned"
  FreshNs = {0, 7}
  KeepFresh = FALSE
INVARIANTS
  SameType
  CarriedRestored
  ExactConsumption
  ReEncodeIdentical
  ZipLaw
  UnpackLaw
CHECK_DEADLOCK FALSE
