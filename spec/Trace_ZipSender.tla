--------------------------- MODULE Trace_ZipSender --------------------------
(***************************************************************************)
(* Trace validation of the real logsink/zip ZipSendProxyThread against     *)
(* ZipSender (Design = "copy", StopPolicy = "drain", Creation =            *)
(* "defaults": the repaired design).                                       *)
(*                                                                         *)
(* Events (harness/c16).  A record r is [id, time, clen, bytes, ok]: bytes *)
(* = its encoding as the pack layer writes it, ok = FALSE (and no bytes)   *)
(* when the pack layer cannot encode it.  st = the sender's private        *)
(* state read by the goroutine that owns the buffer, at the step:          *)
(* blen (buffer.Len()), count, ft (first time), obs (settings in force),   *)
(* qlen (only when no producer can be running).                            *)
(*   Reset                          new history                            *)
(*   New mode given s ctx obs       creation; ctx = what was passed as     *)
(*                                  context; obs = settings found in force *)
(*   Add r                          a producer is about to call Add(r)     *)
(*   Refused id                     the queue's Failed callback ran for id *)
(*   StopCall via / StopRet         the stop request (own / given cancel   *)
(*                                  function, or the passed context's      *)
(*                                  owner cancels) about to be made / made *)
(*   Tick p                         the harness, having released the worker*)
(*                                  into its timed wait, slept one more    *)
(*                                  full period of p ms and the worker has *)
(*                                  not reported since                     *)
(*   Sync                           the harness holds the worker at its    *)
(*                                  last reported step (nothing since)     *)
(*   StopSeen/Poll st               the select took this branch            *)
(*   Take id st                     the worker dequeued record id          *)
(*   Idle st                        the timed wait expired                 *)
(*   AppendCall r / AppendRet       Append(r) from outside (direct mode)   *)
(*   Append id st                   written and counted, before deciding   *)
(*   Send n status raw payload dec keep   the client received a pack: its  *)
(*                                  RecordCount, Status, Records as they   *)
(*                                  are, Records gunzipped when Status=1,  *)
(*                                  [id, time, clen] of what the golib     *)
(*                                  decoder reads from it; keep = the      *)
(*                                  client retains the pack                *)
(*   Cleared st                     after the reset                        *)
(*   Exit st                        the worker returns                     *)
(*   DirectBegin rs / DirectEnd     SendDirect(rs) called / returned       *)
(*   DirectPanic                    SendDirect(rs) panicked to its caller  *)
(*   Peek i n status raw            pack number i, retained, read again    *)
(*   ApplyConfig g obs              configuration naming the keys of g     *)
(*   End npacks nrefused            end of the history                     *)
(*   Panic / Alien / Hang / Crash   no action: never accepted (Crash: the   *)
(*                                  process died of a panic in a goroutine *)
(*                                  the sender started)                    *)
(*                                                                         *)
(* Event order = order of appends to one mutex-protected log.  Producer    *)
(* events are logged BEFORE the call, worker events AFTER the step, so a   *)
(* record is never seen dequeued before it was added; the stop request is  *)
(* logged around cancel().  The select happened somewhere between the      *)
(* previous worker event (or Sync) and its own event: wsel remembers the   *)
(* stop state then, and the branch must be right for SOME stop state       *)
(* between wsel and now.  The flush decision after an append is not an     *)
(* event: a silent step tries both decisions and the next events tell.     *)
(* The refusal of a record that cannot be encoded is not an event either   *)
(* (no hook is reached): a silent step, and the next event must fit it.    *)
(***************************************************************************)
EXTENDS ZipSender, TraceLib

VARIABLES l,      \* cursor
          wire,   \* Records of every pack as handed over (gzip output is not computed here)
          wsel    \* the stop state at the previous worker event

tvars == <<vars, l, wire, wsel>>

TraceInit == Init /\ l = 1 /\ HwmInit /\ wire = <<>> /\ wsel = "no"

Ev == Trace[l]
Step(e) == IsEv(l, e) /\ l' = l + 1

Rec(x) == [id |-> x.id, time |-> x.time, clen |-> x.clen, bytes |-> x.bytes, ok |-> x.ok]
RECURSIVE Recs(_)
Recs(xs) == IF xs = <<>> THEN <<>> ELSE <<Rec(xs[1])>> \o Recs(Tail(xs))

StopOrd(s) == CASE s = "no" -> 0 [] s = "cancelling" -> 1 [] OTHER -> 2
Between(a, b) == {s \in {"no", "cancelling", "stopping"} : StopOrd(a) <= StopOrd(s) /\ StopOrd(s) <= StopOrd(b)}

\* the private state reported with a worker event equals the specification's after the step
StNoFt(e) == /\ e.st.blen = blen' /\ e.st.count = count' /\ e.st.obs = settings'
             /\ (Has(e.st, "qlen") => e.st.qlen = Len(queue'))
St(e) == StNoFt(e) /\ e.st.ft = firstTime'

Quiet == UNCHANGED <<wire, wsel>>
W     == UNCHANGED wire /\ wsel' = stopped'     \* a worker event

TraceReset ==
  /\ Step("Reset")
  /\ mode' = "none" /\ ctxk' = "none" /\ ticks' = 0 /\ wq0' = FALSE /\ settings' = Defaults /\ configured' = FALSE
  /\ queue' = <<>> /\ accB' = <<>> /\ refused' = {}
  /\ mem' = << <<>> >> /\ blen' = 0 /\ live' = <<>> /\ count' = 0 /\ firstTime' = 0
  /\ wpc' = "off" /\ wcur' = <<>> /\ wret' = "off"
  /\ dactive' = FALSE /\ dq' = <<>> /\ drid' = 0 /\ accD' = <<>>
  /\ emitted' = <<>> /\ stopped' = "no"
  /\ wire' = <<>> /\ wsel' = "no"

TraceNew == /\ Step("New") /\ New(Ev.mode, Ev.given, Ev.s, Ev.ctx) /\ Ev.obs = settings' /\ Quiet

TraceAdd == /\ Step("Add") /\ Add(Rec(Ev.r)) /\ Quiet

TraceRefused == /\ Step("Refused") /\ Ev.id \in refused /\ UNCHANGED vars /\ Quiet

TraceStopCall == Step("StopCall") /\ StopCall(Ev.via) /\ Quiet
TraceStopRet  == Step("StopRet") /\ StopRet /\ Quiet
TraceSync     == Step("Sync") /\ UNCHANGED vars /\ UNCHANGED wire /\ wsel' = stopped

TracePoll     == Step("Poll") /\ (\E s \in Between(wsel, stopped) : WTop(FALSE, s)) /\ St(Ev) /\ W
TraceStopSeen == Step("StopSeen") /\ (\E s \in Between(wsel, stopped) : WTop(TRUE, s)) /\ St(Ev) /\ W

TraceTake == /\ Step("Take") /\ queue # <<>> /\ Head(queue).id = Ev.id /\ WTake /\ St(Ev) /\ W
\* qlen is reported only when no producer can be running: every Add logged so far had returned when the wait began
TraceIdle == /\ Step("Idle") /\ WIdle(Has(Ev.st, "qlen")) /\ St(Ev) /\ W

TraceAppendCall == Step("AppendCall") /\ AppendCall(Rec(Ev.r)) /\ Quiet
TraceAppendRet  == Step("AppendRet") /\ wpc = "off" /\ UNCHANGED vars /\ Quiet

\* a record that cannot be encoded is refused without an event
TraceSkipBad == wpc = "app" /\ l <= NTrace /\ l' = l /\ WRefuse /\ Quiet

TraceAppend ==
  /\ Step("Append") /\ wcur # <<>> /\ wcur[1].id = Ev.id
  /\ WAppend /\ St(Ev) /\ W

\* the decision that follows an append is not an event: both outcomes are tried, the next events tell
TraceDecide ==
  /\ wpc = "dec" /\ l <= NTrace /\ l' = l
  /\ \E fl \in BOOLEAN : WDecide(fl)
  /\ Quiet

\* the pack the client received is the one the specification hands over
PackSeen(e, p) ==
  /\ e.n = p.n
  /\ e.status = (IF p.zipped THEN 1 ELSE 0)
  /\ e.payload = p.snap
  /\ (~p.zipped => e.raw = p.snap)
  /\ e.decok
  /\ e.dec = [i \in 1..Len(p.recs) |-> <<p.recs[i].id, p.recs[i].time, p.recs[i].clen>>]

TraceSend ==
  /\ Step("Send")
  /\ (WSend(Ev.keep) \/ DSend(Ev.keep))
  /\ PackSeen(Ev, emitted'[Len(emitted')])
  /\ wire' = Append(wire, Ev.raw)
  /\ UNCHANGED wsel

TraceCleared == Step("Cleared") /\ WReset /\ St(Ev) /\ W
TraceExit    == Step("Exit") /\ WExit /\ St(Ev) /\ W

TraceDirectBegin == Step("DirectBegin") /\ DirectBegin(Recs(Ev.rs)) /\ Quiet
TraceDirectEnd   == Step("DirectEnd") /\ DirectEnd /\ Quiet
TraceDirectPanic == Step("DirectPanic") /\ DirectAbort /\ Quiet

\* the reference clock: refused when the worker's timed wait has outlasted the slack
TraceTick == Step("Tick") /\ Tick(Ev.p) /\ Quiet

\* a retained pack read again: what the client reads now is what it was handed
TracePeek ==
  /\ Step("Peek")
  /\ Ev.i \in 1..Len(emitted) /\ emitted[Ev.i].kept
  /\ Ev.raw = wire[Ev.i]
  /\ (~emitted[Ev.i].zipped => Ev.raw = Content(emitted[Ev.i]))
  /\ Ev.n = emitted[Ev.i].n
  /\ Ev.status = (IF emitted[Ev.i].zipped THEN 1 ELSE 0)
  /\ UNCHANGED vars /\ Quiet

TraceApplyConfig == Step("ApplyConfig") /\ ApplyConfig(Ev.g) /\ Ev.obs = settings' /\ Quiet

\* end of a history: everybody returned, nothing is left anywhere
TraceEnd ==
  /\ Step("End")
  /\ ~dactive
  /\ mode = "queue" => (wpc = "done" /\ queue = <<>>)
  /\ mode = "direct" => wpc = "off"
  /\ Ev.npacks = Len(emitted)
  /\ Ev.nrefused = Cardinality(refused)
  /\ UNCHANGED vars /\ Quiet

\* Every invariant of ZipSender on the state after the step.  Packs already handed over never change in the
\* specification (emitted only grows), so Decodable is evaluated on the newest pack when there is one; that the
\* buffer region holds the encodings of the records in it is a fact about the specification's own memory
\* (model-checked), and every hand-over compares the real bytes with it.
InvAll ==
  /\ ExactlyOnceInOrder' /\ CountMatches' /\ ZipIff' /\ DefaultsInForce' /\ HandedOverIsImmutable' /\ IdleWaitBounded'
  /\ blen' = SumSize(live')
  /\ Len(emitted') > Len(emitted) => DecodablePack(emitted'[Len(emitted')])

TraceNext ==
  /\ \/ TraceReset \/ TraceNew \/ TraceAdd \/ TraceRefused \/ TraceStopCall \/ TraceStopRet \/ TraceSync
     \/ TracePoll \/ TraceStopSeen \/ TraceTake \/ TraceIdle \/ TraceAppendCall \/ TraceAppendRet \/ TraceAppend
     \/ TraceSend \/ TraceCleared \/ TraceExit \/ TraceDirectBegin \/ TraceDirectEnd \/ TracePeek
     \/ TraceApplyConfig \/ TraceEnd \/ TraceDecide \/ TraceSkipBad \/ TraceDirectPanic \/ TraceTick
  /\ InvAll
  /\ FlushWhenDueStep

TraceSpec == TraceInit /\ [][TraceNext]_tvars

Hwm == HwmNote(l)
TraceAccepted == Accepted
=============================================================================
