------------------------------ MODULE MC_Hashes ------------------------------
(***************************************************************************)
(* C15 on the design.  Two specifications over the same module:            *)
(*  MCSpec   the state machine of Hashes.tla over a small universe of      *)
(*           calls in every order and repetition: the memo only grows,     *)
(*           never changes (Pure), and holds the reference values.         *)
(*  LawSpec  one initial state per probe (a number, a pair of halves, an   *)
(*           address, a byte string ...); the algebraic laws of the        *)
(*           reference operators are invariants evaluated on every probe   *)
(*           (TLC spreads the probes over its workers).                    *)
(* plus ASSUMEs that pin the operators on published constants.             *)
(***************************************************************************)
EXTENDS Hashes, TLC

CONSTANTS Rad,        \* hexa32: all integers within +-Rad of every power of 32
          StrLens,    \* hash laws: lengths of the pattern strings
          NCalls      \* size of the call universe of the state machine

VARIABLE probe
mcvars == <<memo, probe>>

-----------------------------------------------------------------------------
\* published constants
Str123456789 == <<49, 50, 51, 52, 53, 54, 55, 56, 57>>
ASSUME Poly = <<237, 184, 131, 32>>                       \* EDB88320
ASSUME Crc32(Str123456789) = <<203, 244, 57, 38>>         \* the CRC-32 check value CBF43926
ASSUME Crc32(<<>>) = <<0, 0, 0, 0>>
ASSUME CrcTable[0] = <<0, 0, 0, 0>> /\ CrcTable[1] = <<119, 7, 48, 150>>       \* 77073096
ASSUME CrcTable[128] = Poly /\ CrcTable[255] = <<45, 2, 239, 141>>             \* 2D02EF8D
ASSUME \A a, b \in 0..255 : CrcTable[a ^^ b] = XorB(CrcTable[a], CrcTable[b])  \* the table is linear
ASSUME Crc32Lanes(<<>>) = Zeros(8) /\ Crc32Wide64(<<>>) = Zeros(8)
ASSUME M32 = Low(M64, 4)

\* MurmurHash2 (32 bit, C reference) as computed by an independent implementation: libstdc++'s
\* std::_Hash_bytes of a 32-bit build (hash_bytes.cc is Appleby's MurmurHash2); string, seed, value
Vec32 == <<
  <<<<>>, <<0, 0, 0, 0>>, <<0, 0, 0, 0>>>>,
  <<<<>>, <<225, 122, 20, 101>>, <<89, 116, 131, 177>>>>,
  <<<<97>>, <<0, 0, 0, 0>>, <<146, 104, 95, 94>>>>,
  <<<<97>>, <<225, 122, 20, 101>>, <<27, 148, 191, 217>>>>,
  <<<<97, 98>>, <<0, 0, 0, 0>>, <<26, 161, 64, 99>>>>,
  <<<<97, 98>>, <<225, 122, 20, 101>>, <<240, 100, 117, 224>>>>,
  <<<<97, 98, 99>>, <<0, 0, 0, 0>>, <<19, 87, 124, 155>>>>,
  <<<<97, 98, 99>>, <<225, 122, 20, 101>>, <<202, 103, 57, 26>>>>,
  <<<<97, 98, 99, 100>>, <<0, 0, 0, 0>>, <<38, 135, 48, 33>>>>,
  <<<<97, 98, 99, 100>>, <<225, 122, 20, 101>>, <<236, 187, 159, 90>>>>,
  <<<<104, 101, 108, 108, 111, 32, 119, 111, 114, 108, 100>>, <<0, 0, 0, 0>>, <<68, 168, 20, 25>>>>,
  <<<<104, 101, 108, 108, 111, 32, 119, 111, 114, 108, 100>>, <<225, 122, 20, 101>>, <<34, 148, 50, 149>>>>,
  <<<<49, 50, 51, 52, 53, 54, 55, 56, 57>>, <<0, 0, 0, 0>>, <<220, 203, 1, 103>>>>,
  <<<<49, 50, 51, 52, 53, 54, 55, 56, 57>>, <<225, 122, 20, 101>>, <<253, 23, 135, 147>>>>,
  <<<<49, 50, 51, 52, 53, 54, 55>>, <<0, 0, 0, 0>>, <<145, 87, 18, 122>>>>,
  <<<<49, 50, 51, 52, 53, 54, 55>>, <<225, 122, 20, 101>>, <<7, 231, 35, 43>>>>,
  <<<<49, 50, 51, 52, 53, 54, 55, 56>>, <<0, 0, 0, 0>>, <<210, 85, 251, 239>>>>,
  <<<<49, 50, 51, 52, 53, 54, 55, 56>>, <<225, 122, 20, 101>>, <<83, 96, 118, 93>>>>,
  <<<<49, 50, 51, 52, 53, 54, 55, 56>>, <<0, 0, 0, 8>>, <<6, 0, 180, 219>>>>,
  <<<<49, 50, 51, 52, 53, 54, 55, 56, 57, 97, 98, 99, 100, 101, 102>>, <<0, 0, 0, 0>>, <<241, 161, 147, 218>>>>,
  <<<<49, 50, 51, 52, 53, 54, 55, 56, 57, 97, 98, 99, 100, 101, 102>>, <<225, 122, 20, 101>>, <<212, 2, 105, 91>>>>,
  <<<<255, 128, 129, 254, 144, 160, 240>>, <<0, 0, 0, 0>>, <<102, 197, 175, 214>>>>,
  <<<<255, 128, 129, 254, 144, 160, 240>>, <<225, 122, 20, 101>>, <<52, 149, 31, 181>>>>,
  <<<<255, 128>>, <<0, 0, 0, 0>>, <<121, 54, 90, 66>>>>,
  <<<<255, 128>>, <<225, 122, 20, 101>>, <<103, 135, 124, 41>>>>,
  <<<<129, 254, 144, 160, 240>>, <<0, 0, 0, 0>>, <<201, 199, 58, 129>>>>,
  <<<<129, 254, 144, 160, 240>>, <<225, 122, 20, 101>>, <<131, 20, 202, 98>>>> >>
ASSUME \A i \in 1..Len(Vec32) : Murmur32C(Vec32[i][1], Vec32[i][2]) = Vec32[i][3]
\* MurmurHash64A as computed by libstdc++'s std::_Hash_bytes of a 64-bit build
Vec64 == <<
  <<<<>>, <<0, 0, 0, 0>>, <<0, 0, 0, 0, 0, 0, 0, 0>>>>,
  <<<<>>, <<225, 122, 20, 101>>, <<155, 250, 224, 164, 230, 19, 252, 60>>>>,
  <<<<97>>, <<0, 0, 0, 0>>, <<7, 23, 23, 210, 211, 107, 107, 17>>>>,
  <<<<97>>, <<225, 122, 20, 101>>, <<8, 28, 204, 131, 21, 70, 102, 167>>>>,
  <<<<104, 101, 108, 108, 111, 32, 119, 111, 114, 108, 100>>, <<0, 0, 0, 0>>, <<211, 186, 35, 104, 168, 50, 175, 206>>>>,
  <<<<104, 101, 108, 108, 111, 32, 119, 111, 114, 108, 100>>, <<225, 122, 20, 101>>, <<245, 46, 220, 242, 247, 236, 67, 3>>>>,
  <<<<49, 50, 51, 52, 53, 54, 55, 56, 57>>, <<0, 0, 0, 0>>, <<73, 119, 73, 2, 81, 103, 67, 48>>>>,
  <<<<49, 50, 51, 52, 53, 54, 55, 56, 57>>, <<225, 122, 20, 101>>, <<227, 250, 68, 168, 198, 155, 241, 230>>>>,
  <<<<49, 50, 51, 52, 53, 54, 55>>, <<0, 0, 0, 0>>, <<174, 158, 189, 32, 149, 39, 148, 2>>>>,
  <<<<49, 50, 51, 52, 53, 54, 55>>, <<225, 122, 20, 101>>, <<45, 248, 225, 79, 37, 160, 171, 81>>>>,
  <<<<49, 50, 51, 52, 53, 54, 55, 56>>, <<0, 0, 0, 0>>, <<117, 143, 103, 209, 98, 178, 210, 2>>>>,
  <<<<49, 50, 51, 52, 53, 54, 55, 56>>, <<225, 122, 20, 101>>, <<15, 150, 220, 71, 79, 25, 185, 148>>>>,
  <<<<49, 50, 51, 52, 53, 54, 55, 56, 57, 97, 98, 99, 100, 101, 102>>, <<0, 0, 0, 0>>, <<255, 218, 142, 9, 23, 116, 20, 195>>>>,
  <<<<49, 50, 51, 52, 53, 54, 55, 56, 57, 97, 98, 99, 100, 101, 102>>, <<225, 122, 20, 101>>, <<15, 145, 142, 156, 109, 103, 113, 157>>>>,
  <<<<255, 128, 129, 254, 144, 160, 240>>, <<0, 0, 0, 0>>, <<182, 25, 240, 103, 51, 86, 37, 248>>>>,
  <<<<255, 128, 129, 254, 144, 160, 240>>, <<225, 122, 20, 101>>, <<89, 48, 124, 157, 235, 69, 75, 185>>>> >>
ASSUME \A i \in 1..Len(Vec64) : Murmur64(Vec64[i][1], Vec64[i][2]) = Vec64[i][3]
\* golib's pinned test values: HashStr("hello world") = 222957957 (0D4A1185, the CRC-32 of that text)
ASSUME Crc32(<<104, 101, 108, 108, 111, 32, 119, 111, 114, 108, 100>>) = <<13, 74, 17, 133>>

\* byte-limb multiplication against TLC's own integers where those suffice, and its ring laws
Small == {0, 1, 2, 3, 255, 256, 257, 1000, 32767, 46340}
ASSUME \A a, b \in Small : BytesToNat(MulMod(NatToBytes(a, 4), NatToBytes(b, 4))) = a * b
ASSUME \A a, b \in Small : MulMod(NatToBytes(a, 8), NatToBytes(b, 8)) = Zeros(4) \o NatToBytes(a * b, 4)
ASSUME \A a \in Small, m \in {0, 1, 31, 255} :
          MulSmallAdd(NatToBytes(a, 8), m, 200) = Zeros(4) \o NatToBytes(a * m + 200, 4)
Words4 == {<<0, 0, 0, 1>>, <<255, 255, 255, 255>>, <<128, 0, 0, 0>>, M32, <<18, 52, 86, 120>>, <<0, 1, 0, 0>>}
Words8 == {Zeros(7) \o <<1>>, Fill(8, 255), <<128>> \o Zeros(7), M64, <<1, 35, 69, 103, 137, 171, 205, 239>>, <<0, 0, 0, 1, 0, 0, 0, 0>>}
RingLaws(W, one) == \A a, b, c \in W : /\ MulMod(a, b) = MulMod(b, a)
                                       /\ MulMod(a, one) = a
                                       /\ MulMod(MulMod(a, b), c) = MulMod(a, MulMod(b, c))
ASSUME RingLaws(Words4, <<0, 0, 0, 1>>)
ASSUME RingLaws(Words8, Zeros(7) \o <<1>>)
\* (2^32 - 1)^2 = 2^64 - 2^33 + 1;  modulo 2^32 it is 1
ASSUME MulMod(Fill(4, 255), Fill(4, 255)) = <<0, 0, 0, 1>>
ASSUME MulMod(Zeros(4) \o Fill(4, 255), Zeros(4) \o Fill(4, 255)) = <<255, 255, 255, 254, 0, 0, 0, 1>>
ASSUME ShrBits(<<128, 0, 0, 1>>, 13) = <<0, 4, 0, 0>> /\ ShrBits(Fill(8, 255), 47) = <<0, 0, 0, 0, 0, 1, 255, 255>>

-----------------------------------------------------------------------------
\* probes
Pow32(k) == \* 32^k as W8, k in 0..12
  [i \in 1..8 |-> IF 8 - ((5 * k) \div 8) = i THEN 2 ^ ((5 * k) % 8) ELSE 0]
RECURSIVE AddSmall(_, _)      \* w + d for a small integer d (two's complement wrap)
AddSmall(w, d) == IF d = 0 THEN w
                  ELSE IF d > 0 THEN AddSmall(IncFrom(w, Len(w)), d - 1)
                  ELSE AddSmall(NegW(IncFrom(NegW(w), Len(w))), d + 1)
MaxW8 == <<127>> \o Fill(7, 255)
MinW8 == <<128>> \o Zeros(7)
HexaProbes == {AddSmall(Pow32(k), d) : k \in 0..12, d \in (-Rad)..Rad}
         \cup {NegW(AddSmall(Pow32(k), d)) : k \in 0..12, d \in (-Rad)..Rad}
         \cup {AddSmall(MaxW8, -d) : d \in 0..Rad} \cup {AddSmall(MinW8, d) : d \in 0..Rad}
         \cup {<<1, 35, 69, 103, 137, 171, 205, 239>>, <<245, 173, 170, 108, 125, 209, 176, 203>>}   \* the second: -743752992412427445

HalfBytes == {0, 1, 127, 128, 255}
Halves(n) == IF n = 1 THEN {<<a>> : a \in HalfBytes}
             ELSE IF n = 2 THEN {<<a, b>> : a, b \in HalfBytes}
             ELSE {<<a, b, b, c>> : a, c \in HalfBytes, b \in {0, 255}}
BitProbes == UNION {{<<h, w>> : h, w \in Halves(n)} : n \in {1, 2, 4}}

IpProbes == {<<a, b, c, d>> : a, d \in {0, 1, 9, 10, 99, 100, 127, 128, 199, 200, 255}, b, c \in {0, 10, 128, 255}}

Pattern(n, a, b) == [i \in 1..n |-> IF i % 3 = 1 THEN a ELSE IF i % 3 = 2 THEN b ELSE (a + b + i) % 256]
StrProbes == {Pattern(n, a, b) : n \in StrLens, a \in {0, 128, 255}, b \in {1, 127}}

Probes == {[k |-> "hexa", v |-> v] : v \in HexaProbes}
     \cup {[k |-> "bit", v |-> p] : p \in BitProbes}
     \cup {[k |-> "ip", v |-> a] : a \in IpProbes}
     \cup {[k |-> "str", v |-> s] : s \in StrProbes}

-----------------------------------------------------------------------------
\* laws
HexaLaw(v) ==
  LET t == H32Enc(v) IN
    /\ H32Readable(t) /\ H32Canonical(t)
    /\ H32Dec(t) = v                                           \* Dec o Enc = id: Enc is injective
    /\ Len(t) <= 14
    /\ IsNeg(v) <=> t[1] = ZCH                                 \* the three documented forms
    /\ (~IsNeg(v) /\ Len(t) = 1) <=> (v \in {Zeros(7) \o <<d>> : d \in 0..9})
    /\ (~IsNeg(v) /\ Len(t) > 1) => t[1] = XCH
    /\ v = MinW8 => t = MostNegText
    \* a numeral with leading zeros reads as the same number
    /\ Len(t) \in 2..12 => H32Dec(<<t[1], 48, 48>> \o Tail(t)) = v
    \* the successor has the successor numeral: same length and prefix unless a carry runs through
    /\ (v # MinW8 /\ t[Len(t)] \notin {57, 118}) =>
          H32Enc(AddSmall(v, IF IsNeg(v) THEN -1 ELSE 1)) = [t EXCEPT ![Len(t)] = DigitChar(DigitVal(t[Len(t)]) + 1)]

BitLaw(p) ==
  LET h == p[1]  w == p[2]  k == Composite(h, w) IN
    /\ Len(k) = 2 * Len(h)
    /\ GetHigh(k) = h /\ GetLow(k) = w
    /\ Composite(GetHigh(k), GetLow(k)) = k
    /\ \A q \in Halves(Len(h)) :
         /\ SetHigh(k, q) = Composite(q, w) /\ SetLow(k, q) = Composite(h, q)
         /\ GetHigh(SetHigh(k, q)) = q /\ GetLow(SetHigh(k, q)) = w
         /\ GetLow(SetLow(k, q)) = q /\ GetHigh(SetLow(k, q)) = h
         /\ SetHigh(SetLow(k, q), h) = SetLow(SetHigh(k, h), q)

IpLaw(a) ==
  LET t == IpText(a) IN
    /\ IpReadable(t) /\ IpParse(t) = a
    /\ IpFromInt(IpInt(a)) = a
    /\ Len(t) \in 7..15 /\ Cardinality(Dots(t)) = 3
    /\ \A i \in 1..4 : Fields(t)[i] = OctetText(a[i]) /\ (Len(Fields(t)[i]) > 1 => Fields(t)[i][1] # 48)
    \* leading zeros are read
    /\ IpReadable(<<48>> \o t) <=> a[1] < 100
    /\ IpReadable(<<48>> \o t) => IpParse(<<48>> \o t) = a

Flip(s, i) == [s EXCEPT ![i] = (s[i] + 128) % 256]
StrLaw(s) ==
  LET n == Len(s) IN
    \* CRC-32 is affine over GF(2): crc(a) + crc(b) + crc(c) = crc(a + b + c) for equal lengths
    /\ n >= 2 => Crc32(Flip(Flip(s, 1), n)) = XorB(XorB(Crc32(Flip(s, 1)), Crc32(Flip(s, n))), Crc32(s))
    \* a message followed by its own CRC (least significant byte first) has the fixed residue 2144DF1C
    /\ Crc32(s \o Rev(Crc32(s))) = <<33, 68, 223, 28>>
    \* the port's tail rule is the C reference's except when 2 or 3 bytes are left
    /\ n % 4 <= 1 => Murmur32(s, DefaultSeed) = Murmur32C(s, DefaultSeed)
    /\ n = 8 => MurmurLong(Rev(s)) = Murmur32C(s, <<0, 0, 0, 8>>)
    \* low half of the 64-bit polynomial hash = Java's 32-bit register
    /\ Low(Poly31(s), 4) = Poly31J(s)
    \* a changed byte changes every hash (single-byte difference: guaranteed for the CRCs)
    /\ n >= 1 => /\ Crc32(Flip(s, n)) # Crc32(s)
                 /\ Crc32Lanes(Flip(s, n)) # Crc32Lanes(s)
    \* explicit-length entry point: hashing a prefix is hashing the prefix
    /\ RefBytes(s, DefaultSeed, n \div 2).murmur64p = Murmur64(High(s, n \div 2), DefaultSeed)
    /\ RefBytes(s, DefaultSeed, n).murmur64p = RefBytes(s, DefaultSeed, n).murmur64

Law == CASE probe.k = "hexa" -> HexaLaw(probe.v)
         [] probe.k = "bit"  -> BitLaw(probe.v)
         [] probe.k = "ip"   -> IpLaw(probe.v)
         [] probe.k = "str"  -> StrLaw(probe.v)
         [] OTHER -> TRUE

LawInit == memo = <<>> /\ probe \in Probes
LawNext == UNCHANGED mcvars
LawSpec == LawInit /\ [][LawNext]_mcvars

-----------------------------------------------------------------------------
\* the state machine over a small universe of calls (the first NCalls of CallSeq), every
\* order and repetition
NoProbe == [k |-> "none", v |-> <<>>]
S11 == <<1, 2, 3, 4, 5, 6, 7, 8, 9, 10, 255>>
A1  == <<255, 128, 9, 100>>
CallSeq == << <<"bytes", <<S11, <<0, 0, 0, 7>>, <<3>>>>>>,
              <<"hexa", <<MinW8>>>>,
              <<"ip", <<A1>>>>,
              <<"bit", <<A1, Rev(A1), A1 \o A1>>>>,
              <<"long", <<MinW8>>>>,
              <<"hexadec", <<H32Enc(MinW8)>>>>,
              <<"ipparse", <<IpText(A1)>>>>,
              <<"int", <<A1>>>>,
              <<"bit", <<<<255>>, <<128>>, <<9, 100>>>>>>,
              <<"bytes", <<S11, <<0, 0, 0, 7>>, <<11>>>>>>,
              <<"hexa", <<Zeros(7) \o <<10>>>>>>,
              <<"bytes", <<<<>>, <<0, 0, 0, 7>>, <<0>>>>>>,
              <<"hexa", <<Zeros(8)>>>>,
              <<"ip", <<Zeros(4)>>>> >>
Calls == {CallSeq[i] : i \in 1..NCalls}

BitFields(k) == IF Len(k[2][1]) = 4 THEN {"comp", "high", "low", "sethigh", "setlow"} ELSE {"comp", "high", "low"}

Do(k) ==
  CASE k[1] = "bytes"   -> EvalBytes(k[2][1], k[2][2], k[2][3][1], RefBytes(k[2][1], k[2][2], k[2][3][1]))
    [] k[1] = "long"    -> EvalLong(k[2][1], RefLong(k[2][1]))
    [] k[1] = "int"     -> EvalInt(k[2][1], RefInt(k[2][1]))
    [] k[1] = "hexa"    -> EvalHexa(k[2][1], RefHexa(k[2][1]))
    [] k[1] = "hexadec" -> EvalHexaDec(k[2][1], RefHexaDec(k[2][1]))
    [] k[1] = "bit"     -> EvalBit(k[2][1], k[2][2], k[2][3], [f \in BitFields(k) |-> RefBit(k[2][1], k[2][2], k[2][3])[f]])
    [] k[1] = "ip"      -> EvalIp(k[2][1], RefIp(k[2][1]))
    [] k[1] = "ipparse" -> EvalIpParse(k[2][1], RefIpParse(k[2][1]))

MCInit == memo = <<>> /\ probe = NoProbe
\* the caller's own slices: it overwrites one it was handed or had passed (with its complement),
\* or reads the untouched ones of an earlier evaluation again
SliceFields(k) == {"input"} \cup (DOMAIN memo[k] \cap {"parsed", "frint"})
Compl(b) == [i \in 1..Len(b) |-> 255 - b[i]]
DoScribble == \E k \in DOMAIN memo : \E f \in SliceFields(k) :
                Len(SliceOf(k, f)) > 0 /\ Scribble(k, f, SliceOf(k, f), Compl(SliceOf(k, f)))
DoHeld == \E k \in DOMAIN memo : Held(k, [f \in SliceFields(k) |-> SliceOf(k, f)])
MCNext == UNCHANGED probe /\ ((\E k \in Calls : Do(k)) \/ DoScribble \/ DoHeld)
MCSpec == MCInit /\ [][MCNext]_mcvars

\* every memorised value is the reference value of its key
RefOfKey(k) ==
  CASE k[1] = "bytes"   -> RefBytes(k[2][1], k[2][2], k[2][3][1])
    [] k[1] = "long"    -> RefLong(k[2][1])
    [] k[1] = "int"     -> RefInt(k[2][1])
    [] k[1] = "hexa"    -> RefHexa(k[2][1])
    [] k[1] = "hexadec" -> RefHexaDec(k[2][1])
    [] k[1] = "bit"     -> RefBit(k[2][1], k[2][2], k[2][3])
    [] k[1] = "ip"      -> RefIp(k[2][1])
    [] k[1] = "ipparse" -> RefIpParse(k[2][1])
MemoIsRef == \A k \in DOMAIN memo : \A f \in DOMAIN memo[k] : memo[k][f] = RefOfKey(k)[f]
PureMC == [][\A k \in DOMAIN memo : k \in DOMAIN memo' /\ memo'[k] = memo[k]]_mcvars
=============================================================================
