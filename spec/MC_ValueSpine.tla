--------------------------- MODULE MC_ValueSpine ----------------------------
(***************************************************************************)
(* C02 -- the level-by-level judgement of DEEP values (ValueSpine!SpineEnc,*)
(* SpineIsValue, SameSpine; used by Trace_Value's RTd beyond the depth     *)
(* TLC's recursive operators can afford) IS the format of Value.tla:       *)
(* for every spine of at most MaxDepth levels over a family of levels      *)
(* (each container kind, with and without entries before / behind the      *)
(* descending one, one level with a duplicated key) and every bottom value *)
(*   SpineIsValue(sp, x)  <=>  IsValue(Spine(sp, x))                       *)
(*   SpineEnc(sp, x)       =   EncValue(Spine(sp, x))          (if a value)*)
(*   Spine(sp, x) round-trips, re-encodes, is self-delimiting              *)
(*   SameSpine(sp, x, sp2, y) <=> SameValue(Spine(sp, x), Spine(sp2, y))   *)
(*       for sp2 = sp with its first / last level replaced, y any bottom   *)
(* The state is the spine; a step appends a level.                         *)
(***************************************************************************)
EXTENDS ValueSpine, TLC

CONSTANT MaxDepth

VARIABLE sp

A == <<97>>
B == <<>>
N1 == NatW8(5)
N2 == Fill(8, 255)
N3 == NatW8(106)

Lv(t, k, pre, post) == [t |-> t, k |-> k, pre |-> pre, post |-> post]

Levels == << Lv(TList, <<>>, <<>>, <<>>),
             Lv(TList, <<>>, <<VNull>>, <<>>),
             Lv(TList, <<>>, <<>>, <<VText(A), VList(<<>>)>>),
             Lv(TList, <<>>, <<VMap(<< <<A, VNull>> >>)>>, <<VBool(TRUE)>>),
             Lv(TMap, A, <<>>, <<>>),
             Lv(TMap, B, << <<A, VDecimal(N1)>> >>, <<>>),
             Lv(TMap, A, <<>>, << <<B, VList(<<VNull>>)>>, <<<<98>>, VIntMap(<<>>)>> >>),
             Lv(TMap, A, << <<A, VNull>> >>, <<>>),                    \* duplicated key: not a value
             Lv(TIntMap, N1, <<>>, <<>>),
             Lv(TIntMap, N2, << <<N1, VText(B)>> >>, << <<N3, VBlob(A)>> >>),
             Lv(TIntMap, N3, <<>>, << <<N3, VNull>> >>) >>             \* duplicated key

Inners == << VNull, VText(A), VList(<<>>), VMap(<< <<A, VIntArray(<<N1>>)>> >>) >>

SpInit == sp = <<>>
SpNext == Len(sp) < MaxDepth /\ \E i \in 1..Len(Levels) : sp' = Append(sp, Levels[i])
SpSpec == SpInit /\ [][SpNext]_sp

WellFormedSame == \A j \in 1..Len(Inners) : SpineIsValue(sp, Inners[j]) <=> IsValue(Spine(sp, Inners[j]))

EncSame == \A j \in 1..Len(Inners) :
             SpineIsValue(sp, Inners[j]) => \E v \in {Spine(sp, Inners[j])} :
                /\ SpineEnc(sp, Inners[j]) = EncValue(v)
                /\ RoundTrips(v) /\ ReEncodes(v) /\ SelfDelimits(v)
                /\ Depth(v) >= Len(sp) + Depth(Inners[j])

Repl(s, at, L) == [s EXCEPT ![at] = L]
EqSame == sp # <<>> =>
            \A i \in 1..Len(Levels) : \A at \in {1, Len(sp)} : \A j \in 1..Len(Inners) : \A k \in 1..Len(Inners) :
               \E s2 \in {Repl(sp, at, Levels[i])} :
                  SameSpine(sp, Inners[j], s2, Inners[k]) <=> SameValue(Spine(sp, Inners[j]), Spine(s2, Inners[k]))

ASSUME \A i \in 1..Len(Levels) : SpineOK(<<Levels[i]>>)
ASSUME \E i \in 1..Len(Levels) : ~IsValue(LevelValue(Levels[i], VNull))
=============================================================================
