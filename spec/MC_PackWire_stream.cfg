SPECIFICATION MCSpec
CONSTANTS MaxFrames = 2
          Level = "stream"
INVARIANTS Intact Cursor NoStuck HistOK MsgFrame MsgDecodes MsgDelimits MsgPrefixes MsgHeader MsgTagHash MsgStable CounterSkippable
CHECK_DEADLOCK FALSE
