SPECIFICATION TraceSpec
CONSTANTS AsIsMaps = FALSE
CONSTRAINT Hwm
POSTCONDITION TraceAccepted
CHECK_DEADLOCK FALSE
