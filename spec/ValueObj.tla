----------------------------- MODULE ValueObj -------------------------------
(***************************************************************************)
(* C02 -- ONE tagged value OBJECT over its life: it is built, written,     *)
(* changed through the public mutators of the value types (on the object   *)
(* itself or on a child obtained from it, at any depth), and written       *)
(* again.  Every write is judged against the content of THAT moment: the   *)
(* property speaks about "every value ... when written", and a value that  *)
(* has been changed since its last write is as much a value as a fresh one.*)
(*                                                                         *)
(* `cur` is the content of the live object as the calls made so far define *)
(* it (the harness reports calls and arguments only); the codec variables  *)
(* of ValueCodec hold the last write / read back / re-encode of it.        *)
(*                                                                         *)
(* Mutators (op, arguments), by the type of the node they are called on:   *)
(*   list     Add v | AddString s | AddLong w | Set i v | Clear | Read v   *)
(*   map      Put k v | PutString k s | PutLong k w | PutAll v | NewList k *)
(*            | Clear | Read v                                             *)
(*   int map  Put k v | PutString k s | PutLong k w | NewList k | Clear    *)
(*            | Read v                                                     *)
(*   others   SetVal v (the exported payload field(s) are assigned)        *)
(*            | SetElem i x (one element of the exported slice, in place)  *)
(*            | Read v (the body of a value of the same type is read into  *)
(*              the object)                                                *)
(* Put on a key that exists replaces its value IN PLACE (insertion order   *)
(* is the order of the first Put); PutAll is Put of every entry of the     *)
(* argument in its order; NewList k is Put(k, empty list); AddString /     *)
(* PutString store a text, AddLong / PutLong a decimal.  Read into a       *)
(* CONTAINER is only specified for an empty one (what reading into a used  *)
(* container means is outside the property: golib merges maps and keeps a  *)
(* list when the input list is empty).                                     *)
(*                                                                         *)
(* A path is a sequence of steps from the root: [i |-> index] into a list  *)
(* (1-based), [k |-> key] into a map (key bytes) or int map (W8 key).      *)
(***************************************************************************)
EXTENDS ValueCodec

VARIABLES cur,     \* content of the live object; <<>> before New
          nw,      \* number of writes of the object so far
          fresh    \* no mutator has been called since the last write

ovars == <<vars, cur, nw, fresh>>

ObjInit == Init /\ cur = <<>> /\ nw = 0 /\ fresh = FALSE

Has_(e, f) == f \in DOMAIN e

\* ---- navigation -----------------------------------------------------------
\* position of the entry with key k in a sequence of pairs, 0 if there is none
KeyPos(pairs, k) == IF \E j \in 1..Len(pairs) : pairs[j][1] = k
                    THEN CHOOSE j \in 1..Len(pairs) : pairs[j][1] = k
                    ELSE 0

\* position of the child that step st selects in container x, 0 if there is none
StepPos(x, st) ==
  IF x.t = TList THEN (IF Has_(st, "i") /\ st.i \in 1..Len(x.v) THEN st.i ELSE 0)
  ELSE IF x.t \in {TMap, TIntMap} THEN (IF Has_(st, "k") THEN KeyPos(x.v, st.k) ELSE 0)
  ELSE 0

ChildAt(x, p) == IF x.t = TList THEN x.v[p] ELSE x.v[p][2]

RECURSIVE PathOK(_, _, _), NodeAt(_, _, _)
\* (IF, not \/: inside an action TLC evaluates both sides of a disjunction)
PathOK(x, path, d) == IF d > Len(path) THEN TRUE
                      ELSE \E p \in {StepPos(x, path[d])} : p > 0 /\ PathOK(ChildAt(x, p), path, d + 1)
NodeAt(x, path, d) == IF d > Len(path) THEN x
                      ELSE NodeAt(ChildAt(x, StepPos(x, path[d])), path, d + 1)

\* ---- the mutators -----------------------------------------------------------
PutPair(pairs, k, v) ==
  IF KeyPos(pairs, k) > 0
  THEN [j \in 1..Len(pairs) |-> IF pairs[j][1] = k THEN <<k, v>> ELSE pairs[j]]
  ELSE Append(pairs, <<k, v>>)

RECURSIVE PutAllPairs(_, _, _)
PutAllPairs(pairs, src, j) == IF j > Len(src) THEN pairs
                              ELSE PutAllPairs(PutPair(pairs, src[j][1], src[j][2]), src, j + 1)

KeyFits(x, k) == IF x.t = TMap THEN IsBytes(k) ELSE IsI32(k)

ElemOK(t, x) == CASE t \in {TBlob, TIP4} -> x \in Byte
                  [] t = TIntArray -> IsI32(x)
                  [] t = TLongArray -> IsW8(x)
                  [] t = TFloatArray -> IsBn(x, 4)
                  [] t = TTextArray -> IsBytes(x)
                  [] OTHER -> FALSE

\* is o a call the node x has, with well-formed arguments?
OpOK(x, o) ==
  /\ Has_(o, "op")
  /\ LET isMap == x.t \in {TMap, TIntMap}
         leaf  == x.t \notin ContainerCodes
     IN CASE o.op = "Add"       -> x.t = TList /\ Has_(o, "v") /\ IsValue(o.v)
          [] o.op = "AddString" -> x.t = TList /\ Has_(o, "s") /\ IsBytes(o.s)
          [] o.op = "AddLong"   -> x.t = TList /\ Has_(o, "w") /\ IsW8(o.w)
          [] o.op = "Set"       -> x.t = TList /\ Has_(o, "i") /\ o.i \in 1..Len(x.v) /\ Has_(o, "v") /\ IsValue(o.v)
          [] o.op = "Put"       -> isMap /\ Has_(o, "k") /\ KeyFits(x, o.k) /\ Has_(o, "v") /\ IsValue(o.v)
          [] o.op = "PutString" -> isMap /\ Has_(o, "k") /\ KeyFits(x, o.k) /\ Has_(o, "s") /\ IsBytes(o.s)
          [] o.op = "PutLong"   -> isMap /\ Has_(o, "k") /\ KeyFits(x, o.k) /\ Has_(o, "w") /\ IsW8(o.w)
          [] o.op = "NewList"   -> isMap /\ Has_(o, "k") /\ KeyFits(x, o.k)
          [] o.op = "PutAll"    -> x.t = TMap /\ Has_(o, "v") /\ IsValue(o.v) /\ o.v.t = TMap
          [] o.op = "Clear"     -> ~leaf
          [] o.op = "Read"      -> Has_(o, "v") /\ IsValue(o.v) /\ o.v.t = x.t /\ (IF leaf THEN TRUE ELSE x.v = <<>>)
          [] o.op = "SetVal"    -> leaf /\ Has_(o, "v") /\ IsValue(o.v) /\ o.v.t = x.t
          [] o.op = "SetElem"   -> leaf /\ Has_(o, "i") /\ Has_(o, "x") /\ ElemOK(x.t, o.x)
                                   /\ x.t \in {TBlob, TIP4} \cup ArrayCodes /\ o.i \in 1..Len(x.v)
          [] OTHER -> FALSE

\* the node after the call
ApplyOp(x, o) ==
  CASE o.op = "Add"       -> Val(TList, Append(x.v, o.v))
    [] o.op = "AddString" -> Val(TList, Append(x.v, VText(o.s)))
    [] o.op = "AddLong"   -> Val(TList, Append(x.v, VDecimal(o.w)))
    [] o.op = "Set"       -> Val(TList, [x.v EXCEPT ![o.i] = o.v])
    [] o.op = "Put"       -> Val(x.t, PutPair(x.v, o.k, o.v))
    [] o.op = "PutString" -> Val(x.t, PutPair(x.v, o.k, VText(o.s)))
    [] o.op = "PutLong"   -> Val(x.t, PutPair(x.v, o.k, VDecimal(o.w)))
    [] o.op = "NewList"   -> Val(x.t, PutPair(x.v, o.k, VList(<<>>)))
    [] o.op = "PutAll"    -> Val(x.t, PutAllPairs(x.v, o.v.v, 1))
    [] o.op = "Clear"     -> Val(x.t, <<>>)
    [] o.op = "Read"      -> o.v
    [] o.op = "SetVal"    -> o.v
    [] o.op = "SetElem"   -> Val(x.t, [x.v EXCEPT ![o.i] = o.x])

\* the root after the call was made on the node at path (everything off the path is untouched)
RECURSIVE Upd(_, _, _, _)
Upd(x, path, d, o) ==
  IF d > Len(path) THEN ApplyOp(x, o)
  ELSE \* bound by value: the position is looked up once
       Bind(StepPos(x, path[d]), LAMBDA p :
         IF x.t = TList
         THEN Val(TList, [x.v EXCEPT ![p] = Upd(x.v[p], path, d + 1, o)])
         ELSE Val(x.t, [x.v EXCEPT ![p] = <<x.v[p][1], Upd(x.v[p][2], path, d + 1, o)>>]))

\* ---- actions ------------------------------------------------------------------
\* the object is built through the public constructors
New(v) == /\ cur = <<>>
          /\ IsValue(v) = TRUE
          /\ cur' = v /\ nw' = 0 /\ fresh' = FALSE
          /\ UNCHANGED vars

\* one public mutator is called on the node at path
Mut(path, o) == /\ cur # <<>>
                /\ PathOK(cur, path, 1) = TRUE
                /\ OpOK(NodeAt(cur, path, 1), o) = TRUE
                /\ cur' = Upd(cur, path, 1, o)
                /\ fresh' = FALSE
                /\ UNCHANGED <<vars, nw>>

\* WriteValue(fresh output, the object); the bytes are read back and the decoded value re-encoded
WriteObj == /\ cur # <<>>
            /\ RT(cur)
            /\ nw' = nw + 1 /\ fresh' = TRUE
            /\ UNCHANGED cur

\* the program goes on with the object it read back instead of the one it wrote
Adopt == /\ fresh /\ Len(backs) = 1
         /\ SameValue(backs[1], cur) = TRUE
         /\ UNCHANGED ovars

\* ---- read-only calls ------------------------------------------------------------
\* Every public method of a value type that is NOT a mutator: the type code, sizes and
\* membership tests, the getters, the key enumeration, the textual form, Write / WriteValue of
\* the node into a fresh output, and Equals / CompareTo against another value.  A read-only
\* call returns what the content of that moment defines (where the value model defines it)
\* and leaves the content -- including the ORDER of map entries and list items -- as it was:
\* the object is "a value ... when written" after the call exactly as before it.
\*   o.op   arguments                       result o.r
\*   GetValueType                           type code
\*   Size / IsEmpty                         number of items / entries; is it 0
\*   ContainsKey k                          BOOLEAN
\*   Get i | k                              [nil |-> TRUE] or [v |-> the child]
\*   GetString / GetBool / GetLong / GetFloat i | k   the payload of the child if it is a text /
\*                                          boolean / decimal / float, else "" / FALSE / 0 / 0.0
\*   Keys                                   the keys in entry order
\*   Write / WriteValue                     the bytes: body / tagged value of the node
\*   GetCount, Sum, Min, Max                (summaries, in their own number type) the field
\*   ToString / String / Avg ...            (not defined by the value model: not compared)
\*   Equals / CompareTo  with               with = "self" | "node" (path2: another node of the
\*                                          same object) | "value" (arg: the argument before the
\*                                          call, after: the argument as its getters show it
\*                                          after the call -- a comparison changes neither side)
LookOps == {"GetValueType", "Size", "IsEmpty", "ContainsKey", "Get", "GetString", "GetBool", "GetLong", "GetFloat", "Keys",
            "Write", "WriteValue", "GetCount", "Sum", "Min", "Max", "Other", "Equals", "CompareTo"}

\* position of the child the call's argument selects (0: none)
LookPos(x, o) == IF x.t = TList THEN (IF Has_(o, "i") /\ o.i \in 1..Len(x.v) THEN o.i ELSE 0)
                 ELSE IF Has_(o, "k") THEN KeyPos(x.v, o.k) ELSE 0

ChildIs(x, o, t) == LookPos(x, o) > 0 /\ ChildAt(x, LookPos(x, o)).t = t
ChildPay(x, o) == ChildAt(x, LookPos(x, o)).v

LookSees(x, o, root) ==
  /\ Has_(o, "op") /\ o.op \in LookOps
  /\ LET isMap == x.t \in {TMap, TIntMap}
         cont  == x.t \in ContainerCodes
         keyed == (x.t = TList /\ Has_(o, "i") /\ o.i \in 1..Len(x.v)) \/ (isMap /\ Has_(o, "k") /\ KeyFits(x, o.k))
     IN CASE o.op = "GetValueType" -> Has_(o, "r") /\ o.r = x.t
          [] o.op = "Size"         -> cont /\ Has_(o, "r") /\ o.r = Len(x.v)
          [] o.op = "IsEmpty"      -> x.t = TMap /\ Has_(o, "r") /\ o.r = (Len(x.v) = 0)
          [] o.op = "ContainsKey"  -> x.t = TMap /\ keyed /\ Has_(o, "r") /\ o.r = (LookPos(x, o) > 0)
          [] o.op = "Get"          -> cont /\ keyed /\ Has_(o, "r")
                                      /\ IF LookPos(x, o) = 0 THEN o.r = [nil |-> TRUE]
                                         ELSE Has_(o.r, "v") /\ SameValue(o.r.v, ChildAt(x, LookPos(x, o)))
          [] o.op = "GetString"    -> cont /\ keyed /\ Has_(o, "r") /\ o.r = (IF ChildIs(x, o, TText) THEN ChildPay(x, o) ELSE <<>>)
          [] o.op = "GetBool"      -> cont /\ keyed /\ Has_(o, "r") /\ o.r = (IF ChildIs(x, o, TBool) THEN ChildPay(x, o) ELSE FALSE)
          [] o.op = "GetLong"      -> x.t = TMap /\ keyed /\ Has_(o, "r") /\ o.r = (IF ChildIs(x, o, TDecimal) THEN ChildPay(x, o) ELSE Fill(8, 0))
          [] o.op = "GetFloat"     -> x.t = TMap /\ keyed /\ Has_(o, "r") /\ o.r = (IF ChildIs(x, o, TFloat) THEN ChildPay(x, o) ELSE Fill(4, 0))
          [] o.op = "Keys"         -> isMap /\ Has_(o, "r") /\ o.r = [j \in 1..Len(x.v) |-> x.v[j][1]]
          [] o.op = "Write"        -> Has_(o, "r") /\ o.r = EncBody(x)
          [] o.op = "WriteValue"   -> Has_(o, "r") /\ o.r = EncValue(x)
          [] o.op = "GetCount"     -> x.t \in {TDoubleSummary, TLongSummary} /\ Has_(o, "r") /\ o.r = x.v.count
          [] o.op = "Sum"          -> x.t \in {TDoubleSummary, TLongSummary} /\ Has_(o, "r") /\ o.r = x.v.sum
          [] o.op = "Min"          -> x.t \in {TDoubleSummary, TLongSummary} /\ Has_(o, "r") /\ o.r = x.v.min
          [] o.op = "Max"          -> x.t \in {TDoubleSummary, TLongSummary} /\ Has_(o, "r") /\ o.r = x.v.max
          [] o.op = "Other"        -> Has_(o, "name")
          [] o.op \in {"Equals", "CompareTo"} ->
                /\ Has_(o, "r") /\ Has_(o, "with")
                /\ IF o.op = "Equals" THEN o.r \in BOOLEAN ELSE o.r \in {-1, 0, 1}
                /\ CASE o.with = "self"  -> TRUE
                     [] o.with = "node"  -> Has_(o, "path2") /\ PathOK(root, o.path2, 1)
                     [] o.with = "value" -> Has_(o, "arg") /\ Has_(o, "after") /\ IsValue(o.arg) /\ SameValue(o.after, o.arg)
                     [] OTHER -> FALSE

\* one public read-only method is called on the node at path: identity on the content
Look(path, o) == /\ cur # <<>>
                 /\ PathOK(cur, path, 1) = TRUE
                 /\ LookSees(NodeAt(cur, path, 1), o, cur) = TRUE
                 /\ UNCHANGED ovars

\* ---- properties ---------------------------------------------------------------
\* what was written last is the reference encoding of the content of that moment, it was
\* read back as that content, consumed exactly and re-encoded to the same bytes
WroteCurrent == fresh => /\ Len(vals) = 1 /\ SameValue(vals[1], cur)
                         /\ wire = EncValue(cur)
                         /\ SameValue(backs[1], cur) /\ rpos = Len(wire) + 1 /\ again[1] = wire
CurIsValue == cur # <<>> => IsValue(cur)
CurRoundTrips == cur # <<>> => RoundTrips(cur) /\ ReEncodes(cur)
=============================================================================
