\* thorough (b): every program of THREE writes over a reduced boundary set (states hold whole buffers: the full
\* set at depth 3 is ~3*10^7 states of up to 200 KB each and filled the disk)
SPECIFICATION MCSpec
CONSTANTS MaxLen = 3
          BlobLens = {0, 254}
          KSet = {7, 31}
INVARIANTS SizeOK ReadBack ExactConsumption NoStuck Canonical SelfDelimiting Complete FastAgree
CHECK_DEADLOCK FALSE
