SPECIFICATION MCSpec
CONSTANTS MaxLen = 3
          Cands = "abstract3"
          Reader = "ref"
          MaxKeep = 0
          Encoder = "fresh"
INVARIANTS ReadBack CursorExact TxNormalize AllConsumed WireOK KeptWire KeptIntact NoStuck ExactNormalForm SelfDelimiting
CHECK_DEADLOCK FALSE
