SPECIFICATION MCSpec
CONSTANTS MaxLen = 3
          Cands = "abstract3"
          Reader = "ref"
INVARIANTS ReadBack CursorExact TxNormalize AllConsumed WireOK NoStuck ExactNormalForm SelfDelimiting
CHECK_DEADLOCK FALSE
