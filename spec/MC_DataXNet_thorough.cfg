\* thorough: more class boundaries and the blob prefix thresholds, read over a connection under every cutting into pieces
SPECIFICATION NSpec
CONSTANTS MaxLen = 2
          BlobLens = {0, 1, 9, 254}
          KSet = {7, 31}
          LateOps = {}
          Design = "fill"
INVARIANTS SizeOK ReadBack ExactConsumption NoStuck Assembled TakenOK NetComplete NetNoStuck KComplete
CHECK_DEADLOCK FALSE
