SPECIFICATION MCSpec
CONSTANTS MaxOffers = 4
          MaxRankMC = 3
          MaxDerived = 1
          MaxSnaps = 0
          SnapOf = {}
INVARIANTS TypeOK SetOnly RoundTrip MergedIsUnion BytesShape UnionLaw SnapOK
PROPERTIES InputsUntouched OfferTellsChange SnapFrozen
CHECK_DEADLOCK FALSE
