SPECIFICATION MCSpec
CONSTANTS MaxOffers = 4
          MaxRankMC = 3
          MaxDerived = 1
INVARIANTS TypeOK SetOnly RoundTrip MergedIsUnion BytesShape UnionLaw
PROPERTIES InputsUntouched OfferTellsChange
CHECK_DEADLOCK FALSE
