SPECIFICATION TraceSpec
CONSTANTS Proc = {0, 1, 2, 3}
CONSTRAINT Hwm
POSTCONDITION TraceAccepted
CHECK_DEADLOCK FALSE
