SPECIFICATION MCSpec
CONSTANTS MaxLen = 1
          Cands = "records"
          Reader = "ref"
          MaxKeep = 0
          Encoder = "fresh"
INVARIANTS ReadBack CursorExact TxNormalize AllConsumed WireOK KeptWire KeptIntact NoStuck ExactNormalForm SelfDelimiting
CHECK_DEADLOCK FALSE
