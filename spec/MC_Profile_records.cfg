SPECIFICATION MCSpec
CONSTANTS MaxLen = 1
          Cands = "records"
          Reader = "ref"
INVARIANTS ReadBack CursorExact TxNormalize AllConsumed WireOK NoStuck ExactNormalForm SelfDelimiting
CHECK_DEADLOCK FALSE
