------------------------------ MODULE ValueLaws ------------------------------
(***************************************************************************)
(* C20 -- the laws of value equality and comparison, as predicates over an *)
(* OBSERVED pool: n values with their type codes, the matrix E of Equals   *)
(* results (1 true, 0 false, 2 = the call failed) and the matrix C of      *)
(* CompareTo results (sign -1/0/1, 2 = the call failed), and for some      *)
(* members the index of the member that is the result of decoding their    *)
(* encoding.  These are literally the forall-formulas of the property;     *)
(* TLC evaluates them over all pairs and triples of the pool.              *)
(*                                                                         *)
(* A pool is the record                                                    *)
(*   [n, vals : 1..n -> value, t : 1..n -> type code, nan : 1..n -> BOOLEAN,*)
(*    E, C : 1..n -> 1..n -> result, dec, twin : 1..n -> 0..n]             *)
(* vals[i] is the OBSERVED content of member i (what its public getters    *)
(* and enumerations show); twin[i] is the index of a member that was built *)
(* afresh through the public constructors from that very content (0: none).*)
(* Lenient: members containing a NaN take no part in any law (IEEE         *)
(* inequality of NaN with itself contradicts reflexivity by definition).   *)
(* The direction of the order within a type is not prescribed, nor is the  *)
(* order of the type codes: only that the sign for two values of different *)
(* types is non-zero and depends on nothing but the two types.             *)
(*                                                                         *)
(* The objects of a pool may live on: between two judgements of the same   *)
(* objects their public mutators (Put, PutAll, Clear, Add, Set, Read into  *)
(* the existing object, assignment of exported fields, ...) are called on  *)
(* some of them (action Mutate).  Equality and comparison are relations of *)
(* VALUES, not of object histories: the next judgement must satisfy the    *)
(* same laws, every member must be interchangeable with its fresh twin     *)
(* (Fresh), and members whose content is the same in both judgements must  *)
(* get the same answers among themselves (Stable).                         *)
(*                                                                         *)
(* Every law takes the set I the FIRST index ranges over, so that the      *)
(* model checker can spread a large pool over its workers (I = {focus});   *)
(* trace validation uses I = all members.                                  *)
(***************************************************************************)
EXTENDS ValueOrder

Members(p) == {i \in 1..p.n : ~p.nan[i]}
ScalarT(p, i) == p.t[i] \in ScalarCodes

\* the calls return: no panic
Total(p, I) == \A i \in I, j \in Members(p) : p.E[i][j] \in {0, 1} /\ p.C[i][j] \in {-1, 0, 1}
Refl(p, I) == \A i \in I : p.E[i][i] = 1
Sym(p, I) == \A i \in I, j \in Members(p) : p.E[i][j] = p.E[j][i]
TransE(p, I) == \A i \in I, j \in Members(p) : p.E[i][j] = 1 =>
                   \A k \in Members(p) : p.E[j][k] = 1 => p.E[i][k] = 1
\* a value equals the result of decoding its encoding (both ways round)
DecodeEqual(p, I) == \A i \in I : (p.dec[i] # 0 /\ p.dec[i] \in Members(p)) =>
                        p.E[i][p.dec[i]] = 1 /\ p.E[p.dec[i]][i] = 1
\* swapping the operands reverses the sign (so x compared with x is 0)
Antisym(p, I) == \A i \in I, j \in Members(p) : p.C[i][j] = -p.C[j][i]
\* "not below" is transitive; with Antisym this gives every strict/mixed variant
TransC(p, I) == \A i \in I, j \in Members(p) : p.C[i][j] >= 0 =>
                   \A k \in Members(p) : p.C[j][k] >= 0 => p.C[i][k] >= 0
\* scalar values compare 0 exactly when they are equal
ScalarConsistent(p, I) == \A i \in I, j \in Members(p) :
                             (ScalarT(p, i) /\ ScalarT(p, j)) => ((p.C[i][j] = 0) <=> (p.E[i][j] = 1))
\* values of different types are ordered by their types alone
FirstOf(p, c) == CHOOSE i \in Members(p) : p.t[i] = c /\ \A j \in Members(p) : p.t[j] = c => i <= j
TypeOrder(p, I) == \A i \in I, j \in Members(p) : p.t[i] # p.t[j] =>
                      /\ p.C[i][j] # 0
                      /\ p.C[i][j] = p.C[FirstOf(p, p.t[i])][FirstOf(p, p.t[j])]

\* a member and the value built afresh from its observed content are interchangeable: equal both ways, and
\* every other member gets the same answers from / about both (the answers depend on the value, not on what
\* the object went through before)
Fresh(p, I) == \A i \in I : (p.twin[i] # 0 /\ p.twin[i] \in Members(p)) =>
                 LET w == p.twin[i] IN
                   /\ p.E[i][w] = 1 /\ p.E[w][i] = 1
                   /\ \A k \in Members(p) : /\ p.E[i][k] = p.E[w][k] /\ p.E[k][i] = p.E[k][w]
                                           /\ p.C[i][k] = p.C[w][k] /\ p.C[k][i] = p.C[k][w]
\* q is the previous judgement of the same objects (q.n = p.n), else the law is silent: members whose observed
\* content did not change get the same answers among themselves as before
SameIn(q, p) == {i \in Members(p) \cap Members(q) : SameValue(q.vals[i], p.vals[i])}
Stable(q, p, I) == (q.n = p.n /\ q.n > 0) =>
                     \A i \in I \cap SameIn(q, p), j \in SameIn(q, p) : p.E[i][j] = q.E[i][j] /\ p.C[i][j] = q.C[i][j]

LawNames == <<"Total", "Refl", "Sym", "TransE", "DecodeEqual", "Antisym", "TransC", "ScalarConsistent", "TypeOrder", "Fresh">>
Law(name, p, I) ==
  CASE name = "Total" -> Total(p, I)
    [] name = "Refl" -> Refl(p, I)
    [] name = "Sym" -> Sym(p, I)
    [] name = "TransE" -> TransE(p, I)
    [] name = "DecodeEqual" -> DecodeEqual(p, I)
    [] name = "Antisym" -> Antisym(p, I)
    [] name = "TransC" -> TransC(p, I)
    [] name = "ScalarConsistent" -> ScalarConsistent(p, I)
    [] name = "TypeOrder" -> TypeOrder(p, I)
    [] name = "Fresh" -> Fresh(p, I)
\* Total first: the other laws read the matrices as numbers
Lawful(p, I) == Total(p, Members(p)) /\ \A k \in 2..Len(LawNames) : Law(LawNames[k], p, I)

WellFormed(p) ==
  /\ p.n >= 0 /\ Len(p.t) = p.n /\ Len(p.nan) = p.n /\ Len(p.dec) = p.n /\ Len(p.E) = p.n /\ Len(p.C) = p.n
  /\ Len(p.vals) = p.n /\ Len(p.twin) = p.n
  /\ \A i \in 1..p.n : Len(p.E[i]) = p.n /\ Len(p.C[i]) = p.n /\ p.dec[i] \in 0..p.n /\ p.t[i] \in TypeCodes
  /\ \A i \in 1..p.n : p.dec[i] # 0 => p.t[p.dec[i]] = p.t[i]
  \* a twin is ANOTHER member with the very same observed content
  /\ \A i \in 1..p.n : /\ p.twin[i] \in 0..p.n
                        /\ p.twin[i] # 0 => (p.twin[i] # i /\ SameValue(p.vals[i], p.vals[p.twin[i]]))

\* the pool record of observed values
MkPoolT(vs, E, C, dec, twin) ==
  [n |-> Len(vs), vals |-> vs, t |-> [i \in 1..Len(vs) |-> vs[i].t], nan |-> [i \in 1..Len(vs) |-> HasNaN(vs[i])],
   E |-> E, C |-> C, dec |-> dec, twin |-> twin]
MkPool(vs, E, C, dec) == MkPoolT(vs, E, C, dec, [i \in 1..Len(vs) |-> 0])
EmptyPool == [n |-> 0, vals |-> <<>>, t |-> <<>>, nan |-> <<>>, E |-> <<>>, C |-> <<>>, dec |-> <<>>, twin |-> <<>>]

\* the public mutators of each type (SetVal / SetElem: assignment of the exported payload field / of one element
\* of it; Read: Read(din) into the existing object; Inner: one of these on a container reached through Get)
Mutators(t) ==
  CASE t = TMap -> {"Put", "PutString", "PutLong", "PutAll", "Clear", "Read", "NewList", "Inner"}
    [] t = TIntMap -> {"Put", "PutString", "PutLong", "Clear", "Read", "NewList", "Inner"}
    [] t = TList -> {"Add", "AddString", "AddLong", "Set", "Clear", "Read", "Inner"}
    [] t \in {TDoubleSummary, TLongSummary} -> {"Add", "AddCount", "SetVal", "Read"}
    [] t \in {TBlob, TIP4, TIntArray, TLongArray, TFloatArray, TTextArray} -> {"SetVal", "SetElem", "Read"}
    [] t = TNull -> {"Read"}
    [] OTHER -> {"SetVal", "Read"}

(***************************************************************************)
(* The (tiny) machine: pools are judged one after the other.  `pool` is    *)
(* the pool under judgement, `focus` the set the first index ranges over.  *)
(* After Mutate the NEXT pool is a judgement of the same objects: `prev` is *)
(* then the judgement before the mutators ran (else the empty pool), `cont`*)
(* says that mutators ran since the last judgement and `muts` on which     *)
(* members.                                                                *)
(***************************************************************************)
VARIABLES pool, focus, prev, cont, muts
lvars == <<pool, focus, prev, cont, muts>>

LInit == pool = EmptyPool /\ focus = {} /\ prev = EmptyPool /\ cont = FALSE /\ muts = {}

\* what may have changed when the members in M were mutated: they, their decoded copies and their twins
\* (the copies and twins are made anew for every judgement)
Closure(p, M) == M \cup {p.dec[i] : i \in M} \cup {p.twin[i] : i \in M}

\* value.Equals / value.CompareTo were called on every ordered pair of the pool
Judge(p, I) == /\ WellFormed(p)
               /\ cont => /\ p.n = pool.n
                          \* a mutator does not change the type of its object, every mutated member is judged
                          \* against a fresh twin, and no other member changed (the objects are independent)
                          /\ \A i \in muts : p.t[i] = pool.t[i] /\ p.twin[i] # 0
                          /\ \A i \in (1..p.n) \ (Closure(p, muts) \cup Closure(pool, muts)) : SameValue(p.vals[i], pool.vals[i])
               /\ pool' = p
               /\ focus' = I
               /\ prev' = IF cont THEN pool ELSE EmptyPool
               /\ cont' = FALSE /\ muts' = {}

\* public mutators were called on members of the judged pool: ops[k] = [i |-> member, op |-> mutator name, ...]
\* ("Panic": the mutator did not return -- not this property's business; the object is judged as it was left)
Mutate(ops) == /\ pool.n > 0 /\ ~cont
               /\ \A k \in 1..Len(ops) : ops[k].i \in 1..pool.n /\ ops[k].op \in (Mutators(pool.t[ops[k].i]) \cup {"Panic"})
               /\ cont' = TRUE
               /\ muts' = {ops[k].i : k \in 1..Len(ops)}
               /\ UNCHANGED <<pool, focus, prev>>

\* ---- the property: every judged pool is lawful -----------------------------
F == focus \cap Members(pool)
PTotal == Total(pool, F)
PRefl == Refl(pool, F)
PSym == PTotal => Sym(pool, F)
PTransE == PTotal => TransE(pool, F)
PDecodeEqual == PTotal => DecodeEqual(pool, F)
PAntisym == PTotal => Antisym(pool, F)
PTransC == PTotal => TransC(pool, F)
PScalarConsistent == PTotal => ScalarConsistent(pool, F)
PTypeOrder == PTotal => TypeOrder(pool, F)
PFresh == PTotal => Fresh(pool, F)
PStable == PTotal => Stable(prev, pool, F)
=============================================================================
