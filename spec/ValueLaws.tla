------------------------------ MODULE ValueLaws ------------------------------
(***************************************************************************)
(* C20 -- the laws of value equality and comparison, as predicates over an *)
(* OBSERVED pool: n values with their type codes, the matrix E of Equals   *)
(* results (1 true, 0 false, 2 = the call failed) and the matrix C of      *)
(* CompareTo results (sign -1/0/1, 2 = the call failed), and for some      *)
(* members the index of the member that is the result of decoding their    *)
(* encoding.  These are literally the forall-formulas of the property;     *)
(* TLC evaluates them over all pairs and triples of the pool.              *)
(*                                                                         *)
(* A pool is the record                                                    *)
(*   [n, t : 1..n -> type code, nan : 1..n -> BOOLEAN,                     *)
(*    E, C : 1..n -> 1..n -> result, dec : 1..n -> 0..n]                   *)
(* Lenient: members containing a NaN take no part in any law (IEEE         *)
(* inequality of NaN with itself contradicts reflexivity by definition).   *)
(* The direction of the order within a type is not prescribed, nor is the  *)
(* order of the type codes: only that the sign for two values of different *)
(* types is non-zero and depends on nothing but the two types.             *)
(*                                                                         *)
(* Every law takes the set I the FIRST index ranges over, so that the      *)
(* model checker can spread a large pool over its workers (I = {focus});   *)
(* trace validation uses I = all members.                                  *)
(***************************************************************************)
EXTENDS ValueOrder

Members(p) == {i \in 1..p.n : ~p.nan[i]}
ScalarT(p, i) == p.t[i] \in ScalarCodes

\* the calls return: no panic
Total(p, I) == \A i \in I, j \in Members(p) : p.E[i][j] \in {0, 1} /\ p.C[i][j] \in {-1, 0, 1}
Refl(p, I) == \A i \in I : p.E[i][i] = 1
Sym(p, I) == \A i \in I, j \in Members(p) : p.E[i][j] = p.E[j][i]
TransE(p, I) == \A i \in I, j \in Members(p) : p.E[i][j] = 1 =>
                   \A k \in Members(p) : p.E[j][k] = 1 => p.E[i][k] = 1
\* a value equals the result of decoding its encoding (both ways round)
DecodeEqual(p, I) == \A i \in I : (p.dec[i] # 0 /\ p.dec[i] \in Members(p)) =>
                        p.E[i][p.dec[i]] = 1 /\ p.E[p.dec[i]][i] = 1
\* swapping the operands reverses the sign (so x compared with x is 0)
Antisym(p, I) == \A i \in I, j \in Members(p) : p.C[i][j] = -p.C[j][i]
\* "not below" is transitive; with Antisym this gives every strict/mixed variant
TransC(p, I) == \A i \in I, j \in Members(p) : p.C[i][j] >= 0 =>
                   \A k \in Members(p) : p.C[j][k] >= 0 => p.C[i][k] >= 0
\* scalar values compare 0 exactly when they are equal
ScalarConsistent(p, I) == \A i \in I, j \in Members(p) :
                             (ScalarT(p, i) /\ ScalarT(p, j)) => ((p.C[i][j] = 0) <=> (p.E[i][j] = 1))
\* values of different types are ordered by their types alone
FirstOf(p, c) == CHOOSE i \in Members(p) : p.t[i] = c /\ \A j \in Members(p) : p.t[j] = c => i <= j
TypeOrder(p, I) == \A i \in I, j \in Members(p) : p.t[i] # p.t[j] =>
                      /\ p.C[i][j] # 0
                      /\ p.C[i][j] = p.C[FirstOf(p, p.t[i])][FirstOf(p, p.t[j])]

LawNames == <<"Total", "Refl", "Sym", "TransE", "DecodeEqual", "Antisym", "TransC", "ScalarConsistent", "TypeOrder">>
Law(name, p, I) ==
  CASE name = "Total" -> Total(p, I)
    [] name = "Refl" -> Refl(p, I)
    [] name = "Sym" -> Sym(p, I)
    [] name = "TransE" -> TransE(p, I)
    [] name = "DecodeEqual" -> DecodeEqual(p, I)
    [] name = "Antisym" -> Antisym(p, I)
    [] name = "TransC" -> TransC(p, I)
    [] name = "ScalarConsistent" -> ScalarConsistent(p, I)
    [] name = "TypeOrder" -> TypeOrder(p, I)
\* Total first: the other laws read the matrices as numbers
Lawful(p, I) == Total(p, Members(p)) /\ \A k \in 2..Len(LawNames) : Law(LawNames[k], p, I)

WellFormed(p) ==
  /\ p.n >= 0 /\ Len(p.t) = p.n /\ Len(p.nan) = p.n /\ Len(p.dec) = p.n /\ Len(p.E) = p.n /\ Len(p.C) = p.n
  /\ \A i \in 1..p.n : Len(p.E[i]) = p.n /\ Len(p.C[i]) = p.n /\ p.dec[i] \in 0..p.n /\ p.t[i] \in TypeCodes
  /\ \A i \in 1..p.n : p.dec[i] # 0 => p.t[p.dec[i]] = p.t[i]

\* the pool record of observed values
MkPool(vs, E, C, dec) == [n |-> Len(vs), t |-> [i \in 1..Len(vs) |-> vs[i].t], nan |-> [i \in 1..Len(vs) |-> HasNaN(vs[i])],
                          E |-> E, C |-> C, dec |-> dec]
EmptyPool == [n |-> 0, t |-> <<>>, nan |-> <<>>, E |-> <<>>, C |-> <<>>, dec |-> <<>>]

(***************************************************************************)
(* The (tiny) machine: pools are judged one after the other.  `pool` is    *)
(* the pool under judgement, `focus` the set the first index ranges over.  *)
(***************************************************************************)
VARIABLES pool, focus
lvars == <<pool, focus>>

LInit == pool = EmptyPool /\ focus = {}

\* value.Equals / value.CompareTo were called on every ordered pair of the pool
Judge(p, I) == /\ WellFormed(p)
               /\ pool' = p
               /\ focus' = I

\* ---- the property: every judged pool is lawful -----------------------------
F == focus \cap Members(pool)
PTotal == Total(pool, F)
PRefl == Refl(pool, F)
PSym == PTotal => Sym(pool, F)
PTransE == PTotal => TransE(pool, F)
PDecodeEqual == PTotal => DecodeEqual(pool, F)
PAntisym == PTotal => Antisym(pool, F)
PTransC == PTotal => TransC(pool, F)
PScalarConsistent == PTotal => ScalarConsistent(pool, F)
PTypeOrder == PTotal => TypeOrder(pool, F)
=============================================================================
