------------------------------ MODULE PackOut -------------------------------
(***************************************************************************)
(* C05 -- the encoder OUTPUT while the caller holds it.  PackWire says     *)
(* what the bytes of a pack are; the observation points of the property    *)
(* ("ToBytesPack(p)", "bytes received by a TCP peer") are reached by bytes *)
(* that live on after the call that produced them: a sender batches the    *)
(* results of several ToBytesPack calls, writes several packs into one     *)
(* output of its own (WritePack), queues a frame while the next one is     *)
(* built.  "The whole body equals what the reference encoder emits" is a   *)
(* statement about those bytes for as long as the caller holds them, not   *)
(* only at the instant the call returns.                                   *)
(*                                                                         *)
(* This module is the state machine of the outputs of one caller:          *)
(*   outs   the byte strings that exist: one per output object (a          *)
(*          DataOutputX of the caller, or the one ToBytesPack made);       *)
(*          an output is APPEND-ONLY: a write adds exactly the reference   *)
(*          bytes of the pack behind what is there, and touches no other   *)
(*          output;                                                        *)
(*   views  what the caller holds: [o, n] = the first n bytes of output o  *)
(*          as handed out by ToBytesPack / ToByteArray (uncopied);         *)
(*   seen   the last second look at a view (Peek): the bytes found there   *)
(*          NOW, after whatever calls were made in between.                *)
(* Law HeldStable: a second look at a view finds the bytes that were       *)
(* handed out -- the first n bytes of its output, which only ever grows.   *)
(* Where the bytes live is the encoder's business (MC_PackOut explores a   *)
(* fresh buffer per call, a recycled buffer handed out as a copy, and a    *)
(* recycled buffer handed out as it is -- the last is refuted).            *)
(***************************************************************************)
EXTENDS PackWire

VARIABLES outs, views, seen
pvars == <<outs, views, seen>>

OutInit == outs = <<>> /\ views = <<>> /\ seen = <<>>

\* the caller makes an output of his own; pre = what he has written into it already
NewOut(pre) ==
  /\ outs' = Append(outs, pre)
  /\ UNCHANGED <<views, seen>>

\* pack.WritePack(o, p): seg = the bytes that arrived behind the old content;
\* the caller looks at the whole output (ToByteArray) and keeps that view
WriteTo(o, kind, p, seg) ==
  /\ o \in DOMAIN outs
  /\ kind \in Kinds
  /\ Fits(kind, p)
  /\ seg = PackBytes(kind, p)
  /\ outs' = [outs EXCEPT ![o] = @ \o seg]
  /\ views' = Append(views, [o |-> o, n |-> Len(outs[o]) + Len(seg)])
  /\ UNCHANGED seen

\* pack.ToBytesPack(p) = bytes: an output of the library's making, handed to the caller
ToBytes(kind, p, bytes) ==
  /\ kind \in Kinds
  /\ Fits(kind, p)
  /\ bytes = PackBytes(kind, p)
  /\ outs' = Append(outs, bytes)
  /\ views' = Append(views, [o |-> Len(outs) + 1, n |-> Len(bytes)])
  /\ UNCHANGED seen

\* a second look at the id-th view: v = the bytes found there now
Peek(id, v) ==
  /\ id \in DOMAIN views
  /\ seen' = [id |-> id, v |-> v]
  /\ UNCHANGED <<outs, views>>

DropOuts == outs' = <<>> /\ views' = <<>> /\ seen' = <<>>

\* what the id-th view must show, whenever it is looked at
Held(id) == High(outs[views[id].o], views[id].n)

HeldStable == seen # <<>> => seen.v = Held(seen.id)

\* every view lies inside its output
ViewsOK == \A id \in DOMAIN views : views[id].o \in DOMAIN outs /\ views[id].n <= Len(outs[views[id].o])
=============================================================================
