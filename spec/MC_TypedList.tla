---------------------------- MODULE MC_TypedList -----------------------------
(***************************************************************************)
(* Exhaustive exploration of the TypedList design for small constants.     *)
(* Mode selects what is explored:                                          *)
(*   "typed"   every public call of a typed list from every reachable      *)
(*             state: all sequences over Vals of length <= MaxLen          *)
(*   "linked"  the same for the LinkedList calls                           *)
(*   "sort"    ALL primary lists over Vals of length <= MaxLen with ALL    *)
(*             child lists, both directions at both levels: the relation   *)
(*             IsOrderingPermutation is satisfiable, a reference sort      *)
(*             satisfies it, and EVERY permutation it accepts filters the  *)
(*             list(s) into globally sorted order                          *)
(*   "wire"    all lists over the value universe of each element type of   *)
(*             length <= MaxLen: the wire form reads back equal, consumes  *)
(*             exactly its bytes, fails when truncated                     *)
(*   "alias"   the typed calls that hand something out or are handed       *)
(*             something (ToArray, Filtering, AddAllArray) with the caller *)
(*             retaining up to MaxHeld of those things, writing into them, *)
(*             adding to retained lists, swapping roles with a retained    *)
(*             list, interleaved with the list's own mutators: snapshots   *)
(*             stay what they were, writes stay where they were made       *)
(* `act` = <<operation, i, v, vs>> records the label of the last step so   *)
(* that the clauses of the property can be checked as ACTION properties    *)
(* formulated independently of the operators that define the actions, and  *)
(* so that the labelled state graph can be dumped for the replay (B).      *)
(***************************************************************************)
EXTENDS TypedList, Json

CONSTANTS Mode, Vals, MaxLen, MaxHeld

VARIABLES act,   \* label of the last step
          aux    \* sort mode: the child list and the sort performed
mcvars == <<vars, act, aux>>

SeqsUpTo(S, n) == UNION {[1..k -> S] : k \in 0..n}
SeqsOf(S, n)   == [1..n -> S]
Lbl(op, i, v, vs) == act' = <<op, i, v, vs>>
NoAux == [child |-> <<>>, done |-> FALSE]

\* value universes of the wire mode (Bytes.tla representation)
WVals == [Int    |-> {<<0,0,0,0,0,0,0,0>>, <<255,255,255,255,255,255,255,255>>, <<0,0,0,0,0,0,0,127>>,
                      <<0,0,0,0,0,0,0,128>>, <<0,0,0,0,128,0,0,0>>, <<128,0,0,0,0,0,0,0>>},
          Long   |-> {<<0,0,0,0,0,0,0,0>>, <<255,255,255,255,255,255,255,128>>, <<0,0,0,0,0,0,128,0>>,
                      <<0,0,0,128,0,0,0,0>>, <<127,255,255,255,255,255,255,255>>},
          Float  |-> {<<0,0,0,0>>, <<128,0,0,0>>, <<63,128,0,0>>, <<255,127,255,255>>},
          Double |-> {<<0,0,0,0,0,0,0,0>>, <<128,0,0,0,0,0,0,0>>, <<64,9,33,251,84,68,45,24>>},
          String |-> {<<>>, <<97>>, <<0,255>>, <<226,130,172>>}]

MCInit ==
  /\ act = <<"Init", 0, 0, <<>>>>
  /\ held = <<>>
  /\ CASE Mode \in {"typed", "alias"} -> InitWith("Abs") /\ aux = NoAux
       [] Mode = "linked" -> InitWith("Linked") /\ aux = NoAux
       [] Mode = "sort"   -> /\ T = "Abs"
                             /\ xs \in SeqsUpTo(Vals, MaxLen)
                             /\ \E c \in SeqsOf(Vals, Len(xs)) : aux = [child |-> c, done |-> FALSE]
       [] Mode = "wire"   -> /\ T \in TypedKinds
                             /\ xs \in SeqsUpTo(WVals[T], MaxLen)
                             /\ aux = NoAux

Indexes == -1..MaxLen          \* includes both kinds of bad index
Idx0    == 0..MaxLen           \* MaxLen is never in range

TypedNext ==
  \/ \E v \in Vals : Len(xs) < MaxLen /\ Add(v) /\ Lbl("Add", 0, v, <<>>)
  \/ \E vs \in SeqsUpTo(Vals, 2) : /\ Len(xs) + Len(vs) <= MaxLen
                                   /\ \/ AddAll(vs) /\ Lbl("AddAll", 0, 0, vs)
                                      \/ AddAll(vs) /\ Lbl("AddAllArray", 0, 0, vs)
  \/ 2 * Len(xs) <= MaxLen /\ AddAll(xs) /\ Lbl("AddAllSelf", 0, 0, <<>>)
  \/ \E i \in Indexes, v \in Vals : Set(i, v) /\ Lbl("Set", i, v, <<>>)
  \* read-only calls: stuttering steps, labelled so that the dumped graph makes
  \* the replayer issue them from every reachable state
  \/ \E i \in Indexes : UNCHANGED vars /\ Lbl("Get", i, 0, <<>>)
  \/ \E o \in {"ToArray", "Size", "Write"} : UNCHANGED vars /\ Lbl(o, 0, 0, <<>>)
  \/ \E a \in {0, 1} : UNCHANGED vars /\ Lbl("Sort", a, 0, <<>>)
  \/ \E idx \in SeqsUpTo(Idx0, 2) : UNCHANGED vars /\ Lbl("Filter", 0, 0, idx)

LinkedNext ==
  \/ \E v \in Vals : /\ Len(xs) < MaxLen
                     /\ \/ AddFirst(v) /\ Lbl("AddFirst", 0, v, <<>>)
                        \/ AddLast(v) /\ Lbl("AddLast", 0, v, <<>>)
                        \/ Add(v) /\ Lbl("Add", 0, v, <<>>)
                        \/ \E p \in Idx0 : PutBefore(v, p) /\ Lbl("PutBefore", p, v, <<>>)
  \/ \E p \in Idx0 : Remove(p) /\ Lbl("Remove", p, 0, <<>>)
  \/ RemoveFirst /\ Lbl("RemoveFirst", 0, 0, <<>>)
  \/ RemoveLast /\ Lbl("RemoveLast", 0, 0, <<>>)
  \/ Clear /\ Lbl("Clear", 0, 0, <<>>)
  \/ \E o \in {"ToArray", "Size", "Walk"} : UNCHANGED vars /\ Lbl(o, 0, 0, <<>>)

\* the calls that hand out / are handed something, the caller retaining it in slot k
\* (label: i = the slot), and what the caller can do with a retained thing
Slots == 1..MaxHeld
InIdx == 0..(Len(xs) - 1)
AliasNext ==
  \/ \E v \in Vals : Len(xs) < MaxLen /\ Add(v) /\ NoKeep /\ Lbl("Add", 0, v, <<>>)
  \/ \E i \in InIdx, v \in Vals : Set(i, v) /\ NoKeep /\ Lbl("Set", i, v, <<>>)
  \/ \E vs \in SeqsUpTo(Vals, 2), k \in Slots : /\ Len(xs) + Len(vs) <= MaxLen
                                                /\ AddAll(vs) /\ KeepAt(k, vs) /\ Lbl("AddAllArray", k, 0, vs)
  \/ \E k \in Slots : UNCHANGED lvars /\ KeepAt(k, xs) /\ Lbl("ToArray", k, 0, <<>>)
  \/ \E idx \in SeqsUpTo(InIdx, 2), k \in Slots :
        UNCHANGED lvars /\ KeepAt(k, Filtering(idx)) /\ Lbl("Filter", k, 0, idx)
  \/ \E h \in Slots : IsHeld(h) /\ \E i \in 0..(Len(held[h]) - 1), v \in Vals : HeldWrite(h, i, v) /\ Lbl("HeldSet", h, v, <<i>>)
  \/ \E h \in Slots, v \in Vals : IsHeld(h) /\ Len(held[h]) < MaxLen /\ HeldAppend(h, v) /\ Lbl("HeldAdd", h, v, <<>>)
  \/ \E h \in Slots : SwapHeld(h) /\ Lbl("Swap", h, 0, <<>>)

\* all permutations of 0..n-1 as sequences (a constant table: evaluated once)
PermTab == [n \in 0..MaxLen |-> {p \in [1..n -> 0..(n - 1)] : \A i, j \in 1..n : p[i] = p[j] => i = j}]
Perms(n) == PermTab[n]
B2N(b) == IF b THEN 1 ELSE 0

\* the sort step: ANY permutation the relation accepts may be returned
SortNext ==
  /\ ~aux.done
  /\ \E asc \in BOOLEAN, casc \in BOOLEAN, two \in BOOLEAN, perm \in Perms(Len(xs)) :
        /\ two \/ casc            \* one-level sorting has no child direction
        /\ IsOrderingPermutation(perm, xs, IF two THEN aux.child ELSE NoChild(Len(xs)), asc, casc)
        /\ aux' = [child |-> aux.child, done |-> TRUE, perm |-> perm, asc |-> asc, casc |-> casc, two |-> two]
        /\ Lbl("Sort", B2N(asc), B2N(casc), perm)
  /\ UNCHANGED vars

MCNext == CASE Mode = "typed"  -> TypedNext /\ NoKeep /\ UNCHANGED aux
            [] Mode = "linked" -> LinkedNext /\ NoKeep /\ UNCHANGED aux
            [] Mode = "alias"  -> AliasNext /\ UNCHANGED aux
            [] Mode = "sort"   -> SortNext
            [] Mode = "wire"   -> UNCHANGED vars /\ UNCHANGED aux /\ Lbl("Write", 0, 0, <<>>)

MCSpec == MCInit /\ [][MCNext]_mcvars

\* ---- typed lists: the clauses as action properties ----------------------
A  == act'[1]
AI == act'[2]
AV == act'[3]
AS == act'[4]
Mutators == {"Add", "AddAll", "AddAllArray", "AddAllSelf", "Set",
             "AddFirst", "AddLast", "PutBefore", "Remove", "RemoveFirst", "RemoveLast", "Clear", "Swap"}
SamePrefix(s, t, n) == \A i \in 1..n : s[i] = t[i]

FrameA == A \notin Mutators => xs' = xs
Frame == [][FrameA]_mcvars
AddAppendsA == A \in {"Add", "AddLast"} => /\ Len(xs') = Len(xs) + 1
                                           /\ xs'[Len(xs')] = AV
                                           /\ SamePrefix(xs', xs, Len(xs))
AddAppends == [][AddAppendsA]_mcvars
AddAllAppendsA == A \in {"AddAll", "AddAllArray", "AddAllSelf"} =>
                    LET vs == IF A = "AddAllSelf" THEN xs ELSE AS IN
                    /\ Len(xs') = Len(xs) + Len(vs)
                    /\ SamePrefix(xs', xs, Len(xs))
                    /\ \A j \in 1..Len(vs) : xs'[Len(xs) + j] = vs[j]
AddAllAppends == [][AddAllAppendsA]_mcvars
SetPointA == A = "Set" =>
               /\ Len(xs') = Len(xs)
               /\ \A j \in 1..Len(xs) : xs'[j] = IF j = AI + 1 THEN AV ELSE xs[j]
SetPoint == [][SetPointA]_mcvars
\* a typed list has no public removal: it never shrinks
GrowOnlyA == Mode = "typed" => Len(xs') >= Len(xs)
GrowOnly == [][GrowOnlyA]_mcvars

\* Get answers the element for exactly the indices 0..size-1 and fails for every other
GetNeverStale == \A i \in -2..(MaxLen + 2) :
                    IF 0 <= i /\ i < Len(xs) THEN GetRes(i) = <<xs[i + 1]>> /\ ~SetFails(i)
                    ELSE GetRes(i) = <<>> /\ SetFails(i)
\* filtering by the identity / the reversed index list / a bad index
FilterLaws == /\ FilterRes([j \in 1..Len(xs) |-> j - 1]) = <<xs>>
              /\ FilterRes([j \in 1..Len(xs) |-> Len(xs) - j]) = <<Rev(xs)>>
              /\ FilterRes(<<0, Len(xs)>>) = <<>>
              /\ FilterRes(<<>>) = <<<<>>>>
              /\ \A i \in 0..(Len(xs) - 1) : FilterRes(<<i, i>>) = <<<<xs[i + 1], xs[i + 1]>>>>

\* ---- retained results and arguments: no aliasing ---------------------------
\* (formulated on the variables, not with KeepAt / HeldWrite / HeldAppend / SwapHeld)
HeldOps == {"HeldSet", "HeldAdd"}
Keepers == {"ToArray", "Filter", "AddAllArray"}
OthersKeep(h) == /\ Len(held') >= Len(held)
                 /\ \A g \in 1..Len(held) : g # h => held'[g] = held[g]
\* writing into / adding to a retained thing changes that thing only
WriteStaysA == A \in HeldOps =>
                 /\ xs' = xs /\ Len(held') = Len(held) /\ OthersKeep(AI)
                 /\ A = "HeldSet" => /\ Len(held'[AI]) = Len(held[AI])
                                     /\ \A j \in 1..Len(held[AI]) :
                                           held'[AI][j] = IF j = AS[1] + 1 THEN AV ELSE held[AI][j]
                 /\ A = "HeldAdd" => held'[AI] = Append(held[AI], AV)
WriteStays == [][WriteStaysA]_mcvars
\* no call on the list changes a thing the caller retained earlier; what a call
\* hands out is the list's contents (the selected elements) as of that call, what it
\* is handed stays what was handed in
SnapshotA == /\ A \in {"Add", "Set"} => held' = held
             /\ A \in Keepers => /\ OthersKeep(AI)
                                  /\ Len(held') = (IF AI > Len(held) THEN Len(held) + 1 ELSE Len(held))
                                  /\ AI \in 1..Len(held')
             /\ A = "ToArray" => held'[AI] = xs /\ xs' = xs
             /\ A = "Filter" => /\ xs' = xs /\ Len(held'[AI]) = Len(AS)
                                /\ \A j \in 1..Len(AS) : held'[AI][j] = xs[AS[j] + 1]
             /\ A = "AddAllArray" => held'[AI] = AS
Snapshot == [][SnapshotA]_mcvars
SwapA == A = "Swap" => xs' = held[AI] /\ held'[AI] = xs /\ OthersKeep(AI) /\ Len(held') = Len(held)
SwapP == [][SwapA]_mcvars
HeldBounded == Len(held) <= MaxHeld /\ \A h \in 1..Len(held) : Len(held[h]) <= MaxLen

\* ---- linked list ---------------------------------------------------------
AddFirstA == A = "AddFirst" => xs'[1] = AV /\ Tail(xs') = xs
AddFirstP == [][AddFirstA]_mcvars
PutBeforeA == A = "PutBefore" =>
                /\ Len(xs') = Len(xs) + 1
                /\ xs'[AI + 1] = AV
                /\ \A j \in 1..Len(xs) : xs[j] = IF j <= AI THEN xs'[j] ELSE xs'[j + 1]
PutBeforeP == [][PutBeforeA]_mcvars
RemoveA == A = "Remove" =>
             /\ Len(xs') = Len(xs) - 1
             /\ \A j \in 1..Len(xs') : xs'[j] = IF j <= AI THEN xs[j] ELSE xs[j + 1]
RemoveP == [][RemoveA]_mcvars
RemoveEndsA == /\ A = "RemoveFirst" => (IF xs = <<>> THEN xs' = xs ELSE <<xs[1]>> \o xs' = xs)
               /\ A = "RemoveLast" => (IF xs = <<>> THEN xs' = xs ELSE Append(xs', xs[Len(xs)]) = xs)
RemoveEnds == [][RemoveEndsA]_mcvars
ClearA == A = "Clear" => xs' = <<>>
ClearP == [][ClearA]_mcvars
EndsLaw == /\ (xs = <<>>) <=> (FirstRes = <<>>)
           /\ (xs = <<>>) <=> (LastRes = <<>>)
           /\ xs # <<>> => FirstRes = <<Head(xs)>> /\ LastRes = <<xs[Len(xs)]>>
Bounded == Len(xs) <= MaxLen

\* ---- sorting ----------------------------------------------------------------
N == Len(xs)
ChildOf(two) == IF two THEN aux.child ELSE NoChild(N)
\* the relation can always be satisfied
Satisfiable == (Mode = "sort" /\ ~aux.done) =>
   \A asc \in BOOLEAN, casc \in BOOLEAN, two \in BOOLEAN :
      \E perm \in Perms(N) : IsOrderingPermutation(perm, xs, ChildOf(two), asc, casc)
\* a reference sort (declarative: the position of an element is the number of
\* elements strictly before it in the total order primary, child, index)
Before(a, b, ch, asc, casc) ==
   IF xs[a] # xs[b] THEN (IF asc THEN xs[a] < xs[b] ELSE xs[a] > xs[b])
   ELSE IF ch[a] # ch[b] THEN (IF casc THEN ch[a] < ch[b] ELSE ch[a] > ch[b])
   ELSE a < b
RefPerm(ch, asc, casc) ==
   LET pos(a) == Cardinality({b \in 1..N : Before(b, a, ch, asc, casc)})
   IN [k \in 1..N |-> (CHOOSE a \in 1..N : pos(a) = k - 1) - 1]
RefSortAccepted == (Mode = "sort" /\ ~aux.done) =>
   \A asc \in BOOLEAN, casc \in BOOLEAN, two \in BOOLEAN :
      IsOrderingPermutation(RefPerm(ChildOf(two), asc, casc), xs, ChildOf(two), asc, casc)
\* a permutation that is not one, or that misorders, is refused
RefusesBad == (Mode = "sort" /\ ~aux.done /\ N >= 2) =>
   /\ ~IsOrderingPermutation([k \in 1..N |-> 0], xs, aux.child, TRUE, TRUE)
   /\ \A asc \in BOOLEAN, casc \in BOOLEAN :
        LET r == RefPerm(aux.child, asc, casc)
            sw == [r EXCEPT ![1] = r[2], ![2] = r[1]]       \* first two swapped
            strict == xs[r[1] + 1] # xs[r[2] + 1] \/ aux.child[r[1] + 1] # aux.child[r[2] + 1]
        IN strict => ~IsOrderingPermutation(sw, xs, aux.child, asc, casc)
\* whatever permutation was accepted: filtering by it gives GLOBALLY sorted lists
\* holding exactly the elements of the originals
Count(s, v) == Cardinality({i \in 1..Len(s) : s[i] = v})
SortedResult == (Mode = "sort" /\ aux.done) =>
   LET ch == ChildOf(aux.two)
       fp == Filtering(aux.perm)                                  \* primary, filtered
       fc == [j \in 1..N |-> ch[aux.perm[j] + 1]]                 \* child, filtered
   IN /\ FilterOK(aux.perm)
      /\ \A v \in Vals : Count(fp, v) = Count(xs, v)
      /\ \A i, j \in 1..N : i < j =>
            /\ IF aux.asc THEN fp[i] <= fp[j] ELSE fp[i] >= fp[j]
            /\ fp[i] = fp[j] => (IF aux.casc THEN fc[i] <= fc[j] ELSE fc[i] >= fc[j])
      /\ \A v \in Vals, w \in Vals :
            Cardinality({j \in 1..N : fp[j] = v /\ fc[j] = w}) = Cardinality({j \in 1..N : xs[j] = v /\ ch[j] = w})

\* ---- wire form --------------------------------------------------------------
WireRoundTrip == Mode = "wire" =>
   LET b == Wire(T, xs)
       d == Unwire(T, b)
   IN /\ IsBytes(b)
      /\ SubSeq(b, 1, 3) = NatToBytes(Len(xs), 3)
      /\ d.ok /\ d.v = xs /\ d.next = Len(b) + 1
      /\ ~Unwire(T, SubSeq(b, 1, Len(b) - 1)).ok                  \* truncated
      /\ Unwire(T, b \o <<7>>).next = Len(b) + 1                  \* self-delimiting

\* ---- (B) the complete labelled state graph, one line per transition ------
DumpT == PrintT(ToJson(<<"T", xs, act', xs'>>))

View == <<vars, aux>>
=============================================================================
