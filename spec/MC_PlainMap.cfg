SPECIFICATION MCSpec
CONSTANTS Keys = {1, 2, 3}
          Vals = {0, 1}
          MaxVal = 2
          IsSet = FALSE
          None <- NoneZero
          Rej = FALSE
          EK = 0
          TName = "IntIntMap"
          NHeld = 0
          NEnum = 0
VIEW View
ACTION_CONSTRAINT DumpT
INVARIANTS SetOK RefuseOK KeysBagExact ValuesBagExact EntriesBagExact WireRoundTrip NilIsAValue
PROPERTIES Frame PutStores RefusalInert AddSums AddIfExistNeverCreates RemoveExact ClearEmpties PutAllIsPuts ReadOnlyKeeps OthersKept PutAllFromIsPuts SizeLaw
CHECK_DEADLOCK FALSE
