-------------------------------- MODULE BitIp --------------------------------
(***************************************************************************)
(* C15 (part 3) -- composite keys (util/bitutil) and IPv4 conversions      *)
(* (util/iputil).  Pure operators over byte tuples.                        *)
(*                                                                         *)
(* A key of 2n bytes is the concatenation of a high and a low half of n    *)
(* bytes each (n = 1, 2, 4: Composite16/32/64); halves and keys are their  *)
(* two's complement bytes, so "signed" plays no role: composing and        *)
(* splitting only move bytes.                                              *)
(*                                                                         *)
(* An IPv4 address is 4 bytes; as an int32 it is the same 4 bytes read     *)
(* big-endian; as text it is the four octets in decimal (no sign, no       *)
(* leading zeros) joined by dots.                                          *)
(***************************************************************************)
EXTENDS Bytes

Composite(h, w) == h \o w
GetHigh(k)      == High(k, Len(k) \div 2)
GetLow(k)       == Low(k, Len(k) \div 2)
SetHigh(k, h)   == h \o GetLow(k)
SetLow(k, w)    == GetHigh(k) \o w

-----------------------------------------------------------------------------
DOT == 46

\* decimal text of an octet
OctetText(b) == IF b < 10 THEN <<48 + b>>
                ELSE IF b < 100 THEN <<48 + (b \div 10), 48 + (b % 10)>>
                ELSE <<48 + (b \div 100), 48 + ((b \div 10) % 10), 48 + (b % 10)>>

IpText(a) == OctetText(a[1]) \o <<DOT>> \o OctetText(a[2]) \o <<DOT>> \o OctetText(a[3]) \o <<DOT>> \o OctetText(a[4])

\* the int32 of an address and back: the same bytes, most significant first
IpInt(a)      == a
IpFromInt(v)  == v

\* --- reading a dotted quad -------------------------------------------------
Dots(t) == {i \in 1..Len(t) : t[i] = DOT}
IsDec(s) == Len(s) \in 1..3 /\ \A i \in 1..Len(s) : s[i] \in 48..57
DecVal(s) == IF Len(s) = 1 THEN s[1] - 48
             ELSE IF Len(s) = 2 THEN (s[1] - 48) * 10 + (s[2] - 48)
             ELSE (s[1] - 48) * 100 + (s[2] - 48) * 10 + (s[3] - 48)

\* the four fields of a text with exactly three dots
Fields(t) == LET ds == Dots(t)
                 d1 == CHOOSE d \in ds : \A e \in ds : d <= e
                 d3 == CHOOSE d \in ds : \A e \in ds : d >= e
                 d2 == CHOOSE d \in ds : d # d1 /\ d # d3
             IN <<Slice(t, 1, d1 - 1), Slice(t, d1 + 1, d2 - d1 - 1),
                  Slice(t, d2 + 1, d3 - d2 - 1), From(t, d3 + 1)>>

\* the texts the parser is specified on: four decimal fields of 1..3 digits, each at most 255
\* (leading zeros are read).  Anything else is outside the property.
IpReadable(t) == /\ Cardinality(Dots(t)) = 3
                 /\ \A i \in 1..4 : IsDec(Fields(t)[i]) /\ DecVal(Fields(t)[i]) <= 255

IpParse(t) == LET f == Fields(t) IN <<DecVal(f[1]), DecVal(f[2]), DecVal(f[3]), DecVal(f[4])>>
=============================================================================
