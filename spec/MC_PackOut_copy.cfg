SPECIFICATION MCSpec
CONSTANTS Mode = "pool_copy"
          MaxViews = 3
INVARIANTS HeldStable ViewsOK
CHECK_DEADLOCK FALSE
