----------------------------- MODULE MC_UdpMask -----------------------------
(***************************************************************************)
(* C07 part 3 on the design: every connection string of at most MaxToks     *)
(* tokens over a small universe of keys, values (with and without an        *)
(* embedded "=") and both separators, rewritten by the two-pass design      *)
(* (MaskText), keeps no symbol of a password value.  Tokens contain no      *)
(* separator inside a key or a value (a value containing the separator is   *)
(* not expressible in the format: it reads as two tokens).                  *)
(* Capitalised keys are outside the law (information only).                 *)
(* An atom (key, value part, bare word) stands for ANY spelling without     *)
(* the three structural characters ' ' ';' '=': quote characters,           *)
(* backslashes, brackets, escapes, control characters and multi-byte runes  *)
(* mean nothing to the design.  The harness runs every sequence of this     *)
(* universe on the real code in this spelling and in other spellings.       *)
(***************************************************************************)
EXTENDS UdpPack, TLC

CONSTANT MaxToks

MCNotCleared == {}

Seps == {" ", ";"}
Toks == [k : {"password"}, v : {<<"S1">>, <<"S1", "=", "S2">>, <<>>}, s : Seps]
   \cup [k : {"user"},     v : {<<"u">>, <<"u", "=", "w">>, <<>>}, s : Seps]
   \cup [k : {"Password"}, v : {<<"c">>}, s : Seps]
   \cup [k : {""},         v : {<<"b">>}, s : Seps]

\* the separator of the last token is not rendered: fix it
TokSeqs == UNION {{q \in [1..n -> Toks] : q[n].s = " "} : n \in 1..MaxToks}

MCNext == /\ mk = None
          /\ \E fam \in MaskFamilies, q \in TokSeqs : PostProcess(fam, q, MaskText(Render(q)))
MCSpec == Init /\ [][MCNext]_vars

\* the masked text still has one piece per ";"-piece of the first pass' output
\* and a masked password piece reads password=#
MaskedForm == mk # None =>
   \A i \in 1..Len(mk.out) : mk.out[i] = "password" =>
        (i + 2 <= Len(mk.out) /\ mk.out[i + 1] = "=" /\ mk.out[i + 2] = MaskSym)

\* information only: the design masks the exact lowercase key; a capitalised key
\* keeps its value (MC_UdpMask_capital.cfg lets TLC exhibit it)
CapitalAlsoMasked == mk # None => "c" \notin Range(mk.out)
=============================================================================
