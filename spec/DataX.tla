------------------------------- MODULE DataX --------------------------------
(***************************************************************************)
(* C01 -- the primitive stream codec of golib (io/DataOutputX, DataInputX).*)
(*                                                                         *)
(* Part 1: the REFERENCE FORMAT as pure operators over byte tuples,        *)
(*         written from the layout, sharing nothing with golib:            *)
(*         Enc(op, v)  -- the bytes one write of kind op appends           *)
(*         Dec(op, b, p) -- [v |-> value, next |-> position after it]      *)
(* Part 2: the stream as a state machine (writer then reader), one action  *)
(*         per public call; properties as invariants.                      *)
(*                                                                         *)
(* Value representation (see Bytes.tla): integers are 8-byte two's         *)
(* complement tuples ("W8"), floats their IEEE bit patterns (4 or 8 bytes),*)
(* text/blobs byte tuples, arrays tuples of element values, bool BOOLEAN,  *)
(* byte 0..255.                                                            *)
(***************************************************************************)
EXTENDS Bytes

FixedWidth == [Short |-> 2, UShort |-> 2, UShortB |-> 2, Int3 |-> 3, Int |-> 4, UInt |-> 4,
               Long5 |-> 5, Long |-> 8]
SignedFixed   == {"Short", "Int3", "Int", "Long5", "Long"}
UnsignedFixed == {"UShort", "UShortB", "UInt"}
FloatWidth == [Float |-> 4, Double |-> 8]
ArrayElem == [ShortArr |-> "Short", IntArr |-> "Int", LongArr |-> "Long",
              FloatArr |-> "Float", DoubleArr |-> "Double", TextArr |-> "Text"]
ScalarOps == {"Bool", "Byte", "Decimal", "Blob", "Text", "ShortBytes", "IntBytes", "TextShort", "Raw"}
               \cup DOMAIN FixedWidth \cup DOMAIN FloatWidth
ArrayOps == DOMAIN ArrayElem
Ops == ScalarOps \cup ArrayOps

DecimalClasses == {0, 1, 2, 3, 4, 5, 8}

\* the least admissible length class of the W8 value v
DecimalClass(v) == CHOOSE k \in DecimalClasses :
                      /\ FitsSigned(v, k)
                      /\ \A j \in DecimalClasses : j < k => ~FitsSigned(v, j)

EncDecimal(v) == LET k == DecimalClass(v) IN <<k>> \o Low(v, k)

\* blob length prefix: 1 byte up to 253, 255 + 16 bit, 254 + 32 bit
BlobPrefix(n) == IF n <= 253 THEN <<n>>
                 ELSE IF n <= 65535 THEN <<255>> \o NatToBytes(n, 2)
                 ELSE <<254>> \o NatToBytes(n, 4)
EncBlob(bs) == BlobPrefix(Len(bs)) \o bs

EncScalar(op, v) ==
  CASE op = "Bool"       -> IF v THEN <<1>> ELSE <<0>>
    [] op = "Byte"       -> <<v>>
    [] op \in DOMAIN FixedWidth -> Low(v, FixedWidth[op])
    [] op \in DOMAIN FloatWidth -> v
    [] op = "Decimal"    -> EncDecimal(v)
    [] op = "Blob"       -> EncBlob(v)
    [] op = "Text"       -> EncBlob(v)
    [] op = "ShortBytes" -> NatToBytes(Len(v), 2) \o v
    [] op = "TextShort"  -> NatToBytes(Len(v), 2) \o v
    [] op = "IntBytes"   -> NatToBytes(Len(v), 4) \o v
    [] op = "Raw"        -> v          \* WriteBytes / Write(b, off, n): the bytes as they are, no prefix

\* element width of the fixed-width array kinds (text arrays are variable)
ArrayElemWidth == [ShortArr |-> 2, IntArr |-> 4, LongArr |-> 8, FloatArr |-> 4, DoubleArr |-> 8]

\* body of a fixed-width array, by index arithmetic (no recursion: arrays of
\* 32767 elements are within the stated range)
EncFixedElems(eop, w, v) ==
  [i \in 1..(Len(v) * w) |-> EncScalar(eop, v[((i - 1) \div w) + 1])[((i - 1) % w) + 1]]

Enc(op, v) ==
  IF op \in DOMAIN ArrayElemWidth
  THEN NatToBytes(Len(v), 2) \o EncFixedElems(ArrayElem[op], ArrayElemWidth[op], v)
  ELSE IF op \in ArrayOps
  THEN NatToBytes(Len(v), 2) \o Concat([i \in 1..Len(v) |-> EncScalar(ArrayElem[op], v[i])])
  ELSE EncScalar(op, v)

\* is v a value the kind op can carry (the write is value preserving)?
InRange(op, v) ==
  CASE op \in SignedFixed   -> FitsSigned(v, FixedWidth[op])
    [] op \in UnsignedFixed -> FitsUnsigned(v, FixedWidth[op])
    [] op \in {"ShortBytes", "TextShort"} -> Len(v) <= 65535
    [] op \in ArrayOps -> Len(v) <= 32767
    [] OTHER -> TRUE

(***************************************************************************)
(* Decoder of the reference format.  b = whole stream, p = 1-based cursor. *)
(* A request beyond the end of b yields ok |-> FALSE (C04: fail closed).   *)
(***************************************************************************)
Have(b, p, n) == n >= 0 /\ p + n - 1 <= Len(b)
Bad == [ok |-> FALSE, v |-> <<>>, next |-> 0]
Good(v, next) == [ok |-> TRUE, v |-> v, next |-> next]

DecBlobAt(b, p) ==
  IF ~Have(b, p, 1) THEN Bad
  ELSE LET m == b[p] IN
       IF m = 255 THEN
            IF ~Have(b, p + 1, 2) THEN Bad
            ELSE LET n == BytesToNat(Slice(b, p + 1, 2)) IN
                 IF Have(b, p + 3, n) THEN Good(Slice(b, p + 3, n), p + 3 + n) ELSE Bad
       ELSE IF m = 254 THEN
            IF ~Have(b, p + 1, 4) THEN Bad
            ELSE IF b[p + 1] >= 128 THEN Bad    \* negative 32-bit length
            ELSE LET n == BytesToNat(Slice(b, p + 1, 4)) IN
                 IF Have(b, p + 5, n) THEN Good(Slice(b, p + 5, n), p + 5 + n) ELSE Bad
       ELSE IF Have(b, p + 1, m) THEN Good(Slice(b, p + 1, m), p + 1 + m) ELSE Bad

DecLenPrefixed(b, p, w) ==
  IF ~Have(b, p, w) THEN Bad
  ELSE IF w = 4 /\ b[p] >= 128 THEN Bad
  ELSE LET n == BytesToNat(Slice(b, p, w)) IN
       IF Have(b, p + w, n) THEN Good(Slice(b, p + w, n), p + w + n) ELSE Bad

DecScalar(op, b, p) ==
  CASE op = "Bool" -> IF Have(b, p, 1) THEN Good(b[p] = 1, p + 1) ELSE Bad
    [] op = "Byte" -> IF Have(b, p, 1) THEN Good(b[p], p + 1) ELSE Bad
    [] op \in SignedFixed ->
         LET w == FixedWidth[op] IN
         IF Have(b, p, w) THEN Good(SignExt(Slice(b, p, w), 8), p + w) ELSE Bad
    [] op \in UnsignedFixed ->
         LET w == FixedWidth[op] IN
         IF Have(b, p, w) THEN Good(ZeroExt(Slice(b, p, w), 8), p + w) ELSE Bad
    [] op \in DOMAIN FloatWidth ->
         LET w == FloatWidth[op] IN
         IF Have(b, p, w) THEN Good(Slice(b, p, w), p + w) ELSE Bad
    [] op = "Decimal" ->
         IF ~Have(b, p, 1) THEN Bad
         ELSE LET k == IF b[p] \in {0, 1, 2, 3, 4, 5} THEN b[p] ELSE 8 IN
              IF Have(b, p + 1, k)
              THEN Good(IF k = 0 THEN Zeros(8) ELSE SignExt(Slice(b, p + 1, k), 8), p + 1 + k)
              ELSE Bad
    [] op \in {"Blob", "Text"} -> DecBlobAt(b, p)
    [] op \in {"ShortBytes", "TextShort"} -> DecLenPrefixed(b, p, 2)
    [] op = "IntBytes" -> DecLenPrefixed(b, p, 4)

\* decode n elements of kind eop starting at p
RECURSIVE DecElems(_, _, _, _, _)
DecElems(eop, b, p, n, acc) ==
  IF n = 0 THEN Good(acc, p)
  ELSE Bind(DecScalar(eop, b, p),
            LAMBDA d : IF d.ok THEN DecElems(eop, b, d.next, n - 1, Append(acc, d.v)) ELSE Bad)

Dec(op, b, p) ==
  IF op \in ArrayOps
  THEN IF ~Have(b, p, 2) THEN Bad
       ELSE IF b[p] >= 128 THEN Bad           \* negative 16-bit count
       ELSE LET n == BytesToNat(Slice(b, p, 2)) IN
            IF op \in DOMAIN ArrayElemWidth
            THEN LET w == ArrayElemWidth[op] IN
                 IF ~Have(b, p + 2, n * w) THEN Bad
                 ELSE Good([i \in 1..n |-> DecScalar(ArrayElem[op], b, p + 2 + (i - 1) * w).v],
                           p + 2 + n * w)
            ELSE DecElems(ArrayElem[op], b, p + 2, n, <<>>)
  ELSE DecScalar(op, b, p)

\* Raw bytes carry no length: the matching read is ReadBytes(n) with the number n of bytes that were written.
DecRaw(b, p, n) == IF Have(b, p, n) THEN Good(Slice(b, p, n), p + n) ELSE Bad

\* decode n variable-length elements by halving: the same result as DecElems, recursion depth log n
\* (DecElems is linear in depth, which TLC pays more than quadratically: text arrays of 32767 elements)
RECURSIVE DecElemsDC(_, _, _, _)
DecElemsDC(eop, b, p0, n0) ==
  Bind(<<p0, n0>>, LAMBDA a :      \* position and count bound by VALUE (as lazy arguments they are re-evaluated
    LET p == a[1]                  \* through the whole chain of callers at every use: exponential in the depth)
        n == a[2] IN
    IF n = 0 THEN Good(<<>>, p)
    ELSE IF n = 1 THEN Bind(DecScalar(eop, b, p), LAMBDA d : IF d.ok THEN Good(<<d.v>>, d.next) ELSE Bad)
    ELSE Bind(DecElemsDC(eop, b, p, n \div 2),
              LAMBDA x : IF ~x.ok THEN Bad
                         ELSE Bind(DecElemsDC(eop, b, x.next, n - (n \div 2)),
                                   LAMBDA y : IF y.ok THEN Good(x.v \o y.v, y.next) ELSE Bad)))

\* the matching read of the program element <<op, v>> at position p of b: Dec for every kind that is
\* self-describing, ReadBytes(Len(v)) for raw bytes.  (Variable-length arrays go through the halving decoder.)
DecFor(op, v, b, p) ==
  IF op = "Raw" THEN DecRaw(b, p, Len(v))
  ELSE IF op \in ArrayOps \ DOMAIN ArrayElemWidth
  THEN IF ~Have(b, p, 2) THEN Bad
       ELSE IF b[p] >= 128 THEN Bad
       ELSE DecElemsDC(ArrayElem[op], b, p + 2, BytesToNat(Slice(b, p, 2)))
  ELSE Dec(op, b, p)

\* flatten by halving (Concat of Bytes.tla is linear in depth)
RECURSIVE ConcatDC(_, _, _)
ConcatDC(ss, lo0, hi0) ==
  Bind(<<lo0, hi0>>, LAMBDA a :    \* bounds bound by value (see DecElemsDC)
    LET lo == a[1]
        hi == a[2] IN
    IF lo > hi THEN <<>>
    ELSE IF lo = hi THEN ss[lo]
    ELSE ConcatDC(ss, lo, (lo + hi) \div 2) \o ConcatDC(ss, ((lo + hi) \div 2) + 1, hi))

\* Enc as the stream appends it: the same bytes as Enc, variable-length arrays flattened by halving
EncFor(op, v) ==
  IF op \in ArrayOps \ DOMAIN ArrayElemWidth
  THEN NatToBytes(Len(v), 2) \o Bind([i \in 1..Len(v) |-> EncScalar(ArrayElem[op], v[i])], LAMBDA ss : ConcatDC(ss, 1, Len(ss)))
  ELSE Enc(op, v)

\* what a matching read returns for a written value (nil == empty; the
\* unsigned kinds return the zero extension)
Canon(op, v) == v

\* little-endian helpers for foreign formats: the byte-reversed layout
LEWidth == [ShortLE |-> 2, UShortLE |-> 2, IntLE |-> 4, UIntLE |-> 4, LongLE |-> 8, ULongLE |-> 8]
LEBase  == [ShortLE |-> "Short", UShortLE |-> "UShort", IntLE |-> "Int", UIntLE |-> "UInt",
            LongLE |-> "Long", ULongLE |-> "Long"]
DecLE(op, bs) == Dec(LEBase[op], Rev(bs), 1).v

(***************************************************************************)
(* Part 2: the stream.                                                     *)
(***************************************************************************)
VARIABLES buf,      \* bytes produced so far
          written,  \* what Size() reports
          prog,     \* sequence of <<op, v>> written
          rpos,     \* reader cursor (1-based), 0 while still writing
          rd        \* values read back so far

vars == <<buf, written, prog, rpos, rd>>

Init == buf = <<>> /\ written = 0 /\ prog = <<>> /\ rpos = 0 /\ rd = <<>>

\* one write call of kind op with value v
W(op, v) ==
  /\ rpos = 0
  /\ InRange(op, v)
  /\ \E e \in {EncFor(op, v)} : buf' = buf \o e /\ written' = written + Len(e)   \* (bound by value)
  /\ prog' = Append(prog, <<op, v>>)
  /\ UNCHANGED <<rpos, rd>>

\* the reader is opened over the produced bytes
Open == rpos = 0 /\ rpos' = 1 /\ UNCHANGED <<buf, written, prog, rd>>

\* the matching read for the next element of the program
R ==
  /\ rpos > 0
  /\ Len(rd) < Len(prog)
  /\ \E d \in {DecFor(prog[Len(rd) + 1][1], prog[Len(rd) + 1][2], buf, rpos)} :   \* (bound by value)
        /\ d.ok
        /\ rd' = Append(rd, d.v)
        /\ rpos' = d.next
  /\ UNCHANGED <<buf, written, prog>>

\* ---- properties ---------------------------------------------------------
SizeOK == written = Len(buf)

\* everything read so far equals what was written, in order
ReadBack == \A i \in 1..Len(rd) : rd[i] = Canon(prog[i][1], prog[i][2])

\* when every element has been read the cursor is exactly at the end
ExactConsumption == (rpos > 0 /\ Len(rd) = Len(prog)) => rpos = Len(buf) + 1

\* the reader can always continue: a well-formed stream never fails
NoStuck == (rpos > 0 /\ Len(rd) < Len(prog)) =>
              DecFor(prog[Len(rd) + 1][1], prog[Len(rd) + 1][2], buf, rpos).ok

\* canonical decimal: no shorter class holds the value
Canonical == \A i \in 1..Len(prog) :
               prog[i][1] = "Decimal" =>
                  LET k == DecimalClass(prog[i][2]) IN
                    /\ FitsSigned(prog[i][2], k)
                    /\ \A j \in DecimalClasses : j < k => ~FitsSigned(prog[i][2], j)

\* self-delimiting: an element decodes the same whatever follows it
SelfDelimiting == \A i \in 1..Len(prog) :
   LET e == Enc(prog[i][1], prog[i][2])
       d == DecFor(prog[i][1], prog[i][2], e \o <<7, 7>>, 1)
   IN d.ok /\ d.v = Canon(prog[i][1], prog[i][2]) /\ d.next = Len(e) + 1
=============================================================================
