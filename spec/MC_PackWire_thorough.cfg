SPECIFICATION MCSpec
CONSTANTS MaxFrames = 1
          Level = "deep"
INVARIANTS Intact Cursor NoStuck HistOK MsgFrame MsgDecodes MsgDelimits MsgPrefixes MsgHeader MsgTagHash MsgStable CounterSkippable
CHECK_DEADLOCK FALSE
