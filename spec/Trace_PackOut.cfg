SPECIFICATION TraceSpec
CONSTRAINT Hwm
POSTCONDITION TraceAccepted
CHECK_DEADLOCK FALSE
